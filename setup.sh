#!/bin/sh
# Builds the framework offline from files on disk. Run once after a fresh restore.
set -e
cd "$(dirname "$0")"
export GOFLAGS=-mod=mod GOPROXY=off GOSUMDB=off GOTOOLCHAIN=local
mkdir -p bin evidence replays
go build -o bin/vdriver ./cmd/vdriver
go vet ./... >/dev/null
# warm the build cache for the property test binaries
for d in props/*/; do
  go test -c -o /dev/null "./$d" >/dev/null
done
echo "setup ok"
