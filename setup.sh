#!/bin/sh
# Builds the framework offline from files on disk. Run once after a fresh restore.
set -e
cd "$(dirname "$0")"
export GOFLAGS=-mod=mod GOPROXY=off GOSUMDB=off GOTOOLCHAIN=local GOCACHE="${VERIF_GOCACHE:-/var/tmp/verif-gocache}"
mkdir -p bin evidence replays
go build -o bin/vdriver ./cmd/vdriver
go vet ./cmd/... ./internal/... ./subjectlib/... ./props/... >/dev/null
# warm the build cache for the property test binaries
for d in props/*/; do
  go test -c -o /dev/null "./$d" >/dev/null
done
# self-test of the reference library (a wrong reference is the main false-alarm risk), also under the
# go1.26.8 race build used by the concurrency checks (this warms that toolchain's build cache)
go test -count=1 ./subjectlib/vref/ -rapid.checks=1500 -rapid.nofailfile >/dev/null
GOTOOLCHAIN=local go1.26.8 test -race -count=1 ./subjectlib/vref/ -rapid.checks=200 -rapid.nofailfile >/dev/null
# the model scheduler against real channels (differential) and against a known-buggy join
go test -count=1 ./subjectlib/sched/ -run 'TestDifferentialNonBlocking|TestExploreJoinPOR' -rapid.checks=2000 -rapid.nofailfile >/dev/null
echo "setup ok"
