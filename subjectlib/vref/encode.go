package vref

import (
	"fmt"
	"math"
	"reflect"
	"sort"
	"strconv"
	"strings"
)

// EncOpt controls the canonical encoding.
type EncOpt struct {
	Sharing  bool // tag pointers with first-occurrence ids, so aliasing is visible
	Cap      bool // include slice capacities
	NormZero bool // encode -0 as +0 (values that are == encode the same)
}

// Encode returns a canonical text for v: nil vs empty, lengths, map entries sorted by encoded key,
// floats as bit patterns, strings as quoted bytes. Two values have the same tree encoding
// (Sharing=false, NormZero=true) exactly when they are structurally equal in the sense of Eq.
func Encode(v reflect.Value, o EncOpt) string {
	e := &encoder{o: o, ids: map[uintptr]int{}}
	var sb strings.Builder
	e.enc(&sb, v)
	return sb.String()
}

// Key is the tree encoding used for counting distinct cases and as equivalence-class key.
func Key(v reflect.Value) string { return Encode(v, EncOpt{NormZero: true}) }

// Snapshot is the encoding used for "argument not modified" checks (bit-exact, with sharing and capacity).
func Snapshot(v reflect.Value) string { return Encode(v, EncOpt{Sharing: true, Cap: true}) }

type encoder struct {
	o   EncOpt
	ids map[uintptr]int
}

func (e *encoder) float(f float64) string {
	if e.o.NormZero && f == 0 {
		f = 0
	}
	return "f" + strconv.FormatUint(math.Float64bits(f), 16)
}

func (e *encoder) enc(sb *strings.Builder, v reflect.Value) {
	switch v.Kind() {
	case reflect.Bool:
		if v.Bool() {
			sb.WriteString("T")
		} else {
			sb.WriteString("F")
		}
	case reflect.Int, reflect.Int8, reflect.Int16, reflect.Int32, reflect.Int64:
		sb.WriteString(strconv.FormatInt(v.Int(), 10))
	case reflect.Uint, reflect.Uint8, reflect.Uint16, reflect.Uint32, reflect.Uint64, reflect.Uintptr:
		sb.WriteString("u" + strconv.FormatUint(v.Uint(), 10))
	case reflect.Float32, reflect.Float64:
		sb.WriteString(e.float(v.Float()))
	case reflect.Complex64, reflect.Complex128:
		c := v.Complex()
		sb.WriteString("c(" + e.float(real(c)) + "," + e.float(imag(c)) + ")")
	case reflect.String:
		sb.WriteString(strconv.Quote(v.String()))
	case reflect.Ptr:
		if v.IsNil() {
			sb.WriteString("nil")
			return
		}
		if e.o.Sharing {
			p := v.Pointer()
			if id, ok := e.ids[p]; ok && v.Type().Elem().Size() > 0 {
				fmt.Fprintf(sb, "&#%d", id)
				return
			}
			id := len(e.ids)
			e.ids[p] = id
			fmt.Fprintf(sb, "&%d:", id)
		} else {
			sb.WriteString("&")
		}
		e.enc(sb, v.Elem())
	case reflect.Slice:
		if v.IsNil() {
			sb.WriteString("nil")
			return
		}
		sb.WriteString("[")
		if e.o.Cap {
			fmt.Fprintf(sb, "cap%d:", v.Cap())
		}
		for i := 0; i < v.Len(); i++ {
			if i > 0 {
				sb.WriteString(",")
			}
			e.enc(sb, v.Index(i))
		}
		sb.WriteString("]")
	case reflect.Array:
		sb.WriteString("<")
		for i := 0; i < v.Len(); i++ {
			if i > 0 {
				sb.WriteString(",")
			}
			e.enc(sb, v.Index(i))
		}
		sb.WriteString(">")
	case reflect.Map:
		if v.IsNil() {
			sb.WriteString("nil")
			return
		}
		type kv struct {
			k  string
			v  reflect.Value
			vs string
			id string
		}
		var items []kv
		it := v.MapRange()
		for it.Next() {
			var kb strings.Builder
			ke := &encoder{o: EncOpt{NormZero: true}, ids: map[uintptr]int{}} // keys are value types; == normalises zero
			ke.enc(&kb, it.Key())
			item := kv{k: kb.String(), v: it.Value()}
			if !e.o.Sharing {
				// keys that hold pointers can be distinct and still encode alike: break ties by the value
				var vb strings.Builder
				e.enc(&vb, it.Value())
				item.vs = vb.String()
			} else if HoldsPointer(v.Type().Key()) {
				// a snapshot is compared with a later snapshot of the same objects: keys that encode alike are
				// ordered by their value's contents and then by the addresses they hold, which do not change
				item.vs = Encode(it.Value(), EncOpt{Cap: e.o.Cap})
				for _, r := range Addrs(it.Key()) {
					item.id += strconv.FormatUint(uint64(r.Lo), 16) + ","
				}
			}
			items = append(items, item)
		}
		sort.Slice(items, func(i, j int) bool {
			if items[i].k != items[j].k {
				return items[i].k < items[j].k
			}
			if items[i].vs != items[j].vs {
				return items[i].vs < items[j].vs
			}
			return items[i].id < items[j].id
		})
		sb.WriteString("{")
		for i, it := range items {
			if i > 0 {
				sb.WriteString(",")
			}
			sb.WriteString(it.k + ":")
			if !e.o.Sharing {
				sb.WriteString(it.vs)
			} else {
				e.enc(sb, it.v) // values visited in key order, so sharing ids do not depend on map iteration order
			}
		}
		sb.WriteString("}")
	case reflect.Struct:
		sb.WriteString("(")
		for i := 0; i < v.NumField(); i++ {
			if i > 0 {
				sb.WriteString(",")
			}
			if v.Type().Field(i).Name == "_" {
				sb.WriteString("_") // blank fields are not part of the value
				continue
			}
			e.enc(sb, v.Field(i))
		}
		sb.WriteString(")")
	case reflect.Interface:
		if v.IsNil() {
			sb.WriteString("inil")
			return
		}
		d := v.Elem()
		if d.Kind() == reflect.Ptr {
			if er, ok := Readable(d).Interface().(error); ok {
				sb.WriteString("i(error " + strconv.Quote(er.Error()) + ")")
			} else {
				fmt.Fprintf(sb, "i(%s@%#x)", d.Type(), d.Pointer())
			}
			return
		}
		sb.WriteString("i(" + d.Type().String() + " ")
		e.enc(sb, d)
		sb.WriteString(")")
	default:
		panic("vref: Encode unsupported kind " + v.Kind().String())
	}
}
