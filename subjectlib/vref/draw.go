// Package vref is the reference library copied into generated subject modules:
// reflection-based value generators, structural equality, canonical encoding,
// rebuild / single-mutation constructors, address sets and scribbling.
// It shares no code with goderive and does not use reflect.DeepEqual.
package vref

import (
	"context"
	"errors"
	"fmt"
	"io"
	"math"
	"reflect"
	"unsafe"

	"pgregory.net/rapid"
)

// Gen draws values of arbitrary (supported) types by reflection.
type Gen struct {
	T            *rapid.T
	MaxDepth     int  // containers below this depth are forced nil/empty
	Finite       bool // no infinities (GoString)
	NoSharing    bool // tree-shaped values only
	NoNegZero    bool
	pool         map[reflect.Type][]reflect.Value // completed pointers, for sharing
	SmallStrings bool
}

// NewGen returns a generator with the default budget.
func NewGen(t *rapid.T) *Gen {
	return &Gen{T: t, MaxDepth: 5, pool: map[reflect.Type][]reflect.Value{}}
}

// Settable returns an addressable, settable view of v even for unexported struct fields.
func Settable(v reflect.Value) reflect.Value {
	if v.CanSet() {
		return v
	}
	if v.CanAddr() {
		return reflect.NewAt(v.Type(), unsafe.Pointer(v.UnsafeAddr())).Elem()
	}
	return v
}

// Readable returns a view of v on which Interface() and friends work (unexported fields).
func Readable(v reflect.Value) reflect.Value {
	if !v.IsValid() || v.CanInterface() {
		return v
	}
	if v.CanAddr() {
		return reflect.NewAt(v.Type(), unsafe.Pointer(v.UnsafeAddr())).Elem()
	}
	// copy into an addressable slot
	c := reflect.New(v.Type()).Elem()
	copyUnexported(c, v)
	return c
}

func copyUnexported(dst, src reflect.Value) {
	// dst is addressable; src may be a read-only (unexported) value
	switch src.Kind() {
	case reflect.Bool:
		dst.SetBool(src.Bool())
	case reflect.Int, reflect.Int8, reflect.Int16, reflect.Int32, reflect.Int64:
		dst.SetInt(src.Int())
	case reflect.Uint, reflect.Uint8, reflect.Uint16, reflect.Uint32, reflect.Uint64, reflect.Uintptr:
		dst.SetUint(src.Uint())
	case reflect.Float32, reflect.Float64:
		dst.SetFloat(src.Float())
	case reflect.Complex64, reflect.Complex128:
		dst.SetComplex(src.Complex())
	case reflect.String:
		dst.SetString(src.String())
	case reflect.Struct:
		for i := 0; i < src.NumField(); i++ {
			copyUnexported(Settable(dst.Field(i)), src.Field(i))
		}
	case reflect.Array:
		for i := 0; i < src.Len(); i++ {
			copyUnexported(dst.Index(i), src.Index(i))
		}
	default:
		// pointers, slices, maps: the header can be taken through unsafe only if addressable;
		// values of these kinds reach us addressable in practice (struct fields of addressable structs).
		dst.Set(reflect.Zero(src.Type()))
	}
}

var intPool = []int64{0, 1, -1, 2, 3, 7, -7, 100, math.MaxInt8, math.MinInt8, math.MaxInt16, math.MinInt16, math.MaxInt32, math.MinInt32, math.MaxInt64, math.MinInt64, 31, 17}
var uintPool = []uint64{0, 1, 2, 3, 7, 17, 31, 100, math.MaxUint8, math.MaxUint16, math.MaxUint32, math.MaxUint64, 1 << 63}
var floatPool = []float64{0, math.Copysign(0, -1), 1, -1, 0.5, -0.5, 2, 3.25, 1e10, -1e10, math.SmallestNonzeroFloat64, -math.SmallestNonzeroFloat64,
	math.MaxFloat64, -math.MaxFloat64, math.MaxFloat32, math.SmallestNonzeroFloat32, math.Inf(1), math.Inf(-1), 1e21, 123456789.125}
var stringPool = []string{"", "a", "b", "ab", "ba", "Aa", "BB", "é", "日本", "\xff", "a\xffb", "\xe6\x97", "quo\"te", "line\nbreak", "`", "a\x00b", "tab\t", "\\", "abc", "abd", "abé", "\U0001F600", "z"}

func (g *Gen) pickInt(bits int) int64 {
	if rapid.IntRange(0, 3).Draw(g.T, "intsrc") == 0 {
		return rapid.Int64Range(-5, 5).Draw(g.T, "smallint")
	}
	x := intPool[rapid.IntRange(0, len(intPool)-1).Draw(g.T, "intpool")]
	switch bits {
	case 8:
		return int64(int8(x))
	case 16:
		return int64(int16(x))
	case 32:
		return int64(int32(x))
	}
	return x
}

func (g *Gen) pickUint(bits int) uint64 {
	if rapid.IntRange(0, 3).Draw(g.T, "uintsrc") == 0 {
		return rapid.Uint64Range(0, 5).Draw(g.T, "smalluint")
	}
	x := uintPool[rapid.IntRange(0, len(uintPool)-1).Draw(g.T, "uintpool")]
	switch bits {
	case 8:
		return uint64(uint8(x))
	case 16:
		return uint64(uint16(x))
	case 32:
		return uint64(uint32(x))
	}
	return x
}

func (g *Gen) pickFloat(bits int) float64 {
	for {
		x := floatPool[rapid.IntRange(0, len(floatPool)-1).Draw(g.T, "floatpool")]
		if g.Finite && math.IsInf(x, 0) {
			continue
		}
		if g.NoNegZero && x == 0 && math.Signbit(x) {
			continue
		}
		if bits == 32 {
			y := float64(float32(x))
			if g.Finite && math.IsInf(y, 0) {
				continue
			}
			return y
		}
		return x
	}
}

func (g *Gen) pickString() string {
	if rapid.IntRange(0, 5).Draw(g.T, "strsrc") == 0 {
		return rapid.StringOfN(rapid.RuneFrom([]rune("abé\x00z")), 0, 4, -1).Draw(g.T, "str")
	}
	return stringPool[rapid.IntRange(0, len(stringPool)-1).Draw(g.T, "strpool")]
}

// Value draws a value of the given type. The result is addressable.
func (g *Gen) Value(typ reflect.Type) reflect.Value {
	v := reflect.New(typ).Elem()
	g.fill(v, 0)
	return v
}

func (g *Gen) fill(v reflect.Value, depth int) {
	v = Settable(v)
	switch v.Kind() {
	case reflect.Bool:
		v.SetBool(rapid.Bool().Draw(g.T, "bool"))
	case reflect.Int, reflect.Int64:
		v.SetInt(g.pickInt(64))
	case reflect.Int8:
		v.SetInt(g.pickInt(8))
	case reflect.Int16:
		v.SetInt(g.pickInt(16))
	case reflect.Int32:
		v.SetInt(g.pickInt(32))
	case reflect.Uint, reflect.Uint64, reflect.Uintptr:
		v.SetUint(g.pickUint(64))
	case reflect.Uint8:
		v.SetUint(g.pickUint(8))
	case reflect.Uint16:
		v.SetUint(g.pickUint(16))
	case reflect.Uint32:
		v.SetUint(g.pickUint(32))
	case reflect.Float32:
		v.SetFloat(g.pickFloat(32))
	case reflect.Float64:
		v.SetFloat(g.pickFloat(64))
	case reflect.Complex64:
		v.SetComplex(complex(g.pickFloat(32), g.pickFloat(32)))
	case reflect.Complex128:
		v.SetComplex(complex(g.pickFloat(64), g.pickFloat(64)))
	case reflect.String:
		v.SetString(g.pickString())
	case reflect.Ptr:
		c := rapid.IntRange(0, 5).Draw(g.T, "ptr")
		if depth >= g.MaxDepth || c == 0 {
			return // nil
		}
		if c == 1 && !g.NoSharing {
			if pool := g.pool[v.Type()]; len(pool) > 0 {
				v.Set(pool[rapid.IntRange(0, len(pool)-1).Draw(g.T, "share")])
				return
			}
		}
		p := reflect.New(v.Type().Elem())
		g.fill(p.Elem(), depth+1)
		v.Set(p)
		if !g.NoSharing {
			g.pool[v.Type()] = append(g.pool[v.Type()], p)
		}
	case reflect.Slice:
		c := rapid.IntRange(0, 6).Draw(g.T, "slice")
		if c == 0 {
			return // nil
		}
		n := 0
		if depth < g.MaxDepth {
			switch c {
			case 1:
				n = 0
			case 2, 3:
				n = 1
			default:
				n = rapid.IntRange(2, 4).Draw(g.T, "slicelen")
			}
		}
		extra := rapid.IntRange(0, 2).Draw(g.T, "slicecap")
		s := reflect.MakeSlice(v.Type(), n, n+extra)
		for i := 0; i < n; i++ {
			g.fill(s.Index(i), depth+1)
		}
		v.Set(s)
	case reflect.Array:
		for i := 0; i < v.Len(); i++ {
			g.fill(v.Index(i), depth+1)
		}
	case reflect.Map:
		c := rapid.IntRange(0, 5).Draw(g.T, "map")
		if c == 0 {
			return
		}
		m := reflect.MakeMap(v.Type())
		n := 0
		if depth < g.MaxDepth && c > 1 {
			n = rapid.IntRange(1, 3).Draw(g.T, "maplen")
		}
		for i := 0; i < n; i++ {
			k := reflect.New(v.Type().Key()).Elem()
			g.fill(k, depth+1)
			if hasNaN(k) {
				continue
			}
			e := reflect.New(v.Type().Elem()).Elem()
			g.fill(e, depth+1)
			m.SetMapIndex(k, e)
		}
		v.Set(m)
	case reflect.Struct:
		for i := 0; i < v.NumField(); i++ {
			g.fill(v.Field(i), depth+1)
		}
	case reflect.Interface:
		var pool []reflect.Value
		if v.Type().NumMethod() > 0 {
			for _, e := range ErrPool {
				pool = append(pool, reflect.ValueOf(e))
			}
		} else {
			pool = []reflect.Value{reflect.ValueOf(1), reflect.ValueOf("s"), reflect.ValueOf(ErrPool[0]), reflect.ValueOf(AnyPtr), reflect.ValueOf(2.5)}
		}
		c := rapid.IntRange(0, len(pool)).Draw(g.T, "iface")
		if c == len(pool) {
			return // nil interface
		}
		v.Set(pool[c])
	default:
		panic("vref: unsupported kind " + v.Kind().String())
	}
}

// ErrPool holds the distinct error values used for error-typed positions.
var ErrPool = []error{errors.New("err0"), valueErr{1}, &pointerErr{"err2"}, errors.New("err3"), valueErr{4}, fmt.Errorf("err5: %w", context.Canceled), io.EOF}

// errors of different concrete types: == comparable, pairwise distinct
type valueErr struct{ N int }

func (e valueErr) Error() string { return "value error" }

type pointerErr struct{ S string }

func (e *pointerErr) Error() string { return e.S }

// AnyPtr is a pointer used as a dynamic value of interface{} positions.
var AnyPtr = new(int)

func hasNaN(v reflect.Value) bool {
	switch v.Kind() {
	case reflect.Float32, reflect.Float64:
		return math.IsNaN(v.Float())
	case reflect.Complex64, reflect.Complex128:
		c := v.Complex()
		return math.IsNaN(real(c)) || math.IsNaN(imag(c))
	case reflect.Struct:
		for i := 0; i < v.NumField(); i++ {
			if hasNaN(v.Field(i)) {
				return true
			}
		}
	case reflect.Array:
		for i := 0; i < v.Len(); i++ {
			if hasNaN(v.Index(i)) {
				return true
			}
		}
	}
	return false
}

// Leaf draws a value for a leaf kind different from old if possible (for mutations).
func (g *Gen) LeafDifferent(old reflect.Value) reflect.Value {
	for i := 0; i < 50; i++ {
		n := reflect.New(old.Type()).Elem()
		g.fill(n, g.MaxDepth)
		if !leafIdentical(n, old) {
			return n
		}
	}
	// deterministic fallback
	n := reflect.New(old.Type()).Elem()
	switch old.Kind() {
	case reflect.Bool:
		n.SetBool(!old.Bool())
	case reflect.Int, reflect.Int8, reflect.Int16, reflect.Int32, reflect.Int64:
		n.SetInt(old.Int() ^ 1)
	case reflect.Uint, reflect.Uint8, reflect.Uint16, reflect.Uint32, reflect.Uint64, reflect.Uintptr:
		n.SetUint(old.Uint() ^ 1)
	case reflect.Float32, reflect.Float64:
		if old.Float() == 1 {
			n.SetFloat(2)
		} else {
			n.SetFloat(1)
		}
	case reflect.Complex64, reflect.Complex128:
		n.SetComplex(old.Complex() + 1)
	case reflect.String:
		n.SetString(old.String() + "x")
	}
	return n
}

// leafIdentical compares leaves bit-wise (so +0 and -0 differ).
func leafIdentical(a, b reflect.Value) bool {
	switch a.Kind() {
	case reflect.Bool:
		return a.Bool() == b.Bool()
	case reflect.Int, reflect.Int8, reflect.Int16, reflect.Int32, reflect.Int64:
		return a.Int() == b.Int()
	case reflect.Uint, reflect.Uint8, reflect.Uint16, reflect.Uint32, reflect.Uint64, reflect.Uintptr:
		return a.Uint() == b.Uint()
	case reflect.Float32, reflect.Float64:
		return math.Float64bits(a.Float()) == math.Float64bits(b.Float())
	case reflect.Complex64, reflect.Complex128:
		x, y := a.Complex(), b.Complex()
		return math.Float64bits(real(x)) == math.Float64bits(real(y)) && math.Float64bits(imag(x)) == math.Float64bits(imag(y))
	case reflect.String:
		return a.String() == b.String()
	}
	return false
}

// IsLeafKind reports whether k is a basic kind.
func IsLeafKind(k reflect.Kind) bool {
	switch k {
	case reflect.Bool, reflect.Int, reflect.Int8, reflect.Int16, reflect.Int32, reflect.Int64,
		reflect.Uint, reflect.Uint8, reflect.Uint16, reflect.Uint32, reflect.Uint64, reflect.Uintptr,
		reflect.Float32, reflect.Float64, reflect.Complex64, reflect.Complex128, reflect.String:
		return true
	}
	return false
}
