package vref

import (
	"fmt"
	"reflect"
	"sort"

	"pgregory.net/rapid"
)

// sortedKeys returns the map keys ordered by canonical encoding (deterministic traversal).
func sortedKeys(m reflect.Value) []reflect.Value {
	keys := m.MapKeys()
	encs := make([]string, len(keys))
	for i, k := range keys {
		encs[i] = Key(k)
	}
	idx := make([]int, len(keys))
	for i := range idx {
		idx[i] = i
	}
	sort.Slice(idx, func(a, b int) bool { return encs[idx[a]] < encs[idx[b]] })
	out := make([]reflect.Value, len(keys))
	for i, j := range idx {
		out[i] = keys[j]
	}
	return out
}

// RebuildOpt says how a rebuilt copy may differ in representation.
type RebuildOpt struct {
	KeepSharing bool  // preserve the aliasing structure of pointers
	ExtraCap    int   // spare capacity added to every slice
	Permute     []int // permutation seed for map insertion order (nil = reverse)
}

// Rebuild returns a structurally equal value at fresh addresses: every pointer target, slice array and
// map is newly allocated; maps are refilled in a different order; slices get different capacity.
func Rebuild(v reflect.Value, o RebuildOpt) reflect.Value {
	out := reflect.New(v.Type()).Elem()
	r := &rebuilder{o: o, memo: map[uintptr]reflect.Value{}}
	r.copy(out, v)
	return out
}

// DrawRebuild draws the representation options with rapid.
func (g *Gen) DrawRebuild(v reflect.Value) reflect.Value {
	o := RebuildOpt{KeepSharing: rapid.Bool().Draw(g.T, "keepsharing"), ExtraCap: rapid.IntRange(0, 3).Draw(g.T, "extracap")}
	o.Permute = []int{rapid.IntRange(0, 5).Draw(g.T, "perm")}
	return Rebuild(v, o)
}

type rebuilder struct {
	o    RebuildOpt
	memo map[uintptr]reflect.Value
}

func (r *rebuilder) copy(dst, src reflect.Value) {
	dst = Settable(dst)
	switch src.Kind() {
	case reflect.Bool:
		dst.SetBool(src.Bool())
	case reflect.Int, reflect.Int8, reflect.Int16, reflect.Int32, reflect.Int64:
		dst.SetInt(src.Int())
	case reflect.Uint, reflect.Uint8, reflect.Uint16, reflect.Uint32, reflect.Uint64, reflect.Uintptr:
		dst.SetUint(src.Uint())
	case reflect.Float32, reflect.Float64:
		dst.SetFloat(src.Float())
	case reflect.Complex64, reflect.Complex128:
		dst.SetComplex(src.Complex())
	case reflect.String:
		// fresh string bytes
		b := []byte(src.String())
		dst.SetString(string(b))
	case reflect.Ptr:
		if src.IsNil() {
			dst.Set(reflect.Zero(src.Type()))
			return
		}
		if r.o.KeepSharing && src.Type().Elem().Size() > 0 {
			if p, ok := r.memo[src.Pointer()]; ok {
				dst.Set(p)
				return
			}
		}
		p := reflect.New(src.Type().Elem())
		if r.o.KeepSharing {
			r.memo[src.Pointer()] = p
		}
		r.copy(p.Elem(), src.Elem())
		dst.Set(p)
	case reflect.Slice:
		if src.IsNil() {
			dst.Set(reflect.Zero(src.Type()))
			return
		}
		s := reflect.MakeSlice(src.Type(), src.Len(), src.Len()+r.o.ExtraCap)
		for i := 0; i < src.Len(); i++ {
			r.copy(s.Index(i), src.Index(i))
		}
		dst.Set(s)
	case reflect.Array:
		for i := 0; i < src.Len(); i++ {
			r.copy(dst.Index(i), src.Index(i))
		}
	case reflect.Map:
		if src.IsNil() {
			dst.Set(reflect.Zero(src.Type()))
			return
		}
		m := reflect.MakeMapWithSize(src.Type(), 0)
		keys := sortedKeys(src)
		rot := 0
		if len(r.o.Permute) > 0 && len(keys) > 0 {
			rot = r.o.Permute[0] % len(keys)
		}
		n := len(keys)
		for i := 0; i < n; i++ {
			// reversed and rotated insertion order
			k := keys[(n-1-i+rot)%n]
			nk := reflect.New(src.Type().Key()).Elem()
			r.copy(nk, k)
			ne := reflect.New(src.Type().Elem()).Elem()
			r.copy(ne, src.MapIndex(k))
			m.SetMapIndex(nk, ne)
		}
		dst.Set(m)
	case reflect.Struct:
		for i := 0; i < src.NumField(); i++ {
			r.copy(dst.Field(i), src.Field(i))
		}
	case reflect.Interface:
		if src.IsNil() {
			dst.Set(reflect.Zero(src.Type()))
		} else {
			dst.Set(Readable(src.Elem())) // interface values keep their identity
		}
	default:
		panic("vref: Rebuild unsupported kind " + src.Kind().String())
	}
}

// Mutation describes a single change applied by Mutate1.
type Mutation struct {
	Kind     string // leaf | nil | len | key
	Path     string
	Old      reflect.Value // leaf: old leaf; key: old key
	New      reflect.Value
	WasNil   bool // nil: the original side was nil
	InKey    bool // the position lies inside a map key
	ViaUser  bool // a type with a user Equal/Compare method lies on the path (root excluded)
	RootUser bool
}

func (m Mutation) String() string {
	switch m.Kind {
	case "leaf", "key":
		return fmt.Sprintf("%s at %s: %s -> %s", m.Kind, m.Path, Key(m.Old), Key(m.New))
	case "nil":
		return fmt.Sprintf("nil-flip at %s (original nil: %v)", m.Path, m.WasNil)
	}
	return m.Kind + " at " + m.Path
}

type site struct {
	kind    string
	path    string
	viaUser bool
	apply   func(g *Gen) Mutation
}

// Mutate1 returns a copy of v with exactly one change, and its description.
// ok is false when the value has no mutable position (e.g. empty struct).
func (g *Gen) Mutate1(v reflect.Value) (reflect.Value, Mutation, bool) {
	c := Rebuild(v, RebuildOpt{})
	var sites []site
	collectSites(c, func() {}, "", false, true, &sites)
	if len(sites) == 0 {
		return c, Mutation{}, false
	}
	s := sites[rapid.IntRange(0, len(sites)-1).Draw(g.T, "site")]
	m := s.apply(g)
	m.Path = s.path
	m.ViaUser = s.viaUser
	return c, m, true
}

func typeHasUser(t reflect.Type) bool {
	n := t
	if n.Kind() == reflect.Ptr {
		n = n.Elem()
	}
	if _, ok, _ := findUserMethod(n, "Equal", reflect.Bool); ok {
		return true
	}
	if _, ok, _ := findUserMethod(n, "Compare", reflect.Int); ok {
		return true
	}
	return false
}

// collectSites walks an addressable tree-shaped value. commit re-stores temporaries (map values).
func collectSites(v reflect.Value, commit func(), path string, viaUser, root bool, out *[]site) {
	v = Settable(v)
	if !root && typeHasUser(v.Type()) {
		viaUser = true
	}
	add := func(kind string, apply func(g *Gen) Mutation) {
		*out = append(*out, site{kind: kind, path: path, viaUser: viaUser, apply: apply})
	}
	switch v.Kind() {
	case reflect.Bool, reflect.Int, reflect.Int8, reflect.Int16, reflect.Int32, reflect.Int64,
		reflect.Uint, reflect.Uint8, reflect.Uint16, reflect.Uint32, reflect.Uint64, reflect.Uintptr,
		reflect.Float32, reflect.Float64, reflect.Complex64, reflect.Complex128, reflect.String:
		add("leaf", func(g *Gen) Mutation {
			old := reflect.New(v.Type()).Elem()
			old.Set(v)
			n := g.LeafDifferent(old)
			v.Set(n)
			commit()
			return Mutation{Kind: "leaf", Old: old, New: n}
		})
	case reflect.Ptr:
		add("nil", func(g *Gen) Mutation {
			was := v.IsNil()
			if was {
				v.Set(reflect.New(v.Type().Elem()))
			} else {
				v.Set(reflect.Zero(v.Type()))
			}
			commit()
			return Mutation{Kind: "nil", WasNil: was}
		})
		if !v.IsNil() {
			collectSites(v.Elem(), commit, path+"*", viaUser, false, out)
		}
	case reflect.Slice:
		add("nil", func(g *Gen) Mutation {
			was := v.IsNil()
			if was {
				v.Set(reflect.MakeSlice(v.Type(), 0, 0))
			} else {
				v.Set(reflect.Zero(v.Type()))
			}
			commit()
			return Mutation{Kind: "nil", WasNil: was}
		})
		if !v.IsNil() {
			add("len", func(g *Gen) Mutation {
				if v.Len() > 0 && rapid.Bool().Draw(g.T, "shrink") {
					v.Set(v.Slice(0, v.Len()-1))
				} else {
					e := reflect.New(v.Type().Elem()).Elem()
					g.fill(e, g.MaxDepth-1)
					v.Set(reflect.Append(v, e))
				}
				commit()
				return Mutation{Kind: "len"}
			})
			for i := 0; i < v.Len(); i++ {
				collectSites(v.Index(i), commit, fmt.Sprintf("%s[%d]", path, i), viaUser, false, out)
			}
		}
	case reflect.Array:
		for i := 0; i < v.Len(); i++ {
			collectSites(v.Index(i), commit, fmt.Sprintf("%s[%d]", path, i), viaUser, false, out)
		}
	case reflect.Map:
		add("nil", func(g *Gen) Mutation {
			was := v.IsNil()
			if was {
				v.Set(reflect.MakeMap(v.Type()))
			} else {
				v.Set(reflect.Zero(v.Type()))
			}
			commit()
			return Mutation{Kind: "nil", WasNil: was}
		})
		if !v.IsNil() {
			add("len", func(g *Gen) Mutation {
				keys := sortedKeys(v)
				if len(keys) > 0 && rapid.Bool().Draw(g.T, "mapshrink") {
					v.SetMapIndex(keys[rapid.IntRange(0, len(keys)-1).Draw(g.T, "delkey")], reflect.Value{})
				} else {
					for tries := 0; tries < 30; tries++ {
						k := reflect.New(v.Type().Key()).Elem()
						g.fill(k, g.MaxDepth-1)
						if hasNaN(k) || v.MapIndex(k).IsValid() {
							continue
						}
						e := reflect.New(v.Type().Elem()).Elem()
						g.fill(e, g.MaxDepth-1)
						v.SetMapIndex(k, e)
						break
					}
				}
				commit()
				return Mutation{Kind: "len"}
			})
			for _, k := range sortedKeys(v) {
				k := k
				if v.Type().Key().Size() > 0 {
					*out = append(*out, site{kind: "key", path: path + "{key " + Key(k) + "}", viaUser: viaUser || typeHasUser(v.Type().Key()), apply: func(g *Gen) Mutation {
						for tries := 0; tries < 30; tries++ {
							nk := reflect.New(v.Type().Key()).Elem()
							g.fill(nk, g.MaxDepth-1)
							if hasNaN(nk) || v.MapIndex(nk).IsValid() {
								continue
							}
							val := v.MapIndex(k)
							tmp := reflect.New(v.Type().Elem()).Elem()
							deepAssign(tmp, val)
							v.SetMapIndex(k, reflect.Value{})
							v.SetMapIndex(nk, tmp)
							commit()
							return Mutation{Kind: "key", Old: k, New: nk, InKey: true}
						}
						return Mutation{Kind: "none"}
					}})
				}
				tmp := reflect.New(v.Type().Elem()).Elem()
				deepAssign(tmp, v.MapIndex(k))
				collectSites(tmp, func() { v.SetMapIndex(k, tmp); commit() }, path+"{"+Key(k)+"}", viaUser, false, out)
			}
		}
	case reflect.Struct:
		for i := 0; i < v.NumField(); i++ {
			if v.Type().Field(i).Name == "_" {
				continue
			}
			collectSites(v.Field(i), commit, path+"."+v.Type().Field(i).Name, viaUser, false, out)
		}
	}
}

// EqRewrite returns a rebuilt copy of v in which the sign of some zero float leaves is flipped
// (+0 <-> -0): an equality-preserving rewrite. n is the number of flipped leaves.
func (g *Gen) EqRewrite(v reflect.Value) (reflect.Value, int) {
	c := g.DrawRebuild(v)
	n := 0
	var walk func(x reflect.Value, commit func())
	walk = func(x reflect.Value, commit func()) {
		x = Settable(x)
		switch x.Kind() {
		case reflect.Float32, reflect.Float64:
			if x.Float() == 0 && rapid.Bool().Draw(g.T, "flipzero") {
				x.SetFloat(flip(x.Float()))
				n++
				commit()
			}
		case reflect.Complex64, reflect.Complex128:
			c := x.Complex()
			re, im := real(c), imag(c)
			ch := false
			if re == 0 && rapid.Bool().Draw(g.T, "flipzero-re") {
				re = flip(re)
				ch = true
			}
			if im == 0 && rapid.Bool().Draw(g.T, "flipzero-im") {
				im = flip(im)
				ch = true
			}
			if ch {
				x.SetComplex(complex(re, im))
				n++
				commit()
			}
		case reflect.Ptr:
			if !x.IsNil() {
				walk(x.Elem(), commit)
			}
		case reflect.Slice, reflect.Array:
			if x.Kind() == reflect.Slice && x.IsNil() {
				return
			}
			for i := 0; i < x.Len(); i++ {
				walk(x.Index(i), commit)
			}
		case reflect.Map:
			if x.IsNil() {
				return
			}
			for _, k := range sortedKeys(x) {
				k := k
				tmp := reflect.New(x.Type().Elem()).Elem()
				deepAssign(tmp, x.MapIndex(k))
				walk(tmp, func() { x.SetMapIndex(k, tmp); commit() })
			}
		case reflect.Struct:
			for i := 0; i < x.NumField(); i++ {
				if x.Type().Field(i).Name != "_" {
					walk(x.Field(i), commit)
				}
			}
		}
	}
	walk(c, func() {})
	return c, n
}

// SwapStrings rebuilds v replacing every string leaf equal to a by b and vice versa
// (used to construct hash-colliding values such as "Aa" / "BB"). n is the number of swaps.
func SwapStrings(v reflect.Value, a, b string) (reflect.Value, int) {
	c := Rebuild(v, RebuildOpt{})
	n := 0
	var walk func(x reflect.Value, commit func())
	walk = func(x reflect.Value, commit func()) {
		x = Settable(x)
		switch x.Kind() {
		case reflect.String:
			switch x.String() {
			case a:
				x.SetString(b)
				n++
				commit()
			case b:
				x.SetString(a)
				n++
				commit()
			}
		case reflect.Ptr:
			if !x.IsNil() {
				walk(x.Elem(), commit)
			}
		case reflect.Slice, reflect.Array:
			if x.Kind() == reflect.Slice && x.IsNil() {
				return
			}
			for i := 0; i < x.Len(); i++ {
				walk(x.Index(i), commit)
			}
		case reflect.Map:
			if x.IsNil() {
				return
			}
			for _, k := range sortedKeys(x) {
				k := k
				tmp := reflect.New(x.Type().Elem()).Elem()
				deepAssign(tmp, x.MapIndex(k))
				walk(tmp, func() { x.SetMapIndex(k, tmp); commit() })
			}
		case reflect.Struct:
			for i := 0; i < x.NumField(); i++ {
				if x.Type().Field(i).Name != "_" {
					walk(x.Field(i), commit)
				}
			}
		}
	}
	walk(c, func() {})
	return c, n
}

// CollideInts rebuilds v with one pair of neighbouring integers (a, b) - two elements of a slice or array, or two
// consecutive fields of a struct - replaced by (a-1, b+31): a different value with the same hash under every
// 31*h+x fold. n is the number of pairs changed (at most one per container).
func CollideInts(v reflect.Value) (reflect.Value, int) {
	c := Rebuild(v, RebuildOpt{})
	n := 0
	wide := func(k reflect.Kind) bool {
		switch k {
		case reflect.Int, reflect.Int64, reflect.Int32, reflect.Uint, reflect.Uint64, reflect.Uint32:
			return true
		}
		return false
	}
	// shift moves one unit of weight 31 from a to b if both stay representable
	shift := func(a, b reflect.Value) bool {
		switch a.Kind() {
		case reflect.Int, reflect.Int64, reflect.Int32:
			av := a.Int()
			if a.OverflowInt(av-1) || av-1 > av {
				return false
			}
			a.SetInt(av - 1)
		default:
			av := a.Uint()
			if av == 0 {
				return false
			}
			a.SetUint(av - 1)
		}
		switch b.Kind() {
		case reflect.Int, reflect.Int64, reflect.Int32:
			bv := b.Int()
			if b.OverflowInt(bv+31) || bv+31 < bv {
				return false
			}
			b.SetInt(bv + 31)
		default:
			bv := b.Uint()
			if b.OverflowUint(bv+31) || bv+31 < bv {
				return false
			}
			b.SetUint(bv + 31)
		}
		return true
	}
	var walk func(x reflect.Value, commit func())
	walk = func(x reflect.Value, commit func()) {
		x = Settable(x)
		switch x.Kind() {
		case reflect.Ptr:
			if !x.IsNil() {
				walk(x.Elem(), commit)
			}
		case reflect.Slice, reflect.Array:
			if x.Kind() == reflect.Slice && x.IsNil() {
				return
			}
			if wide(x.Type().Elem().Kind()) {
				for i := 0; i+1 < x.Len(); i++ {
					a, b := Settable(x.Index(i)), Settable(x.Index(i+1))
					sa, sb := reflect.New(a.Type()).Elem(), reflect.New(b.Type()).Elem()
					sa.Set(a)
					sb.Set(b)
					if shift(a, b) {
						n++
						commit()
						return
					}
					a.Set(sa)
					b.Set(sb)
				}
				return
			}
			for i := 0; i < x.Len(); i++ {
				walk(x.Index(i), commit)
			}
		case reflect.Map:
			if x.IsNil() {
				return
			}
			for _, k := range sortedKeys(x) {
				k := k
				tmp := reflect.New(x.Type().Elem()).Elem()
				deepAssign(tmp, x.MapIndex(k))
				walk(tmp, func() { x.SetMapIndex(k, tmp); commit() })
			}
		case reflect.Struct:
			for i := 0; i+1 < x.NumField(); i++ {
				fa, fb := x.Type().Field(i), x.Type().Field(i+1)
				if fa.Name == "_" || fb.Name == "_" || !wide(fa.Type.Kind()) || !wide(fb.Type.Kind()) {
					continue
				}
				a, b := Settable(x.Field(i)), Settable(x.Field(i+1))
				sa, sb := reflect.New(a.Type()).Elem(), reflect.New(b.Type()).Elem()
				sa.Set(a)
				sb.Set(b)
				if shift(a, b) {
					n++
					commit()
					return
				}
				a.Set(sa)
				b.Set(sb)
			}
			for i := 0; i < x.NumField(); i++ {
				if x.Type().Field(i).Name != "_" {
					walk(x.Field(i), commit)
				}
			}
		}
	}
	walk(c, func() {})
	return c, n
}
