package vref

import (
	"reflect"
	"testing"

	"pgregory.net/rapid"
)

type inner struct {
	A int
	b string
	P *int
}

type kst struct {
	A int
	b string
	F float32
}

type big struct {
	I   int8
	F   float64
	C   complex64
	S   string
	B   []byte
	L   []*inner
	M   map[string]inner
	MK  map[[2]int8]*big
	A   [2][]int
	PP  **string
	in  inner
	Rec *big
	E   struct{}
	Z   [0]int
}

var selfTypes = []reflect.Type{
	reflect.TypeOf(big{}), reflect.TypeOf(&big{}), reflect.TypeOf([]big{}), reflect.TypeOf(map[float64][]string{}),
	reflect.TypeOf(inner{}), reflect.TypeOf([]map[kst]int{}), reflect.TypeOf(0), reflect.TypeOf(""), reflect.TypeOf([3]*int{}),
}

func TestSelf(t *testing.T) {
	rapid.Check(t, func(t *rapid.T) {
		typ := selfTypes[rapid.IntRange(0, len(selfTypes)-1).Draw(t, "typ")]
		g := NewGen(t)
		a := g.Value(typ)
		b := g.Value(typ)
		c := g.Value(typ)
		if !Eq(a, a) {
			t.Fatalf("Eq not reflexive on %s", Key(a))
		}
		if Eq(a, b) != Eq(b, a) {
			t.Fatalf("Eq not symmetric")
		}
		if Eq(a, b) && Eq(b, c) && !Eq(a, c) {
			t.Fatalf("Eq not transitive")
		}
		if Eq(a, b) != (Key(a) == Key(b)) {
			t.Fatalf("Eq and Key disagree: %v\n%s\n%s", Eq(a, b), Key(a), Key(b))
		}
		snap := Snapshot(a)
		r := g.DrawRebuild(a)
		if !Eq(a, r) || Key(a) != Key(r) {
			t.Fatalf("Rebuild not Eq:\n%s\n%s", Key(a), Key(r))
		}
		if ov := Overlap(Addrs(a), Addrs(r)); ov != "" {
			t.Fatalf("Rebuild shares memory: %s", ov)
		}
		if Snapshot(a) != snap {
			t.Fatalf("Rebuild modified its argument")
		}
		m, desc, ok := g.Mutate1(a)
		if ok && desc.Kind != "none" {
			if Snapshot(a) != snap {
				t.Fatalf("Mutate1 modified its argument (%s)", desc)
			}
			same := Eq(a, m)
			zeroFlip := desc.Kind == "leaf" && Key(desc.Old) == Key(desc.New)
			if same && !zeroFlip && !(desc.Kind == "len" && Key(a) == Key(m)) {
				t.Fatalf("Mutate1 (%s) did not break Eq:\n%s\n%s", desc, Key(a), Key(m))
			}
			if !same && zeroFlip {
				t.Fatalf("zero flip broke Eq")
			}
		}
		// scribbling the rebuilt copy must not touch the original
		Scribble(r)
		if Snapshot(a) != snap {
			t.Fatalf("Scribble of an independent copy changed the original")
		}
		// scribbling must change the copy when it has any leaf
		// shallow copy shares memory: Overlap must notice
		sh := reflect.New(typ).Elem()
		sh.Set(a)
		if len(Addrs(a)) > 0 {
			if Overlap(Addrs(a), Addrs(sh)) == "" {
				t.Fatalf("Overlap missed a shallow copy")
			}
		}
	})
}

func TestCollideInts(t *testing.T) {
	type S struct {
		A int
		B int64
		L []uint32
	}
	fold := func(xs ...uint64) uint64 {
		h := uint64(17)
		for _, x := range xs {
			h = 31*h + x
		}
		return h
	}
	v := reflect.ValueOf([]int{3, 0, 7})
	c, n := CollideInts(v)
	got := c.Interface().([]int)
	if n != 1 || got[0] != 2 || got[1] != 31 || got[2] != 7 {
		t.Fatalf("got %v n=%d", got, n)
	}
	if fold(3, 0, 7) != fold(uint64(got[0]), uint64(got[1]), uint64(got[2])) {
		t.Fatal("fold differs")
	}
	if v.Interface().([]int)[0] != 3 {
		t.Fatal("input modified")
	}
	s := reflect.ValueOf(&S{A: -5, B: 9, L: []uint32{0, 1}})
	c2, n2 := CollideInts(s)
	s2 := c2.Interface().(*S)
	if n2 != 1 || s2.A != -6 || s2.B != 40 {
		t.Fatalf("got %+v n=%d", s2, n2)
	}
	mx := reflect.ValueOf([]uint32{0, 4294967295})
	if _, n3 := CollideInts(mx); n3 != 0 {
		t.Fatalf("unrepresentable pair changed")
	}
}
