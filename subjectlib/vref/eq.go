package vref

import (
	"reflect"
)

// EqOpt controls the structural reference equality.
type EqOpt struct {
	// UserMethods: at proper sub-positions whose static type is a named type N (or *N) declaring
	// Equal(one param) bool, the reference calls that method instead of descending.
	UserMethods bool
	// RootToo: apply the delegation rule at the root as well.
	RootToo bool
	// CopiedKeys: the keys of a map whose key type holds pointers are matched by their contents, not by Go's own
	// key equality (which is pointer identity): this is what "structurally equal" means between a value and a
	// deep copy of it, whose keys are fresh pointers.
	CopiedKeys bool
}

// HoldsPointer reports whether values of the (map key) type contain a pointer.
func HoldsPointer(t reflect.Type) bool {
	switch t.Kind() {
	case reflect.Ptr, reflect.Interface, reflect.Chan, reflect.UnsafePointer:
		return true
	case reflect.Array:
		return HoldsPointer(t.Elem())
	case reflect.Struct:
		for i := 0; i < t.NumField(); i++ {
			if HoldsPointer(t.Field(i).Type) {
				return true
			}
		}
	}
	return false
}

// eqMapByContents pairs the entries of a with the entries of b, two entries matching when key and value are
// structurally equal. Structural equality is an equivalence, so pairing greedily decides it.
func eqMapByContents(a, b reflect.Value, o EqOpt) bool {
	bk := b.MapKeys()
	taken := make([]bool, len(bk))
	it := a.MapRange()
	for it.Next() {
		found := false
		for j, k := range bk {
			if taken[j] {
				continue
			}
			if eq(it.Key(), k, o, false) && eq(it.Value(), b.MapIndex(k), o, false) {
				taken[j], found = true, true
				break
			}
		}
		if !found {
			return false
		}
	}
	return true
}

// Eq is structural equality exactly as property C02 states it: same nil-ness at every pointer,
// slice and map, same lengths and key sets, equal leaves (==, so +0 == -0), unexported fields
// included; pointer identity, capacity and insertion order ignored.
func Eq(a, b reflect.Value) bool { return eq(a, b, EqOpt{}, true) }

// EqWith is Eq with options.
func EqWith(a, b reflect.Value, o EqOpt) bool { return eq(a, b, o, true) }

// EqualMethod describes a user Equal/Compare method found on a type.
type userMethod struct {
	onPtr    bool // method found in the method set of *N only
	paramPtr bool // parameter is *N
	index    int
}

// Declared, when set by the harness, lists per method name the types that declare that method themselves
// (the generator of the subject knows); without it promoted methods are told apart by their parameter type.
var Declared map[string]map[reflect.Type]bool

func findUserMethod(n reflect.Type, name string, resKind reflect.Kind) (reflect.Method, bool, bool) {
	// n is a named non-pointer type
	if n.Name() == "" || n.Kind() == reflect.Ptr {
		return reflect.Method{}, false, false
	}
	if Declared != nil && !Declared[name][n] {
		return reflect.Method{}, false, false
	}
	pt := reflect.PtrTo(n)
	m, ok := pt.MethodByName(name)
	if !ok {
		return reflect.Method{}, false, false
	}
	ft := m.Type // func(recv, param) res
	if ft.NumIn() != 2 || ft.NumOut() != 1 || ft.Out(0).Kind() != resKind {
		return reflect.Method{}, false, false
	}
	// methods promoted from embedded fields take the embedded type: they are not N's own methods.
	// An interface parameter (Equal(interface{})) is handed a *N, as goderive does.
	if ft.In(1) != n && ft.In(1) != pt && !(ft.In(1).Kind() == reflect.Interface && pt.AssignableTo(ft.In(1)) && (Declared != nil || ownMethod(n, name))) {
		return reflect.Method{}, false, false
	}
	paramPtr := ft.In(1).Kind() == reflect.Ptr || ft.In(1).Kind() == reflect.Interface
	return m, true, paramPtr
}

// ownMethod reports whether name is declared on N or *N itself rather than promoted from an embedded field.
func ownMethod(n reflect.Type, name string) bool {
	if n.Kind() != reflect.Struct {
		return true
	}
	for i := 0; i < n.NumField(); i++ {
		f := n.Field(i)
		if !f.Anonymous {
			continue
		}
		ft := f.Type
		if ft.Kind() == reflect.Ptr {
			ft = ft.Elem()
		}
		if _, ok := reflect.PtrTo(ft).MethodByName(name); ok {
			return false
		}
	}
	return true
}

// valueReceiver reports whether the method is in the method set of N itself (declared with a value receiver).
func valueReceiver(n reflect.Type, name string) bool {
	_, ok := n.MethodByName(name)
	return ok
}

// callUser2 calls a.Method(b) for addressable-or-copyable struct values a, b of named type n.
func callUser2(m reflect.Method, paramPtr bool, a, b reflect.Value) reflect.Value {
	// a, b are values of type N (not pointers); make addressable copies when needed
	pa := addrOf(a)
	var arg reflect.Value
	if paramPtr {
		arg = addrOf(b)
	} else {
		arg = addrOf(b).Elem()
	}
	return m.Func.Call([]reflect.Value{pa, arg})[0]
}

func addrOf(v reflect.Value) reflect.Value {
	if v.CanAddr() {
		return reflect.NewAt(v.Type(), v.Addr().UnsafePointer())
	}
	p := reflect.New(v.Type())
	deepAssign(p.Elem(), v)
	return p
}

// deepAssign copies src into the addressable dst, including unexported fields (shallow for references).
func deepAssign(dst, src reflect.Value) {
	dst = Settable(dst)
	switch src.Kind() {
	case reflect.Struct:
		for i := 0; i < src.NumField(); i++ {
			deepAssign(dst.Field(i), src.Field(i))
		}
	case reflect.Array:
		for i := 0; i < src.Len(); i++ {
			deepAssign(dst.Index(i), src.Index(i))
		}
	case reflect.Bool:
		dst.SetBool(src.Bool())
	case reflect.Int, reflect.Int8, reflect.Int16, reflect.Int32, reflect.Int64:
		dst.SetInt(src.Int())
	case reflect.Uint, reflect.Uint8, reflect.Uint16, reflect.Uint32, reflect.Uint64, reflect.Uintptr:
		dst.SetUint(src.Uint())
	case reflect.Float32, reflect.Float64:
		dst.SetFloat(src.Float())
	case reflect.Complex64, reflect.Complex128:
		dst.SetComplex(src.Complex())
	case reflect.String:
		dst.SetString(src.String())
	case reflect.Ptr:
		if src.IsNil() {
			dst.Set(reflect.Zero(src.Type()))
		} else {
			dst.Set(reflect.NewAt(src.Type().Elem(), src.UnsafePointer()))
		}
	case reflect.Slice:
		if src.IsNil() {
			dst.Set(reflect.Zero(src.Type()))
		} else {
			// rebuild the header over the same backing array
			n, c := src.Len(), src.Cap()
			if c == 0 {
				dst.Set(reflect.MakeSlice(src.Type(), 0, 0))
			} else {
				arr := reflect.NewAt(reflect.ArrayOf(c, src.Type().Elem()), src.UnsafePointer()).Elem()
				dst.Set(arr.Slice3(0, n, c))
			}
		}
	case reflect.Interface:
		if src.IsNil() {
			dst.Set(reflect.Zero(src.Type()))
		} else {
			dst.Set(Readable(src.Elem()))
		}
	case reflect.Map:
		if src.IsNil() {
			dst.Set(reflect.Zero(src.Type()))
		} else {
			m := reflect.MakeMapWithSize(src.Type(), src.Len())
			it := src.MapRange()
			for it.Next() {
				k := reflect.New(src.Type().Key()).Elem()
				deepAssign(k, it.Key())
				e := reflect.New(src.Type().Elem()).Elem()
				deepAssign(e, it.Value())
				m.SetMapIndex(k, e)
			}
			dst.Set(m)
		}
	default:
		panic("vref: deepAssign unsupported kind " + src.Kind().String())
	}
}

func eq(a, b reflect.Value, o EqOpt, root bool) bool {
	t := a.Type()
	if o.UserMethods && (!root || o.RootToo) {
		// static type N with a user Equal
		if t.Kind() != reflect.Ptr {
			if m, ok, pp := findUserMethod(t, "Equal", reflect.Bool); ok {
				return callUser2(m, pp, a, b).Bool()
			}
		} else if m, ok, pp := findUserMethod(t.Elem(), "Equal", reflect.Bool); ok {
			if pp {
				if a.IsNil() && valueReceiver(t.Elem(), "Equal") {
					// a value receiver cannot be called through a nil pointer: nil-ness decides
					return b.IsNil()
				}
				// a.Equal(b) on the pointers themselves (user method handles nil)
				return m.Func.Call([]reflect.Value{ptrView(a), ptrView(b)})[0].Bool()
			}
			if a.IsNil() || b.IsNil() {
				return a.IsNil() && b.IsNil()
			}
			return callUser2(m, pp, a.Elem(), b.Elem()).Bool()
		}
	}
	switch a.Kind() {
	case reflect.Bool:
		return a.Bool() == b.Bool()
	case reflect.Int, reflect.Int8, reflect.Int16, reflect.Int32, reflect.Int64:
		return a.Int() == b.Int()
	case reflect.Uint, reflect.Uint8, reflect.Uint16, reflect.Uint32, reflect.Uint64, reflect.Uintptr:
		return a.Uint() == b.Uint()
	case reflect.Float32, reflect.Float64:
		return a.Float() == b.Float()
	case reflect.Complex64, reflect.Complex128:
		return a.Complex() == b.Complex()
	case reflect.String:
		return a.String() == b.String()
	case reflect.Ptr:
		if a.IsNil() || b.IsNil() {
			return a.IsNil() && b.IsNil()
		}
		// the target of a root pointer *N is still the root object (its own method is a root matter)
		return eq(a.Elem(), b.Elem(), o, root && !o.RootToo)
	case reflect.Slice:
		if a.IsNil() || b.IsNil() {
			return a.IsNil() && b.IsNil()
		}
		if a.Len() != b.Len() {
			return false
		}
		for i := 0; i < a.Len(); i++ {
			if !eq(a.Index(i), b.Index(i), o, false) {
				return false
			}
		}
		return true
	case reflect.Array:
		for i := 0; i < a.Len(); i++ {
			if !eq(a.Index(i), b.Index(i), o, false) {
				return false
			}
		}
		return true
	case reflect.Map:
		if a.IsNil() || b.IsNil() {
			return a.IsNil() && b.IsNil()
		}
		if a.Len() != b.Len() {
			return false
		}
		if o.CopiedKeys && HoldsPointer(t.Key()) {
			return eqMapByContents(a, b, o)
		}
		it := a.MapRange()
		for it.Next() {
			bv := b.MapIndex(it.Key()) // Go's own key equality
			if !bv.IsValid() {
				return false
			}
			if !eq(it.Value(), bv, o, false) {
				return false
			}
		}
		return true
	case reflect.Struct:
		for i := 0; i < a.NumField(); i++ {
			if t.Field(i).Name == "_" {
				continue // blank fields are not part of the value (== ignores them as well)
			}
			if !eq(a.Field(i), b.Field(i), o, false) {
				return false
			}
		}
		return true
	case reflect.Interface:
		if a.IsNil() || b.IsNil() {
			return a.IsNil() && b.IsNil()
		}
		if a.Elem().Type() != b.Elem().Type() {
			return false
		}
		if a.Elem().Kind() == reflect.Ptr {
			return a.Elem().Pointer() == b.Elem().Pointer() // interface values are compared by identity
		}
		return eq(a.Elem(), b.Elem(), o, false)
	}
	panic("vref: Eq unsupported kind " + a.Kind().String())
}

// ptrView returns a pointer value usable as a method receiver/argument even if read through an unexported field.
func ptrView(p reflect.Value) reflect.Value {
	if p.IsNil() {
		return reflect.Zero(p.Type())
	}
	return reflect.NewAt(p.Type().Elem(), p.UnsafePointer())
}

// HasUserMethod reports whether a named type with a user method of that name is reachable below the root.
func HasUserMethod(t reflect.Type, name string, resKind reflect.Kind) bool {
	seen := map[reflect.Type]bool{}
	var visit func(t reflect.Type, root bool) bool
	visit = func(t reflect.Type, root bool) bool {
		if seen[t] {
			return false
		}
		seen[t] = true
		if !root || true {
			n := t
			if n.Kind() == reflect.Ptr {
				n = n.Elem()
			}
			if _, ok, _ := findUserMethod(n, name, resKind); ok {
				return true
			}
		}
		switch t.Kind() {
		case reflect.Ptr, reflect.Slice, reflect.Array:
			return visit(t.Elem(), false)
		case reflect.Map:
			return visit(t.Key(), false) || visit(t.Elem(), false)
		case reflect.Struct:
			for i := 0; i < t.NumField(); i++ {
				if visit(t.Field(i).Type, false) {
					return true
				}
			}
		}
		return false
	}
	return visit(t, true)
}

// RootHasUserMethod reports whether the root type (N or *N) itself declares the method.
func RootHasUserMethod(t reflect.Type, name string, resKind reflect.Kind) bool {
	n := t
	for n.Kind() == reflect.Ptr {
		n = n.Elem()
	}
	_, ok, _ := findUserMethod(n, name, resKind)
	return ok
}

// FirstDiff names the kind of the first structural difference between a and b in a parallel walk
// ("" when they are structurally equal): leaf:<kind>, nil:ptr, nil:slice:<elemkind>, nil:map,
// len:slice, len:map, keys.
func FirstDiff(a, b reflect.Value) string {
	switch a.Kind() {
	case reflect.Ptr:
		if a.IsNil() || b.IsNil() {
			if a.IsNil() && b.IsNil() {
				return ""
			}
			return "nil:ptr"
		}
		return FirstDiff(a.Elem(), b.Elem())
	case reflect.Slice:
		if a.IsNil() || b.IsNil() {
			if a.IsNil() && b.IsNil() {
				return ""
			}
			return "nil:slice:" + a.Type().Elem().Kind().String()
		}
		if a.Len() != b.Len() {
			return "len:slice"
		}
		for i := 0; i < a.Len(); i++ {
			if d := FirstDiff(a.Index(i), b.Index(i)); d != "" {
				return d
			}
		}
		return ""
	case reflect.Array:
		for i := 0; i < a.Len(); i++ {
			if d := FirstDiff(a.Index(i), b.Index(i)); d != "" {
				return d
			}
		}
		return ""
	case reflect.Map:
		if a.IsNil() || b.IsNil() {
			if a.IsNil() && b.IsNil() {
				return ""
			}
			return "nil:map"
		}
		if a.Len() != b.Len() {
			return "len:map"
		}
		if HoldsPointer(a.Type().Key()) {
			if eqMapByContents(a, b, EqOpt{CopiedKeys: true}) {
				return ""
			}
			return "map:pointer-keys"
		}
		for _, k := range sortedKeys(a) {
			bv := b.MapIndex(k)
			if !bv.IsValid() {
				return "keys"
			}
			if d := FirstDiff(a.MapIndex(k), bv); d != "" {
				return d
			}
		}
		return ""
	case reflect.Struct:
		for i := 0; i < a.NumField(); i++ {
			if a.Type().Field(i).Name == "_" {
				continue
			}
			if d := FirstDiff(a.Field(i), b.Field(i)); d != "" {
				return d
			}
		}
		return ""
	}
	if !eq(a, b, EqOpt{}, false) {
		return "leaf:" + a.Kind().String()
	}
	return ""
}

// ReprDiff names how two structurally equal values differ in representation:
// negzero (a zero of different sign somewhere) or "" (bit-identical trees).
func ReprDiff(a, b reflect.Value) string {
	if Encode(a, EncOpt{}) != Encode(b, EncOpt{}) && Key(a) == Key(b) {
		return "negzero"
	}
	return ""
}
