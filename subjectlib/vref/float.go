package vref

import "math"

func signbit(f float64) bool { return math.Signbit(f) }
func negZero() float64       { return math.Copysign(0, -1) }
func flip(f float64) float64 {
	if math.Signbit(f) {
		return 0
	}
	return math.Copysign(0, -1)
}
