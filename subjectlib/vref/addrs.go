package vref

import (
	"fmt"
	"reflect"
	"sort"
)

// Region is an allocation reachable from a value.
type Region struct {
	Lo, Hi uintptr // [Lo, Hi)
	What   string
}

// Addrs returns the allocations reachable from v: pointer targets (non-zero size), slice backing
// arrays over their full capacity (cap>0, elemsize>0) and map headers. String bytes are excluded.
// The storage of v itself is not included.
func Addrs(v reflect.Value) []Region {
	var out []Region
	seen := map[uintptr]bool{}
	collectAddrs(v, "", &out, seen)
	return out
}

func collectAddrs(v reflect.Value, path string, out *[]Region, seen map[uintptr]bool) {
	switch v.Kind() {
	case reflect.Ptr:
		if v.IsNil() {
			return
		}
		sz := v.Type().Elem().Size()
		p := v.Pointer()
		if sz > 0 {
			if seen[p] {
				return
			}
			seen[p] = true
			*out = append(*out, Region{p, p + sz, path + "*"})
		}
		collectAddrs(v.Elem(), path+"*", out, seen)
	case reflect.Slice:
		if v.IsNil() {
			return
		}
		esz := v.Type().Elem().Size()
		if v.Cap() > 0 && esz > 0 {
			p := v.Pointer()
			*out = append(*out, Region{p, p + uintptr(v.Cap())*esz, path + "[]"})
		}
		for i := 0; i < v.Len(); i++ {
			collectAddrs(v.Index(i), fmt.Sprintf("%s[%d]", path, i), out, seen)
		}
	case reflect.Array:
		for i := 0; i < v.Len(); i++ {
			collectAddrs(v.Index(i), fmt.Sprintf("%s[%d]", path, i), out, seen)
		}
	case reflect.Map:
		if v.IsNil() {
			return
		}
		p := v.Pointer()
		if !seen[p] {
			seen[p] = true
			*out = append(*out, Region{p, p + 1, path + "{}"})
		}
		it := v.MapRange()
		for it.Next() {
			collectAddrs(it.Key(), path+"{k}", out, seen)
			collectAddrs(it.Value(), path+"{v}", out, seen)
		}
	case reflect.Struct:
		for i := 0; i < v.NumField(); i++ {
			collectAddrs(v.Field(i), path+"."+v.Type().Field(i).Name, out, seen)
		}
	}
}

// Overlap returns a description of the first overlapping pair of regions, or "".
func Overlap(a, b []Region) string {
	type ev struct {
		r    Region
		side int
	}
	all := make([]ev, 0, len(a)+len(b))
	for _, r := range a {
		all = append(all, ev{r, 0})
	}
	for _, r := range b {
		all = append(all, ev{r, 1})
	}
	sort.Slice(all, func(i, j int) bool { return all[i].r.Lo < all[j].r.Lo })
	// sweep: keep the furthest-reaching region of each side
	var last [2]*ev
	for i := range all {
		e := &all[i]
		o := last[1-e.side]
		if o != nil && o.r.Hi > e.r.Lo {
			x, y := o.r, e.r
			if e.side == 0 {
				x, y = e.r, o.r
			}
			return fmt.Sprintf("%s [%#x,%#x) overlaps %s [%#x,%#x)", x.What, x.Lo, x.Hi, y.What, y.Lo, y.Hi)
		}
		if last[e.side] == nil || e.r.Hi > last[e.side].r.Hi {
			last[e.side] = e
		}
	}
	return ""
}

// scribbleTargets writes through the pointers held by a map key (the key itself cannot change: it is hashed).
func scribbleTargets(k reflect.Value, seen map[uintptr]bool) {
	switch k.Kind() {
	case reflect.Ptr:
		scribble(k, seen)
	case reflect.Array:
		for i := 0; i < k.Len(); i++ {
			scribbleTargets(k.Index(i), seen)
		}
	case reflect.Struct:
		for i := 0; i < k.NumField(); i++ {
			scribbleTargets(k.Field(i), seen)
		}
	}
}

// Scribble overwrites every mutable location reachable from v (leaf values, slice elements including
// spare capacity, map entries) without changing which allocations are reachable.
func Scribble(v reflect.Value) {
	scribble(v, map[uintptr]bool{})
}

func scribble(v reflect.Value, seen map[uintptr]bool) {
	switch v.Kind() {
	case reflect.Bool:
		Settable(v).SetBool(!v.Bool())
	case reflect.Int, reflect.Int8, reflect.Int16, reflect.Int32, reflect.Int64:
		Settable(v).SetInt(^v.Int())
	case reflect.Uint, reflect.Uint8, reflect.Uint16, reflect.Uint32, reflect.Uint64, reflect.Uintptr:
		Settable(v).SetUint(^v.Uint())
	case reflect.Float32, reflect.Float64:
		f := v.Float()
		if f == 12345 {
			f = 54321
		} else {
			f = 12345
		}
		Settable(v).SetFloat(f)
	case reflect.Complex64, reflect.Complex128:
		Settable(v).SetComplex(v.Complex() + complex(7, 9))
	case reflect.String:
		Settable(v).SetString(v.String() + "~scribbled")
	case reflect.Ptr:
		if v.IsNil() {
			return
		}
		if v.Type().Elem().Size() > 0 {
			if seen[v.Pointer()] {
				return
			}
			seen[v.Pointer()] = true
		}
		scribble(v.Elem(), seen)
	case reflect.Slice:
		if v.IsNil() || v.Cap() == 0 {
			return
		}
		if v.Type().Elem().Size() > 0 {
			if seen[v.Pointer()] {
				return
			}
			seen[v.Pointer()] = true
		}
		full := v.Slice(0, v.Cap())
		for i := 0; i < full.Len(); i++ {
			scribble(full.Index(i), seen)
		}
	case reflect.Array:
		for i := 0; i < v.Len(); i++ {
			scribble(v.Index(i), seen)
		}
	case reflect.Map:
		if v.IsNil() {
			return
		}
		if seen[v.Pointer()] {
			return
		}
		seen[v.Pointer()] = true
		mv := Settable(v)
		for _, k := range mv.MapKeys() {
			scribbleTargets(k, seen)
			tmp := reflect.New(v.Type().Elem()).Elem()
			deepAssign(tmp, mv.MapIndex(k))
			scribble(tmp, seen)
			mv.SetMapIndex(k, tmp)
		}
		// add an entry
		k := reflect.New(v.Type().Key()).Elem()
		scribble(k, map[uintptr]bool{})
		if !hasNaN(k) {
			mv.SetMapIndex(k, reflect.New(v.Type().Elem()).Elem())
		}
	case reflect.Struct:
		for i := 0; i < v.NumField(); i++ {
			scribble(v.Field(i), seen)
		}
	}
}
