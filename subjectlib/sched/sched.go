// Package sched is a cooperative scheduler with Go's channel / WaitGroup semantics in which exactly
// one task runs at a time and every synchronisation operation is a choice point. It lets a harness
// enumerate (or sample) the interleavings of code that was rewritten from chan/go/select/sync.WaitGroup
// onto this API. It depends on the standard library only.
package sched

import (
	"fmt"
	"sort"
	"strings"
)

type opKind int

const (
	opNone opKind = iota
	opSend
	opRecv
	opClose
	opSelect
	opWgAdd
	opWgWait
	opYield
	opShared
)

type chanCore struct {
	id     int
	name   string
	cap    int
	buf    []any
	closed bool
}

// SelCase is one alternative of a Select.
type SelCase struct {
	ch   *chanCore
	send bool
	val  any
}

type op struct {
	kind  opKind
	ch    *chanCore
	val   any
	cases []SelCase
	def   bool
	wg    *WaitGroup
	delta int
	// results
	rval any
	rok  bool
	ridx int
}

type task struct {
	id       int
	name     string
	resume   chan struct{}
	op       *op
	finished bool
	runnable bool
	panicked any
}

// Sched runs tasks one at a time.
type Sched struct {
	tasks  []*task
	yield  chan *task
	cur    *task
	Choose func(n int, labels []string) int
	// ChooseT, when set, is used instead of Choose; returning -1 abandons the run (used by the
	// partial-order-reducing explorer when every enabled transition is asleep).
	ChooseT   func(ts []TInfo) int
	Abandoned bool
	Trace     []string
	Problems  []string
	Steps     int
	MaxSteps  int
	nchan     int
	Deadlock  bool
	Blocked   []string // tasks still blocked at the end
	aborted   bool
}

// New returns a scheduler using the given chooser (index among n enabled transitions).
func New(choose func(n int, labels []string) int) *Sched {
	return &Sched{yield: make(chan *task), Choose: choose, MaxSteps: 5000}
}

type abortRun struct{}

// Go starts a new task. It runs until its first synchronisation operation as soon as the
// spawning task yields.
func (s *Sched) Go(f func()) { s.GoNamed("", f) }

// GoNamed starts a named task.
func (s *Sched) GoNamed(name string, f func()) {
	t := &task{id: len(s.tasks), name: name, resume: make(chan struct{}), runnable: true}
	if t.name == "" {
		t.name = fmt.Sprintf("g%d", t.id)
	}
	s.tasks = append(s.tasks, t)
	go func() {
		<-t.resume
		defer func() {
			if r := recover(); r != nil {
				if _, ok := r.(abortRun); !ok {
					t.panicked = r
				}
			}
			t.finished = true
			t.op = nil
			s.yield <- t
		}()
		f()
	}()
}

// block posts an operation and parks the calling task until the scheduler completes it.
func (s *Sched) block(o *op) *op {
	t := s.cur
	t.op = o
	s.yield <- t
	<-t.resume
	if s.aborted {
		panic(abortRun{})
	}
	return o
}

type transition struct {
	label string
	apply func()
	wake  []*task
	deps  []string // resources touched: tasks, channels, wait groups (two transitions with disjoint deps commute)
}

// TInfo describes an enabled transition to a chooser.
type TInfo struct {
	Label string
	Deps  []string
}

func (s *Sched) problem(format string, a ...any) {
	s.Problems = append(s.Problems, fmt.Sprintf(format, a...))
}

// enabled lists the transitions that can fire now.
func (s *Sched) enabled() []transition {
	var ts []transition
	blocked := []*task{}
	for _, t := range s.tasks {
		if !t.finished && t.op != nil {
			blocked = append(blocked, t)
		}
	}
	// helpers over one (task, channel-alternative)
	type alt struct {
		t    *task
		ch   *chanCore
		send bool
		val  any
		idx  int // select index, -1 for plain op
	}
	var alts []alt
	for _, t := range blocked {
		switch t.op.kind {
		case opSend:
			alts = append(alts, alt{t, t.op.ch, true, t.op.val, -1})
		case opRecv:
			alts = append(alts, alt{t, t.op.ch, false, nil, -1})
		case opSelect:
			for i, c := range t.op.cases {
				alts = append(alts, alt{t, c.ch, c.send, c.val, i})
			}
		}
	}
	complete := func(a alt, v any, ok bool) {
		a.t.op.rval, a.t.op.rok, a.t.op.ridx = v, ok, a.idx
	}
	selReady := map[*task]bool{}
	for _, a := range alts {
		a := a
		if a.ch == nil {
			continue // nil channel: never ready
		}
		ch := a.ch
		if a.send {
			if ch.closed {
				ts = append(ts, transition{fmt.Sprintf("%s: send on closed %s (panic)", a.t.name, ch.name), func() {
					s.problem("send on closed channel %s by %s", ch.name, a.t.name)
					s.aborted = true
				}, nil, []string{"task:" + a.t.name, "chan:" + ch.name}})
				selReady[a.t] = true
				continue
			}
			if len(ch.buf) < ch.cap {
				ts = append(ts, transition{fmt.Sprintf("%s: send %v -> %s (buffer)", a.t.name, a.val, ch.name), func() {
					ch.buf = append(ch.buf, a.val)
					complete(a, nil, true)
				}, []*task{a.t}, []string{"task:" + a.t.name, "chan:" + ch.name}})
				selReady[a.t] = true
				continue
			}
			// rendezvous with a waiting receiver (only when the buffer is empty, i.e. unbuffered or drained)
			if len(ch.buf) == 0 {
				for _, r := range alts {
					r := r
					if r.send || r.ch != ch || r.t == a.t {
						continue
					}
					ts = append(ts, transition{fmt.Sprintf("%s -> %s: %v over %s", a.t.name, r.t.name, a.val, ch.name), func() {
						complete(a, nil, true)
						complete(r, a.val, true)
					}, []*task{a.t, r.t}, []string{"task:" + a.t.name, "task:" + r.t.name, "chan:" + ch.name}})
					selReady[a.t] = true
					selReady[r.t] = true
				}
			}
		} else {
			if len(ch.buf) > 0 {
				ts = append(ts, transition{fmt.Sprintf("%s: recv from %s (buffer)", a.t.name, ch.name), func() {
					v := ch.buf[0]
					ch.buf = ch.buf[1:]
					complete(a, v, true)
				}, []*task{a.t}, []string{"task:" + a.t.name, "chan:" + ch.name}})
				selReady[a.t] = true
			} else if ch.closed {
				ts = append(ts, transition{fmt.Sprintf("%s: recv from closed %s", a.t.name, ch.name), func() {
					complete(a, nil, false)
				}, []*task{a.t}, []string{"task:" + a.t.name, "chan:" + ch.name}})
				selReady[a.t] = true
			}
		}
	}
	for _, t := range blocked {
		t := t
		switch t.op.kind {
		case opSelect:
			if t.op.def && !selReady[t] {
				deps := []string{"task:" + t.name}
				for _, sc := range t.op.cases {
					if sc.ch != nil {
						deps = append(deps, "chan:"+sc.ch.name)
					}
				}
				ts = append(ts, transition{t.name + ": select default", func() { t.op.ridx = -1 }, []*task{t}, deps})
			}
		case opClose:
			ch := t.op.ch
			ts = append(ts, transition{fmt.Sprintf("%s: close %s", t.name, chName(ch)), func() {
				if ch == nil {
					s.problem("close of nil channel by %s", t.name)
					s.aborted = true
					return
				}
				if ch.closed {
					s.problem("close of closed channel %s by %s", ch.name, t.name)
					s.aborted = true
					return
				}
				ch.closed = true
			}, []*task{t}, []string{"task:" + t.name, "chan:" + chName(ch)}})
		case opWgAdd:
			wg, d := t.op.wg, t.op.delta
			ts = append(ts, transition{fmt.Sprintf("%s: wg.Add(%d)", t.name, d), func() {
				wg.n += d
				if wg.n < 0 {
					s.problem("negative WaitGroup counter (by %s)", t.name)
					s.aborted = true
				}
				if d > 0 && wg.waiting > 0 && wg.n == d {
					s.problem("WaitGroup.Add(%d) by %s concurrent with Wait at counter zero (misuse: Add must happen before Wait)", d, t.name)
				}
			}, []*task{t}, []string{"task:" + t.name, fmt.Sprintf("wg:%p", wg)}})
		case opWgWait:
			if t.op.wg.n == 0 {
				wg := t.op.wg
				ts = append(ts, transition{t.name + ": wg.Wait returns", func() { wg.waiting-- }, []*task{t}, []string{"task:" + t.name, fmt.Sprintf("wg:%p", wg)}})
			}
		case opYield:
			ts = append(ts, transition{t.name + ": continue", func() {}, []*task{t}, []string{"task:" + t.name}})
		case opShared:
			// an access to memory that other tasks access as well (sync/atomic): never independent of another one
			ts = append(ts, transition{t.name + ": atomic access", func() {}, []*task{t}, []string{"task:" + t.name, "shared-memory"}})
		}
	}
	// a transition that completes a select also disables the select's other alternatives: it depends on
	// every channel of that select
	for i := range ts {
		for _, t := range ts[i].wake {
			if t.op != nil && t.op.kind == opSelect {
				for _, sc := range t.op.cases {
					if sc.ch != nil {
						ts[i].deps = append(ts[i].deps, "chan:"+sc.ch.name)
					}
				}
			}
		}
	}
	sort.SliceStable(ts, func(i, j int) bool { return ts[i].label < ts[j].label })
	return ts
}

func chName(c *chanCore) string {
	if c == nil {
		return "nil"
	}
	return c.name
}

// Run executes main as the first task and drives all tasks to completion, deadlock or abort.
func (s *Sched) Run(main func()) {
	s.GoNamed("main", main)
	for {
		// run every runnable task until it posts an operation or finishes
		for {
			var next *task
			for _, t := range s.tasks {
				if t.runnable && !t.finished {
					next = t
					break
				}
			}
			if next == nil {
				break
			}
			next.runnable = false
			s.cur = next
			next.resume <- struct{}{}
			y := <-s.yield
			if y.panicked != nil {
				s.problem("panic in %s: %v", y.name, y.panicked)
				s.aborted = true
			}
			if s.aborted {
				s.abort()
				return
			}
		}
		ts := s.enabled()
		if len(ts) == 0 {
			for _, t := range s.tasks {
				if !t.finished {
					s.Blocked = append(s.Blocked, t.name+" at "+opString(t.op))
				}
			}
			if len(s.Blocked) > 0 {
				s.Deadlock = true
				s.abort()
			}
			return
		}
		s.Steps++
		if s.Steps > s.MaxSteps {
			s.problem("step bound %d exceeded (livelock?)", s.MaxSteps)
			s.abort()
			return
		}
		labels := make([]string, len(ts))
		for i := range ts {
			labels[i] = ts[i].label
		}
		i := 0
		if s.ChooseT != nil {
			infos := make([]TInfo, len(ts))
			for k := range ts {
				infos[k] = TInfo{ts[k].label, ts[k].deps}
			}
			i = s.ChooseT(infos)
			if i < 0 {
				s.Abandoned = true
				s.abort()
				return
			}
		} else if len(ts) > 1 {
			i = s.Choose(len(ts), labels)
		}
		tr := ts[i]
		s.Trace = append(s.Trace, tr.label)
		tr.apply()
		if s.aborted {
			s.abort()
			return
		}
		for _, t := range tr.wake {
			t.op = nil
			t.runnable = true
		}
	}
}

// abort releases every parked task so that its goroutine exits.
func (s *Sched) abort() {
	s.aborted = true
	for _, t := range s.tasks {
		if !t.finished {
			t.op = nil
			select {
			case t.resume <- struct{}{}:
				<-s.yield
			default:
				// not parked on resume (never started): start and let it unwind
				go func(t *task) { t.resume <- struct{}{} }(t)
				<-s.yield
			}
		}
	}
}

func opString(o *op) string {
	if o == nil {
		return "-"
	}
	switch o.kind {
	case opSend:
		return "send on " + chName(o.ch)
	case opRecv:
		return "recv from " + chName(o.ch)
	case opClose:
		return "close " + chName(o.ch)
	case opSelect:
		var cs []string
		for _, c := range o.cases {
			cs = append(cs, chName(c.ch))
		}
		return "select{" + strings.Join(cs, ",") + "}"
	case opWgWait:
		return "wg.Wait"
	case opWgAdd:
		return "wg.Add"
	}
	return "yield"
}

// Chan is a channel of T under the scheduler. A nil *Chan behaves like a nil channel.
type Chan[T any] struct {
	s *Sched
	c *chanCore
}

// Make creates a channel with the given capacity.
func Make[T any](s *Sched, capacity int) *Chan[T] {
	s.nchan++
	return &Chan[T]{s: s, c: &chanCore{id: s.nchan, name: fmt.Sprintf("ch%d", s.nchan), cap: capacity}}
}

// Named sets a name used in traces.
func (c *Chan[T]) Named(n string) *Chan[T] { c.c.name = n; return c }

func (c *Chan[T]) core() *chanCore {
	if c == nil {
		return nil
	}
	return c.c
}

// Send is `c <- v`.
func (c *Chan[T]) Send(v T) {
	if c == nil {
		panic("sched: send on nil channel outside select is not supported by the model (blocks forever)")
	}
	c.s.block(&op{kind: opSend, ch: c.c, val: v})
}

// Recv is `v, ok := <-c`.
func (c *Chan[T]) Recv() (T, bool) {
	var zero T
	if c == nil {
		panic("sched: receive from nil channel outside select is not supported by the model (blocks forever)")
	}
	o := c.s.block(&op{kind: opRecv, ch: c.c})
	if !o.rok {
		return zero, false
	}
	if o.rval == nil {
		return zero, true // a nil interface value (e.g. a nil error) was sent
	}
	return o.rval.(T), true
}

// Recv1 is `<-c` used as a value.
func (c *Chan[T]) Recv1() T { v, _ := c.Recv(); return v }

// Close is close(c).
func (c *Chan[T]) Close() {
	var core *chanCore
	var s *Sched
	if c != nil {
		core, s = c.c, c.s
	} else {
		panic("sched: close of nil channel")
	}
	s.block(&op{kind: opClose, ch: core})
}

// Cap is cap(c).
func (c *Chan[T]) Cap() int {
	if c == nil {
		return 0
	}
	return c.c.cap
}

// Len is len(c).
func (c *Chan[T]) Len() int {
	if c == nil {
		return 0
	}
	return len(c.c.buf)
}

// RecvCase makes a receive alternative for Select.
func (c *Chan[T]) RecvCase() SelCase { return SelCase{ch: c.core()} }

// SendCase makes a send alternative for Select.
func (c *Chan[T]) SendCase(v T) SelCase { return SelCase{ch: c.core(), send: true, val: v} }

// Select blocks until one alternative can proceed; it returns its index (-1 for default), the received
// value (nil on closed) and ok.
func Select(s *Sched, hasDefault bool, cases ...SelCase) (int, any, bool) {
	o := s.block(&op{kind: opSelect, cases: cases, def: hasDefault})
	return o.ridx, o.rval, o.rok
}

// As converts a value received through Select.
func As[T any](v any) T {
	var zero T
	if v == nil {
		return zero
	}
	return v.(T)
}

// WaitGroup models sync.WaitGroup.
type WaitGroup struct {
	s       *Sched
	n       int
	waiting int
}

// NewWaitGroup returns a WaitGroup under the scheduler.
func NewWaitGroup(s *Sched) *WaitGroup { return &WaitGroup{s: s} }

func (w *WaitGroup) Add(d int) { w.s.block(&op{kind: opWgAdd, wg: w, delta: d}) }
func (w *WaitGroup) Done()     { w.Add(-1) }
func (w *WaitGroup) Wait() {
	w.waiting++
	w.s.block(&op{kind: opWgWait, wg: w})
}

// Yield is an explicit choice point (used by harness tasks).
func (s *Sched) Yield() { s.block(&op{kind: opYield}) }

// Shared is a scheduling point before an access to memory that is shared between tasks (an operation of
// sync/atomic): any other task may run before the caller performs the access, and the explorers keep both orders
// of two such points.
func (s *Sched) Shared() { s.block(&op{kind: opShared}) }

// Step performs op after a Shared scheduling point: the rewritten form of an atomic operation with a result.
func Step[T any](s *Sched, op func() T) T {
	s.Shared()
	return op()
}

// Explorer enumerates choice sequences depth-first.
type Explorer struct {
	prefix []int
	widths []int
	pos    int
	Runs   int
}

// Chooser returns the chooser for the next run.
func (e *Explorer) Chooser() func(n int, labels []string) int {
	e.pos = 0
	e.widths = e.widths[:0]
	return func(n int, _ []string) int {
		c := 0
		if e.pos < len(e.prefix) {
			c = e.prefix[e.pos]
			if c >= n {
				c = n - 1
			}
		}
		if e.pos < len(e.widths) {
			e.widths[e.pos] = n
		} else {
			e.widths = append(e.widths, n)
		}
		if e.pos >= len(e.prefix) {
			e.prefix = append(e.prefix, c)
		}
		e.pos++
		return c
	}
}

// Next advances to the next unexplored schedule; false when the tree is exhausted.
func (e *Explorer) Next() bool {
	e.Runs++
	e.prefix = e.prefix[:min(len(e.prefix), e.pos)]
	for i := len(e.prefix) - 1; i >= 0; i-- {
		if e.prefix[i]+1 < e.widths[i] {
			e.prefix[i]++
			e.prefix = e.prefix[:i+1]
			return true
		}
	}
	return false
}

// PORExplorer enumerates schedules depth-first with sleep sets: of two adjacent independent transitions
// (disjoint tasks, channels and wait groups) only one order is explored, so that every Mazurkiewicz trace
// is still covered while commuting interleavings are not repeated.
type PORExplorer struct {
	stack []*porFrame
	pos   int
	Runs  int
	Cut   int // runs abandoned because every enabled transition was asleep
}

type porFrame struct {
	enabled []TInfo
	chosen  int
	done    map[string]bool // labels already explored from this node
	sleep   map[string][]string
}

func independent(a, b []string) bool {
	for _, x := range a {
		for _, y := range b {
			if x == y {
				return false
			}
		}
	}
	return true
}

// Chooser returns the chooser for the next run.
func (e *PORExplorer) Chooser() func(ts []TInfo) int {
	e.pos = 0
	return func(ts []TInfo) int {
		d := e.pos
		e.pos++
		if d < len(e.stack) {
			// re-execution of the known prefix (runs are deterministic given the choices)
			return e.stack[d].chosen
		}
		// new node: inherit the sleep set from the parent
		f := &porFrame{enabled: ts, chosen: -1, done: map[string]bool{}, sleep: map[string][]string{}}
		if d > 0 {
			par := e.stack[d-1]
			taken := par.enabled[par.chosen]
			for l, deps := range par.sleep {
				if independent(deps, taken.Deps) {
					f.sleep[l] = deps
				}
			}
		}
		e.stack = append(e.stack, f)
		for i, t := range ts {
			if _, asleep := f.sleep[t.Label]; !asleep {
				f.chosen = i
				return i
			}
		}
		e.Cut++
		return -1
	}
}

// Next prepares the next run; false when the (reduced) tree is exhausted.
func (e *PORExplorer) Next() bool {
	e.Runs++
	e.stack = e.stack[:min(len(e.stack), e.pos)]
	for len(e.stack) > 0 {
		f := e.stack[len(e.stack)-1]
		if f.chosen >= 0 {
			t := f.enabled[f.chosen]
			f.done[t.Label] = true
			f.sleep[t.Label] = t.Deps
		}
		next := -1
		for i, t := range f.enabled {
			if f.done[t.Label] {
				continue
			}
			if _, asleep := f.sleep[t.Label]; asleep {
				continue
			}
			next = i
			break
		}
		if next >= 0 {
			f.chosen = next
			return true
		}
		e.stack = e.stack[:len(e.stack)-1]
	}
	return false
}
