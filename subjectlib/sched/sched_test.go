package sched

import (
	"fmt"
	"sort"
	"testing"

	"pgregory.net/rapid"
)

// Differential test: a single task performs non-blocking operations on a real channel and on a model
// channel; every observable result must agree.
func TestDifferentialNonBlocking(t *testing.T) {
	rapid.Check(t, func(rt *rapid.T) {
		capacity := rapid.IntRange(0, 3).Draw(rt, "cap")
		n := rapid.IntRange(1, 25).Draw(rt, "nops")
		ops := make([]int, n)
		for i := range ops {
			ops[i] = rapid.IntRange(0, 4).Draw(rt, "op")
		}
		var realLog, modelLog []string
		// real
		{
			ch := make(chan int, capacity)
			closed := false
			for i, o := range ops {
				switch o {
				case 0, 1:
					func() {
						defer func() {
							if r := recover(); r != nil {
								realLog = append(realLog, "send-panic")
							}
						}()
						select {
						case ch <- i:
							realLog = append(realLog, "sent")
						default:
							realLog = append(realLog, "send-would-block")
						}
					}()
				case 2, 3:
					select {
					case v, ok := <-ch:
						realLog = append(realLog, fmt.Sprintf("recv %d %v", v, ok))
					default:
						realLog = append(realLog, "recv-would-block")
					}
				case 4:
					if closed {
						realLog = append(realLog, "close-panic")
					} else {
						close(ch)
						closed = true
						realLog = append(realLog, "closed")
					}
				}
				realLog = append(realLog, fmt.Sprintf("len %d cap %d", len(ch), cap(ch)))
			}
		}
		// model
		{
			s := New(func(n int, _ []string) int { return 0 })
			closedProblem := false
			s.Run(func() {
				ch := Make[int](s, capacity)
				closed := false
				for i, o := range ops {
					switch o {
					case 0, 1:
						if closed {
							// the model aborts the run on send-on-closed; record and stop like a panic would
							modelLog = append(modelLog, "send-panic")
						} else {
							idx, _, _ := Select(s, true, ch.SendCase(i))
							if idx == 0 {
								modelLog = append(modelLog, "sent")
							} else {
								modelLog = append(modelLog, "send-would-block")
							}
						}
					case 2, 3:
						idx, v, ok := Select(s, true, ch.RecvCase())
						if idx == 0 {
							modelLog = append(modelLog, fmt.Sprintf("recv %d %v", As[int](v), ok))
						} else {
							modelLog = append(modelLog, "recv-would-block")
						}
					case 4:
						if closed {
							modelLog = append(modelLog, "close-panic")
							closedProblem = true
						} else {
							ch.Close()
							closed = true
							modelLog = append(modelLog, "closed")
						}
					}
					modelLog = append(modelLog, fmt.Sprintf("len %d cap %d", ch.Len(), ch.Cap()))
				}
			})
			_ = closedProblem
			if len(s.Problems) > 0 || s.Deadlock {
				rt.Fatalf("model reported %v deadlock=%v", s.Problems, s.Deadlock)
			}
		}
		if fmt.Sprint(realLog) != fmt.Sprint(modelLog) {
			rt.Fatalf("real and model channels disagree\nreal : %v\nmodel: %v", realLog, modelLog)
		}
	})
}

// join merges the inputs; addInside moves wg.Add into the forwarding goroutine (a classic bug).
func join(s *Sched, ins []*Chan[int], addInside bool) *Chan[int] {
	out := Make[int](s, 0)
	s.Go(func() {
		wg := NewWaitGroup(s)
		for _, c := range ins {
			c := c
			if !addInside {
				wg.Add(1)
			}
			s.Go(func() {
				if addInside {
					wg.Add(1)
				}
				for {
					v, ok := c.Recv()
					if !ok {
						break
					}
					out.Send(v)
				}
				wg.Done()
			})
		}
		wg.Wait()
		out.Close()
	})
	return out
}

func explore(t *testing.T, addInside bool, limit int) (runs int, bad []string) {
	e := &Explorer{}
	for {
		s := New(e.Chooser())
		var got []int
		s.Run(func() {
			a, b := Make[int](s, 0), Make[int](s, 1)
			out := join(s, []*Chan[int]{a, b}, addInside)
			s.Go(func() { a.Send(1); a.Close() })
			s.Go(func() { b.Send(2); b.Close() })
			for {
				v, ok := out.Recv()
				if !ok {
					break
				}
				got = append(got, v)
			}
		})
		sort.Ints(got)
		if len(s.Problems) > 0 || s.Deadlock || fmt.Sprint(got) != "[1 2]" {
			bad = append(bad, fmt.Sprintf("got=%v problems=%v deadlock=%v blocked=%v", got, s.Problems, s.Deadlock, s.Blocked))
		}
		if !e.Next() || e.Runs >= limit {
			return e.Runs, bad
		}
	}
}

func TestExploreJoin(t *testing.T) {
	runs, bad := explore(t, false, 200000)
	if len(bad) > 0 {
		t.Fatalf("correct join fails in %d of %d schedules, e.g. %s", len(bad), runs, bad[0])
	}
	if runs < 50 {
		t.Fatalf("only %d schedules explored", runs)
	}
	t.Logf("correct join: %d schedules, all deliver [1 2]", runs)
	runs2, bad2 := explore(t, true, 200000)
	if len(bad2) == 0 {
		t.Fatalf("join with wg.Add inside the goroutine passed all %d schedules: the explorer misses the bug", runs2)
	}
	t.Logf("buggy join: %d of %d schedules fail, e.g. %s", len(bad2), runs2, bad2[0])
}

func explorePOR(addInside bool, limit int) (runs, cut int, bad []string) {
	e := &PORExplorer{}
	for {
		s := New(nil)
		s.ChooseT = e.Chooser()
		var got []int
		s.Run(func() {
			a, b := Make[int](s, 0), Make[int](s, 1)
			out := join(s, []*Chan[int]{a, b}, addInside)
			s.Go(func() { a.Send(1); a.Close() })
			s.Go(func() { b.Send(2); b.Close() })
			for {
				v, ok := out.Recv()
				if !ok {
					break
				}
				got = append(got, v)
			}
		})
		if !s.Abandoned {
			sort.Ints(got)
			if len(s.Problems) > 0 || s.Deadlock || fmt.Sprint(got) != "[1 2]" {
				bad = append(bad, fmt.Sprintf("got=%v problems=%v deadlock=%v", got, s.Problems, s.Deadlock))
			}
		}
		if !e.Next() || e.Runs >= limit {
			return e.Runs, e.Cut, bad
		}
	}
}

func TestExploreJoinPOR(t *testing.T) {
	runs, cut, bad := explorePOR(false, 500000)
	if len(bad) > 0 {
		t.Fatalf("correct join fails under the reducing explorer: %s", bad[0])
	}
	t.Logf("correct join with sleep sets: %d runs (%d cut)", runs, cut)
	runs2, cut2, bad2 := explorePOR(true, 500000)
	if len(bad2) == 0 {
		t.Fatalf("the reducing explorer misses the wg.Add bug in %d runs", runs2)
	}
	t.Logf("buggy join with sleep sets: %d of %d runs fail (%d cut), e.g. %s", len(bad2), runs2, cut2, bad2[0])
}

// TestSharedPointsKeepBothOrders: two tasks count down with a decrement followed by a separate read (the atomic
// AddInt32 / LoadInt32 pair). The schedule in which both decrement before either reads must be among those the
// reducing explorer keeps, although the two tasks touch no channel.
func TestSharedPointsKeepBothOrders(t *testing.T) {
	e := &PORExplorer{}
	bothSawZero, onlyLast := 0, 0
	for {
		s := New(nil)
		s.ChooseT = e.Chooser()
		zeros := 0
		s.Run(func() {
			pending := 2
			for i := 0; i < 2; i++ {
				s.Go(func() {
					s.Shared()
					pending--
					v := Step(s, func() int { return pending })
					if v == 0 {
						zeros++
					}
				})
			}
		})
		if !s.Abandoned {
			switch zeros {
			case 2:
				bothSawZero++
			case 1:
				onlyLast++
			default:
				t.Fatalf("no task saw zero")
			}
		}
		if !e.Next() || e.Runs > 10000 {
			break
		}
	}
	if bothSawZero == 0 || onlyLast == 0 {
		t.Fatalf("explored %d runs: both-saw-zero %d, only-the-last %d (both kinds of schedule have to be kept)", e.Runs, bothSawZero, onlyLast)
	}
	t.Logf("%d runs: both saw zero in %d, only the last one in %d", e.Runs, bothSawZero, onlyLast)
}
