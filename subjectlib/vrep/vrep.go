// Package vrep holds the report format shared by the driver, the per-property
// test binaries and the harnesses compiled inside generated subject modules.
// It depends on the standard library only, so it can be copied into any module.
package vrep

import (
	"crypto/sha256"
	"encoding/hex"
	"encoding/json"
	"fmt"
	"os"
	"sort"
	"sync"
)

// Violation is one failing case, classified by a structured signature.
type Violation struct {
	Signature map[string]string `json:"signature"`
	Message   string            `json:"message"`
	Replay    string            `json:"replay,omitempty"`
	Finding   string            `json:"finding,omitempty"` // id of the matching open finding, if any
}

// Report is what one shard (or one harness run) measured.
type Report struct {
	mu           sync.Mutex
	Property     string           `json:"property"`
	Evaluations  int              `json:"evaluations"`
	Nontrivial   map[string]int   `json:"nontrivial"` // hash of distinct non-trivial case -> 1
	Samples      []any            `json:"samples"`
	Classes      map[string]int   `json:"classes"`
	Excluded     map[string]int   `json:"excluded"`
	Violations   []Violation      `json:"violations"`
	Known        []Violation      `json:"known"`
	Inconclusive []string         `json:"inconclusive"`
	Notes        []string         `json:"notes"`
	Extra        map[string]int64 `json:"extra"`
	maxSamples   int
}

// New returns an empty report.
func New(property string) *Report {
	return &Report{Property: property, Nontrivial: map[string]int{}, Classes: map[string]int{},
		Excluded: map[string]int{}, Extra: map[string]int64{}, maxSamples: 6}
}

// Eval counts one generated case.
func (r *Report) Eval() { r.mu.Lock(); r.Evaluations++; r.mu.Unlock() }

// EvalN counts n generated cases.
func (r *Report) EvalN(n int) { r.mu.Lock(); r.Evaluations += n; r.mu.Unlock() }

// NT records a distinct non-trivial case identified by key.
func (r *Report) NT(key string) {
	s := sha256.Sum256([]byte(key))
	h := hex.EncodeToString(s[:8])
	r.mu.Lock()
	r.Nontrivial[h] = 1
	r.mu.Unlock()
}

// Class increments a class counter (generator distribution).
func (r *Report) Class(name string) { r.mu.Lock(); r.Classes[name]++; r.mu.Unlock() }

// ClassN adds n to a class counter.
func (r *Report) ClassN(name string, n int) { r.mu.Lock(); r.Classes[name] += n; r.mu.Unlock() }

// Exclude counts a case avoided because of an open finding.
func (r *Report) Exclude(finding string) { r.mu.Lock(); r.Excluded[finding]++; r.mu.Unlock() }

// Sample keeps a few written-out cases.
func (r *Report) Sample(s any) {
	r.mu.Lock()
	if len(r.Samples) < r.maxSamples {
		r.Samples = append(r.Samples, s)
	}
	r.mu.Unlock()
}

// Note keeps a free-text note.
func (r *Report) Note(format string, a ...any) {
	r.mu.Lock()
	if len(r.Notes) < 50 {
		r.Notes = append(r.Notes, fmt.Sprintf(format, a...))
	}
	r.mu.Unlock()
}

// Inconcl records an infrastructure problem (never a violation).
func (r *Report) Inconcl(format string, a ...any) {
	r.mu.Lock()
	if len(r.Inconclusive) < 50 {
		r.Inconclusive = append(r.Inconclusive, fmt.Sprintf(format, a...))
	}
	r.mu.Unlock()
}

// AddExtra adds to a free counter.
func (r *Report) AddExtra(k string, n int64) { r.mu.Lock(); r.Extra[k] += n; r.mu.Unlock() }

// Violate records a violation.
func (r *Report) Violate(v Violation) {
	r.mu.Lock()
	if len(r.Violations) < 200 {
		r.Violations = append(r.Violations, v)
	}
	r.mu.Unlock()
}

// KnownHit records a case that matched an open finding.
func (r *Report) KnownHit(v Violation) {
	r.mu.Lock()
	seen := false
	for _, k := range r.Known {
		if k.Finding == v.Finding {
			seen = true
			break
		}
	}
	if !seen {
		r.Known = append(r.Known, v)
	}
	r.Extra["known_hits:"+v.Finding]++
	r.mu.Unlock()
}

// Merge folds o into r.
func (r *Report) Merge(o *Report) {
	if o == nil {
		return
	}
	r.mu.Lock()
	defer r.mu.Unlock()
	r.Evaluations += o.Evaluations
	for k := range o.Nontrivial {
		r.Nontrivial[k] = 1
	}
	for _, s := range o.Samples {
		if len(r.Samples) < 12 {
			r.Samples = append(r.Samples, s)
		}
	}
	for k, v := range o.Classes {
		r.Classes[k] += v
	}
	for k, v := range o.Excluded {
		r.Excluded[k] += v
	}
	for k, v := range o.Extra {
		r.Extra[k] += v
	}
	r.Violations = append(r.Violations, o.Violations...)
	for _, k := range o.Known {
		seen := false
		for _, e := range r.Known {
			if e.Finding == k.Finding {
				seen = true
			}
		}
		if !seen {
			r.Known = append(r.Known, k)
		}
	}
	r.Inconclusive = append(r.Inconclusive, o.Inconclusive...)
	for _, n := range o.Notes {
		if len(r.Notes) < 50 {
			r.Notes = append(r.Notes, n)
		}
	}
}

// Write stores the report as JSON.
func (r *Report) Write(path string) error {
	r.mu.Lock()
	defer r.mu.Unlock()
	b, err := json.Marshal(r)
	if err != nil {
		return err
	}
	tmp := path + ".tmp"
	if err := os.WriteFile(tmp, b, 0o644); err != nil {
		return err
	}
	return os.Rename(tmp, path)
}

// Read loads a report.
func Read(path string) (*Report, error) {
	b, err := os.ReadFile(path)
	if err != nil {
		return nil, err
	}
	r := New("")
	if err := json.Unmarshal(b, r); err != nil {
		return nil, err
	}
	if r.Nontrivial == nil {
		r.Nontrivial = map[string]int{}
	}
	if r.Classes == nil {
		r.Classes = map[string]int{}
	}
	if r.Excluded == nil {
		r.Excluded = map[string]int{}
	}
	if r.Extra == nil {
		r.Extra = map[string]int64{}
	}
	return r, nil
}

// Finding is one entry of known_findings.json.
type Finding struct {
	ID        string            `json:"id"`
	Property  string            `json:"property"`
	Status    string            `json:"status"` // open | fixed
	Signature map[string]string `json:"signature,omitempty"`
	What      string            `json:"what"`
	Commit    string            `json:"commit,omitempty"`
	RootCause string            `json:"root_cause,omitempty"`
}

// Findings is the known-findings file.
type Findings struct {
	Findings []Finding `json:"findings"`
}

// LoadFindings reads the findings file named by VERIF_FINDINGS (or path).
func LoadFindings(path string) (*Findings, error) {
	if path == "" {
		path = os.Getenv("VERIF_FINDINGS")
	}
	if path == "" {
		return &Findings{}, nil
	}
	b, err := os.ReadFile(path)
	if err != nil {
		return nil, err
	}
	f := &Findings{}
	if err := json.Unmarshal(b, f); err != nil {
		return nil, err
	}
	return f, nil
}

// Match returns the open finding of the property whose signature is matched by sig:
// every key of the finding's signature must be present in sig with the same value.
func (f *Findings) Match(property string, sig map[string]string) *Finding {
	for i := range f.Findings {
		fd := &f.Findings[i]
		if fd.Status != "open" || fd.Property != property || len(fd.Signature) == 0 {
			continue
		}
		ok := true
		for k, v := range fd.Signature {
			if sig[k] != v {
				ok = false
				break
			}
		}
		if ok {
			return fd
		}
	}
	return nil
}

// Open lists the open findings of a property.
func (f *Findings) Open(property string) []Finding {
	var out []Finding
	for _, fd := range f.Findings {
		if fd.Status == "open" && fd.Property == property {
			out = append(out, fd)
		}
	}
	return out
}

// IsOpen reports whether a finding id is open.
func (f *Findings) IsOpen(id string) bool {
	for _, fd := range f.Findings {
		if fd.ID == id && fd.Status == "open" {
			return true
		}
	}
	return false
}

// SigString renders a signature deterministically.
func SigString(sig map[string]string) string {
	keys := make([]string, 0, len(sig))
	for k := range sig {
		keys = append(keys, k)
	}
	sort.Strings(keys)
	s := ""
	for i, k := range keys {
		if i > 0 {
			s += " "
		}
		s += k + "=" + sig[k]
	}
	return s
}
