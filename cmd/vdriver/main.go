// vdriver orchestrates one check: it builds goderive from the tree under test,
// builds the property's rapid test binary, runs it in parallel shards, merges
// their reports, matches failures against known_findings.json, writes the
// evidence file and prints the verdict lines.
package main

import (
	"encoding/json"
	"fmt"
	"os"
	"path/filepath"
	"sort"
	"strconv"
	"strings"
	"sync"
	"syscall"
	"time"

	"verif/internal/gorun"
	"verif/subjectlib/vrep"
)

type tierPlan struct {
	Shards int    // parallel processes
	Checks int    // rapid checks per shard
	Shrink string // rapid shrink time
	Limit  time.Duration
}

type plan struct {
	Quick, Thorough tierPlan
	Rule            string
	Assumptions     []string
}

func usage() {
	fmt.Fprintln(os.Stderr, "usage: vdriver <property-id> quick|thorough | vdriver replay <dir>")
	os.Exit(2)
}

func splitmix(x uint64) uint64 {
	x += 0x9e3779b97f4a7c15
	z := x
	z = (z ^ (z >> 30)) * 0xbf58476d1ce4e5b9
	z = (z ^ (z >> 27)) * 0x94d049bb133111eb
	return z ^ (z >> 31)
}

func shardSeed(seed int64, prop string, shard int) uint64 {
	h := uint64(seed)
	for _, c := range prop {
		h = splitmix(h ^ uint64(c))
	}
	h = splitmix(h ^ uint64(shard+1))
	h &= 0x7fffffffffffffff
	if h == 0 {
		h = 1
	}
	return h
}

func fail2(format string, a ...any) {
	fmt.Printf("INCONCLUSIVE: "+format+"\n", a...)
	os.Exit(2)
}

// cacheHygiene empties the machinery's Go build cache when it has grown beyond a bound, unless another
// driver is running (each driver holds a shared lock for its lifetime), and keeps the shared lock.
func cacheHygiene() {
	dir := gorun.CacheDir()
	os.MkdirAll(dir, 0o755)
	lf, err := os.OpenFile(dir+".lock", os.O_CREATE|os.O_RDWR, 0o644)
	if err != nil {
		return
	}
	// lf stays open (and locked) until the process exits
	if syscall.Flock(int(lf.Fd()), syscall.LOCK_EX|syscall.LOCK_NB) == nil {
		limit := int64(12) << 30
		if v := os.Getenv("VERIF_GOCACHE_LIMIT_GB"); v != "" {
			if n, err := strconv.ParseInt(v, 10, 64); err == nil {
				limit = n << 30
			}
		}
		// the cache has 256 subdirectories of similar size: four of them are measured
		var sample int64
		for _, sd := range []string{"00", "55", "aa", "ff"} {
			filepath.Walk(filepath.Join(dir, sd), func(_ string, info os.FileInfo, err error) error {
				if err == nil && !info.IsDir() {
					sample += info.Size()
				}
				return nil
			})
		}
		if sample*64 > limit {
			old := fmt.Sprintf("%s.old-%d", dir, os.Getpid())
			if os.Rename(dir, old) == nil {
				os.MkdirAll(dir, 0o755)
				os.RemoveAll(old)
				fmt.Printf("note: build cache %s was above %d GB and has been emptied\n", dir, limit>>30)
			}
		}
	}
	syscall.Flock(int(lf.Fd()), syscall.LOCK_SH)
	cacheLock = lf
}

var cacheLock *os.File

func main() {
	if len(os.Args) < 3 {
		usage()
	}
	cacheHygiene()
	if os.Args[1] == "replay" {
		replay(os.Args[2])
		return
	}
	if os.Args[1] == "replayall" {
		replayAll(os.Args[2], os.Args[3])
		return
	}
	id, tier := os.Args[1], os.Args[2]
	if tier != "quick" && tier != "thorough" {
		usage()
	}
	pl, ok := plans[id]
	if !ok {
		fail2("no plan for property %s", id)
	}
	tp := pl.Quick
	if tier == "thorough" {
		tp = pl.Thorough
	}
	if v := os.Getenv("VERIF_SHARDS"); v != "" {
		tp.Shards, _ = strconv.Atoi(v)
	}
	if v := os.Getenv("VERIF_CHECKS"); v != "" {
		tp.Checks, _ = strconv.Atoi(v)
	}
	seed := int64(1)
	if v := os.Getenv("VERIF_SEED"); v != "" {
		if n, err := strconv.ParseInt(v, 10, 64); err == nil {
			seed = n
		}
	}
	start := time.Now()
	verif := gorun.VerifDir()
	os.MkdirAll(gorun.ScratchBase(), 0o755)
	scratch, err := os.MkdirTemp(gorun.ScratchBase(), "run-"+id+"-")
	if err != nil {
		fail2("scratch: %v", err)
	}
	keep := os.Getenv("VERIF_KEEP") != ""
	defer func() {
		if !keep {
			os.RemoveAll(scratch)
		}
	}()
	exit := func(code int) {
		if !keep {
			os.RemoveAll(scratch)
		}
		os.Exit(code)
	}
	bin := filepath.Join(scratch, "bin")
	os.MkdirAll(bin, 0o755)
	goderive := filepath.Join(bin, "goderive")
	if err := gorun.BuildGoderive(goderive); err != nil {
		fmt.Printf("INCONCLUSIVE: %v\n", err)
		exit(2)
	}
	testbin := filepath.Join(bin, id+".test")
	r := gorun.Go(verif, 10*time.Minute, "test", "-c", "-o", testbin, "./props/"+strings.ToLower(id))
	if r.Exit != 0 || r.Err != nil {
		fmt.Printf("INCONCLUSIVE: building test binary: %s %v\n", r.Stderr, r.Err)
		exit(2)
	}
	replays := filepath.Join(verif, "replays", id)
	os.MkdirAll(replays, 0o755)
	findingsPath := filepath.Join(verif, "known_findings.json")

	common := []string{
		"VERIF_TIER=" + tier,
		"VERIF_SEED=" + strconv.FormatInt(seed, 10),
		"VERIF_GODERIVE=" + goderive,
		"VERIF_FINDINGS=" + findingsPath,
		"VERIF_REPLAYS=" + replays,
		"VERIF_DIR=" + verif,
		"VERIF_REPO=" + gorun.Repo(),
		"VERIF_NSHARDS=" + strconv.Itoa(tp.Shards),
	}

	total := vrep.New(id)
	// Phase 1: probes of open findings (decides which regions stay excluded).
	activePath := filepath.Join(scratch, "active.json")
	{
		env := append(os.Environ(), common...)
		env = append(env, "VERIF_SHARD=0", "VERIF_REPORT="+filepath.Join(scratch, "probe.json"),
			"VERIF_SCRATCH="+filepath.Join(scratch, "probe"), "VERIF_ACTIVE_OUT="+activePath)
		os.MkdirAll(filepath.Join(scratch, "probe"), 0o755)
		res := gorun.Run(verif, 20*time.Minute, env, testbin, "-test.run", "^TestProbes$", "-test.timeout", "0", "-test.v")
		if res.Exit != 0 || res.TimedOut {
			fmt.Printf("INCONCLUSIVE: probes failed to run (exit %d):\n%s\n%s\n", res.Exit, tail(res.Stdout, 4000), tail(res.Stderr, 4000))
			exit(2)
		}
		if rep, err := vrep.Read(filepath.Join(scratch, "probe.json")); err == nil {
			total.Merge(rep)
		}
	}
	common = append(common, "VERIF_ACTIVE="+activePath)

	// Phase 1b: the saved inputs of repaired defects (regress/<id>/*) are replayed first.
	regressInconclusive := false
	{
		dirs, _ := filepath.Glob(filepath.Join(verif, "regress", id, "*", "replay.json"))
		if os.Getenv("VERIF_NO_REGRESS") != "" {
			dirs = nil // development aid: judge the generated search alone
		}
		for i := range dirs {
			dirs[i] = filepath.Dir(dirs[i])
		}
		sort.Strings(dirs)
		out := runReplays(id, testbin, goderive, dirs, filepath.Join(scratch, "regress"))
		for _, d := range dirs {
			st := out[d]
			total.Extra["regression_replays"]++
			switch st.status {
			case "fail":
				total.Violations = append(total.Violations, vrep.Violation{
					Signature: map[string]string{"check": "regression-replay", "case": filepath.Base(d)},
					Message:   "the saved input of a repaired defect fails again:\n" + tail(st.output, 2500),
					Replay:    d,
				})
			case "inconclusive":
				regressInconclusive = true
				fmt.Printf("INCONCLUSIVE: regression replay %s did not run: %s\n", d, tail(st.output, 1500))
			}
		}
	}

	// Phase 2: shards.
	type shardRes struct {
		i   int
		res gorun.Result
	}
	results := make([]shardRes, tp.Shards)
	var wg sync.WaitGroup
	par := 16
	if v := os.Getenv("VERIF_PAR"); v != "" {
		par, _ = strconv.Atoi(v)
	}
	sem := make(chan struct{}, par)
	for i := 0; i < tp.Shards; i++ {
		wg.Add(1)
		go func(i int) {
			defer wg.Done()
			sem <- struct{}{}
			defer func() { <-sem }()
			sdir := filepath.Join(scratch, fmt.Sprintf("s%d", i))
			os.MkdirAll(sdir, 0o755)
			env := append(os.Environ(), common...)
			env = append(env, "VERIF_SHARD="+strconv.Itoa(i), "VERIF_REPORT="+filepath.Join(scratch, fmt.Sprintf("rep%d.json", i)),
				"VERIF_SCRATCH="+sdir)
			args := []string{"-test.run", "^TestProp$", "-test.timeout", "0", "-test.v",
				"-rapid.checks=" + strconv.Itoa(tp.Checks),
				"-rapid.seed=" + strconv.FormatUint(shardSeed(seed, id, i), 10),
				"-rapid.nofailfile", "-rapid.shrinktime=" + tp.Shrink}
			results[i] = shardRes{i, gorun.Run(verif, tp.Limit, env, testbin, args...)}
		}(i)
	}
	wg.Wait()

	inconclusive := regressInconclusive
	for _, sr := range results {
		rep, err := vrep.Read(filepath.Join(scratch, fmt.Sprintf("rep%d.json", sr.i)))
		if err != nil {
			inconclusive = true
			fmt.Printf("INCONCLUSIVE: shard %d wrote no report (exit %d, timedout %v): %s\n%s\n", sr.i, sr.res.Exit, sr.res.TimedOut, tail(sr.res.Stdout, 3000), tail(sr.res.Stderr, 3000))
			continue
		}
		total.Merge(rep)
		if sr.res.TimedOut {
			inconclusive = true
			fmt.Printf("INCONCLUSIVE: shard %d hit the infrastructure time limit\n", sr.i)
		} else if sr.res.Exit != 0 && len(rep.Violations) == 0 {
			inconclusive = true
			fmt.Printf("INCONCLUSIVE: shard %d exited %d without recording a violation:\n%s\n%s\n", sr.i, sr.res.Exit, tail(sr.res.Stdout, 6000), tail(sr.res.Stderr, 3000))
		}
		if os.Getenv("VERIF_VERBOSE") != "" {
			fmt.Printf("--- shard %d (exit %d, %.1fs)\n%s\n", sr.i, sr.res.Exit, sr.res.Dur.Seconds(), tail(sr.res.Stdout, 3000))
		}
	}
	if len(total.Inconclusive) > 0 {
		for _, s := range total.Inconclusive {
			fmt.Printf("INCONCLUSIVE: %s\n", s)
		}
		inconclusive = true
	}

	if total.Evaluations == 0 {
		inconclusive = true
		fmt.Printf("INCONCLUSIVE: no case was evaluated (every generated subject was rejected?)\n")
		for _, n := range total.Notes {
			fmt.Printf("  note: %s\n", tail(n, 400))
		}
	}

	// Verdict.
	fs, err := vrep.LoadFindings(findingsPath)
	if err != nil {
		fail2("findings: %v", err)
	}
	var violations []vrep.Violation
	known := map[string]vrep.Violation{}
	for _, k := range total.Known {
		known[k.Finding] = k
	}
	for _, v := range total.Violations {
		if fd := fs.Match(id, v.Signature); fd != nil {
			v.Finding = fd.ID
			known[fd.ID] = v
			continue
		}
		violations = append(violations, v)
	}
	kids := make([]string, 0, len(known))
	for k := range known {
		kids = append(kids, k)
	}
	sort.Strings(kids)
	for _, k := range kids {
		what := ""
		for _, fd := range fs.Findings {
			if fd.ID == k {
				what = fd.What
			}
		}
		fmt.Printf("KNOWN-FINDING: property=%s %s: %s\n", id, k, what)
	}
	seen := map[string]bool{}
	for _, v := range violations {
		key := vrep.SigString(v.Signature)
		if seen[key] {
			continue
		}
		seen[key] = true
		rp := v.Replay
		if rp == "" {
			rp = "(none)"
		}
		fmt.Printf("VIOLATION property=%s replay=%s\n", id, rp)
		fmt.Printf("  signature: %s\n  %s\n", key, strings.ReplaceAll(tail(v.Message, 3000), "\n", "\n  "))
	}

	// Evidence.
	ev := map[string]any{
		"property_id": id,
		"tier":        tier,
		"seed":        seed,
		"level":       "exploration",
		"wall_s":      time.Since(start).Seconds(),
		"violations":  len(seen),
		"assumptions": pl.Assumptions,
		"coverage": map[string]any{
			"evaluations":          total.Evaluations,
			"distinct_nontrivial":  len(total.Nontrivial),
			"rule":                 pl.Rule,
			"samples":              samplesOrNote(total),
			"classes":              total.Classes,
			"excluded_by_finding":  total.Excluded,
			"known_findings_hit":   kids,
			"counters":             total.Extra,
			"notes":                total.Notes,
			"shards":               tp.Shards,
			"checks_per_shard":     tp.Checks,
			"inconclusive":         inconclusive,
			"goderive_tree":        gorun.Repo(),
			"exhaustive":           total.Extra["exhaustive"] > 0,
			"violation_signatures": keysOf(seen),
		},
	}
	// Evidence describes /repo itself. A run against another tree (VERIF_REPO: mutants, seeded changes) writes its
	// report next to the committed evidence, never over it.
	evdir := filepath.Join(verif, "evidence")
	if os.Getenv("VERIF_EVIDENCE_DIR") != "" {
		evdir = os.Getenv("VERIF_EVIDENCE_DIR")
	} else if gorun.Repo() != "/repo" {
		evdir = filepath.Join(verif, "evidence-other")
	}
	os.MkdirAll(evdir, 0o755)
	b, _ := json.MarshalIndent(ev, "", " ")
	if err := os.WriteFile(filepath.Join(evdir, id+".json"), append(b, '\n'), 0o644); err != nil {
		fail2("writing evidence: %v", err)
	}
	fmt.Printf("%s %s: evaluations=%d distinct_nontrivial=%d known=%d violations=%d wall=%.1fs\n", id, tier,
		total.Evaluations, len(total.Nontrivial), len(kids), len(seen), time.Since(start).Seconds())
	if len(seen) > 0 {
		exit(1)
	}
	if inconclusive {
		exit(2)
	}
	exit(0)
}

func samplesOrNote(r *vrep.Report) []any {
	if len(r.Samples) == 0 {
		return []any{}
	}
	return r.Samples
}

func keysOf(m map[string]bool) []string {
	out := []string{}
	for k := range m {
		out = append(out, k)
	}
	sort.Strings(out)
	return out
}

func tail(s string, n int) string {
	if len(s) <= n {
		return s
	}
	return "…" + s[len(s)-n:]
}

// replay re-runs the oracle recorded in a replay directory without rapid.
func replay(dir string) {
	b, err := os.ReadFile(filepath.Join(dir, "replay.json"))
	if err != nil {
		fail2("replay: %v", err)
	}
	var meta struct {
		Property string `json:"property"`
	}
	if err := json.Unmarshal(b, &meta); err != nil || meta.Property == "" {
		fail2("replay.json: %v", err)
	}
	id := meta.Property
	verif := gorun.VerifDir()
	scratch, err := os.MkdirTemp(gorun.ScratchBase(), "replay-"+id+"-")
	if err != nil {
		os.MkdirAll(gorun.ScratchBase(), 0o755)
		scratch, err = os.MkdirTemp(gorun.ScratchBase(), "replay-"+id+"-")
		if err != nil {
			fail2("scratch: %v", err)
		}
	}
	defer os.RemoveAll(scratch)
	goderive := filepath.Join(scratch, "goderive")
	if err := gorun.BuildGoderive(goderive); err != nil {
		fmt.Printf("INCONCLUSIVE: %v\n", err)
		os.RemoveAll(scratch)
		os.Exit(2)
	}
	testbin := filepath.Join(scratch, id+".test")
	r := gorun.Go(verif, 10*time.Minute, "test", "-c", "-o", testbin, "./props/"+strings.ToLower(id))
	if r.Exit != 0 {
		fmt.Printf("INCONCLUSIVE: building test binary: %s\n", r.Stderr)
		os.RemoveAll(scratch)
		os.Exit(2)
	}
	abs, _ := filepath.Abs(dir)
	st := runReplays(id, testbin, goderive, []string{abs}, filepath.Join(scratch, "r"))[abs]
	fmt.Print(st.output)
	switch st.status {
	case "fail":
		fmt.Printf("VIOLATION property=%s replay=%s\n", id, abs)
		os.RemoveAll(scratch)
		os.Exit(1)
	case "inconclusive":
		fmt.Printf("INCONCLUSIVE: the replay did not run to a verdict\n")
		os.RemoveAll(scratch)
		os.Exit(2)
	}
	fmt.Printf("replay %s: property %s holds on this case\n", abs, id)
}

type replayStatus struct {
	status string // pass | fail | inconclusive
	output string
}

// runReplays runs TestReplay of an already built property test binary on every directory, in parallel.
func runReplays(id, testbin, goderive string, dirs []string, scratch string) map[string]replayStatus {
	verif := gorun.VerifDir()
	out := map[string]replayStatus{}
	var mu sync.Mutex
	var wg sync.WaitGroup
	sem := make(chan struct{}, 16)
	for i, d := range dirs {
		wg.Add(1)
		go func(i int, d string) {
			defer wg.Done()
			sem <- struct{}{}
			defer func() { <-sem }()
			sd := filepath.Join(scratch, fmt.Sprintf("r%d", i))
			os.MkdirAll(sd, 0o755)
			defer os.RemoveAll(sd)
			env := append(os.Environ(), "VERIF_REPLAY="+d, "VERIF_GODERIVE="+goderive, "VERIF_SCRATCH="+sd,
				"VERIF_FINDINGS="+filepath.Join(verif, "known_findings.json"), "VERIF_DIR="+verif, "VERIF_REPO="+gorun.Repo())
			res := gorun.Run(verif, 30*time.Minute, env, testbin, "-test.run", "^TestReplay$", "-test.v", "-test.timeout", "0")
			st := replayStatus{status: "pass", output: res.Stdout + res.Stderr}
			if res.TimedOut {
				st.status = "inconclusive"
			} else if res.Exit != 0 {
				if strings.Contains(st.output, "still fails") && !strings.Contains(st.output, "still fails: no report") {
					st.status = "fail"
				} else {
					st.status = "inconclusive"
				}
			}
			mu.Lock()
			out[d] = st
			mu.Unlock()
		}(i, d)
	}
	wg.Wait()
	return out
}

// replayAll prints one line per replay directory under root (a directory of replay directories).
func replayAll(id, root string) {
	verif := gorun.VerifDir()
	os.MkdirAll(gorun.ScratchBase(), 0o755)
	scratch, err := os.MkdirTemp(gorun.ScratchBase(), "replayall-"+id+"-")
	if err != nil {
		fail2("scratch: %v", err)
	}
	defer os.RemoveAll(scratch)
	goderive := filepath.Join(scratch, "goderive")
	if err := gorun.BuildGoderive(goderive); err != nil {
		os.RemoveAll(scratch)
		fail2("%v", err)
	}
	testbin := filepath.Join(scratch, id+".test")
	if r := gorun.Go(verif, 10*time.Minute, "test", "-c", "-o", testbin, "./props/"+strings.ToLower(id)); r.Exit != 0 {
		os.RemoveAll(scratch)
		fail2("building test binary: %s", r.Stderr)
	}
	dirs, _ := filepath.Glob(filepath.Join(root, "*", "replay.json"))
	for i := range dirs {
		dirs[i] = filepath.Dir(dirs[i])
	}
	sort.Strings(dirs)
	out := runReplays(id, testbin, goderive, dirs, filepath.Join(scratch, "r"))
	for _, d := range dirs {
		fmt.Printf("%s %s\n", out[d].status, d)
	}
}
