package main

import "time"

var plans = map[string]plan{
	"C01": {
		Quick:    tierPlan{Shards: 12, Checks: 4, Shrink: "60s", Limit: 20 * time.Minute},
		Thorough: tierPlan{Shards: 16, Checks: 90, Shrink: "5m", Limit: 3 * time.Hour},
		Rule: "each case is a generated package (types + 6-24 derive calls over the supported grammar, in function/method/var/closure/_test/nested/curried call-site forms) run through the freshly built goderive and judged by exit status, gofmt, go/types (incl. test variant), call resolution into derived.gen.go and go vet's compile step; non-trivial = package has a nested derive call, an imported struct with unexported fields, two same-named imports in use, a map (helper chain compare->sort->keys) or unique (hash+equal helpers); distinct by source hash",
		Assumptions: []string{"go/types, gofmt and cmd/compile are correct", "supported set per plugin taken from plugin docs / Readme (DESIGN.md section 4)"},
	},
	"C02": {
		Quick:    tierPlan{Shards: 6, Checks: 1, Shrink: "45s", Limit: 20 * time.Minute},
		Thorough: tierPlan{Shards: 16, Checks: 8, Shrink: "3m", Limit: 3 * time.Hour},
		Rule: "outer case = generated subject package (14 argument types over the supported grammar, with equal / curried / 5 context wrappers each); inner cases = value pairs (independent, rebuilt at fresh addresses with permuted maps and different capacity, or exactly one leaf / nil-ness / length / key mutation) plus a third value for transitivity, judged against the reflection-based structural reference; non-trivial = rebuild or single-mutation pair whose value holds a non-nil pointer/slice/map; distinct by (type, encoding of a, encoding of b)",
		Assumptions: []string{"vref.Eq is the statement of C02 (self-tested: equivalence, agrees with canonical encoding)", "user Equal methods generated for the subject are equivalence relations"},
	},
}
