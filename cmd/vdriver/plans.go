package main

import "time"

var plans = map[string]plan{
	"C01": {
		Quick:    tierPlan{Shards: 12, Checks: 4, Shrink: "60s", Limit: 20 * time.Minute},
		Thorough: tierPlan{Shards: 16, Checks: 90, Shrink: "5m", Limit: 3 * time.Hour},
		Rule: "each case is a generated package (types + 6-24 derive calls over the supported grammar, in function/method/var/closure/_test/nested/curried call-site forms) run through the freshly built goderive and judged by exit status, gofmt, go/types (incl. test variant), call resolution into derived.gen.go and go vet's compile step; non-trivial = package has a nested derive call, an imported struct with unexported fields, two same-named imports in use, a map (helper chain compare->sort->keys) or unique (hash+equal helpers); distinct by source hash",
		Assumptions: []string{"go/types, gofmt and cmd/compile are correct", "supported set per plugin taken from plugin docs / Readme (DESIGN.md section 4)"},
	},
}
