package main

import "time"

var plans = map[string]plan{
	"C01": {
		Quick:    tierPlan{Shards: 12, Checks: 4, Shrink: "60s", Limit: 20 * time.Minute},
		Thorough: tierPlan{Shards: 16, Checks: 90, Shrink: "5m", Limit: 3 * time.Hour},
		Rule: "each case is a generated package (types + 6-24 derive calls over the supported grammar, in function/method/var/closure/_test/nested/curried call-site forms) run through the freshly built goderive and judged by exit status, gofmt, go/types (incl. test variant), call resolution into derived.gen.go and go vet's compile step; non-trivial = package has a nested derive call, an imported struct with unexported fields, two same-named imports in use, a map (helper chain compare->sort->keys) or unique (hash+equal helpers); distinct by source hash",
		Assumptions: []string{"go/types, gofmt and cmd/compile are correct", "supported set per plugin taken from plugin docs / Readme (DESIGN.md section 4)"},
	},
	"C02": {
		Quick:    tierPlan{Shards: 6, Checks: 1, Shrink: "45s", Limit: 20 * time.Minute},
		Thorough: tierPlan{Shards: 16, Checks: 8, Shrink: "3m", Limit: 3 * time.Hour},
		Rule: "outer case = generated subject package (14 argument types over the supported grammar, with equal / curried / 5 context wrappers each); inner cases = value pairs (independent, rebuilt at fresh addresses with permuted maps and different capacity, or exactly one leaf / nil-ness / length / key mutation) plus a third value for transitivity, judged against the reflection-based structural reference; non-trivial = rebuild or single-mutation pair whose value holds a non-nil pointer/slice/map; distinct by (type, encoding of a, encoding of b)",
		Assumptions: []string{"vref.Eq is the statement of C02 (self-tested: equivalence, agrees with canonical encoding)", "user Equal methods generated for the subject are equivalence relations"},
	},
	"C03": {
		Quick:    tierPlan{Shards: 8, Checks: 1, Shrink: "45s", Limit: 20 * time.Minute},
		Thorough: tierPlan{Shards: 16, Checks: 8, Shrink: "3m", Limit: 3 * time.Hour},
		Rule: "outer case = generated subject package (14 types with compare / curried compare / equal); inner case = a pool of 4-6 values (a, rebuild of a, a chain of single mutations, an independent value): every ordered pair is one evaluation (range, antisymmetry, ==0 iff derived Equal iff structural equality, curried form) and every triple is checked for transitivity; direction asserted for single leaf / nil-ness mutations that Equal distinguishes; non-trivial = Compare==0 pair at distinct addresses, or a direction pair whose difference lies below the root; distinct by (type, encodings)",
		Assumptions: []string{"vref reference (self-tested)", "no user Compare/Equal methods in C03 subjects (the statement does not speak about them)"},
	},
	"C04": {
		Quick:    tierPlan{Shards: 8, Checks: 1, Shrink: "45s", Limit: 20 * time.Minute},
		Thorough: tierPlan{Shards: 16, Checks: 8, Shrink: "3m", Limit: 3 * time.Hour},
		Rule: "outer case = generated subject package (14 types with hash and equal); inner case = a pair that is Equal by construction (rebuilt at fresh addresses with permuted map insertion, different capacity, un-shared pointers; or additionally +0/-0 rewritten) on which derived Equal and the structural reference agree; judged: same hash, repeatable, argument snapshot unchanged, and the same values re-hashed in a second process; non-trivial = the two members differ in capacity / sharing / zero sign or hold a map with >= 2 entries; distinct by (type, snapshots)",
		Assumptions: []string{"vref reference (self-tested)", "the second process regenerates the same values from the same rapid seed (only values present in both runs are compared)"},
	},
	"C05": {
		Quick:    tierPlan{Shards: 8, Checks: 1, Shrink: "45s", Limit: 20 * time.Minute},
		Thorough: tierPlan{Shards: 16, Checks: 8, Shrink: "3m", Limit: 3 * time.Hour},
		Rule: "outer case = generated subject package (14 types, most wrapped in a top-level pointer/slice/map, with clone and deepcopy); inner case = source value (nil/empty/shared substructure) and an independently drawn tree-shaped prior destination (pointer to arbitrary contents / slice of equal length / empty map); judged: structural equality, source snapshot unchanged, allocation sets disjoint, scribbling one side leaves the other's snapshot unchanged; non-trivial = source reaches a non-nil pointer/slice/map below the root and the prior destination differs from it; distinct by (type, source snapshot, prior destination snapshot)",
		Assumptions: []string{"vref reference, Addrs and Scribble (self-tested)", "string bytes and zero-size allocations are not counted as shared memory"},
	},
	"C13": {
		Quick:    tierPlan{Shards: 8, Checks: 1, Shrink: "45s", Limit: 20 * time.Minute},
		Thorough: tierPlan{Shards: 16, Checks: 8, Shrink: "3m", Limit: 3 * time.Hour},
		Rule: "outer case = generated subject package (14 element/key types with sort, keys, min/max list and two-value forms, compare, equal); inner case = one operation on a drawn list (nil, empty, 1-6 elements with identical and Equal-but-not-identical duplicates) or map; judged by permutation (multiset of bit-exact encodings, pointer identities), sortedness under derived Compare (natural < for basic types), exactly-once keys, membership + extremality of min/max, default on empty; non-trivial = list of >= 3 elements that is unsorted or has duplicates, map of >= 2 keys, any two-value call; distinct by (type, operation, encoding)",
		Assumptions: []string{"vref reference (self-tested)", "derived Compare is judged by C03; here it is the order the statement refers to"},
	},
	"C14": {
		Quick:    tierPlan{Shards: 8, Checks: 1, Shrink: "45s", Limit: 20 * time.Minute},
		Thorough: tierPlan{Shards: 16, Checks: 8, Shrink: "3m", Limit: 3 * time.Hour},
		Rule: "outer case = generated subject package (14 element types, ==-comparable and not, with contains, unique, set, union/intersect on lists and maps, filter, takewhile, all, any, equal); inner case = one operation on drawn lists with duplicates / Equal-but-not-identical elements / nil elements and a logging predicate from a small family; judged against a list/set reference model parameterised by derived Equal (cross-checked with the structural reference) and the predicate call log; non-trivial = list of >= 3 elements with a duplicate pair; distinct by (type, operation, encoding)",
		Assumptions: []string{"vref reference (self-tested)", "pairs on which derived Equal and the reference disagree are skipped here (C02 judges them)"},
	},
	"C17": {
		Quick:    tierPlan{Shards: 8, Checks: 1, Shrink: "45s", Limit: 20 * time.Minute},
		Thorough: tierPlan{Shards: 16, Checks: 8, Shrink: "3m", Limit: 3 * time.Hour},
		Rule: "outer case = generated subject package (14 element/result types with fmap over slices (two result types), fmap over strings, join of slices, join of strings); inner case = one call with a scripted, logging f on slices of length 0-6 (nil vs empty), slices of slices with nil/empty inner lists, strings over ASCII, 2-4 byte runes and invalid UTF-8; judged against map over the elements / []rune(s) and concatenation, call log in order, inputs unmodified; non-trivial = string whose byte length differs from its rune count, or slice of slices with an empty and a non-empty inner list, or fmap over >= 2 elements; distinct by input encoding",
		Assumptions: []string{"vref encoder (self-tested)"},
	},
}
