package main

import "time"

var plans = map[string]plan{
	"C01": {
		Quick:       tierPlan{Shards: 16, Checks: 6, Shrink: "60s", Limit: 20 * time.Minute},
		Thorough:    tierPlan{Shards: 16, Checks: 120, Shrink: "5m", Limit: 3 * time.Hour},
		Rule:        "each case is a generated package (types + 6-24 derive calls over the supported grammar, in function/method/var/closure/_test/nested/curried call-site forms) run through the freshly built goderive and judged by exit status, gofmt, go/types (incl. test variant), call resolution into derived.gen.go and go vet's compile step; non-trivial = package has a nested derive call, an imported struct with unexported fields, two same-named imports in use, a map (helper chain compare->sort->keys) or unique (hash+equal helpers); distinct by source hash",
		Assumptions: []string{"go/types, gofmt and cmd/compile are correct", "supported set per plugin taken from plugin docs / Readme (DESIGN.md section 4)"},
	},
	"C02": {
		Quick:       tierPlan{Shards: 16, Checks: 4, Shrink: "45s", Limit: 20 * time.Minute},
		Thorough:    tierPlan{Shards: 16, Checks: 40, Shrink: "3m", Limit: 3 * time.Hour},
		Rule:        "outer case = generated subject package (14 argument types over the supported grammar, with equal / curried / 5 context wrappers each); inner cases = value pairs (independent, rebuilt at fresh addresses with permuted maps and different capacity, or exactly one leaf / nil-ness / length / key mutation) plus a third value for transitivity, judged against the reflection-based structural reference; non-trivial = rebuild or single-mutation pair whose value holds a non-nil pointer/slice/map; distinct by (type, encoding of a, encoding of b)",
		Assumptions: []string{"vref.Eq is the statement of C02 (self-tested: equivalence, agrees with canonical encoding)", "user Equal methods generated for the subject are equivalence relations"},
	},
	"C03": {
		Quick:       tierPlan{Shards: 16, Checks: 4, Shrink: "45s", Limit: 20 * time.Minute},
		Thorough:    tierPlan{Shards: 16, Checks: 40, Shrink: "3m", Limit: 3 * time.Hour},
		Rule:        "outer case = generated subject package (14 types with compare / curried compare / equal); inner case = a pool of 4-6 values (a, rebuild of a, a chain of single mutations, an independent value): every ordered pair is one evaluation (range, antisymmetry, ==0 iff derived Equal iff structural equality, curried form) and every triple is checked for transitivity; direction asserted for single leaf / nil-ness mutations that Equal distinguishes; non-trivial = Compare==0 pair at distinct addresses, or a direction pair whose difference lies below the root; distinct by (type, encodings)",
		Assumptions: []string{"vref reference (self-tested)", "no user Compare/Equal methods in C03 subjects (the statement does not speak about them)"},
	},
	"C04": {
		Quick:       tierPlan{Shards: 16, Checks: 4, Shrink: "45s", Limit: 20 * time.Minute},
		Thorough:    tierPlan{Shards: 16, Checks: 40, Shrink: "3m", Limit: 3 * time.Hour},
		Rule:        "outer case = generated subject package (14 types with hash and equal); inner case = a pair that is Equal by construction (rebuilt at fresh addresses with permuted map insertion, different capacity, un-shared pointers; or additionally +0/-0 rewritten) on which derived Equal and the structural reference agree; judged: same hash, repeatable, argument snapshot unchanged, and the same values re-hashed in a second process; non-trivial = the two members differ in capacity / sharing / zero sign or hold a map with >= 2 entries; distinct by (type, snapshots)",
		Assumptions: []string{"vref reference (self-tested)", "the second process regenerates the same values from the same rapid seed (only values present in both runs are compared)"},
	},
	"C05": {
		Quick:       tierPlan{Shards: 16, Checks: 4, Shrink: "45s", Limit: 20 * time.Minute},
		Thorough:    tierPlan{Shards: 16, Checks: 40, Shrink: "3m", Limit: 3 * time.Hour},
		Rule:        "outer case = generated subject package (14 types, most wrapped in a top-level pointer/slice/map, with clone and deepcopy); inner case = source value (nil/empty/shared substructure) and an independently drawn tree-shaped prior destination (pointer to arbitrary contents / slice of equal length / empty map); judged: structural equality, source snapshot unchanged, allocation sets disjoint, scribbling one side leaves the other's snapshot unchanged; non-trivial = source reaches a non-nil pointer/slice/map below the root and the prior destination differs from it; distinct by (type, source snapshot, prior destination snapshot)",
		Assumptions: []string{"vref reference, Addrs and Scribble (self-tested)", "string bytes and zero-size allocations are not counted as shared memory"},
	},
	"C13": {
		Quick:       tierPlan{Shards: 16, Checks: 4, Shrink: "45s", Limit: 20 * time.Minute},
		Thorough:    tierPlan{Shards: 16, Checks: 40, Shrink: "3m", Limit: 3 * time.Hour},
		Rule:        "outer case = generated subject package (14 element/key types with sort, keys, min/max list and two-value forms, compare, equal); inner case = one operation on a drawn list (nil, empty, 1-6 elements with identical and Equal-but-not-identical duplicates) or map; judged by permutation (multiset of bit-exact encodings, pointer identities), sortedness under derived Compare (natural < for basic types), exactly-once keys, membership + extremality of min/max, default on empty; non-trivial = list of >= 3 elements that is unsorted or has duplicates, map of >= 2 keys, any two-value call; distinct by (type, operation, encoding)",
		Assumptions: []string{"vref reference (self-tested)", "derived Compare is judged by C03; here it is the order the statement refers to"},
	},
	"C14": {
		Quick:       tierPlan{Shards: 16, Checks: 4, Shrink: "45s", Limit: 20 * time.Minute},
		Thorough:    tierPlan{Shards: 16, Checks: 40, Shrink: "3m", Limit: 3 * time.Hour},
		Rule:        "outer case = generated subject package (14 element types, ==-comparable and not, with contains, unique, set, union/intersect on lists and maps, filter, takewhile, all, any, equal); inner case = one operation on drawn lists with duplicates / Equal-but-not-identical elements / nil elements and a logging predicate from a small family; judged against a list/set reference model parameterised by derived Equal (cross-checked with the structural reference) and the predicate call log; non-trivial = list of >= 3 elements with a duplicate pair; distinct by (type, operation, encoding)",
		Assumptions: []string{"vref reference (self-tested)", "pairs on which derived Equal and the reference disagree are skipped here (C02 judges them)"},
	},
	"C17": {
		Quick:       tierPlan{Shards: 16, Checks: 4, Shrink: "45s", Limit: 20 * time.Minute},
		Thorough:    tierPlan{Shards: 16, Checks: 40, Shrink: "3m", Limit: 3 * time.Hour},
		Rule:        "outer case = generated subject package (14 element/result types with fmap over slices (two result types), fmap over strings, join of slices, join of strings); inner case = one call with a scripted, logging f on slices of length 0-6 (nil vs empty), slices of slices with nil/empty inner lists, strings over ASCII, 2-4 byte runes and invalid UTF-8; judged against map over the elements / []rune(s) and concatenation, call log in order, inputs unmodified; non-trivial = string whose byte length differs from its rune count, or slice of slices with an empty and a non-empty inner list, or fmap over >= 2 elements; distinct by input encoding",
		Assumptions: []string{"vref encoder (self-tested)"},
	},
	"C15": {
		Quick:       tierPlan{Shards: 16, Checks: 4, Shrink: "45s", Limit: 20 * time.Minute},
		Thorough:    tierPlan{Shards: 16, Checks: 40, Shrink: "3m", Limit: 3 * time.Hour},
		Rule:        "outer case = generated subject package: 14 non-variadic signatures with 2-5 parameters of mixed types (incl. error / interface{}), named / blank / unnamed / generator-hostile parameter names (f, g, err, param_0, v0 ...), 0-3 results, each wrapped by curry, flip, apply, uncurry, uncurry-of-curry and tuple; inner case = drawn arguments and scripted results through an instrumented f: exactly one call, every argument in its position (identity for pointers/slices/maps), results unchanged; non-trivial = signature with >= 3 parameters of >= 2 distinct types; distinct by (signature, operation, arguments)",
		Assumptions: []string{"reflect.MakeFunc stubs observe exactly the calls made through the function value"},
	},
	"C16": {
		Quick:       tierPlan{Shards: 16, Checks: 4, Shrink: "45s", Limit: 20 * time.Minute},
		Thorough:    tierPlan{Shards: 16, Checks: 40, Shrink: "3m", Limit: 3 * time.Hour},
		Rule:        "outer case = generated subject package with 16 error-propagating forms: compose chains of 2-4 stages with 0-3 intermediate/final results over basic, named basic, struct, array, pointer, slice, map and interface types; the error forms of fmap (0, 1, >=2 results) and join; traverse; toerror; inner case = drawn arguments, scripted stage results, a drawn failing stage / index (or none) with a distinct error value per stage; judged by the call log (left to right, at most once, none after the failure, exactly the previous results by identity), error identity, zero values on failure, pass-through on success; non-trivial = >= 3 stages or >= 2 results with the failure not at the first stage (and the analogous rule per form); distinct by (form, signature, arguments, failing position)",
		Assumptions: []string{"reflect.MakeFunc stubs observe exactly the calls made"},
	},
	"C18": {
		Quick:       tierPlan{Shards: 16, Checks: 4, Shrink: "45s", Limit: 20 * time.Minute},
		Thorough:    tierPlan{Shards: 16, Checks: 40, Shrink: "3m", Limit: 3 * time.Hour},
		Rule:        "outer case = generated subject package with 14 signatures (0-3 parameters, 0-3 results over ==-comparable and non-comparable types incl. pointers, slices, maps, interfaces) wrapped by deriveMem; inner case = a call sequence of 4-24 steps against one memoised function: fresh arguments, an identical earlier tuple, an Equal-but-not-identical rebuild, a hash-colliding tuple (Aa/BB swap); every step is one evaluation; judged: results are exactly f's for the class, f's call count never exceeds the number of distinct classes (class = canonical structural encoding, +-0 identified), zero-argument form runs f once; non-trivial = sequence containing an Equal-but-not-identical repeat; distinct by (signature, sequence)",
		Assumptions: []string{"f is made deterministic per argument class by a result table keyed by the canonical encoding", "vref encoder (self-tested)"},
	},
	"C06": {
		Quick:       tierPlan{Shards: 16, Checks: 1, Shrink: "1s", Limit: 20 * time.Minute},
		Thorough:    tierPlan{Shards: 16, Checks: 4, Shrink: "1s", Limit: 3 * time.Hour},
		Rule:        "outer case = generated library package (14 exported-field types incl. imported structs, struct-keyed maps, pointer chains); inner case = a drawn value (finite floats, hostile strings, extreme integers, nil/empty containers) whose deriveGoString text is written into a second-stage package of the same module; stage 2 must compile (errors mapped back to cases by line) and every expression must evaluate to a value with the same canonical structural encoding (nil vs empty, pointer targets); non-trivial = every compiled-and-evaluated expression of a value holding a non-nil container or a non-empty string; distinct by (type, encoding)",
		Assumptions: []string{"cmd/compile as the judge of 'is a Go expression'", "vref.Key equality is structural equality (self-tested)"},
	},
	"C09": {
		Quick:       tierPlan{Shards: 16, Checks: 6, Shrink: "60s", Limit: 30 * time.Minute},
		Thorough:    tierPlan{Shards: 16, Checks: 200, Shrink: "5m", Limit: 4 * time.Hour},
		Rule:        "each case is a generated package with exactly one injected fault: an unsupported constituent (chan, func, interface, unsafe.Pointer, unnamed non-comparable struct) as argument, field, slice/array element, map key/value, pointer target or nested two levels down, for one of 22 typed plugin forms; or a misuse from a 75-entry catalogue (wrong arity, mismatched argument types, non-function / non-slice / non-map arguments, unordered types for min/max, variadic signatures, missing error/bool results); or a broken user file (syntax error, undefined identifier/type, missing import, generics, alias, cyclic type ...), optionally with healthy neighbour calls; judged: terminates (60 s then 150 s re-run; a run takes about 1 s), exit status 0/1 without a Go panic trace, non-empty message when non-zero, and on exit 0 a derived.gen.go that parses and a package that type-checks; non-trivial = fault below the top level of the argument or in a user file; distinct by (plugin, fault, position, sources)",
		Assumptions: []string{"the only wall-clock verdict: a hang is asserted after 60 s and again after 150 s (about 100x a normal run)", "whether the message names the call or type is not judged"},
	},
	"C08": {
		Quick:       tierPlan{Shards: 16, Checks: 8, Shrink: "60s", Limit: 30 * time.Minute},
		Thorough:    tierPlan{Shards: 16, Checks: 60, Shrink: "5m", Limit: 4 * time.Hour},
		Rule:        "each case is a generated module (package p with 1-3 families of mutually assignable types - several named types and the unnamed type over one underlying type - used side by side as struct fields under hash/equal/compare/clone/gostring/deepcopy plus 2-12 random calls, package q importing p with calls of its own); judged: one sha256 of p/derived.gen.go over N identical fresh runs (quick 6, thorough 25) and over 6 further invocation spellings (., ./..., import path, package list in both orders); non-trivial = >= 2 tie members or >= 3 plugins; distinct by sources",
		Assumptions: []string{"map iteration order is re-randomised by the Go runtime on every run; a very skewed choice could survive N runs"},
	},
	"C10": {
		Quick:       tierPlan{Shards: 16, Checks: 40, Shrink: "60s", Limit: 30 * time.Minute},
		Thorough:    tierPlan{Shards: 16, Checks: 1500, Shrink: "5m", Limit: 4 * time.Hour},
		Rule:        "each case is a generated module: package p with 1-3 user files (gofmt-formatted or not, file/leading/trailing/inline comments around the calls), 1-6 derive calls whose names (lengths 11-70) and argument types are drawn so that conflicts and duplicates occur, an optional bystander file without derive calls, a non-Go file and a second package; run with one of the 4 flag sets and one of 3 outcomes (normal, generator error, load error); judged by a recursive snapshot (path, mode, sha256): without flags only p/derived.gen.go may differ; with flags a user file may change only if a derive call in it was renamed and must equal gofmt(original text with the renamed call identifiers substituted at the offsets found by an independent parse); non-trivial = a run that renames a call in place, or a failing run; distinct by (flags, sources)",
		Assumptions: []string{"go/format as the definition of 'the gofmt formatting'"},
	},
	"C11": {
		Quick:       tierPlan{Shards: 16, Checks: 15, Shrink: "60s", Limit: 30 * time.Minute},
		Thorough:    tierPlan{Shards: 16, Checks: 400, Shrink: "5m", Limit: 4 * time.Hour},
		Rule:        "exhaustive part: every assignment of k <= 3 (thorough: k <= 4) derive calls to names and argument types up to relabelling (all pairs of set partitions of the call positions, i.e. which calls share a name and which share a type list), x bare-prefix name first or second x calls in one file or alternating over two files x plugins {equal, hash, keys} x the 4 flag sets x with/without a user function that has the first fresh name; random part: 4-9 calls over 6 names x 4 types x 3 files; judged: exit status against an independently computed conflict/duplicate predicate, and on success go/types: package type-checks, each call site's callee has exactly the argument types, is generated (not the user's), and after -dedup one generated function per parameter list; non-trivial = assignment with a clash; distinct by canonical assignment + flags",
		Assumptions: []string{"the four argument types are pairwise non-assignable, as the property quantifies"},
	},
	"C12": {
		Quick:       tierPlan{Shards: 16, Checks: 15, Shrink: "60s", Limit: 30 * time.Minute},
		Thorough:    tierPlan{Shards: 16, Checks: 1200, Shrink: "5m", Limit: 4 * time.Hour},
		Rule:        "each case is a generated package (3-12 calls of structural and list plugins over the supported grammar) emitted with default names and with names rewritten for a drawn prefix map: a global -prefix, 1-4 per-plugin overrides (optionally on top of a global prefix), or nested overrides where one plugin's prefix is a proper prefix of another's (2-3 levels, either plugin may have the longer default prefix); the customised run uses the registered plugin order and one of three binaries built from a scratch copy of the repository whose registration list is reversed / rotated / sorted; judged: customised run succeeds, both outputs canonicalised (import aliases replaced by import paths, every generated function and callee renamed to its shape '(parameter types) result types', declarations sorted) are equal, every call the user wrote (deriveXTn) is answered in the customised output by the same canonical function as in the default output (this is the longest-match dispatch check: the plugin is read off what the function computes, never off its name), and for a global prefix the text is identical after substituting the prefix; non-trivial = nested overrides or >= 3 overrides; distinct by (flags, sources)",
		Assumptions: []string{"the registration list in main.go keeps the form 'x.NewPlugin(),' per line (otherwise the order variants are skipped and said so in the notes)"},
	},
	"C07": {
		Quick:       tierPlan{Shards: 16, Checks: 6, Shrink: "60s", Limit: 30 * time.Minute},
		Thorough:    tierPlan{Shards: 16, Checks: 150, Shrink: "5m", Limit: 4 * time.Hour},
		Rule:        "each case is a history of 2-6 (thorough 2-10) edits over a generated package (a struct with 1-4 fields, a map type, 1-4 derive calls incl. nested ones whose argument type is the result type of another derive call: deriveSort(deriveKeys(m)), deriveUnique(deriveSort(l)), deriveHash(deriveSort(deriveKeys(m))) ..., optionally one call in a _test file): retype / add / remove a field, add / remove / re-target a call, change the type that flows between derive calls, rename the struct type, remove every call; after each edit, optionally, derived.gen.go is replaced by the first k bytes of the previous or of the new output (k at structural cut points: inside the header comment, package clause, import block, a signature, a body, or uniform); then goderive runs ONCE; every step is one evaluation; judged: exit 0, file byte-identical to a from-scratch run on a copy of the same sources (absent in both when no calls remain), final state type-checks; non-trivial = step whose old derived file is stale for a type used by a call, or truncated; distinct by (sources, old file); before the histories, a truncation sweep on one fixed pair of versions (v1 -> v2 retypes a field, adds a recursive map field and changes the key type that flows from deriveKeys into deriveSort): derived.gen.go := the first k bytes of the output for v1 or for v2, for every k (thorough, split over the shards) or every 24th k (quick), one run each, compared byte for byte with the from-scratch output for v2",
		Assumptions: []string{"the from-scratch output is the reference (C08 checks that it is unique)"},
	},
	"C19": {
		Quick:       tierPlan{Shards: 16, Checks: 1, Shrink: "30s", Limit: 30 * time.Minute},
		Thorough:    tierPlan{Shards: 16, Checks: 4, Shrink: "3m", Limit: 5 * time.Hour},
		Rule:        "two engines over the generated code of Fmap over a channel, the four channel forms of Join plus the variadic form (2-4 channels, mixed direction), Pipeline and Dup. (a) real runtime: the unmodified code, go1.26.8 -race, inside testing/synctest bubbles; a case is a configuration (form, 0-4 inputs, 0-3 items each (thorough 0-5), capacities 0-2, optional prefill) plus a schedule of the external actors: every send, close, hand-over and receive is preceded by a drawn virtual-time delay, which fixes the order of external steps (ties left to the runtime, GOMAXPROCS 1/2/4/16). (b) model scheduler: the generated file is rewritten (chan/go/select/range/close/sync.WaitGroup -> subjectlib/sched; the rewriter declines anything else) and every synchronisation operation becomes a choice point of a cooperative scheduler; for every tiny configuration (<= 2-3 inputs, <= 2-3 items, capacities 0-2) all schedules are enumerated depth-first up to a per-configuration bound (quick 1 500, thorough 150 000 schedules; configurations finished below the bound are counted as exhaustive), then random schedules of deeper configurations are drawn with rapid. Judged in both: multiset of received items = items sent (per output for Dup), per-input order, f once per item, outputs closed exactly once and only after all inputs, no send on / close of a closed channel, no WaitGroup misuse, no deadlock before completion, nothing left blocked at the end (synctest's durable blocking resp. 'no enabled transition'), and in (a) no race report; one evaluation = one executed schedule; non-trivial = >= 2 channels carrying items or >= 2 items; distinct by configuration+schedule",
		Assumptions: []string{"(a) interleavings of internal goroutines between external steps are the runtime's; (b) the model has Go's channel semantics at synchronisation-operation granularity (differentially tested against real channels in setup) and is faithful only for data-race-free code, which (a) checks dynamically"},
	},
	"C20": {
		Quick:       tierPlan{Shards: 16, Checks: 1, Shrink: "30s", Limit: 30 * time.Minute},
		Thorough:    tierPlan{Shards: 16, Checks: 4, Shrink: "3m", Limit: 5 * time.Hour},
		Rule:        "two engines over the generated deriveDo for 2, 3 and 4 functions. (a) real runtime: unmodified code, go1.26.8 -race, inside testing/synctest bubbles; a case draws the failing subset, a virtual duration per function (fixing the completion order, ties left to the runtime) and 0-2 rendezvous pairs (f_i sends to f_j and waits for the answer, so sequential execution cannot finish). (b) model scheduler: the generated function rewritten onto subjectlib/sched; for n = 2, 3 (thorough: 4) every failing subset x {no rendezvous, every ordered rendezvous pair} is explored depth-first with sleep sets over all interleavings of the functions' completion, the error sends and Do's receives (exhaustive below the bound of 20 000 / 500 000 schedules per configuration). Judged: Do returns only after every function has returned, every value in its position, nil error iff no function failed and otherwise one of the errors actually returned, no deadlock, nothing left blocked afterwards, and in (a) no race report; one evaluation = one executed schedule; non-trivial = a failing function together with a rendezvous pair, or >= 3 functions; distinct by configuration(+schedule)",
		Assumptions: []string{"(b) models synchronisation only: the unsynchronised result variables of Do are covered by the race detector in (a)"},
	},
}
