package main

import "time"

var plans = map[string]plan{
	"C01": {
		Quick:    tierPlan{Shards: 12, Checks: 4, Shrink: "60s", Limit: 20 * time.Minute},
		Thorough: tierPlan{Shards: 16, Checks: 90, Shrink: "5m", Limit: 3 * time.Hour},
		Rule: "each case is a generated package (types + 6-24 derive calls over the supported grammar, in function/method/var/closure/_test/nested/curried call-site forms) run through the freshly built goderive and judged by exit status, gofmt, go/types (incl. test variant), call resolution into derived.gen.go and go vet's compile step; non-trivial = package has a nested derive call, an imported struct with unexported fields, two same-named imports in use, a map (helper chain compare->sort->keys) or unique (hash+equal helpers); distinct by source hash",
		Assumptions: []string{"go/types, gofmt and cmd/compile are correct", "supported set per plugin taken from plugin docs / Readme (DESIGN.md section 4)"},
	},
	"C02": {
		Quick:    tierPlan{Shards: 6, Checks: 1, Shrink: "45s", Limit: 20 * time.Minute},
		Thorough: tierPlan{Shards: 16, Checks: 8, Shrink: "3m", Limit: 3 * time.Hour},
		Rule: "outer case = generated subject package (14 argument types over the supported grammar, with equal / curried / 5 context wrappers each); inner cases = value pairs (independent, rebuilt at fresh addresses with permuted maps and different capacity, or exactly one leaf / nil-ness / length / key mutation) plus a third value for transitivity, judged against the reflection-based structural reference; non-trivial = rebuild or single-mutation pair whose value holds a non-nil pointer/slice/map; distinct by (type, encoding of a, encoding of b)",
		Assumptions: []string{"vref.Eq is the statement of C02 (self-tested: equivalence, agrees with canonical encoding)", "user Equal methods generated for the subject are equivalence relations"},
	},
	"C03": {
		Quick:    tierPlan{Shards: 8, Checks: 1, Shrink: "45s", Limit: 20 * time.Minute},
		Thorough: tierPlan{Shards: 16, Checks: 8, Shrink: "3m", Limit: 3 * time.Hour},
		Rule: "outer case = generated subject package (14 types with compare / curried compare / equal); inner case = a pool of 4-6 values (a, rebuild of a, a chain of single mutations, an independent value): every ordered pair is one evaluation (range, antisymmetry, ==0 iff derived Equal iff structural equality, curried form) and every triple is checked for transitivity; direction asserted for single leaf / nil-ness mutations that Equal distinguishes; non-trivial = Compare==0 pair at distinct addresses, or a direction pair whose difference lies below the root; distinct by (type, encodings)",
		Assumptions: []string{"vref reference (self-tested)", "no user Compare/Equal methods in C03 subjects (the statement does not speak about them)"},
	},
	"C04": {
		Quick:    tierPlan{Shards: 8, Checks: 1, Shrink: "45s", Limit: 20 * time.Minute},
		Thorough: tierPlan{Shards: 16, Checks: 8, Shrink: "3m", Limit: 3 * time.Hour},
		Rule: "outer case = generated subject package (14 types with hash and equal); inner case = a pair that is Equal by construction (rebuilt at fresh addresses with permuted map insertion, different capacity, un-shared pointers; or additionally +0/-0 rewritten) on which derived Equal and the structural reference agree; judged: same hash, repeatable, argument snapshot unchanged, and the same values re-hashed in a second process; non-trivial = the two members differ in capacity / sharing / zero sign or hold a map with >= 2 entries; distinct by (type, snapshots)",
		Assumptions: []string{"vref reference (self-tested)", "the second process regenerates the same values from the same rapid seed (only values present in both runs are compared)"},
	},
	"C05": {
		Quick:    tierPlan{Shards: 8, Checks: 1, Shrink: "45s", Limit: 20 * time.Minute},
		Thorough: tierPlan{Shards: 16, Checks: 8, Shrink: "3m", Limit: 3 * time.Hour},
		Rule: "outer case = generated subject package (14 types, most wrapped in a top-level pointer/slice/map, with clone and deepcopy); inner case = source value (nil/empty/shared substructure) and an independently drawn tree-shaped prior destination (pointer to arbitrary contents / slice of equal length / empty map); judged: structural equality, source snapshot unchanged, allocation sets disjoint, scribbling one side leaves the other's snapshot unchanged; non-trivial = source reaches a non-nil pointer/slice/map below the root and the prior destination differs from it; distinct by (type, source snapshot, prior destination snapshot)",
		Assumptions: []string{"vref reference, Addrs and Scribble (self-tested)", "string bytes and zero-size allocations are not counted as shared memory"},
	},
}
