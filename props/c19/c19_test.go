package c19

import (
	"os"
	"path/filepath"
	"strconv"
	"strings"
	"testing"

	"pgregory.net/rapid"

	"verif/internal/e2"
	"verif/internal/pkit"
)

const prop = "C19"

func checks(c *pkit.Ctx) int {
	if v := os.Getenv("VERIF_INNER_CHECKS"); v != "" {
		n, _ := strconv.Atoi(v)
		return n
	}
	if c.Thorough() {
		return 20000
	}
	return 1500
}

func modelChecks(c *pkit.Ctx) int {
	if c.Thorough() {
		return 60000
	}
	return 3000
}

func TestProp(t *testing.T) {
	c := pkit.Load(prop)
	c.Check(t, func(rt *rapid.T) {
		s := e2.ConcurrentSubject()
		procs := []string{"1", "2", "4", "16"}[rapid.IntRange(0, 3).Draw(rt, "gomaxprocs")]
		caselog := filepath.Join(c.Scratch, "caselog.txt")
		os.Remove(caselog)
		var out *e2.Outcome
		if os.Getenv("VERIF_C19_ENGINE") != "model" {
			out = e2.RunCase(c, rt, s, e2.Options{Property: prop, Harness: "c19", Checks: checks(c), Go126: true, Race: true, Patterns: []string{"./p", "./p2"},
				Env: []string{"GOMAXPROCS=" + procs, "VERIF_CASELOG=" + caselog}, CrashIsViolation: true})
		}
		_ = out
		if os.Getenv("VERIF_C19_ENGINE") == "runtime" {
			return
		}
		_ = strings.TrimSpace
		// second engine: the generated helpers rewritten onto the model scheduler, interleavings enumerated
		s2 := e2.ConcurrentSubject()
		e2.RunCase(c, rt, s2, e2.Options{Property: prop, Harness: "c19m", Checks: modelChecks(c), Patterns: []string{"./p", "./p2"}, TestRun: "^TestHModel$",
			Env:           []string{"VERIF_MODEL_SHARD=" + strconv.Itoa(c.Shard%c.NShards), "VERIF_MODEL_NSHARDS=" + strconv.Itoa(c.NShards)},
			AfterGenerate: e2.ModelAfterGenerate(c)})
	})
}

func TestProbes(t *testing.T) { pkit.Load(prop).RunProbes(t, nil) }

func TestReplay(t *testing.T) {
	dir := pkit.ReplayDir()
	if dir == "" {
		t.Skip("no replay dir")
	}
	if ok, msg := e2.Replay(pkit.Load(prop), dir); !ok {
		t.Fatalf("still fails: %s", msg)
	}
}
