package c04

import (
	"bufio"
	"os"
	"path/filepath"
	"strconv"
	"strings"
	"testing"

	"pgregory.net/rapid"

	"verif/internal/e2"
	"verif/internal/gorun"
	"verif/internal/pkit"
	"verif/internal/progen"
)

const prop = "C04"

func checks(c *pkit.Ctx) int {
	if v := os.Getenv("VERIF_INNER_CHECKS"); v != "" {
		n, _ := strconv.Atoi(v)
		return n
	}
	if c.Thorough() {
		return 4000
	}
	return 600
}

func readX(path string) map[string]string {
	out := map[string]string{}
	f, err := os.Open(path)
	if err != nil {
		return out
	}
	defer f.Close()
	sc := bufio.NewScanner(f)
	for sc.Scan() {
		parts := strings.Split(sc.Text(), "\t")
		if len(parts) == 3 {
			out[parts[0]+"\t"+parts[1]] = parts[2]
		}
	}
	return out
}

func TestProp(t *testing.T) {
	c := pkit.Load(prop)
	c.Check(t, func(rt *rapid.T) {
		s := e2.DrawStructural(rt, e2.StructOpt{
			Env:    progen.EnvOpt{Avoid: c.ActiveSet()},
			NTypes: 14, EnumChunks: true, Carriers: true,
			Roles: []string{"hash", "equal"},
		})
		var xfail string
		var files map[string]string
		out := e2.RunCase(c, rt, s, e2.Options{Property: prop, Harness: "c04", Checks: checks(c),
			Env: []string{"VERIF_XPROC_OUT=" + filepath.Join(c.Scratch, "xproc1.tsv")},
			Post: func(dir string, rerun func([]string) gorun.Result) {
				// second process, same seed: the same values must hash to the same numbers
				p2 := filepath.Join(c.Scratch, "xproc2.tsv")
				r := rerun([]string{"VERIF_XPROC_OUT=" + p2, "VERIF_REPORT=" + filepath.Join(dir, "rep2.json")})
				if r.TimedOut {
					c.Rep.Inconcl("cross-process rerun timed out")
					return
				}
				a, b := readX(filepath.Join(c.Scratch, "xproc1.tsv")), readX(p2)
				common := 0
				for k, h1 := range a {
					if h2, ok := b[k]; ok {
						common++
						if h1 != h2 {
							xfail = "value " + k + " hashed to " + h1 + " in one process and " + h2 + " in another"
						}
					}
				}
				c.Rep.AddExtra("cross_process_values_compared", int64(common))
				if common == 0 && len(a) > 0 {
					c.Rep.Note("cross-process comparison had no common values (%d vs %d)", len(a), len(b))
				}
			}})
		files = out.Files
		if xfail != "" {
			keep := map[string]string{}
			for k, v := range files {
				if !strings.HasPrefix(k, "vref/") && !strings.HasPrefix(k, "vrep/") && k != "go.sum" {
					keep[k] = v
				}
			}
			c.Fail(rt, map[string]string{"check": "cross-process"}, xfail, keep, map[string]any{"harness": "c04"})
		}
	})
}

func TestProbes(t *testing.T) { pkit.Load(prop).RunProbes(t, nil) }

func TestReplay(t *testing.T) {
	dir := pkit.ReplayDir()
	if dir == "" {
		t.Skip("no replay dir")
	}
	if ok, msg := e2.Replay(pkit.Load(prop), dir); !ok {
		t.Fatalf("still fails: %s", msg)
	}
}
