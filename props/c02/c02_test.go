package c02

import (
	"os"
	"strconv"
	"testing"

	"pgregory.net/rapid"

	"verif/internal/e2"
	"verif/internal/pkit"
	"verif/internal/progen"
)

const prop = "C02"

func checks(c *pkit.Ctx) int {
	if v := os.Getenv("VERIF_INNER_CHECKS"); v != "" {
		n, _ := strconv.Atoi(v)
		return n
	}
	if c.Thorough() {
		return 4000
	}
	return 700
}

func TestProp(t *testing.T) {
	c := pkit.Load(prop)
	c.Check(t, func(rt *rapid.T) {
		um := rapid.IntRange(0, 2).Draw(rt, "usermethods") == 0
		s := e2.DrawStructural(rt, e2.StructOpt{
			Env:    progen.EnvOpt{UserMethods: um, Avoid: c.ActiveSet()},
			NTypes: 14, EnumChunks: true, Carriers: true,
			Roles: []string{"equal", "equalc", "ctx"},
		})
		e2.RunCase(c, rt, s, e2.Options{Property: prop, Harness: "c02", Checks: checks(c)})
	})
}

func TestProbes(t *testing.T) {
	c := pkit.Load(prop)
	c.RunProbes(t, nil)
}

func TestReplay(t *testing.T) {
	dir := pkit.ReplayDir()
	if dir == "" {
		t.Skip("no replay dir")
	}
	c := pkit.Load(prop)
	ok, msg := e2.Replay(c, dir)
	if !ok {
		t.Fatalf("still fails: %s", msg)
	}
}
