package c09

import (
	"fmt"
	"os"
	"path/filepath"
	"regexp"
	"sort"
	"strings"
	"testing"
	"time"

	"pgregory.net/rapid"

	"verif/internal/gorun"
	"verif/internal/pkit"
	"verif/internal/progen"
)

const prop = "C09"

var rePos = regexp.MustCompile(`[a-zA-Z0-9_/.\-]+\.go:\d+:\d+:?\s*`)
var reNum = regexp.MustCompile(`[0-9]+`)

func class(s string) string {
	s = strings.TrimSpace(pkit.FirstLines(s, 1))
	s = rePos.ReplaceAllString(s, "")
	s = reNum.ReplaceAllString(s, "N")
	return pkit.Trunc(s, 120)
}

// fault kinds
// the last group is legal Go that a plugin may well support: then exit 0 with a well-typed package is the
// clean ending, and anything else has to be a diagnostic
var unsupportedKinds = []string{"chan", "func", "iface", "unsafeptr", "ustruct",
	"ustruct1", "ustruct1c", "ustruct0", "ustructblank", "blankfield", "blankonly",
	"ptrint", "ptrkeystruct", "ustructtag", "recvchan", "sendchan",
	"ustructblankfunc", "selfptr", "hashmeth", "equalother", "compareother", "errort", "ustructembed", "ustructtagpct", "extprivthird"}
var positions = []string{"top", "field", "elem", "value", "ptr", "key", "arrayelem", "nested"}
var typedPlugins = []string{"equal", "equalc", "compare", "hash", "deepcopy", "clone", "gostring", "keys", "sort", "minl", "maxt", "contains", "unique", "set", "unionl", "intersectm", "filter", "mem", "fmap", "join", "tuple", "traverse"}

func unsupported(kind string) *progen.Type {
	switch kind {
	case "chan":
		return &progen.Type{Kind: progen.Chan, Text: "chan int"}
	case "func":
		return &progen.Type{Kind: progen.Func, Text: "func(int) string"}
	case "iface":
		return progen.AnyT()
	case "unsafeptr":
		return &progen.Type{Kind: progen.UPtr}
	case "ustruct1": // gofmt prints a one-field struct type on one line
		return &progen.Type{Kind: progen.UStruct, Fields: []progen.Field{{Name: "A", Type: progen.SliceOf(progen.B("int"))}}}
	case "ustruct1c":
		return &progen.Type{Kind: progen.UStruct, Fields: []progen.Field{{Name: "A", Type: progen.B("int")}}}
	case "ustruct0":
		return &progen.Type{Kind: progen.UStruct}
	case "ustructblank":
		return &progen.Type{Kind: progen.UStruct, Fields: []progen.Field{{Name: "A", Type: progen.B("int")}, {Name: "_", Type: progen.B("int")}, {Name: "B", Type: progen.SliceOf(progen.B("string"))}}}
	case "ptrint": // legal as a map key (compared by identity), not copyable by assignment
		return progen.PtrTo(progen.B("int"))
	case "ptrkeystruct":
		return progen.NamedT(&progen.Decl{Name: "PKey", IsStruct: true, Fields: []progen.Field{{Name: "A", Type: progen.B("int")}, {Name: "P", Type: progen.PtrTo(progen.B("int"))}}})
	case "ustructtag":
		return &progen.Type{Kind: progen.UStruct, Text: "struct {\n\tA int `json:\"a\"`\n\tB []int\n}", Fields: []progen.Field{{Name: "A", Type: progen.B("int")}, {Name: "B", Type: progen.SliceOf(progen.B("int"))}}}
	case "recvchan":
		return &progen.Type{Kind: progen.Chan, Text: "<-chan int"}
	case "sendchan":
		return &progen.Type{Kind: progen.Chan, Text: "chan<- int"}
	case "blankfield":
		return progen.NamedT(&progen.Decl{Name: "Blank", IsStruct: true, Fields: []progen.Field{{Name: "A", Type: progen.B("int")}, {Name: "_", Type: progen.B("int")},
			{Name: "B", Type: progen.SliceOf(progen.B("string"))}, {Name: "_", Type: progen.B("string")}}})
	case "blankonly":
		return progen.NamedT(&progen.Decl{Name: "BlankOnly", IsStruct: true, Fields: []progen.Field{{Name: "_", Type: progen.B("int")}}})
	case "errort": // the predeclared error: the one named type that belongs to no package
		return progen.ErrorT()
	case "ustructembed": // an unnamed struct with embedded fields (of the package and imported) is legal Go
		return &progen.Type{Kind: progen.UStruct, Text: "struct {\n\tEmb\n\t*EmbP\n\tA []int\n}",
			Fields: []progen.Field{{Name: "Emb", Type: progen.B("int")}, {Name: "EmbP", Type: progen.PtrTo(progen.B("int"))}, {Name: "A", Type: progen.SliceOf(progen.B("int"))}}}
	case "ustructtagpct": // a field tag with a percent sign
		return &progen.Type{Kind: progen.UStruct, Text: "struct {\n\tA int `fmt:\"%d items\"`\n\tB []int\n}",
			Fields: []progen.Field{{Name: "A", Type: progen.B("int")}, {Name: "B", Type: progen.SliceOf(progen.B("int"))}}}
	case "ustructblankfunc": // nothing that could be compared, and not comparable with ==
		return &progen.Type{Kind: progen.UStruct, Text: "struct{ _ func() }", Fields: []progen.Field{{Name: "_", Type: &progen.Type{Kind: progen.Func, Text: "func()"}}}}
	case "selfptr": // type SelfP *SelfP
		d := &progen.Decl{Name: "SelfP"}
		d.Under = progen.PtrTo(progen.NamedT(d))
		return progen.NamedT(d)
	case "hashmeth": // the one Hash method the hash plugin looks for
		return progen.NamedT(&progen.Decl{Name: "HashM", IsStruct: true, Fields: []progen.Field{{Name: "A", Type: progen.B("int")}, {Name: "L", Type: progen.SliceOf(progen.B("int"))}}})
	case "equalother": // methods called Equal / Compare that are no equality / order on the type
		return progen.NamedT(&progen.Decl{Name: "EqualO", IsStruct: true, Fields: []progen.Field{{Name: "A", Type: progen.B("int")}, {Name: "L", Type: progen.SliceOf(progen.B("int"))}}})
	case "extprivthird": // a struct of another package whose unexported field has a type of a third package
		return progen.NamedT(&progen.Decl{Name: "HolderT", IsStruct: true, Fields: []progen.Field{{Name: "A", Type: progen.B("int")}, {Name: "L", Type: progen.SliceOf(progen.B("int"))}}})
	case "compareother":
		return progen.NamedT(&progen.Decl{Name: "CompareO", IsStruct: true, Fields: []progen.Field{{Name: "A", Type: progen.B("int")}, {Name: "L", Type: progen.SliceOf(progen.B("int"))}}})
	default:
		return &progen.Type{Kind: progen.UStruct, Fields: []progen.Field{{Name: "A", Type: progen.SliceOf(progen.B("int"))}, {Name: "B", Type: progen.B("string")}}}
	}
}

// kindDecl is the declaration a kind needs in the package.
func kindDecl(kind string) string {
	switch kind {
	case "blankfield":
		return "type Blank struct {\n\tA int\n\t_ int\n\tB []string\n\t_ string\n}\n\n"
	case "blankonly":
		return "type BlankOnly struct {\n\t_ int\n}\n\n"
	case "ptrkeystruct":
		return "type PKey struct {\n\tA int\n\tP *int\n}\n\n"
	case "ustructembed":
		return "type Emb struct {\n\tX int\n}\n\ntype EmbP struct {\n\tY string\n}\n\n"
	case "selfptr":
		return "type SelfP *SelfP\n\n"
	case "hashmeth":
		return "type HashM struct {\n\tA int\n\tL []int\n}\n\nfunc (h HashM) Hash() int32 { return int32(h.A) }\n\n"
	case "equalother":
		return "type EqualO struct {\n\tA int\n\tL []int\n}\n\nfunc (e EqualO) Equal(s string) bool { return s == \"\" }\n\n"
	case "compareother":
		return "type CompareO struct {\n\tA int\n\tL []int\n}\n\nfunc (e CompareO) Compare(s string) int { return len(s) }\n\n"
	}
	return ""
}

// kindFiles are the further files a kind needs in the module.
func kindFiles(kind string) map[string]string {
	if kind == "extprivthird" {
		return map[string]string{
			"p/holder.go":         "package p\n\nimport \"subj/xq/holder\"\n\n// HolderT is holder.Holder: no package but holder mentions the third package.\ntype HolderT = holder.Holder\n",
			"xq/holder/holder.go": "package holder\n\nimport \"subj/xq/third\"\n\ntype Holder struct {\n\tA int\n\tL []int\n\td third.D\n}\n\nfunc New(a int, d int64) *Holder { return &Holder{A: a, d: third.D(d)} }\n",
			"xq/third/third.go":   "package third\n\ntype D int64\n",
		}
	}
	return nil
}

type faultCase struct {
	plugin, fault, position string
	files                   map[string]string
	desc                    string
	userBroken              bool // the user's own sources are broken (only termination / no panic / message are judged)
	unsupportedArg          bool
}

func goKeyOK(kind string) bool {
	switch kind {
	case "chan", "iface", "unsafeptr", "ptrint", "ptrkeystruct", "recvchan", "sendchan", "ustruct1c", "ustruct0", "blankonly", "selfptr", "errort":
		return true
	}
	return false
}

// place puts the unsupported type at a position and returns the argument type.
func place(t *rapid.T, p *progen.Prog, u *progen.Type, pos string, n int) (*progen.Type, string) {
	switch pos {
	case "top":
		return u, ""
	case "field":
		name := fmt.Sprintf("Bad%d", n)
		return progen.NamedT(&progen.Decl{Name: name, IsStruct: true, Fields: []progen.Field{{Name: "A", Type: progen.B("int")}, {Name: "F", Type: u}, {Name: "B", Type: progen.B("string")}}}),
			fmt.Sprintf("type %s struct {\n\tA int\n\tF %s\n\tB string\n}\n", name, p.T(u))
	case "elem":
		return progen.SliceOf(u), ""
	case "arrayelem":
		return progen.ArrayOf(2, u), ""
	case "value":
		return progen.MapOf(progen.B("string"), u), ""
	case "ptr":
		return progen.PtrTo(u), ""
	case "key":
		return progen.MapOf(u, progen.B("int")), ""
	default: // nested: field of a struct that is itself an element of a slice field
		in := fmt.Sprintf("BadIn%d", n)
		out := fmt.Sprintf("BadOut%d", n)
		return progen.PtrTo(progen.NamedT(&progen.Decl{Name: out, IsStruct: true})),
			fmt.Sprintf("type %s struct {\n\tF %s\n}\n\ntype %s struct {\n\tL []*%s\n\tM map[int]%s\n}\n", in, p.T(u), out, in, in)
	}
}

func zero(ts string) string { return "*new(" + ts + ")" }

// callFor renders a derive call of the plugin over argument type ts.
func callFor(plugin, name, ts string) string {
	z := zero(ts)
	switch plugin {
	case "equal", "compare":
		return fmt.Sprintf("%s(%s, %s)", name, z, z)
	case "equalc":
		return fmt.Sprintf("%s(%s)", name, z)
	case "deepcopy":
		return fmt.Sprintf("%s(%s, %s)", name, z, z)
	case "hash", "clone", "gostring":
		return fmt.Sprintf("%s(%s)", name, z)
	case "keys":
		return fmt.Sprintf("%s(%s)", name, zero("map[string]"+ts))
	case "sort", "unique", "set":
		return fmt.Sprintf("%s(%s)", name, zero("[]"+ts))
	case "minl":
		return fmt.Sprintf("%s(%s, %s)", name, zero("[]"+ts), z)
	case "maxt":
		return fmt.Sprintf("%s(%s, %s)", name, z, z)
	case "contains":
		return fmt.Sprintf("%s(%s, %s)", name, zero("[]"+ts), z)
	case "unionl":
		return fmt.Sprintf("%s(%s, %s)", name, zero("[]"+ts), zero("[]"+ts))
	case "intersectm":
		return fmt.Sprintf("%s(%s, %s)", name, zero("map["+ts+"]struct{}"), zero("map["+ts+"]struct{}"))
	case "filter":
		return fmt.Sprintf("%s(%s, %s)", name, zero("func("+ts+") bool"), zero("[]"+ts))
	case "mem":
		return fmt.Sprintf("%s(%s)", name, zero("func("+ts+") int"))
	case "fmap":
		return fmt.Sprintf("%s(%s, %s)", name, zero("func("+ts+") "+ts), zero("[]"+ts))
	case "join":
		return fmt.Sprintf("%s(%s)", name, zero("[][]"+ts))
	case "tuple":
		return fmt.Sprintf("%s(%s, 1)", name, z)
	case "traverse":
		return fmt.Sprintf("%s(%s, %s)", name, zero("func("+ts+") ("+ts+", error)"), zero("[]"+ts))
	}
	panic(plugin)
}

var deriveName = map[string]string{"equal": "deriveEqual", "equalc": "deriveEqual", "compare": "deriveCompare", "hash": "deriveHash", "deepcopy": "deriveDeepCopy",
	"clone": "deriveClone", "gostring": "deriveGoString", "keys": "deriveKeys", "sort": "deriveSort", "minl": "deriveMin", "maxt": "deriveMax",
	"contains": "deriveContains", "unique": "deriveUnique", "set": "deriveSet", "unionl": "deriveUnion", "intersectm": "deriveIntersect", "filter": "deriveFilter",
	"mem": "deriveMem", "fmap": "deriveFmap", "join": "deriveJoin", "tuple": "deriveTuple", "traverse": "deriveTraverse"}

// misuse faults: (description, call text, std imports)
type misuse struct{ name, plugin, call string }

var misuses = []misuse{
	{"arity-0", "equal", "deriveEqualX()"},
	{"arity-3", "equal", "deriveEqualX(1, 2, 3)"},
	{"arity-2", "hash", "deriveHashX(1, 2)"},
	{"arity-1", "deepcopy", "deriveDeepCopyX(new(int))"},
	{"arity-3", "compare", "deriveCompareX(1, 2, 3)"},
	{"arity-0", "tuple", "deriveTupleX()"},
	{"arity-1", "compose", "deriveComposeX(func() (int, error) { return 0, nil })"},
	{"arity-2", "keys", "deriveKeysX(map[int]int{}, 1)"},
	{"arity-1", "contains", "deriveContainsX([]int{})"},
	{"arity-1", "min", "deriveMinX([]int{})"},
	{"arity-3", "fmap", "deriveFmapX(func(int) int { return 0 }, []int{}, 1)"},
	{"arity-0", "join", "deriveJoinX()"},
	{"arity-0", "do", "deriveDoX()"},
	{"arity-1", "do", "deriveDoX(func() (int, error) { return 0, nil })"},
	{"arity-1", "pipeline", "derivePipelineX(func(int) <-chan int { return nil })"},
	{"arity-2", "dup", "deriveDupX(make(chan int), 1)"},
	{"arity-2", "mem", "deriveMemX(func(int) int { return 0 }, 1)"},
	{"mismatch", "equal", "deriveEqualX(1, \"a\")"},
	{"mismatch", "compare", "deriveCompareX([]int{}, []string{})"},
	{"mismatch", "deepcopy", "deriveDeepCopyX(new(int), new(string))"},
	{"mismatch", "contains", "deriveContainsX([]int{}, \"a\")"},
	{"mismatch", "min", "deriveMinX([]int{}, \"a\")"},
	{"mismatch", "union", "deriveUnionX([]int{}, []string{})"},
	{"mismatch", "filter", "deriveFilterX(func(string) bool { return true }, []int{})"},
	{"mismatch", "fmap", "deriveFmapX(func(string) int { return 0 }, []int{})"},
	{"mismatch", "compose", "deriveComposeX(func() (int, error) { return 0, nil }, func(string) (int, error) { return 0, nil })"},
	{"mismatch", "apply", "deriveApplyX(func(a int, b string) bool { return true }, 5)"},
	{"mismatch", "traverse", "deriveTraverseX(func(string) (int, error) { return 0, nil }, []int{})"},
	{"nonfunc", "curry", "deriveCurryX(5)"},
	{"nonfunc", "mem", "deriveMemX(5)"},
	{"nonfunc", "flip", "deriveFlipX(\"a\")"},
	{"nonfunc", "uncurry", "deriveUncurryX([]int{})"},
	{"nonfunc", "fmap", "deriveFmapX(1, []int{})"},
	{"nonfunc", "filter", "deriveFilterX(true, []int{})"},
	{"nonfunc", "compose", "deriveComposeX(1, 2)"},
	{"nonfunc", "toerror", "deriveToErrorX(nil, 5)"},
	{"nonfunc", "apply", "deriveApplyX(1, 2)"},
	{"nonfunc", "traverse", "deriveTraverseX(1, []int{})"},
	{"nonfunc", "do", "deriveDoX(1, 2)"},
	{"nonfunc", "pipeline", "derivePipelineX(1, 2)"},
	{"nonslice", "sort", "deriveSortX(5)"},
	{"nonslice", "unique", "deriveUniqueX(map[int]int{})"},
	{"nonslice", "set", "deriveSetX(\"abc\")"},
	{"nonslice", "contains", "deriveContainsX(5, 5)"},
	{"nonslice", "join", "deriveJoinX([]int{})"},
	{"nonslice", "union", "deriveUnionX(1, 2)"},
	{"nonslice", "intersect", "deriveIntersectX(map[int]int{}, map[int]int{})"},
	{"nonmap", "keys", "deriveKeysX([]int{})"},
	{"nonchan", "dup", "deriveDupX(5)"},
	{"unordered", "min", "deriveMinX(true, false)"},
	{"unordered", "max", "deriveMaxX(1i, 2i)"},
	{"unordered", "min", "deriveMinX([]bool{}, true)"},
	{"unordered", "max", "deriveMaxX([]complex128{}, 1i)"},
	// the default argument is assignable to the element type without being of that type
	{"unordered-default", "max", "deriveMaxX([]interface{}{}, 5)"},
	{"unordered-default", "min", "deriveMinX([]interface{}{}, 5)"},
	{"unordered-default", "max", "deriveMaxX([]complex128{}, 1)"},
	{"unordered-default", "min", "deriveMinX([]complex128{}, 1)"},
	{"unordered-default", "max", "deriveMaxX([]interface{ M() }{}, nil)"},
	{"unordered-default", "min", "deriveMinX([]interface{}{}, \"s\")"},
	{"unordered-default", "max", "deriveMaxX([]error{}, nil)"},
	{"unordered-default", "max", "deriveMaxX([]float64{}, 1)"},
	{"unordered-default", "min", "deriveMinX([]uint8{}, 1)"},
	{"unordered-default", "max", "deriveMaxX([]chan int{}, nil)"},
	{"variadic", "curry", "deriveCurryX(func(a int, b ...string) bool { return true })"},
	{"variadic", "flip", "deriveFlipX(func(a int, b ...string) bool { return true })"},
	{"variadic", "apply", "deriveApplyX(func(a int, b ...string) bool { return true }, []string{})"},
	{"variadic", "mem", "deriveMemX(func(a ...int) int { return 0 })"},
	{"variadic", "uncurry", "deriveUncurryX(func(a int) func(b ...string) bool { return nil })"},
	{"variadic", "compose", "deriveComposeX(func(a ...int) (int, error) { return 0, nil }, func(int) (int, error) { return 0, nil })"},
	{"variadic", "toerror", "deriveToErrorX(nil, func(a ...int) bool { return true })"},
	{"variadic", "pipeline", "derivePipelineX(func(a ...string) <-chan int { return nil }, func(x int) <-chan string { return nil })"},
	{"variadic", "pipeline", "derivePipelineX(func(a string) <-chan []int { return nil }, func(x ...int) <-chan string { return nil })"},
	{"variadic", "filter", "deriveFilterX(func(a ...int) bool { return true }, [][]int{})"},
	{"variadic", "all", "deriveAllX(func(a ...int) bool { return true }, [][]int{})"},
	{"variadic", "any", "deriveAnyX(func(a ...int) bool { return true }, [][]int{})"},
	{"variadic", "takewhile", "deriveTakeWhileX(func(a ...int) bool { return true }, [][]int{})"},
	{"variadic", "traverse", "deriveTraverseX(func(a ...int) (string, error) { return \"\", nil }, [][]int{})"},
	{"variadic", "fmap", "deriveFmapX(func(a ...int) string { return \"\" }, [][]int{})"},
	{"variadic", "fmap", "deriveFmapX(func(a ...rune) string { return \"\" }, \"abc\")"},
	{"variadic", "fmap", "deriveFmapX(func(a ...int) string { return \"\" }, func() ([]int, error) { return nil, nil })"},
	{"variadic", "fmap", "deriveFmapX(func(a ...int) string { return \"\" }, make(chan []int))"},
	{"variadic", "do", "deriveDoX(func(a ...int) (int, error) { return 0, nil }, func() (int, error) { return 0, nil })"},
	{"variadic", "join", "deriveJoinX(func(a ...int) (int, error) { return 0, nil }, nil)"},
	{"variadic", "dup", "deriveDupX(make(chan func(...int)))"},
	{"variadic", "tuple", "deriveTupleX(func(a ...int) {}, 1)"},
	{"chan-direction", "dup", "deriveDupX(make(chan<- int))"},
	{"chan-direction", "fmap", "deriveFmapX(func(int) string { return \"\" }, make(chan<- int))"},
	{"chan-direction", "join", "deriveJoinX([]chan<- int{})"},
	{"chan-direction", "join", "deriveJoinX(make(chan<- int), make(chan<- int))"},
	{"chan-direction", "join", "deriveJoinX(make(chan<- (<-chan int)))"},
	{"chan-of-recvchan", "dup", "deriveDupX(make(<-chan (<-chan int)))"},
	{"chan-of-recvchan", "dup", "deriveDupX(make(chan (<-chan int)))"},
	{"chan-of-recvchan", "fmap", "deriveFmapX(func(c <-chan int) <-chan int { return c }, make(chan (<-chan int)))"},
	{"chan-of-recvchan", "join", "deriveJoinX([]<-chan (<-chan int){})"},
	{"chan-of-recvchan", "join", "deriveJoinX(make(<-chan (<-chan (<-chan int))))"},
	{"chan-of-recvchan", "pipeline", "derivePipelineX(func(int) <-chan (<-chan int) { return nil }, func(<-chan int) <-chan string { return nil })"},
	{"chan-of-sendchan", "dup", "deriveDupX(make(chan (chan<- int)))"},
	{"chan-of-bidirchan", "join", "deriveJoinX(make(chan chan int))"},
	{"chan-of-bidirchan", "join", "deriveJoinX(make(<-chan chan int))"},
	{"chan-of-bidirchan", "join", "deriveJoinX([]chan chan int{})"},
	{"chan-of-bidirchan", "dup", "deriveDupX(make(chan chan int))"},
	{"chan-of-bidirchan", "fmap", "deriveFmapX(func(c chan int) chan int { return c }, make(chan chan int))"},
	{"noerror", "compose", "deriveComposeX(func() (int, string) { return 0, \"\" }, func(int) (int, error) { return 0, nil })"},
	{"noerror", "traverse", "deriveTraverseX(func(int) (int, int) { return 0, 0 }, []int{})"},
	{"noerror", "do", "deriveDoX(func() (int, int) { return 0, 0 }, func() (int, error) { return 0, nil })"},
	{"noerror", "join", "deriveJoinX(func() (int, string) { return 0, \"\" }, nil)"},
	{"noerror", "fmap", "deriveFmapX(func(int) int { return 0 }, func() (int, string) { return 0, \"\" })"},
	{"nobool", "toerror", "deriveToErrorX(nil, func() int { return 0 })"},
	{"nobool", "filter", "deriveFilterX(func(int) int { return 0 }, []int{})"},
	// legal and supported: a result whose zero value is not spelled 0, "" or false although its kind is basic
	{"unsafe-pointer-result", "compose", "deriveComposeX(func() (unsafe.Pointer, error) { return nil, nil }, func(unsafe.Pointer) (unsafe.Pointer, int, error) { return nil, 0, nil })"},
	{"unsafe-pointer-result", "traverse", "deriveTraverseX(func(int) (unsafe.Pointer, error) { return nil, nil }, []int{})"},
	{"unsafe-pointer-result", "join", "deriveJoinX(func() (unsafe.Pointer, error) { return nil, nil }, nil)"},
	{"unsafe-pointer-result", "fmap", "deriveFmapX(func(int) unsafe.Pointer { return nil }, func() (int, error) { return 0, nil })"},
	{"unsafe-pointer-result", "toerror", "deriveToErrorX(nil, func() (unsafe.Pointer, bool) { return nil, true })"},
	{"unsafe-pointer-result", "do", "deriveDoX(func() (unsafe.Pointer, error) { return nil, nil }, func() (int, error) { return 0, nil })"},
	{"noresult", "uncurry", "deriveUncurryX(func(int) {})"},
	{"noresult", "compose", "deriveComposeX(func() {}, func() {})"},
	{"oneparam", "curry", "deriveCurryX(func(int) int { return 0 })"},
	{"oneparam", "flip", "deriveFlipX(func(int) int { return 0 })"},
	{"noparam", "apply", "deriveApplyX(func() int { return 0 }, 1)"},
}

// splitMisuse separates the package level declarations a misuse needs (before "\x00") from its call.
func splitMisuse(call string) (decl, c string) {
	if i := strings.Index(call, "\x00"); i >= 0 {
		return call[:i] + "\n\n", call[i+1:]
	}
	return "", call
}

const namedFuncDecls = "type FnE func() (int, error)\n\ntype FnIE func(int) (int, error)\n\ntype Fn2 func(a int, b string) bool\n\n" +
	"type FnC func(int) func(string) bool\n\ntype Fn1 func(int) int\n\ntype FnB func(int) (string, bool)\n\ntype FnSE func(int) (string, error)\n\n" +
	"type FnR func(rune) int\n\ntype Pred func(int) bool\n\ntype St1 func(int) <-chan string\n\ntype St2 func(string) <-chan int\n\ntype FnJ func() (func() (int, error), error)\x00"

const concreteErrDecls = "type MyErr struct{ C int }\n\nfunc (m MyErr) Error() string { return \"\" }\n\ntype PErr struct{ C int }\n\nfunc (m *PErr) Error() string { return \"\" }\x00"

// a generic type that contains a larger instantiation of itself: legal Go, and no finite set of functions covers it
const expandingDecls = "type Grow[T any] struct {\n\tV    T\n\tNext *Grow[[]T]\n}\n\ntype GrowM[K comparable] struct {\n\tM map[K]*GrowM[[2]K]\n}\x00"

func init() {
	for _, m := range []misuse{
		{"expanding-generic", "equal", "deriveEqualX(&Grow[int]{}, &Grow[int]{})"},
		{"expanding-generic", "compare", "deriveCompareX(&Grow[string]{}, &Grow[string]{})"},
		{"expanding-generic", "hash", "deriveHashX(&Grow[int]{})"},
		{"expanding-generic", "clone", "deriveCloneX(&Grow[int]{})"},
		{"expanding-generic", "deepcopy", "deriveDeepCopyX(&Grow[int]{}, &Grow[int]{})"},
		{"expanding-generic", "gostring", "deriveGoStringX(&Grow[int]{})"},
		{"expanding-generic", "equal", "deriveEqualX(GrowM[int]{}, GrowM[int]{})"},
		{"expanding-generic", "sort", "deriveSortX([]*Grow[int]{})"},
		{"expanding-generic", "mem", "deriveMemX(func(*Grow[int]) int { return 0 })"},
	} {
		m.call = expandingDecls + m.call
		misuses = append(misuses, m)
	}
}

const namedListDecls = "type Names []string\n\ntype Tags []string\n\ntype Ages map[string]int\n\ntype Sizes map[string]int\n\ntype NameSet map[string]struct{}\n\ntype TagSet map[string]struct{}\x00"

func init() {
	// defined slice and map types where the list plugins are documented for []T and map[K]V: alone, and two of them
	// with one underlying type under two names (whatever a plugin makes of them: compiling code or a diagnostic)
	for _, m := range []misuse{
		{"named-list", "sort", "deriveSortX(Names{})"},
		{"named-list", "sort", "deriveSortXNames(Names{})\n\tderiveSortXTags(Tags{})"},
		{"named-list", "sort", "deriveSortXNames(Names{})\n\tderiveSortXPlain([]string{})"},
		{"named-list", "unique", "deriveUniqueXNames(Names{})\n\tderiveUniqueXTags(Tags{})"},
		{"named-list", "contains", "deriveContainsXNames(Names{}, \"a\")\n\tderiveContainsXTags(Tags{}, \"a\")"},
		{"named-list", "min", "deriveMinXNames(Names{}, \"a\")\n\tderiveMinXTags(Tags{}, \"a\")"},
		{"named-list", "set", "deriveSetXNames(Names{})\n\tderiveSetXTags(Tags{})"},
		{"named-list", "union", "deriveUnionXNames(Names{}, Names{})\n\tderiveUnionXTags(Tags{}, Tags{})"},
		{"named-list", "union", "deriveUnionXNames(NameSet{}, NameSet{})\n\tderiveUnionXTags(TagSet{}, TagSet{})"},
		{"named-list", "intersect", "deriveIntersectXNames(NameSet{}, NameSet{})\n\tderiveIntersectXTags(TagSet{}, TagSet{})"},
		{"named-list", "keys", "deriveKeysXAges(Ages{})\n\tderiveKeysXSizes(Sizes{})"},
		{"named-list", "filter", "deriveFilterXNames(func(string) bool { return true }, Names{})\n\tderiveFilterXTags(func(string) bool { return true }, Tags{})"},
		{"named-list", "fmap", "deriveFmapXNames(func(string) int { return 0 }, Names{})\n\tderiveFmapXTags(func(string) int { return 0 }, Tags{})"},
		{"named-list", "join", "deriveJoinXNames([]Names{})\n\tderiveJoinXTags([]Tags{})"},
		{"named-list", "traverse", "deriveTraverseXNames(func(string) (int, error) { return 0, nil }, Names{})\n\tderiveTraverseXTags(func(string) (int, error) { return 0, nil }, Tags{})"},
		{"named-list", "any", "deriveAnyXNames(func(string) bool { return true }, Names{})\n\tderiveAnyXTags(func(string) bool { return true }, Tags{})"},
		{"named-list", "takewhile", "deriveTakeWhileXNames(func(string) bool { return true }, Names{})\n\tderiveTakeWhileXTags(func(string) bool { return true }, Tags{})"},
	} {
		m.call = namedListDecls + m.call
		misuses = append(misuses, m)
	}
	// a type that implements error where the predeclared error is spelled out by the generated code
	for _, m := range []misuse{
		{"concrete-error", "compose", "deriveComposeX(func(int) (string, MyErr) { return \"\", MyErr{} }, func(string) (int, error) { return 0, nil })"},
		{"concrete-error", "compose", "deriveComposeX(func(int) (string, error) { return \"\", nil }, func(string) (int, *PErr) { return 0, nil })"},
		{"concrete-error", "traverse", "deriveTraverseX(func(int) (string, MyErr) { return \"\", MyErr{} }, []int{})"},
		{"concrete-error", "do", "deriveDoX(func() (int, MyErr) { return 0, MyErr{} }, func() (string, error) { return \"\", nil })"},
		{"concrete-error", "fmap", "deriveFmapX(func(int) string { return \"\" }, func() (int, *PErr) { return 0, nil })"},
		{"concrete-error", "join", "deriveJoinX(func() (int, MyErr) { return 0, MyErr{} }, error(nil))"},
		{"concrete-error", "join", "deriveJoinX(func() (int, error) { return 0, nil }, MyErr{})"},
		{"concrete-error", "toerror", "deriveToErrorX(MyErr{}, func(int) (string, bool) { return \"\", true })"},
		{"concrete-error", "toerror", "deriveToErrorX(&PErr{}, func(int) bool { return true })"},
	} {
		m.call = concreteErrDecls + m.call
		misuses = append(misuses, m)
	}
	misuses = append(misuses,
		misuse{"bidirectional-stage", "pipeline", "derivePipelineX(func(int) <-chan string { return nil }, func(string) chan int { return nil })"},
		misuse{"bidirectional-stage", "pipeline", "derivePipelineX(func(int) chan string { return nil }, func(string) <-chan int { return nil })"},
		misuse{"bidirectional-stage", "pipeline", "derivePipelineX(func(int) chan string { return nil }, func(string) chan int { return nil })"},
	)
	// a value of a defined function type where a function is expected: every plugin either takes it (and
	// then has to generate for it) or reports it
	for _, m := range []misuse{
		{"named-func", "do", "deriveDoX(FnE(nil), FnE(nil))"},
		{"named-func", "do", "deriveDoX(func() (string, error) { return \"\", nil }, FnE(nil))"},
		{"named-func", "compose", "deriveComposeX(FnE(nil), FnIE(nil))"},
		{"named-func", "compose", "deriveComposeX(func() (int, error) { return 0, nil }, FnIE(nil))"},
		{"named-func", "curry", "deriveCurryX(Fn2(nil))"},
		{"named-func", "flip", "deriveFlipX(Fn2(nil))"},
		{"named-func", "apply", "deriveApplyX(Fn2(nil), \"s\")"},
		{"named-func", "uncurry", "deriveUncurryX(FnC(nil))"},
		{"named-func", "mem", "deriveMemX(Fn1(nil))"},
		{"named-func", "toerror", "deriveToErrorX(error(nil), FnB(nil))"},
		{"named-func", "traverse", "deriveTraverseX(FnSE(nil), []int{})"},
		{"named-func", "fmap", "deriveFmapX(Fn1(nil), []int{})"},
		{"named-func", "fmap", "deriveFmapX(FnR(nil), \"abc\")"},
		{"named-func", "fmap", "deriveFmapX(Fn1(nil), make(chan int))"},
		{"named-func", "fmap", "deriveFmapX(Fn1(nil), FnE(nil))"},
		{"named-func", "fmap", "deriveFmapX(Fn1(nil), func() (int, error) { return 0, nil })"},
		{"named-func", "filter", "deriveFilterX(Pred(nil), []int{})"},
		{"named-func", "all", "deriveAllX(Pred(nil), []int{})"},
		{"named-func", "any", "deriveAnyX(Pred(nil), []int{})"},
		{"named-func", "takewhile", "deriveTakeWhileX(Pred(nil), []int{})"},
		{"named-func", "pipeline", "derivePipelineX(St1(nil), St2(nil))"},
		{"named-func", "pipeline", "derivePipelineX(func(int) <-chan string { return nil }, St2(nil))"},
		{"named-func", "join", "deriveJoinX(FnJ(nil))"},
		{"named-func", "tuple", "deriveTupleX(Fn1(nil), 1)"},
		{"named-func", "equal", "deriveEqualX(Fn1(nil), Fn1(nil))"},
		{"named-func", "hash", "deriveHashX(Pred(nil))"},
		{"named-func", "dup", "deriveDupX(make(chan Fn1))"},
	} {
		m.call = namedFuncDecls + m.call
		misuses = append(misuses, m)
	}
}

var brokenUser = []struct{ name, src string }{
	{"syntax-error", "package p\n\nfunc u() { deriveEqualX(1, 2 }\n"},
	{"syntax-error-other-file", "package p\n\nfunc broken( {\n"},
	{"undefined-identifier", "package p\n\nfunc u() { deriveEqualX(nosuch, 2) }\n"},
	{"undefined-type", "package p\n\nfunc u(a NoSuch) { deriveEqualX(a, a) }\n"},
	{"undefined-type-map-key", "package p\n\nfunc u(a map[NoSuch]string) { deriveKeysX(a) }\n"},
	{"undefined-type-map-key-equal", "package p\n\nfunc u(a, b map[NoSuch][]string) { deriveEqualX(a, b) }\n"},
	{"undefined-type-map-value", "package p\n\nfunc u(a, b map[string][]NoSuch) { deriveEqualX(a, b) }\n"},
	{"undefined-type-elem", "package p\n\nfunc u(a []NoSuch) { deriveSortX(a) }\n"},
	{"undefined-type-nested-map-key", "package p\n\nfunc u(a []map[NoSuch]int) { deriveHashX(a) }\n"},
	{"undefined-type-pointer", "package p\n\nfunc u(a, b *NoSuch) { deriveCompareX(a, b) }\n"},
	{"undefined-type-array", "package p\n\nfunc u(a [2]NoSuch) { deriveCloneX(a) }\n"},
	{"undefined-type-chan-elem", "package p\n\nfunc u(a <-chan NoSuch) { deriveDupX(a) }\n"},
	{"undefined-type-func-param", "package p\n\nfunc u(f func(NoSuch) bool, l []int) { deriveFilterX(f, l) }\n"},
	{"undefined-type-func-result", "package p\n\nfunc u(f func(int) NoSuch, l []int) { deriveFmapX(f, l) }\n"},
	{"undefined-type-slice-field-clone", "package p\n\ntype T struct{ F []NoSuch }\n\nfunc u(a *T) { deriveCloneX(a) }\n"},
	{"undefined-type-map-field-deepcopy", "package p\n\ntype T struct{ F map[string]NoSuch }\n\nfunc u(a, b *T) { deriveDeepCopyX(a, b) }\n"},
	{"undefined-type-slice-field-hash", "package p\n\ntype T struct{ F []NoSuch }\n\nfunc u(a *T) { deriveHashX(a) }\n"},
	{"undefined-type-ptr-field-compare", "package p\n\ntype T struct{ F *NoSuch }\n\nfunc u(a, b *T) { deriveCompareX(a, b) }\n"},
	{"undefined-type-array-field-gostring", "package p\n\ntype T struct{ F [2]NoSuch }\n\nfunc u(a *T) { deriveGoStringX(a) }\n"},
	{"undefined-type-field-of-elem-equal", "package p\n\ntype T struct{ F map[string]NoSuch }\n\nfunc u(a, b []T) { deriveEqualX(a, b) }\n"},
	{"undefined-type-struct-field", "package p\n\ntype T struct{ F NoSuch }\n\nfunc u(a, b T) { deriveEqualX(a, b) }\n"},
	{"undefined-type-field-of-map-key", "package p\n\ntype K struct{ F NoSuch }\n\nfunc u(a map[K]int) { deriveKeysX(a) }\n"},
	{"undefined-package-qualified-type", "package p\n\nfunc u(a map[nosuch.T]int) { deriveKeysX(a) }\n"},
	{"missing-import", "package p\n\nimport \"subj/nosuchpkg\"\n\nfunc u() { deriveEqualX(nosuchpkg.V, nosuchpkg.V) }\n"},
	{"type-error-elsewhere", "package p\n\nvar x int = \"s\"\n\nfunc u() { deriveEqualX(1, 2) }\n"},
	{"wrong-package-clause", "package q\n\nfunc u() { deriveEqualX(1, 2) }\n"},
	{"empty-file", ""},
	{"recursive-derive-arg", "package p\n\nfunc u() { deriveEqualX(deriveEqualX, 1) }\n"},
	{"call-result-unused-arg", "package p\n\nfunc u() { deriveHashX(deriveNothing()) }\n"},
	{"method-value-arg", "package p\n\ntype T struct{}\n\nfunc (T) M() {}\n\nfunc u() { deriveEqualX(T{}.M, T{}.M) }\n"},
	{"nil-arg", "package p\n\nfunc u() { deriveEqualX(nil, nil) }\n"},
	{"untyped-const-args", "package p\n\nfunc u() { deriveCompareX(1.5, 2) }\n"},
	// legal Go that no generated file can serve: a type declared inside a function cannot be named at package level,
	// and an external test package has no generated file of its own (derived.gen.go belongs to the package under test)
	{"legal:local-type-arg", "package p\n\nfunc u() bool {\n\ttype T struct{ A []int }\n\treturn deriveEqualX(&T{}, &T{})\n}\n"},
	{"legal:local-type-elem", "package p\n\nfunc u() {\n\ttype T struct{ A int }\n\tderiveSortX([]T{})\n}\n"},
	{"legal:local-type-map", "package p\n\nfunc u() []string {\n\ttype T map[string]int\n\treturn deriveKeysX(T{})\n}\n"},
	{"legal:local-type-func", "package p\n\nfunc u() []int {\n\ttype T struct{ A int }\n\treturn deriveFmapX(func(t T) int { return t.A }, []T{})\n}\n"},
	{"legal:local-type-targ", "package p\n\ntype G[X any] struct{ V X }\n\nfunc u() bool {\n\ttype T struct{ A int }\n\treturn deriveEqualX(G[T]{}, G[T]{})\n}\n"},
	{"legal:xtest-derive-call", "package p_test\n\nimport \"testing\"\n\ntype T struct{ A []int }\n\nfunc TestX(t *testing.T) {\n\tif !deriveEqualX(&T{}, &T{}) {\n\t\tt.Fatal()\n\t}\n}\n"},
	{"generic-type", "package p\n\ntype G[T any] struct{ V T }\n\nfunc u(a G[int]) { deriveEqualX(a, a) }\n"},
	{"generic-func", "package p\n\nfunc u[T any](a T) { deriveEqualX(a, a) }\n"},
	{"type-alias", "package p\n\ntype A = []int\n\nfunc u(a A) { deriveEqualX(a, a) }\n"},
	{"cyclic-type", "package p\n\ntype C struct{ C C }\n\nfunc u(a C) { deriveEqualX(a, a) }\n"},
}

func drawFault(t *rapid.T, n int) *faultCase {
	env := progen.DrawEnv(t, progen.EnvOpt{MaxStructs: 2})
	p := progen.NewProg(env)
	fc := &faultCase{}
	switch rapid.IntRange(0, 9).Draw(t, "faultclass") {
	case 0, 1, 2, 3, 4, 5:
		kind := unsupportedKinds[rapid.IntRange(0, len(unsupportedKinds)-1).Draw(t, "kind")]
		pos := positions[rapid.IntRange(0, len(positions)-1).Draw(t, "pos")]
		if pos == "key" && !goKeyOK(kind) {
			pos = "value"
		}
		plugin := typedPlugins[rapid.IntRange(0, len(typedPlugins)-1).Draw(t, "plugin")]
		u := unsupported(kind)
		at, decl := place(t, p, u, pos, n)
		decl = kindDecl(kind) + decl
		for name, src := range kindFiles(kind) {
			p.Extra[name] = src
		}
		if plugin == "deepcopy" && at.Kind != progen.Ptr && at.Kind != progen.Slice && at.Kind != progen.Map {
			at = progen.PtrTo(at)
		}
		ts := p.T(at)
		if (plugin == "set" || plugin == "intersectm") && !goMapKeyable(at) {
			plugin = "unique"
		}
		call := callFor(plugin, deriveName[plugin]+"X", ts)
		p.Add("%s\nfunc u() {\n\t%s\n}\n", decl, call)
		fc.plugin, fc.fault, fc.position = plugin, "unsupported:"+kind, pos
		fc.unsupportedArg = true
		fc.desc = call
	case 6, 7, 8:
		m := misuses[rapid.IntRange(0, len(misuses)-1).Draw(t, "misuse")]
		mdecl, mcall := splitMisuse(m.call)
		if strings.Contains(mcall, "unsafe.") {
			p.Import("unsafe")
		}
		p.Add("%sfunc u() {\n\t%s\n}\n", mdecl, mcall)
		fc.plugin, fc.fault, fc.position = m.plugin, m.name, "call"
		fc.desc = mcall
	default:
		b := brokenUser[rapid.IntRange(0, len(brokenUser)-1).Draw(t, "broken")]
		p.Add("func ok(a, b []int) bool {\n\treturn deriveEqualOK(a, b)\n}\n")
		p.Extra[brokenFile(b.src)] = b.src
		fc.plugin, fc.fault, fc.position = "any", "user:"+b.name, "file"
		fc.userBroken = !strings.HasPrefix(b.name, "legal:")
		fc.desc = b.name
	}
	// some healthy neighbours, so that the fault sits in a package that otherwise generates
	if rapid.Bool().Draw(t, "neighbours") {
		used := progen.Used{}
		for i := 0; i < 3; i++ {
			dc := progen.DrawStructuralCall(t, env, p, used, fmt.Sprintf("N%d", i), []string{"equal", "compare", "hash", "clone"}, p.T)
			if dc != nil {
				p.Add("%s", dc.Call.Render(progen.FormBody, fmt.Sprintf("WN%d", i)))
			}
		}
	}
	fc.files = p.Files()
	return fc
}

// brokenFile names the file a catalogue source goes to: an external test package lives in a _test.go file.
func brokenFile(src string) string {
	if strings.HasPrefix(src, "package p_test") {
		return "p/broken_test.go"
	}
	return "p/broken.go"
}

func goMapKeyable(t *progen.Type) bool { return t.GoComparable() }

// judge applies the C09 oracle. It returns nil when the run ended cleanly.
func judge(dir string, fc *faultCase) (map[string]string, string) {
	sig := map[string]string{"plugin": fc.plugin, "fault": fc.fault, "position": fc.position}
	res := gorun.RunGoderiveT(dir, 60*time.Second, "./p")
	if res.Err != nil {
		return map[string]string{"symptom": "infra"}, fmt.Sprint(res.Err)
	}
	if res.TimedOut {
		// the hang verdict is double-checked on a second, longer run
		res = gorun.RunGoderiveT(dir, 150*time.Second, "./p")
		if res.TimedOut {
			sig["symptom"] = "hang"
			return sig, "goderive did not terminate within 60 s and again within 150 s (a normal run takes about 1 s) on: " + fc.desc
		}
	}
	if gorun.HasPanicTrace(res.Stderr) || (res.Exit != 0 && res.Exit != 1) {
		sig["symptom"] = "panic"
		sig["class"] = class(res.Stderr)
		return sig, fmt.Sprintf("goderive crashed (exit %d) on: %s\n%s", res.Exit, fc.desc, pkit.Trunc(res.Stderr, 1200))
	}
	if res.Exit != 0 {
		if strings.TrimSpace(res.Stderr) == "" {
			sig["symptom"] = "silent-failure"
			return sig, "goderive exited non-zero without any message on: " + fc.desc
		}
		return nil, ""
	}
	if fc.userBroken {
		// exit 0 on broken user code: the package cannot type-check whatever goderive does, but a file it
		// wrote must at least parse (an unresolved type is outside every plugin's supported set)
		df := filepath.Join(dir, "p", gorun.DerivedFile)
		if _, err := os.Stat(df); err == nil {
			if _, perr := gorun.GofmtClean(df); perr != nil {
				sig["symptom"] = "exit0-unparsable"
				return sig, fmt.Sprintf("goderive exited 0 on a package with %s and wrote a derived.gen.go that does not parse: %v", fc.desc, perr)
			}
		}
		// exit 0 claims success: a derive call that goderive itself reported as not (yet) generatable
		// must then have been generated in a later pass
		if missing := ungenerated(dir, res.Stderr); len(missing) > 0 {
			sig["symptom"] = "exit0-call-not-generated"
			return sig, fmt.Sprintf("goderive exited 0 on a package with %s although it could not generate %v (its own log: %s)", fc.desc, missing, pkit.Trunc(res.Stderr, 400))
		}
		return nil, ""
	}
	// exit 0: the result has to be a package that parses and type-checks
	df := filepath.Join(dir, "p", gorun.DerivedFile)
	if _, err := os.Stat(df); err != nil {
		sig["symptom"] = "exit0-no-file"
		return sig, "goderive exited 0 but wrote no derived.gen.go for: " + fc.desc
	}
	if _, err := gorun.GofmtClean(df); err != nil {
		sig["symptom"] = "exit0-unparsable"
		return sig, fmt.Sprintf("goderive exited 0 on %s but derived.gen.go does not parse: %v", fc.desc, err)
	}
	cr, err := gorun.TypeCheck(dir, false, "./p")
	if err != nil {
		return map[string]string{"symptom": "infra"}, err.Error()
	}
	if len(cr.Errors) > 0 {
		sig["symptom"] = "exit0-illtyped"
		return sig, fmt.Sprintf("goderive exited 0 on %s but the package does not type-check:\n%s", fc.desc, pkit.Trunc(strings.Join(cr.Errors, "\n"), 1200))
	}
	return nil, ""
}

var reNotYet = regexp.MustCompile(`could not yet generate: (\w+)\(`)

// ungenerated lists the functions named in goderive's "could not yet generate" log lines that
// derived.gen.go does not define.
func ungenerated(dir, log string) []string {
	src, _ := os.ReadFile(filepath.Join(dir, "p", gorun.DerivedFile))
	seen := map[string]bool{}
	var out []string
	for _, m := range reNotYet.FindAllStringSubmatch(log, -1) {
		name := m[1]
		if seen[name] {
			continue
		}
		seen[name] = true
		if !regexp.MustCompile(`(?m)^func ` + regexp.QuoteMeta(name) + `\(`).Match(src) {
			out = append(out, name)
		}
	}
	sort.Strings(out)
	return out
}

// sweep enumerates the fault matrix once: every typed plugin x unsupported kind x position, every
// catalogued misuse, every broken user file. Shards split it by index.
func sweep(c *pkit.Ctx) {
	idx := 0
	run := func(fc *faultCase, files map[string]string) {
		idx++
		if idx%c.NShards != c.Shard%c.NShards {
			return
		}
		fc.files = files
		dir := c.CaseDir()
		defer os.RemoveAll(dir)
		if err := gorun.WriteFiles(dir, files); err != nil {
			c.Rep.Inconcl("write: %v", err)
			return
		}
		c.Rep.Eval()
		c.Rep.Class("sweep")
		sig, msg := judge(dir, fc)
		if sig != nil && sig["symptom"] == "infra" {
			c.Rep.Inconcl("%s", msg)
			return
		}
		c.Rep.NT("sweep|" + fc.plugin + "|" + fc.fault + "|" + fc.position)
		if sig != nil {
			c.FailNow(sig, msg, files, map[string]any{"desc": fc.desc})
		}
	}
	base := func() (*progen.Prog, *progen.Env) {
		env := &progen.Env{}
		return progen.NewProg(env), env
	}
	for _, plugin := range typedPlugins {
		for _, kind := range unsupportedKinds {
			for _, pos := range positions {
				if pos == "key" && !goKeyOK(kind) {
					continue
				}
				p, _ := base()
				u := unsupported(kind)
				at, decl := place(nil, p, u, pos, 0)
				decl = kindDecl(kind) + decl
				for name, src := range kindFiles(kind) {
					p.Extra[name] = src
				}
				if plugin == "deepcopy" && at.Kind != progen.Ptr && at.Kind != progen.Slice && at.Kind != progen.Map {
					at = progen.PtrTo(at)
				}
				pl := plugin
				if (pl == "set" || pl == "intersectm") && !goMapKeyable(at) {
					continue
				}
				call := callFor(pl, deriveName[pl]+"X", p.T(at))
				p.Add("%s\nfunc u() {\n\t%s\n}\n", decl, call)
				run(&faultCase{plugin: pl, fault: "unsupported:" + kind, position: pos, unsupportedArg: true, desc: call}, p.Files())
			}
		}
	}
	// an untyped nil as every argument in turn (it has no type a plugin could support)
	for _, plugin := range typedPlugins {
		ts := "[]int"
		full := callFor(plugin, deriveName[plugin]+"X", ts)
		z := zero(ts)
		for k := 0; k < strings.Count(full, z); k++ {
			// replace the k-th occurrence of the typed zero by nil
			idx, from := -1, 0
			for j := 0; j <= k; j++ {
				idx = strings.Index(full[from:], z) + from
				from = idx + len(z)
			}
			call := full[:idx] + "nil" + full[idx+len(z):]
			p, _ := base()
			p.Add("func u() {\n\t%s\n}\n", call)
			run(&faultCase{plugin: plugin, fault: "untyped-nil", position: fmt.Sprintf("arg%d", k), unsupportedArg: true, desc: call}, p.Files())
		}
	}
	for _, m := range misuses {
		p, _ := base()
		mdecl, mcall := splitMisuse(m.call)
		if strings.Contains(mcall, "unsafe.") {
			p.Import("unsafe")
		}
		p.Add("%sfunc u() {\n\t%s\n}\n", mdecl, mcall)
		run(&faultCase{plugin: m.plugin, fault: m.name, position: "call", desc: mcall}, p.Files())
	}
	for _, b := range brokenUser {
		p, _ := base()
		p.Add("func ok(a, b []int) bool {\n\treturn deriveEqualOK(a, b)\n}\n")
		p.Extra[brokenFile(b.src)] = b.src
		run(&faultCase{plugin: "any", fault: "user:" + b.name, position: "file", userBroken: !strings.HasPrefix(b.name, "legal:"), desc: b.name}, p.Files())
	}
	c.Rep.AddExtra("sweep_size", int64(idx))
}

func TestProp(t *testing.T) {
	c := pkit.Load(prop)
	sweep(c)
	n := 0
	c.Check(t, func(rt *rapid.T) {
		n++
		fc := drawFault(rt, n)
		dir := c.CaseDir()
		defer os.RemoveAll(dir)
		if err := gorun.WriteFiles(dir, fc.files); err != nil {
			rt.Fatalf("infra: %v", err)
		}
		c.Rep.Eval()
		c.Rep.Class("fault:" + strings.SplitN(fc.fault, ":", 2)[0])
		c.Rep.Class("position:" + fc.position)
		sig, msg := judge(dir, fc)
		if sig != nil && sig["symptom"] == "infra" {
			c.Rep.Inconcl("%s", msg)
			return
		}
		if fc.position != "top" && fc.position != "call" || fc.userBroken {
			c.Rep.NT(fc.plugin + "|" + fc.fault + "|" + fc.position + "|" + fc.files["p/calls.go"] + fc.files["p/broken.go"])
		}
		c.Rep.Sample(map[string]any{"plugin": fc.plugin, "fault": fc.fault, "position": fc.position, "call": fc.desc})
		if sig != nil {
			c.Fail(rt, sig, msg, fc.files, map[string]any{"desc": fc.desc})
		}
	})
}

func TestProbes(t *testing.T) { pkit.Load(prop).RunProbes(t, nil) }

func TestReplay(t *testing.T) {
	dir := pkit.ReplayDir()
	if dir == "" {
		t.Skip("no replay dir")
	}
	meta, files, err := pkit.ReadReplay(dir)
	if err != nil {
		t.Fatal(err)
	}
	c := pkit.Load(prop)
	cd := c.CaseDir()
	defer os.RemoveAll(cd)
	delete(files, "p/"+gorun.DerivedFile)
	gorun.WriteFiles(cd, files)
	sigm, _ := meta["signature"].(map[string]any)
	fc := &faultCase{plugin: fmt.Sprint(sigm["plugin"]), fault: fmt.Sprint(sigm["fault"]), position: fmt.Sprint(sigm["position"]), desc: fmt.Sprint(meta["desc"])}
	fc.userBroken = strings.HasPrefix(fc.fault, "user:") && !strings.HasPrefix(fc.fault, "user:legal:")
	if sig, msg := judge(cd, fc); sig != nil {
		t.Fatalf("still fails: %v\n%s", sig, msg)
	}
}
