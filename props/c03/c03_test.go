package c03

import (
	"os"
	"strconv"
	"testing"

	"pgregory.net/rapid"

	"verif/internal/e2"
	"verif/internal/pkit"
	"verif/internal/progen"
)

const prop = "C03"

func checks(c *pkit.Ctx) int {
	if v := os.Getenv("VERIF_INNER_CHECKS"); v != "" {
		n, _ := strconv.Atoi(v)
		return n
	}
	if c.Thorough() {
		return 1500
	}
	return 250
}

func TestProp(t *testing.T) {
	c := pkit.Load(prop)
	c.Check(t, func(rt *rapid.T) {
		s := e2.DrawStructural(rt, e2.StructOpt{
			Env:    progen.EnvOpt{Avoid: c.ActiveSet()},
			NTypes: 14, EnumChunks: true, Carriers: true,
			Roles: []string{"compare", "comparec", "equal"},
		})
		e2.RunCase(c, rt, s, e2.Options{Property: prop, Harness: "c03", Checks: checks(c)})
	})
}

func TestProbes(t *testing.T) { pkit.Load(prop).RunProbes(t, nil) }

func TestReplay(t *testing.T) {
	dir := pkit.ReplayDir()
	if dir == "" {
		t.Skip("no replay dir")
	}
	if ok, msg := e2.Replay(pkit.Load(prop), dir); !ok {
		t.Fatalf("still fails: %s", msg)
	}
}
