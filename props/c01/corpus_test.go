package c01

import (
	"fmt"
	"io/fs"
	"os"
	"path/filepath"
	"regexp"
	"sort"
	"strings"
	"time"

	"verif/internal/gorun"
	"verif/internal/pkit"
)

// corpus runs the freshly built goderive over the repository's own fixtures (test/normal, example/...): packages
// whose derive calls are supported by definition, with the flags their Makefiles use. It is the seed corpus next
// to the generated search: each package must be accepted, get its derived.gen.go and compile, tests included.
// (Whether the regenerated code still passes the repository's tests is not judged here: C01 speaks of type-checking.)

var reGoderive = regexp.MustCompile(`goderive (.*)`)

func repoEnv() []string {
	env := []string{}
	for _, kv := range os.Environ() {
		k := kv[:strings.Index(kv, "=")]
		switch k {
		case "GOFLAGS", "GOTOOLCHAIN", "GOWORK", "GOSUMDB", "GOPROXY", "GOCACHE":
			continue
		}
		env = append(env, kv)
	}
	// as for building goderive itself: the repository's go.mod selects its (cached) toolchain
	return append(env, "GOFLAGS=-mod=vendor", "GOPROXY=off", "GOTOOLCHAIN=auto", "GOWORK=off", "GOCACHE="+gorun.CacheDir())
}

func copyTree(src, dst string) error {
	return filepath.WalkDir(src, func(path string, d fs.DirEntry, err error) error {
		if err != nil {
			return err
		}
		rel, _ := filepath.Rel(src, path)
		if d.IsDir() {
			if d.Name() == ".git" || rel == "SEED" {
				return filepath.SkipDir
			}
			return os.MkdirAll(filepath.Join(dst, rel), 0o755)
		}
		if !d.Type().IsRegular() {
			return nil
		}
		b, err := os.ReadFile(path)
		if err != nil {
			return err
		}
		return os.WriteFile(filepath.Join(dst, rel), b, 0o644)
	})
}

// fixtureFlags reads the goderive flags from the Makefile of the package (or of one of its two parent directories).
func fixtureFlags(root, pkg string) []string {
	dir := pkg
	for i := 0; i < 3; i++ {
		b, err := os.ReadFile(filepath.Join(root, dir, "Makefile"))
		if err == nil {
			if m := reGoderive.FindStringSubmatch(string(b)); m != nil {
				args := strings.ReplaceAll(strings.TrimSpace(m[1]), `"`, "")
				var flags []string
				for _, a := range strings.Fields(args) {
					if strings.HasPrefix(a, "-") {
						flags = append(flags, a)
					}
				}
				return flags
			}
			return nil
		}
		dir = filepath.Dir(dir)
	}
	return nil
}

// corpusOnly, when set, restricts the corpus to one package (replay of a saved failure).
var corpusOnly string
var corpusFailures []string

func corpus(c *pkit.Ctx) {
	repo := gorun.Repo()
	var pkgs []string
	for _, sub := range []string{"test/normal", "example"} {
		filepath.WalkDir(filepath.Join(repo, sub), func(path string, d fs.DirEntry, err error) error {
			if err == nil && !d.IsDir() && d.Name() == gorun.DerivedFile {
				rel, _ := filepath.Rel(repo, filepath.Dir(path))
				pkgs = append(pkgs, rel)
			}
			return nil
		})
	}
	sort.Strings(pkgs)
	if len(pkgs) == 0 {
		c.Rep.Note("corpus: no fixture packages found under %s", repo)
		return
	}
	var mine []string
	for i, p := range pkgs {
		if (corpusOnly == "" && i%c.NShards == c.Shard%c.NShards) || p == corpusOnly {
			mine = append(mine, p)
		}
	}
	if len(mine) == 0 {
		return
	}
	root := c.CaseDir()
	defer os.RemoveAll(root)
	if err := copyTree(repo, root); err != nil {
		c.Rep.Inconcl("corpus: copying the repository: %v", err)
		return
	}
	env := repoEnv()
	for _, pkg := range mine {
		flags := fixtureFlags(root, pkg)
		desc := fmt.Sprintf("goderive %s ./%s (the repository's own fixture)", strings.Join(flags, " "), pkg)
		c.Rep.Eval()
		c.Rep.Class("corpus-package")
		c.Rep.AddExtra("corpus_packages", 1)
		res := gorun.Run(root, gorun.GoderiveTimeout, env, gorun.Goderive(), append(append([]string{}, flags...), "./"+pkg)...)
		if res.Err != nil || res.TimedOut {
			c.Rep.Inconcl("corpus: goderive did not run on %s: %v", pkg, res.Err)
			continue
		}
		fail := func(sig map[string]string, msg string) {
			sig["part"] = "corpus"
			sig["package"] = pkg
			corpusFailures = append(corpusFailures, fmt.Sprintf("%v: %s", sig, msg))
			if corpusOnly != "" {
				return
			}
			c.FailNow(sig, msg+"\n"+desc, map[string]string{"README": desc + "\n"}, map[string]any{"corpus_package": pkg, "flags": flags})
		}
		if res.Exit != 0 {
			fail(map[string]string{"oracle": "exit", "class": ErrClass(res.Stderr)}, fmt.Sprintf("goderive exited %d on a package of its own repository:\n%s", res.Exit, pkit.Trunc(res.Stderr, 1200)))
			continue
		}
		if _, err := os.Stat(filepath.Join(root, pkg, gorun.DerivedFile)); err != nil {
			fail(map[string]string{"oracle": "missing"}, "goderive exited 0 and left no derived.gen.go")
			continue
		}
		b := gorun.Run(root, 10*time.Minute, env, "go", "test", "-vet=off", "-count=1", "-run", "^$", "./"+pkg)
		if b.Err != nil || b.TimedOut {
			c.Rep.Inconcl("corpus: go test -run ^$ did not run on %s", pkg)
			continue
		}
		if b.Exit != 0 {
			fail(map[string]string{"oracle": "build", "class": ErrClass(lastErrLine(b.Stdout + b.Stderr))}, "the package with the regenerated derived.gen.go does not compile:\n"+pkit.Trunc(b.Stdout+b.Stderr, 1500))
		}
	}
}
