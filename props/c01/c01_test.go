package c01

import (
	"fmt"
	"os"
	"path/filepath"
	"regexp"
	"sort"
	"strings"
	"testing"
	"time"

	"pgregory.net/rapid"

	"verif/internal/e2"
	"verif/internal/gorun"
	"verif/internal/pkit"
	"verif/internal/progen"
)

const prop = "C01"

var (
	reNum   = regexp.MustCompile(`[0-9]+`)
	rePos   = regexp.MustCompile(`[a-zA-Z0-9_/.\-]+\.go:\d+:\d+:?\s*`)
	reDeriv = regexp.MustCompile(`derive([A-Z][a-z]+)+[A-Za-z0-9_]*`)
)

// ErrClass normalises a compiler / goderive message into a class.
func ErrClass(s string) string {
	s = strings.TrimSpace(pkit.FirstLines(s, 1))
	s = rePos.ReplaceAllString(s, "")
	s = reDeriv.ReplaceAllStringFunc(s, func(m string) string {
		// keep the plugin prefix only
		best := ""
		for _, p := range progen.AllPrefixes {
			if strings.HasPrefix(m, p) && len(p) > len(best) {
				best = p
			}
		}
		if best == "" {
			return "deriveX"
		}
		return best
	})
	s = reNum.ReplaceAllString(s, "N")
	return pkit.Trunc(s, 160)
}

// Judge runs goderive on the module in dir and applies the C01 oracle.
// It returns a signature (nil when the case passes) and a message.
func Judge(dir string, pkgPatterns []string, args ...string) (map[string]string, string) {
	gargs := append(append([]string{}, args...), pkgPatterns...)
	res := gorun.RunGoderive(dir, gargs...)
	if res.Err != nil || res.TimedOut {
		return map[string]string{"oracle": "infra"}, fmt.Sprintf("goderive did not run: %v timedout=%v", res.Err, res.TimedOut)
	}
	if res.Exit != 0 {
		return map[string]string{"oracle": "exit", "class": ErrClass(res.Stderr)},
			fmt.Sprintf("goderive exited %d on a package within the supported grammar:\n%s", res.Exit, pkit.Trunc(res.Stderr, 1500))
	}
	for _, pat := range pkgPatterns {
		df := filepath.Join(dir, pat, gorun.DerivedFile)
		if _, err := os.Stat(df); err != nil {
			return map[string]string{"oracle": "missing"}, "derived.gen.go was not written for " + pat
		}
		clean, err := gorun.GofmtClean(df)
		if err != nil {
			return map[string]string{"oracle": "parse", "class": ErrClass(err.Error())}, "derived.gen.go does not parse: " + err.Error()
		}
		if !clean {
			// recorded, not judged: the statement asks for a file that type-checks, not for gofmt's layout
			gofmtUnclean++
		}
	}
	cr, err := gorun.TypeCheck(dir, true, pkgPatterns...)
	if err != nil {
		return map[string]string{"oracle": "infra"}, "type-check could not run: " + err.Error()
	}
	if len(cr.Errors) > 0 {
		return map[string]string{"oracle": "typecheck", "class": ErrClass(cr.Errors[0])},
			"package with derived.gen.go does not type-check:\n" + pkit.Trunc(strings.Join(cr.Errors, "\n"), 2000)
	}
	_, issues := gorun.ResolveDeriveCalls(cr, progen.AllPrefixes)
	if len(issues) > 0 {
		return map[string]string{"oracle": "resolve", "class": issues[0].Why}, fmt.Sprintf("derive call %s: %s", issues[0].Call, issues[0].Why)
	}
	b := gorun.Go(dir, 5*time.Minute, append([]string{"vet"}, pkgPatterns...)...)
	if b.Exit != 0 && (strings.Contains(b.Stderr, "# subj") && !strings.Contains(b.Stderr, "vet:")) {
		// compile errors surface through vet as "# pkg" blocks; pure vet diagnostics are not judged
		return map[string]string{"oracle": "build", "class": ErrClass(lastErrLine(b.Stderr))}, "go vet/build failed:\n" + pkit.Trunc(b.Stderr, 1500)
	}
	return nil, ""
}

func lastErrLine(s string) string {
	for _, l := range strings.Split(s, "\n") {
		if strings.Contains(l, ".go:") {
			return l
		}
	}
	return s
}

func patternsOf(files map[string]string) []string {
	if _, ok := files["a/a.go"]; ok {
		return []string{"./a", "./p"}
	}
	return []string{"./p"}
}

var gofmtUnclean int

type built struct {
	patterns []string
	files    map[string]string
	calls    []string
	features map[string]bool
	nt       bool
	hostile  []string // struct names taken from the identifiers generated code uses for its own variables
}

const shadowFinding = "C01-type-named-like-generated-local"

// knownShadowed are the names the open finding was demonstrated with; generatedLocals starts with them and goes on with
// the other parameter and variable names the plugins print.
var knownShadowed = []string{"this", "that", "dst", "src", "f", "l", "list"}

var generatedLocals = append(append([]string{}, knownShadowed...), "thisv", "thatv", "object", "h", "i", "j", "v", "k", "m", "out", "ok", "elem", "c", "res", "in", "err",
	"intersect", "wait", "r", "o", "memoized", "keys", "contains", "vs", "u", "index", "indexes", "hash", "field", "errc", "errChan", "buf", "table", "set",
	"key", "predicate", "pred", "union", "listOfLists", "thiskey", "thatkey", "thisvalue", "thatvalue", "cc1", "cc2")

var reNotAType = regexp.MustCompile(`derived\.gen\.go:\d+:\d+: ([A-Za-z_0-9]+) is not a type`)

// shadowed recognises the open finding: a struct named like a variable of the generated function that mentions it.
func shadowed(b *built, sig map[string]string, msg string) map[string]string {
	if sig == nil || (sig["oracle"] != "typecheck" && sig["oracle"] != "build") || len(b.hostile) == 0 {
		return sig
	}
	m := reNotAType.FindStringSubmatch(msg)
	if m == nil {
		return sig
	}
	for _, n := range b.hostile {
		if n == m[1] {
			return map[string]string{"check": "type-shadowed-by-local", "name": n}
		}
	}
	return sig
}

func drawProgram(t *rapid.T, c *pkit.Ctx) *built {
	pool := append([]string{}, generatedLocals...)
	if c.ActiveSet()[shadowFinding] {
		// the names known to collide are left out while the finding is open (the probe keeps watching them)
		pool = pool[len(knownShadowed):]
	}
	env := progen.DrawEnv(t, progen.EnvOpt{Avoid: c.ActiveSet(), LocalTypeNames: pool})
	p := progen.NewProg(env)
	n := rapid.IntRange(6, 24).Draw(t, "ncalls")
	b := &built{features: map[string]bool{}, hostile: env.HostileNames}
	if len(env.HostileNames) > 0 {
		b.features["types-named-like-generated-locals"] = true
	}
	used := progen.Used{}
	kinds := append(append([]string{}, progen.StructuralPlugins...), progen.ListPlugins...)
	for i := 0; i < n; i++ {
		sfx := fmt.Sprintf("T%d", i)
		if rapid.IntRange(0, 5).Draw(t, "nestedq") == 0 {
			inTest := rapid.IntRange(0, 4).Draw(t, "nestedtest") == 0
			render := p.T
			if inTest {
				render = p.TT
			}
			code, kind, typ := progen.DrawNestedCall(t, env, used, render, sfx)
			if code == "" {
				continue
			}
			if inTest {
				p.AddTest("%s", code)
			} else {
				p.Add("%s", code)
			}
			b.calls = append(b.calls, "nested:"+kind+":"+typ.Str(p.Q()))
			b.features["nested"] = true
			for _, f := range typ.Features() {
				b.features[f] = true
			}
			continue
		}
		if rapid.IntRange(0, 6).Draw(t, "functionalq") == 0 {
			// functional plugins over a drawn signature (wrappers return any, so only goderive's side is judged)
			fs := &e2.Subject{Prog: p}
			switch rapid.IntRange(0, 3).Draw(t, "functional") {
			case 0:
				sig := env.DrawSig(t, 2, 5, 3, []string{"named", "unnamed", "blank", "hostile", "minted"})
				if used.Claim("sig|" + sig.TypeKey()) {
					e2.AddPlumb(p, used, fs, sig, sfx, -1, rapid.Bool().Draw(t, "twin-site"))
					b.calls = append(b.calls, "plumb:"+sig.FuncType(p.T))
					b.features["functional:plumb"] = true
				}
			case 1, 2:
				e2.AddErrorForms(t, env, p, used, fs, sfx, e2.FuncOpt{})
				b.calls = append(b.calls, "errorform")
				b.features["functional:error"] = true
			default:
				sig := env.DrawSig(t, 0, 3, 3, []string{"named", "unnamed"})
				for i := range sig.Params {
					for sig.Params[i].Type.Kind == progen.Iface {
						sig.Params[i].Type = env.DrawSigType(t, false)
					}
				}
				if used.Claim("sig|" + sig.TypeKey()) {
					p.Add("func Mem%s(f %s) any {\n\treturn deriveMem%s(f)\n}\n", sfx, sig.FuncType(p.T), sfx)
					b.calls = append(b.calls, "mem:"+sig.FuncType(p.T))
					b.features["functional:mem"] = true
				}
			}
			continue
		}
		if rapid.IntRange(0, 9).Draw(t, "concurrentq") == 0 && !b.features["concurrent"] {
			et := p.T(env.DrawType(t, 1))
			p.Add(`func ConcFmap(f func(%[1]s) %[1]s, in <-chan %[1]s) <-chan %[1]s {
	return deriveFmapConc(f, in)
}

func ConcJoin(in <-chan (<-chan %[1]s)) <-chan %[1]s {
	return deriveJoinConc(in)
}

func ConcJoinSlice(in []<-chan %[1]s) <-chan %[1]s {
	return deriveJoinConcS(in)
}

func ConcJoinV(a, b chan %[1]s, c <-chan %[1]s) <-chan %[1]s {
	return deriveJoinConcV(a, b, c)
}

func ConcPipeline(f func(int) <-chan %[1]s, g func(%[1]s) <-chan %[1]s) func(int) <-chan %[1]s {
	return derivePipelineConc(f, g)
}

func ConcDup(c <-chan %[1]s) (<-chan %[1]s, <-chan %[1]s) {
	return deriveDupConc(c)
}

func ConcDo(f0 func() (%[1]s, error), f1 func() (int, error), f2 func() (%[1]s, error)) (%[1]s, int, %[1]s, error) {
	return deriveDoConc(f0, f1, f2)
}
`, et)
			b.calls = append(b.calls, "concurrent:"+et)
			b.features["concurrent"] = true
			continue
		}
		form := pick(t, "form", []string{progen.FormBody, progen.FormBody, progen.FormMethod, progen.FormVar, progen.FormClosure, progen.FormTest})
		render := p.T
		if form == progen.FormTest {
			render = p.TT
		}
		dc := progen.DrawStructuralCall(t, env, p, used, sfx, kinds, render)
		if dc == nil {
			continue
		}
		code := dc.Call.Render(form, "W"+sfx)
		if form == progen.FormTest {
			p.AddTest("%s", code)
		} else {
			p.Add("%s", code)
		}
		b.calls = append(b.calls, dc.Kind+":"+form+":"+dc.Type.Str(p.Q()))
		b.features["form:"+form] = true
		b.features["plugin:"+dc.Kind] = true
		for _, f := range dc.Type.Features() {
			b.features[f] = true
		}
	}
	if len(env.Ext) > 0 && rapid.IntRange(0, 3).Draw(t, "sharedfunc") == 0 {
		// a second package of the same invocation (it sorts before p) derives over the same imported function as p:
		// both see one go/types object for it, whatever one package's generators do to it the other must not notice
		x := env.Ext[0]
		p.Extra[x.Dir+"/fn.go"] = "package " + x.Name + "\n\n// Fn is used by derive calls of two packages.\nfunc Fn(x int, y string, z bool) (int, error) {\n\tif z {\n\t\treturn x, nil\n\t}\n\treturn len(y), nil\n}\n"
		p.Extra["a/a.go"] = "package a\n\nimport xfn \"" + x.ImportPath() + "\"\n\nvar Flipped = deriveFlip(xfn.Fn)\n\nvar Curried = deriveCurry(xfn.Fn)\n"
		al := p.Alias[x.Dir]
		p.Import("ext:" + x.Dir)
		p.Add("var SharedCurried = deriveCurryShared(%[1]s.Fn)\n\nvar SharedApplied = deriveApplyShared(%[1]s.Fn, true)\n\nvar SharedFlipped = deriveFlipShared(%[1]s.Fn)\n\nfunc SharedUse() (int, error) {\n\tif _, err := SharedFlipped(\"s\", 1, false); err != nil {\n\t\treturn 0, err\n\t}\n\tif _, err := SharedApplied(1, \"s\"); err != nil {\n\t\treturn 0, err\n\t}\n\treturn SharedCurried(1)(\"s\", true)\n}\n", al)
		b.calls = append(b.calls, "shared-function:a+p")
		b.features["shared-function"] = true
		b.patterns = []string{"./a", "./p"}
	}
	p.SplitCalls = rapid.IntRange(1, 3).Draw(t, "callfiles")
	p.RenameSplit = p.SplitCalls > 1 && rapid.Bool().Draw(t, "renamesplit")
	b.files = p.Files()
	b.nt = b.features["nested"] || b.features["ext-private"] || b.features["map"] || b.features["plugin:unique"] ||
		(b.features["ext"] && len(env.Ext) == 2 && env.Ext[0].Name == env.Ext[1].Name)
	return b
}

func pick[T any](t *rapid.T, label string, xs []T) T {
	return xs[rapid.IntRange(0, len(xs)-1).Draw(t, label)]
}

func keysOf(m map[string]bool) []string {
	var out []string
	for k := range m {
		out = append(out, k)
	}
	sort.Strings(out)
	return out
}

// enumerated runs the bounded-exhaustive part: every type expression up to a constructor depth over a
// fixed environment, packed 30 per package, under the six structural plugins.
func enumerated(c *pkit.Ctx) {
	env := progen.FixedEnv()
	depth := 2
	if c.Thorough() {
		depth = 3
	}
	all := progen.Enumerate(env, depth)
	const per = 30
	npk := (len(all) + per - 1) / per
	stride := 1
	if !c.Thorough() {
		stride = 2 // quick: a seed-selected half of the depth-2 enumeration
	}
	offset := int(c.Seed) % stride
	if offset < 0 {
		offset = 0
	}
	done := 0
	// each chunk of types is generated under all six plugins together and under each plugin alone
	// (imports and helpers requested by one plugin can mask what another one forgets)
	variants := []string{"all", "equal", "compare", "hash", "clone", "gostring", "deepcopy"}
	job := 0
	for pk := 0; pk < npk; pk++ {
		for _, variant := range variants {
			job++
			if pk%stride != offset || job%c.NShards != c.Shard%c.NShards {
				continue
			}
			p := progen.NewProg(env)
			var calls []string
			lo, hi := pk*per, (pk+1)*per
			if hi > len(all) {
				hi = len(all)
			}
			on := func(pl string) bool { return variant == "all" || variant == pl }
			for i, t := range all[lo:hi] {
				sfx := fmt.Sprintf("E%d", lo+i)
				restore := p.Snapshot()
				emitted := false
				ts := p.T(t)
				for _, c := range []*progen.Call{progen.Equal(ts, sfx), progen.Compare(ts, sfx), progen.Hash(ts, sfx), progen.Clone(ts, sfx)} {
					if on(c.Plugin) {
						p.Add("%s", c.Render(progen.FormBody, "W"+c.Plugin+sfx))
						emitted = true
					}
				}
				if on("gostring") && !t.HasExtPrivate() {
					g := progen.GoString(ts, sfx)
					p.Add("%s", g.Render(progen.FormBody, "Wgostring"+sfx))
					emitted = true
				}
				if u := t.Under(); on("deepcopy") && (u.Kind == progen.Ptr || u.Kind == progen.Slice || u.Kind == progen.Map) {
					// DeepCopy takes *T, []T or map[K]T; the other shapes are reached as *T one level up
					dc := progen.DeepCopy(ts, sfx)
					p.Add("%s", dc.Render(progen.FormBody, "Wdeepcopy"+sfx))
					emitted = true
				}
				if !emitted {
					restore() // no call mentions this type: its import must not be recorded
					continue
				}
				calls = append(calls, t.Str(p.Q()))
			}
			files := p.Files()
			if !strings.Contains(files["p/calls.go"], "derive") {
				continue
			}
			dir := c.CaseDir()
			gorun.WriteFiles(dir, files)
			c.Rep.Eval()
			c.Rep.Class("enumerated-package")
			c.Rep.NT(files["p/calls.go"])
			sig, msg := Judge(dir, []string{"./p"})
			os.RemoveAll(dir)
			if sig != nil && sig["oracle"] == "infra" {
				c.Rep.Inconcl("%s", msg)
				continue
			}
			done++
			if sig != nil {
				sig["part"] = "enumerated"
				sig["plugins"] = variant
				c.FailNow(sig, msg+"\nplugins: "+variant+"\ntypes: "+strings.Join(calls, "; "), files, map[string]any{"patterns": []string{"./p"}})
			}
		}
	}
	c.Rep.AddExtra("enumerated_packages", int64(done))
	if c.Shard == 0 {
		c.Rep.AddExtra("enumerated_types_total", int64(len(all)))
	}
	if c.Thorough() && c.Shard == 0 {
		c.Rep.Note("bounded-exhaustive: all %d type expressions to constructor depth %d x {equal, compare, hash, clone, deepcopy, gostring}", len(all), depth)
	}
}

func TestProp(t *testing.T) {
	c := pkit.Load(prop)
	corpus(c)
	enumerated(c)
	c.Check(t, func(rt *rapid.T) {
		b := drawProgram(rt, c)
		if len(b.calls) == 0 {
			return
		}
		dir := c.CaseDir()
		defer os.RemoveAll(dir)
		if err := gorun.WriteFiles(dir, b.files); err != nil {
			rt.Fatalf("infra: %v", err)
		}
		c.Rep.Eval()
		for _, f := range keysOf(b.features) {
			c.Rep.Class(f)
		}
		before := gofmtUnclean
		sig, msg := Judge(dir, patternsOf(b.files))
		sig = shadowed(b, sig, msg)
		if gofmtUnclean > before {
			c.Rep.Class("derived-file-not-gofmt-clean")
		}
		if sig != nil && sig["oracle"] == "infra" {
			c.Rep.Inconcl("%s", msg)
			return
		}
		if b.nt {
			c.Rep.NT(b.files["p/types.go"] + b.files["p/calls.go"] + b.files["p/more_test.go"])
		}
		c.Rep.Sample(map[string]any{"calls": b.calls, "features": keysOf(b.features)})
		if sig != nil {
			derived, _ := os.ReadFile(filepath.Join(dir, "p", gorun.DerivedFile))
			files := map[string]string{}
			for k, v := range b.files {
				files[k] = v
			}
			_ = derived
			c.Fail(rt, sig, msg+"\ncalls: "+strings.Join(b.calls, "; "), files, map[string]any{"patterns": patternsOf(b.files)})
		}
	})
}

func TestProbes(t *testing.T) {
	c := pkit.Load(prop)
	c.RunProbes(t, probes(c))
}

func TestReplay(t *testing.T) {
	dir := pkit.ReplayDir()
	if dir == "" {
		t.Skip("no replay dir")
	}
	meta, files, err := pkit.ReadReplay(dir)
	if err != nil {
		t.Fatal(err)
	}
	c := pkit.Load(prop)
	if pkg, ok := meta["corpus_package"].(string); ok && pkg != "" {
		corpusOnly = pkg
		corpus(c)
		if len(corpusFailures) > 0 {
			t.Fatalf("still fails: %s", strings.Join(corpusFailures, "\n"))
		}
		return
	}
	cd := c.CaseDir()
	defer os.RemoveAll(cd)
	delete(files, "p/"+gorun.DerivedFile)
	delete(files, "a/"+gorun.DerivedFile)
	gorun.WriteFiles(cd, files)
	sig, msg := Judge(cd, patternsOf(files))
	if sig != nil {
		t.Fatalf("still fails: %v\n%s", sig, msg)
	}
}
