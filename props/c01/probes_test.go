package c01

import (
	"fmt"
	"os"
	"strings"

	"verif/internal/gorun"
	"verif/internal/pkit"
)

// probes: the open finding is demonstrated on a fixed package per name; when goderive no longer fails on any of
// them the region is generated normally again.
func probes(c *pkit.Ctx) []pkit.Probe {
	return []pkit.Probe{{ID: shadowFinding, Run: func() (bool, string, error) {
		var failing []string
		for _, n := range knownShadowed {
			dir := c.CaseDir()
			src := fmt.Sprintf(`package p

type %[1]s struct {
	P *int
	L []int
}

type W struct {
	F %[1]s
	G []%[1]s
	H map[string]%[1]s
	J [2]%[1]s
}

func f1(a, b *W) bool { return deriveEqual(a, b) }

func f2(a, b *W) int { return deriveCompare(a, b) }

func f4(a, b *W) { deriveDeepCopy(a, b) }

func f6(a *W) string { return deriveGoString(a) }

func f13(a func(%[1]s) bool, b []%[1]s) []%[1]s { return deriveFilter(a, b) }

func f14(a func(%[1]s) *%[1]s, b []%[1]s) []*%[1]s { return deriveFmap(a, b) }

func f15(a [][]%[1]s) []%[1]s { return deriveJoin(a) }
`, n)
			files := map[string]string{"go.mod": "module subj\n\ngo 1.23\n", "p/p.go": src}
			if err := gorun.WriteFiles(dir, files); err != nil {
				return false, "", err
			}
			sig, msg := Judge(dir, []string{"./p"})
			os.RemoveAll(dir)
			if sig != nil && sig["oracle"] == "infra" {
				return false, "", fmt.Errorf("%s", msg)
			}
			if sig != nil && strings.Contains(msg, n+" is not a type") {
				failing = append(failing, n)
			}
		}
		if len(failing) > 0 {
			return true, "a struct type named " + strings.Join(failing, ", ") + " is hidden by the variable of that name inside the generated function that mentions the type", nil
		}
		return false, "", nil
	}}}
}
