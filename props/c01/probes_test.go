package c01

import "verif/internal/pkit"

func probes(c *pkit.Ctx) []pkit.Probe { return nil }
