package c05

import (
	"os"
	"strconv"
	"testing"

	"pgregory.net/rapid"

	"verif/internal/e2"
	"verif/internal/pkit"
	"verif/internal/progen"
)

const prop = "C05"

func checks(c *pkit.Ctx) int {
	if v := os.Getenv("VERIF_INNER_CHECKS"); v != "" {
		n, _ := strconv.Atoi(v)
		return n
	}
	if c.Thorough() {
		return 3000
	}
	return 500
}

func TestProp(t *testing.T) {
	c := pkit.Load(prop)
	c.Check(t, func(rt *rapid.T) {
		s := e2.DrawStructural(rt, e2.StructOpt{
			Env:    progen.EnvOpt{PtrKeys: true, Avoid: c.ActiveSet()},
			NTypes: 14, EnumChunks: true, Carriers: true, TopShapes: true,
			Roles: []string{"clone", "deepcopy"},
			// the deepcopy generator has one branch per (container, element copyable by assignment or not):
			// arrays of references as map values, slice elements and array elements are each their own path
			EnumFn: func(env *progen.Env) []*progen.Type {
				refs := []*progen.Type{progen.SliceOf(progen.B("int")), progen.PtrTo(progen.B("string")), progen.MapOf(progen.B("string"), progen.B("int")), progen.SliceOf(progen.B("string"))}
				r := refs[rapid.IntRange(0, len(refs)-1).Draw(rt, "c05-ref")]
				arr := progen.ArrayOf(rapid.IntRange(1, 3).Draw(rt, "c05-arrlen"), r)
				out := []*progen.Type{
					progen.MapOf(progen.B("string"), arr),
					progen.SliceOf(arr),
					progen.PtrTo(progen.ArrayOf(2, arr)),
				}
				if len(env.KeyStructs) > 0 {
					out = append(out, progen.MapOf(progen.NamedT(env.KeyStructs[0]), progen.ArrayOf(2, arr)))
				}
				// Clone of a value that is not itself a reference: an array of references, and a struct whose
				// only references sit inside arrays
				out = append(out, arr, progen.ArrayOf(2, arr))
				// keys that hold pointers are copied as well: behind a field, an element, a pointer and a map value
				pk := progen.PtrTo(progen.B("int"))
				var pks []*progen.Type
				pks = append(pks, pk, progen.ArrayOf(1, pk))
				if len(env.PtrKeyStructs) > 0 {
					pks = append(pks, progen.NamedT(env.PtrKeyStructs[0]))
				}
				k := pks[rapid.IntRange(0, len(pks)-1).Draw(rt, "c05-ptrkey")]
				vals := []*progen.Type{progen.B("int"), progen.B("string"), progen.ArrayOf(2, progen.B("int")), progen.PtrTo(progen.B("int"))}
				if len(env.KeyStructs) > 0 {
					vals = append(vals, progen.NamedT(env.KeyStructs[0]))
				}
				km := progen.MapOf(k, vals[rapid.IntRange(0, len(vals)-1).Draw(rt, "c05-ptrkeyval")])
				out = append(out, km, progen.PtrTo(km), progen.SliceOf(km), progen.MapOf(progen.B("string"), km), progen.ArrayOf(2, km))
				out = append(out, e2.Carrier(env, "WK", km, progen.B("int")))
				out = append(out, e2.Carrier(env, "WV", arr, progen.B("int"), progen.ArrayOf(2, progen.B("string"))).Elem)
				return out
			},
		})
		e2.RunCase(c, rt, s, e2.Options{Property: prop, Harness: "c05", Checks: checks(c)})
	})
}

func TestProbes(t *testing.T) { pkit.Load(prop).RunProbes(t, nil) }

func TestReplay(t *testing.T) {
	dir := pkit.ReplayDir()
	if dir == "" {
		t.Skip("no replay dir")
	}
	if ok, msg := e2.Replay(pkit.Load(prop), dir); !ok {
		t.Fatalf("still fails: %s", msg)
	}
}
