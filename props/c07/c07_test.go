package c07

import (
	"encoding/base64"
	"fmt"
	"os"
	"path/filepath"
	"strings"
	"testing"

	"pgregory.net/rapid"

	"verif/internal/gorun"
	"verif/internal/pkit"
)

const prop = "C07"

type field struct{ name, typ string }

type mcall struct {
	kind string // equal hash compare clone gostring deepcopy sortkeys equalclone uniquesort containskeys fmapkeys
	id   int
}

type model struct {
	typeName string
	fields   []field
	mapKey   string
	elemType string // element type of the list used by uniquesort
	calls    []mcall
	nextID   int
	inTest   bool // one call lives in a _test.go file
	// hidden: the package has lost every buildable source of its own ("deleted": the files are gone, only a text
	// file keeps the directory; "constrained": every file carries a build constraint that excludes it)
	hidden string
}

var fieldTypes = []string{"int", "string", "[]int", "*int", "map[string]int", "float64", "[2]string", "*SELF", "[]byte", "bool", "[]*SELF", "map[int]string", "uint8"}
var keyTypes = []string{"string", "int", "float64", "[2]int", "uint8", "bool"}
var elemTypes = []string{"int", "string", "*SELF", "[]int", "float64", "SELF"}
var callKinds = []string{"equal", "hash", "compare", "clone", "gostring", "deepcopy", "sortkeys", "equalclone", "uniquesort", "containskeys", "hashkeys", "minkeys"}

func (m *model) t(s string) string { return strings.ReplaceAll(s, "SELF", m.typeName) }

func (m *model) render() map[string]string {
	files := map[string]string{"go.mod": "module subj\n\ngo 1.23\n"}
	var sb strings.Builder
	sb.WriteString("package p\n\n")
	fmt.Fprintf(&sb, "type %s struct {\n", m.typeName)
	for _, f := range m.fields {
		fmt.Fprintf(&sb, "\t%s %s\n", f.name, m.t(f.typ))
	}
	sb.WriteString("}\n\n")
	fmt.Fprintf(&sb, "type M map[%s]*%s\n\n", m.mapKey, m.typeName)
	files["p/types.go"] = sb.String()
	var cs, ts strings.Builder
	cs.WriteString("package p\n\n")
	ts.WriteString("package p\n\n")
	T := "*" + m.typeName
	for i, c := range m.calls {
		w := &cs
		if m.inTest && i == len(m.calls)-1 {
			w = &ts
		}
		id := c.id
		switch c.kind {
		case "equal":
			fmt.Fprintf(w, "func c%d(a, b %s) bool {\n\treturn deriveEqual%d(a, b)\n}\n\n", id, T, id)
		case "hash":
			fmt.Fprintf(w, "func c%d(a %s) uint64 {\n\treturn deriveHash%d(a)\n}\n\n", id, T, id)
		case "compare":
			fmt.Fprintf(w, "func c%d(a, b %s) int {\n\treturn deriveCompare%d(a, b)\n}\n\n", id, T, id)
		case "clone":
			fmt.Fprintf(w, "func c%d(a %s) %s {\n\treturn deriveClone%d(a)\n}\n\n", id, T, T, id)
		case "gostring":
			fmt.Fprintf(w, "func c%d(a %s) string {\n\treturn deriveGoString%d(a)\n}\n\n", id, T, id)
		case "deepcopy":
			fmt.Fprintf(w, "func c%d(a, b %s) {\n\tderiveDeepCopy%d(a, b)\n}\n\n", id, T, id)
		case "sortkeys":
			// the result type of deriveKeys flows into deriveSort
			fmt.Fprintf(w, "func c%d(m M) []%s {\n\treturn deriveSort%d(deriveKeys%d(m))\n}\n\n", id, m.mapKey, id, id)
		case "equalclone":
			fmt.Fprintf(w, "func c%d(a, b %s) bool {\n\treturn deriveEqual%d(deriveClone%d(a), b)\n}\n\n", id, T, id, id)
		case "uniquesort":
			et := m.t(m.elemType)
			fmt.Fprintf(w, "func c%d(l []%s) []%s {\n\treturn deriveUnique%d(deriveSort%d(l))\n}\n\n", id, et, et, id, id)
		case "containskeys":
			fmt.Fprintf(w, "func c%d(m M, k %s) bool {\n\treturn deriveContains%d(deriveKeys%d(m), k)\n}\n\n", id, m.mapKey, id, id)
		case "hashkeys":
			fmt.Fprintf(w, "func c%d(m M) uint64 {\n\treturn deriveHash%d(deriveSort%d(deriveKeys%d(m)))\n}\n\n", id, id, id, id)
		case "minkeys":
			fmt.Fprintf(w, "func c%d(m M, d %s) %s {\n\treturn deriveMin%d(deriveKeys%d(m), d)\n}\n\n", id, m.mapKey, m.mapKey, id, id)
		}
	}
	files["p/calls.go"] = cs.String()
	if m.inTest && len(m.calls) > 0 {
		files["p/more_test.go"] = ts.String()
	}
	switch m.hidden {
	case "deleted":
		return map[string]string{"go.mod": files["go.mod"], "p/NOTES.txt": "the sources moved elsewhere\n"}
	case "constrained":
		for name, src := range files {
			if strings.HasSuffix(name, ".go") {
				files[name] = "//go:build never\n\n" + src
			}
		}
	}
	return files
}

// live reports whether the package has derive calls in files that are built.
func (m *model) live() bool { return len(m.calls) > 0 && m.hidden == "" }

// usable: some (kind, type) combinations are outside the supported set
func (m *model) supported() bool {
	for _, c := range m.calls {
		switch c.kind {
		case "minkeys":
			if m.mapKey == "[2]int" {
				// fine: compare handles arrays
			}
		case "uniquesort":
		}
	}
	return true
}

func pick[T any](t *rapid.T, label string, xs []T) T {
	return xs[rapid.IntRange(0, len(xs)-1).Draw(t, label)]
}

func drawModel(t *rapid.T) *model {
	m := &model{typeName: "S", mapKey: pick(t, "key", keyTypes), elemType: pick(t, "elem", elemTypes)}
	nf := rapid.IntRange(1, 4).Draw(t, "nfields")
	for i := 0; i < nf; i++ {
		m.fields = append(m.fields, field{fmt.Sprintf("F%d", i), pick(t, "ftype", fieldTypes)})
	}
	nc := rapid.IntRange(1, 4).Draw(t, "ncalls")
	for i := 0; i < nc; i++ {
		m.calls = append(m.calls, mcall{pick(t, "ckind", callKinds), m.nextID})
		m.nextID++
	}
	m.nextID = len(m.fields) + nc + 1
	m.inTest = rapid.IntRange(0, 4).Draw(t, "intest") == 0
	return m
}

// step applies one edit and returns its description and whether it touches a type used by a call.
func (m *model) step(t *rapid.T) (string, bool) {
	if m.hidden != "" {
		was := m.hidden
		m.hidden = ""
		return "the sources are back (they were " + was + ")", true
	}
	if rapid.IntRange(0, 11).Draw(t, "hide") == 0 {
		m.hidden = pick(t, "hidekind", []string{"deleted", "constrained"})
		return "every source file of the package is " + m.hidden, true
	}
	for {
		switch rapid.IntRange(0, 9).Draw(t, "edit") {
		case 0:
			if len(m.fields) == 0 {
				continue
			}
			i := rapid.IntRange(0, len(m.fields)-1).Draw(t, "fi")
			old := m.fields[i].typ
			m.fields[i].typ = pick(t, "ftype", fieldTypes)
			return fmt.Sprintf("retype field %s: %s -> %s", m.fields[i].name, old, m.fields[i].typ), old != m.fields[i].typ
		case 1:
			m.fields = append(m.fields, field{fmt.Sprintf("G%d", m.nextID), pick(t, "ftype", fieldTypes)})
			m.nextID++
			return "add field " + m.fields[len(m.fields)-1].typ, true
		case 2:
			if len(m.fields) <= 1 {
				continue
			}
			i := rapid.IntRange(0, len(m.fields)-1).Draw(t, "fi")
			d := m.fields[i]
			m.fields = append(m.fields[:i], m.fields[i+1:]...)
			return "remove field " + d.name, true
		case 3:
			m.calls = append(m.calls, mcall{pick(t, "ckind", callKinds), m.nextID})
			m.nextID++
			return "add call " + m.calls[len(m.calls)-1].kind, false
		case 4:
			if len(m.calls) <= 1 {
				continue
			}
			i := rapid.IntRange(0, len(m.calls)-1).Draw(t, "ci")
			d := m.calls[i]
			m.calls = append(m.calls[:i], m.calls[i+1:]...)
			return "remove call " + d.kind, false
		case 5:
			old := m.mapKey
			m.mapKey = pick(t, "key", keyTypes)
			return fmt.Sprintf("change map key type %s -> %s (flows from deriveKeys into deriveSort/Contains/Min/Hash)", old, m.mapKey), old != m.mapKey
		case 6:
			old := m.elemType
			m.elemType = pick(t, "elem", elemTypes)
			return fmt.Sprintf("change list element type %s -> %s (flows from deriveSort into deriveUnique)", old, m.elemType), old != m.elemType
		case 7:
			if m.typeName == "S" {
				m.typeName = "S2"
			} else {
				m.typeName = "S"
			}
			return "rename the struct type to " + m.typeName, true
		case 8:
			if len(m.calls) == 0 {
				continue
			}
			i := rapid.IntRange(0, len(m.calls)-1).Draw(t, "ci")
			old := m.calls[i].kind
			m.calls[i].kind = pick(t, "ckind", callKinds)
			return fmt.Sprintf("call %d changes from %s to %s (same function suffix)", m.calls[i].id, old, m.calls[i].kind), true
		default:
			if len(m.calls) == 0 {
				continue
			}
			if rapid.IntRange(0, 3).Draw(t, "delall") == 0 {
				m.calls = nil
				return "remove every derive call", false
			}
			continue
		}
	}
}

func scratchOutput(c *pkit.Ctx, files map[string]string) (out []byte, exists bool, exit int, stderr string) {
	dir := c.CaseDir()
	defer os.RemoveAll(dir)
	gorun.WriteFiles(dir, files)
	res := gorun.RunGoderive(dir, "./p")
	b, err := os.ReadFile(filepath.Join(dir, "p", gorun.DerivedFile))
	return b, err == nil, res.Exit, res.Stderr
}

// cutPoints proposes truncation offsets with structural meaning.
func cutPoints(b []byte) map[string]int {
	s := string(b)
	pts := map[string]int{"empty": 0, "one-byte": 1, "all-but-one": len(b) - 1}
	if i := strings.Index(s, "goderive"); i > 0 {
		pts["inside-header-comment"] = i + 3
	}
	if i := strings.Index(s, "package "); i > 0 {
		pts["inside-package-keyword"] = i + 4
		pts["inside-package-name"] = i + 8
		pts["after-package-clause"] = i + 10
	}
	if i := strings.Index(s, "import ("); i > 0 {
		pts["inside-import-block"] = i + 12
		if j := strings.Index(s[i:], ")\n"); j > 0 {
			pts["after-import-block"] = i + j + 2
		}
	}
	if i := strings.Index(s, "func "); i > 0 {
		pts["inside-func-signature"] = i + 9
		if j := strings.Index(s[i:], "{\n"); j > 0 {
			pts["inside-func-body"] = i + j + 5
		}
		if j := strings.Index(s[i:], "\n}\n"); j > 0 {
			pts["after-first-func"] = i + j + 3
		}
	}
	return pts
}

func firstDiff(a, b string) string {
	la, lb := strings.Split(a, "\n"), strings.Split(b, "\n")
	for i := 0; i < len(la) && i < len(lb); i++ {
		if la[i] != lb[i] {
			return fmt.Sprintf("line %d:\n  from scratch: %s\n  this run    : %s", i+1, la[i], lb[i])
		}
	}
	return fmt.Sprintf("one is a prefix of the other (%d vs %d lines)", len(la), len(lb))
}

// truncationSweep is the "for every byte offset k" part of the statement on one fixed pair of versions:
// the sources are v2, derived.gen.go is the first k bytes of the output for v1 (previous) or for v2 (new).
// The thorough tier covers every k (split over the shards), the quick tier every stride-th one.
func truncationSweep(c *pkit.Ctx) {
	mod := "module subj\n\ngo 1.23\n"
	calls := "package p\n\nfunc eq(a, b *T) bool {\n\treturn deriveEqual(a, b)\n}\n\nfunc keys(m map[K]int) []K {\n\treturn deriveSort(deriveKeys(m))\n}\n"
	v1 := map[string]string{"go.mod": mod, "p/calls.go": calls, "p/types.go": "package p\n\ntype K string\n\ntype T struct {\n\tA int\n\tB string\n}\n"}
	v2 := map[string]string{"go.mod": mod, "p/calls.go": calls, "p/types.go": "package p\n\ntype K int\n\ntype T struct {\n\tA int\n\tB []string\n\tC map[K]*T\n}\n"}
	out1, ok1, e1, _ := scratchOutput(c, v1)
	out2, ok2, e2, _ := scratchOutput(c, v2)
	if !ok1 || !ok2 || e1 != 0 || e2 != 0 {
		c.Rep.Inconcl("truncation sweep: the fixed packages do not generate from scratch (exit %d, %d)", e1, e2)
		return
	}
	stride := 24
	if c.Thorough() {
		stride = 1
	}
	dir := c.CaseDir()
	defer os.RemoveAll(dir)
	gorun.WriteFiles(dir, v2)
	dpath := filepath.Join(dir, "p", gorun.DerivedFile)
	idx := 0
	for _, w := range []struct {
		which string
		src   []byte
	}{{"previous", out1}, {"new", out2}} {
		for k := 0; k <= len(w.src); k += stride {
			idx++
			if idx%c.NShards != c.Shard%c.NShards {
				continue
			}
			os.WriteFile(dpath, w.src[:k], 0o644)
			c.Rep.Eval()
			c.Rep.NT(fmt.Sprintf("sweep|%s|%d", w.which, k))
			c.Rep.AddExtra("truncation_sweep_offsets", 1)
			res := gorun.RunGoderive(dir, "./p")
			if res.Err != nil || res.TimedOut {
				c.Rep.Inconcl("truncation sweep: goderive did not run")
				return
			}
			got, err := os.ReadFile(dpath)
			sig := map[string]string{"check": "truncation-sweep", "which": w.which}
			msg := ""
			switch {
			case res.Exit != 0:
				sig["class"] = "run-fails"
				msg = fmt.Sprintf("exit %d: %s", res.Exit, pkit.Trunc(res.Stderr, 400))
			case err != nil:
				sig["class"] = "no-file"
				msg = "no derived.gen.go after the run"
			case string(got) != string(out2):
				sig["class"] = "differs-from-scratch"
				msg = "first difference at " + firstDiff(string(out2), string(got))
			}
			if msg != "" {
				files := map[string]string{}
				for f, v := range v2 {
					files[f] = v
				}
				c.FailNow(sig, fmt.Sprintf("derived.gen.go := first %d of %d bytes of the %s output, sources v2, one run: %s", k, len(w.src), w.which, msg), files,
					map[string]any{"spelling": "./p", "old_derived_b64": base64.StdEncoding.EncodeToString(w.src[:k]), "had_old_derived": true})
				return
			}
		}
	}
}

func TestProp(t *testing.T) {
	c := pkit.Load(prop)
	truncationSweep(c)
	maxSteps := 6
	if c.Thorough() {
		maxSteps = 10
	}
	c.Check(t, func(rt *rapid.T) {
		m := drawModel(rt)
		dir := c.CaseDir()
		defer os.RemoveAll(dir)
		var history []string
		var prevOut []byte
		files := m.render()
		gorun.WriteFiles(dir, files)
		steps := rapid.IntRange(2, maxSteps).Draw(rt, "steps")
		for s := 0; s <= steps; s++ {
			desc := "initial generation"
			stale := false
			if s > 0 {
				desc, stale = m.step(rt)
				files = m.render()
				// rewrite the user sources (the derived file stays as the previous step left it)
				for _, f := range []string{"p/types.go", "p/calls.go", "p/more_test.go"} {
					os.Remove(filepath.Join(dir, f))
				}
				gorun.WriteFiles(dir, files)
			}
			want, wantExists, wexit, wstderr := scratchOutput(c, files)
			if wexit != 0 {
				// the current sources are rejected even from scratch: outside this property (C01/C09)
				c.Rep.Class("sources-rejected-from-scratch")
				c.Rep.Note("from-scratch run rejected the sources: %s", pkit.FirstLines(wstderr, 2))
				return
			}
			if !wantExists && m.live() {
				c.Fail(rt, map[string]string{"check": "no-output-from-scratch"}, "goderive exits 0 from scratch but writes no derived.gen.go although the package has derive calls", files, nil)
				return
			}
			// optional corruption of the old derived file
			corrupt := ""
			dpath := filepath.Join(dir, "p", gorun.DerivedFile)
			if rapid.IntRange(0, 2).Draw(rt, "corrupt") == 0 {
				var src []byte
				which := "previous"
				if rapid.Bool().Draw(rt, "corrupt-new") && wantExists {
					src, which = want, "new"
				} else {
					src = prevOut
				}
				if wantExists && rapid.IntRange(0, 3).Draw(rt, "extension") == 0 {
					// the old file starts with exactly what has to be written now and goes on: the output of an earlier
					// version with one more call whose function came last, complete or cut off inside that function
					extra := "\n// deriveStale was generated for a call that is gone.\nfunc deriveStale(this, that []int) bool {\n\tif this == nil || that == nil {\n\t\treturn this == nil && that == nil\n\t}\n\treturn len(this) == len(that)\n}\n"
					k := len(extra)
					if rapid.Bool().Draw(rt, "extension-cut") {
						k = rapid.IntRange(1, len(extra)-1).Draw(rt, "extension-k")
					}
					os.WriteFile(dpath, append(append([]byte{}, want...), extra[:k]...), 0o644)
					corrupt = fmt.Sprintf("derived.gen.go := the new output followed by %d of %d bytes of a function for a removed call", k, len(extra))
					desc += "; " + corrupt
				} else if len(src) > 2 {
					pts := cutPoints(src)
					var names []string
					for n := range pts {
						names = append(names, n)
					}
					sortStrings(names)
					k := 0
					pname := "uniform"
					if rapid.Bool().Draw(rt, "structural-cut") {
						pname = names[rapid.IntRange(0, len(names)-1).Draw(rt, "cutpoint")]
						k = pts[pname]
					} else {
						k = rapid.IntRange(0, len(src)-1).Draw(rt, "cut")
					}
					if k > len(src) {
						k = len(src)
					}
					os.WriteFile(dpath, src[:k], 0o644)
					corrupt = fmt.Sprintf("derived.gen.go := first %d of %d bytes of the %s output (%s)", k, len(src), which, pname)
					desc += "; " + corrupt
				}
			}
			history = append(history, desc)
			stepOld, stepOldErr := os.ReadFile(dpath)
			stepHadOld := stepOldErr == nil
			stepSpell := ""
			c.Rep.Eval()
			if (stale && s > 0) || corrupt != "" {
				old, _ := os.ReadFile(dpath)
				c.Rep.NT(files["p/types.go"] + files["p/calls.go"] + "|" + gorun.Sha(old, 16))
			}
			// the package may be addressed in any spelling; the reference run uses ./p
			spell := rapid.SampledFrom([]string{"./p", "./p", "subj/p", "./...", "dot"}).Draw(rt, "spelling")
			if m.hidden != "" && spell != "./p" && spell != "dot" && (m.hidden == "deleted" && spell == "subj/p" || !stepHadOld || corrupt != "") {
				// an import path does not name a directory without sources, and patterns only find a directory without
				// buildable sources through a derived.gen.go that parses: goderive exits 1 otherwise ("matched no
				// packages"), which is no successful run
				spell = "./p"
			}
			var res gorun.Result
			if spell == "dot" {
				res = gorun.RunGoderive(filepath.Join(dir, "p"), ".")
			} else {
				res = gorun.RunGoderive(dir, spell)
			}
			history[len(history)-1] += " [goderive " + spell + "]"
			stepSpell = spell
			if res.Err != nil || res.TimedOut {
				c.Rep.Inconcl("goderive did not run")
				return
			}
			got, err := os.ReadFile(dpath)
			gotExists := err == nil
			sig := map[string]string{}
			remnantClass := ""
			if corrupt != "" {
				remnantClass = "truncated"
			}
			fail := func(check, msg string) {
				sig["check"] = check
				sig["remnant"] = remnantClass
				old := map[string]string{}
				for k, v := range files {
					old[k] = v
				}
				oldDerived, hadOld := stepOld, stepHadOld
				c.Fail(rt, sig, msg+"\nhistory:\n  "+strings.Join(history, "\n  "), old, map[string]any{"history": history,
					"spelling": stepSpell, "old_derived_b64": base64.StdEncoding.EncodeToString(oldDerived), "had_old_derived": hadOld})
			}
			if res.Exit != 0 {
				cls := pkit.FirstLines(res.Stderr, 1)
				if len(cls) > 80 {
					cls = cls[:80]
				}
				sig["class"] = reNumDot(cls)
				fail("run-fails", fmt.Sprintf("from scratch goderive succeeds on these sources, with the old derived.gen.go in place it exits %d:\n%s", res.Exit, pkit.Trunc(res.Stderr, 600)))
				return
			}
			if gotExists != wantExists {
				fail("file-presence", fmt.Sprintf("derived.gen.go exists=%v after the run, from scratch exists=%v", gotExists, wantExists))
				return
			}
			if gotExists && string(got) != string(want) {
				fail("differs-from-scratch", "derived.gen.go after one run differs from the from-scratch output\nfirst difference at "+firstDiff(string(want), string(got)))
				return
			}
			prevOut = got
			if len(c.Rep.Samples) < 5 && s == steps {
				c.Rep.Sample(map[string]any{"history": history})
			}
		}
		// the final state must type-check (once per history: it is the expensive part)
		if m.live() {
			cr, err := gorun.TypeCheck(dir, true, "./p")
			if err == nil && len(cr.Errors) > 0 {
				c.Fail(rt, map[string]string{"check": "ill-typed"}, "the package does not type-check after the history:\n"+pkit.Trunc(strings.Join(cr.Errors, "\n"), 800)+"\nhistory:\n  "+strings.Join(history, "\n  "), files, nil)
			}
		}
	})
}

func sortStrings(s []string) {
	for i := 1; i < len(s); i++ {
		for j := i; j > 0 && s[j] < s[j-1]; j-- {
			s[j], s[j-1] = s[j-1], s[j]
		}
	}
}

func reNumDot(s string) string {
	var b strings.Builder
	for _, r := range s {
		if r >= '0' && r <= '9' {
			b.WriteByte('N')
		} else {
			b.WriteRune(r)
		}
	}
	return b.String()
}

func TestProbes(t *testing.T) { pkit.Load(prop).RunProbes(t, nil) }

func TestReplay(t *testing.T) {
	dir := pkit.ReplayDir()
	if dir == "" {
		t.Skip("no replay dir")
	}
	meta, files, err := pkit.ReadReplay(dir)
	if err != nil {
		t.Fatal(err)
	}
	c := pkit.Load(prop)
	delete(files, "p/"+gorun.DerivedFile)
	want, wantExists, wexit, _ := scratchOutput(c, files)
	if wexit != 0 {
		t.Fatalf("the sources are rejected from scratch")
	}
	cd := c.CaseDir()
	defer os.RemoveAll(cd)
	gorun.WriteFiles(cd, files)
	if had, _ := meta["had_old_derived"].(bool); had {
		b64, _ := meta["old_derived_b64"].(string)
		old, _ := base64.StdEncoding.DecodeString(b64)
		os.WriteFile(filepath.Join(cd, "p", gorun.DerivedFile), old, 0o644)
	}
	spell, _ := meta["spelling"].(string)
	var res gorun.Result
	switch spell {
	case "dot":
		res = gorun.RunGoderive(filepath.Join(cd, "p"), ".")
	case "":
		res = gorun.RunGoderive(cd, "./p")
	default:
		res = gorun.RunGoderive(cd, spell)
	}
	if res.Exit != 0 {
		t.Fatalf("still fails: goderive exits %d: %s", res.Exit, res.Stderr)
	}
	got, err := os.ReadFile(filepath.Join(cd, "p", gorun.DerivedFile))
	if (err == nil) != wantExists || (wantExists && string(got) != string(want)) {
		t.Fatalf("still fails: derived.gen.go after one run differs from the from-scratch output")
	}
	if cr, err := gorun.TypeCheck(cd, true, "./p"); err == nil && len(cr.Errors) > 0 && wantExists {
		t.Fatalf("still fails: the package does not type-check: %v", cr.Errors)
	}
}
