package c12

import (
	"bytes"
	"fmt"
	"go/ast"
	"go/parser"
	"go/printer"
	"go/token"
	"os"
	"path/filepath"
	"regexp"
	"sort"
	"strings"
	"testing"
	"time"
	"unicode"
	"unicode/utf8"

	"golang.org/x/tools/go/ast/astutil"
	"pgregory.net/rapid"

	"verif/internal/gorun"
	"verif/internal/pkit"
	"verif/internal/progen"
)

const prop = "C12"

// plugin name -> default prefix
var defaults = map[string]string{
	"all": "deriveAll", "any": "deriveAny", "apply": "deriveApply", "clone": "deriveClone", "compare": "deriveCompare", "compose": "deriveCompose",
	"contains": "deriveContains", "curry": "deriveCurry", "deepcopy": "deriveDeepCopy", "do": "deriveDo", "dup": "deriveDup", "equal": "deriveEqual",
	"filter": "deriveFilter", "flip": "deriveFlip", "fmap": "deriveFmap", "gostring": "deriveGoString", "hash": "deriveHash", "intersect": "deriveIntersect",
	"join": "deriveJoin", "keys": "deriveKeys", "max": "deriveMax", "mem": "deriveMem", "min": "deriveMin", "pipeline": "derivePipeline", "set": "deriveSet",
	"sort": "deriveSort", "takewhile": "deriveTakeWhile", "toerror": "deriveToError", "traverse": "deriveTraverse", "tuple": "deriveTuple",
	"uncurry": "deriveUncurry", "union": "deriveUnion", "unique": "deriveUnique",
}

// kind (progen) -> plugin name
func pluginOfKind(kind string) string {
	switch kind {
	case "equalc":
		return "equal"
	case "comparec":
		return "compare"
	case "minl", "mint":
		return "min"
	case "maxl", "maxt":
		return "max"
	case "unionl", "unionm":
		return "union"
	case "intersectl", "intersectm":
		return "intersect"
	}
	return kind
}

type config struct {
	global   string            // -prefix value ("" = default)
	override map[string]string // plugin -> prefix
	nested   bool
}

func (c *config) prefixOf(plugin string) string {
	if p, ok := c.override[plugin]; ok {
		return p
	}
	if c.global != "" {
		return strings.Replace(defaults[plugin], "derive", c.global, 1)
	}
	return defaults[plugin]
}

func (c *config) args() []string {
	var a []string
	if c.global != "" {
		a = append(a, "-prefix="+c.global)
	}
	if len(c.override) > 0 {
		var ks []string
		for k := range c.override {
			ks = append(ks, k)
		}
		sort.Strings(ks)
		var pairs []string
		for _, k := range ks {
			pairs = append(pairs, k+"="+c.override[k])
		}
		a = append(a, "-pluginprefix="+strings.Join(pairs, ","))
	}
	return a
}

// rename rewrites the default-named sources to the configured prefixes.
func (c *config) rename(src string) string {
	var names []string
	for pl := range defaults {
		names = append(names, pl)
	}
	// longest default prefix first (none of the defaults nest, this is for safety)
	sort.Slice(names, func(i, j int) bool { return len(defaults[names[i]]) > len(defaults[names[j]]) })
	// two phases so that a new prefix is never rewritten again
	for i, pl := range names {
		re := regexp.MustCompile(`\b` + defaults[pl] + `(\w*)`)
		src = re.ReplaceAllString(src, fmt.Sprintf("\x00%d\x00${1}", i))
	}
	for i, pl := range names {
		src = strings.ReplaceAll(src, fmt.Sprintf("\x00%d\x00", i), c.prefixOf(pl))
	}
	return src
}

// canon parses a derived file and returns, per generated function, its text with every name chosen by
// goderive taken out: import aliases are replaced by the import path, and every generated function
// (the function itself and its callees) is named after its shape, «(parameter types) result types».
// Which plugin produced a function is therefore read off what it computes, not off its name: under nested
// prefixes a helper of one plugin may legitimately carry a name that starts with another plugin's prefix.
func canon(src []byte, user map[string]string) (map[string]string, error) {
	fset := token.NewFileSet()
	f, err := parser.ParseFile(fset, "derived.gen.go", src, 0)
	if err != nil {
		return nil, err
	}
	// goderive keeps one function per class of mutually assignable argument types (N0 and []bool with
	// type N0 []bool, byte and uint8, rune and int32) and spells its parameters after whichever call was
	// registered first, which legitimately depends on the order of the plugins (sorted by prefix length).
	// Named composite types of the package are therefore replaced by their underlying type expressions.
	under := namedComposites(user)
	astutil.Apply(f, func(c *astutil.Cursor) bool {
		id, ok := c.Node().(*ast.Ident)
		if !ok || id.Obj != nil {
			return true
		}
		if _, isField := c.Parent().(*ast.SelectorExpr); isField && c.Name() == "Sel" {
			return true
		}
		switch id.Name {
		case "byte":
			id.Name = "uint8"
		case "rune":
			id.Name = "int32"
		default:
			if u, ok := under[id.Name]; ok {
				if kv, isKV := c.Parent().(*ast.KeyValueExpr); isKV && kv.Key == id {
					return true
				}
				if fld, isFld := c.Parent().(*ast.Field); isFld {
					for _, n := range fld.Names {
						if n == id {
							return true
						}
					}
				}
				c.Replace(u())
			}
		}
		return true
	}, nil)
	alias := map[string]string{}
	for _, im := range f.Imports {
		path := strings.Trim(im.Path.Value, "\"")
		name := path[strings.LastIndex(path, "/")+1:]
		if im.Name != nil {
			name = im.Name.Name
		}
		alias[name] = "pkg_" + strings.NewReplacer("/", "_", ".", "_", "-", "_").Replace(path)
	}
	ast.Inspect(f, func(n ast.Node) bool {
		if se, ok := n.(*ast.SelectorExpr); ok {
			if id, ok := se.X.(*ast.Ident); ok && id.Obj == nil {
				if a, ok := alias[id.Name]; ok {
					id.Name = a
				}
			}
		}
		return true
	})
	typeStr := func(e ast.Expr) string {
		var b bytes.Buffer
		printer.Fprint(&b, fset, e)
		return b.String()
	}
	fields := func(fl *ast.FieldList) string {
		if fl == nil {
			return ""
		}
		var ps []string
		for _, fd := range fl.List {
			n := len(fd.Names)
			if n == 0 {
				n = 1
			}
			for i := 0; i < n; i++ {
				ps = append(ps, typeStr(fd.Type))
			}
		}
		return strings.Join(ps, ", ")
	}
	mangle := strings.NewReplacer("(", "_", ")", "_", ",", "_", " ", "", "*", "P", "[", "L", "]", "R", ".", "_", "{", "_", "}", "_", ";", "_", "<-", "A", "\n", "", "\t", "")
	keys := map[string]string{}
	for _, d := range f.Decls {
		if fd, ok := d.(*ast.FuncDecl); ok && fd.Recv == nil {
			keys[fd.Name.Name] = "F_" + mangle.Replace("("+fields(fd.Type.Params)+")"+fields(fd.Type.Results))
		}
	}
	out := map[string]string{}
	for _, d := range f.Decls {
		fd, ok := d.(*ast.FuncDecl)
		if !ok || fd.Recv != nil {
			continue
		}
		name := fd.Name.Name
		fd.Doc = nil
		ast.Inspect(fd, func(n ast.Node) bool {
			// only identifiers that resolve to the generated function: a local variable or parameter may
			// carry the same name (h := uint64(17) in a hash function next to an equal helper named h)
			if id, ok := n.(*ast.Ident); ok && (id == fd.Name || (id.Obj != nil && id.Obj.Kind == ast.Fun)) {
				if k, ok := keys[id.Name]; ok {
					id.Name = k
				}
			}
			return true
		})
		var b bytes.Buffer
		printer.Fprint(&b, token.NewFileSet(), fd)
		out[name] = b.String()
	}
	return out, nil
}

// shadowedCalls lists calls f(...) in a derived file where f is the name of a generated function but
// resolves to a local variable or parameter of the enclosing function.
func shadowedCalls(src []byte) []string {
	fset := token.NewFileSet()
	f, err := parser.ParseFile(fset, "derived.gen.go", src, 0)
	if err != nil {
		return nil
	}
	funcs := map[string]bool{}
	for _, d := range f.Decls {
		if fd, ok := d.(*ast.FuncDecl); ok && fd.Recv == nil {
			funcs[fd.Name.Name] = true
		}
	}
	seen := map[string]bool{}
	var out []string
	for _, d := range f.Decls {
		fd, ok := d.(*ast.FuncDecl)
		if !ok {
			continue
		}
		ast.Inspect(fd, func(n ast.Node) bool {
			if ce, ok := n.(*ast.CallExpr); ok {
				if id, ok := ce.Fun.(*ast.Ident); ok && funcs[id.Name] && id.Obj != nil && id.Obj.Kind != ast.Fun {
					k := id.Name + " in " + fd.Name.Name
					if !seen[k] {
						seen[k] = true
						out = append(out, k)
					}
				}
			}
			return true
		})
	}
	sort.Strings(out)
	return out
}

// namedComposites maps the named slice, array, map and pointer types declared in the user's files to
// constructors of their (recursively expanded) underlying type expressions.
func namedComposites(user map[string]string) map[string]func() ast.Expr {
	srcs := map[string]string{}
	for k, v := range user {
		if !strings.HasPrefix(k, "p/") || !strings.HasSuffix(k, ".go") {
			continue
		}
		f, err := parser.ParseFile(token.NewFileSet(), k, v, parser.SkipObjectResolution)
		if err != nil {
			continue
		}
		for _, d := range f.Decls {
			gd, ok := d.(*ast.GenDecl)
			if !ok || gd.Tok != token.TYPE {
				continue
			}
			for _, sp := range gd.Specs {
				ts := sp.(*ast.TypeSpec)
				switch ts.Type.(type) {
				case *ast.ArrayType, *ast.MapType, *ast.StarExpr:
					var b bytes.Buffer
					printer.Fprint(&b, token.NewFileSet(), ts.Type)
					srcs[ts.Name.Name] = b.String()
				}
			}
		}
	}
	// expand references to other named composites textually (declarations are acyclic through these kinds
	// only via structs, which are not expanded)
	for round := 0; round < 6; round++ {
		for n, s := range srcs {
			for m, ms := range srcs {
				if m != n {
					s = regexp.MustCompile(`\b`+m+`\b`).ReplaceAllString(s, ms)
				}
			}
			srcs[n] = s
		}
	}
	out := map[string]func() ast.Expr{}
	for n, s := range srcs {
		s := s
		if _, err := parser.ParseExpr(s); err != nil {
			continue
		}
		out[n] = func() ast.Expr { e, _ := parser.ParseExpr(s); return e }
	}
	return out
}

func canonSet(m map[string]string) []string {
	var out []string
	for _, v := range m {
		out = append(out, v)
	}
	sort.Strings(out)
	return out
}

var reUserCall = regexp.MustCompile(`\bderive[A-Z]\w*T\d+\b`)

var customPool = []string{"gen", "my", "d", "Derive", "mk", "auto_", "x", "go", "map", "\u751f\u6210", "d\u00e9riv\u00e9", "\u03bb"}

// overrides: ordinary identifiers, and Go keywords (a prefix is only the beginning of a function name: mapLen, goAll
// and rangeOf are legal identifiers although map, go and range are not)
var overridePool = []string{"same", "ord", "eq", "cmp", "h", "cp", "srt", "ks", "has", "uniq", "gs", "clone", "Min", "keysOf",
	"map", "go", "range", "select", "type", "func", "var", "if", "for", "chan", "\u00e9gal", "\u03bb", "\u751f"}

func pick[T any](t *rapid.T, label string, xs []T) T {
	return xs[rapid.IntRange(0, len(xs)-1).Draw(t, label)]
}

type drawn struct {
	files   map[string]string
	plugins []string // plugins with user calls
	calls   []string
}

func drawPackage(t *rapid.T) *drawn {
	env := progen.DrawEnv(t, progen.EnvOpt{MaxStructs: 3})
	p := progen.NewProg(env)
	used := progen.Used{}
	d := &drawn{}
	seen := map[string]bool{}
	n := rapid.IntRange(3, 12).Draw(t, "ncalls")
	kinds := append(append([]string{}, progen.StructuralPlugins...), progen.ListPlugins...)
	for i := 0; i < n; i++ {
		dc := progen.DrawStructuralCall(t, env, p, used, fmt.Sprintf("T%d", i), kinds, p.T)
		if dc == nil {
			continue
		}
		p.Add("%s", dc.Call.Render(progen.FormBody, fmt.Sprintf("W%d", i)))
		pl := pluginOfKind(dc.Kind)
		if !seen[pl] {
			seen[pl] = true
			d.plugins = append(d.plugins, pl)
		}
		d.calls = append(d.calls, dc.Kind+":"+dc.Type.Str(p.Q()))
	}
	d.files = p.Files()
	return d
}

func drawConfig(t *rapid.T, d *drawn) *config {
	c := &config{override: map[string]string{}}
	switch rapid.IntRange(0, 5).Draw(t, "cfgkind") {
	case 0:
		c.global = pick(t, "global", customPool)
	case 1, 2:
		// per-plugin overrides, optionally on top of a global prefix
		if rapid.Bool().Draw(t, "withglobal") {
			c.global = pick(t, "global", customPool)
		}
		k := rapid.IntRange(1, 4).Draw(t, "noverride")
		usedPre := map[string]bool{}
		for i := 0; i < k && i < len(d.plugins); i++ {
			pl := d.plugins[rapid.IntRange(0, len(d.plugins)-1).Draw(t, "ovplugin")]
			pre := pick(t, "ovprefix", overridePool)
			// an override is taken literally, also when it contains "derive" and a global prefix is set:
			// keep the plugin's default name, or a name with "derive" inside
			switch rapid.IntRange(0, 5).Draw(t, "ovderive") {
			case 0:
				pre = defaults[pl]
			case 1:
				pre = "auto" + defaults[pl]
			case 2:
				first, size := utf8.DecodeRuneInString(pre)
				pre = "derive" + string(unicode.ToUpper(first)) + pre[size:]
			}
			if usedPre[pre] || c.override[pl] != "" {
				continue
			}
			// an override must not be a prefix of (or extend) another configured prefix here: nesting is the next case
			ok := true
			for _, other := range c.override {
				if strings.HasPrefix(other, pre) || strings.HasPrefix(pre, other) {
					ok = false
				}
			}
			if !ok {
				continue
			}
			usedPre[pre] = true
			c.override[pl] = pre
		}
		if c.global != "" && len(c.override) > 0 && rapid.IntRange(0, 2).Draw(t, "global-like-plugin-name") == 0 {
			// the global prefix is the beginning of the name of a plugin that has an override (-prefix=go with
			// gostring=..., -prefix=d with deepcopy=...): keys of the override map are plugin names, not prefixes
			var names []string
			for pl := range c.override {
				names = append(names, pl)
			}
			sort.Strings(names)
			pl := names[rapid.IntRange(0, len(names)-1).Draw(t, "global-like-which")]
			c.global = pl[:rapid.IntRange(1, len(pl)).Draw(t, "global-like-len")]
		}
	default:
		// nested: one plugin's prefix is a proper prefix of another's, both directions of default length
		if len(d.plugins) < 2 {
			c.global = pick(t, "global", customPool)
			break
		}
		perm := rapid.Permutation(d.plugins).Draw(t, "nestplugins")
		a, b := perm[0], perm[1]
		base := pick(t, "nestbase", []string{"ord", "gen", "x", "deriveX"})
		c.override[a] = base
		c.override[b] = base + pick(t, "nestext", []string{"Same", "K", "2", "_", "er"})
		if len(perm) > 2 && rapid.Bool().Draw(t, "nest3") {
			c.override[perm[2]] = c.override[b] + "Z"
		}
		c.nested = true
	}
	return c
}

// clashes reports whether renamed user identifiers could be captured by the wrong plugin for reasons
// outside the property: a configured prefix that is a prefix of another plugin's *unchanged* prefix.
func (c *config) sound(d *drawn) bool {
	all := map[string]string{}
	for pl := range defaults {
		all[pl] = c.prefixOf(pl)
	}
	// two plugins must not end up with the same prefix
	seen := map[string]string{}
	for pl, pre := range all {
		if o, ok := seen[pre]; ok && o != pl {
			return false
		}
		seen[pre] = pl
	}
	return true
}

var permBins map[string]string

// buildPermuted builds goderive from a scratch copy of the repository with the plugin registration list permuted.
func buildPermuted(c *pkit.Ctx, mode string) (string, error) {
	dir := filepath.Join(c.Scratch, "perm-"+mode)
	if err := gorun.CopyDirFiltered(gorun.Repo(), dir); err != nil {
		return "", err
	}
	defer os.RemoveAll(dir)
	mp := filepath.Join(dir, "main.go")
	b, err := os.ReadFile(mp)
	if err != nil {
		return "", err
	}
	lines := strings.Split(string(b), "\n")
	start, end := -1, -1
	for i, l := range lines {
		if strings.Contains(l, "plugins := []derive.Plugin{") {
			start = i + 1
		}
		if start >= 0 && end < 0 && i >= start && strings.TrimSpace(l) == "}" {
			end = i
		}
	}
	if start < 0 || end < 0 {
		return "", fmt.Errorf("plugin registration list not found in main.go")
	}
	block := append([]string{}, lines[start:end]...)
	for _, l := range block {
		if !strings.Contains(l, ".NewPlugin(),") {
			return "", fmt.Errorf("unexpected line in the registration list: %q", l)
		}
	}
	switch mode {
	case "reverse":
		for i, j := 0, len(block)-1; i < j; i, j = i+1, j-1 {
			block[i], block[j] = block[j], block[i]
		}
	case "rotate":
		k := len(block) / 3
		block = append(block[k:], block[:k]...)
	case "sorted":
		sort.Strings(block)
	}
	copy(lines[start:end], block)
	if err := os.WriteFile(mp, []byte(strings.Join(lines, "\n")), 0o644); err != nil {
		return "", err
	}
	out := filepath.Join(c.Scratch, "goderive-"+mode)
	r := gorun.Run(dir, 10*time.Minute, gorun.BuildEnv(), "go", "build", "-o", out, ".")
	if r.Exit != 0 {
		return "", fmt.Errorf("build of the permuted copy failed: %s", r.Stderr)
	}
	return out, nil
}

func runWith(bin, dir string, args ...string) gorun.Result {
	return gorun.Run(dir, gorun.GoderiveTimeout, gorun.ChildEnv(), bin, args...)
}

func TestProp(t *testing.T) {
	c := pkit.Load(prop)
	bins := map[string]string{"registered-order": gorun.Goderive()}
	for _, mode := range []string{"reverse", "rotate", "sorted"} {
		b, err := buildPermuted(c, mode)
		if err != nil {
			c.Rep.Note("registration-order variant %s skipped: %v", mode, err)
			continue
		}
		bins[mode] = b
	}
	c.Rep.AddExtra("registration_order_variants", int64(len(bins)-1))
	var modes []string
	for m := range bins {
		modes = append(modes, m)
	}
	sort.Strings(modes)
	c.Check(t, func(rt *rapid.T) {
		d := drawPackage(rt)
		if len(d.plugins) == 0 {
			return
		}
		cfg := drawConfig(rt, d)
		if !cfg.sound(d) {
			return
		}
		c.Rep.Eval()
		// default run
		d1 := c.CaseDir()
		defer os.RemoveAll(d1)
		gorun.WriteFiles(d1, d.files)
		r1 := gorun.RunGoderive(d1, "./p")
		if r1.Exit != 0 || r1.TimedOut {
			c.Rep.Class("program-rejected")
			c.Rep.Note("default run rejected the package (C01 matter): %s", pkit.FirstLines(r1.Stderr, 2))
			return
		}
		out1, err := os.ReadFile(filepath.Join(d1, "p", gorun.DerivedFile))
		if err != nil {
			c.Fail(rt, map[string]string{"check": "default-run-no-file"}, "the default run exits 0 but writes no derived.gen.go for a package with derive calls\ncalls: "+strings.Join(d.calls, "; "), d.files, nil)
			return
		}
		byName1, err := canon(out1, d.files)
		if err != nil {
			c.Rep.Inconcl("default output does not parse: %v", err)
			return
		}
		canon1 := canonSet(byName1)
		userCalls := map[string]bool{}
		for k, v := range d.files {
			if strings.HasPrefix(k, "p/") && strings.HasSuffix(k, ".go") {
				for _, n := range reUserCall.FindAllString(v, -1) {
					userCalls[n] = true
				}
			}
		}
		renamed := map[string]string{}
		for k, v := range d.files {
			if strings.HasSuffix(k, ".go") && strings.HasPrefix(k, "p/") {
				renamed[k] = cfg.rename(v)
			} else {
				renamed[k] = v
			}
		}
		if cfg.nested || len(cfg.override) >= 3 {
			c.Rep.NT(strings.Join(cfg.args(), " ") + "|" + d.files["p/calls.go"])
		}
		c.Rep.Class(map[bool]string{true: "config:nested", false: "config:flat"}[cfg.nested])
		c.Rep.Sample(map[string]any{"flags": cfg.args(), "calls": d.calls})
		mode := modes[rapid.IntRange(0, len(modes)-1).Draw(rt, "registration-order")]
		use := []string{"registered-order"}
		if mode != "registered-order" {
			use = append(use, mode)
		}
		for _, m := range use {
			d2 := c.CaseDir()
			gorun.WriteFiles(d2, renamed)
			r2 := runWith(bins[m], d2, append(cfg.args(), "./p")...)
			sig := map[string]string{"nested": fmt.Sprint(cfg.nested), "order": m}
			if m != "registered-order" {
				sig["order"] = "permuted"
			}
			fail := func(check, msg string) {
				sig["check"] = check
				os.RemoveAll(d2)
				c.Fail(rt, sig, msg+"\nflags: "+strings.Join(cfg.args(), " ")+"\nregistration order: "+m+"\ncalls: "+strings.Join(d.calls, "; "), renamed, map[string]any{"flags": cfg.args(), "order": m, "default_files": d.files})
			}
			if r2.Exit != 0 || r2.TimedOut {
				fail("customised-run-fails", fmt.Sprintf("the default run succeeds but the customised run exits %d:\n%s", r2.Exit, pkit.Trunc(r2.Stderr, 600)))
				return
			}
			out2, err := os.ReadFile(filepath.Join(d2, "p", gorun.DerivedFile))
			os.RemoveAll(d2)
			if err != nil {
				fail("customised-run-no-file", "the customised run wrote no derived.gen.go")
				return
			}
			if sh := shadowedCalls(out2); len(sh) > 0 && len(shadowedCalls(out1)) == 0 {
				fail("prefix-shadowed-by-local", "a generated function named by the customised prefix is called where a local variable or parameter of the same name shadows it (the output does not compile): "+strings.Join(sh, "; "))
				if m == use[len(use)-1] {
					return
				}
				continue
			}
			byName2, err := canon(out2, renamed)
			if err != nil {
				fail("customised-output-unparsable", err.Error())
				return
			}
			canon2 := canonSet(byName2)
			// every call the user wrote is answered by the function the default run generates for it
			var ucs []string
			for n := range userCalls {
				ucs = append(ucs, n)
			}
			sort.Strings(ucs)
			for _, n := range ucs {
				want, ok1 := byName1[n]
				got, ok2 := byName2[cfg.rename(n)]
				if !ok1 {
					continue
				}
				if !ok2 {
					fail("call-not-generated", fmt.Sprintf("the default run generates %s, the customised run generates no %s", n, cfg.rename(n)))
					return
				}
				if want != got {
					fail("call-handled-differently", fmt.Sprintf("%s (default) and %s (customised) are different functions:\n--- default\n%s\n--- customised\n%s", n, cfg.rename(n), pkit.Trunc(want, 700), pkit.Trunc(got, 700)))
					return
				}
				c.Rep.AddExtra("user_calls_matched", 1)
			}
			if strings.Join(canon1, "\n") != strings.Join(canon2, "\n") {
				diff := ""
				for i := 0; i < len(canon1) && i < len(canon2); i++ {
					if canon1[i] != canon2[i] {
						diff = "--- default\n" + canon1[i] + "\n--- customised\n" + canon2[i]
						break
					}
				}
				if diff == "" {
					diff = fmt.Sprintf("%d functions by default, %d customised", len(canon1), len(canon2))
				}
				fail("functions-differ", "the customised run does not generate the same functions up to renaming:\n"+pkit.Trunc(diff, 1500))
				return
			}
			if cfg.global != "" && len(cfg.override) == 0 {
				// textual identity for a global prefix
				want := regexp.MustCompile(`\bderive([A-Z])`).ReplaceAllString(string(out1), cfg.global+"${1}")
				if want != string(out2) {
					fail("global-prefix-not-textual", "with a global -prefix the output is not the default output with the prefix substituted")
					return
				}
			}
		}
	})
}

func TestProbes(t *testing.T) {
	c := pkit.Load(prop)
	c.RunProbes(t, []pkit.Probe{{ID: "C12-prefix-shadowed-by-local", Run: func() (bool, string, error) {
		d := c.CaseDir()
		defer os.RemoveAll(d)
		gorun.WriteFiles(d, map[string]string{
			"go.mod": "module subj\n\ngo 1.23\n",
			"p/a.go": "package p\n\ntype S struct {\n\tA int\n\tM map[string]*S\n}\n\nfunc H(s *S) uint64 { return hS(s) }\n",
		})
		r := gorun.RunGoderive(d, "-pluginprefix=hash=h", "./p")
		if r.Exit != 0 {
			return false, "", fmt.Errorf("goderive exits %d on the probe package: %s", r.Exit, pkit.Trunc(r.Stderr, 300))
		}
		out, err := os.ReadFile(filepath.Join(d, "p", gorun.DerivedFile))
		if err != nil {
			return false, "", err
		}
		sh := shadowedCalls(out)
		return len(sh) > 0, "-pluginprefix=hash=h on a struct with a map field: " + strings.Join(sh, "; "), nil
	}}})
}

// TestReplay re-runs a saved case with the registered plugin order (the permuted-order binaries are not rebuilt).
func TestReplay(t *testing.T) {
	dir := pkit.ReplayDir()
	if dir == "" {
		t.Skip("no replay dir")
	}
	meta, renamed, err := pkit.ReadReplay(dir)
	if err != nil {
		t.Fatal(err)
	}
	df, ok := meta["default_files"].(map[string]any)
	if !ok {
		t.Fatalf("replay.json has no default_files (saved by an older version of the check)")
	}
	c := pkit.Load(prop)
	def := map[string]string{}
	for k, v := range df {
		def[k] = fmt.Sprint(v)
	}
	var flags []string
	if fl, ok := meta["flags"].([]any); ok {
		for _, f := range fl {
			flags = append(flags, fmt.Sprint(f))
		}
	}
	d1, d2 := c.CaseDir(), c.CaseDir()
	defer os.RemoveAll(d1)
	defer os.RemoveAll(d2)
	gorun.WriteFiles(d1, def)
	delete(renamed, "p/"+gorun.DerivedFile)
	gorun.WriteFiles(d2, renamed)
	if r := gorun.RunGoderive(d1, "./p"); r.Exit != 0 {
		t.Fatalf("the default run is rejected: %s", r.Stderr)
	}
	if r := gorun.RunGoderive(d2, append(flags, "./p")...); r.Exit != 0 {
		t.Fatalf("still fails: the customised run exits %d: %s", r.Exit, r.Stderr)
	}
	out1, err1 := os.ReadFile(filepath.Join(d1, "p", gorun.DerivedFile))
	out2, err2 := os.ReadFile(filepath.Join(d2, "p", gorun.DerivedFile))
	if err1 != nil || err2 != nil {
		t.Fatalf("still fails: a run wrote no derived.gen.go (%v, %v)", err1, err2)
	}
	if sh := shadowedCalls(out2); len(sh) > 0 && len(shadowedCalls(out1)) == 0 {
		t.Fatalf("still fails: shadowed calls %v", sh)
	}
	m1, e1 := canon(out1, def)
	m2, e2 := canon(out2, renamed)
	if e1 != nil || e2 != nil {
		t.Fatalf("still fails: output does not parse (%v, %v)", e1, e2)
	}
	if strings.Join(canonSet(m1), "\n") != strings.Join(canonSet(m2), "\n") {
		t.Fatalf("still fails: the customised run does not generate the same functions up to renaming")
	}
}
