package c12

import (
	"bytes"
	"fmt"
	"go/ast"
	"go/parser"
	"go/printer"
	"go/token"
	"os"
	"path/filepath"
	"regexp"
	"sort"
	"strings"
	"testing"
	"time"

	"pgregory.net/rapid"

	"verif/internal/gorun"
	"verif/internal/pkit"
	"verif/internal/progen"
)

const prop = "C12"

// plugin name -> default prefix
var defaults = map[string]string{
	"all": "deriveAll", "any": "deriveAny", "apply": "deriveApply", "clone": "deriveClone", "compare": "deriveCompare", "compose": "deriveCompose",
	"contains": "deriveContains", "curry": "deriveCurry", "deepcopy": "deriveDeepCopy", "do": "deriveDo", "dup": "deriveDup", "equal": "deriveEqual",
	"filter": "deriveFilter", "flip": "deriveFlip", "fmap": "deriveFmap", "gostring": "deriveGoString", "hash": "deriveHash", "intersect": "deriveIntersect",
	"join": "deriveJoin", "keys": "deriveKeys", "max": "deriveMax", "mem": "deriveMem", "min": "deriveMin", "pipeline": "derivePipeline", "set": "deriveSet",
	"sort": "deriveSort", "takewhile": "deriveTakeWhile", "toerror": "deriveToError", "traverse": "deriveTraverse", "tuple": "deriveTuple",
	"uncurry": "deriveUncurry", "union": "deriveUnion", "unique": "deriveUnique",
}

// kind (progen) -> plugin name
func pluginOfKind(kind string) string {
	switch kind {
	case "equalc":
		return "equal"
	case "comparec":
		return "compare"
	case "minl", "mint":
		return "min"
	case "maxl", "maxt":
		return "max"
	case "unionl", "unionm":
		return "union"
	case "intersectl", "intersectm":
		return "intersect"
	}
	return kind
}

type config struct {
	global   string            // -prefix value ("" = default)
	override map[string]string // plugin -> prefix
	nested   bool
}

func (c *config) prefixOf(plugin string) string {
	if p, ok := c.override[plugin]; ok {
		return p
	}
	if c.global != "" {
		return strings.Replace(defaults[plugin], "derive", c.global, 1)
	}
	return defaults[plugin]
}

func (c *config) args() []string {
	var a []string
	if c.global != "" {
		a = append(a, "-prefix="+c.global)
	}
	if len(c.override) > 0 {
		var ks []string
		for k := range c.override {
			ks = append(ks, k)
		}
		sort.Strings(ks)
		var pairs []string
		for _, k := range ks {
			pairs = append(pairs, k+"="+c.override[k])
		}
		a = append(a, "-pluginprefix="+strings.Join(pairs, ","))
	}
	return a
}

// rename rewrites the default-named sources to the configured prefixes.
func (c *config) rename(src string) string {
	var names []string
	for pl := range defaults {
		names = append(names, pl)
	}
	// longest default prefix first (none of the defaults nest, this is for safety)
	sort.Slice(names, func(i, j int) bool { return len(defaults[names[i]]) > len(defaults[names[j]]) })
	// two phases so that a new prefix is never rewritten again
	for i, pl := range names {
		re := regexp.MustCompile(`\b` + defaults[pl] + `(\w*)`)
		src = re.ReplaceAllString(src, fmt.Sprintf("\x00%d\x00${1}", i))
	}
	for i, pl := range names {
		src = strings.ReplaceAll(src, fmt.Sprintf("\x00%d\x00", i), c.prefixOf(pl))
	}
	return src
}

// canon parses a derived file and returns its functions keyed by <plugin>(<params>), bodies printed with
// every generated function name replaced by its key.
func canon(src []byte, prefixes map[string]string) (map[string]string, error) {
	fset := token.NewFileSet()
	f, err := parser.ParseFile(fset, "derived.gen.go", src, 0)
	if err != nil {
		return nil, err
	}
	pluginFor := func(name string) string {
		best, bl := "", -1
		for pl, pre := range prefixes {
			if strings.HasPrefix(name, pre) && len(pre) > bl {
				best, bl = pl, len(pre)
			}
		}
		return best
	}
	typeStr := func(e ast.Expr) string {
		var b bytes.Buffer
		printer.Fprint(&b, fset, e)
		return b.String()
	}
	keys := map[string]string{}
	for _, d := range f.Decls {
		fd, ok := d.(*ast.FuncDecl)
		if !ok {
			continue
		}
		var ps []string
		for _, fl := range fd.Type.Params.List {
			n := len(fl.Names)
			if n == 0 {
				n = 1
			}
			for i := 0; i < n; i++ {
				ps = append(ps, typeStr(fl.Type))
			}
		}
		keys[fd.Name.Name] = "«" + pluginFor(fd.Name.Name) + "»(" + strings.Join(ps, ", ") + ")"
	}
	out := map[string]string{}
	for _, d := range f.Decls {
		fd, ok := d.(*ast.FuncDecl)
		if !ok {
			continue
		}
		fd.Doc = nil
		ast.Inspect(fd, func(n ast.Node) bool {
			if id, ok := n.(*ast.Ident); ok {
				if k, ok := keys[id.Name]; ok {
					id.Name = strings.NewReplacer("«", "F_", "»", "_", "(", "_", ")", "_", ",", "_", " ", "", "*", "P", "[", "L", "]", "R", ".", "_", "{", "_", "}", "_", ";", "_").Replace(k)
				}
			}
			return true
		})
		var b bytes.Buffer
		printer.Fprint(&b, token.NewFileSet(), fd)
		key := keys[fd.Name.Name]
		if key == "" {
			key = fd.Name.Name
		}
		// fd.Name was rewritten: recover the key from the rewritten name is not needed, keep ordering key
		out[b.String()[:0]+fmt.Sprint(len(out))+"|"+firstLine(b.String())] = b.String()
	}
	return out, nil
}

func firstLine(s string) string {
	if i := strings.Index(s, "\n"); i >= 0 {
		return s[:i]
	}
	return s
}

func canonSet(src []byte, prefixes map[string]string) ([]string, error) {
	m, err := canon(src, prefixes)
	if err != nil {
		return nil, err
	}
	var out []string
	for _, v := range m {
		out = append(out, v)
	}
	sort.Strings(out)
	return out, nil
}

var customPool = []string{"gen", "my", "d", "Derive", "mk", "auto_", "x"}
var overridePool = []string{"same", "ord", "eq", "cmp", "h", "cp", "srt", "ks", "has", "uniq", "gs", "clone", "Min", "keysOf"}

func pick[T any](t *rapid.T, label string, xs []T) T {
	return xs[rapid.IntRange(0, len(xs)-1).Draw(t, label)]
}

type drawn struct {
	files   map[string]string
	plugins []string // plugins with user calls
	calls   []string
}

func drawPackage(t *rapid.T) *drawn {
	env := progen.DrawEnv(t, progen.EnvOpt{MaxStructs: 3})
	p := progen.NewProg(env)
	used := progen.Used{}
	d := &drawn{}
	seen := map[string]bool{}
	n := rapid.IntRange(3, 12).Draw(t, "ncalls")
	kinds := append(append([]string{}, progen.StructuralPlugins...), progen.ListPlugins...)
	for i := 0; i < n; i++ {
		dc := progen.DrawStructuralCall(t, env, p, used, fmt.Sprintf("T%d", i), kinds, p.T)
		if dc == nil {
			continue
		}
		p.Add("%s", dc.Call.Render(progen.FormBody, fmt.Sprintf("W%d", i)))
		pl := pluginOfKind(dc.Kind)
		if !seen[pl] {
			seen[pl] = true
			d.plugins = append(d.plugins, pl)
		}
		d.calls = append(d.calls, dc.Kind+":"+dc.Type.Str(p.Q()))
	}
	d.files = p.Files()
	return d
}

func drawConfig(t *rapid.T, d *drawn) *config {
	c := &config{override: map[string]string{}}
	switch rapid.IntRange(0, 5).Draw(t, "cfgkind") {
	case 0:
		c.global = pick(t, "global", customPool)
	case 1, 2:
		// per-plugin overrides, optionally on top of a global prefix
		if rapid.Bool().Draw(t, "withglobal") {
			c.global = pick(t, "global", customPool)
		}
		k := rapid.IntRange(1, 4).Draw(t, "noverride")
		usedPre := map[string]bool{}
		for i := 0; i < k && i < len(d.plugins); i++ {
			pl := d.plugins[rapid.IntRange(0, len(d.plugins)-1).Draw(t, "ovplugin")]
			pre := pick(t, "ovprefix", overridePool)
			if usedPre[pre] || c.override[pl] != "" {
				continue
			}
			// an override must not be a prefix of (or extend) another configured prefix here: nesting is the next case
			ok := true
			for _, other := range c.override {
				if strings.HasPrefix(other, pre) || strings.HasPrefix(pre, other) {
					ok = false
				}
			}
			if !ok {
				continue
			}
			usedPre[pre] = true
			c.override[pl] = pre
		}
	default:
		// nested: one plugin's prefix is a proper prefix of another's, both directions of default length
		if len(d.plugins) < 2 {
			c.global = pick(t, "global", customPool)
			break
		}
		perm := rapid.Permutation(d.plugins).Draw(t, "nestplugins")
		a, b := perm[0], perm[1]
		base := pick(t, "nestbase", []string{"ord", "gen", "x", "deriveX"})
		c.override[a] = base
		c.override[b] = base + pick(t, "nestext", []string{"Same", "K", "2", "_", "er"})
		if len(perm) > 2 && rapid.Bool().Draw(t, "nest3") {
			c.override[perm[2]] = c.override[b] + "Z"
		}
		c.nested = true
	}
	return c
}

// clashes reports whether renamed user identifiers could be captured by the wrong plugin for reasons
// outside the property: a configured prefix that is a prefix of another plugin's *unchanged* prefix.
func (c *config) sound(d *drawn) bool {
	all := map[string]string{}
	for pl := range defaults {
		all[pl] = c.prefixOf(pl)
	}
	// two plugins must not end up with the same prefix
	seen := map[string]string{}
	for pl, pre := range all {
		if o, ok := seen[pre]; ok && o != pl {
			return false
		}
		seen[pre] = pl
	}
	return true
}

var permBins map[string]string

// buildPermuted builds goderive from a scratch copy of the repository with the plugin registration list permuted.
func buildPermuted(c *pkit.Ctx, mode string) (string, error) {
	dir := filepath.Join(c.Scratch, "perm-"+mode)
	if err := gorun.CopyDirFiltered(gorun.Repo(), dir); err != nil {
		return "", err
	}
	defer os.RemoveAll(dir)
	mp := filepath.Join(dir, "main.go")
	b, err := os.ReadFile(mp)
	if err != nil {
		return "", err
	}
	lines := strings.Split(string(b), "\n")
	start, end := -1, -1
	for i, l := range lines {
		if strings.Contains(l, "plugins := []derive.Plugin{") {
			start = i + 1
		}
		if start >= 0 && end < 0 && i >= start && strings.TrimSpace(l) == "}" {
			end = i
		}
	}
	if start < 0 || end < 0 {
		return "", fmt.Errorf("plugin registration list not found in main.go")
	}
	block := append([]string{}, lines[start:end]...)
	for _, l := range block {
		if !strings.Contains(l, ".NewPlugin(),") {
			return "", fmt.Errorf("unexpected line in the registration list: %q", l)
		}
	}
	switch mode {
	case "reverse":
		for i, j := 0, len(block)-1; i < j; i, j = i+1, j-1 {
			block[i], block[j] = block[j], block[i]
		}
	case "rotate":
		k := len(block) / 3
		block = append(block[k:], block[:k]...)
	case "sorted":
		sort.Strings(block)
	}
	copy(lines[start:end], block)
	if err := os.WriteFile(mp, []byte(strings.Join(lines, "\n")), 0o644); err != nil {
		return "", err
	}
	out := filepath.Join(c.Scratch, "goderive-"+mode)
	r := gorun.Run(dir, 10*time.Minute, gorun.BuildEnv(), "go", "build", "-o", out, ".")
	if r.Exit != 0 {
		return "", fmt.Errorf("build of the permuted copy failed: %s", r.Stderr)
	}
	return out, nil
}

func runWith(bin, dir string, args ...string) gorun.Result {
	return gorun.Run(dir, gorun.GoderiveTimeout, gorun.ChildEnv(), bin, args...)
}

func TestProp(t *testing.T) {
	c := pkit.Load(prop)
	bins := map[string]string{"registered-order": gorun.Goderive()}
	for _, mode := range []string{"reverse", "rotate", "sorted"} {
		b, err := buildPermuted(c, mode)
		if err != nil {
			c.Rep.Note("registration-order variant %s skipped: %v", mode, err)
			continue
		}
		bins[mode] = b
	}
	c.Rep.AddExtra("registration_order_variants", int64(len(bins)-1))
	var modes []string
	for m := range bins {
		modes = append(modes, m)
	}
	sort.Strings(modes)
	c.Check(t, func(rt *rapid.T) {
		d := drawPackage(rt)
		if len(d.plugins) == 0 {
			return
		}
		cfg := drawConfig(rt, d)
		if !cfg.sound(d) {
			return
		}
		c.Rep.Eval()
		// default run
		d1 := c.CaseDir()
		defer os.RemoveAll(d1)
		gorun.WriteFiles(d1, d.files)
		r1 := gorun.RunGoderive(d1, "./p")
		if r1.Exit != 0 || r1.TimedOut {
			c.Rep.Class("program-rejected")
			c.Rep.Note("default run rejected the package (C01 matter): %s", pkit.FirstLines(r1.Stderr, 2))
			return
		}
		out1, err := os.ReadFile(filepath.Join(d1, "p", gorun.DerivedFile))
		if err != nil {
			c.Fail(rt, map[string]string{"check": "default-run-no-file"}, "the default run exits 0 but writes no derived.gen.go for a package with derive calls\ncalls: "+strings.Join(d.calls, "; "), d.files, nil)
			return
		}
		prefixes2 := map[string]string{}
		for pl := range defaults {
			prefixes2[pl] = cfg.prefixOf(pl)
		}
		canon1, err := canonSet(out1, defaults)
		if err != nil {
			c.Rep.Inconcl("default output does not parse: %v", err)
			return
		}
		renamed := map[string]string{}
		for k, v := range d.files {
			if strings.HasSuffix(k, ".go") && strings.HasPrefix(k, "p/") {
				renamed[k] = cfg.rename(v)
			} else {
				renamed[k] = v
			}
		}
		if cfg.nested || len(cfg.override) >= 3 {
			c.Rep.NT(strings.Join(cfg.args(), " ") + "|" + d.files["p/calls.go"])
		}
		c.Rep.Class(map[bool]string{true: "config:nested", false: "config:flat"}[cfg.nested])
		c.Rep.Sample(map[string]any{"flags": cfg.args(), "calls": d.calls})
		mode := modes[rapid.IntRange(0, len(modes)-1).Draw(rt, "registration-order")]
		use := []string{"registered-order"}
		if mode != "registered-order" {
			use = append(use, mode)
		}
		for _, m := range use {
			d2 := c.CaseDir()
			gorun.WriteFiles(d2, renamed)
			r2 := runWith(bins[m], d2, append(cfg.args(), "./p")...)
			sig := map[string]string{"nested": fmt.Sprint(cfg.nested), "order": m}
			if m != "registered-order" {
				sig["order"] = "permuted"
			}
			fail := func(check, msg string) {
				sig["check"] = check
				os.RemoveAll(d2)
				c.Fail(rt, sig, msg+"\nflags: "+strings.Join(cfg.args(), " ")+"\nregistration order: "+m+"\ncalls: "+strings.Join(d.calls, "; "), renamed, map[string]any{"flags": cfg.args(), "order": m})
			}
			if r2.Exit != 0 || r2.TimedOut {
				fail("customised-run-fails", fmt.Sprintf("the default run succeeds but the customised run exits %d:\n%s", r2.Exit, pkit.Trunc(r2.Stderr, 600)))
				return
			}
			out2, err := os.ReadFile(filepath.Join(d2, "p", gorun.DerivedFile))
			os.RemoveAll(d2)
			if err != nil {
				fail("customised-run-no-file", "the customised run wrote no derived.gen.go")
				return
			}
			canon2, err := canonSet(out2, prefixes2)
			if err != nil {
				fail("customised-output-unparsable", err.Error())
				return
			}
			if strings.Join(canon1, "\n") != strings.Join(canon2, "\n") {
				diff := ""
				for i := 0; i < len(canon1) && i < len(canon2); i++ {
					if canon1[i] != canon2[i] {
						diff = "--- default\n" + canon1[i] + "\n--- customised\n" + canon2[i]
						break
					}
				}
				if diff == "" {
					diff = fmt.Sprintf("%d functions by default, %d customised", len(canon1), len(canon2))
				}
				fail("functions-differ", "the customised run does not generate the same functions up to renaming:\n"+pkit.Trunc(diff, 1500))
				return
			}
			if cfg.global != "" && len(cfg.override) == 0 {
				// textual identity for a global prefix
				want := regexp.MustCompile(`\bderive([A-Z])`).ReplaceAllString(string(out1), cfg.global+"${1}")
				if want != string(out2) {
					fail("global-prefix-not-textual", "with a global -prefix the output is not the default output with the prefix substituted")
					return
				}
			}
		}
	})
}

func TestProbes(t *testing.T) { pkit.Load(prop).RunProbes(t, nil) }

func TestReplay(t *testing.T) {
	t.Skip("C12 replays: run goderive with the flags in replay.json on <dir>/module and compare with the default-named package")
}
