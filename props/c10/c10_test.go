package c10

import (
	"bytes"
	"fmt"
	"go/ast"
	"go/format"
	"go/parser"
	"go/token"
	"os"
	"path/filepath"
	"regexp"
	"sort"
	"strings"
	"testing"

	"pgregory.net/rapid"

	"verif/internal/gorun"
	"verif/internal/pkit"
)

const prop = "C10"

type program struct {
	files           map[string]string
	flags           []string
	desc            []string
	renamesExpected bool
	outcome         string
	links           []string // user files of p that are symbolic links to a file of the same name under _shared/
	patterns        []string // packages named on the command line (default ./p)
}

var suffixPool = []string{"", "A", "B", "X1", "ForTheFirstType", "WithAVeryLongSuffixToMakeTheNameLongerThanAnyFreshName", "Q", "Z9"}
var typeNames = []string{"A", "B", "C"}

func pick[T any](t *rapid.T, label string, xs []T) T {
	return xs[rapid.IntRange(0, len(xs)-1).Draw(t, label)]
}

// messy applies formatting noise that gofmt would normalise.
func messy(t *rapid.T, src string) string {
	switch rapid.IntRange(0, 3).Draw(t, "messy") {
	case 0:
		return src
	case 1:
		return strings.ReplaceAll(src, "\t", "    ")
	case 2:
		return strings.ReplaceAll(strings.ReplaceAll(src, "(x, y ", "( x,y  "), " {\n", "   {\n")
	default:
		return strings.ReplaceAll(src, "return ", "return   ") + "\n\n\n"
	}
}

func drawProgram(t *rapid.T) *program {
	pr := &program{files: map[string]string{"go.mod": "module subj\n\ngo 1.23\n"}}
	var types strings.Builder
	types.WriteString("package p\n\n// A, B and C are pairwise non-assignable.\ntype A struct{ F int }\n\ntype B struct{ F string }\n\ntype C struct{ F []int }\n")
	pr.files["p/types.go"] = types.String()
	plugin := pick(t, "plugin", []string{"Equal", "Compare", "Hash", "Clone"})
	nfiles := rapid.IntRange(1, 3).Draw(t, "nfiles")
	ncalls := rapid.IntRange(1, 6).Draw(t, "ncalls")
	type call struct{ name, typ string }
	var calls []call
	fileSrc := make([]strings.Builder, nfiles)
	// files produced by other generators start with a //line directive that names their source: goderive
	// must keep working on the .go file itself (the directive names an existing file of another directory,
	// an existing non-Go file of this directory, or nothing that exists)
	lineTargets := []string{"../other/gram.y:1", "notes.txt:3", "missing.rl:10", "../other/other.go:1"}
	lineDirective := func(label string) string {
		if rapid.IntRange(0, 3).Draw(t, label) != 0 {
			return ""
		}
		pr.desc = append(pr.desc, "line-directive")
		return "//line " + pick(t, label+"-target", lineTargets) + "\n"
	}
	for i := range fileSrc {
		fileSrc[i].WriteString(lineDirective("linedir"))
		fileSrc[i].WriteString("package p\n\n")
		// gofmt does more than layout: it sorts import blocks and rewrites number literals (0XFF -> 0xFF,
		// 1E6 -> 1e6); a rewritten file has to be the gofmt of its original in these respects too
		if rapid.IntRange(0, 7).Draw(t, "unsorted-imports") == 0 {
			fmt.Fprintf(&fileSrc[i], "import (\n\t\"strings\"\n\t\"errors\"\n)\n\nvar _, _ = strings.ToUpper, errors.New\n\n")
			pr.desc = append(pr.desc, "unsorted-imports")
		}
		if rapid.IntRange(0, 2).Draw(t, "odd-literals") == 0 {
			fmt.Fprintf(&fileSrc[i], "var lits%d = []float64{0XFF, 1E6, 0B101, 0O17, 0X1P-2}\n\n", i)
			pr.desc = append(pr.desc, "odd-literals")
		}
		if rapid.Bool().Draw(t, "filecomment") {
			fmt.Fprintf(&fileSrc[i], "// file %d keeps this comment.\n\n", i)
		}
	}
	for i := 0; i < ncalls; i++ {
		c := call{"derive" + plugin + pick(t, "suffix", suffixPool), pick(t, "type", typeNames)}
		calls = append(calls, c)
		fi := rapid.IntRange(0, nfiles-1).Draw(t, "file")
		var args, params, res string
		switch plugin {
		case "Equal":
			params, args, res = "x, y *"+c.typ, "x, y", "bool"
		case "Compare":
			params, args, res = "x, y *"+c.typ, "x, y", "int"
		case "Hash":
			params, args, res = "x *"+c.typ, "x", "uint64"
		default:
			params, args, res = "x *"+c.typ, "x", "*"+c.typ
		}
		if plugin != "Clone" && rapid.IntRange(0, 3).Draw(t, "nested") == 0 {
			// the first argument is itself a derive call: the outer call can only be typed (and renamed)
			// in a later generation pass, after the package has been loaded again
			if plugin == "Hash" {
				args = fmt.Sprintf("deriveCloneInner%d(x)", i)
			} else {
				args = fmt.Sprintf("deriveCloneInner%d(x), y", i)
			}
			pr.desc = append(pr.desc, "nested")
		}
		callExpr := c.name + "(" + args + ")"
		switch rapid.IntRange(0, 4).Draw(t, "decor") {
		case 1:
			callExpr = c.name + " /* inside */ (" + args + ")"
		case 2:
			callExpr = "/* before */ " + c.name + "(" + args + ") /* after */"
		case 3:
			callExpr = c.name + "( // trailing\n\t\t" + args + ")"
		}
		fmt.Fprintf(&fileSrc[fi], "// f%d calls %s.\nfunc f%d(%s) %s {\n\t// leading comment %d\n\treturn %s // end %d\n}\n\n", i, c.name, i, params, res, i, callExpr, i)
		pr.desc = append(pr.desc, fmt.Sprintf("file%d:%s(%s)", fi, c.name, c.typ))
	}
	for i := range fileSrc {
		src := fileSrc[i].String()
		if rapid.Bool().Draw(t, "gofmt") {
			if b, err := format.Source([]byte(src)); err == nil {
				src = string(b)
			}
		} else {
			src = messy(t, src)
		}
		pr.files[fmt.Sprintf("p/f%d.go", i)] = src
	}
	// a file without any derive call, not gofmt-formatted
	if rapid.Bool().Draw(t, "bystander") {
		pr.files["p/bystander.go"] = lineDirective("linedir-bystander") + "package p\n\n// Bystander has no derive call.\nfunc   Bystander( )   int   {\n        return 1   // odd spacing stays\n}\n"
	}
	// a second package directory that is not processed
	pr.files["other/other.go"] = "package other\n\nfunc   Untouched( ) {}\n"
	pr.files["p/notes.txt"] = "not a go file\n"
	// files whose names are close to the generated file's: they are the user's as well
	for _, n := range []string{"derived.gen.go.old", "derived.gen.go.bak", "derived.gen.go~", ".derived.gen.go.swp", "derived.gen.go.orig"} {
		if rapid.IntRange(0, 2).Draw(t, "nearname") == 0 {
			pr.files["p/"+n] = "the user's own file " + n + "\n"
			if rapid.Bool().Draw(t, "nearname-generated") {
				// a copy of an earlier generated file that the user keeps for reference: it looks like goderive's
				// own output, it still is the user's file
				pr.files["p/"+n] = "// Code generated by goderive DO NOT EDIT.\n\npackage p\n\n// kept for reference\nfunc deriveKeptForReference(a, b int) bool {\n\treturn a == b\n}\n"
			}
		}
	}
	pr.files["other/gram.y"] = "%% a grammar that some generator turned into a .go file\n"
	// clash analysis
	byName := map[string]map[string]bool{}
	byType := map[string]map[string]bool{}
	for _, c := range calls {
		if byName[c.name] == nil {
			byName[c.name] = map[string]bool{}
		}
		byName[c.name][c.typ] = true
		if byType[c.typ] == nil {
			byType[c.typ] = map[string]bool{}
		}
		byType[c.typ][c.name] = true
	}
	conflict, duplicate := false, false
	for _, ts := range byName {
		if len(ts) > 1 {
			conflict = true
		}
	}
	for _, ns := range byType {
		if len(ns) > 1 {
			duplicate = true
		}
	}
	switch rapid.IntRange(0, 3).Draw(t, "flags") {
	case 1:
		pr.flags = []string{"-autoname"}
	case 2:
		pr.flags = []string{"-dedup"}
	case 3:
		pr.flags = []string{"-autoname", "-dedup"}
	}
	pr.renamesExpected = (conflict || duplicate) && len(pr.flags) > 0
	// outcome perturbations
	switch rapid.IntRange(0, 7).Draw(t, "outcome") {
	case 0:
		pr.outcome = "generator-error"
		pr.files["p/zbad.go"] = "package p\n\nfunc zbad(x, y chan int) bool {\n\treturn derive" + plugin + "Chan(x, y)\n}\n"
		if plugin == "Hash" || plugin == "Clone" {
			pr.files["p/zbad.go"] = "package p\n\nfunc zbad(x chan int) {\n\tderive" + plugin + "Chan(x)\n}\n"
		}
	case 1:
		pr.outcome = "load-error"
		if rapid.Bool().Draw(t, "syntax-error-in-call-file") {
			// the syntax error sits in a file that also holds derive calls (after them): whatever happens to
			// the calls, a file that does not parse cannot be reprinted from its syntax tree
			k := fmt.Sprintf("p/f%d.go", rapid.IntRange(0, nfiles-1).Draw(t, "syntax-file"))
			// several kinds of syntax error: the parser marks some with a Bad node in its partial tree and silently
			// drops tokens for others ("expected ';', found extra" skips to the next statement)
			kinds := []string{
				"\nfunc zsyntaxIn( {\n}\n",
				"\nfunc zmissingOp(total, extra int) int {\n\tsum := total extra\n\tprintln(\"sum\", sum)\n\treturn sum\n}\n",
				"\nfunc ztwoCalls() int {\n\tx := len(\"a\") len(\"b\")\n\tprintln(x)\n\treturn x\n}\n",
				"\nfunc zbadExpr() int {\n\treturn 1 +\n}\n",
				"\nfunc zstray() {\n}\n}\n",
				"\nfunc zkeyword() {\n\tvar func = 1\n\t_ = 2\n}\n",
				"\nvar zlit = []int{1, 2 3}\n",
			}
			ki := rapid.IntRange(0, len(kinds)-1).Draw(t, "syntax-kind")
			pr.files[k] += kinds[ki] + "\n// After is kept.\nfunc After() int { return 1 }\n"
			pr.desc = append(pr.desc, fmt.Sprintf("syntax-error-%d-in-%s", ki, k))
		} else {
			pr.files["p/zsyntax.go"] = "package p\n\nfunc zsyntax( {\n"
		}
	default:
		pr.outcome = "normal"
	}
	if rapid.IntRange(0, 3).Draw(t, "dirless") == 0 {
		// a second named package that has no file of its own (an external test only), and a derived.gen.go in the
		// working directory that belongs to neither package
		pr.files["xt/x_test.go"] = "package xt_test\n\nimport \"testing\"\n\nfunc TestX(t *testing.T) {}\n"
		pr.files["derived.gen.go"] = "// Code generated by goderive DO NOT EDIT.\n\npackage subj\n\nfunc deriveKept() {}\n"
		pr.patterns = []string{"./p", "./xt"}
		pr.desc = append(pr.desc, "dirless-package:./xt")
	}
	if rapid.IntRange(0, 3).Draw(t, "symlinked") == 0 {
		// one of the user's files is a symbolic link (the file itself is kept elsewhere): whatever is written to it
		// has to arrive in the file it points to, and it has to stay a link
		pr.links = []string{fmt.Sprintf("p/f%d.go", rapid.IntRange(0, nfiles-1).Draw(t, "symlink-file"))}
		pr.desc = append(pr.desc, "symlink:"+pr.links[0])
	}
	return pr
}

// deriveIdents lists the identifiers of calls whose callee starts with "derive", in source order, with byte offsets.
type identPos struct {
	name string
	off  int
}

func deriveIdents(src []byte) ([]identPos, error) {
	fset := token.NewFileSet()
	f, err := parser.ParseFile(fset, "x.go", src, parser.ParseComments)
	if err != nil {
		return nil, err
	}
	var out []identPos
	ast.Inspect(f, func(n ast.Node) bool {
		if ce, ok := n.(*ast.CallExpr); ok {
			if id, ok := ce.Fun.(*ast.Ident); ok && strings.HasPrefix(id.Name, "derive") {
				out = append(out, identPos{id.Name, fset.Position(id.Pos()).Offset})
			}
		}
		return true
	})
	sort.Slice(out, func(i, j int) bool { return out[i].off < out[j].off })
	return out, nil
}

// expectedRewrite substitutes the renamed identifiers by position in the original text and gofmt-formats it.
func expectedRewrite(orig, now []byte) ([]byte, int, error) {
	oi, err := deriveIdents(orig)
	if err != nil {
		return nil, 0, fmt.Errorf("original does not parse: %v", err)
	}
	ni, err := deriveIdents(now)
	if err != nil {
		return nil, 0, fmt.Errorf("rewritten file does not parse: %v", err)
	}
	if len(oi) != len(ni) {
		return nil, 0, fmt.Errorf("rewritten file has %d derive calls, original %d", len(ni), len(oi))
	}
	var buf bytes.Buffer
	last, renamed := 0, 0
	for i, o := range oi {
		buf.Write(orig[last:o.off])
		buf.WriteString(ni[i].name)
		if ni[i].name != o.name {
			renamed++
		}
		last = o.off + len(o.name)
	}
	buf.Write(orig[last:])
	exp, err := format.Source(buf.Bytes())
	return exp, renamed, err
}

func judge(c *pkit.Ctx, pr *program) (map[string]string, string, bool) {
	dir := c.CaseDir()
	defer os.RemoveAll(dir)
	if err := gorun.WriteFiles(dir, pr.files); err != nil {
		return map[string]string{"check": "infra"}, err.Error(), false
	}
	linked := map[string]string{} // path under _shared/ -> the link in p/
	for _, l := range pr.links {
		target := filepath.Join("_shared", filepath.Base(l))
		os.MkdirAll(filepath.Join(dir, "_shared"), 0o755)
		if err := os.Rename(filepath.Join(dir, l), filepath.Join(dir, target)); err != nil {
			return map[string]string{"check": "infra"}, err.Error(), false
		}
		if err := os.Symlink(filepath.Join("..", target), filepath.Join(dir, l)); err != nil {
			return map[string]string{"check": "infra"}, err.Error(), false
		}
		linked[target] = l
	}
	before, _ := gorun.Snapshot(dir)
	pats := pr.patterns
	if len(pats) == 0 {
		pats = []string{"./p"}
	}
	res := gorun.RunGoderive(dir, append(append([]string{}, pr.flags...), pats...)...)
	if res.Err != nil || res.TimedOut {
		return map[string]string{"check": "infra"}, "goderive did not run", false
	}
	after, _ := gorun.Snapshot(dir)
	diffs := gorun.DiffSnapshots(before, after)
	flagged := len(pr.flags) > 0
	sig := map[string]string{"flags": strings.Join(pr.flags, " "), "outcome": pr.outcome}
	nt := false
	for _, d := range diffs {
		path := d[1:]
		if path == "p/"+gorun.DerivedFile {
			continue
		}
		if strings.HasSuffix(path, "/") && d[0] == '~' {
			continue // directory mtime/mode noise is not part of the snapshot; kept for safety
		}
		if l, ok := linked[path]; ok && flagged && d[0] == '~' && after[path].Sum == after[l].Sum {
			continue // the file a link of p points to: judged through the link
		}
		if d[0] == '~' && before[path].Mode.Type() != after[path].Mode.Type() {
			sig["check"] = "file-type-changed"
			return sig, fmt.Sprintf("goderive %v turned %s from %v into %v\nall changes: %v", pr.flags, path, before[path].Mode.Type(), after[path].Mode.Type(), diffs), nt
		}
		if !flagged || d[0] != '~' || !strings.HasSuffix(path, ".go") || !strings.HasPrefix(path, "p/") {
			sig["check"] = "foreign-file-touched"
			return sig, fmt.Sprintf("goderive %v (exit %d) changed %s, which is not derived.gen.go of the processed package\nall changes: %v", pr.flags, res.Exit, d, diffs), nt
		}
		// a user file was rewritten under -autoname/-dedup
		now, _ := os.ReadFile(filepath.Join(dir, path))
		orig := []byte(pr.files[path])
		exp, renamed, err := expectedRewrite(orig, now)
		if err != nil {
			sig["check"] = "rewrite-malformed"
			return sig, fmt.Sprintf("rewritten %s: %v\n--- original\n%s\n--- rewritten\n%s", path, err, orig, now), nt
		}
		if renamed == 0 && bytes.Equal(exp, now) && renamedForthAndBack(res.Stderr, string(orig)) {
			// A call of this file was renamed in one generation pass and renamed back in a later one (the
			// name kept under -dedup is the first one registered, and a nested call that can only be typed
			// after a reload registers before the calls resolved to the previous pass's output). The file
			// did contain a renamed call and is exactly gofmt(original): the statement does not exclude it.
			c.Rep.Class("renamed-forth-and-back")
			continue
		}
		if renamed == 0 {
			sig["check"] = "rewrote-file-without-renamed-call"
			return sig, fmt.Sprintf("%s contains no renamed derive call but was rewritten\n--- original\n%s\n--- now\n%s", path, orig, now), nt
		}
		nt = true
		if !bytes.Equal(exp, now) {
			sig["check"] = "rewrite-differs"
			kind := "other"
			if bytes.HasPrefix(now, exp) {
				kind = "stale-tail"
			}
			sig["kind"] = kind
			return sig, fmt.Sprintf("%s is not gofmt(original with the renamed identifiers substituted) [%s]\n--- expected\n%s\n--- actual\n%s", path, kind, exp, now), nt
		}
	}
	if flagged && res.Exit == 0 && pr.outcome == "normal" && len(pats) == 1 && reRenameLog.MatchString(res.Stderr) {
		// calls were renamed: every file that contains one of them has been rewritten with the new identifier, so
		// the calls of the user's files and the generated functions fit together. A file that was left as it was
		// although one of its calls was renamed shows as a call that does not fit the function of that name.
		if cr, err := gorun.TypeCheck(dir, true, pats...); err == nil && len(cr.Errors) > 0 {
			sig["check"] = "renamed-call-not-substituted"
			return sig, fmt.Sprintf("goderive %v exited 0 and reports renamed calls, but the user's files do not fit the generated functions:\n%s\n--- log\n%s",
				pr.flags, pkit.Trunc(strings.Join(cr.Errors, "\n"), 800), pkit.Trunc(res.Stderr, 600)), true
		}
	}
	return nil, "", nt
}

var reRenameLog = regexp.MustCompile(`changing function call name from (\w+) to (\w+)`)

// renamedForthAndBack reports whether goderive's log shows a rename X -> Y and a rename Y -> X for a
// name X that the source calls.
func renamedForthAndBack(log, src string) bool {
	type pair struct{ from, to string }
	seen := map[pair]bool{}
	for _, m := range reRenameLog.FindAllStringSubmatch(log, -1) {
		seen[pair{m[1], m[2]}] = true
	}
	for p := range seen {
		if seen[pair{p.to, p.from}] && regexp.MustCompile(`\b`+regexp.QuoteMeta(p.from)+`\b`).MatchString(src) {
			return true
		}
	}
	return false
}

func TestProp(t *testing.T) {
	c := pkit.Load(prop)
	c.Check(t, func(rt *rapid.T) {
		pr := drawProgram(rt)
		c.Rep.Eval()
		c.Rep.Class("flags:" + strings.Join(pr.flags, "+"))
		c.Rep.Class("outcome:" + pr.outcome)
		sig, msg, nt := judge(c, pr)
		if sig != nil && sig["check"] == "infra" {
			c.Rep.Inconcl("%s", msg)
			return
		}
		if nt {
			c.Rep.NT(strings.Join(pr.flags, " ") + "|" + strings.Join(pr.desc, ";") + pr.files["p/f0.go"])
			c.Rep.Class("renamed-in-place")
		} else if pr.outcome != "normal" {
			c.Rep.NT("outcome|" + pr.outcome + "|" + strings.Join(pr.flags, " ") + "|" + strings.Join(pr.desc, ";"))
		}
		c.Rep.Sample(map[string]any{"flags": pr.flags, "outcome": pr.outcome, "calls": pr.desc})
		if sig != nil {
			c.Fail(rt, sig, msg, pr.files, map[string]any{"flags": pr.flags, "links": pr.links, "patterns": pr.patterns})
		}
	})
}

func TestProbes(t *testing.T) { pkit.Load(prop).RunProbes(t, nil) }

func TestReplay(t *testing.T) {
	dir := pkit.ReplayDir()
	if dir == "" {
		t.Skip("no replay dir")
	}
	meta, files, err := pkit.ReadReplay(dir)
	if err != nil {
		t.Fatal(err)
	}
	pr := &program{files: files}
	if fl, ok := meta["flags"].([]any); ok {
		for _, f := range fl {
			pr.flags = append(pr.flags, fmt.Sprint(f))
		}
	}
	if ps, ok := meta["patterns"].([]any); ok {
		for _, x := range ps {
			pr.patterns = append(pr.patterns, fmt.Sprint(x))
		}
	}
	if ls, ok := meta["links"].([]any); ok {
		for _, l := range ls {
			pr.links = append(pr.links, fmt.Sprint(l))
		}
	}
	if sig, msg, _ := judge(pkit.Load(prop), pr); sig != nil {
		t.Fatalf("still fails: %v\n%s", sig, msg)
	}
}
