package c08

import (
	"fmt"
	"os"
	"path/filepath"
	"sort"
	"strings"
	"testing"

	"pgregory.net/rapid"

	"verif/internal/gorun"
	"verif/internal/pkit"
	"verif/internal/progen"
)

const prop = "C08"

type pkgProg struct {
	files   map[string]string
	ties    int
	plugins map[string]bool
	calls   []string
}

func pick[T any](t *rapid.T, label string, xs []T) T {
	return xs[rapid.IntRange(0, len(xs)-1).Draw(t, label)]
}

// drawProgram draws a module with packages p (tie-rich) and q (imports p).
func drawProgram(t *rapid.T) *pkgProg {
	env := progen.DrawEnv(t, progen.EnvOpt{MaxStructs: 3})
	p := progen.NewProg(env)
	out := &pkgProg{plugins: map[string]bool{}}
	used := progen.Used{}
	// tie families: NA, NB named over the same unnamed type U, all three used as fields of one struct
	nfam := rapid.IntRange(1, 3).Draw(t, "nfam")
	var tieFields []progen.Field
	for i := 0; i < nfam; i++ {
		var u *progen.Type
		leaf := progen.B(pick(t, "tieleaf", []string{"int", "string", "float64", "byte", "bool"}))
		switch rapid.IntRange(0, 3).Draw(t, "tiekind") {
		case 0:
			u = progen.SliceOf(leaf)
		case 1:
			u = progen.MapOf(progen.B(pick(t, "tiekey", []string{"string", "int", "uint8"})), leaf)
		case 2:
			u = progen.PtrTo(leaf)
		default:
			u = progen.SliceOf(progen.SliceOf(leaf))
		}
		nnamed := rapid.IntRange(1, 3).Draw(t, "nnamed")
		var members []*progen.Type
		for j := 0; j < nnamed; j++ {
			d := &progen.Decl{Name: fmt.Sprintf("Tie%d%c", i, 'A'+j), Under: u}
			env.NamedComp = append(env.NamedComp, d)
			members = append(members, progen.NamedT(d))
		}
		// user calls on the named members under names of different lengths: the helper for the unnamed type
		// (a field of TieS without a call of its own) is then chosen among them, and "shortest" and
		// "alphabetically first" disagree for some of these names
		if nnamed >= 2 && rapid.Bool().Draw(t, "tienamedcalls") {
			sfxs := rapid.Permutation([]string{"Z", "Ab", "IDs", "Counts", "B", "Aa1", "Yy"}).Draw(t, "tiesfx")
			kind := pick(t, "tienamedkind", []string{"equal", "compare", "hash"})
			for j, m := range members {
				sfx := fmt.Sprintf("%s%d", sfxs[j], i)
				var c *progen.Call
				switch kind {
				case "equal":
					c = progen.Equal(p.T(m), sfx)
				case "compare":
					c = progen.Compare(p.T(m), sfx)
				default:
					c = progen.Hash(p.T(m), sfx)
				}
				p.Add("%s", c.Render(progen.FormBody, fmt.Sprintf("WN%d_%d", i, j)))
				out.plugins[kind] = true
				out.calls = append(out.calls, kind+":"+m.Str(p.Q())+" as "+sfx)
				used.Claim(kind + "|" + progen.AssignKey(m))
			}
		}
		members = append(members, u)
		// random order of the members as fields
		perm := rapid.Permutation(members).Draw(t, "tieorder")
		for j, m := range perm {
			tieFields = append(tieFields, progen.Field{Name: fmt.Sprintf("T%d_%d", i, j), Type: m})
		}
		out.ties += len(members) - 1
	}
	tie := &progen.Decl{Name: "TieS", IsStruct: true, Fields: tieFields}
	env.Structs = append(env.Structs, tie)
	tt := progen.PtrTo(progen.NamedT(tie))
	for i, k := range []string{"hash", "equal", "compare", "clone", "gostring", "deepcopy"} {
		if rapid.IntRange(0, 3).Draw(t, "tiecall") == 0 {
			continue
		}
		var c *progen.Call
		sfx := fmt.Sprintf("Tie%d", i)
		switch k {
		case "hash":
			c = progen.Hash(p.T(tt), sfx)
		case "equal":
			c = progen.Equal(p.T(tt), sfx)
		case "compare":
			c = progen.Compare(p.T(tt), sfx)
		case "clone":
			c = progen.Clone(p.T(tt), sfx)
		case "gostring":
			c = progen.GoString(p.T(tt), sfx)
		default:
			c = progen.DeepCopy(p.T(tt), sfx)
		}
		p.Add("%s", c.Render(progen.FormBody, "W"+sfx))
		out.plugins[k] = true
		out.calls = append(out.calls, k+":*TieS")
		used.Claim(k + "|*TieS")
	}
	n := rapid.IntRange(2, 12).Draw(t, "ncalls")
	kinds := append(append([]string{}, progen.StructuralPlugins...), progen.ListPlugins...)
	for i := 0; i < n; i++ {
		dc := progen.DrawStructuralCall(t, env, p, used, fmt.Sprintf("T%d", i), kinds, p.T)
		if dc == nil {
			continue
		}
		p.Add("%s", dc.Call.Render(progen.FormBody, fmt.Sprintf("W%d", i)))
		out.plugins[dc.Kind] = true
		out.calls = append(out.calls, dc.Kind+":"+dc.Type.Str(p.Q()))
	}
	// p and q derive over the same function type and the same unnamed struct type, which mention a type of p: each
	// package has to spell them from where it stands, whatever the other package of the invocation printed before
	shared := rapid.Bool().Draw(t, "shared-shapes")
	if shared {
		p.Add("func MemShared(f func(*TieS, int) int) func(*TieS, int) int {\n\treturn deriveMemShared(f)\n}\n")
		p.Add("func EqShared(a, b struct {\n\tA *TieS\n\tB int\n}) bool {\n\treturn deriveEqualShared(a, b)\n}\n")
		out.calls = append(out.calls, "mem:func(*TieS, int) int", "equal:struct{A *TieS; B int}")
	}
	// the calls of p sit in one to three files (which file is parsed first is up to the loader)
	p.SplitCalls = rapid.IntRange(1, 3).Draw(t, "callfiles")
	p.RenameSplit = p.SplitCalls > 1 && rapid.Bool().Draw(t, "renamesplit")
	files := p.Files()
	// package q imports p and has derive calls of its own over p's types
	var qs strings.Builder
	qs.WriteString("package q\n\nimport \"subj/p\"\n\n")
	qs.WriteString("func EqTie(a, b *p.TieS) bool {\n\treturn deriveEqual(a, b)\n}\n\n")
	qs.WriteString("func HashTie(a *p.TieS) uint64 {\n\treturn deriveHash(a)\n}\n\n")
	qs.WriteString("func SortInts(l []int) []int {\n\treturn deriveSort(l)\n}\n")
	if shared {
		qs.WriteString("\nfunc MemShared(f func(*p.TieS, int) int) func(*p.TieS, int) int {\n\treturn deriveMem(f)\n}\n")
		qs.WriteString("\nfunc EqShared(a, b struct {\n\tA *p.TieS\n\tB int\n}) bool {\n\treturn deriveEqualS(a, b)\n}\n")
	}
	files["q/q.go"] = qs.String()
	out.files = files
	return out
}

type variant struct {
	name string
	cwd  string
	args []string
}

var variants = []variant{
	{"rel-path", "", []string{"./p"}},
	{"dot-in-dir", "p", []string{"."}},
	{"pattern-all", "", []string{"./..."}},
	{"import-path", "", []string{"subj/p"}},
	{"p-then-q", "", []string{"./p", "./q"}},
	{"q-then-p", "", []string{"./q", "./p"}},
	{"import-paths-q-p", "", []string{"subj/q", "subj/p"}},
}

// staleFor generates the derived file of an earlier version of the package (its last call site removed):
// what a user's directory holds when a call has just been added.
func staleFor(c *pkit.Ctx, files map[string]string) string {
	src := files["p/calls.go"]
	i := strings.LastIndex(src, "\nfunc ")
	if i < 0 {
		return ""
	}
	old := map[string]string{}
	for k, v := range files {
		old[k] = v
	}
	old["p/calls.go"] = src[:i+1]
	dir := c.CaseDir()
	defer os.RemoveAll(dir)
	gorun.WriteFiles(dir, old)
	res := gorun.RunGoderive(dir, "./p")
	if res.Exit != 0 {
		return ""
	}
	b, err := os.ReadFile(filepath.Join(dir, "p", gorun.DerivedFile))
	if err != nil {
		return ""
	}
	return string(b)
}

func runOnce(c *pkit.Ctx, files map[string]string, v variant) (string, string, error) {
	dir := c.CaseDir()
	defer os.RemoveAll(dir)
	if err := gorun.WriteFiles(dir, files); err != nil {
		return "", "", err
	}
	res := gorun.RunGoderive(filepath.Join(dir, v.cwd), v.args...)
	if res.Err != nil || res.TimedOut {
		return "", "", fmt.Errorf("goderive did not run: %v", res.Err)
	}
	if res.Exit != 0 {
		return "", "", fmt.Errorf("EXIT %d: %s", res.Exit, pkit.FirstLines(res.Stderr, 3))
	}
	lastQ, lastQText = "", ""
	if qb, err := os.ReadFile(filepath.Join(dir, "q", gorun.DerivedFile)); err == nil {
		lastQ, lastQText = gorun.Sha(qb, 16), string(qb)
	}
	if v.name == "q-alone" {
		return lastQ, lastQText, nil
	}
	b, err := os.ReadFile(filepath.Join(dir, "p", gorun.DerivedFile))
	if err != nil {
		return "", "", fmt.Errorf("no derived file for p")
	}
	return gorun.Sha(b, 16), string(b), nil
}

// lastQ is the hash of q/derived.gen.go after the last run ("" when the run did not write it).
var lastQ, lastQText string

func firstDiffLine(a, b string) string {
	la, lb := strings.Split(a, "\n"), strings.Split(b, "\n")
	for i := 0; i < len(la) && i < len(lb); i++ {
		if la[i] != lb[i] {
			return fmt.Sprintf("line %d:\n  - %s\n  + %s", i+1, la[i], lb[i])
		}
	}
	return fmt.Sprintf("lengths differ: %d vs %d lines", len(la), len(lb))
}

func TestProp(t *testing.T) {
	c := pkit.Load(prop)
	repeats := 6
	if c.Thorough() {
		repeats = 25
	}
	c.Check(t, func(rt *rapid.T) {
		pr := drawProgram(rt)
		c.Rep.Eval()
		base, baseText, err := runOnce(c, pr.files, variants[0])
		if err != nil {
			if strings.HasPrefix(err.Error(), "EXIT") {
				c.Rep.Class("program-rejected")
				c.Rep.Note("program rejected (C01 matter): %v", err)
				return
			}
			c.Rep.Inconcl("%v", err)
			return
		}
		if pr.ties >= 2 || len(pr.plugins) >= 3 {
			c.Rep.NT(pr.files["p/calls.go"] + pr.files["p/types.go"])
		}
		c.Rep.Sample(map[string]any{"calls": pr.calls, "tie_members": pr.ties})
		hashes := map[string]int{base: 1}
		for i := 1; i < repeats; i++ {
			h, text, err := runOnce(c, pr.files, variants[0])
			c.Rep.AddExtra("goderive_runs", 1)
			if err != nil {
				c.Rep.Inconcl("repeat run: %v", err)
				return
			}
			hashes[h]++
			if h != base {
				var hs []string
				for k, n := range hashes {
					hs = append(hs, fmt.Sprintf("%s x%d", k, n))
				}
				sort.Strings(hs)
				c.Fail(rt, map[string]string{"check": "repeat-runs"},
					fmt.Sprintf("derived.gen.go differs between identical runs (run %d of %d): %v\nfirst difference at %s\ncalls: %v", i+1, repeats, hs, firstDiffLine(baseText, text), pr.calls),
					pr.files, map[string]any{"repeats": repeats})
				return
			}
		}
		// half of the invocation variants start from a directory that still holds the derived file of an
		// earlier version of the package
		stale := staleFor(c, pr.files)
		withStale := map[string]string{}
		for k, v := range pr.files {
			withStale[k] = v
		}
		if stale != "" {
			withStale["p/"+gorun.DerivedFile] = stale
		}
		// q on its own: what the same invocation has done for p before must not show in q's file
		qBase, qBaseText, qerr := runOnce(c, pr.files, variant{"q-alone", "", []string{"./q"}})
		c.Rep.AddExtra("goderive_runs", 1)
		if qerr != nil && !strings.HasPrefix(qerr.Error(), "EXIT") {
			c.Rep.Inconcl("q alone: %v", qerr)
			return
		}
		for vi, v := range variants[1:] {
			input := pr.files
			if stale != "" && vi%2 == int(c.Seed+int64(c.Shard))%2 {
				input = withStale
				v.name += "+stale-file"
				c.Rep.Class("variant-with-stale-derived-file")
			}
			h, text, err := runOnce(c, input, v)
			c.Rep.AddExtra("goderive_runs", 1)
			if err != nil {
				if strings.HasPrefix(err.Error(), "EXIT") {
					c.Fail(rt, map[string]string{"check": "variant-fails", "variant": v.name},
						fmt.Sprintf("goderive succeeds as %v but fails when invoked as %s %v: %v", variants[0].args, v.cwd, v.args, err), pr.files, nil)
					return
				}
				c.Rep.Inconcl("variant %s: %v", v.name, err)
				return
			}
			if qerr == nil && qBase != "" && lastQ != "" && lastQ != qBase {
				c.Fail(rt, map[string]string{"check": "invocation-context-q", "variant": v.name},
					fmt.Sprintf("derived.gen.go of package q (which imports p) depends on the invocation: [./q] vs (cwd %q) %v\nfirst difference at %s", v.cwd, v.args, firstDiffLine(qBaseText, lastQText)),
					pr.files, map[string]any{"variant": v.name})
				return
			}
			if h != base {
				c.Fail(rt, map[string]string{"check": "invocation-context", "variant": v.name},
					fmt.Sprintf("derived.gen.go of package p depends on the invocation: %v vs (cwd %q) %v\nfirst difference at %s", variants[0].args, v.cwd, v.args, firstDiffLine(baseText, text)),
					pr.files, map[string]any{"variant": v.name})
				return
			}
		}
		// a package that cannot be generated, named in the same invocation: the run fails, and what it leaves
		// behind (which derived files exist, their bytes, the exit code) is the same every time
		withBad := map[string]string{}
		for k, v := range pr.files {
			withBad[k] = v
		}
		bad := "package %s\n\nfunc u(a, b chan int) bool {\n\treturn deriveEqual(a, b)\n}\n"
		withBad["abad/bad.go"] = fmt.Sprintf(bad, "abad")
		withBad["zbad/bad.go"] = fmt.Sprintf(bad, "zbad")
		outcomes := map[string]int{}
		first := ""
		for i := 0; i < repeats; i++ {
			dir := c.CaseDir()
			gorun.WriteFiles(dir, withBad)
			res := gorun.RunGoderive(dir, "./...")
			c.Rep.AddExtra("goderive_runs", 1)
			if res.Err != nil || res.TimedOut {
				os.RemoveAll(dir)
				c.Rep.Inconcl("failing-neighbour run did not run")
				return
			}
			o := fmt.Sprintf("exit=%d", res.Exit)
			for _, pk := range []string{"p", "q", "abad", "zbad"} {
				b, err := os.ReadFile(filepath.Join(dir, pk, gorun.DerivedFile))
				if err != nil {
					o += " " + pk + ":absent"
				} else {
					o += " " + pk + ":" + gorun.Sha(b, 8)
				}
			}
			os.RemoveAll(dir)
			outcomes[o]++
			if first == "" {
				first = o
			}
			if o != first {
				c.Fail(rt, map[string]string{"check": "failing-run-outcome"},
					fmt.Sprintf("goderive ./... over p, q and two packages that cannot be generated leaves different files behind on identical runs:\n  %s\n  %s", first, o), withBad, nil)
				return
			}
		}
		c.Rep.Class("failing-neighbour-runs")
	})
}

func TestProbes(t *testing.T) { pkit.Load(prop).RunProbes(t, nil) }

func TestReplay(t *testing.T) {
	dir := pkit.ReplayDir()
	if dir == "" {
		t.Skip("no replay dir")
	}
	_, files, err := pkit.ReadReplay(dir)
	if err != nil {
		t.Fatal(err)
	}
	c := pkit.Load(prop)
	delete(files, "p/"+gorun.DerivedFile)
	seen := map[string]bool{}
	for i := 0; i < 40; i++ {
		h, _, err := runOnce(c, files, variants[0])
		if err != nil {
			t.Fatal(err)
		}
		seen[h] = true
	}
	for _, v := range variants[1:] {
		h, _, err := runOnce(c, files, v)
		if err != nil {
			t.Fatalf("variant %s: %v", v.name, err)
		}
		seen[h] = true
	}
	if len(seen) != 1 {
		t.Fatalf("still fails: %d different outputs", len(seen))
	}
	qseen := map[string]bool{}
	if h, _, err := runOnce(c, files, variant{"q-alone", "", []string{"./q"}}); err == nil && h != "" {
		qseen[h] = true
		for _, v := range variants[1:] {
			if _, _, err := runOnce(c, files, v); err == nil && lastQ != "" {
				qseen[lastQ] = true
			}
		}
		if len(qseen) != 1 {
			t.Fatalf("still fails: %d different outputs for q", len(qseen))
		}
	}
}
