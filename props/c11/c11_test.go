package c11

import (
	"fmt"
	"go/ast"
	"go/types"
	"os"
	"path/filepath"
	"sort"
	"strings"
	"testing"

	"pgregory.net/rapid"

	"verif/internal/gorun"
	"verif/internal/pkit"
)

const prop = "C11"

type call struct {
	name string // full derive function name
	typ  string // A, B, C, D
	file int
	late bool // the first argument is itself a derive call (deriveClone): the call can only be typed in the second generation pass
}

type plug struct {
	name, prefix string
}

var plugs = []plug{{"equal", "deriveEqual"}, {"hash", "deriveHash"}, {"keys", "deriveKeys"}}

var flagSets = [][]string{nil, {"-autoname"}, {"-dedup"}, {"-autoname", "-dedup"}}

const typesSrc = `package p

// A, B, C and D are pairwise non-assignable.
type A struct{ F int }

type B struct{ F string }

type C struct{ F []int }

type D struct{ F map[string]int }
`

// universe selects what the labels A, B, C, D stand for: 0 = four local structs; 1 = types that are spelled alike
// (model.T, model.T, model.U, model.U) in two imported packages of the same name; 2 = local structs whose names
// start with a multi-byte letter (minted names are cut out of the type's name); 3 = arities of one type; 4 = instantiations
// of generic types, by value.
var universe = 0

const typesSrcUnicode = "package p\n\ntype \u00c4 struct{ F int }\n\ntype \u00c4b struct{ F string }\n\ntype \u00d6 struct{ F []int }\n\ntype \u00d6b struct{ F map[string]int }\n"

func tn(label string) string {
	switch universe {
	case 1:
		return map[string]string{"A": "ma.T", "B": "mb.T", "C": "ma.U", "D": "mb.U"}[label]
	case 2:
		return map[string]string{"A": "\u00c4", "B": "\u00c4b", "C": "\u00d6", "D": "\u00d6b"}[label]
	case 4:
		return map[string]string{"A": "Box[int]", "B": "Box[string]", "C": "Pair[int, string]", "D": "Pair[string, int]"}[label]
	}
	return label
}

func render(pl plug, calls []call, reserve bool) map[string]string {
	files := map[string]string{"go.mod": "module subj\n\ngo 1.23\n", "p/types.go": typesSrc}
	switch universe {
	case 1:
		files["p/types.go"] = "package p\n"
		files["a/model/m.go"] = "package model\n\ntype T struct{ F int }\n\ntype U struct{ F []int }\n"
		files["b/model/m.go"] = "package model\n\ntype T struct{ F string }\n\ntype U struct{ F map[string]int }\n"
	case 2:
		files["p/types.go"] = typesSrcUnicode
	case 4:
		// instantiations of one generic type are different types that share their declaration
		files["p/types.go"] = "package p\n\ntype Box[T any] struct{ F T }\n\ntype Pair[K comparable, V any] struct {\n\tK K\n\tV V\n}\n"
	}
	nf := 0
	for _, c := range calls {
		if c.file+1 > nf {
			nf = c.file + 1
		}
	}
	srcs := make([]strings.Builder, nf)
	for i := range srcs {
		srcs[i].WriteString("package p\n\n")
	}
	for i, c := range calls {
		x := "x"
		if c.late {
			// one clone function per type: the same name for the same type is not a clash
			x = "deriveCloneOf" + c.typ + "(x)"
		}
		ptr := "*"
		if universe == 2 || universe == 4 {
			ptr = "" // by value: minted names are taken from the name of a named first argument
		}
		if universe == 3 && pl.name == "equal" {
			// arities: A and B stand for the two-argument and the curried one-argument form over *A, C and D for the
			// same over *B (one name used with a list of one and a list of two types is a conflict like any other)
			base := map[string]string{"A": "A", "B": "A", "C": "B", "D": "B"}[c.typ]
			if c.late {
				x = "deriveCloneOf" + base + "(x)"
			}
			if c.typ == "B" || c.typ == "D" {
				fmt.Fprintf(&srcs[c.file], "func f%d(x, y *%s) bool {\n\treturn %s(%s)(y)\n}\n\n", i, base, c.name, x)
			} else {
				fmt.Fprintf(&srcs[c.file], "func f%d(x, y *%s) bool {\n\treturn %s(%s, y)\n}\n\n", i, base, c.name, x)
			}
			continue
		}
		switch pl.name {
		case "equal":
			fmt.Fprintf(&srcs[c.file], "func f%d(x, y %s%s) bool {\n\treturn %s(%s, y)\n}\n\n", i, ptr, tn(c.typ), c.name, x)
		case "hash":
			fmt.Fprintf(&srcs[c.file], "func f%d(x %s%s) uint64 {\n\treturn %s(%s)\n}\n\n", i, ptr, tn(c.typ), c.name, x)
		case "keys":
			fmt.Fprintf(&srcs[c.file], "func f%d(x map[%s]int) []%s {\n\treturn %s(%s)\n}\n\n", i, c.typ2(), c.typ2(), c.name, x)
		}
	}
	for i := range srcs {
		src := srcs[i].String()
		if universe == 1 {
			imps := ""
			if strings.Contains(src, "ma.") {
				imps += "\tma \"subj/a/model\"\n"
			}
			if strings.Contains(src, "mb.") {
				imps += "\tmb \"subj/b/model\"\n"
			}
			if imps != "" {
				src = strings.Replace(src, "package p\n\n", "package p\n\nimport (\n"+imps+")\n\n", 1)
			}
		}
		files[fmt.Sprintf("p/f%d.go", i)] = src
	}
	if reserve {
		// a user function with the name the generator would mint first, and a call of it
		files["p/user.go"] = fmt.Sprintf("package p\n\nfunc %s_() int {\n\treturn 1\n}\n\nvar usesIt = %s_()\n", pl.prefix, pl.prefix)
		if pl.name == "hash" {
			// the hash of a map asks the keys and sort plugins for helpers although the package calls neither: the
			// names the user declared with their prefixes are taken all the same
			files["p/user.go"] += "\nfunc deriveKeys() int {\n\treturn 2\n}\n\nfunc deriveSort() int {\n\treturn 3\n}\n\nvar usesThem = deriveKeys() + deriveSort()\n"
		}
	}
	return files
}

// keys need comparable key types: use the struct types by value where possible
func (c call) typ2() string {
	switch c.typ {
	case "A":
		return tn("A")
	case "B":
		return tn("B")
	case "C":
		return "[2]" + tn("A")
	}
	return "[2]" + tn("B")
}

func analyse(calls []call) (conflict, duplicate bool) {
	byName := map[string]map[string]bool{}
	byType := map[string]map[string]bool{}
	for _, c := range calls {
		if byName[c.name] == nil {
			byName[c.name] = map[string]bool{}
		}
		byName[c.name][c.typ] = true
		if byType[c.typ] == nil {
			byType[c.typ] = map[string]bool{}
		}
		byType[c.typ][c.name] = true
	}
	for _, ts := range byName {
		if len(ts) > 1 {
			conflict = true
		}
	}
	for _, ns := range byType {
		if len(ns) > 1 {
			duplicate = true
		}
	}
	return
}

func descr(pl plug, calls []call, flags []string, reserve bool) string {
	var ss []string
	for _, c := range calls {
		l := ""
		if c.late {
			l = "[late]"
		}
		ss = append(ss, fmt.Sprintf("%s(%s)@f%d%s", c.name, c.typ, c.file, l))
	}
	r := ""
	if reserve {
		r = " +user " + pl.prefix + "_"
	}
	if universe == 3 && pl.name == "equal" {
		r += " [types: A=(*A, *A) B=(*A) curried C=(*B, *B) D=(*B) curried]"
	} else if universe != 0 && universe != 3 {
		r += fmt.Sprintf(" [types: A=%s B=%s C=%s D=%s]", tn("A"), tn("B"), tn("C"), tn("D"))
	}
	return fmt.Sprintf("%v %s%s", flags, strings.Join(ss, " "), r)
}

// judge runs goderive and applies the C11 oracle.
func judge(c *pkit.Ctx, pl plug, calls []call, flags []string, reserve bool) (map[string]string, string) {
	files := render(pl, calls, reserve)
	dir := c.CaseDir()
	defer os.RemoveAll(dir)
	if err := gorun.WriteFiles(dir, files); err != nil {
		return map[string]string{"check": "infra"}, err.Error()
	}
	res := gorun.RunGoderive(dir, append(append([]string{}, flags...), "./p")...)
	if res.Err != nil || res.TimedOut {
		return map[string]string{"check": "infra"}, "goderive did not run"
	}
	conflict, duplicate := analyse(calls)
	auto, dedup := false, false
	for _, f := range flags {
		if f == "-autoname" {
			auto = true
		}
		if f == "-dedup" {
			dedup = true
		}
	}
	sig := map[string]string{"plugin": pl.name, "flags": strings.Join(flags, " "), "conflict": fmt.Sprint(conflict), "duplicate": fmt.Sprint(duplicate)}
	d := descr(pl, calls, flags, reserve)
	if gorun.HasPanicTrace(res.Stderr) {
		sig["check"] = "panic"
		return sig, "goderive panicked on " + d + "\n" + pkit.Trunc(res.Stderr, 800)
	}
	failed := res.Exit != 0
	var mustFail, mustSucceed bool
	switch {
	case !auto && !dedup:
		mustFail = conflict || duplicate
		mustSucceed = !mustFail
	case auto && dedup:
		mustSucceed = true
	case auto:
		// the statement fixes the outcome under one flag only for packages whose clashes are all of the
		// kind the flag does not resolve, and for packages without any clash
		mustFail = duplicate && !conflict
		mustSucceed = !duplicate && !conflict
	case dedup:
		mustFail = conflict && !duplicate
		mustSucceed = !conflict && !duplicate
	}
	if mustFail && !failed {
		sig["check"] = "accepted-a-clash"
		return sig, "goderive exited 0 although the package has an unresolved clash: " + d
	}
	if mustSucceed && failed {
		sig["check"] = "rejected"
		return sig, fmt.Sprintf("goderive failed although every clash is resolvable with these flags: %s\n%s", d, pkit.Trunc(res.Stderr, 500))
	}
	if failed {
		return nil, ""
	}
	// soundness of a successful run
	cr, err := gorun.TypeCheck(dir, false, "./p")
	if err != nil {
		return map[string]string{"check": "infra"}, err.Error()
	}
	if len(cr.Errors) > 0 {
		sig["check"] = "ill-typed"
		return sig, fmt.Sprintf("successful run leaves a package that does not type-check: %s\n%s", d, pkit.Trunc(strings.Join(cr.Errors, "\n"), 800))
	}
	perSig := map[string][]string{}
	for _, p := range cr.Pkgs {
		for _, f := range p.Syntax {
			fname := filepath.Base(p.Fset.File(f.Pos()).Name())
			if fname == gorun.DerivedFile {
				for _, dcl := range f.Decls {
					fd, ok := dcl.(*ast.FuncDecl)
					if !ok || !strings.HasPrefix(fd.Name.Name, pl.prefix) {
						continue
					}
					obj := p.TypesInfo.Defs[fd.Name].(*types.Func)
					ps := obj.Type().(*types.Signature).Params().String()
					perSig[ps] = append(perSig[ps], fd.Name.Name)
				}
				continue
			}
			var bad string
			ast.Inspect(f, func(n ast.Node) bool {
				ce, ok := n.(*ast.CallExpr)
				if !ok {
					return true
				}
				id, ok := ce.Fun.(*ast.Ident)
				if !ok || !strings.HasPrefix(id.Name, pl.prefix) || id.Name == pl.prefix+"_" && reserve {
					return true
				}
				fn, ok := p.TypesInfo.Uses[id].(*types.Func)
				if !ok {
					bad = id.Name + " does not resolve to a function"
					return false
				}
				if filepath.Base(p.Fset.File(fn.Pos()).Name()) != gorun.DerivedFile {
					bad = id.Name + " resolves to a user function, not a generated one"
					return false
				}
				params := fn.Type().(*types.Signature).Params()
				if params.Len() != len(ce.Args) {
					bad = id.Name + ": arity differs"
					return false
				}
				for i, a := range ce.Args {
					if !types.Identical(params.At(i).Type(), p.TypesInfo.TypeOf(a)) {
						bad = fmt.Sprintf("%s: parameter %d has type %s, the call passes %s", id.Name, i, params.At(i).Type(), p.TypesInfo.TypeOf(a))
						return false
					}
				}
				return true
			})
			if bad != "" {
				sig["check"] = "call-site-mismatch"
				return sig, "after a successful run a call site does not invoke a function generated for exactly its argument types: " + bad + "\n" + d
			}
		}
	}
	if dedup {
		for ps, names := range perSig {
			if len(names) > 1 {
				sort.Strings(names)
				sig["check"] = "dedup-left-duplicates"
				return sig, fmt.Sprintf("after -dedup %s has %d generated functions for %s: %v\n%s", pl.name, len(names), ps, names, d)
			}
		}
	}
	return nil, ""
}

// rgs enumerates restricted growth strings of length k (set partitions of positions).
func rgs(k int) [][]int {
	var out [][]int
	var rec func(cur []int, max int)
	rec = func(cur []int, max int) {
		if len(cur) == k {
			out = append(out, append([]int{}, cur...))
			return
		}
		for v := 0; v <= max+1; v++ {
			m := max
			if v > m {
				m = v
			}
			rec(append(cur, v), m)
		}
	}
	rec(nil, -1)
	return out
}

func nameFor(pl plug, label int, bareFirst bool) string {
	sfx := []string{"", "A", "B", "Other"}
	if !bareFirst {
		sfx = []string{"A", "", "B", "Other"}
	}
	return pl.prefix + sfx[label]
}

var typeLabels = []string{"A", "B", "C", "D"}

func TestProp(t *testing.T) {
	c := pkit.Load(prop)
	maxK := 3
	if c.Thorough() {
		maxK = 4
	}
	idx := 0
	exhaustiveOK := true
	for k := 1; k <= maxK; k++ {
		for _, np := range rgs(k) {
			for _, tp := range rgs(k) {
				for _, bare := range []bool{true, false} {
					for split := 0; split < 2; split++ {
						if split == 1 && k < 2 {
							continue
						}
						for pi, pl := range plugs {
							if k == 4 && pi > 0 && !c.Thorough() {
								continue
							}
							for _, flags := range flagSets {
								for _, reserve := range []bool{false, true} {
									for lateMode := 0; lateMode < 3; lateMode++ {
										if reserve && (k > 3 || len(flags) == 0) {
											continue
										}
										// the last / the first call is typed only in the second generation pass
										if lateMode > 0 && (k > 3 || reserve || (lateMode == 2 && k < 2)) {
											continue
										}
										idx++
										if idx%c.NShards != c.Shard%c.NShards {
											continue
										}
										// each case runs in one of the three type universes, another one under another seed
										universe = int((int64(idx/c.NShards) + c.Seed) % 5)
										if universe < 0 {
											universe = 0
										}
										calls := make([]call, k)
										for i := range calls {
											calls[i] = call{name: nameFor(pl, np[i], bare), typ: typeLabels[tp[i]]}
											if split == 1 {
												calls[i].file = i % 2
											}
										}
										if lateMode == 1 {
											calls[k-1].late = true
										} else if lateMode == 2 {
											calls[0].late = true
										}
										c.Rep.Eval()
										conflict, duplicate := analyse(calls)
										if conflict || duplicate {
											c.Rep.NT(descr(pl, calls, flags, reserve))
										}
										if idx%97 == 0 {
											c.Rep.Sample(descr(pl, calls, flags, reserve))
										}
										sig, msg := judge(c, pl, calls, flags, reserve)
										if sig != nil && sig["check"] == "infra" {
											c.Rep.Inconcl("%s", msg)
											exhaustiveOK = false
											continue
										}
										if sig != nil {
											c.FailNow(sig, msg, render(pl, calls, reserve), metaOf(pl, calls, flags, reserve))
										}
									}
								}
							}
						}
					}
				}
			}
		}
	}
	if exhaustiveOK && c.Shard == 0 {
		c.Rep.AddExtra("exhaustive", 1)
		c.Rep.AddExtra("enumerated_cases_total", int64(idx))
	}
	// random larger packages with injected collisions
	c.Check(t, func(rt *rapid.T) {
		pl := plugs[rapid.IntRange(0, len(plugs)-1).Draw(rt, "plugin")]
		universe = rapid.IntRange(0, 4).Draw(rt, "universe")
		k := rapid.IntRange(4, 9).Draw(rt, "k")
		calls := make([]call, k)
		names := []string{"", "A", "B", "Other", "Fifth", "X"}
		for i := range calls {
			calls[i] = call{name: pl.prefix + names[rapid.IntRange(0, len(names)-1).Draw(rt, "name")], typ: typeLabels[rapid.IntRange(0, 3).Draw(rt, "type")], file: rapid.IntRange(0, 2).Draw(rt, "file"),
				late: rapid.IntRange(0, 3).Draw(rt, "late") == 0}
		}
		flags := flagSets[rapid.IntRange(0, 3).Draw(rt, "flags")]
		reserve := rapid.Bool().Draw(rt, "reserve") && len(flags) > 0
		c.Rep.Eval()
		conflict, duplicate := analyse(calls)
		if conflict || duplicate {
			c.Rep.NT(descr(pl, calls, flags, reserve))
		}
		sig, msg := judge(c, pl, calls, flags, reserve)
		if sig != nil && sig["check"] == "infra" {
			c.Rep.Inconcl("%s", msg)
			return
		}
		if sig != nil {
			c.Fail(rt, sig, msg, render(pl, calls, reserve), metaOf(pl, calls, flags, reserve))
		}
	})
}

func TestProbes(t *testing.T) { pkit.Load(prop).RunProbes(t, nil) }

func metaOf(pl plug, calls []call, flags []string, reserve bool) map[string]any {
	var cs []map[string]any
	for _, c := range calls {
		cs = append(cs, map[string]any{"name": c.name, "type": c.typ, "file": c.file, "late": c.late})
	}
	return map[string]any{"flags": flags, "plugin": pl.name, "calls": cs, "reserve": reserve, "universe": universe}
}

func TestReplay(t *testing.T) {
	dir := pkit.ReplayDir()
	if dir == "" {
		t.Skip("no replay dir")
	}
	meta, _, err := pkit.ReadReplay(dir)
	if err != nil {
		t.Fatal(err)
	}
	var pl plug
	for _, p := range plugs {
		if p.name == meta["plugin"] {
			pl = p
		}
	}
	var calls []call
	for _, x := range meta["calls"].([]any) {
		m := x.(map[string]any)
		late, _ := m["late"].(bool)
		calls = append(calls, call{name: m["name"].(string), typ: m["type"].(string), file: int(m["file"].(float64)), late: late})
	}
	var flags []string
	if fl, ok := meta["flags"].([]any); ok {
		for _, f := range fl {
			flags = append(flags, f.(string))
		}
	}
	reserve, _ := meta["reserve"].(bool)
	if u, ok := meta["universe"].(float64); ok {
		universe = int(u)
	}
	if sig, msg := judge(pkit.Load(prop), pl, calls, flags, reserve); sig != nil {
		t.Fatalf("still fails: %v\n%s", sig, msg)
	}
}
