package c20

import (
	"os"
	"path/filepath"
	"strconv"
	"strings"
	"testing"

	"pgregory.net/rapid"

	"verif/internal/e2"
	"verif/internal/pkit"
)

const prop = "C20"

func checks(c *pkit.Ctx) int {
	if v := os.Getenv("VERIF_INNER_CHECKS"); v != "" {
		n, _ := strconv.Atoi(v)
		return n
	}
	if c.Thorough() {
		return 20000
	}
	return 1500
}

func TestProp(t *testing.T) {
	c := pkit.Load(prop)
	c.Check(t, func(rt *rapid.T) {
		s := e2.ConcurrentSubject()
		procs := []string{"1", "2", "4", "16"}[rapid.IntRange(0, 3).Draw(rt, "gomaxprocs")]
		caselog := filepath.Join(c.Scratch, "caselog.txt")
		os.Remove(caselog)
		out := e2.RunCase(c, rt, s, e2.Options{Property: prop, Harness: "c20", Checks: checks(c), Go126: true, Race: true, Patterns: []string{"./p", "./p2"},
			Env: []string{"GOMAXPROCS=" + procs, "VERIF_CASELOG=" + caselog}, CrashIsViolation: true})
		_ = out
		_ = strings.TrimSpace
	})
}

func TestProbes(t *testing.T) { pkit.Load(prop).RunProbes(t, nil) }

func TestReplay(t *testing.T) {
	dir := pkit.ReplayDir()
	if dir == "" {
		t.Skip("no replay dir")
	}
	if ok, msg := e2.Replay(pkit.Load(prop), dir); !ok {
		t.Fatalf("still fails: %s", msg)
	}
}
