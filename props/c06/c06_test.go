package c06

import (
	"encoding/json"
	"fmt"
	"os"
	"path/filepath"
	"regexp"
	"sort"
	"strconv"
	"strings"
	"testing"
	"time"

	"pgregory.net/rapid"

	"verif/internal/e2"
	"verif/internal/gorun"
	"verif/internal/pkit"
	"verif/internal/progen"
)

const prop = "C06"

func checks(c *pkit.Ctx) int {
	if v := os.Getenv("VERIF_INNER_CHECKS"); v != "" {
		n, _ := strconv.Atoi(v)
		return n
	}
	if c.Thorough() {
		return 200
	}
	return 50
}

const stage2Main = `package main

import (
	"encoding/json"
	"fmt"
	"os"
	"reflect"

	"subj/s2"
	"subj/vref"
)

type res struct {
	Idx                          int
	Entry, Type, Want, Got, Snap string
	Panic                        string
}

func main() {
	var bad []res
	n := 0
	for _, c := range s2.Cases {
		n++
		func() {
			defer func() {
				if r := recover(); r != nil {
					bad = append(bad, res{Idx: c.Idx, Entry: c.Entry, Type: c.Type, Want: c.Want, Snap: c.Snap, Panic: fmt.Sprint(r)})
				}
			}()
			v := c.Fn()
			got := vref.Key(reflect.ValueOf(v))
			if got != c.Want {
				bad = append(bad, res{Idx: c.Idx, Entry: c.Entry, Type: c.Type, Want: c.Want, Got: got, Snap: c.Snap})
			}
		}()
	}
	json.NewEncoder(os.Stdout).Encode(map[string]any{"evaluated": n, "bad": bad})
}
`

var reErrLine = regexp.MustCompile(`s2/(cases\d+\.go):(\d+):\d+: (.*)`)
var reNum = regexp.MustCompile(`[0-9]+`)

type idx struct {
	i, lo, hi              int
	entry, typ, snap, file string
}

func readIndex(path string) []idx {
	b, _ := os.ReadFile(path)
	var out []idx
	for _, l := range strings.Split(string(b), "\n") {
		f := strings.SplitN(l, "\t", 7)
		if len(f) < 7 {
			continue
		}
		i, _ := strconv.Atoi(f[0])
		lo, _ := strconv.Atoi(f[1])
		hi, _ := strconv.Atoi(f[2])
		s, _ := strconv.Unquote(f[5])
		out = append(out, idx{i, lo, hi, f[3], f[4], s, f[6]})
	}
	return out
}

func errClass(msg string) string {
	msg = reNum.ReplaceAllString(msg, "N")
	msg = regexp.MustCompile(`v N|vN`).ReplaceAllString(msg, "v")
	return pkit.Trunc(msg, 140)
}

func TestProp(t *testing.T) {
	c := pkit.Load(prop)
	c.Check(t, func(rt *rapid.T) {
		var selfPrinting *progen.Decl
		s := e2.DrawStructural(rt, e2.StructOpt{
			Env:    progen.EnvOpt{ExportedOnly: true, NoPrivateExt: true, PtrKeys: true, Avoid: c.ActiveSet()},
			NTypes: 14, Carriers: true,
			Roles: []string{"gostring"},
			EnumFn: func(env *progen.Env) []*progen.Type {
				// every kind of struct key x basic and non-basic elements (the map printer has one branch per combination)
				var out []*progen.Type
				var keys []*progen.Type
				for _, d := range env.PtrKeyStructs {
					keys = append(keys, progen.NamedT(d))
				}
				if len(env.KeyStructs) > 0 {
					keys = append(keys, progen.NamedT(env.KeyStructs[0]))
				}
				if len(env.ExtKeys) > 0 {
					keys = append(keys, progen.NamedT(env.ExtKeys[0]))
				}
				keys = append(keys, progen.ArrayOf(2, progen.B("string")), progen.B("float64"))
				elems := []*progen.Type{progen.B("int"), progen.B("string"), progen.PtrTo(progen.B("int")), progen.SliceOf(progen.B("byte"))}
				if len(env.Structs) > 0 {
					elems = append(elems, progen.NamedT(env.Structs[len(env.Structs)-1]))
				}
				for i, k := range keys {
					out = append(out, progen.MapOf(k, elems[i%len(elems)]), progen.MapOf(k, elems[(i+1)%len(elems)]))
				}
				// pointers to named basic types as fields (the field printer has its own pointer-to-basic branch)
				var pf []*progen.Type
				for _, d := range append(append([]*progen.Decl{}, env.NamedBasic...), env.ExtBasic...) {
					if len(pf) < 4 {
						pf = append(pf, progen.PtrTo(progen.NamedT(d)))
					}
				}
				if len(pf) > 0 {
					pf = append(pf, progen.PtrTo(pf[0]))
					out = append(out, e2.Carrier(env, "WP", pf...))
				}
				// a struct of basic fields with padding, by pointer: whatever shortcut the printer takes for structs
				// without references, a blank field cannot be written in a composite literal
				pad := &progen.Decl{Name: "WPad", IsStruct: true, Fields: []progen.Field{{Name: "Version", Type: progen.B("uint8")},
					{Name: "_", Type: progen.ArrayOf(3, progen.B("byte"))}, {Name: "Length", Type: progen.B("uint32")}, {Name: "Name", Type: progen.B("string")}}}
				env.Structs = append(env.Structs, pad)
				out = append(out, progen.PtrTo(progen.NamedT(pad)), progen.SliceOf(progen.PtrTo(progen.NamedT(pad))))
				// the idiom of the documentation: a struct whose GoString method (pointer receiver) is the derived
				// function, held by value, by pointer and as an element elsewhere
				if len(env.Structs) > 0 && rapid.Bool().Draw(rt, "self-printing") {
					selfPrinting = env.Structs[rapid.IntRange(0, len(env.Structs)-1).Draw(rt, "self-printing-struct")]
					st := progen.NamedT(selfPrinting)
					out = append(out, progen.PtrTo(st), e2.Carrier(env, "WSelf", st, progen.B("int"), progen.PtrTo(st)), progen.SliceOf(st))
				}
				return out
			},
		})
		if selfPrinting != nil {
			for _, e := range s.Entries {
				if e.TypeStr == "*p."+selfPrinting.Name && e.Funcs["gostring"] != "" {
					s.Prog.Add("func (this *%s) GoString() string {\n\treturn %s(this)\n}\n", selfPrinting.Name, e.Funcs["gostring"])
					e.Tags["self-printing"] = "1"
				}
			}
		}
		var imports, anchors []string
		for _, x := range s.Prog.Env.Ext {
			imports = append(imports, x.ImportPath())
			anchors = append(anchors, x.Name+".Num")
		}
		var failSig map[string]string
		var failMsg string
		var out *e2.Outcome
		out = e2.RunCase(c, rt, s, e2.Options{Property: prop, Harness: "c06", Checks: checks(c),
			EnvFn: func(dir string) []string {
				return []string{"VERIF_STAGE2_DIR=" + filepath.Join(dir, "s2"), "VERIF_STAGE2_IMPORTS=" + strings.Join(imports, ","), "VERIF_STAGE2_ANCHORS=" + strings.Join(anchors, ",")}
			},
			Post: func(dir string, rerun func([]string) gorun.Result) {
				failSig, failMsg = stage2(c, dir)
			}})
		if failSig != nil {
			keep := map[string]string{}
			for k, v := range out.Files {
				if !strings.HasPrefix(k, "vref/") && !strings.HasPrefix(k, "vrep/") && k != "go.sum" {
					keep[k] = v
				}
			}
			c.Fail(rt, failSig, failMsg, keep, map[string]any{"harness": "c06", "harness_seed": strconv.FormatUint(out.Seed, 10), "checks": checks(c),
				"imports": strings.Join(imports, ","), "anchors": strings.Join(anchors, ",")})
		}
	})
}

func TestProbes(t *testing.T) { pkit.Load(prop).RunProbes(t, nil) }

func TestReplay(t *testing.T) {
	dir := pkit.ReplayDir()
	if dir == "" {
		t.Skip("no replay dir")
	}
	c := pkit.Load(prop)
	meta, _, err := pkit.ReadReplay(dir)
	if err != nil {
		t.Fatal(err)
	}
	imports, _ := meta["imports"].(string)
	anchors, _ := meta["anchors"].(string)
	ok, msg := e2.ReplayOpts(c, dir, func(d string) []string {
		return []string{"VERIF_STAGE2_DIR=" + filepath.Join(d, "s2"), "VERIF_STAGE2_IMPORTS=" + imports, "VERIF_STAGE2_ANCHORS=" + anchors}
	}, func(d string) (bool, string) {
		if sig, m := stage2(c, d); sig != nil {
			return false, fmt.Sprint(sig) + ": " + m
		}
		return true, ""
	})
	if !ok {
		t.Fatalf("still fails: %s", msg)
	}
}

// stage2 compiles and evaluates the expressions stage 1 wrote under dir/s2 and compares each value with
// the value it was printed from; it returns the signature and message of the first failing expression.
func stage2(c *pkit.Ctx, dir string) (failSig map[string]string, failMsg string) {
	os.MkdirAll(filepath.Join(dir, "s2main"), 0o755)
	os.WriteFile(filepath.Join(dir, "s2main", "main.go"), []byte(stage2Main), 0o644)
	index := readIndex(filepath.Join(dir, "s2", "index.tsv"))
	if len(index) == 0 {
		c.Rep.Inconcl("stage 1 produced no cases")
		return nil, ""
	}
	b := gorun.Go(dir, 10*time.Minute, "build", "-gcflags=-e", "-o", "s2.bin", "./s2main")
	if b.Exit != 0 {
		// map compile errors back to cases
		byCase := map[int]string{}
		pos := map[int]int{} // case number -> position in index
		for n, ix := range index {
			pos[ix.i] = n
		}
		for _, m := range reErrLine.FindAllStringSubmatch(b.Stderr, -1) {
			ln, _ := strconv.Atoi(m[2])
			for _, ix := range index {
				if ix.file == m[1] && ln >= ix.lo && ln <= ix.hi {
					if _, ok := byCase[ix.i]; !ok {
						byCase[ix.i] = m[3]
					}
				}
			}
		}
		if len(byCase) == 0 {
			c.Rep.Inconcl("stage 2 does not build for a reason outside the cases: %s", pkit.Trunc(b.Stderr, 800))
			return failSig, failMsg
		}
		var is []int
		for i := range byCase {
			is = append(is, i)
		}
		sort.Ints(is)
		ix := index[pos[is[0]]]
		c.Rep.AddExtra("expressions_not_compiling", int64(len(is)))
		failSig = map[string]string{"check": "compile", "class": errClass(byCase[is[0]])}
		failMsg = fmt.Sprintf("deriveGoString output does not compile for type %s, value %s:\n%s\n(%d of %d expressions fail to compile)", ix.typ, ix.snap, byCase[is[0]], len(is), len(index))
		return failSig, failMsg
	}
	r := gorun.Run(dir, 5*time.Minute, os.Environ(), filepath.Join(dir, "s2.bin"))
	var res struct {
		Evaluated int
		Bad       []struct {
			Idx                          int
			Entry, Type, Want, Got, Snap string
			Panic                        string
		}
	}
	if err := json.Unmarshal([]byte(r.Stdout), &res); err != nil {
		c.Rep.Inconcl("stage 2 output unreadable: %v %s", err, pkit.Trunc(r.Stdout+r.Stderr, 500))
		return failSig, failMsg
	}
	c.Rep.AddExtra("stage2_expressions_evaluated", int64(res.Evaluated))
	if len(res.Bad) > 0 {
		bd := res.Bad[0]
		if bd.Panic != "" {
			failSig = map[string]string{"check": "evaluation-panic"}
			failMsg = fmt.Sprintf("the expression for type %s, value %s panics when evaluated: %s", bd.Type, bd.Snap, bd.Panic)
		} else {
			failSig = map[string]string{"check": "round-trip"}
			failMsg = fmt.Sprintf("type %s: deriveGoString(x) evaluates to a different value\n x    = %s\n got  = %s\n(%d of %d expressions differ)", bd.Type, bd.Want, bd.Got, len(res.Bad), res.Evaluated)
		}
	}
	return failSig, failMsg
}
