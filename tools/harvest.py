#!/usr/bin/env python3
"""tools/harvest.py [ids...] -- turns replay directories of runs against broken trees (reverse-fix mutants, seeded
changes) into regression cases: every directory under replays/<id> is replayed against /repo; those on which the
property holds there (so: inputs that only a defect breaks) are grouped by violation signature and up to PER of
each signature that regress/<id> does not have yet are copied there (without observed output and library copies)."""
import json, os, shutil, subprocess, sys
PER = 1
CAP = 20  # new cases per property and harvest
COARSE = ("class", "position", "flags", "conflict", "duplicate", "mode", "order", "nested")
verif = os.path.dirname(os.path.dirname(os.path.abspath(__file__)))
ids = sys.argv[1:] or ['C%02d' % i for i in range(1, 21)]
env = dict(os.environ, GOFLAGS='-mod=mod', GOPROXY='off', GOSUMDB='off', GOTOOLCHAIN='local',
           GOCACHE=os.environ.get('VERIF_GOCACHE', '/var/tmp/verif-gocache'), VERIF_DIR=verif)
def sigkey(d):
    try:
        m = json.load(open(os.path.join(d, 'replay.json')))
    except Exception:
        return None
    sig = dict(m.get('signature', {}))
    for k in COARSE:
        if m.get('property') in ('C01', 'C06', 'C15') and k == 'class':
            continue  # the class is the root cause there
        sig.pop(k, None)
    return json.dumps(sig, sort_keys=True)
for id in ids:
    root = os.path.join(verif, 'replays', id)
    if not os.path.isdir(root):
        continue
    have = {}
    rdir = os.path.join(verif, 'regress', id)
    os.makedirs(rdir, exist_ok=True)
    for c in os.listdir(rdir):
        k = sigkey(os.path.join(rdir, c))
        if k:
            have[k] = have.get(k, 0) + 1
    out = subprocess.run([os.path.join(verif, 'bin', 'vdriver'), 'replayall', id, root], env=env, capture_output=True, text=True).stdout
    added = 0
    counts = {'pass': 0, 'fail': 0, 'inconclusive': 0}
    for line in out.splitlines():
        parts = line.split(' ', 1)
        if len(parts) != 2 or parts[0] not in counts:
            continue
        st, d = parts
        counts[st] += 1
        if st != 'pass':
            continue
        k = sigkey(d)
        if k is None or have.get(k, 0) >= PER or added >= CAP:
            continue
        have[k] = have.get(k, 0) + 1
        dst = os.path.join(rdir, os.path.basename(d))
        if os.path.exists(dst):
            continue
        shutil.copytree(d, dst, ignore=shutil.ignore_patterns('*.observed', 'vref', 'vrep', 'sched', 'go.sum', 's2', 's2main', '*.bin'))
        added += 1
    print(id, counts, 'added', added)
