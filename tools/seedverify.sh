#!/bin/sh
# tools/seedverify.sh <Cxx> [name]  -- confirms a sub-agent's seeded change and stores it under /verif/seeded/<name>
# 1. patch applies to a pristine copy of /repo and builds; 2. the repository test suite still passes;
# 3. the demonstration fails with the change and passes without it.
set -e
id=$1; name=${2:-$1}
src=${SEEDBASE:-/tmp/seed}/$id/SEED
[ -f "$src/patch.diff" ] || { echo "no patch for $id"; exit 2; }
d=$(mktemp -d /var/tmp/seedv-XXXXXX)
trap 'rm -rf "$d"' EXIT
rsync -a --exclude .git --exclude SEED /repo/ "$d/clean/"
rsync -a --exclude .git --exclude SEED /repo/ "$d/mut/"
(cd "$d/mut" && patch -s -p1 < "$src/patch.diff") || { echo "PATCH DOES NOT APPLY"; exit 1; }
(cd "$d/mut" && GOFLAGS=-mod=vendor go build -o "$d/gd" .) || { echo "DOES NOT BUILD"; exit 1; }
t=$(cd "$d/mut" && go test -mod=mod -vet=off -count=1 ./... 2>&1 | grep -v 'no test files' | grep -v GeneratedGoString | grep -c '^FAIL\|^--- FAIL' || true)
tc=$(cd "$d/clean" && go test -mod=mod -vet=off -count=1 ./... 2>&1 | grep -v 'no test files' | grep -v GeneratedGoString | grep -c '^FAIL\|^--- FAIL' || true)
echo "suite FAIL lines: mutated=$t clean=$tc"
[ "$t" = "$tc" ] || { echo "TEST SUITE CHANGED"; exit 1; }
set +e
bash "$src/demo/run.sh" "$d/clean" > "$d/clean.out" 2>&1; rc=$?
bash "$src/demo/run.sh" "$d/mut" > "$d/mut.out" 2>&1; rm=$?
set -e
echo "demo exit: clean=$rc mutated=$rm"
[ "$rc" = 0 ] && [ "$rm" != 0 ] || { echo "DEMO DOES NOT DISCRIMINATE"; tail -n 5 "$d/clean.out"; tail -n 5 "$d/mut.out"; exit 1; }
dst=/verif/seeded/$name
rm -rf "$dst"; mkdir -p "$dst"
cp "$src/patch.diff" "$dst/patch.diff"
rsync -a --exclude tmp "$src/demo" "$dst/"
python3 - "$src/meta.json" "$dst/meta.json" "$id" <<'PY'
import json,sys
try: m=json.load(open(sys.argv[1]))
except Exception: m={}
m['property']=sys.argv[3]
m['confirmed']={'builds':True,'suite_unchanged':True,'demo_clean_exit':0,'demo_mutated_exit':'non-zero','by':'tools/seedverify.sh on scratch copies of /repo'}
json.dump(m,open(sys.argv[2],'w'),indent=1)
PY
tail -3 "$d/mut.out"
echo "stored $dst"
