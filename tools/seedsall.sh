#!/bin/sh
# tools/seedsall.sh [glob] -- runs every stored sub-agent seed (or those matching seeded/<glob>) against its
# property's quick check (generated search only, regression replays off) and prints one line per seed:
# CAUGHT / MISSED / PATCH-FAILED
cd "$(dirname "$0")/.."
for d in seeded/${1:-*}/; do
  name=$(basename $d); prop=$(echo $name | cut -c1-3)
  out=$(VERIF_NO_REGRESS=1 tools/seedrun.sh $name $prop quick 2>&1)
  if echo "$out" | grep -q "^VIOLATION property=$prop"; then echo "CAUGHT $name $(echo "$out" | grep -a '  signature' | head -1 | cut -c1-140)";
  elif echo "$out" | grep -qi "patch\|does not apply\|FAILED"; then echo "PATCH-FAILED $name $(echo "$out" | tail -2 | tr '\n' ' ' | cut -c1-200)";
  else echo "MISSED $name $(echo "$out" | tail -1 | cut -c1-160)"; fi
done
