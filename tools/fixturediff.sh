#!/bin/sh
# tools/fixturediff.sh [repo] -- regenerates the derived.gen.go files of the repository's own fixtures (test/normal,
# example/...) with goderive built from the given tree (default /repo, working tree) on a scratch copy, with the
# flags of the fixture's Makefile. Every run must exit 0 and leave a derived.gen.go; the repository's tests of
# those packages must pass against the regenerated files. Differences to the committed files are listed (a repair
# may change generated code; it must not change it by accident). Run after every "fix:" commit.
repo=${1:-/repo}
d=$(mktemp -d /var/tmp/fixdiff-XXXXXX)
trap 'rm -rf "$d"' EXIT
rsync -a --exclude .git "$repo/" "$d/r/"
(cd "$d/r" && GOFLAGS=-mod=vendor go build -o "$d/goderive" .) || { echo "does not build"; exit 2; }
rc=0
cd "$d/r"
for f in $(find test/normal example -name derived.gen.go | sort); do
  pkg=$(dirname $f)
  mk=$pkg/Makefile; [ -f $mk ] || mk=$(dirname $pkg)/Makefile; [ -f $mk ] || mk=$(dirname $(dirname $pkg))/Makefile
  flags=$(grep -o 'goderive .*' $mk 2>/dev/null | head -1 | sed 's/^goderive//; s/ \.\/\.\.\.$//; s/"//g')
  cp "$f" "$d/before.go"
  out=$(GOFLAGS=-mod=vendor "$d/goderive" $flags "./$pkg" 2>&1) || { echo "FAIL goderive $flags ./$pkg: $out" | head -3; rc=1; continue; }
  if [ ! -f "$f" ]; then echo "GONE $f (goderive $flags ./$pkg)"; rc=1; continue; fi
  if ! cmp -s "$f" "$d/before.go"; then echo "DIFF goderive $flags ./$pkg: $(diff "$d/before.go" "$f" | grep -c '^[<>]') lines"; [ -n "$VERBOSE" ] && diff "$d/before.go" "$f"; fi
done
runtests() { go test -mod=mod -vet=off -count=1 ./test/normal/... ./example/... 2>&1 | grep -v "no test files" | grep -v "^ok"; }
out=$(runtests)
if [ -n "$out" ]; then out=$(runtests); fi  # the suite has timing sensitive tests: one more try on a busy machine
if [ -n "$out" ]; then echo "TESTS AGAINST REGENERATED FILES:"; echo "$out" | head -40; rc=1; fi
[ $rc = 0 ] && echo "fixtures regenerate, tests pass against the regenerated files"
exit $rc
