#!/bin/bash
# tools/mutants.sh [tier] -- runs every mutant in mutants/ against the check named by its file prefix (cNN_...)
tier=${1:-quick}
cd "$(dirname "$0")/.."
for m in mutants/*.diff; do
  id=$(basename "$m" | cut -c1-3 | tr c C)
  ( out=$(tools/mutant.sh "$m" "$id" "$tier" 2>&1); rc=$?
    sig=$(echo "$out" | grep -a -m1 "signature:" | cut -c1-150)
    echo "$(basename $m .diff) -> $id exit=$rc $sig" ) &
  # at most 3 at a time (each check already uses 16 processes)
  while [ "$(jobs -r | wc -l)" -ge 3 ]; do sleep 1; done
done
wait
