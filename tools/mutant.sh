#!/bin/sh
# tools/mutant.sh <patch.diff> <property> [tier]  -- runs a check against a scratch copy of /repo with the patch applied
set -e
patch=$(realpath "$1"); prop=$2; tier=${3:-quick}
d=$(mktemp -d /var/tmp/mut-XXXXXX)
trap 'rm -rf "$d"' EXIT
rsync -a --exclude .git /repo/ "$d/"
(cd "$d" && patch -s -p1 < "$patch")
cd "$(dirname "$0")/.."
VERIF_REPO="$d" ./vcheck "$prop" "$tier"
