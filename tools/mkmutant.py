#!/usr/bin/env python3
"""mkmutant.py <name> <repo-relative file> <old> <new> [count]  -- writes mutants/<name>.diff replacing the count-th (default 1st) occurrence"""
import sys, difflib
name, rel, old, new = sys.argv[1:5]
nth = int(sys.argv[5]) if len(sys.argv) > 5 else 1
src = open('/repo/' + rel).read()
idx = -1
for _ in range(nth):
    idx = src.index(old, idx + 1)
mut = src[:idx] + new + src[idx + len(old):]
d = difflib.unified_diff(src.splitlines(True), mut.splitlines(True), 'a/' + rel, 'b/' + rel)
open('/verif/mutants/' + name + '.diff', 'w').write(''.join(d))
print('wrote mutants/' + name + '.diff')
