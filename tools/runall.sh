#!/bin/sh
# tools/runall.sh [tier] [seed] -- runs every claimed check once, prints one line per check
tier=${1:-quick}; seed=${2:-1}
cd "$(dirname "$0")/.."
for id in $(python3 -c "import json;print(' '.join(c['property_id'] for c in json.load(open('MANIFEST.json'))['checks']))"); do
  VERIF_SEED=$seed ./vcheck $id $tier > ${TMPDIR:-/var/tmp}/runall-$tier-$id.log 2>&1; rc=$?
  echo "$id exit=$rc $(tail -1 ${TMPDIR:-/var/tmp}/runall-$tier-$id.log | cut -c1-160)"
  [ $rc = 0 ] || grep "^VIOLATION\|^INCONCL\|signature" ${TMPDIR:-/var/tmp}/runall-$tier-$id.log | head -5 | cut -c1-300
done
