#!/bin/sh
# tools/rebaseseed.sh <seed-name> -- a stored seed whose patch no longer applies to /repo (later fix: commits moved the
# code) is rebased: the newest commit of /repo on which the patch applies is found, the patch is committed there in a
# scratch worktree and cherry-picked onto HEAD (three-way merge). On success seeded/<name>/patch.diff is replaced and
# the old one kept as patch.orig.diff; on a conflict the worktree is left for manual resolution.
name=$1
p=/verif/seeded/$name/patch.diff
wt=/var/tmp/rebase-$name
git -C /repo worktree remove --force $wt 2>/dev/null
base=""
for c in $(git -C /repo rev-list HEAD); do
  if git -C /repo worktree add -q --detach $wt $c 2>/dev/null; then
    if (cd $wt && git apply --check $p 2>/dev/null); then base=$c; break; fi
    git -C /repo worktree remove --force $wt
  fi
done
[ -n "$base" ] || { echo "$name: applies to no commit"; exit 1; }
cd $wt && git apply $p && git add -A && git -c user.name=x -c user.email=x@x commit -qm "seed $name" || exit 1
sc=$(git rev-parse HEAD)
git checkout -q --detach $(git -C /repo rev-parse HEAD)
if git -c user.name=x -c user.email=x@x cherry-pick $sc >/dev/null 2>&1; then
  git diff HEAD~1 HEAD > /var/tmp/rebased-$name.diff
  if GOFLAGS=-mod=vendor go build -o /dev/null . 2>/dev/null; then
    [ -f /verif/seeded/$name/patch.orig.diff ] || cp $p /verif/seeded/$name/patch.orig.diff
    cp /var/tmp/rebased-$name.diff $p
    echo "$name: rebased from $(git -C /repo log --oneline -1 $base | cut -c1-60)"
    cd /; git -C /repo worktree remove --force $wt
  else
    echo "$name: rebased patch does not build; worktree left at $wt"
  fi
else
  echo "$name: CONFLICT (base $(echo $base | cut -c1-8)); worktree left at $wt"; git status --short | head -5
fi
