#!/bin/sh
# tools/seedrun.sh <seeded-name> <property> [tier] -- runs a check against /repo + the seeded patch (scratch copy)
name=$1; prop=$2; tier=${3:-quick}
exec "$(dirname "$0")/mutant.sh" /verif/seeded/$name/patch.diff "$prop" "$tier"
