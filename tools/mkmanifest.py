#!/usr/bin/env python3
"""Regenerates MANIFEST.json from the table below (claimed checks) and properties.jsonl (the rest -> not_applicable)."""
import json
props=[json.loads(l) for l in open('/verif/properties.jsonl')]
E1="E1-program-level"; E2="E2-value-level"; E3="E3-concurrency"
claimed={
 "C01":(E1,"Random search over generated packages (grammar of supported types x plugins x call-site forms) judged by go/types, gofmt and the compiler. Finds generator defects for type shapes the fixture never had; establishes nothing beyond the cases explored.","trusts go/types, gofmt, cmd/compile; supported set per plugin taken from plugin docs / Readme (DESIGN.md §4)","property-based testing (rapid): grammar-generated Go packages, type-checker/compiler oracle"),
 "C02":(E2,"Generated types x generated value pairs/triples against an independent reflection-based structural reference, plus equivalence laws, curried form and context agreement. Exploration only.","trusts the vref reference (self-tested in setup) and reflect/unsafe","property-based testing (rapid): differential against a reflection reference model + algebraic laws"),
 "C03":(E2,"Generated types x value pools: all pairs and triples checked for range, antisymmetry, transitivity, ==0 iff Equal, direction of single-position differences, curried form. Exploration only.","trusts the vref reference and mutation constructor (self-tested)","property-based testing (rapid): order laws + metamorphic single-mutation direction"),
 "C04":(E2,"Equal-by-construction pairs (rebuild, permuted maps, capacity, +-0) must hash alike; repeatability in-process and across two processes; argument snapshot unchanged. Exploration only.","trusts vref rebuild/rewrites (self-tested)","property-based testing (rapid): metamorphic equality-preserving rewrites, cross-process differential"),
 "C05":(E2,"Generated sources x independent prior destinations; result equality, source snapshot, allocation-set disjointness and write-independence (scribbling). Exploration only.","trusts vref Addrs/Scribble (self-tested); string bytes and zero-size objects not counted as shared","property-based testing (rapid): reference equality + aliasing invariants over generated heaps"),
 "C13":(E2,"Generated element types x lists/maps with duplicates; permutation, sortedness under derived Compare, exactly-once keys, membership and extremality of min/max. Exploration only.","trusts vref; order = derived Compare (judged by C03)","property-based testing (rapid): validity predicates (permutation, sortedness, extremality) over generated lists"),
 "C14":(E2,"Generated element types x lists with Equal-but-not-identical duplicates x logging predicates, against a list/set reference model under derived Equal. Exploration only.","trusts vref; derived Equal cross-checked with the structural reference per pair","property-based testing (rapid): reference list/set model + predicate call-log invariants"),
 "C17":(E2,"Scripted logging f over generated slices and strings (multi-byte, invalid UTF-8), slices of slices with nil/empty inner lists; compared with map over elements / []rune and concatenation. Exploration only.","trusts vref encoder","property-based testing (rapid): reference map/concat model with call logs"),
 "C15":(E2,"Generated signatures (arity, naming modes incl. unnamed / blank / f) x arguments through an instrumented f: one call, positions by identity, results unchanged, Uncurry(Curry(f)) = f, Tuple. Exploration only.","trusts reflect.MakeFunc stubs","property-based testing (rapid): instrumented-stub call-log oracle over generated signatures"),
 "C16":(E2,"Generated chains / error forms x failing position x result types: call log, error identity, zero values, pass-through. Exploration only.","trusts reflect.MakeFunc stubs","property-based testing (rapid): fault-position enumeration by generator + call-log / reference composition oracle"),
 "C18":(E2,"Generated signatures x call sequences (identical, Equal-not-identical, hash-colliding repeats) against a per-class result table and call counter. Exploration only.","f deterministic per canonical class by construction","property-based testing (rapid): model-based call sequences (memo table model)"),
 "C06":(E2,"Generated exported types x hostile values; deriveGoString texts assembled into a second program that must compile and evaluate to values with the same canonical structural encoding. Exploration only.","trusts cmd/compile and the vref encoder","property-based testing (rapid): round-trip through the Go compiler (two-stage)"),
 "C09":(E1,"Exhaustive sweep of a fault matrix (22 typed plugin forms x 5 unsupported constituents x 8 positions, 74 misuses, 17 broken user files) plus random faulty packages; judged on termination, exit status, absence of a panic trace, and well-typedness of anything produced with exit 0.","hang verdict uses a wall-clock bound (60 s, re-run 150 s; a run takes ~1 s); message wording is not judged","fault injection by generator (rapid) + exhaustive fault-matrix enumeration, clean-termination oracle"),
}
checks=[]
for pid,(eng,text,note,tech) in claimed.items():
    checks.append({"property_id":pid,"quick_cmd":f"./vcheck {pid} quick","thorough_cmd":f"./vcheck {pid} thorough",
      "evidence_file":f"/verif/evidence/{pid}.json","replay_cmd_template":"./vcheck replay {path}","engine":eng,
      "level_claimed":{"category":"exploration","text":text,"design_ref":f"DESIGN.md §6 {pid}"},"level_note":note,"technique":tech})
m={"version":1,"setup_cmd":"./setup.sh",
 "hooks":{"guard":"verif","enable":"no hooks are needed: every check observes goderive from outside (binary built from /repo's working tree, its files and the code it generates)","baseline_off_cmd":"cd /repo && go test -mod=mod -json -vet=off -count=1 -timeout 25m ./...","source_commits":[],"add_only":True},
 "engines":[
  {"name":E1,"path":"/verif/props","serves_properties":[p for p,v in claimed.items() if v[0]==E1],"kind_free_text":"rapid property whose case is a generated Go package (or history / configuration) run through the freshly built goderive binary"},
  {"name":E2,"path":"/verif/internal/e2 + /verif/harness","serves_properties":[p for p,v in claimed.items() if v[0]==E2],"kind_free_text":"generated subject package -> goderive -> harness test binary in the same scratch module drawing values by reflection (rapid) against the vref reference"},
  {"name":E3,"path":"/verif/harness","serves_properties":[p for p,v in claimed.items() if v[0]==E3],"kind_free_text":"generated concurrency helpers driven by rapid action scripts inside testing/synctest bubbles under the race detector, and by a model scheduler"}],
 "checks":checks,
 "notes":"Exit codes: 0 held, 1 VIOLATION, 2 inconclusive (infrastructure). Repairs of genuine defects are 'fix:' commits in /repo, listed in known_findings.json as fixed entries.",
 "not_applicable":[{"property_id":p['id'],"reason":"check under construction in this session (not yet claimed)"} for p in props if p['id'] not in claimed]}
json.dump(m,open('/verif/MANIFEST.json','w'),indent=1)
print("claimed",len(checks))
