#!/usr/bin/env python3
# tools/mkseedtasks.py <base-dir>: one scratch worktree of /repo and one TASK.md per property for a round of seeded changes
import sys
BASE=sys.argv[1]
import json,os,subprocess,glob,re
props={}
for l in open('/verif/properties.jsonl'):
    p=json.loads(l); props[p['id']]=p
for pid,p in props.items():
    d=f'{BASE}/{pid}'
    if not os.path.exists(d):
        subprocess.run(['git','-C','/repo','worktree','add','-q','--detach',d,'HEAD'],check=True)
    os.makedirs(d+'/SEED/demo',exist_ok=True)
    prev=[]
    for m in sorted(glob.glob(f'/verif/seeded/{pid}*/meta.json')):
        mm=json.load(open(m))
        prev.append('- '+mm.get('summary','')[:420].replace('\n',' '))
    task=open('/dev/null').read()
    task=f'''# Task: seed a realistic defect into goderive that breaks one stated property

You are working in `{d}`, a scratch git worktree of the Go project awalterschulze/goderive (a code generator that
finds undefined `derive*` calls via go/types and emits Equal, Compare, Hash, DeepCopy, GoString and functional helpers
into `derived.gen.go`). Work ONLY inside `{d}`. Never touch `/repo` or `/verif` (do not even read /verif).

## The property

**{pid} - {p['title']}**

{p['statement']}

Quantified over: {p['quantifier']['text']}

Code the property is anchored in: {', '.join(p['anchors']['files'])}

## What to produce

A change to goderive's own source (`derive/`, `plugin/`, `main.go`; not the tests, not vendor/, not committed
`derived.gen.go` fixtures) that

1. still compiles (`GOFLAGS=-mod=vendor go build -o SEED/tmp/goderive .` inside `{d}`),
2. leaves the existing test suite exactly as green as before
   (`go test -mod=mod -vet=off -count=1 ./... 2>&1 | grep -v 'no test files'`; the only failing package before and
   after is `test/gopaths/gopath2/src/package2 [setup failed]`; restore go.sum with `git checkout go.sum` if it gets touched),
3. breaks the property above - but only under a SPECIFIC condition, the kind of defect that survives code review and
   ordinary use: a particular shape of type or signature, a particular combination of flags, a multi-step history,
   a particular interleaving, an unusual but legal input, state that is carried from one call / type / package / pass to
   the next, or two cooperating sites that each look fine alone. Not something every use would expose at once. It should
   look like a plausible refactoring, optimisation, feature or simplification that a maintainer could have written, not like sabotage.
   The violating inputs must lie INSIDE what the property quantifies over (for example: no NaN where the property says
   NaN-free, no cyclic values where it says acyclic, supported types only where it says supported).

Earlier rounds already produced the following {len(prev)} changes for this property. Yours must use a DIFFERENT mechanism and
touch a different part of the statement or a different code path than all of them. Before you choose, list for yourself the
clauses of the statement, the plugins and helper functions in the anchored files, the type kinds (basic kinds, named
types, pointers, slices, arrays, maps, structs with embedded / unexported / blank fields, imported types, recursive
types, generic instantiations, aliases), the value shapes and the invocation shapes - and pick a combination that none of
these touches:

{chr(10).join(prev) if prev else '(none)'}

## Deliverables (all under `{d}/SEED/`)

- `SEED/patch.diff`: `git diff` of your change (only goderive source files; apply-able with `patch -p1` on a clean tree).
- `SEED/demo/run.sh <path-to-goderive-repo>`: a self-contained demonstration. It builds goderive from the given repo
  path (`cd "$1" && GOFLAGS=-mod=vendor go build -o <tmp>/goderive .`), runs it on a small example module you put under
  `SEED/demo/example/` (its own `go.mod` with `module example` and `go 1.23`, no dependencies outside the standard
  library; copy it to a temp dir before running goderive on it), and checks the property on it. It must exit 0 on the
  unchanged tree and non-zero on the changed tree, printing what went wrong. Use
  `export GOFLAGS=-mod=mod GOPROXY=off GOTOOLCHAIN=local` for building/running the example module (there is no network),
  but build goderive itself with `env -u GOTOOLCHAIN GOFLAGS=-mod=vendor go build`.
  goderive is invoked like `goderive ./p` from the module root.
- `SEED/meta.json`: {{"summary": what you changed and why it looks innocent, "needs": the exact condition needed for
  the property to break, "files": [...], "verified": the commands you ran and what they printed with and without the
  change, "preexisting": [ {{"input":..., "observed":..., "expected":...}} ... ] }} where "preexisting" lists any
  behaviour of the UNCHANGED tree you noticed that already violates the property (you have to steer around those in
  your demo; they are valuable, list them precisely with a minimal input).

## Procedure

1. Read the anchored code. Understand how the property is established.
2. Make the change. Build. Run the test suite (it takes about a minute; if a test fails that has nothing to do with your
   change, run it again: the machine is busy and a few tests are timing sensitive). Write and run the demo against the
   changed tree (must fail) and against a clean checkout (`git stash` / `git diff > SEED/patch.diff && git checkout -- derive plugin main.go`,
   must pass), then re-apply your patch so the worktree ends with the change applied.
3. Write the deliverables. Keep build output under `SEED/tmp/` only. Your final message: one paragraph on the change and
   the condition, plus the verification you did. Keep command output out of your final message.

Environment notes: no network. `go` on PATH works inside the worktree (the repo's go.mod selects a cached go1.24 toolchain
automatically - do not set GOTOOLCHAIN=local when building goderive itself). The machine is shared: do not run more than
2 heavy commands at once. Shell start-up may print warnings about conda configuration: ignore them, do not try to repair them.
'''
    open(d+'/TASK.md','w').write(task)
print('ok')
