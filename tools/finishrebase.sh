#!/bin/sh
# tools/finishrebase.sh <seed-name> -- after a manual conflict resolution in /var/tmp/rebase-<name>: builds, stores the diff
# against /repo HEAD as the seed's patch (the original is kept as patch.orig.diff) and removes the worktree.
name=$1; wt=/var/tmp/rebase-$name; p=/verif/seeded/$name/patch.diff
cd $wt || exit 1
if grep -rn "^<<<<<<<\|^>>>>>>>" --include=*.go . | grep -v vendor | head -3 | grep -q .; then echo "$name: conflict markers left"; exit 1; fi
GOFLAGS=-mod=vendor go build -o /dev/null . || { echo "$name: does not build"; exit 1; }
git add -A; git diff --cached $(git -C /repo rev-parse HEAD) -- . ':!SEED' > /var/tmp/rebased-$name.diff
[ -s /var/tmp/rebased-$name.diff ] || { echo "$name: empty diff"; exit 1; }
[ -f /verif/seeded/$name/patch.orig.diff ] || cp $p /verif/seeded/$name/patch.orig.diff
cp /var/tmp/rebased-$name.diff $p
cd /; git -C /repo worktree remove --force $wt
echo "$name: stored ($(grep -c '^[+-][^+-]' $p) changed lines)"
