#!/bin/sh
# tools/seedreverify.sh <seed-name> -- re-confirms a stored seed against the current /repo: the patch applies and builds,
# the seed's own demonstration passes on the unchanged tree and fails with the patch.
name=$1; src=/verif/seeded/$name
d=$(mktemp -d /var/tmp/seedrv-XXXXXX); trap 'rm -rf "$d"' EXIT
rsync -a --exclude .git /repo/ "$d/clean/"; rsync -a --exclude .git /repo/ "$d/mut/"
(cd "$d/mut" && patch -s -p1 < "$src/patch.diff") || { echo "$name: PATCH DOES NOT APPLY"; exit 1; }
(cd "$d/mut" && GOFLAGS=-mod=vendor go build -o /dev/null .) || { echo "$name: DOES NOT BUILD"; exit 1; }
bash "$src/demo/run.sh" "$d/clean" > "$d/clean.out" 2>&1; rc=$?
bash "$src/demo/run.sh" "$d/mut" > "$d/mut.out" 2>&1; rm=$?
if [ "$rc" = 0 ] && [ "$rm" != 0 ]; then echo "$name: ok (demo clean=0 mutated=$rm)"; else echo "$name: DEMO clean=$rc mutated=$rm"; tail -3 "$d/clean.out"; exit 1; fi
