#!/bin/sh
# tools/seedsweep2.sh -- every stored seed against its property's quick check, two properties at a time
# (one line per seed: CAUGHT / MISSED / PATCH-FAILED); a sweep of all seeds takes hours, the order puts the
# properties first whose generators changed last.
cd "$(dirname "$0")/.."
./vcheck C20 quick > /dev/null 2>&1 # builds the driver once before the streams start
stream() {
  for prop in "$@"; do
    for d in seeded/${prop}*/; do
      name=$(basename $d)
      out=$(VERIF_NO_REGRESS=1 tools/seedrun.sh $name $prop quick 2>&1)
      if echo "$out" | grep -a -q "^VIOLATION property=$prop"; then echo "CAUGHT $name $(echo "$out" | grep -a '  signature' | head -1 | cut -c1-140)";
      elif echo "$out" | grep -a -qi "hunk\|does not apply\|FAILED"; then echo "PATCH-FAILED $name $(echo "$out" | tail -2 | tr '\n' ' ' | cut -c1-200)";
      else echo "MISSED $name $(echo "$out" | grep -a "^$prop quick" | tail -1 | cut -c1-160)"; fi
    done
  done
}
stream C19 C20 C01 C05 C07 C03 C13 C15 C17 &
stream C08 C09 C10 C11 C12 C06 C02 C04 C14 C16 C18 &
wait
