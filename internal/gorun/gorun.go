// Package gorun runs goderive and the Go toolchain on scratch modules.
package gorun

import (
	"bytes"
	"context"
	"crypto/sha256"
	"encoding/hex"
	"errors"
	"fmt"
	"io/fs"
	"os"
	"os/exec"
	"path/filepath"
	"sort"
	"strings"
	"syscall"
	"time"
)

// Repo returns the goderive tree under test.
func Repo() string {
	if r := os.Getenv("VERIF_REPO"); r != "" {
		return r
	}
	return "/repo"
}

// VerifDir is the root of the verification framework.
func VerifDir() string {
	if r := os.Getenv("VERIF_DIR"); r != "" {
		return r
	}
	return "/verif"
}

// ScratchBase is the directory under which all scratch cases live.
func ScratchBase() string {
	if r := os.Getenv("VERIF_SCRATCH"); r != "" {
		return r
	}
	return "/var/tmp/verif-scratch"
}

// CacheDir is the Go build cache of everything the machinery compiles. Every generated subject leaves
// unique objects behind (tens of GB per day of thorough runs), so the cache is the machinery's own and
// the driver empties it when it has grown too large (see cmd/vdriver cacheHygiene).
func CacheDir() string {
	if r := os.Getenv("VERIF_GOCACHE"); r != "" {
		return r
	}
	return "/var/tmp/verif-gocache"
}

// baseEnv is the environment for every child process: offline, module mode.
func baseEnv(extra ...string) []string {
	env := []string{}
	for _, kv := range os.Environ() {
		k := kv[:strings.Index(kv, "=")]
		switch k {
		case "GOFLAGS", "GOPROXY", "GOSUMDB", "GOTOOLCHAIN", "GO111MODULE", "GOWORK", "GOPATH", "GOCACHE":
			continue
		}
		env = append(env, kv)
	}
	env = append(env, "GOFLAGS=-mod=mod", "GOPROXY=off", "GOSUMDB=off", "GOTOOLCHAIN=local", "GOWORK=off", "GOCACHE="+CacheDir())
	return append(env, extra...)
}

// Result of running a child process.
type Result struct {
	Exit     int
	Stdout   string
	Stderr   string
	Dur      time.Duration
	TimedOut bool
	Err      error // start failure (infrastructure)
}

// Run runs a command in dir with a timeout. The whole process group is killed on timeout.
func Run(dir string, timeout time.Duration, env []string, name string, args ...string) Result {
	ctx, cancel := context.WithTimeout(context.Background(), timeout)
	defer cancel()
	cmd := exec.Command(name, args...)
	cmd.Dir = dir
	cmd.Env = env
	cmd.SysProcAttr = &syscall.SysProcAttr{Setpgid: true}
	var so, se bytes.Buffer
	cmd.Stdout = &so
	cmd.Stderr = &se
	start := time.Now()
	if err := cmd.Start(); err != nil {
		return Result{Exit: -1, Err: err}
	}
	done := make(chan error, 1)
	go func() { done <- cmd.Wait() }()
	var err error
	timedOut := false
	select {
	case err = <-done:
	case <-ctx.Done():
		timedOut = true
		syscall.Kill(-cmd.Process.Pid, syscall.SIGKILL)
		err = <-done
	}
	res := Result{Stdout: so.String(), Stderr: se.String(), Dur: time.Since(start), TimedOut: timedOut}
	if err != nil {
		var ee *exec.ExitError
		if errors.As(err, &ee) {
			res.Exit = ee.ExitCode()
		} else {
			res.Exit = -1
			res.Err = err
		}
	}
	return res
}

// BuildGoderive builds the goderive binary from Repo()'s current working tree.
// /repo's go.mod asks for go 1.24, which is served by the cached toolchain (GOTOOLCHAIN=auto).
func BuildGoderive(out string) error {
	env := []string{}
	for _, kv := range os.Environ() {
		k := kv[:strings.Index(kv, "=")]
		switch k {
		case "GOFLAGS", "GOTOOLCHAIN", "GOWORK", "GOSUMDB":
			continue
		}
		env = append(env, kv)
	}
	// GOSUMDB stays at its default: the go1.24 toolchain named by /repo/go.mod is verified against the local cache.
	env = append(env, "GOFLAGS=-mod=vendor", "GOPROXY=off", "GOTOOLCHAIN=auto", "GOWORK=off")
	r := Run(Repo(), 10*time.Minute, env, "go", "build", "-o", out, ".")
	if r.Err != nil || r.Exit != 0 || r.TimedOut {
		return fmt.Errorf("building goderive in %s failed (exit %d): %s %v", Repo(), r.Exit, r.Stderr, r.Err)
	}
	return nil
}

// Goderive returns the path of the goderive binary built by the driver.
func Goderive() string {
	if p := os.Getenv("VERIF_GODERIVE"); p != "" {
		return p
	}
	return filepath.Join(ScratchBase(), "bin", "goderive")
}

// GoderiveTimeout is the hard (infrastructure) timeout for one goderive run.
const GoderiveTimeout = 120 * time.Second

// RunGoderive runs goderive in dir with the given arguments.
func RunGoderive(dir string, args ...string) Result {
	return Run(dir, GoderiveTimeout, baseEnv(), Goderive(), args...)
}

// RunGoderiveT runs goderive with an explicit timeout.
func RunGoderiveT(dir string, timeout time.Duration, args ...string) Result {
	return Run(dir, timeout, baseEnv(), Goderive(), args...)
}

// Go runs the default go tool in dir.
func Go(dir string, timeout time.Duration, args ...string) Result {
	return Run(dir, timeout, baseEnv(), "go", args...)
}

// Go126 runs the go1.26.8 toolchain in dir.
func Go126(dir string, timeout time.Duration, args ...string) Result {
	return Run(dir, timeout, baseEnv(), "go1.26.8", args...)
}

// WriteFiles writes files (relative path -> contents) below dir.
func WriteFiles(dir string, files map[string]string) error {
	for rel, content := range files {
		p := filepath.Join(dir, rel)
		if err := os.MkdirAll(filepath.Dir(p), 0o755); err != nil {
			return err
		}
		if err := os.WriteFile(p, []byte(content), 0o644); err != nil {
			return err
		}
	}
	return nil
}

// NewCaseDir creates a fresh scratch directory for one case.
func NewCaseDir(prefix string) (string, error) {
	base := ScratchBase()
	if err := os.MkdirAll(base, 0o755); err != nil {
		return "", err
	}
	return os.MkdirTemp(base, prefix+"-")
}

// FileState is one entry of a directory snapshot.
type FileState struct {
	Mode fs.FileMode
	Sum  string
	Size int64
}

// Snapshot records (path, mode, sha256) for every file below dir.
func Snapshot(dir string) (map[string]FileState, error) {
	out := map[string]FileState{}
	err := filepath.WalkDir(dir, func(p string, d fs.DirEntry, err error) error {
		if err != nil {
			return err
		}
		rel, _ := filepath.Rel(dir, p)
		info, err := d.Info()
		if err != nil {
			return err
		}
		if d.IsDir() {
			out[rel+"/"] = FileState{Mode: info.Mode()}
			return nil
		}
		b, err := os.ReadFile(p)
		if err != nil {
			return err
		}
		s := sha256.Sum256(b)
		out[rel] = FileState{Mode: info.Mode(), Sum: hex.EncodeToString(s[:]), Size: info.Size()}
		return nil
	})
	return out, err
}

// DiffSnapshots lists the paths whose state differs, sorted, with a tag (+ - ~).
func DiffSnapshots(a, b map[string]FileState) []string {
	var out []string
	for p, sa := range a {
		sb, ok := b[p]
		if !ok {
			out = append(out, "-"+p)
		} else if sa != sb {
			out = append(out, "~"+p)
		}
	}
	for p := range b {
		if _, ok := a[p]; !ok {
			out = append(out, "+"+p)
		}
	}
	sort.Strings(out)
	return out
}

// CopyDir copies a directory tree.
func CopyDir(src, dst string) error {
	return filepath.WalkDir(src, func(p string, d fs.DirEntry, err error) error {
		if err != nil {
			return err
		}
		rel, _ := filepath.Rel(src, p)
		t := filepath.Join(dst, rel)
		if d.IsDir() {
			return os.MkdirAll(t, 0o755)
		}
		b, err := os.ReadFile(p)
		if err != nil {
			return err
		}
		info, _ := d.Info()
		return os.WriteFile(t, b, info.Mode().Perm())
	})
}

// Sha returns the hex sha256 of b (first n hex chars; n<=0 means all).
func Sha(b []byte, n int) string {
	s := sha256.Sum256(b)
	h := hex.EncodeToString(s[:])
	if n > 0 && n < len(h) {
		return h[:n]
	}
	return h
}

// HasPanicTrace reports whether stderr looks like a Go runtime crash.
func HasPanicTrace(stderr string) bool {
	return strings.Contains(stderr, "panic:") || strings.Contains(stderr, "goroutine ") && strings.Contains(stderr, "[running]") ||
		strings.Contains(stderr, "fatal error:")
}

// BuildEnv is the environment used to build goderive variants from a repository copy.
func BuildEnv() []string {
	env := []string{}
	for _, kv := range os.Environ() {
		k := kv[:strings.Index(kv, "=")]
		switch k {
		case "GOFLAGS", "GOTOOLCHAIN", "GOWORK", "GOSUMDB", "GOCACHE":
			continue
		}
		env = append(env, kv)
	}
	return append(env, "GOFLAGS=-mod=vendor", "GOPROXY=off", "GOTOOLCHAIN=auto", "GOWORK=off", "GOCACHE="+CacheDir())
}

// ChildEnv is the environment for goderive and go tool child processes.
func ChildEnv() []string { return baseEnv() }

// CopyDirFiltered copies a repository tree without .git and scratch directories.
func CopyDirFiltered(src, dst string) error {
	os.RemoveAll(dst)
	return filepath.WalkDir(src, func(p string, d fs.DirEntry, err error) error {
		if err != nil {
			return err
		}
		rel, _ := filepath.Rel(src, p)
		if d.IsDir() && (d.Name() == ".git" || rel == "SEED") {
			return filepath.SkipDir
		}
		t := filepath.Join(dst, rel)
		if d.IsDir() {
			return os.MkdirAll(t, 0o755)
		}
		if !d.Type().IsRegular() {
			return nil
		}
		b, err := os.ReadFile(p)
		if err != nil {
			return err
		}
		return os.WriteFile(t, b, 0o644)
	})
}
