package gorun

import (
	"bytes"
	"fmt"
	"go/ast"
	"go/format"
	"go/types"
	"os"
	"path/filepath"
	"sort"
	"strings"

	"golang.org/x/tools/go/packages"
)

// CheckResult is the outcome of type-checking a package (and its test variant).
type CheckResult struct {
	Errors []string
	Pkgs   []*packages.Package
}

// TypeCheck loads the patterns in dir (module mode) with full type information.
func TypeCheck(dir string, tests bool, patterns ...string) (*CheckResult, error) {
	cfg := &packages.Config{
		Mode: packages.NeedName | packages.NeedFiles | packages.NeedCompiledGoFiles | packages.NeedSyntax | packages.NeedTypes |
			packages.NeedTypesInfo | packages.NeedImports | packages.NeedTypesSizes,
		Dir:   dir,
		Env:   baseEnv(),
		Tests: tests,
	}
	pkgs, err := packages.Load(cfg, patterns...)
	if err != nil {
		return nil, err
	}
	res := &CheckResult{Pkgs: pkgs}
	seen := map[string]bool{}
	for _, p := range pkgs {
		for _, e := range p.Errors {
			for _, s := range strings.Split(e.Error(), "\n") {
				s = strings.TrimSpace(strings.ReplaceAll(s, dir+"/", ""))
				if s == "" || strings.HasPrefix(s, "#") || strings.HasPrefix(s, "-: #") {
					continue
				}
				// build output that vanished under the loader (a temp-directory cleaner, a full disk) is an
				// infrastructure failure, not a property of the checked package
				if strings.Contains(s, "could not import") && (strings.Contains(s, "no such file or directory") || strings.Contains(s, "no space left")) {
					return nil, fmt.Errorf("loader infrastructure failure: %s", s)
				}
				if !seen[s] {
					seen[s] = true
					res.Errors = append(res.Errors, s)
				}
			}
		}
	}
	sort.Strings(res.Errors)
	return res, nil
}

// DerivedFile is the name of the generated file.
const DerivedFile = "derived.gen.go"

// CallIssue describes a derive call that does not resolve as required.
type CallIssue struct {
	Call string
	Why  string
}

// ResolveDeriveCalls checks that every call whose callee identifier starts with one of the
// prefixes resolves to a function declared in derived.gen.go of the same package.
func ResolveDeriveCalls(res *CheckResult, prefixes []string) (calls int, issues []CallIssue) {
	for _, p := range res.Pkgs {
		if p.TypesInfo == nil {
			continue
		}
		for _, f := range p.Syntax {
			fname := p.Fset.File(f.Pos()).Name()
			if filepath.Base(fname) == DerivedFile {
				// calls inside the derived file must resolve too (helpers)
			}
			ast.Inspect(f, func(n ast.Node) bool {
				ce, ok := n.(*ast.CallExpr)
				if !ok {
					return true
				}
				id, ok := ce.Fun.(*ast.Ident)
				if !ok {
					return true
				}
				match := false
				for _, pre := range prefixes {
					if strings.HasPrefix(id.Name, pre) {
						match = true
					}
				}
				if !match {
					return true
				}
				calls++
				obj := p.TypesInfo.Uses[id]
				if obj == nil {
					issues = append(issues, CallIssue{id.Name, "unresolved identifier"})
					return true
				}
				fn, ok := obj.(*types.Func)
				if !ok {
					if _, isVar := obj.(*types.Var); isVar {
						return true // a local variable holding a derived closure etc.
					}
					issues = append(issues, CallIssue{id.Name, fmt.Sprintf("resolves to %T, not a function", obj)})
					return true
				}
				df := p.Fset.File(fn.Pos())
				if df == nil || filepath.Base(df.Name()) != DerivedFile {
					issues = append(issues, CallIssue{id.Name, "resolves to a function outside derived.gen.go"})
				}
				return true
			})
		}
	}
	return
}

// GofmtClean reports whether the file is byte-identical to its gofmt formatting.
func GofmtClean(path string) (bool, error) {
	b, err := os.ReadFile(path)
	if err != nil {
		return false, err
	}
	f, err := format.Source(b)
	if err != nil {
		return false, err
	}
	return bytes.Equal(b, f), nil
}
