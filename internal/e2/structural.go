package e2

import (
	"fmt"
	"strings"

	"pgregory.net/rapid"

	"verif/internal/progen"
)

// StructOpt configures a structural subject (C02-C05, C13, C14 share it).
type StructOpt struct {
	Env        progen.EnvOpt
	NTypes     int
	Roles      []string // equal equalc compare comparec hash clone deepcopy gostring ctx sort keys min max contains unique set union intersect filter ...
	Depth      int
	TypeOK     func(*progen.Type) bool
	Enumerated []*progen.Type                       // extra fixed types (bounded-exhaustive slices)
	EnumFn     func(env *progen.Env) []*progen.Type // extra types computed from the environment
	EnumChunks bool                                 // every other subject takes its types from the bounded-exhaustive enumeration (fixed environment)
	TopShapes  bool                                 // wrap most drawn types in a top-level pointer / slice / map (DeepCopy's argument forms)
	Carriers   bool                                 // some of the drawn types are also used as the fields of carrier structs (field paths of the generators)
}

// DrawStructural draws an environment and NTypes distinct argument types and emits the wrappers
// for the requested roles.
func DrawStructural(rt *rapid.T, o StructOpt) *Subject {
	if o.EnumChunks && !o.Env.UserMethods && rapid.Bool().Draw(rt, "enumerated-chunk") {
		return drawEnumerated(rt, o)
	}
	env := progen.DrawEnv(rt, o.Env)
	p := progen.NewProg(env)
	s := &Subject{Prog: p}
	used := progen.Used{}
	p.Add("var Anchor = 0\n")
	depth := o.Depth
	if depth == 0 {
		depth = 3
	}
	// a user method implemented by deriveEqualM<Name>(a, b *Name) already names the function for (*Name, *Name)
	for _, d := range env.Structs {
		if d.UserEqual == "derive" {
			pt := progen.PtrTo(progen.NamedT(d))
			used.Claim(ukey("equal", pt, pt))
		}
	}
	seen := map[string]bool{}
	var types []*progen.Type
	// every struct of the environment is a candidate root, then random types
	for i := 0; len(types) < o.NTypes && i < o.NTypes*6; i++ {
		var t *progen.Type
		switch {
		case i < len(env.Structs) && rapid.IntRange(0, 2).Draw(rt, "usestruct") > 0:
			t = progen.NamedT(env.Structs[i])
			if rapid.Bool().Draw(rt, "structptr") {
				t = progen.PtrTo(t)
			}
		default:
			t = env.DrawType(rt, rapid.IntRange(0, depth).Draw(rt, "tdepth"))
		}
		if o.TopShapes {
			switch rapid.IntRange(0, 4).Draw(rt, "topshape") {
			case 0, 1:
				t = progen.PtrTo(t)
			case 2:
				t = progen.SliceOf(t)
			case 3:
				t = progen.MapOf(env.DrawKey(rt, 1), t)
			}
		}
		k := progen.AssignKey(t)
		if seen[k] {
			continue
		}
		if o.TypeOK != nil && !o.TypeOK(t) {
			continue
		}
		seen[k] = true
		types = append(types, t)
	}
	if len(env.ExtStructs) > 0 && rapid.Bool().Draw(rt, "extptr-shapes") {
		// an imported struct behind a pointer, as argument, element and map value (the path on which generated code
		// has to reach unexported fields through a pointer it did not allocate)
		x := progen.NamedT(env.ExtStructs[rapid.IntRange(0, len(env.ExtStructs)-1).Draw(rt, "extptr-struct")])
		for _, t := range []*progen.Type{progen.PtrTo(x), progen.SliceOf(progen.PtrTo(x)), progen.MapOf(progen.B("string"), progen.PtrTo(x))} {
			k := progen.AssignKey(t)
			if !seen[k] && (o.TypeOK == nil || o.TypeOK(t)) {
				seen[k] = true
				types = append(types, t)
			}
		}
	}
	if env.SelfSlice != nil {
		// the named type or the unnamed slice of it: one of them (goderive takes them for one type, being mutually assignable)
		cands := []*progen.Type{progen.NamedT(env.SelfSlice), progen.SliceOf(progen.NamedT(env.SelfSlice))}
		if rapid.Bool().Draw(rt, "selfslice-unnamed") {
			cands[0], cands[1] = cands[1], cands[0]
		}
		for _, t := range cands {
			k := progen.AssignKey(t)
			if !seen[k] && (o.TypeOK == nil || o.TypeOK(t)) {
				seen[k] = true
				types = append(types, t)
			}
		}
	}
	if len(env.Twins) == 2 {
		// both same-spelled types, the plain one first, on their own and as elements
		for _, t := range []*progen.Type{progen.NamedT(env.Twins[0]), progen.NamedT(env.Twins[1]), progen.PtrTo(progen.NamedT(env.Twins[0])), progen.PtrTo(progen.NamedT(env.Twins[1]))} {
			k := progen.AssignKey(t)
			if !seen[k] && (o.TypeOK == nil || o.TypeOK(t)) {
				seen[k] = true
				types = append(types, t)
			}
		}
	}
	if len(env.GenericInsts) > 0 {
		// the instantiations of one generic struct side by side: as fields of one struct (in declaration order: the one
		// without references first), as elements and on their own
		var insts []*progen.Type
		for _, d := range env.GenericInsts {
			insts = append(insts, progen.NamedT(d))
		}
		cand := []*progen.Type{Carrier(env, "WG", insts...)}
		for _, it := range insts {
			cand = append(cand, progen.SliceOf(it), progen.PtrTo(it))
		}
		for _, t := range cand {
			k := progen.AssignKey(t)
			if !seen[k] && (o.TypeOK == nil || o.TypeOK(t)) {
				seen[k] = true
				types = append(types, t)
			}
		}
	}
	if o.Carriers && len(types) >= 3 {
		k := rapid.IntRange(0, len(types)-3).Draw(rt, "carrier-start")
		for j := 0; j < 2 && k+3*j+3 <= len(types); j++ {
			w := Carrier(env, fmt.Sprintf("W%d", j), types[k+3*j:k+3*j+3]...)
			if o.TypeOK == nil || o.TypeOK(w) {
				o.Enumerated = append(append([]*progen.Type{}, o.Enumerated...), w)
			}
		}
	}
	if o.EnumFn != nil {
		o.Enumerated = append(append([]*progen.Type{}, o.Enumerated...), o.EnumFn(env)...)
	}
	for _, t := range o.Enumerated {
		k := progen.AssignKey(t)
		if !seen[k] && (o.TypeOK == nil || o.TypeOK(t)) {
			seen[k] = true
			types = append(types, t)
		}
	}
	for i, t := range types {
		id := fmt.Sprintf("T%d", i)
		e := s.NewEntry(id, t)
		if env.Opt.UserMethods {
			e.Tags["usermethods"] = "1"
		}
		if t.Comparable() {
			e.Tags["comparable"] = "1"
		}
		if t.Kind == progen.Basic && t.OrderedBasic() {
			e.Tags["basic-ordered"] = "1"
		}
		AddRoles(p, used, e, t, id, o.Roles)
	}
	return s
}

// Carrier declares "type <name> struct { F0 T0; F1 T1; ... }" in the subject package and returns *<name>.
func Carrier(env *progen.Env, name string, ts ...*progen.Type) *progen.Type {
	d := &progen.Decl{Name: name, IsStruct: true}
	for i, t := range ts {
		d.Fields = append(d.Fields, progen.Field{Name: fmt.Sprintf("F%d", i), Type: t})
	}
	env.Structs = append(env.Structs, d)
	return progen.PtrTo(progen.NamedT(d))
}

func addCall(p *progen.Prog, used progen.Used, e *Entry, role string, c *progen.Call, key string) {
	restore := p.Snapshot()
	if !used.Claim(key) {
		restore()
		return
	}
	w := strings.ToUpper(role[:1]) + strings.NewReplacer(":", "", "-", "").Replace(role[1:]) + e.ID
	p.Add("%s", c.Render(progen.FormBody, w))
	e.Funcs[role] = w
}

func ukey(plugin string, ts ...*progen.Type) string {
	k := plugin
	for _, t := range ts {
		k += "|" + progen.AssignKey(t)
	}
	return k
}

// AddRoles emits the wrappers of the requested roles for type t.
func AddRoles(p *progen.Prog, used progen.Used, e *Entry, t *progen.Type, id string, roles []string) {
	ts := p.T(t)
	for _, role := range roles {
		switch role {
		case "equal":
			if t.Kind == progen.Ptr && t.Elem.Kind == progen.Named && t.Elem.Decl.UserEqual == "derive" {
				// same name and same types as the call inside the user's method: one generated function
				c := progen.Equal(ts, "M"+t.Elem.Decl.Name)
				w := "EqualVia" + id
				p.Add("%s", c.Render(progen.FormBody, w))
				e.Funcs[role] = w
				continue
			}
			addCall(p, used, e, role, progen.Equal(ts, id), ukey("equal", t, t))
		case "equalc":
			addCall(p, used, e, role, progen.EqualCurried(ts, id), ukey("equal", t))
			if _, ok := e.Funcs[role]; ok {
				// the partially applied function itself, to be applied more than once
				w := "EqualcP" + id
				p.Add("func %s(a %s) func(%s) bool {\n\treturn deriveEqualC%s(a)\n}\n", w, ts, ts, id)
				e.Funcs["equalcp"] = w
			}
		case "compare":
			addCall(p, used, e, role, progen.Compare(ts, id), ukey("compare", t, t))
		case "comparec":
			addCall(p, used, e, role, progen.CompareCurried(ts, id), ukey("compare", t))
			if _, ok := e.Funcs[role]; ok {
				w := "ComparecP" + id
				p.Add("func %s(a %s) func(%s) int {\n\treturn deriveCompareC%s(a)\n}\n", w, ts, ts, id)
				e.Funcs["comparecp"] = w
			}
		case "hash":
			addCall(p, used, e, role, progen.Hash(ts, id), ukey("hash", t))
		case "clone":
			addCall(p, used, e, role, progen.Clone(ts, id), ukey("clone", t))
		case "gostring":
			addCall(p, used, e, role, progen.GoString(ts, id), ukey("gostring", t))
		case "deepcopy":
			u := t.Under()
			if u.Kind == progen.Ptr || u.Kind == progen.Slice || u.Kind == progen.Map {
				addCall(p, used, e, role, progen.DeepCopy(ts, id), ukey("deepcopy", t))
			}
		case "ctx":
			addCtx(p, used, e, t, id, "equal", "bool")
		case "ctxcompare":
			addCtx(p, used, e, t, id, "compare", "int")
		case "sort":
			addCall(p, used, e, role, progen.Sort(ts, id), ukey("sort", progen.SliceOf(t)))
		case "minl", "maxl", "mint", "maxt":
			if t.Kind == progen.Basic && !t.OrderedBasic() {
				continue
			}
			which := "Min"
			if strings.HasPrefix(role, "max") {
				which = "Max"
			}
			if strings.HasSuffix(role, "l") {
				addCall(p, used, e, role, progen.MinMaxList(which, ts, id), ukey(role[:3], progen.SliceOf(t), t))
			} else {
				addCall(p, used, e, role, progen.MinMaxTwo(which, ts, id), ukey(role[:3], t, t))
			}
		case "contains":
			addCall(p, used, e, role, progen.Contains(ts, id), ukey("contains", progen.SliceOf(t)))
		case "unique":
			addCall(p, used, e, role, progen.Unique(ts, id), ukey("unique", progen.SliceOf(t)))
		case "unionl":
			addCall(p, used, e, role, progen.UnionIntersectList("Union", ts, id), ukey("union", progen.SliceOf(t)))
		case "intersectl":
			addCall(p, used, e, role, progen.UnionIntersectList("Intersect", ts, id), ukey("intersect", progen.SliceOf(t)))
		case "filter", "takewhile", "all", "any":
			which := map[string]string{"filter": "Filter", "takewhile": "TakeWhile", "all": "All", "any": "Any"}[role]
			// these plugins register the element type (not the slice type)
			addCall(p, used, e, role, progen.PredList(which, ts, id), ukey(role, t))
		case "fmap", "fmapint":
			r := ts
			if role == "fmapint" {
				r = "int"
			}
			ft := "func(" + ts + ") " + r
			addCall(p, used, e, role, progen.Raw("fmap", "deriveFmap"+strings.Title(role)+id, []string{"f", "l"}, []string{ft, "[]" + ts}, "[]"+r),
				"fmap|"+ft+"|"+progen.AssignKey(progen.SliceOf(t)))
		case "fmapstr":
			ft := "func(rune) " + ts
			addCall(p, used, e, role, progen.Raw("fmap", "deriveFmapStr"+id, []string{"f", "s"}, []string{ft, "string"}, "[]"+ts), "fmap|"+ft+"|string")
		case "join":
			addCall(p, used, e, role, progen.Raw("join", "deriveJoin"+id, []string{"l"}, []string{"[][]" + ts}, "[]"+ts), ukey("join", progen.SliceOf(progen.SliceOf(t))))
		case "joinstr":
			addCall(p, used, e, role, progen.Raw("join", "deriveJoinStr"+id, []string{"l"}, []string{"[]string"}, "string"), "join|[]string")
		case "set":
			if t.Comparable() {
				addCall(p, used, e, role, progen.Set(ts, id), ukey("set", progen.SliceOf(t)))
			}
		case "unionm", "intersectm":
			if t.Comparable() {
				which := "Union"
				if role == "intersectm" {
					which = "Intersect"
				}
				addCall(p, used, e, role, progen.UnionIntersectMap(which, ts, id), ukey(strings.TrimSuffix(role, "m"), progen.MapOf(t, progen.B("struct{}"))))
			}
		case "keysof":
			// keys of map[t]int (t must be a key type)
			if t.Comparable() {
				m := progen.MapOf(t, progen.B("int"))
				addCall(p, used, e, role, progen.Keys(p.T(m), ts, id), ukey("keys", m))
			}
		default:
			panic("unknown role " + role)
		}
	}
}

// addCtx emits the context wrappers: the same X compared as a struct field, slice element,
// array element, map value and pointer target.
func addCtx(p *progen.Prog, used progen.Used, e *Entry, t *progen.Type, id, plugin, res string) {
	ts := p.T(t)
	P := strings.Title(plugin)
	mk := func(role, fnSfx string, argT *progen.Type, key string, wrapA, wrapB string, pre string) {
		restore := p.Snapshot()
		if !used.Claim(key) {
			restore()
			return
		}
		w := P + "Ctx" + fnSfx + id
		p.Add("%sfunc %s(a, b %s) %s {\n\treturn derive%sC%s%s(%s, %s)\n}\n", pre, w, ts, res, P, fnSfx, id, wrapA, wrapB)
		e.Funcs[role] = w
	}
	pre := ""
	if plugin == "compare" {
		pre = "cmp"
	}
	// struct field
	sname := "Ctx" + P + id
	sdecl := &progen.Decl{Name: sname, IsStruct: true, Fields: []progen.Field{{Name: "F", Type: t}}}
	mk(pre+"ctx:struct", "St", progen.NamedT(sdecl), ukey(plugin, progen.NamedT(sdecl), progen.NamedT(sdecl)), sname+"{a}", sname+"{b}",
		fmt.Sprintf("type %s struct{ F %s }\n\n", sname, ts))
	mk(pre+"ctx:slice", "Sl", progen.SliceOf(t), ukey(plugin, progen.SliceOf(t), progen.SliceOf(t)), "[]"+ts+"{a}", "[]"+ts+"{b}", "")
	mk(pre+"ctx:array", "Ar", progen.ArrayOf(1, t), ukey(plugin, progen.ArrayOf(1, t), progen.ArrayOf(1, t)), "[1]"+ts+"{a}", "[1]"+ts+"{b}", "")
	mt := progen.MapOf(progen.B("string"), t)
	mk(pre+"ctx:map", "Ma", mt, ukey(plugin, mt, mt), "map[string]"+ts+"{\"k\": a}", "map[string]"+ts+"{\"k\": b}", "")
	mk(pre+"ctx:ptr", "Pt", progen.PtrTo(t), ukey(plugin, progen.PtrTo(t), progen.PtrTo(t)), "&a", "&b", "")
}

// drawEnumerated builds a subject from a drawn chunk of the bounded-exhaustive type enumeration
// (all type expressions to constructor depth 2, in thorough runs depth 3, over the fixed environment).
func drawEnumerated(rt *rapid.T, o StructOpt) *Subject {
	env := progen.FixedEnv()
	if o.Env.ExportedOnly || o.Env.NoPrivateExt {
		// the fixed environment has unexported fields: callers that cannot use them do not enable EnumChunks
	}
	depth := 2
	if rapid.IntRange(0, 3).Draw(rt, "enum-depth3") == 0 {
		depth = 3
	}
	all := progen.Enumerate(env, depth)
	n := o.NTypes
	if n <= 0 {
		n = 14
	}
	start := rapid.IntRange(0, len(all)-1).Draw(rt, "enum-start")
	// one chunk in three is not passed as arguments but as the fields of carrier structs: generators
	// print a type differently as an argument and as a field (genStatement vs genField paths)
	if rapid.IntRange(0, 2).Draw(rt, "enum-carriers") == 0 {
		var fields []*progen.Type
		seenF := map[string]bool{}
		for i := 0; len(fields) < n && i < len(all); i++ {
			t := all[(start+i)%len(all)]
			if k := progen.AssignKey(t); !seenF[k] && (o.TypeOK == nil || o.TypeOK(t)) {
				seenF[k] = true
				fields = append(fields, t)
			}
		}
		var ws []*progen.Type
		for j := 0; j*3 < len(fields); j++ {
			hi := j*3 + 3
			if hi > len(fields) {
				hi = len(fields)
			}
			w := Carrier(env, fmt.Sprintf("W%d", j), fields[j*3:hi]...)
			if o.TypeOK == nil || o.TypeOK(w) {
				ws = append(ws, w)
			}
		}
		if len(ws) > 0 {
			all, start, n = ws, 0, len(ws)
		}
	}
	p := progen.NewProg(env)
	s := &Subject{Prog: p}
	used := progen.Used{}
	p.Add("var Anchor = 0\n")
	seen := map[string]bool{}
	count := 0
	for i := 0; count < n && i < len(all); i++ {
		t := all[(start+i)%len(all)]
		if t.Kind == progen.Ptr && t.Elem.Kind == progen.Named && strings.HasPrefix(t.Elem.Decl.Name, "W") {
			// carriers are passed as they are
		} else if o.TopShapes {
			u := t.Under()
			if u.Kind != progen.Ptr && u.Kind != progen.Slice && u.Kind != progen.Map {
				t = progen.PtrTo(t)
			}
		}
		k := progen.AssignKey(t)
		if seen[k] || (o.TypeOK != nil && !o.TypeOK(t)) {
			continue
		}
		seen[k] = true
		id := fmt.Sprintf("T%d", count)
		count++
		e := s.NewEntry(id, t)
		e.Tags["enumerated"] = "1"
		if t.Comparable() {
			e.Tags["comparable"] = "1"
		}
		if t.Kind == progen.Basic && t.OrderedBasic() {
			e.Tags["basic-ordered"] = "1"
		}
		AddRoles(p, used, e, t, id, o.Roles)
	}
	return s
}
