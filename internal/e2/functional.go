package e2

import (
	"fmt"
	"strings"

	"pgregory.net/rapid"

	"verif/internal/progen"
)

// FuncOpt configures a functional subject.
type FuncOpt struct {
	Env   progen.EnvOpt
	N     int
	Kind  string // plumb (C15) | error (C16) | mem (C18)
	Modes []string
	// Avoid: region predicates of open findings
	Avoid map[string]bool
}

func paramKey(s *progen.Sig) string {
	q := progen.Qual{Subj: "p", Canon: true}
	var ps []string
	for _, p := range s.Params {
		ps = append(ps, p.Type.Str(q))
	}
	return strings.Join(ps, ",")
}

// DrawFunctional draws signatures and emits wrappers around the functional plugins.
func DrawFunctional(rt *rapid.T, o FuncOpt) *Subject {
	env := progen.DrawEnv(rt, o.Env)
	p := progen.NewProg(env)
	s := &Subject{Prog: p}
	used := progen.Used{}
	p.Add("var Anchor = 0\n")
	modes := o.Modes
	if len(modes) == 0 {
		modes = []string{"named", "unnamed", "blank", "hostile", "minted"}
	}
	for i := 0; len(s.Entries) < o.N && i < o.N*4; i++ {
		id := fmt.Sprintf("T%d", len(s.Entries))
		switch o.Kind {
		case "plumb":
			sig := env.DrawSig(rt, 2, 5, 3, modes)
			if rapid.IntRange(0, 3).Draw(rt, "repeat-type") == 0 {
				// repeated parameter types make transpositions type-correct (and so silent)
				j := rapid.IntRange(1, len(sig.Params)-1).Draw(rt, "repeat-at")
				sig.Params[j].Type = sig.Params[0].Type
			}
			if !used.Claim("sig|" + sig.TypeKey()) {
				continue
			}
			share := -1
			if rapid.IntRange(0, 2).Draw(rt, "share-name") == 0 {
				share = rapid.IntRange(0, 3).Draw(rt, "share-pos")
			}
			addPlumb(p, used, s, sig, id, share, rapid.IntRange(0, 2).Draw(rt, "twin-site") == 0)
		case "mem":
			sig := env.DrawSig(rt, 0, 3, 3, []string{"named", "unnamed"})
			for i := range sig.Params {
				// interface-typed arguments are outside what derived Hash/Equal support (C09's domain)
				for sig.Params[i].Type.Kind == progen.Iface {
					sig.Params[i].Type = env.DrawSigType(rt, false)
				}
			}
			if !used.Claim("sig|" + sig.TypeKey()) {
				continue
			}
			if len(sig.Params) > 0 && rapid.IntRange(0, 2).Draw(rt, "mem-twin") == 0 {
				// an earlier call site of the same derived function for a function of the same type that declares one
				// parameter blank (names are no part of the type: one generated function serves both, and the
				// function memoized through the other site does read that parameter)
				twin := &progen.Sig{Results: sig.Results}
				blank := rapid.IntRange(0, len(sig.Params)-1).Draw(rt, "mem-twin-blank")
				for i, pa := range sig.Params {
					nm := fmt.Sprintf("q%d", i)
					if i == blank {
						nm = "_"
					}
					twin.Params = append(twin.Params, progen.Param{Name: nm, Type: pa.Type})
				}
				p.Add("func Mem%sTwin(f %s) any {\n\treturn deriveMem%s(f)\n}\n", id, twin.FuncType(p.T), id)
			}
			e := s.newFuncEntry(id, sig)
			ft := sig.FuncType(p.T)
			p.Add("func Mem%s(f %s) any {\n\treturn deriveMem%s(f)\n}\n", id, ft, id)
			e.Funcs["mem"] = "Mem" + id
			cmp := "1"
			for _, pa := range sig.Params {
				if !pa.Type.Comparable() {
					cmp = "0"
				}
			}
			e.Tags["comparable-args"] = cmp
			e.Tags["nparams"] = fmt.Sprint(len(sig.Params))
			e.Tags["nresults"] = fmt.Sprint(len(sig.Results))
		case "error":
			addErrorForms(rt, env, p, used, s, id, o)
		}
	}
	if o.Kind == "error" && !o.Avoid["C15-unnamed-params"] {
		// every subject has one ToError whose function has an error parameter and a second parameter, named
		// after identifiers the generated wrapper uses itself (the supplied error, the results, f)
		names := rapid.Permutation([]string{"e", "err", "out0", "success", "f", "c", "e1", "nil"}).Draw(rt, "te-fixed-names")
		fsig := &progen.Sig{Params: []progen.Param{{Name: names[0], Type: progen.ErrorT()}, {Name: names[1], Type: progen.B("int")}},
			Results: []*progen.Type{progen.B("string"), progen.B("bool")}, Mode: "hostile"}
		if used.Claim("toerror|" + fsig.TypeKey()) {
			id := fmt.Sprintf("T%d", len(s.Entries))
			e := s.newFuncEntry(id, fsig)
			p.Add("func ToError%s(err error, f %s) any {\n\treturn deriveToError%s(err, f)\n}\n", id, fsig.FuncType(p.T), id)
			e.Funcs["toerror"] = "ToError" + id
			e.Tags["form"] = "toerror"
		}
	}
	return s
}

func (s *Subject) newFuncEntry(id string, sig *progen.Sig) *Entry {
	p := s.Prog
	e := &Entry{ID: id, TypeStr: sig.FuncType(p.HT), Funcs: map[string]string{}, Tags: map[string]string{}, Imports: map[string]bool{}}
	for _, pa := range sig.Params {
		p.NoteHarnessImports(pa.Type, e.Imports)
	}
	for _, r := range sig.Results {
		p.NoteHarnessImports(r, e.Imports)
	}
	e.Tags["mode"] = sig.Mode
	var names []string
	for _, pa := range sig.Params {
		names = append(names, pa.Name)
	}
	e.Tags["names"] = strings.Join(names, ",")
	s.Entries = append(s.Entries, e)
	return e
}

// AddPlumb emits the curry/flip/apply/uncurry/tuple wrappers for a signature (exported for C01's generator).
func AddPlumb(p *progen.Prog, used progen.Used, s *Subject, sig *progen.Sig, id string, share int, twin bool) {
	addPlumb(p, used, s, sig, id, share, twin)
}

// AddErrorForms emits one drawn error-propagating form (exported for C01's generator).
func AddErrorForms(rt *rapid.T, env *progen.Env, p *progen.Prog, used progen.Used, s *Subject, id string, o FuncOpt) {
	addErrorForms(rt, env, p, used, s, id, o)
}

func addPlumb(p *progen.Prog, used progen.Used, s *Subject, sig *progen.Sig, id string, share int, twinSite bool) {
	e := s.newFuncEntry(id, sig)
	ft := sig.FuncType(p.T)
	n := len(sig.Params)
	e.Tags["nparams"] = fmt.Sprint(n)
	e.Tags["nresults"] = fmt.Sprint(len(sig.Results))
	distinct := map[string]bool{}
	q := progen.Qual{Subj: "p", Canon: true}
	for _, pa := range sig.Params {
		distinct[pa.Type.Str(q)] = true
	}
	if n >= 3 && len(distinct) >= 2 {
		e.Tags["nt"] = "1"
	}
	p.Add("func Curry%s(f %s) any {\n\treturn deriveCurry%s(f)\n}\n", id, ft, id)
	e.Funcs["curry"] = "Curry" + id
	p.Add("func Flip%s(f %s) any {\n\treturn deriveFlip%s(f)\n}\n", id, ft, id)
	e.Funcs["flip"] = "Flip" + id
	last := sig.Params[n-1].Type
	p.Add("func Apply%s(f %s, last %s) any {\n\treturn deriveApply%s(f, last)\n}\n", id, ft, p.T(last), id)
	e.Funcs["apply"] = "Apply" + id
	// uncurry: func(P0) func(P1..) R
	first := &progen.Sig{Params: sig.Params[:1]}
	rest := &progen.Sig{Params: append([]progen.Param{}, sig.Params[1:]...), Results: sig.Results}
	// the two parameter lists of a curried function are separate scopes: they may share a name
	// (also one that only arises when the outer blank/unnamed parameter is renamed)
	if share >= 0 && sig.Mode != "unnamed" {
		j := share % len(rest.Params)
		nm := first.Params[0].Name
		if nm == "_" || nm == "" {
			nm = "param_0"
		}
		dup := false
		for k, rp := range rest.Params {
			if k != j && rp.Name == nm {
				dup = true
			}
		}
		if !dup {
			rest.Params[j].Name = nm
			e.Tags["shared-name"] = "1"
		}
	}
	uft := "func(" + first.ParamList(p.T) + ") " + rest.FuncType(p.T)
	p.Add("func Uncurry%s(f %s) any {\n\treturn deriveUncurry%s(f)\n}\n", id, uft, id)
	e.Funcs["uncurry"] = "Uncurry" + id
	p.Add("func UncurryCurry%s(f %s) any {\n\treturn deriveUncurry%s(deriveCurry%s(f))\n}\n", id, ft, id, id)
	e.Funcs["uncurrycurry"] = "UncurryCurry" + id
	if claimTuple(used, sig) {
		var ps, as []string
		for i, pa := range sig.Params {
			ps = append(ps, fmt.Sprintf("a%d %s", i, p.T(pa.Type)))
			as = append(as, fmt.Sprintf("a%d", i))
		}
		p.Add("func Tuple%s(%s) any {\n\treturn deriveTuple%s(%s)\n}\n", id, strings.Join(ps, ", "), id, strings.Join(as, ", "))
		e.Funcs["tuple"] = "Tuple" + id
	}
	// a second call site of the same derived functions for a function of the same type whose parameters are
	// named differently (the names rotated by one): one generated function has to serve both
	if twinSite && sig.Mode != "unnamed" && n >= 2 {
		twin := &progen.Sig{Results: sig.Results, ResNames: sig.ResNames, Mode: sig.Mode}
		for i, pa := range sig.Params {
			twin.Params = append(twin.Params, progen.Param{Name: sig.Params[(i+1)%n].Name, Type: pa.Type})
		}
		same := true
		for i := range twin.Params {
			if twin.Params[i].Name != sig.Params[i].Name {
				same = false
			}
		}
		if !same {
			e2 := s.newFuncEntry(id+"b", twin)
			for k, v := range e.Tags {
				if _, ok := e2.Tags[k]; !ok {
					e2.Tags[k] = v
				}
			}
			e2.Tags["twin"] = "1"
			tft := twin.FuncType(p.T)
			p.Add("func Curry%sb(f %s) any {\n\treturn deriveCurry%s(f)\n}\n", id, tft, id)
			e2.Funcs["curry"] = "Curry" + id + "b"
			p.Add("func Flip%sb(f %s) any {\n\treturn deriveFlip%s(f)\n}\n", id, tft, id)
			e2.Funcs["flip"] = "Flip" + id + "b"
			p.Add("func Apply%sb(f %s, last %s) any {\n\treturn deriveApply%s(f, last)\n}\n", id, tft, p.T(last), id)
			e2.Funcs["apply"] = "Apply" + id + "b"
		}
	}
}

// addErrorForms emits one of the error-propagating forms (C16).
func addErrorForms(rt *rapid.T, env *progen.Env, p *progen.Prog, used progen.Used, s *Subject, id string, o FuncOpt) {
	form := rapid.SampledFrom([]string{"compose", "compose", "compose", "fmaperr", "joinerr", "traverse", "toerror"}).Draw(rt, "errform")
	rtype := func() *progen.Type {
		for {
			t := env.DrawSigType(rt, true)
			if t.Kind == progen.Iface && t.Name == "error" {
				continue // an error-typed plain result would be ambiguous with the trailing error
			}
			if o.Avoid["C16-zero-nonbasic"] {
				u := t.Under()
				if (t.Kind == progen.Named && u.Kind == progen.Basic) || t.IsStruct() || u.Kind == progen.Array {
					continue
				}
			}
			return t
		}
	}
	rlist := func(min, max int) []*progen.Type {
		n := rapid.IntRange(min, max).Draw(rt, "nres")
		var out []*progen.Type
		for i := 0; i < n; i++ {
			out = append(out, rtype())
		}
		return out
	}
	withErr := func(rs []*progen.Type) []*progen.Type {
		return append(append([]*progen.Type{}, rs...), progen.ErrorT())
	}
	unnamed := func(ts []*progen.Type) []progen.Param {
		var ps []progen.Param
		for _, t := range ts {
			ps = append(ps, progen.Param{Type: t})
		}
		return ps
	}
	switch form {
	case "compose":
		nst := rapid.IntRange(2, 4).Draw(rt, "nstages")
		minFinal := 0
		if o.Avoid["C16-compose-no-results"] {
			minFinal = 1
		}
		var stages []*progen.Sig
		cur := rlist(0, 3)
		for i := 0; i < nst; i++ {
			min := 0
			if i == nst-1 {
				min = minFinal
			}
			if o.Avoid["C16-compose-no-results"] {
				min = 1 // intermediate empty result lists hit the same defect
			}
			next := rlist(min, 3)
			ps := unnamed(cur)
			if i > 0 {
				// a stage may take a wider type than the previous stage returns (interface{} for anything, the unnamed
				// type for a named slice / map / pointer): results are passed on by position, not by type
				for j := range ps {
					if rapid.IntRange(0, 2).Draw(rt, "widen") != 0 {
						continue
					}
					t := ps[j].Type
					switch {
					case t.Kind == progen.Named && !t.Decl.IsStruct && t.Decl.Under.Kind != progen.Basic && t.Alias == "" && rapid.Bool().Draw(rt, "widen-unnamed"):
						ps[j].Type = t.Decl.Under
					case t.Kind != progen.Iface:
						ps[j].Type = progen.AnyT()
					}
				}
			}
			stages = append(stages, &progen.Sig{Params: ps, Results: withErr(next)})
			cur = next
		}
		var key []string
		for _, st := range stages {
			key = append(key, st.TypeKey())
		}
		if !used.Claim("compose|" + strings.Join(key, ";")) {
			return
		}
		e := s.newFuncEntry(id, stages[0])
		var ps, as []string
		for i, st := range stages {
			ps = append(ps, fmt.Sprintf("f%d %s", i, st.FuncType(p.T)))
			as = append(as, fmt.Sprintf("f%d", i))
		}
		p.Add("func Compose%s(%s) any {\n\treturn deriveCompose%s(%s)\n}\n", id, strings.Join(ps, ", "), id, strings.Join(as, ", "))
		e.Funcs["compose"] = "Compose" + id
		e.Tags["form"] = "compose"
		e.Tags["stages"] = fmt.Sprint(nst)
	case "fmaperr":
		a := rtype()
		outs := rlist(0, 3)
		variant := rapid.IntRange(0, 1).Draw(rt, "fmaperr-variant")
		var fsig *progen.Sig
		if variant == 1 && len(outs) >= 1 {
			// f returns (B..., error): result is (func() (B..., error), error)
			fsig = &progen.Sig{Params: unnamed([]*progen.Type{a}), Results: withErr(outs)}
		} else {
			fsig = &progen.Sig{Params: unnamed([]*progen.Type{a}), Results: outs}
		}
		gsig := &progen.Sig{Results: withErr([]*progen.Type{a})}
		if !used.Claim("fmap|" + fsig.TypeKey() + "|" + gsig.TypeKey()) {
			return
		}
		e := s.newFuncEntry(id, fsig)
		n := len(fsig.Results)
		// spell out the result arity so the harness can destructure: wrap the results in []any
		switch {
		case n == 0:
			p.Add("func FmapErr%s(f %s, g %s) []any {\n\terr := deriveFmapE%s(f, g)\n\treturn []any{err}\n}\n", id, fsig.FuncType(p.T), gsig.FuncType(p.T), id)
		default:
			p.Add("func FmapErr%s(f %s, g %s) []any {\n\tr, err := deriveFmapE%s(f, g)\n\treturn []any{r, err}\n}\n", id, fsig.FuncType(p.T), gsig.FuncType(p.T), id)
		}
		e.Funcs["fmaperr"] = "FmapErr" + id
		e.Tags["form"] = "fmaperr"
		e.Tags["fresults"] = fmt.Sprint(n)
	case "joinerr":
		outs := rlist(0, 3)
		fsig := &progen.Sig{Results: withErr(outs)}
		if !used.Claim("join|" + fsig.TypeKey()) {
			return
		}
		e := s.newFuncEntry(id, fsig)
		n := len(outs)
		var vs []string
		for i := 0; i < n; i++ {
			vs = append(vs, fmt.Sprintf("r%d", i))
		}
		vs = append(vs, "e")
		p.Add("func JoinErr%s(f %s, err error) []any {\n\t%s := deriveJoinE%s(f, err)\n\treturn []any{%s}\n}\n", id, fsig.FuncType(p.T), strings.Join(vs, ", "), id, strings.Join(vs, ", "))
		e.Funcs["joinerr"] = "JoinErr" + id
		// the (T, error) tuple form: deriveJoin(f()) where f returns (func() (T..., error), error)
		e.Tags["form"] = "joinerr"
		e.Tags["nresults"] = fmt.Sprint(n)
	case "traverse":
		a, b := rtype(), rtype()
		fsig := &progen.Sig{Params: unnamed([]*progen.Type{a}), Results: withErr([]*progen.Type{b})}
		if !used.Claim("traverse|" + fsig.TypeKey()) {
			return
		}
		e := s.newFuncEntry(id, fsig)
		p.Add("func Traverse%s(f %s, l []%s) ([]%s, error) {\n\treturn deriveTraverse%s(f, l)\n}\n", id, fsig.FuncType(p.T), p.T(a), p.T(b), id)
		e.Funcs["traverse"] = "Traverse" + id
		e.Tags["form"] = "traverse"
	case "toerror":
		modes := []string{"named", "blank", "hostile", "hostile", "minted"}
		if !o.Avoid["C15-unnamed-params"] {
			modes = append(modes, "unnamed")
		}
		n := rapid.IntRange(0, 3).Draw(rt, "te-nparams")
		names := progen.NameParams(rt, n, modes[rapid.IntRange(0, len(modes)-1).Draw(rt, "te-mode")])
		var ps []progen.Param
		for i := 0; i < n; i++ {
			pt := env.DrawSigType(rt, true)
			if (names[i] == "e" || names[i] == "err" || names[i] == "c") && rapid.Bool().Draw(rt, "te-errparam") {
				// a parameter that could be mistaken for the supplied error
				pt = progen.ErrorT()
			}
			ps = append(ps, progen.Param{Name: names[i], Type: pt})
		}
		// any number of results besides the bool (generators that build their lists by appending behave
		// differently at 3, 5, 6 and 7 elements than at 0, 1, 2, 4 and 8)
		outs := rlist(0, 7)
		fsig := &progen.Sig{Params: ps, Results: append(append([]*progen.Type{}, outs...), progen.B("bool"))}
		if !used.Claim("toerror|" + fsig.TypeKey()) {
			return
		}
		e := s.newFuncEntry(id, fsig)
		p.Add("func ToError%s(err error, f %s) any {\n\treturn deriveToError%s(err, f)\n}\n", id, fsig.FuncType(p.T), id)
		e.Funcs["toerror"] = "ToError" + id
		e.Tags["form"] = "toerror"
	}
}

// claimTuple reserves the parameter type list for deriveTuple. goderive's table matches by
// assignability, so an interface{} position matches any type and error matches error.
func claimTuple(used progen.Used, sig *progen.Sig) bool {
	q := progen.Qual{Subj: "p", Canon: true}
	var ks []string
	for _, pa := range sig.Params {
		k := progen.AssignKey(pa.Type)
		if pa.Type.Kind == progen.Iface {
			k = pa.Type.Str(q)
		}
		ks = append(ks, k)
	}
	match := func(a, b string) bool {
		return a == b || a == "interface{}" || b == "interface{}" || a == "any" || b == "any"
	}
	for prev := range used {
		if !strings.HasPrefix(prev, "tuple|") {
			continue
		}
		ps := strings.Split(strings.TrimPrefix(prev, "tuple|"), "\x00")
		if len(ps) != len(ks) {
			continue
		}
		all := true
		for i := range ps {
			if !match(ps[i], ks[i]) {
				all = false
			}
		}
		if all {
			return false
		}
	}
	used["tuple|"+strings.Join(ks, "\x00")] = true
	return true
}
