package e2

import (
	"fmt"
	"os"
	"path/filepath"

	"verif/internal/chanrewrite"
	"verif/internal/gorun"
	"verif/internal/pkit"
	"verif/internal/progen"
)

// ConcurrentSubject is the fixed subject package for the concurrency helpers (C19, C20): the generated
// space there is configurations x schedules, not programs.
func ConcurrentSubject() *Subject {
	env := &progen.Env{}
	p := progen.NewProg(env)
	s := &Subject{Prog: p}
	p.Add(`var Anchor = 0

// Item is tagged with its input channel and sequence number, so exactly-once and order are decidable.
type Item struct {
	Ch, Seq int
	Mapped  bool
}

func FmapChan(f func(Item) Item, in <-chan Item) <-chan Item {
	return deriveFmapC(f, in)
}

func Dup(c <-chan Item) (<-chan Item, <-chan Item) {
	return deriveDupR(c)
}

func JoinRR(in <-chan (<-chan Item)) <-chan Item {
	return deriveJoinRR(in)
}

func JoinSliceR(in []<-chan Item) <-chan Item {
	return deriveJoinSliceR(in)
}

func JoinSliceS(in []chan Item) <-chan Item {
	return deriveJoinSliceS(in)
}

func JoinV2(a, b chan Item) <-chan Item {
	return deriveJoinV2(a, b)
}

func JoinV3(a <-chan Item, b chan Item, c <-chan Item) <-chan Item {
	return deriveJoinV3(a, b, c)
}

func JoinV4(a, b, c, d chan Item) <-chan Item {
	return deriveJoinV4(a, b, c, d)
}

func Pipeline(f func(int) <-chan Item, g func(Item) <-chan Item) func(int) <-chan Item {
	return derivePipelineP(f, g)
}

func Do2(f0, f1 func() (int, error)) (int, int, error) {
	return deriveDo2(f0, f1)
}

func Do3(f0, f1, f2 func() (int, error)) (int, int, int, error) {
	return deriveDo3(f0, f1, f2)
}

func Do4(f0, f1, f2, f3 func() (int, error)) (int, int, int, int, error) {
	return deriveDo4(f0, f1, f2, f3)
}

// Namer is an interface-typed result: a function that fails returns the nil interface next to its error.
type Namer interface{ Name() string }

// Tag is the Namer the functions return.
type Tag int

func (t Tag) Name() string { return "tag" }

func DoM2(f0 func() (Namer, error), f1 func() (int, error)) (Namer, int, error) {
	return deriveDoM2(f0, f1)
}

func DoM3(f0 func() (int, error), f1 func() (interface{}, error), f2 func() (Namer, error)) (int, interface{}, Namer, error) {
	return deriveDoM3(f0, f1, f2)
}
`)
	// chan T is assignable to <-chan T, so the bidirectional forms live in a package of their own
	// (one package cannot name two functions for argument types that are assignable to each other)
	p.Extra["p2/calls.go"] = `package p2

import "subj/p"

func DupS(c chan p.Item) (<-chan p.Item, <-chan p.Item) {
	return deriveDupS(c)
}

func JoinSR(in chan (<-chan p.Item)) <-chan p.Item {
	return deriveJoinSR(in)
}
`
	e := &Entry{ID: "conc", TypeStr: "p.Item", Funcs: map[string]string{}, Tags: map[string]string{}, Imports: map[string]bool{}}
	s.Entries = append(s.Entries, e)
	return s
}

// ModelAfterGenerate rewrites the derived concurrency helpers of packages p and p2 onto the model
// scheduler (packages modelp, modelp2) and adds the scheduler library to the subject module.
func ModelAfterGenerate(c *pkit.Ctx) func(dir string) error {
	return func(dir string) error {
		for _, pkg := range []string{"p", "p2"} {
			_, model, declined, err := chanrewrite.ModelFor(dir, pkg)
			if err != nil {
				return err
			}
			if len(declined) > 0 {
				c.Rep.Class("model-rewrite-declined")
				return fmt.Errorf("the rewriter declined package %s (%v): only the real-runtime engine ran", pkg, declined)
			}
			if err := gorun.WriteFiles(dir, map[string]string{"model" + pkg + "/model.go": model}); err != nil {
				return err
			}
		}
		b, err := os.ReadFile(filepath.Join(gorun.VerifDir(), "subjectlib", "sched", "sched.go"))
		if err != nil {
			return err
		}
		return gorun.WriteFiles(dir, map[string]string{"sched/sched.go": string(b)})
	}
}
