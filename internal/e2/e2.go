// Package e2 is the value-level engine: it turns a generated subject package into a module with a
// reflection registry and a harness test binary, runs goderive on it, runs the harness (which draws
// values with rapid and applies the property's oracle) and folds the harness report into the shard's.
package e2

import (
	"fmt"
	"os"
	"path/filepath"
	"regexp"
	"sort"
	"strconv"
	"strings"
	"time"

	"pgregory.net/rapid"

	"verif/internal/gorun"
	"verif/internal/pkit"
	"verif/internal/progen"
	"verif/subjectlib/vrep"
)

// Entry is one registered type/signature of a subject.
type Entry struct {
	ID      string
	TypeStr string            // type expression as seen from the harness package
	Funcs   map[string]string // role -> wrapper function name in package p
	Tags    map[string]string
	Imports map[string]bool // ext imports needed by TypeStr
	Extra   string          // optional Go expression for Entry.Extra (map[string]any literal body)
}

// Subject is a generated subject module.
type Subject struct {
	Prog    *progen.Prog
	Entries []*Entry
	// HarnessExtra holds additional harness source files (name -> content).
	HarnessExtra map[string]string
}

// NewEntry makes an entry for a type.
func (s *Subject) NewEntry(id string, t *progen.Type) *Entry {
	e := &Entry{ID: id, TypeStr: s.Prog.HT(t), Funcs: map[string]string{}, Tags: map[string]string{}, Imports: map[string]bool{}}
	s.Prog.NoteHarnessImports(t, e.Imports)
	for _, f := range t.Features() {
		e.Tags["f:"+f] = "1"
	}
	// every imported package that a printed value of this type can name (C06 groups its second stage by it)
	var xs []string
	for _, d := range t.Decls() {
		if d.Pkg != nil {
			ip := d.Pkg.ImportPath() + "=" + d.Pkg.Name
			dup := false
			for _, x := range xs {
				dup = dup || x == ip
			}
			if !dup {
				xs = append(xs, ip)
			}
		}
	}
	sort.Strings(xs)
	e.Tags["extpkgs"] = strings.Join(xs, ",")
	s.Entries = append(s.Entries, e)
	return e
}

func readDirFiles(dir, prefix string, rename func(string) string) map[string]string {
	out := map[string]string{}
	ents, err := os.ReadDir(dir)
	if err != nil {
		panic(err)
	}
	for _, en := range ents {
		if en.IsDir() {
			continue
		}
		b, err := os.ReadFile(filepath.Join(dir, en.Name()))
		if err != nil {
			panic(err)
		}
		name := en.Name()
		if rename != nil {
			name = rename(name)
			if name == "" {
				continue
			}
		}
		out[prefix+name] = string(b)
	}
	return out
}

// Files renders the whole module: subject packages, vref/vrep copies, registry and harness.
func (s *Subject) Files(harness string) map[string]string {
	s.Prog.WithRapid = true
	files := s.Prog.Files()
	verif := gorun.VerifDir()
	for k, v := range readDirFiles(filepath.Join(verif, "subjectlib", "vref"), "vref/", func(n string) string {
		if strings.HasSuffix(n, "_test.go") || !strings.HasSuffix(n, ".go") {
			return ""
		}
		return n
	}) {
		files[k] = v
	}
	for k, v := range readDirFiles(filepath.Join(verif, "subjectlib", "vrep"), "vrep/", func(n string) string {
		if strings.HasSuffix(n, "_test.go") || !strings.HasSuffix(n, ".go") {
			return ""
		}
		return n
	}) {
		files[k] = v
	}
	txt := func(n string) string {
		if strings.HasSuffix(n, ".go.txt") {
			return strings.TrimSuffix(n, ".txt")
		}
		return ""
	}
	for k, v := range readDirFiles(filepath.Join(verif, "harness", "common"), "h/", txt) {
		files[k] = v
	}
	for k, v := range readDirFiles(filepath.Join(verif, "harness", harness), "h/", txt) {
		files[k] = v
	}
	for k, v := range s.HarnessExtra {
		files["h/"+k] = v
	}
	files["h/reg_test.go"] = s.registry()
	if b, err := os.ReadFile(filepath.Join(verif, "go.sum")); err == nil {
		files["go.sum"] = string(b)
	}
	return files
}

func (s *Subject) registry() string {
	imps := map[string]bool{}
	var sb strings.Builder
	for _, e := range s.Entries {
		for k := range e.Imports {
			imps[k] = true
		}
	}
	sb.WriteString("package h\n\nimport (\n\t\"reflect\"\n\n\tp \"subj/p\"\n\t\"subj/vref\"\n")
	var il []string
	for k := range imps {
		dir := strings.TrimPrefix(k, "ext:")
		il = append(il, fmt.Sprintf("\t%s %q\n", s.Prog.Alias[dir], "subj/"+dir))
	}
	sort.Strings(il)
	sb.WriteString(strings.Join(il, ""))
	sb.WriteString(")\n\nvar _ = p.Anchor\n\nvar Registry = []Entry{\n")
	for _, e := range s.Entries {
		fmt.Fprintf(&sb, "\t{ID: %q, Type: reflect.TypeOf((*%s)(nil)).Elem(), TypeStr: %q,\n\t\tFuncs: map[string]any{", e.ID, e.TypeStr, e.TypeStr)
		roles := make([]string, 0, len(e.Funcs))
		for r := range e.Funcs {
			roles = append(roles, r)
		}
		sort.Strings(roles)
		for _, r := range roles {
			fmt.Fprintf(&sb, "%q: p.%s, ", r, e.Funcs[r])
		}
		sb.WriteString("},\n\t\tTags: map[string]string{")
		tags := make([]string, 0, len(e.Tags))
		for k := range e.Tags {
			tags = append(tags, k)
		}
		sort.Strings(tags)
		for _, k := range tags {
			fmt.Fprintf(&sb, "%q: %q, ", k, e.Tags[k])
		}
		sb.WriteString("},\n")
		if e.Extra != "" {
			fmt.Fprintf(&sb, "\t\tExtra: map[string]any{%s},\n", e.Extra)
		}
		sb.WriteString("\t},\n")
	}
	sb.WriteString("}\n\n")
	// which types declare their own Equal / Compare is known to the generator: the reference need not guess
	// it from method sets (reflection also lists methods promoted from embedded fields, go/types does not)
	sb.WriteString("func init() {\n\tvref.Declared = map[string]map[reflect.Type]bool{\"Equal\": {}, \"Compare\": {}}\n")
	if s.Prog != nil && s.Prog.Env != nil {
		for _, d := range s.Prog.Env.AllDecls() {
			if d.Pkg != nil {
				continue
			}
			if d.UserEqual != "" {
				fmt.Fprintf(&sb, "\tvref.Declared[\"Equal\"][reflect.TypeOf((*p.%s)(nil)).Elem()] = true\n", d.Name)
			}
			if d.UserCompare != "" {
				fmt.Fprintf(&sb, "\tvref.Declared[\"Compare\"][reflect.TypeOf((*p.%s)(nil)).Elem()] = true\n", d.Name)
			}
		}
	}
	sb.WriteString("}\n")
	return progen.Gofmt(sb.String())
}

// Outcome of one subject case.
type Outcome struct {
	Report     *vrep.Report
	GenFailed  string // non-empty: goderive or the compiler rejected the subject (not this property's concern)
	Files      map[string]string
	HarnessOut string
	Seed       uint64 // PRNG value the harness ran with
}

// Options for RunCase.
type Options struct {
	Property string
	Harness  string
	Checks   int  // rapid checks per entry inside the harness
	Go126    bool // build/run the harness with go1.26.8 (synctest)
	Race     bool
	Env      []string
	EnvFn    func(dir string) []string // extra environment depending on the case directory
	Patterns []string                  // goderive package patterns (default ./p)
	Args     []string                  // goderive flags
	Timeout  time.Duration
	RejectOK bool // do not treat a rejected subject as a violation
	// AfterGenerate runs after goderive succeeded and before the harness is built (e.g. to derive further
	// packages from the generated code); an error skips the case with a note.
	AfterGenerate func(dir string) error
	TestRun       string // -test.run pattern of the harness (default ^TestH)
	// CrashIsViolation: the harness process dying (unrecovered panic in a goroutine of the code under
	// test, e.g. send on closed channel) or a data race report is a violation, described by the case log.
	CrashIsViolation bool
	// Post runs after a harness run without violations, before the case directory is removed;
	// rerun executes the same harness binary again (same seed) with extra environment.
	Post func(dir string, rerun func(extraEnv []string) gorun.Result)
}

// RunCase materialises the subject, runs goderive and the harness, and merges the harness report.
// A harness violation becomes a pending violation of the outer rapid property (c.Fail).
func RunCase(c *pkit.Ctx, rt *rapid.T, s *Subject, o Options) *Outcome {
	out := &Outcome{}
	files := s.Files(o.Harness)
	out.Files = files
	dir := c.CaseDir()
	defer os.RemoveAll(dir)
	if err := gorun.WriteFiles(dir, files); err != nil {
		c.Rep.Inconcl("write files: %v", err)
		return out
	}
	pats := o.Patterns
	if len(pats) == 0 {
		pats = []string{"./p"}
	}
	res := gorun.RunGoderive(dir, append(append([]string{}, o.Args...), pats...)...)
	if res.Err != nil || res.TimedOut {
		c.Rep.Inconcl("goderive did not run: %v timeout=%v", res.Err, res.TimedOut)
		return out
	}
	if res.Exit != 0 {
		out.GenFailed = "goderive exit " + strconv.Itoa(res.Exit) + ": " + pkit.FirstLines(res.Stderr, 3)
		c.Rep.Class("subject-rejected:goderive")
		c.Rep.Note("subject rejected by goderive: %s", pkit.Trunc(out.GenFailed, 300))
		rejected(c, rt, o, files, "goderive-exit", out.GenFailed)
		return out
	}
	if o.AfterGenerate != nil {
		if err := o.AfterGenerate(dir); err != nil {
			c.Rep.Class("skipped:after-generate")
			c.Rep.Note("case skipped: %v", err)
			return out
		}
	}
	gobin := gorun.Go
	if o.Go126 {
		gobin = gorun.Go126
	}
	targs := []string{"test", "-c", "-o", "h.test"}
	if o.Race {
		targs = append(targs, "-race")
	}
	targs = append(targs, "./h")
	b := gobin(dir, 15*time.Minute, targs...)
	if b.Exit != 0 || b.TimedOut {
		if strings.Contains(b.Stderr, "derived.gen.go") && !strings.Contains(b.Stderr, "h/") {
			out.GenFailed = "derived.gen.go does not compile: " + pkit.FirstLines(b.Stderr, 4)
			c.Rep.Class("subject-rejected:compile")
			c.Rep.Note("generated code does not compile: %s", pkit.Trunc(out.GenFailed, 400))
			rejected(c, rt, o, files, "does-not-compile", out.GenFailed)
			return out
		}
		c.Rep.Inconcl("harness build failed: %s", pkit.Trunc(b.Stderr, 1500))
		return out
	}
	repPath := filepath.Join(dir, "harness-report.json")
	seed := rapid.Uint64Range(1, 1<<62).Draw(rt, "harness-seed")
	out.Seed = seed
	var activeIDs []string
	for id := range c.ActiveSet() {
		activeIDs = append(activeIDs, id)
	}
	sort.Strings(activeIDs)
	env := append(os.Environ(), "VERIF_REPORT="+repPath, "VERIF_PROPERTY="+o.Property,
		"VERIF_FINDINGS="+filepath.Join(gorun.VerifDir(), "known_findings.json"), "VERIF_ACTIVE_IDS="+strings.Join(activeIDs, ","),
		"VERIF_TIER="+c.Tier)
	env = append(env, o.Env...)
	if o.EnvFn != nil {
		env = append(env, o.EnvFn(dir)...)
	}
	to := o.Timeout
	if to == 0 {
		to = 20 * time.Minute
	}
	pattern := o.TestRun
	if pattern == "" {
		pattern = "^TestH"
	}
	args := []string{"-test.run", pattern, "-test.timeout", "0", "-rapid.checks=" + strconv.Itoa(o.Checks),
		"-rapid.seed=" + strconv.FormatUint(seed, 10), "-rapid.nofailfile", "-rapid.shrinktime=20s"}
	hr := gorun.Run(filepath.Join(dir, "h"), to, env, filepath.Join(dir, "h.test"), args...)
	out.HarnessOut = hr.Stdout + hr.Stderr
	if o.CrashIsViolation && !hr.TimedOut {
		last := ""
		for _, kv := range env {
			if strings.HasPrefix(kv, "VERIF_CASELOG=") {
				if b, err := os.ReadFile(strings.TrimPrefix(kv, "VERIF_CASELOG=")); err == nil {
					last = strings.TrimSpace(string(b))
				}
			}
		}
		keepFiles := func() map[string]string {
			keep := map[string]string{}
			for k, val := range files {
				if strings.HasPrefix(k, "vref/") || strings.HasPrefix(k, "vrep/") || k == "go.sum" {
					continue
				}
				keep[k] = val
			}
			return keep
		}
		meta := map[string]any{"entry": "conc", "harness": o.Harness, "harness_seed": strconv.FormatUint(seed, 10), "checks": o.Checks, "go126": o.Go126, "race": o.Race,
			"env": o.Env, "patterns": o.Patterns, "test_run": o.TestRun}
		if strings.Contains(out.HarnessOut, "WARNING: DATA RACE") {
			i := strings.Index(out.HarnessOut, "WARNING: DATA RACE")
			c.Fail(rt, map[string]string{"check": "data-race"}, "the race detector reported a data race\n last configuration: "+last+"\n"+pkit.Trunc(out.HarnessOut[i:], 2500), keepFiles(), meta)
			return out
		}
		if _, err := os.Stat(repPath); err != nil && hr.Exit != 0 {
			cls := "crash"
			for _, l := range strings.Split(out.HarnessOut, "\n") {
				if strings.HasPrefix(l, "panic: ") || strings.HasPrefix(l, "fatal error: ") {
					cls = strings.TrimSpace(l)
					break
				}
			}
			c.Fail(rt, map[string]string{"check": "crash", "class": pkit.Trunc(cls, 100)}, "the harness process died: "+cls+"\n last configuration: "+last+"\n"+pkit.Trunc(out.HarnessOut, 2500), keepFiles(), meta)
			return out
		}
	}
	rep, err := vrep.Read(repPath)
	if err != nil || hr.TimedOut {
		c.Rep.Inconcl("harness produced no report (exit %d timeout %v): %s", hr.Exit, hr.TimedOut, pkit.Trunc(out.HarnessOut, 1500))
		return out
	}
	out.Report = rep
	viol := rep.Violations
	rep.Violations = nil
	c.Rep.Merge(rep)
	if hr.Exit != 0 && len(viol) == 0 {
		c.Rep.Inconcl("harness exited %d without a violation: %s", hr.Exit, pkit.Trunc(out.HarnessOut, 1500))
		return out
	}
	if len(viol) == 0 && o.Post != nil {
		o.Post(dir, func(extra []string) gorun.Result {
			return gorun.Run(filepath.Join(dir, "h"), to, append(append([]string{}, env...), extra...), filepath.Join(dir, "h.test"), args...)
		})
	}
	if len(viol) > 0 {
		v := viol[0]
		entry := v.Signature["entry"]
		delete(v.Signature, "entry")
		derived, _ := os.ReadFile(filepath.Join(dir, "p", gorun.DerivedFile))
		keep := map[string]string{}
		for k, val := range files {
			if strings.HasPrefix(k, "vref/") || strings.HasPrefix(k, "vrep/") || k == "go.sum" {
				continue
			}
			keep[k] = val
		}
		keep["p/derived.gen.go.observed"] = string(derived)
		c.Fail(rt, v.Signature, v.Message+"\n--- harness output (tail)\n"+tailStr(out.HarnessOut, 2500), keep,
			map[string]any{"entry": entry, "harness": o.Harness, "harness_seed": strconv.FormatUint(seed, 10), "checks": o.Checks, "go126": o.Go126, "race": o.Race,
				"env": o.Env, "patterns": o.Patterns, "test_run": o.TestRun})
	}
	return out
}

var reDigits = regexp.MustCompile(`[0-9]+`)
var rePosn = regexp.MustCompile(`[a-zA-Z0-9_/.\-]+\.go:\d+:\d+:?\s*`)

// rejected reports a subject that lies inside the property's domain (every generator only draws
// supported forms) but for which goderive fails or emits code that does not compile: the derived
// function the property talks about cannot even be called.
func rejected(c *pkit.Ctx, rt *rapid.T, o Options, files map[string]string, kind, detail string) {
	if o.RejectOK {
		return
	}
	lines := strings.Split(detail, "\n")
	cls := lines[0]
	for _, l := range lines {
		if strings.Contains(l, ".go:") {
			cls = l
			break
		}
	}
	cls = rePosn.ReplaceAllString(cls, "")
	cls = reDigits.ReplaceAllString(cls, "N")
	keep := map[string]string{}
	for k, val := range files {
		if strings.HasPrefix(k, "vref/") || strings.HasPrefix(k, "vrep/") || k == "go.sum" || strings.HasPrefix(k, "h/") {
			continue
		}
		keep[k] = val
	}
	c.Fail(rt, map[string]string{"check": "generation", "kind": kind, "class": pkit.Trunc(strings.TrimSpace(cls), 140)},
		"a subject package drawn from the supported forms was rejected: "+detail, keep, map[string]any{"harness": o.Harness})
}

func tailStr(s string, n int) string {
	if len(s) <= n {
		return s
	}
	return "…" + s[len(s)-n:]
}

// Replay re-runs a saved E2 case: goderive on the saved sources, harness restricted to the failing entry.
func Replay(c *pkit.Ctx, dir string) (bool, string) { return ReplayOpts(c, dir, nil, nil) }

// ReplayOpts is Replay with extra harness environment and a second stage that runs when the harness
// itself reports nothing.
func ReplayOpts(c *pkit.Ctx, dir string, envFn func(dir string) []string, post func(dir string) (bool, string)) (bool, string) {
	meta, files, err := pkit.ReadReplay(dir)
	if err != nil {
		return false, err.Error()
	}
	harness, _ := meta["harness"].(string)
	entry, _ := meta["entry"].(string)
	seedS, _ := meta["harness_seed"].(string)
	checksF, _ := meta["checks"].(float64)
	go126, _ := meta["go126"].(bool)
	race, _ := meta["race"].(bool)
	delete(files, "p/derived.gen.go.observed")
	delete(files, "p/derived.gen.go")
	verif := gorun.VerifDir()
	for _, lib := range []string{"vref", "vrep"} {
		for k, v := range readDirFiles(filepath.Join(verif, "subjectlib", lib), lib+"/", func(n string) string {
			if strings.HasSuffix(n, "_test.go") || !strings.HasSuffix(n, ".go") {
				return ""
			}
			return n
		}) {
			files[k] = v
		}
	}
	if b, err := os.ReadFile(filepath.Join(verif, "go.sum")); err == nil {
		files["go.sum"] = string(b)
	}
	cd := c.CaseDir()
	defer os.RemoveAll(cd)
	gorun.WriteFiles(cd, files)
	patterns := []string{"./p"}
	if _, ok := files["p2/calls.go"]; ok {
		patterns = append(patterns, "./p2")
	}
	res := gorun.RunGoderive(cd, patterns...)
	if res.Exit != 0 {
		return false, "goderive: " + res.Stderr
	}
	model := strings.HasSuffix(harness, "m")
	if model {
		if err := ModelAfterGenerate(c)(cd); err != nil {
			return false, "no report: model rewrite: " + err.Error()
		}
	}
	gobin := gorun.Go
	if go126 {
		gobin = gorun.Go126
	}
	hasHarness := false
	for k := range files {
		if strings.HasPrefix(k, "h/") {
			hasHarness = true
		}
	}
	// The case includes that goderive accepts the subject and that its output compiles (check=generation).
	if b := gobin(cd, 15*time.Minute, append([]string{"build"}, patterns...)...); b.Exit != 0 {
		return false, "derived.gen.go does not compile: " + b.Stderr
	}
	if !hasHarness {
		return true, ""
	}
	targs := []string{"test", "-c", "-o", "h.test"}
	if race {
		targs = append(targs, "-race")
	}
	b := gobin(cd, 15*time.Minute, append(targs, "./h")...)
	if b.Exit != 0 {
		return false, "no report: the saved harness does not build: " + b.Stderr
	}
	repPath := filepath.Join(cd, "rep.json")
	env := append(os.Environ(), "VERIF_REPORT="+repPath, "VERIF_PROPERTY="+c.Property, "VERIF_ONLY_ENTRY="+entry,
		"VERIF_FINDINGS="+filepath.Join(verif, "known_findings.json"))
	testRun := "^TestH"
	if tr, _ := meta["test_run"].(string); tr != "" {
		testRun = tr
	} else if model {
		testRun = "^TestHModel$"
	}
	if xs, ok := meta["env"].([]any); ok {
		for _, x := range xs {
			if kv, _ := x.(string); kv != "" && !strings.HasPrefix(kv, "VERIF_CASELOG=") {
				env = append(env, kv)
			}
		}
	}
	if envFn != nil {
		env = append(env, envFn(cd)...)
	}
	hr := gorun.Run(filepath.Join(cd, "h"), 20*time.Minute, env, filepath.Join(cd, "h.test"), "-test.run", testRun, "-test.timeout", "0",
		"-rapid.checks="+strconv.Itoa(int(checksF)), "-rapid.seed="+seedS, "-rapid.nofailfile")
	if ho := hr.Stdout + hr.Stderr; strings.Contains(ho, "WARNING: DATA RACE") {
		return false, "the race detector reported a data race\n" + pkit.Trunc(ho[strings.Index(ho, "WARNING: DATA RACE"):], 2000)
	} else if _, err := os.Stat(repPath); err != nil && hr.Exit != 0 && !hr.TimedOut &&
		(strings.Contains(ho, "\npanic: ") || strings.Contains(ho, "fatal error: ") || strings.HasPrefix(ho, "panic: ")) {
		return false, "the harness process died: " + pkit.Trunc(ho, 2000)
	}
	rep, err := vrep.Read(repPath)
	if err != nil {
		return false, "no report: " + hr.Stdout + hr.Stderr
	}
	if len(rep.Violations) > 0 {
		return false, rep.Violations[0].Message
	}
	if post != nil {
		return post(cd)
	}
	return true, ""
}
