package chanrewrite_test

import (
	"go/ast"
	"os"
	"path/filepath"
	"strings"
	"testing"
	"time"

	"verif/internal/chanrewrite"
	"verif/internal/e2"
	"verif/internal/gorun"
)

// TestRewriteConcurrentSubject rewrites the generated helpers of the concurrency subject and compiles the
// result against subjectlib/sched.
func TestRewriteConcurrentSubject(t *testing.T) {
	dir := t.TempDir()
	bin := filepath.Join(dir, "goderive")
	if err := gorun.BuildGoderive(bin); err != nil {
		t.Fatal(err)
	}
	os.Setenv("VERIF_GODERIVE", bin)
	s := e2.ConcurrentSubject()
	files := s.Prog.Files()
	mod := filepath.Join(dir, "m")
	gorun.WriteFiles(mod, files)
	if r := gorun.RunGoderive(mod, "./p", "./p2"); r.Exit != 0 {
		t.Fatalf("goderive: %s", r.Stderr)
	}
	for _, pkg := range []string{"p", "p2"} {
		src, model, declined, err := chanrewrite.ModelFor(mod, pkg)
		if err != nil {
			t.Fatalf("%s: %v", pkg, err)
		}
		if len(declined) > 0 {
			t.Fatalf("%s: declined: %v\n%s", pkg, declined, model)
		}
		_ = src
		gorun.WriteFiles(mod, map[string]string{"model" + pkg + "/model.go": model})
		if pkg == "p" {
			t.Logf("model of p:\n%s", firstLines(model, 60))
		}
	}
	// sched library into the module, then build
	verif := gorun.VerifDir()
	b, _ := os.ReadFile(filepath.Join(verif, "subjectlib", "sched", "sched.go"))
	gorun.WriteFiles(mod, map[string]string{"sched/sched.go": string(b)})
	r := gorun.Go(mod, 5*time.Minute, "vet", "./modelp", "./modelp2")
	if r.Exit != 0 {
		t.Fatalf("rewritten model does not compile:\n%s", r.Stderr)
	}
}

func firstLines(s string, n int) string {
	l := strings.Split(s, "\n")
	if len(l) > n {
		l = l[:n]
	}
	return strings.Join(l, "\n")
}

var _ = ast.NewIdent
