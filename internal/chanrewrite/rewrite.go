// Package chanrewrite rewrites goderive's generated concurrency helpers from chan / go / select /
// sync.WaitGroup onto the cooperative scheduler API of subjectlib/sched, so that their interleavings can
// be enumerated. Anything it does not understand makes it decline: it never guesses.
package chanrewrite

import (
	"bytes"
	"fmt"
	"go/ast"
	"go/format"
	"go/parser"
	"go/token"
	"go/types"
	"regexp"
	"strings"

	"golang.org/x/tools/go/ast/astutil"
)

// Result of a rewrite.
type Result struct {
	Source   string
	Funcs    []string
	Declined []string // reasons, per function or global
}

type rewriter struct {
	fset     *token.FileSet
	info     *types.Info
	declined []string
	nsel     int
	// atomicStmts are the expression statements that consist of one operation of sync/atomic
	atomicStmts map[*ast.ExprStmt]bool
}

// typeExpr spells the type of an expression as seen from the rewritten package.
func (r *rewriter) typeExpr(e ast.Expr) ast.Expr {
	t := r.info.TypeOf(e)
	if t == nil {
		return nil
	}
	if _, isTuple := t.(*types.Tuple); isTuple {
		return nil
	}
	text := types.TypeString(t, func(p *types.Package) string { return p.Name() })
	x, err := parser.ParseExpr(text)
	if err != nil {
		return nil
	}
	return x
}

// isAtomicOp reports whether the call is a function of sync/atomic or a method of one of its types.
func (r *rewriter) isAtomicOp(call *ast.CallExpr) bool {
	if r.info == nil {
		return false
	}
	var id *ast.Ident
	switch f := call.Fun.(type) {
	case *ast.SelectorExpr:
		id = f.Sel
	case *ast.Ident:
		id = f
	default:
		return false
	}
	fn, ok := r.info.Uses[id].(*types.Func)
	return ok && fn.Pkg() != nil && fn.Pkg().Path() == "sync/atomic"
}

func (r *rewriter) decline(format string, a ...any) {
	r.declined = append(r.declined, fmt.Sprintf(format, a...))
}

func (r *rewriter) isChan(e ast.Expr) bool {
	if r.info == nil {
		return false
	}
	t := r.info.TypeOf(e)
	if t == nil {
		return false
	}
	_, ok := t.Underlying().(*types.Chan)
	return ok
}

func sel(x, name string) *ast.SelectorExpr {
	return &ast.SelectorExpr{X: ast.NewIdent(x), Sel: ast.NewIdent(name)}
}

func method(x ast.Expr, name string, args ...ast.Expr) *ast.CallExpr {
	return &ast.CallExpr{Fun: &ast.SelectorExpr{X: x, Sel: ast.NewIdent(name)}, Args: args}
}

// chanType turns `chan T` into *sched.Chan[T].
func (r *rewriter) chanType(ct *ast.ChanType) ast.Expr {
	return &ast.StarExpr{X: &ast.IndexExpr{X: sel("sched", "Chan"), Index: ct.Value}}
}

// Rewrite transforms the generated file. pkgName is the package of the output; typeAliases are emitted
// so that element types of the original package resolve (e.g. "type Item = p.Item").
func Rewrite(src []byte, info *types.Info, fset *token.FileSet, file *ast.File, pkgName string, header string) (*Result, error) {
	r := &rewriter{fset: fset, info: info, atomicStmts: map[*ast.ExprStmt]bool{}}
	res := &Result{}
	// statements first (they need the original types), types afterwards; post-order, so that the
	// children of a statement are already rewritten when the statement itself is rebuilt
	astutil.Apply(file, nil, func(c *astutil.Cursor) bool {
		switch n := c.Node().(type) {
		case *ast.GoStmt:
			fl, ok := n.Call.Fun.(*ast.FuncLit)
			if !ok || len(n.Call.Args) != 0 {
				r.decline("go statement that is not `go func() {...}()`")
				return true
			}
			c.Replace(&ast.ExprStmt{X: method(ast.NewIdent("S"), "Go", fl)})
		case *ast.SendStmt:
			if cc, ok := c.Parent().(*ast.CommClause); ok && cc.Comm == ast.Stmt(n) {
				return true // a select alternative: handled with the select statement
			}
			c.Replace(&ast.ExprStmt{X: method(n.Chan, "Send", n.Value)})
		case *ast.RangeStmt:
			if r.isChan(n.X) {
				if n.Value != nil {
					r.decline("range over channel with two variables")
					return true
				}
				r.nsel++
				okName := ast.NewIdent(fmt.Sprintf("ok_%d", r.nsel))
				var key ast.Expr = ast.NewIdent("_")
				if n.Key != nil {
					key = n.Key
				}
				recv := &ast.AssignStmt{Lhs: []ast.Expr{key, okName}, Tok: token.DEFINE, Rhs: []ast.Expr{method(n.X, "Recv")}}
				brk := &ast.IfStmt{Cond: &ast.UnaryExpr{Op: token.NOT, X: okName}, Body: &ast.BlockStmt{List: []ast.Stmt{&ast.BranchStmt{Tok: token.BREAK}}}}
				body := &ast.BlockStmt{List: append([]ast.Stmt{recv, brk}, n.Body.List...)}
				c.Replace(&ast.ForStmt{Body: body})
			}
		case *ast.SelectStmt:
			r.nsel++
			id := r.nsel
			var cases []ast.Expr
			var clauses []ast.Stmt
			hasDefault := "false"
			for i, cl := range n.Body.List {
				cc := cl.(*ast.CommClause)
				if cc.Comm == nil {
					hasDefault = "true"
					clauses = append(clauses, &ast.CaseClause{List: []ast.Expr{&ast.UnaryExpr{Op: token.SUB, X: &ast.BasicLit{Kind: token.INT, Value: "1"}}}, Body: cc.Body})
					continue
				}
				idx := &ast.BasicLit{Kind: token.INT, Value: fmt.Sprint(len(cases))}
				switch st := cc.Comm.(type) {
				case *ast.AssignStmt:
					ue, ok := st.Rhs[0].(*ast.UnaryExpr)
					if !ok || ue.Op != token.ARROW || (st.Tok != token.DEFINE && st.Tok != token.ASSIGN) {
						r.decline("select case %d is not a receive with := or =", i)
						return true
					}
					cases = append(cases, method(ue.X, "RecvCase"))
					// v, ok := sched.As[T](_v), _ok
					var pre []ast.Stmt
					elemT := r.elemTypeExpr(ue.X)
					if elemT == nil {
						r.decline("cannot determine element type in select case %d", i)
						return true
					}
					as := &ast.CallExpr{Fun: &ast.IndexExpr{X: sel("sched", "As"), Index: elemT}, Args: []ast.Expr{ast.NewIdent(fmt.Sprintf("sv_%d", id))}}
					lhs := []ast.Expr{st.Lhs[0]}
					rhs := []ast.Expr{as}
					if len(st.Lhs) == 2 {
						lhs = append(lhs, st.Lhs[1])
						rhs = append(rhs, ast.NewIdent(fmt.Sprintf("sok_%d", id)))
					}
					pre = append(pre, &ast.AssignStmt{Lhs: lhs, Tok: st.Tok, Rhs: rhs})
					// silence "declared and not used" for v / ok
					for _, l := range lhs {
						if idn, ok := l.(*ast.Ident); ok && idn.Name != "_" && st.Tok == token.DEFINE {
							pre = append(pre, &ast.AssignStmt{Lhs: []ast.Expr{ast.NewIdent("_")}, Tok: token.ASSIGN, Rhs: []ast.Expr{ast.NewIdent(idn.Name)}})
						}
					}
					clauses = append(clauses, &ast.CaseClause{List: []ast.Expr{idx}, Body: append(pre, cc.Body...)})
				case *ast.ExprStmt:
					ue, ok := st.X.(*ast.UnaryExpr)
					if !ok || ue.Op != token.ARROW {
						r.decline("select case %d: unsupported statement", i)
						return true
					}
					cases = append(cases, method(ue.X, "RecvCase"))
					clauses = append(clauses, &ast.CaseClause{List: []ast.Expr{idx}, Body: cc.Body})
				case *ast.SendStmt:
					cases = append(cases, method(st.Chan, "SendCase", st.Value))
					clauses = append(clauses, &ast.CaseClause{List: []ast.Expr{idx}, Body: cc.Body})
				default:
					r.decline("select case %d: unsupported communication", i)
					return true
				}
			}
			args := append([]ast.Expr{ast.NewIdent("S"), ast.NewIdent(hasDefault)}, cases...)
			assign := &ast.AssignStmt{
				Lhs: []ast.Expr{ast.NewIdent(fmt.Sprintf("si_%d", id)), ast.NewIdent(fmt.Sprintf("sv_%d", id)), ast.NewIdent(fmt.Sprintf("sok_%d", id))},
				Tok: token.DEFINE,
				Rhs: []ast.Expr{&ast.CallExpr{Fun: sel("sched", "Select"), Args: args}},
			}
			use := &ast.AssignStmt{Lhs: []ast.Expr{ast.NewIdent("_"), ast.NewIdent("_")}, Tok: token.ASSIGN, Rhs: []ast.Expr{ast.NewIdent(fmt.Sprintf("sv_%d", id)), ast.NewIdent(fmt.Sprintf("sok_%d", id))}}
			sw := &ast.SwitchStmt{Tag: ast.NewIdent(fmt.Sprintf("si_%d", id)), Body: &ast.BlockStmt{List: clauses}}
			c.Replace(&ast.BlockStmt{List: []ast.Stmt{assign, use, sw}})
		case *ast.AssignStmt:
			// v := <-c   /   v, ok := <-c
			if cc, ok := c.Parent().(*ast.CommClause); ok && cc.Comm == ast.Stmt(n) {
				return true
			}
			if len(n.Rhs) == 1 {
				if ue, ok := n.Rhs[0].(*ast.UnaryExpr); ok && ue.Op == token.ARROW {
					if len(n.Lhs) == 2 {
						n.Rhs[0] = method(ue.X, "Recv")
					} else {
						n.Rhs[0] = method(ue.X, "Recv1")
					}
				}
			}
		case *ast.CallExpr:
			// an operation of sync/atomic (function or method of an atomic type) is an access to memory the tasks
			// share: a scheduling point follows it. With a result: sched.Step(S, op); as a statement: { op; S.Shared() }
			if r.isAtomicOp(n) {
				if es, ok := c.Parent().(*ast.ExprStmt); ok && es.X == ast.Expr(n) {
					r.atomicStmts[es] = true
				} else if rt := r.typeExpr(n); rt != nil {
					lit := &ast.FuncLit{Type: &ast.FuncType{Params: &ast.FieldList{}, Results: &ast.FieldList{List: []*ast.Field{{Type: rt}}}},
						Body: &ast.BlockStmt{List: []ast.Stmt{&ast.ReturnStmt{Results: []ast.Expr{n}}}}}
					c.Replace(&ast.CallExpr{Fun: sel("sched", "Step"), Args: []ast.Expr{ast.NewIdent("S"), lit}})
				} else {
					r.decline("operation of sync/atomic whose result type cannot be spelled")
				}
				return true
			}
			if id, ok := n.Fun.(*ast.Ident); ok {
				switch id.Name {
				case "close":
					if len(n.Args) == 1 && r.isChan(n.Args[0]) {
						c.Replace(method(n.Args[0], "Close"))
					}
				case "cap", "len":
					if len(n.Args) == 1 && r.isChan(n.Args[0]) {
						c.Replace(method(n.Args[0], strings.Title(id.Name)))
					}
				case "make":
					if ct, ok := n.Args[0].(*ast.ChanType); ok {
						var capArg ast.Expr = &ast.BasicLit{Kind: token.INT, Value: "0"}
						if len(n.Args) == 2 {
							capArg = n.Args[1]
						}
						c.Replace(&ast.CallExpr{Fun: &ast.IndexExpr{X: sel("sched", "Make"), Index: ct.Value}, Args: []ast.Expr{ast.NewIdent("S"), capArg}})
					} else if pe, ok := n.Args[0].(*ast.ParenExpr); ok {
						if ct, ok := pe.X.(*ast.ChanType); ok {
							var capArg ast.Expr = &ast.BasicLit{Kind: token.INT, Value: "0"}
							if len(n.Args) == 2 {
								capArg = n.Args[1]
							}
							c.Replace(&ast.CallExpr{Fun: &ast.IndexExpr{X: sel("sched", "Make"), Index: ct.Value}, Args: []ast.Expr{ast.NewIdent("S"), capArg}})
						}
					}
				}
			}
		case *ast.ExprStmt:
			if r.atomicStmts[n] {
				c.Replace(&ast.BlockStmt{List: []ast.Stmt{&ast.ExprStmt{X: method(ast.NewIdent("S"), "Shared")}, n}})
				return true
			}
			if ue, ok := n.X.(*ast.UnaryExpr); ok && ue.Op == token.ARROW {
				if cc, ok := c.Parent().(*ast.CommClause); ok && cc.Comm == ast.Stmt(n) {
					return true
				}
				c.Replace(&ast.ExprStmt{X: method(ue.X, "Recv1")})
			}
		case *ast.CompositeLit:
			if se, ok := n.Type.(*ast.SelectorExpr); ok {
				if x, ok := se.X.(*ast.Ident); ok && x.Name == "sync" && se.Sel.Name == "WaitGroup" {
					c.Replace(&ast.CallExpr{Fun: sel("sched", "NewWaitGroup"), Args: []ast.Expr{ast.NewIdent("S")}})
				}
			}
		case *ast.SelectorExpr:
			if x, ok := n.X.(*ast.Ident); ok && x.Name == "sync" && n.Sel.Name != "WaitGroup" {
				r.decline("use of sync.%s", n.Sel.Name)
			}
			if x, ok := n.X.(*ast.Ident); ok && x.Name == "time" {
				r.decline("use of time.%s", n.Sel.Name)
			}
		case *ast.UnaryExpr:
			if n.Op == token.ARROW {
				// a receive used as a plain expression (not handled by the assignment case above)
				switch par := c.Parent().(type) {
				case *ast.AssignStmt:
				case *ast.ExprStmt:
					_ = par // `<-c` as a statement, possibly a select alternative: left to the statement cases
				default:
					c.Replace(method(n.X, "Recv1"))
				}
			}
		}
		return true
	})
	// second pass: all channel types
	astutil.Apply(file, func(c *astutil.Cursor) bool {
		switch n := c.Node().(type) {
		case *ast.SendStmt:
			c.Replace(&ast.ExprStmt{X: method(n.Chan, "Send", n.Value)})
		case *ast.ChanType:
			c.Replace(r.chanType(n))
		}
		return true
	}, nil)
	// drop the import declarations and collect function names; imports of the standard library are put back
	// below when the rewritten text still mentions them
	type stdImport struct{ name, path string }
	var std []stdImport
	var decls []ast.Decl
	for _, d := range file.Decls {
		if gd, ok := d.(*ast.GenDecl); ok && gd.Tok == token.IMPORT {
			for _, sp := range gd.Specs {
				is := sp.(*ast.ImportSpec)
				path := strings.Trim(is.Path.Value, "\"")
				if strings.Contains(strings.SplitN(path, "/", 2)[0], ".") || strings.HasPrefix(path, "subj/") {
					continue
				}
				name := path[strings.LastIndex(path, "/")+1:]
				if is.Name != nil {
					name = is.Name.Name
				}
				std = append(std, stdImport{name, path})
			}
			continue
		}
		if fd, ok := d.(*ast.FuncDecl); ok {
			res.Funcs = append(res.Funcs, fd.Name.Name)
		}
		decls = append(decls, d)
	}
	file.Decls = decls
	file.Name = ast.NewIdent(pkgName)
	file.Comments = nil
	file.Doc = nil
	for _, d := range file.Decls {
		if fd, ok := d.(*ast.FuncDecl); ok {
			fd.Doc = nil
		}
	}
	var buf bytes.Buffer
	if err := format.Node(&buf, token.NewFileSet(), file); err != nil {
		return nil, err
	}
	body := buf.String()
	for _, im := range std {
		if regexp.MustCompile(`\b`+regexp.QuoteMeta(im.name)+`\.`).MatchString(body) && !strings.Contains(header, "\""+im.path+"\"") {
			header = fmt.Sprintf("import %s %q\n\n", im.name, im.path) + header
		}
	}
	body = strings.Replace(body, "package "+pkgName+"\n", "package "+pkgName+"\n\n"+header+"\n", 1)
	out, err := format.Source([]byte(body))
	if err != nil {
		return nil, fmt.Errorf("rewritten source does not parse: %v\n%s", err, body)
	}
	res.Source = string(out)
	res.Declined = r.declined
	// sanity: no channel syntax may be left
	if f2, err := parser.ParseFile(token.NewFileSet(), "model.go", out, 0); err == nil {
		ast.Inspect(f2, func(n ast.Node) bool {
			switch n.(type) {
			case *ast.ChanType, *ast.SendStmt, *ast.GoStmt, *ast.SelectStmt:
				res.Declined = append(res.Declined, fmt.Sprintf("%T left after rewriting", n))
			}
			if ue, ok := n.(*ast.UnaryExpr); ok && ue.Op == token.ARROW {
				res.Declined = append(res.Declined, "receive expression left after rewriting")
			}
			return true
		})
	}
	return res, nil
}

// elemTypeExpr returns a type expression for the element type of the channel expression.
func (r *rewriter) elemTypeExpr(ch ast.Expr) ast.Expr {
	t := r.info.TypeOf(ch)
	if t == nil {
		return nil
	}
	ct, ok := t.Underlying().(*types.Chan)
	if !ok {
		return nil
	}
	s := types.TypeString(ct.Elem(), func(p *types.Package) string { return "" })
	e, err := parser.ParseExpr(s)
	if err != nil {
		return nil
	}
	return e
}
