package chanrewrite

import (
	"fmt"
	"go/ast"
	"os"
	"path/filepath"
	"strings"

	"verif/internal/gorun"
)

// ModelFor type-checks package <pkg> of the module in dir and rewrites its derived.gen.go into a model
// package named "model<pkg>" (to be written to <dir>/model<pkg>/model.go). The model refers to the element
// types of the original packages through aliases.
func ModelFor(dir, pkg string) (orig string, model string, declined []string, err error) {
	cr, err := gorun.TypeCheck(dir, false, "./"+pkg)
	if err != nil {
		return "", "", nil, err
	}
	if len(cr.Errors) > 0 {
		return "", "", nil, fmt.Errorf("package %s does not type-check: %v", pkg, cr.Errors)
	}
	for _, p := range cr.Pkgs {
		// the user's own wrappers (exported) are rewritten together with the generated functions
		var extra []ast.Decl
		for _, f := range p.Syntax {
			name := p.Fset.File(f.Pos()).Name()
			if filepath.Base(name) == gorun.DerivedFile {
				continue
			}
			for _, d := range f.Decls {
				if fd, ok := d.(*ast.FuncDecl); ok && fd.Recv == nil {
					// methods stay with their types in the original package (the model refers to those by alias)
					extra = append(extra, fd)
				}
			}
		}
		for _, f := range p.Syntax {
			name := p.Fset.File(f.Pos()).Name()
			if filepath.Base(name) != gorun.DerivedFile {
				continue
			}
			f.Decls = append(f.Decls, extra...)
			b, _ := os.ReadFile(name)
			header := "import (\n\t\"subj/sched\"\n\t\"subj/p\"\n)\n\n// S is the scheduler of the current run; the harness sets it before calling into the model.\nvar S *sched.Sched\n\ntype Item = p.Item\n\ntype Namer = p.Namer\n\nvar _ = p.Anchor\n"
			res, err := Rewrite(b, p.TypesInfo, p.Fset, f, "model"+pkg, header)
			if err != nil {
				return string(b), "", nil, err
			}
			src := res.Source
			// element types of package p are printed qualified in p2's derived file
			src = strings.ReplaceAll(src, "p.Item", "Item")
			src = strings.Replace(src, "type Item = Item", "type Item = p.Item", 1)
			return string(b), src, res.Declined, nil
		}
	}
	return "", "", nil, fmt.Errorf("no derived.gen.go in package %s", pkg)
}
