// Package pkit is the toolkit shared by the per-property rapid test binaries.
package pkit

import (
	"encoding/json"
	"fmt"
	"os"
	"path/filepath"
	"sort"
	"strconv"
	"strings"
	"sync"
	"testing"

	"pgregory.net/rapid"

	"verif/internal/gorun"
	"verif/subjectlib/vrep"
)

// Ctx is the per-process state of a property test binary.
type Ctx struct {
	Property string
	Rep      *vrep.Report
	Findings *vrep.Findings
	active   map[string]bool
	Tier     string
	Shard    int
	NShards  int
	Seed     int64
	Scratch  string
	Replays  string

	mu      sync.Mutex
	pending *pendingViolation
}

type pendingViolation struct {
	v     vrep.Violation
	files map[string]string
	meta  map[string]any
}

// Load reads the environment set up by the driver.
func Load(property string) *Ctx {
	c := &Ctx{Property: property, Rep: vrep.New(property), active: map[string]bool{}}
	c.Tier = os.Getenv("VERIF_TIER")
	if c.Tier == "" {
		c.Tier = "quick"
	}
	c.Shard, _ = strconv.Atoi(os.Getenv("VERIF_SHARD"))
	c.NShards, _ = strconv.Atoi(os.Getenv("VERIF_NSHARDS"))
	if c.NShards == 0 {
		c.NShards = 1
	}
	c.Seed, _ = strconv.ParseInt(os.Getenv("VERIF_SEED"), 10, 64)
	c.Scratch = os.Getenv("VERIF_SCRATCH")
	if c.Scratch == "" {
		c.Scratch = filepath.Join(gorun.ScratchBase(), "adhoc")
	}
	os.MkdirAll(c.Scratch, 0o755)
	os.Setenv("VERIF_SCRATCH", c.Scratch)
	c.Replays = os.Getenv("VERIF_REPLAYS")
	if c.Replays == "" {
		c.Replays = filepath.Join(gorun.VerifDir(), "replays", property)
	}
	fp := os.Getenv("VERIF_FINDINGS")
	if fp == "" {
		fp = filepath.Join(gorun.VerifDir(), "known_findings.json")
	}
	f, err := vrep.LoadFindings(fp)
	if err != nil {
		f = &vrep.Findings{}
		c.Rep.Inconcl("cannot load findings: %v", err)
	}
	c.Findings = f
	if ap := os.Getenv("VERIF_ACTIVE"); ap != "" {
		if b, err := os.ReadFile(ap); err == nil {
			var ids []string
			json.Unmarshal(b, &ids)
			for _, id := range ids {
				c.active[id] = true
			}
		}
	} else {
		// no probe phase ran (ad-hoc run): every open finding counts as active
		for _, fd := range f.Findings {
			if fd.Status == "open" {
				c.active[fd.ID] = true
			}
		}
	}
	return c
}

// Thorough reports the tier.
func (c *Ctx) Thorough() bool { return c.Tier == "thorough" }

// Active reports whether the finding is open and its probe still fails, so its region stays excluded.
func (c *Ctx) Active(id string) bool { return c.active[id] && c.Findings.IsOpen(id) }

// ActiveSet returns the active finding ids as a set.
func (c *Ctx) ActiveSet() map[string]bool {
	out := map[string]bool{}
	for k, v := range c.active {
		if v && c.Findings.IsOpen(k) {
			out[k] = true
		}
	}
	return out
}

// Finish writes the report.
func (c *Ctx) Finish() {
	if p := os.Getenv("VERIF_REPORT"); p != "" {
		if err := c.Rep.Write(p); err != nil {
			fmt.Fprintln(os.Stderr, "cannot write report:", err)
		}
	}
}

// CaseDir returns a fresh scratch dir for one case.
func (c *Ctx) CaseDir() string {
	d, err := os.MkdirTemp(c.Scratch, "case-")
	if err != nil {
		panic(err)
	}
	return d
}

// Fail is called inside a rapid property for a failing case. If the signature matches an open
// finding the case is recorded as a known hit and Fail returns false (the property goes on).
// Otherwise the violation becomes pending and the rapid test is failed (so it shrinks).
func (c *Ctx) Fail(t *rapid.T, sig map[string]string, msg string, files map[string]string, meta map[string]any) bool {
	if fd := c.Findings.Match(c.Property, sig); fd != nil {
		c.Rep.KnownHit(vrep.Violation{Signature: sig, Message: msg, Finding: fd.ID})
		return false
	}
	if os.Getenv("VERIF_SURVEY") != "" {
		// development aid: list every failing signature of a run instead of shrinking the first
		c.mu.Lock()
		c.pending = &pendingViolation{v: vrep.Violation{Signature: sig, Message: msg}, files: files, meta: meta}
		c.mu.Unlock()
		c.commit()
		return false
	}
	c.mu.Lock()
	c.pending = &pendingViolation{v: vrep.Violation{Signature: sig, Message: msg}, files: files, meta: meta}
	c.mu.Unlock()
	t.Fatalf("VIOLATION %s: %s\n%s", c.Property, vrep.SigString(sig), msg)
	return true
}

// FailNow records a violation outside rapid (probes, enumerations); returns false if it is a known finding.
func (c *Ctx) FailNow(sig map[string]string, msg string, files map[string]string, meta map[string]any) bool {
	if fd := c.Findings.Match(c.Property, sig); fd != nil {
		c.Rep.KnownHit(vrep.Violation{Signature: sig, Message: msg, Finding: fd.ID})
		return false
	}
	c.mu.Lock()
	c.pending = &pendingViolation{v: vrep.Violation{Signature: sig, Message: msg}, files: files, meta: meta}
	c.mu.Unlock()
	c.commit()
	return true
}

func (c *Ctx) commit() {
	c.mu.Lock()
	p := c.pending
	c.pending = nil
	c.mu.Unlock()
	if p == nil {
		return
	}
	key := vrep.SigString(p.v.Signature) + "\n" + p.v.Message
	keys := make([]string, 0, len(p.files))
	for k := range p.files {
		keys = append(keys, k)
	}
	sort.Strings(keys)
	for _, k := range keys {
		key += "\n" + k + "\n" + p.files[k]
	}
	dir := filepath.Join(c.Replays, gorun.Sha([]byte(key), 12))
	os.RemoveAll(dir)
	if err := os.MkdirAll(dir, 0o755); err == nil {
		gorun.WriteFiles(filepath.Join(dir, "module"), p.files)
		meta := map[string]any{"property": c.Property, "signature": p.v.Signature, "message": p.v.Message}
		for k, v := range p.meta {
			meta[k] = v
		}
		b, _ := json.MarshalIndent(meta, "", " ")
		os.WriteFile(filepath.Join(dir, "replay.json"), b, 0o644)
		p.v.Replay = dir
	}
	c.Rep.Violate(p.v)
}

// Check runs a rapid property, commits a pending violation when it fails, and writes the report.
func (c *Ctx) Check(t *testing.T, prop func(*rapid.T)) {
	ok := t.Run("rapid", func(t *testing.T) { rapid.Check(t, prop) })
	if !ok {
		c.commit()
	}
	c.Finish()
}

// Probe describes the minimal example of an open finding.
type Probe struct {
	ID string
	// Run returns true when the defect is still present.
	Run func() (stillFails bool, detail string, err error)
}

// RunProbes runs the probes of the property's open findings and writes the active list.
func (c *Ctx) RunProbes(t *testing.T, probes []Probe) {
	byID := map[string]Probe{}
	for _, p := range probes {
		byID[p.ID] = p
	}
	var active []string
	for _, fd := range c.Findings.Open(c.Property) {
		p, ok := byID[fd.ID]
		if !ok {
			// no probe: the finding is matched by signature only
			active = append(active, fd.ID)
			continue
		}
		fails, detail, err := p.Run()
		if err != nil {
			c.Rep.Inconcl("probe %s: %v", fd.ID, err)
			active = append(active, fd.ID)
			continue
		}
		if fails {
			active = append(active, fd.ID)
			c.Rep.KnownHit(vrep.Violation{Signature: fd.Signature, Message: "probe: " + detail, Finding: fd.ID})
			t.Logf("probe %s still fails: %s", fd.ID, detail)
		} else {
			t.Logf("probe %s passes (defect no longer present): region is generated normally", fd.ID)
			c.Rep.Note("probe %s passes: region generated normally", fd.ID)
		}
	}
	if out := os.Getenv("VERIF_ACTIVE_OUT"); out != "" {
		if active == nil {
			active = []string{}
		}
		b, _ := json.Marshal(active)
		os.WriteFile(out, b, 0o644)
	}
	c.Finish()
}

// ReplayDir returns the directory given to a replay run.
func ReplayDir() string { return os.Getenv("VERIF_REPLAY") }

// ReadReplay loads replay.json and the module files of a replay directory.
func ReadReplay(dir string) (map[string]any, map[string]string, error) {
	b, err := os.ReadFile(filepath.Join(dir, "replay.json"))
	if err != nil {
		return nil, nil, err
	}
	meta := map[string]any{}
	if err := json.Unmarshal(b, &meta); err != nil {
		return nil, nil, err
	}
	files := map[string]string{}
	root := filepath.Join(dir, "module")
	filepath.Walk(root, func(p string, info os.FileInfo, err error) error {
		if err != nil || info.IsDir() {
			return nil
		}
		rel, _ := filepath.Rel(root, p)
		b, _ := os.ReadFile(p)
		files[rel] = string(b)
		return nil
	})
	return meta, files, nil
}

// Trunc shortens a string for messages.
func Trunc(s string, n int) string {
	if len(s) <= n {
		return s
	}
	return s[:n] + "…"
}

// FirstLines returns the first n lines of s.
func FirstLines(s string, n int) string {
	lines := strings.Split(s, "\n")
	if len(lines) > n {
		lines = lines[:n]
	}
	return strings.Join(lines, "\n")
}
