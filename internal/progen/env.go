package progen

import (
	"fmt"

	"pgregory.net/rapid"
)

// Env is a set of declarations from which argument types are drawn.
type Env struct {
	Ext           []*ExtPkg
	NamedBasic    []*Decl // subject package
	NamedComp     []*Decl
	Structs       []*Decl // subject package structs (all)
	KeyStructs    []*Decl // subject package value-key structs (subset of Structs)
	PtrKeyStructs []*Decl
	ExtStructs    []*Decl
	ExtKeys       []*Decl // ext value-key structs
	ExtBasic      []*Decl
	Opt           EnvOpt
	foreign       []*Decl // declarations of ext packages generated before the current one
	// Generics are generic struct declarations of the subject package, GenericInsts their instantiations
	// (two per generic: the first over a type without references, the second over one that holds references).
	Generics     []*GenericDecl
	GenericInsts []*Decl
	// SelfSlice is the declaration type NR0 []NR0, when the environment has one
	SelfSlice *Decl
	// HostileNames are the struct names taken from EnvOpt.LocalTypeNames
	HostileNames []string
	// Twins: two structs called Twin in two imported packages of the same name (see DrawEnv)
	Twins []*Decl
	// Aliases are alias declarations of the subject package (type A0 = T) over declarations that precede the
	// general structs, so that struct fields can be spelled through them.
	Aliases []*AliasDecl
	// XTest: the package directory also holds an external test package (package p_test) without derive calls.
	XTest bool
	// UserDecls are package level declarations of the user whose names look like names goderive mints for helpers
	// (deriveEqual_, deriveHash_1 ...). They are never called.
	UserDecls []string
}

// AliasDecl is an alias declaration of the subject package.
type AliasDecl struct {
	Name   string
	Target *Type
}

// EnvOpt tunes the environment.
type EnvOpt struct {
	UserMethods   bool // some structs get user Equal methods (C02)
	NoExt         bool
	ExportedOnly  bool // only exported fields (GoString)
	NoPrivateExt  bool // ext structs have exported fields only
	MaxStructs    int
	DistinctExt   bool // imported packages have distinct package names
	PtrKeys       bool // also declare a key struct that holds a pointer (legal Go map key, compared by identity)
	NoFloatKeys   bool
	NoBlankFields bool // by default one struct in four has a blank field (_ T) of a basic type
	NoLists       bool // by default half of the environments declare a list node (and a tree node) struct
	// LocalTypeNames: in one environment out of five the structs of the subject package are named with these
	// (unexported) identifiers, the names generated code uses for its own parameters and variables
	LocalTypeNames []string
	NoGenerics     bool // by default one environment in three declares 1-2 generic structs and instantiates each twice
	NoAliases      bool // by default half of the environments declare 1-2 aliases and use them as field / argument types
	NoUnicode      bool // by default one environment in five gives its general structs names that start with a multi-byte letter
	NoResultNames  bool // by default one signature in three has named results
	NoUserDecls    bool // by default one environment in three declares objects named like minted helper names
	// Avoid lists finding ids whose region the generator must not enter.
	Avoid map[string]bool
}

var keyBasics = []string{"bool", "int", "int8", "int32", "int64", "uint", "uint8", "uint16", "uint64", "uintptr", "float64", "float32", "string", "rune", "byte", "complex128"}
var leafBasics = []string{"bool", "int", "int8", "int16", "int32", "int64", "uint", "uint8", "uint16", "uint32", "uint64", "uintptr",
	"float32", "float64", "complex64", "complex128", "string", "byte", "rune"}

func pick[T any](t *rapid.T, label string, xs []T) T {
	return xs[rapid.IntRange(0, len(xs)-1).Draw(t, label)]
}

// DrawEnv draws an environment.
func DrawEnv(t *rapid.T, opt EnvOpt) *Env {
	e := &Env{Opt: opt}
	if !opt.NoExt {
		e.Ext = []*ExtPkg{{Dir: "ext1", Name: "ext"}, {Dir: "x/ext", Name: "ext"}}
		if opt.DistinctExt || rapid.IntRange(0, 3).Draw(t, "extnames") == 0 {
			e.Ext[1] = &ExtPkg{Dir: "x/other", Name: "other"}
		} else if rapid.IntRange(0, 2).Draw(t, "ext3") == 0 {
			// a third package of the same name whose import path differs from the second one's only in a
			// character that is not an identifier character (import aliases are minted from the path)
			e.Ext = append(e.Ext, &ExtPkg{Dir: "x_ext", Name: "ext"})
		}
		for i, xp := range e.Ext {
			// a named basic, a key struct and 1-2 general structs per ext package
			nb := &Decl{Name: "Num", Pkg: xp, Under: B(pick(t, "extnum", []string{"int", "int64", "string", "float64", "uint8"}))}
			e.ExtBasic = append(e.ExtBasic, nb)
			ks := &Decl{Name: "Key", Pkg: xp, IsStruct: true}
			nf := rapid.IntRange(1, 3).Draw(t, "extkeyfields")
			for j := 0; j < nf; j++ {
				name := fmt.Sprintf("K%d", j)
				if !opt.NoPrivateExt && !opt.ExportedOnly && rapid.Bool().Draw(t, "extkeypriv") {
					name = fmt.Sprintf("k%d", j)
				}
				var ft *Type
				if rapid.IntRange(0, 3).Draw(t, "extkeynum") == 0 {
					ft = NamedT(nb)
				} else {
					ft = B(pick(t, "extkeyft", keyBasics))
				}
				ks.Fields = append(ks.Fields, Field{Name: name, Type: ft})
			}
			e.ExtKeys = append(e.ExtKeys, ks)
			if !opt.NoBlankFields && rapid.IntRange(0, 2).Draw(t, "extkeyblank") == 0 {
				// a blank field in front of (or between) the fields of an imported struct: generated code that reaches
				// unexported fields by position or by name has to skip it
				bf := Field{Name: "_", Type: B(pick(t, "extkeyblanktype", []string{"int", "uint32", "string", "bool"}))}
				at := rapid.IntRange(0, len(ks.Fields)-1).Draw(t, "extkeyblankat")
				ks.Fields = append(ks.Fields[:at], append([]Field{bf}, ks.Fields[at:]...)...)
			}
			// unexported field names of imported structs may start with a letter outside ASCII
			privName := "f%d"
			if !opt.NoUnicode && rapid.IntRange(0, 3).Draw(t, "extunicode") == 0 {
				privName = "\u00e9f%d"
			}
			ns := rapid.IntRange(1, 2).Draw(t, "extstructs")
			var local []*Decl
			for j := 0; j < ns; j++ {
				d := &Decl{Name: fmt.Sprintf("E%d", j), Pkg: xp, IsStruct: true}
				nf := rapid.IntRange(0, 4).Draw(t, "extfields")
				for k := 0; k < nf; k++ {
					name := fmt.Sprintf("F%d", k)
					if !opt.NoPrivateExt && !opt.ExportedOnly && rapid.IntRange(0, 2).Draw(t, "extpriv") != 0 {
						name = fmt.Sprintf(privName, k)
					}
					d.Fields = append(d.Fields, Field{Name: name, Type: e.drawExtFieldType(t, xp, nb, ks, local, d, 2)})
				}
				if !opt.NoBlankFields && len(d.Fields) > 0 && rapid.IntRange(0, 2).Draw(t, "extblank") == 0 {
					bf := Field{Name: "_", Type: B(pick(t, "extblanktype", []string{"int", "uint32", "string", "bool"}))}
					at := rapid.IntRange(0, len(d.Fields)-1).Draw(t, "extblankat")
					d.Fields = append(d.Fields[:at], append([]Field{bf}, d.Fields[at:]...)...)
				}
				local = append(local, d)
				e.ExtStructs = append(e.ExtStructs, d)
			}
			if !opt.NoPrivateExt && !opt.ExportedOnly {
				// a struct none of whose fields can be reached from another package without reflection
				pv := &Decl{Name: "Priv", Pkg: xp, IsStruct: true, Fields: []Field{{Name: "a", Type: B(pick(t, "priva", []string{"int64", "string", "uint8"}))}}}
				if rapid.Bool().Draw(t, "privb") {
					pv.Fields = append(pv.Fields, Field{Name: "b", Type: B(pick(t, "privbt", []string{"string", "bool", "float64"}))})
				}
				local = append(local, pv)
				e.ExtStructs = append(e.ExtStructs, pv)
			}
			if i == 0 {
				e.foreign = append([]*Decl{nb, ks}, local...)
			} else {
				e.foreign = nil
			}
		}
	}
	// two types that are spelled alike (ext.Twin) and differ in everything a generator may want to remember about a
	// type: the first is comparable with ==, copyable by assignment and has exported fields only, the second holds a
	// pointer (and an unexported field)
	if len(e.Ext) >= 2 && e.Ext[0].Name == e.Ext[1].Name {
		t1 := &Decl{Name: "Twin", Pkg: e.Ext[0], IsStruct: true, Fields: []Field{{Name: "A", Type: B("int")}, {Name: "B", Type: B("string")}}}
		t2 := &Decl{Name: "Twin", Pkg: e.Ext[1], IsStruct: true, Fields: []Field{{Name: "A", Type: B("int")}, {Name: "P", Type: PtrTo(B("string"))}}}
		if !opt.NoPrivateExt && !opt.ExportedOnly {
			t2.Fields = append(t2.Fields, Field{Name: "c", Type: B("bool")})
		}
		e.ExtStructs = append(e.ExtStructs, t1, t2)
		e.Twins = []*Decl{t1, t2}
	}
	// named basics
	nbPool := []struct{ n, u string }{{"MyInt", "int"}, {"MyStr", "string"}, {"MyBool", "bool"}, {"MyF", "float64"}, {"MyU8", "uint8"},
		{"MyC", "complex128"}, {"MyI64", "int64"}, {"MyF32", "float32"}, {"MyRune", "rune"}, {"MyU", "uint"},
		{"MyU64", "uint64"}, {"MyI8", "int8"}, {"MyU16", "uint16"}, {"MyI32", "int32"}, {"MyUptr", "uintptr"}, {"MyC64", "complex64"}, {"MyU32", "uint32"}, {"MyI16", "int16"}}
	nnb := rapid.IntRange(1, 4).Draw(t, "nnb")
	start := rapid.IntRange(0, len(nbPool)-1).Draw(t, "nbstart")
	for i := 0; i < nnb; i++ {
		x := nbPool[(start+i*5)%len(nbPool)]
		dup := false
		for _, d := range e.NamedBasic {
			if d.Name == x.n {
				dup = true
			}
		}
		if dup {
			continue
		}
		if x.u == "bool" && opt.Avoid["namedbool"] {
			continue
		}
		e.NamedBasic = append(e.NamedBasic, &Decl{Name: x.n, Under: B(x.u)})
	}
	// key structs
	nks := rapid.IntRange(1, 2).Draw(t, "nks")
	for i := 0; i < nks; i++ {
		d := &Decl{Name: fmt.Sprintf("K%d", i), IsStruct: true}
		nf := rapid.IntRange(0, 3).Draw(t, "ksfields")
		for j := 0; j < nf; j++ {
			d.Fields = append(d.Fields, Field{Name: e.fieldName(t, j), Type: e.DrawKey(t, 1)})
		}
		e.KeyStructs = append(e.KeyStructs, d)
		e.Structs = append(e.Structs, d)
	}
	if opt.PtrKeys {
		d := &Decl{Name: "KP0", IsStruct: true, Fields: []Field{
			{Name: "F0", Type: B(pick(t, "kp0", []string{"int", "string", "uint8"}))},
			{Name: "F1", Type: PtrTo(B(pick(t, "kp1", []string{"string", "int", "float64", "bool"})))}}}
		e.PtrKeyStructs = append(e.PtrKeyStructs, d)
		e.Structs = append(e.Structs, d)
	}
	// named composites (over what exists so far)
	nnc := rapid.IntRange(0, 3).Draw(t, "nnc")
	for i := 0; i < nnc; i++ {
		var u *Type
		switch rapid.IntRange(0, 4).Draw(t, "nckind") {
		case 0:
			u = SliceOf(e.drawLeaf(t, false))
		case 1:
			u = MapOf(e.DrawKey(t, 0), e.drawLeaf(t, false))
		case 2:
			u = PtrTo(e.drawLeaf(t, false))
		case 3:
			u = ArrayOf(rapid.IntRange(0, 3).Draw(t, "nclen"), e.drawLeaf(t, false))
		default:
			u = SliceOf(SliceOf(e.drawLeaf(t, false)))
		}
		e.NamedComp = append(e.NamedComp, &Decl{Name: fmt.Sprintf("N%d", i), Under: u})
	}
	if !opt.NoLists && rapid.IntRange(0, 2).Draw(t, "selfslice") == 0 {
		// a named slice of itself (type NR0 []NR0): a tree without payload; []NR0 and NR0 are mutually assignable
		d := &Decl{Name: "NR0", Recursive: true}
		d.Under = SliceOf(NamedT(d))
		e.NamedComp = append(e.NamedComp, d)
		e.SelfSlice = d
	}
	// generic structs instantiated over what exists so far
	if !opt.NoGenerics && rapid.IntRange(0, 2).Draw(t, "generics") == 0 {
		ng := rapid.IntRange(1, 2).Draw(t, "ngenerics")
		for i := 0; i < ng; i++ {
			g := &GenericDecl{Name: fmt.Sprintf("G%d", i), NParams: rapid.IntRange(1, 2).Draw(t, "gparams")}
			nf := rapid.IntRange(g.NParams, g.NParams+2).Draw(t, "gfields")
			for j := 0; j < nf; j++ {
				f := GField{Name: e.fieldName(t, j), Param: j % g.NParams, Shape: rapid.IntRange(0, 5).Draw(t, "gshape")}
				if j < g.NParams && f.Shape == 5 {
					f.Shape = 0 // every parameter is used at least once
				}
				g.Fields = append(g.Fields, f)
			}
			e.Generics = append(e.Generics, g)
			for inst := 0; inst < 2; inst++ {
				var args []*Type
				for k := 0; k < g.NParams; k++ {
					var a *Type
					if inst == 0 {
						// no references: plain assignment copies it
						switch rapid.IntRange(0, 2).Draw(t, "garg0") {
						case 0:
							a = B(pick(t, "gargb", []string{"int", "string", "float64", "bool", "uint8"}))
						case 1:
							if len(e.NamedBasic) > 0 {
								a = NamedT(pick(t, "gargnb", e.NamedBasic))
							} else {
								a = B("int64")
							}
						default:
							a = ArrayOf(2, B(pick(t, "garga", []string{"int", "string"})))
						}
					} else {
						switch rapid.IntRange(0, 4).Draw(t, "garg1") {
						case 0:
							a = PtrTo(B(pick(t, "gargp", []string{"string", "int", "float64"})))
						case 1:
							a = SliceOf(B(pick(t, "gargs", []string{"int", "string", "byte"})))
						case 2:
							a = MapOf(B("string"), B("int"))
						case 3:
							if len(e.ExtStructs) > 0 {
								a = NamedT(pick(t, "gargx", e.ExtStructs))
							} else {
								a = PtrTo(B("int"))
							}
						default:
							if len(e.KeyStructs) > 0 {
								a = PtrTo(NamedT(pick(t, "gargk", e.KeyStructs)))
							} else {
								a = SliceOf(B("int"))
							}
						}
					}
					args = append(args, a)
				}
				dup := false
				for _, o := range e.GenericInsts {
					if o.Generic == g && NamedT(o).Str(Qual{Subj: "p", Canon: true}) == NamedT(g.Instantiate(args)).Str(Qual{Subj: "p", Canon: true}) {
						dup = true
					}
				}
				if !dup {
					e.GenericInsts = append(e.GenericInsts, g.Instantiate(args))
				}
			}
		}
	}
	// aliases over what exists so far (so that the general structs can use them by value)
	if !opt.NoAliases && rapid.Bool().Draw(t, "aliases") {
		na := rapid.IntRange(1, 2).Draw(t, "naliases")
		for i := 0; i < na; i++ {
			var target *Type
			var pool []*Decl
			switch rapid.IntRange(0, 5).Draw(t, "aliaskind") {
			case 0, 1:
				pool = e.KeyStructs
			case 2:
				pool = append(append([]*Decl{}, e.ExtStructs...), e.ExtKeys...)
			case 3:
				pool = append(append([]*Decl{}, e.NamedBasic...), e.NamedComp...)
			}
			switch {
			case len(pool) > 0:
				target = NamedT(pick(t, "aliasdecl", pool))
			case len(e.KeyStructs) > 0 && rapid.Bool().Draw(t, "aliascomp"):
				ks := NamedT(pick(t, "aliasks", e.KeyStructs))
				target = pick(t, "aliasshape", []*Type{SliceOf(ks), PtrTo(ks), MapOf(B("string"), ks), ArrayOf(2, ks)})
			default:
				target = pick(t, "aliasbasic", []*Type{SliceOf(B("int")), MapOf(B("string"), B("bool")), B("float64"), PtrTo(B("string"))})
			}
			e.Aliases = append(e.Aliases, &AliasDecl{Name: fmt.Sprintf("A%d", i), Target: target})
		}
	}
	// general structs; struct i may refer by value to structs < i, and through * [] map to any struct.
	max := opt.MaxStructs
	if max == 0 {
		max = 5
	}
	ns := rapid.IntRange(1, max).Draw(t, "nstructs")
	gen := make([]*Decl, ns)
	sname := "S%d"
	if !opt.NoUnicode && rapid.IntRange(0, 4).Draw(t, "unicodenames") == 0 {
		sname = "\u00c4%d" // an exported name whose first letter takes two bytes
	}
	for i := range gen {
		gen[i] = &Decl{Name: fmt.Sprintf(sname, i), IsStruct: true}
	}
	if len(opt.LocalTypeNames) >= len(gen) && rapid.IntRange(0, 4).Draw(t, "localnames") == 0 {
		names := rapid.Permutation(opt.LocalTypeNames).Draw(t, "localnameperm")
		for i := range gen {
			gen[i].Name = names[i]
			e.HostileNames = append(e.HostileNames, names[i])
		}
	}
	for i, d := range gen {
		nf := rapid.IntRange(0, 6).Draw(t, "nfields")
		used := map[string]bool{}
		for j := 0; j < nf; j++ {
			byValue := append([]*Decl{}, e.Structs...)
			// embedded?
			if len(byValue) > 0 && rapid.IntRange(0, 7).Draw(t, "embed") == 0 {
				s := pick(t, "embedS", byValue)
				if !used[s.Name] && (!opt.ExportedOnly || true) {
					used[s.Name] = true
					ft := NamedT(s)
					if rapid.Bool().Draw(t, "embedptr") {
						ft = PtrTo(ft)
					}
					d.Fields = append(d.Fields, Field{Name: s.Name, Type: ft, Embedded: true})
					continue
				}
			}
			name := e.fieldName(t, j)
			if used[name] {
				continue
			}
			used[name] = true
			ft := e.drawType(t, 3, byValue, gen, d)
			d.Fields = append(d.Fields, Field{Name: name, Type: ft})
		}
		if !opt.NoBlankFields && rapid.IntRange(0, 3).Draw(t, "blankfield") == 0 {
			bf := Field{Name: "_", Type: B(pick(t, "blanktype", []string{"int", "string", "uint8", "bool"}))}
			if rapid.IntRange(0, 2).Draw(t, "blankref") == 0 {
				// a blank field whose type is not comparable: its value takes no part in anything, its type
				// still decides whether == applies to the struct
				switch rapid.IntRange(0, 3).Draw(t, "blankrefkind") {
				case 0:
					bf.Type = SliceOf(B("int"))
				case 1:
					bf.Type = MapOf(B("string"), B("int"))
				case 2:
					bf.Type = PtrTo(B("int"))
				default:
					bf.Type = ArrayOf(2, SliceOf(B("string")))
				}
			}
			at := rapid.IntRange(0, len(d.Fields)).Draw(t, "blankat")
			d.Fields = append(d.Fields[:at], append([]Field{bf}, d.Fields[at:]...)...)
		}
		e.Structs = append(e.Structs, d)
		_ = i
	}
	if !opt.NoLists && rapid.Bool().Draw(t, "liststructs") {
		// list and tree shaped structs: the last field points to the struct's own type
		l := &Decl{Name: "L0", IsStruct: true, Recursive: true}
		l.Fields = []Field{{Name: e.fieldName(t, 0), Type: B(pick(t, "listval", []string{"int", "string", "int8", "float64"}))}, {Name: "Next", Type: PtrTo(NamedT(l))}}
		e.Structs = append(e.Structs, l)
		if rapid.Bool().Draw(t, "treestruct") {
			tr := &Decl{Name: "Tr0", IsStruct: true, Recursive: true}
			tr.Fields = []Field{{Name: "K", Type: B("int")}, {Name: "Left", Type: PtrTo(NamedT(tr))}, {Name: "Right", Type: PtrTo(NamedT(tr))}}
			e.Structs = append(e.Structs, tr)
		}
	}
	for _, d := range gen {
		d.Recursive = NamedT(d).Has(func(x *Type) bool { return false }) // placeholder, computed below
	}
	for _, d := range gen {
		d.Recursive = reaches(d, d)
	}
	e.XTest = rapid.IntRange(0, 3).Draw(t, "xtest") == 0
	if !opt.NoUserDecls && rapid.IntRange(0, 2).Draw(t, "userdecls") == 0 {
		n := rapid.IntRange(1, 3).Draw(t, "nuserdecls")
		seen := map[string]bool{}
		for i := 0; i < n; i++ {
			prefix := pick(t, "udprefix", []string{"deriveEqual", "deriveCompare", "deriveHash", "deriveDeepCopy", "deriveKeys", "deriveSort",
				"deriveClone", "deriveGoString", "deriveContains", "deriveSet", "deriveTuple", "deriveFmap", "deriveJoin", "deriveMin"})
			name := prefix + pick(t, "udsuffix", []string{"_", "_", "", "_1", "_2", "_S", "_K", "_M", "_3"})
			if seen[name] {
				continue
			}
			seen[name] = true
			switch rapid.IntRange(0, 3).Draw(t, "udkind") {
			case 0:
				e.UserDecls = append(e.UserDecls, fmt.Sprintf("func %s(a, b int) bool { return a == b }", name))
			case 1:
				e.UserDecls = append(e.UserDecls, fmt.Sprintf("var %s = 1", name))
			case 2:
				e.UserDecls = append(e.UserDecls, fmt.Sprintf("type %s struct{ A int }", name))
			default:
				e.UserDecls = append(e.UserDecls, fmt.Sprintf("const %s = \"c\"", name))
			}
		}
	}
	if opt.UserMethods {
		for _, d := range e.Structs {
			switch rapid.IntRange(0, 7).Draw(t, "usermeth") {
			case 0:
				d.UserEqual = "ptr"
			case 1:
				d.UserEqual = "val"
			case 2:
				// the idiom of the Readme: the method is implemented by the derived function itself
				d.UserEqual = "derive"
			case 3:
				d.UserEqual = "ptrval"
			case 4:
				d.UserEqual = "valptr"
			case 5:
				d.UserEqual = "iface"
			}
		}
	}
	return e
}

func reaches(from, target *Decl) bool {
	seen := map[*Decl]bool{}
	var visit func(t *Type) bool
	visit = func(t *Type) bool {
		switch t.Kind {
		case Ptr, Slice, Array:
			return visit(t.Elem)
		case Map:
			return visit(t.Key) || visit(t.Elem)
		case Named:
			if t.Decl == target {
				return true
			}
			if seen[t.Decl] {
				return false
			}
			seen[t.Decl] = true
			if t.Decl.IsStruct {
				for _, f := range t.Decl.Fields {
					if visit(f.Type) {
						return true
					}
				}
				return false
			}
			return visit(t.Decl.Under)
		}
		return false
	}
	for _, f := range from.Fields {
		if visit(f.Type) {
			return true
		}
	}
	return false
}

func (e *Env) fieldName(t *rapid.T, j int) string {
	if e.Opt.ExportedOnly || rapid.IntRange(0, 2).Draw(t, "fieldexp") != 0 {
		return fmt.Sprintf("F%d", j)
	}
	return fmt.Sprintf("f%d", j)
}

func (e *Env) drawExtFieldType(t *rapid.T, xp *ExtPkg, nb, ks *Decl, local []*Decl, self *Decl, depth int) *Type {
	// a struct of one imported package may use types of a third package (declared earlier, so no import cycle)
	if len(e.foreign) > 0 && rapid.IntRange(0, 5).Draw(t, "extforeign") == 0 {
		return NamedT(pick(t, "foreign", e.foreign))
	}
	c := rapid.IntRange(0, 9).Draw(t, "extft")
	if depth <= 0 && c > 3 {
		c = c % 4
	}
	switch c {
	case 0, 1:
		return B(pick(t, "extb", leafBasics))
	case 2:
		return NamedT(nb)
	case 3:
		if len(local) > 0 {
			return NamedT(pick(t, "extlocal", local))
		}
		return NamedT(ks)
	case 4:
		return PtrTo(e.drawExtFieldType(t, xp, nb, ks, local, self, depth-1))
	case 5:
		return SliceOf(e.drawExtFieldType(t, xp, nb, ks, local, self, depth-1))
	case 6:
		var k *Type
		if rapid.Bool().Draw(t, "extmapkey") {
			k = NamedT(ks)
		} else {
			k = B(pick(t, "extmapkb", keyBasics))
		}
		return MapOf(k, e.drawExtFieldType(t, xp, nb, ks, local, self, depth-1))
	case 7:
		return PtrTo(NamedT(self))
	case 8:
		return ArrayOf(rapid.IntRange(0, 2).Draw(t, "extarr"), e.drawExtFieldType(t, xp, nb, ks, local, self, depth-1))
	default:
		return SliceOf(B("byte"))
	}
}

func (e *Env) drawLeaf(t *rapid.T, allowStruct bool) *Type {
	for {
		switch rapid.IntRange(0, 6).Draw(t, "leaf") {
		case 0, 1, 2:
			return B(pick(t, "basic", leafBasics))
		case 3:
			if len(e.NamedBasic) > 0 {
				return NamedT(pick(t, "nb", e.NamedBasic))
			}
		case 4:
			if len(e.ExtBasic) > 0 {
				return NamedT(pick(t, "extnb", e.ExtBasic))
			}
		case 5:
			if allowStruct && len(e.Structs) > 0 {
				return NamedT(pick(t, "leafstruct", e.Structs))
			}
		case 6:
			if allowStruct && len(e.ExtStructs) > 0 {
				return NamedT(pick(t, "leafext", e.ExtStructs))
			}
		}
	}
}

// DrawKey draws a value-key type.
func (e *Env) DrawKey(t *rapid.T, depth int) *Type {
	for {
		c := rapid.IntRange(0, 7).Draw(t, "key")
		switch c {
		case 0, 1, 2:
			b := pick(t, "keybasic", keyBasics)
			if e.Opt.NoFloatKeys && (b == "float32" || b == "float64" || b == "complex128") {
				continue
			}
			if b == "bool" && e.Opt.Avoid["boolkey"] {
				continue
			}
			return B(b)
		case 3:
			if len(e.NamedBasic) > 0 {
				return NamedT(pick(t, "keynb", e.NamedBasic))
			}
		case 4:
			if len(e.PtrKeyStructs) > 0 && rapid.IntRange(0, 2).Draw(t, "ptrkey") == 0 {
				return NamedT(e.PtrKeyStructs[0])
			}
			if len(e.KeyStructs) > 0 {
				return NamedT(pick(t, "keystruct", e.KeyStructs))
			}
		case 5:
			if len(e.ExtKeys) > 0 {
				return NamedT(pick(t, "keyext", e.ExtKeys))
			}
		case 6:
			if depth > 0 {
				return ArrayOf(rapid.IntRange(0, 2).Draw(t, "keyarrlen"), e.DrawKey(t, depth-1))
			}
		case 7:
			if len(e.ExtBasic) > 0 {
				return NamedT(pick(t, "keyextnb", e.ExtBasic))
			}
		}
	}
}

// drawType draws a type; byValue are structs usable by value, all are structs usable behind * [] map.
func (e *Env) drawType(t *rapid.T, depth int, byValue, all []*Decl, self *Decl) *Type {
	if len(e.GenericInsts) > 0 && rapid.IntRange(0, 5).Draw(t, "usegeneric") == 0 {
		return NamedT(pick(t, "genericinst", e.GenericInsts))
	}
	if len(e.Aliases) > 0 && rapid.IntRange(0, 7).Draw(t, "usealias") == 0 {
		a := pick(t, "alias", e.Aliases)
		return a.Target.Aliased(a.Name)
	}
	c := rapid.IntRange(0, 13).Draw(t, "type")
	if depth <= 0 && c >= 6 {
		c = c % 6
	}
	switch c {
	case 0, 1:
		return B(pick(t, "basic", leafBasics))
	case 2:
		if len(e.NamedBasic) > 0 && rapid.Bool().Draw(t, "nbOrExt") || len(e.ExtBasic) == 0 {
			if len(e.NamedBasic) > 0 {
				return NamedT(pick(t, "nb", e.NamedBasic))
			}
			return B("int")
		}
		return NamedT(pick(t, "extnb", e.ExtBasic))
	case 3:
		if len(e.NamedComp) > 0 {
			return NamedT(pick(t, "nc", e.NamedComp))
		}
		return B("string")
	case 4:
		if len(byValue) > 0 {
			return NamedT(pick(t, "structval", byValue))
		}
		return B("int64")
	case 5:
		pool := append(append([]*Decl{}, e.ExtStructs...), e.ExtKeys...)
		if len(pool) > 0 {
			return NamedT(pick(t, "extstruct", pool))
		}
		return B("float64")
	case 6, 7:
		return PtrTo(e.drawIndirect(t, depth-1, byValue, all, self))
	case 8, 9:
		if rapid.IntRange(0, 5).Draw(t, "bytes") == 0 {
			return SliceOf(B("byte"))
		}
		return SliceOf(e.drawIndirect(t, depth-1, byValue, all, self))
	case 10:
		return ArrayOf(rapid.IntRange(0, 3).Draw(t, "arrlen"), e.drawType(t, depth-1, byValue, all, self))
	default:
		return MapOf(e.DrawKey(t, 1), e.drawIndirect(t, depth-1, byValue, all, self))
	}
}

// drawIndirect draws a type behind a pointer/slice/map: recursion to any struct is allowed here.
func (e *Env) drawIndirect(t *rapid.T, depth int, byValue, all []*Decl, self *Decl) *Type {
	if len(all) > 0 && rapid.IntRange(0, 3).Draw(t, "recur") == 0 {
		if self != nil && rapid.Bool().Draw(t, "self") {
			return NamedT(self)
		}
		return NamedT(pick(t, "anystruct", all))
	}
	return e.drawType(t, depth, byValue, all, self)
}

// DrawType draws an argument type over the finished environment.
func (e *Env) DrawType(t *rapid.T, depth int) *Type {
	return e.drawType(t, depth, e.Structs, e.Structs, nil)
}

// AllDecls lists every declaration of the environment.
func (e *Env) AllDecls() []*Decl {
	var out []*Decl
	out = append(out, e.ExtBasic...)
	out = append(out, e.ExtKeys...)
	out = append(out, e.ExtStructs...)
	out = append(out, e.NamedBasic...)
	out = append(out, e.NamedComp...)
	out = append(out, e.Structs...)
	return out
}
