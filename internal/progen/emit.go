package progen

import (
	"fmt"
	"go/format"
	"regexp"
	"sort"
	"strings"
)

// Prog is a subject module under construction.
type Prog struct {
	Env       *Env
	Alias     map[string]string // ext dir -> alias used in package p and the harness
	calls     []string
	callImps  map[string]bool
	tests     []string
	testImps  map[string]bool
	Extra     map[string]string // additional files (path -> content)
	WithRapid bool
	// SplitCalls > 1 spreads the call sites over that many files of package p (calls.go, calls_1.go, ...).
	SplitCalls int
	// RenameSplit: every further file of a split package imports the other packages under names of its own.
	RenameSplit bool
}

// NewProg starts a program over an environment.
func NewProg(env *Env) *Prog {
	p := &Prog{Env: env, Alias: map[string]string{}, callImps: map[string]bool{}, testImps: map[string]bool{}, Extra: map[string]string{}}
	used := map[string]bool{"p": true}
	for _, x := range env.Ext {
		a := x.Name
		for i := 2; used[a]; i++ {
			a = fmt.Sprintf("%s%d", x.Name, i)
		}
		used[a] = true
		p.Alias[x.Dir] = a
	}
	return p
}

// Q is the qualifier for code inside the subject package.
func (p *Prog) Q() Qual { return Qual{Alias: p.Alias, Subj: "p"} }

// HQ is the qualifier for code inside the harness package.
func (p *Prog) HQ() Qual { return Qual{From: &ExtPkg{Dir: "\x00h"}, Alias: p.Alias, Subj: "p"} }

func (p *Prog) noteImports(t *Type, into map[string]bool) {
	t.Walk(func(x *Type) {
		if x.Kind == UPtr {
			into["unsafe"] = true
		}
	})
	// only syntactically mentioned declarations need an import
	var mention func(x *Type)
	mention = func(x *Type) {
		if x.Alias != "" {
			return // spelled through an alias of the subject package: nothing of its target is mentioned
		}
		switch x.Kind {
		case Ptr, Slice, Array:
			mention(x.Elem)
		case Map:
			mention(x.Key)
			mention(x.Elem)
		case UStruct:
			for _, f := range x.Fields {
				mention(f.Type)
			}
		case Named:
			if x.Decl.Pkg != nil {
				into["ext:"+x.Decl.Pkg.Dir] = true
			}
			for _, a := range x.Decl.TArgs {
				mention(a)
			}
		}
	}
	mention(t)
}

// T renders a type for calls.go and records the imports it needs.
func (p *Prog) T(t *Type) string {
	p.noteImports(t, p.callImps)
	return t.Str(p.Q())
}

// TT renders a type for the in-package test file.
func (p *Prog) TT(t *Type) string {
	p.noteImports(t, p.testImps)
	return t.Str(p.Q())
}

// Snapshot returns a function that restores the recorded imports (used when a drawn call is dropped).
func (p *Prog) Snapshot() func() {
	a, b := map[string]bool{}, map[string]bool{}
	for k := range p.callImps {
		a[k] = true
	}
	for k := range p.testImps {
		b[k] = true
	}
	return func() { p.callImps, p.testImps = a, b }
}

// HT renders a type as seen from the harness package.
func (p *Prog) HT(t *Type) string { return t.Str(p.HQ()) }

// NoteHarnessImports records the ext imports a type expression needs in the harness package.
func (p *Prog) NoteHarnessImports(t *Type, into map[string]bool) {
	tmp := map[string]bool{}
	p.noteImports(t, tmp)
	for k := range tmp {
		if strings.HasPrefix(k, "ext:") {
			into[k] = true
		}
	}
}

// Add appends a chunk of code to calls.go.
func (p *Prog) Add(format string, a ...any) { p.calls = append(p.calls, fmt.Sprintf(format, a...)) }

// AddTest appends a chunk of code to the in-package _test file.
func (p *Prog) AddTest(format string, a ...any) {
	p.tests = append(p.tests, fmt.Sprintf(format, a...))
}

// Import records a std import for calls.go.
func (p *Prog) Import(path string) { p.callImps[path] = true }

// ImportTest records a std import for the in-package test file.
func (p *Prog) ImportTest(path string) { p.testImps[path] = true }

func (p *Prog) importBlock(imps map[string]bool) string {
	var lines []string
	for k := range imps {
		if strings.HasPrefix(k, "ext:") {
			dir := k[4:]
			lines = append(lines, fmt.Sprintf("\t%s %q", p.Alias[dir], "subj/"+dir))
		} else {
			lines = append(lines, fmt.Sprintf("\t%q", k))
		}
	}
	if len(lines) == 0 {
		return ""
	}
	sort.Strings(lines)
	return "import (\n" + strings.Join(lines, "\n") + "\n)\n\n"
}

func declSrc(d *Decl, q Qual, imps map[string]bool, noter func(*Type, map[string]bool)) string {
	var sb strings.Builder
	if !d.IsStruct {
		noter(d.Under, imps)
		fmt.Fprintf(&sb, "type %s %s\n\n", d.Name, d.Under.Str(q))
		return sb.String()
	}
	fmt.Fprintf(&sb, "type %s struct {\n", d.Name)
	for _, f := range d.Fields {
		noter(f.Type, imps)
		if f.Embedded {
			fmt.Fprintf(&sb, "\t%s\n", f.Type.Str(q))
		} else {
			fmt.Fprintf(&sb, "\t%s %s\n", f.Name, f.Type.Str(q))
		}
	}
	sb.WriteString("}\n\n")
	return sb.String()
}

// keyField returns the first field usable as the basis of a user method: a basic, orderable, non-float field.
func keyField(d *Decl) *Field {
	for i := range d.Fields {
		f := &d.Fields[i]
		if f.Embedded || f.Name == "_" {
			continue
		}
		if f.Type.Kind == Basic {
			switch f.Type.Name {
			case "bool", "complex64", "complex128", "float32", "float64":
				continue
			}
			return f
		}
	}
	return nil
}

func userMethods(d *Decl) string {
	var sb strings.Builder
	kf := keyField(d)
	eqExpr, cmpBody := "true", "return 0"
	if kf != nil {
		eqExpr = fmt.Sprintf("a.%s == b.%s", kf.Name, kf.Name)
		cmpBody = fmt.Sprintf("if a.%[1]s < b.%[1]s {\n\t\treturn -1\n\t}\n\tif a.%[1]s > b.%[1]s {\n\t\treturn 1\n\t}\n\treturn 0", kf.Name)
	}
	switch d.UserEqual {
	case "ptr":
		fmt.Fprintf(&sb, "func (a *%[1]s) Equal(b *%[1]s) bool {\n\tif a == nil || b == nil {\n\t\treturn a == nil && b == nil\n\t}\n\treturn %[2]s\n}\n\n", d.Name, eqExpr)
	case "val":
		fmt.Fprintf(&sb, "func (a %[1]s) Equal(b %[1]s) bool {\n\treturn %[2]s\n}\n\n", d.Name, eqExpr)
	case "derive":
		fmt.Fprintf(&sb, "func (a *%[1]s) Equal(b *%[1]s) bool {\n\treturn deriveEqualM%[1]s(a, b)\n}\n\n", d.Name)
	case "ptrval":
		// receiver and parameter need not agree in pointer-ness
		fmt.Fprintf(&sb, "func (a *%[1]s) Equal(b %[1]s) bool {\n\tif a == nil {\n\t\treturn false\n\t}\n\treturn %[2]s\n}\n\n", d.Name, eqExpr)
	case "valptr":
		fmt.Fprintf(&sb, "func (a %[1]s) Equal(b *%[1]s) bool {\n\tif b == nil {\n\t\treturn false\n\t}\n\treturn %[2]s\n}\n\n", d.Name, eqExpr)
	case "iface":
		fmt.Fprintf(&sb, "func (a *%[1]s) Equal(x interface{}) bool {\n\tb, ok := x.(*%[1]s)\n\tif !ok {\n\t\treturn false\n\t}\n\tif a == nil || b == nil {\n\t\treturn a == nil && b == nil\n\t}\n\treturn %[2]s\n}\n\n", d.Name, eqExpr)
	}
	switch d.UserCompare {
	case "ptr":
		fmt.Fprintf(&sb, "func (a *%[1]s) Compare(b *%[1]s) int {\n\tif a == nil {\n\t\tif b == nil {\n\t\t\treturn 0\n\t\t}\n\t\treturn -1\n\t}\n\tif b == nil {\n\t\treturn 1\n\t}\n\t%[2]s\n}\n\n", d.Name, cmpBody)
	case "val":
		fmt.Fprintf(&sb, "func (a %[1]s) Compare(b %[1]s) int {\n\t%[2]s\n}\n\n", d.Name, cmpBody)
	case "derive":
		fmt.Fprintf(&sb, "func (a *%[1]s) Compare(b *%[1]s) int {\n\treturn deriveCompareM%[1]s(a, b)\n}\n\n", d.Name)
	}
	return sb.String()
}

// Files renders the module.
func (p *Prog) Files() map[string]string {
	files := map[string]string{}
	gomod := "module subj\n\ngo 1.23\n"
	if p.WithRapid {
		gomod += "\nrequire pgregory.net/rapid v1.3.0\n"
	}
	files["go.mod"] = gomod
	// ext packages
	for _, x := range p.Env.Ext {
		var sb strings.Builder
		fmt.Fprintf(&sb, "package %s\n\n", x.Name)
		q := Qual{From: x, Alias: p.Alias, Subj: "p"}
		imps := map[string]bool{}
		body := ""
		for _, d := range p.Env.AllDecls() {
			if d.Pkg == x {
				body += declSrc(d, q, imps, p.noteImports)
			}
		}
		delete(imps, "ext:"+x.Dir)
		sb.WriteString(p.importBlock(imps))
		sb.WriteString(body)
		files[x.Dir+"/ext.go"] = gofmt(sb.String())
	}
	// p/types.go
	{
		imps := map[string]bool{}
		body := ""
		for _, d := range p.Env.AllDecls() {
			if d.Pkg == nil {
				body += declSrc(d, p.Q(), imps, p.noteImports)
				body += userMethods(d)
			}
		}
		for _, g := range p.Env.Generics {
			body += g.Src()
		}
		for _, d := range p.Env.GenericInsts {
			for _, a := range d.TArgs {
				_ = a // the arguments are mentioned where the instantiation is used, not in the declaration
			}
		}
		for _, a := range p.Env.Aliases {
			p.noteImports(a.Target, imps)
			body += fmt.Sprintf("type %s = %s\n\n", a.Name, a.Target.Str(p.Q()))
		}
		for _, ud := range p.Env.UserDecls {
			body += ud + "\n\n"
		}
		files["p/types.go"] = gofmt("package p\n\n" + p.importBlock(imps) + body)
	}
	if p.Env.XTest {
		// the external test package of p: no derive calls, lives in p's directory
		files["p/x_test.go"] = "package p_test\n\nimport \"testing\"\n\nfunc TestX(t *testing.T) {}\n"
	}
	if p.SplitCalls > 1 && len(p.calls) > 1 {
		// the call sites are spread over several files of the package; each file imports what its own text mentions
		parts := make([][]string, p.SplitCalls)
		for i, c := range p.calls {
			parts[i%p.SplitCalls] = append(parts[i%p.SplitCalls], c)
		}
		for i, part := range parts {
			if len(part) == 0 {
				continue
			}
			text := strings.Join(part, "\n")
			imps := map[string]bool{}
			for k := range p.callImps {
				name := k[strings.LastIndex(k, "/")+1:]
				if strings.HasPrefix(k, "ext:") {
					name = p.Alias[k[4:]]
				}
				if strings.Contains(text, name+".") {
					imps[k] = true
				}
			}
			fn := "p/calls.go"
			if i > 0 {
				fn = fmt.Sprintf("p/calls_%d.go", i)
			}
			block := p.importBlock(imps)
			if p.RenameSplit && i > 0 {
				for k := range imps {
					if !strings.HasPrefix(k, "ext:") {
						continue
					}
					al := p.Alias[k[4:]]
					nal := fmt.Sprintf("%sr%d", al, i)
					text = regexp.MustCompile(`\b`+regexp.QuoteMeta(al)+`\.`).ReplaceAllString(text, nal+".")
					block = strings.Replace(block, "\t"+al+" \"", "\t"+nal+" \"", 1)
				}
			}
			files[fn] = gofmt("package p\n\n" + block + text)
		}
	} else {
		files["p/calls.go"] = gofmt("package p\n\n" + p.importBlock(p.callImps) + strings.Join(p.calls, "\n"))
	}
	if len(p.tests) > 0 {
		files["p/more_test.go"] = gofmt("package p\n\n" + p.importBlock(p.testImps) + strings.Join(p.tests, "\n"))
	}
	for k, v := range p.Extra {
		files[k] = v
	}
	return files
}

func gofmt(src string) string {
	b, err := format.Source([]byte(src))
	if err != nil {
		return "// GOFMT ERROR: " + err.Error() + "\n" + src
	}
	return string(b)
}

// Gofmt formats source text (exported for other emitters).
func Gofmt(src string) string { return gofmt(src) }
