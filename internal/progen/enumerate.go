package progen

// FixedEnv is the environment used by the bounded-exhaustive type enumeration.
func FixedEnv() *Env {
	e := &Env{}
	x := &ExtPkg{Dir: "ext1", Name: "ext"}
	e.Ext = []*ExtPkg{x}
	num := &Decl{Name: "Num", Pkg: x, Under: B("int")}
	e.ExtBasic = []*Decl{num}
	ek := &Decl{Name: "Key", Pkg: x, IsStruct: true, Fields: []Field{{Name: "K0", Type: B("int")}, {Name: "k1", Type: B("string")}}}
	e.ExtKeys = []*Decl{ek}
	// an unexported field of E0 has a type of a third package that nothing else mentions: generated code spells
	// that type only where it reaches the field (plugins that skip the field must not import the package)
	z := &ExtPkg{Dir: "x/third", Name: "third"}
	dur := &Decl{Name: "D", Pkg: z, Under: B("int64")}
	e.ExtBasic = append(e.ExtBasic, dur)
	e0 := &Decl{Name: "E0", Pkg: x, IsStruct: true, Fields: []Field{{Name: "F0", Type: B("int")}, {Name: "f1", Type: SliceOf(B("string"))}, {Name: "f2", Type: PtrTo(B("float64"))}, {Name: "f3", Type: NamedT(dur)}}}
	// a flat struct and a second imported package whose struct only uses ext1's types in positions where
	// generated code need not spell them (so derived.gen.go must not import ext1 on their account)
	pt := &Decl{Name: "Pt", Pkg: x, IsStruct: true, Fields: []Field{{Name: "X", Type: B("int")}, {Name: "Y", Type: B("int")}}}
	y := &ExtPkg{Dir: "x/other", Name: "other"}
	e.Ext = append(e.Ext, y, z)
	o0 := &Decl{Name: "O0", Pkg: y, IsStruct: true, Fields: []Field{{Name: "A", Type: B("int")}, {Name: "N", Type: NamedT(num)}, {Name: "P", Type: NamedT(pt)}, {Name: "S", Type: SliceOf(B("string"))}}}
	e.ExtStructs = []*Decl{e0, pt, o0}
	myInt := &Decl{Name: "MyInt", Under: B("int")}
	myStr := &Decl{Name: "MyStr", Under: B("string")}
	e.NamedBasic = []*Decl{myInt, myStr}
	k0 := &Decl{Name: "K0", IsStruct: true, Fields: []Field{{Name: "A", Type: B("int")}, {Name: "b", Type: B("string")}}}
	s0 := &Decl{Name: "S0", IsStruct: true, Fields: []Field{{Name: "A", Type: B("int")}, {Name: "b", Type: B("string")}, {Name: "P", Type: PtrTo(B("int"))}, {Name: "L", Type: SliceOf(B("byte"))}}}
	r := &Decl{Name: "R", IsStruct: true, Recursive: true}
	r.Fields = []Field{{Name: "V", Type: B("int")}, {Name: "Next", Type: PtrTo(NamedT(r))}, {Name: "Kids", Type: SliceOf(NamedT(r))}, {Name: "M", Type: MapOf(B("string"), PtrTo(NamedT(r)))}}
	e.KeyStructs = []*Decl{k0}
	// every field that takes part in == is basic, a blank field makes the struct type not comparable
	bk := &Decl{Name: "Bk", IsStruct: true, Fields: []Field{{Name: "A", Type: B("int")}, {Name: "_", Type: SliceOf(B("int"))}, {Name: "B", Type: B("string")}}}
	e.Structs = []*Decl{k0, s0, r, bk}
	return e
}

// Enumerate lists every type expression up to the given constructor depth over the fixed
// environment: leaves {int, string, float64, bool, byte, MyInt, S0, ext.E0, R, other.O0, Bk} and constructors
// {*T, []T, [2]T, map[string]T, map[K0]T}.
func Enumerate(e *Env, depth int) []*Type {
	leaves := []*Type{B("int"), B("string"), B("float64"), B("bool"), B("byte"), NamedT(e.NamedBasic[0]),
		NamedT(e.Structs[1]), NamedT(e.ExtStructs[0]), NamedT(e.Structs[2]), NamedT(e.ExtStructs[2]), NamedT(e.Structs[3])}
	k0 := NamedT(e.KeyStructs[0])
	level := leaves
	all := append([]*Type{}, leaves...)
	for d := 0; d < depth; d++ {
		var next []*Type
		for _, t := range level {
			next = append(next, PtrTo(t), SliceOf(t), ArrayOf(2, t), MapOf(B("string"), t), MapOf(k0, t))
		}
		all = append(all, next...)
		level = next
	}
	return all
}
