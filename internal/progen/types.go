// Package progen generates Go packages (type declarations + derive calls) from a grammar.
package progen

import (
	"fmt"
	"go/token"
	"sort"
	"strings"
)

// Kind of a type expression.
type Kind int

const (
	Basic Kind = iota
	Ptr
	Slice
	Array
	Map
	Named   // reference to a declaration
	Chan    // unsupported constituents (C09 only)
	Func    // func() / func(int) int
	Iface   // interface{}
	UPtr    // unsafe.Pointer
	UStruct // unnamed struct
)

// Type is a type expression.
type Type struct {
	Kind   Kind
	Name   string // Basic: Go name
	Elem   *Type
	Key    *Type
	Len    int
	Decl   *Decl   // Named
	Fields []Field // UStruct
	Text   string  // Func / Chan spelled out
	// Alias: the type is spelled through an alias declaration of the subject package (type A0 = <this type>).
	// An alias denotes the very same type, so everything structural ignores it; only Str prints the alias.
	Alias string
}

// Aliased returns a copy of the type that is spelled through the alias.
func (t *Type) Aliased(name string) *Type {
	c := *t
	c.Alias = name
	return &c
}

// Field of a struct.
type Field struct {
	Name     string
	Type     *Type
	Embedded bool
}

// Decl is a named type declaration.
type Decl struct {
	Name     string
	Pkg      *ExtPkg // nil = the subject package
	Under    *Type   // non-struct underlying type (nil for structs)
	Fields   []Field // struct fields (IsStruct)
	IsStruct bool
	// user methods: "", "ptr" (func (a *N) M(b *N)), "val" (func (a N) M(b N))
	UserEqual   string
	UserCompare string
	Recursive   bool
	// Generic / TArgs: the declaration is one instantiation G0[TArgs...] of a generic struct of the subject package.
	// Name is the generic's name, Fields are the fields with the arguments substituted; the generic declaration
	// itself is emitted once from Generic.
	Generic *GenericDecl
	TArgs   []*Type
}

// GenericDecl is a generic struct declaration: type G0[T0 any, T1 any] struct { F0 T0; F1 []T1; ... }.
type GenericDecl struct {
	Name    string
	NParams int
	Fields  []GField
}

// GField is a field of a generic struct: Shape applied to type parameter Param.
// Shapes: 0 T, 1 []T, 2 *T, 3 map[string]T, 4 [2]T, 5 int (no parameter).
type GField struct {
	Name  string
	Shape int
	Param int
}

func (f GField) apply(arg *Type) *Type {
	switch f.Shape {
	case 0:
		return arg
	case 1:
		return SliceOf(arg)
	case 2:
		return PtrTo(arg)
	case 3:
		return MapOf(B("string"), arg)
	case 4:
		return ArrayOf(2, arg)
	}
	return B("int")
}

func (f GField) src() string {
	t := fmt.Sprintf("T%d", f.Param)
	switch f.Shape {
	case 0:
		return t
	case 1:
		return "[]" + t
	case 2:
		return "*" + t
	case 3:
		return "map[string]" + t
	case 4:
		return "[2]" + t
	}
	return "int"
}

// Src renders the generic declaration.
func (g *GenericDecl) Src() string {
	var ps []string
	for i := 0; i < g.NParams; i++ {
		ps = append(ps, fmt.Sprintf("T%d any", i))
	}
	var sb strings.Builder
	fmt.Fprintf(&sb, "type %s[%s] struct {\n", g.Name, strings.Join(ps, ", "))
	for _, f := range g.Fields {
		fmt.Fprintf(&sb, "\t%s %s\n", f.Name, f.src())
	}
	sb.WriteString("}\n\n")
	return sb.String()
}

// Instantiate returns the declaration of G[args...].
func (g *GenericDecl) Instantiate(args []*Type) *Decl {
	d := &Decl{Name: g.Name, IsStruct: true, Generic: g, TArgs: args}
	for _, f := range g.Fields {
		var a *Type
		if f.Shape != 5 {
			a = args[f.Param]
		}
		d.Fields = append(d.Fields, Field{Name: f.Name, Type: f.apply(a)})
	}
	return d
}

// ExtPkg is an imported package of the subject module.
type ExtPkg struct {
	Dir  string // directory relative to module root, e.g. "ext1" or "x/ext"
	Name string // package name
}

// ImportPath of the external package within module subj.
func (e *ExtPkg) ImportPath() string { return "subj/" + e.Dir }

var basicNames = []string{"bool", "int", "int8", "int16", "int32", "int64", "uint", "uint8", "uint16", "uint32", "uint64",
	"uintptr", "float32", "float64", "complex64", "complex128", "string", "byte", "rune"}

// B returns the basic type with the given name.
func B(name string) *Type { return &Type{Kind: Basic, Name: name} }

// PtrTo etc. are constructors.
func PtrTo(e *Type) *Type          { return &Type{Kind: Ptr, Elem: e} }
func SliceOf(e *Type) *Type        { return &Type{Kind: Slice, Elem: e} }
func ArrayOf(n int, e *Type) *Type { return &Type{Kind: Array, Len: n, Elem: e} }
func MapOf(k, v *Type) *Type       { return &Type{Kind: Map, Key: k, Elem: v} }
func NamedT(d *Decl) *Type         { return &Type{Kind: Named, Decl: d} }

// Qual says how a package-qualified name is printed.
// from == nil: printing inside the subject package; alias maps ExtPkg.Dir to the import alias.
type Qual struct {
	From  *ExtPkg
	Alias map[string]string
	Subj  string // qualifier for subject-package types when printing from elsewhere ("p")
	Canon bool   // print byte/rune as uint8/int32 (identity keys)
}

func (q Qual) declName(d *Decl) string {
	if d.Generic != nil {
		var as []string
		for _, a := range d.TArgs {
			as = append(as, a.Str(q))
		}
		inst := d.Name + "[" + strings.Join(as, ", ") + "]"
		if q.From == nil {
			return inst
		}
		return q.Subj + "." + inst
	}
	if q.Canon && d.Pkg != nil {
		// identity keys tell two packages of the same name apart
		return d.Pkg.Dir + "." + d.Name
	}
	if d.Pkg == q.From || (d.Pkg != nil && q.From != nil && d.Pkg.Dir == q.From.Dir) {
		return d.Name
	}
	if d.Pkg == nil {
		return q.Subj + "." + d.Name
	}
	if a, ok := q.Alias[d.Pkg.Dir]; ok {
		return a + "." + d.Name
	}
	return d.Pkg.Name + "." + d.Name
}

// Str renders a type expression.
func (t *Type) Str(q Qual) string {
	if t.Alias != "" && !q.Canon {
		if q.From == nil {
			return t.Alias
		}
		return q.Subj + "." + t.Alias
	}
	switch t.Kind {
	case Basic:
		if q.Canon {
			switch t.Name {
			case "rune":
				return "int32"
			case "byte":
				return "uint8"
			}
		}
		return t.Name
	case Ptr:
		return "*" + t.Elem.Str(q)
	case Slice:
		return "[]" + t.Elem.Str(q)
	case Array:
		return fmt.Sprintf("[%d]%s", t.Len, t.Elem.Str(q))
	case Map:
		return "map[" + t.Key.Str(q) + "]" + t.Elem.Str(q)
	case Named:
		return q.declName(t.Decl)
	case Chan, Func:
		return t.Text
	case Iface:
		if t.Name == "any" && q.Canon {
			return "interface{}" // one type, two spellings
		}
		if t.Name != "" {
			return t.Name
		}
		return "interface{}"
	case UPtr:
		return "unsafe.Pointer"
	case UStruct:
		if t.Text != "" {
			return t.Text // spelled out (field tags)
		}
		var sb strings.Builder
		sb.WriteString("struct{ ")
		for i, f := range t.Fields {
			if i > 0 {
				sb.WriteString("; ")
			}
			sb.WriteString(f.Name + " " + f.Type.Str(q))
		}
		sb.WriteString(" }")
		return sb.String()
	}
	return "?"
}

// Under returns the structural underlying type expression (Named non-struct resolved).
func (t *Type) Under() *Type {
	for t.Kind == Named && !t.Decl.IsStruct {
		t = t.Decl.Under
	}
	return t
}

// IsStruct reports whether the type is a named struct.
func (t *Type) IsStruct() bool { return t.Kind == Named && t.Decl.IsStruct }

// Comparable reports Go's == comparability (what goderive calls canEqual), for
// types of the supported grammar.
func (t *Type) Comparable() bool {
	u := t.Under()
	switch u.Kind {
	case Basic:
		return true
	case Array:
		return u.Elem.Comparable()
	case Named: // struct
		for _, f := range u.Decl.Fields {
			if !f.Type.Comparable() {
				return false
			}
		}
		return true
	case UStruct:
		for _, f := range u.Fields {
			if !f.Type.Comparable() {
				return false
			}
		}
		return true
	}
	return false
}

// GoComparable reports whether Go allows == on the type (pointers, chans, interfaces included).
func (t *Type) GoComparable() bool {
	u := t.Under()
	switch u.Kind {
	case Basic, Ptr, Chan, Iface, UPtr:
		return true
	case Array:
		return u.Elem.GoComparable()
	case Named:
		for _, f := range u.Decl.Fields {
			if !f.Type.GoComparable() {
				return false
			}
		}
		return true
	case UStruct:
		for _, f := range u.Fields {
			if !f.Type.GoComparable() {
				return false
			}
		}
		return true
	}
	return false
}

// Walk visits t and every type expression reachable from it (through declarations once).
func (t *Type) Walk(f func(*Type)) { t.walk(f, map[*Decl]bool{}) }

func (t *Type) walk(f func(*Type), seen map[*Decl]bool) {
	if t == nil {
		return
	}
	f(t)
	switch t.Kind {
	case Ptr, Slice, Array:
		t.Elem.walk(f, seen)
	case Map:
		t.Key.walk(f, seen)
		t.Elem.walk(f, seen)
	case UStruct:
		for _, fl := range t.Fields {
			fl.Type.walk(f, seen)
		}
	case Named:
		if seen[t.Decl] {
			return
		}
		seen[t.Decl] = true
		if t.Decl.IsStruct {
			for _, fl := range t.Decl.Fields {
				fl.Type.walk(f, seen)
			}
		} else {
			t.Decl.Under.walk(f, seen)
		}
	}
}

// Decls returns the declarations reachable from t (sorted by name for determinism).
func (t *Type) Decls() []*Decl {
	set := map[*Decl]bool{}
	t.Walk(func(x *Type) {
		if x.Kind == Named {
			set[x.Decl] = true
		}
	})
	return sortDecls(set)
}

func sortDecls(set map[*Decl]bool) []*Decl {
	out := make([]*Decl, 0, len(set))
	for d := range set {
		out = append(out, d)
	}
	sort.Slice(out, func(i, j int) bool {
		a, b := out[i], out[j]
		ad, bd := "", ""
		if a.Pkg != nil {
			ad = a.Pkg.Dir
		}
		if b.Pkg != nil {
			bd = b.Pkg.Dir
		}
		if ad != bd {
			return ad < bd
		}
		return a.Name < b.Name
	})
	return out
}

// Has reports whether some reachable type expression satisfies pred.
func (t *Type) Has(pred func(*Type) bool) bool {
	found := false
	t.Walk(func(x *Type) {
		if pred(x) {
			found = true
		}
	})
	return found
}

// Features summarises a type for class statistics.
func (t *Type) Features() []string {
	var fs []string
	add := func(s string) {
		for _, x := range fs {
			if x == s {
				return
			}
		}
		fs = append(fs, s)
	}
	t.Walk(func(x *Type) {
		switch x.Kind {
		case Map:
			add("map")
			if x.Key.IsStruct() {
				add("structkey")
			}
			if x.Key.Under().Kind == Array {
				add("arraykey")
			}
		case Ptr:
			add("ptr")
		case Slice:
			add("slice")
			if x.Elem.Kind == Basic && (x.Elem.Name == "byte" || x.Elem.Name == "uint8") {
				add("bytes")
			}
		case Array:
			add("array")
			if x.Len == 0 {
				add("array0")
			}
		case Named:
			d := x.Decl
			if d.Pkg != nil {
				add("ext")
				for _, f := range d.Fields {
					if f.Name != "" && !token.IsExported(f.Name) {
						add("ext-private")
					}
				}
			}
			if d.Generic != nil {
				add("generic")
			}
			if d.IsStruct {
				add("struct")
				if d.Recursive {
					add("recursive")
				}
				for _, f := range d.Fields {
					if f.Embedded {
						add("embedded")
					}
				}
				if len(d.Fields) == 0 {
					add("emptystruct")
				}
			} else if d.Under.Kind == Basic {
				add("namedbasic")
			} else {
				add("namedcomposite")
			}
			if d.UserEqual != "" {
				add("userequal")
			}
			if d.UserCompare != "" {
				add("usercompare")
			}
		case Basic:
			switch x.Name {
			case "float32", "float64":
				add("float")
			case "complex64", "complex128":
				add("complex")
			case "string":
				add("string")
			}
		}
	})
	sort.Strings(fs)
	return fs
}

// Depth is the constructor depth of the type expression (declarations count 1).
func (t *Type) Depth() int {
	switch t.Kind {
	case Ptr, Slice, Array:
		return 1 + t.Elem.Depth()
	case Map:
		a, b := t.Key.Depth(), t.Elem.Depth()
		if a > b {
			return 1 + a
		}
		return 1 + b
	}
	return 0
}

// Ident turns the type into an identifier fragment (for function suffixes).
func (t *Type) Ident() string {
	if t.Alias != "" {
		return t.Alias
	}
	switch t.Kind {
	case Basic:
		return strings.Title(t.Name)
	case Ptr:
		return "P" + t.Elem.Ident()
	case Slice:
		return "S" + t.Elem.Ident()
	case Array:
		return fmt.Sprintf("A%d%s", t.Len, t.Elem.Ident())
	case Map:
		return "M" + t.Key.Ident() + "To" + t.Elem.Ident()
	case Named:
		if t.Decl.Pkg != nil {
			return strings.Title(strings.ReplaceAll(t.Decl.Pkg.Dir, "/", "")) + t.Decl.Name
		}
		id := t.Decl.Name
		for _, a := range t.Decl.TArgs {
			id += "Of" + a.Ident()
		}
		return id
	}
	return "X"
}
