package progen

import (
	"fmt"
	"strings"

	"pgregory.net/rapid"
)

// ErrorT and AnyT are the interface types allowed in signatures.
func ErrorT() *Type { return &Type{Kind: Iface, Name: "error"} }
func AnyT() *Type   { return &Type{Kind: Iface, Name: "interface{}"} }

// Param is a named (or unnamed) parameter.
type Param struct {
	Name string
	Type *Type
}

// Sig is a function signature.
type Sig struct {
	Params  []Param
	Results []*Type
	Mode    string // named | unnamed | blank | hostile | minted
	// ResNames names the results (all or none): func(a A) (r0 R, err error)
	ResNames []string
}

var hostileResultNames = []string{"f", "err", "g", "param_0", "param_1", "out0", "success", "v0", "res0", "ok", "e", "this", "mem", "input", "h", "c"}

var hostileNames = []string{"f", "g", "err", "param_0", "v0", "in", "out", "this", "that", "list", "param_1", "innerParam_0", "h", "m", "res0", "ok", "success", "e", "out0", "out1", "v", "c", "i", "wait", "mem", "input", "output", "nil", "true", "false"}

// NameParams assigns parameter names according to a naming mode.
func NameParams(t *rapid.T, n int, mode string) []string {
	names := make([]string, n)
	switch mode {
	case "unnamed":
		return names
	case "named":
		for i := range names {
			names[i] = string(rune('a' + i))
		}
	case "blank":
		for i := range names {
			if rapid.Bool().Draw(t, "isblank") {
				names[i] = "_"
			} else {
				names[i] = string(rune('a' + i))
			}
		}
	case "minted":
		// only names of the shape the generator itself mints for parameters, at other positions than it
		// would use them, and none of the names (f, err, _) that make it rename everything
		pool := []string{"param_0", "param_1", "param_2", "param_3", "param_4", "param_5"}
		perm := rapid.Permutation(pool).Draw(t, "minted")
		copy(names, perm)
	case "hostile":
		used := map[string]bool{}
		for i := range names {
			for {
				nm := hostileNames[rapid.IntRange(0, len(hostileNames)-1).Draw(t, "hostile")]
				if !used[nm] {
					used[nm] = true
					names[i] = nm
					break
				}
			}
		}
	}
	return names
}

// DrawSigType draws a parameter/result type for signatures.
func (e *Env) DrawSigType(t *rapid.T, allowIface bool) *Type {
	if allowIface {
		switch rapid.IntRange(0, 11).Draw(t, "sigiface") {
		case 0:
			return ErrorT()
		case 1:
			return AnyT()
		}
	}
	return e.DrawType(t, rapid.IntRange(0, 2).Draw(t, "sigdepth"))
}

// ParamList renders "a A, b B" (or "A, B" when unnamed).
func (s *Sig) ParamList(render func(*Type) string) string {
	var ps []string
	for _, p := range s.Params {
		if p.Name == "" {
			ps = append(ps, render(p.Type))
		} else {
			ps = append(ps, p.Name+" "+render(p.Type))
		}
	}
	return strings.Join(ps, ", ")
}

// ResultList renders "", "R" or "(R0, R1)".
func ResultList(rs []*Type, render func(*Type) string) string {
	var out []string
	for _, r := range rs {
		out = append(out, render(r))
	}
	switch len(out) {
	case 0:
		return ""
	case 1:
		return out[0]
	}
	return "(" + strings.Join(out, ", ") + ")"
}

// FuncType renders the function type.
func (s *Sig) FuncType(render func(*Type) string) string {
	r := ResultList(s.Results, render)
	if len(s.ResNames) == len(s.Results) && len(s.Results) > 0 {
		var out []string
		for i, t := range s.Results {
			out = append(out, s.ResNames[i]+" "+render(t))
		}
		r = "(" + strings.Join(out, ", ") + ")"
	}
	if r != "" {
		r = " " + r
	}
	return "func(" + s.ParamList(render) + ")" + r
}

// TypeKey identifies the signature by its parameter and result types only (names do not count:
// goderive's table treats signatures that differ only in parameter names as the same entry).
func (s *Sig) TypeKey() string {
	q := Qual{Subj: "p", Canon: true}
	var ps, rs []string
	for _, p := range s.Params {
		ps = append(ps, p.Type.Str(q))
	}
	for _, r := range s.Results {
		rs = append(rs, r.Str(q))
	}
	return fmt.Sprintf("func(%s)(%s)", strings.Join(ps, ","), strings.Join(rs, ","))
}

// DrawSig draws a non-variadic signature.
func (e *Env) DrawSig(t *rapid.T, minParams, maxParams, maxResults int, modes []string) *Sig {
	n := rapid.IntRange(minParams, maxParams).Draw(t, "nparams")
	mode := modes[rapid.IntRange(0, len(modes)-1).Draw(t, "namemode")]
	names := NameParams(t, n, mode)
	s := &Sig{Mode: mode}
	for i := 0; i < n; i++ {
		s.Params = append(s.Params, Param{Name: names[i], Type: e.DrawSigType(t, true)})
	}
	nr := rapid.IntRange(0, maxResults).Draw(t, "nresults")
	for i := 0; i < nr; i++ {
		s.Results = append(s.Results, e.DrawSigType(t, true))
	}
	if n >= 2 && mode != "unnamed" && rapid.IntRange(0, 5).Draw(t, "shadowing-name") == 0 {
		// one parameter is called like a type or package that another parameter or a result mentions
		// (time int64, d time.Duration): legal, and it hides that name from everything declared after it
		var names []string
		add := func(x string) {
			for _, p := range s.Params {
				if p.Name == x {
					return
				}
			}
			names = append(names, x)
		}
		collect := func(ty *Type) {
			ty.Walk(func(x *Type) {
				switch {
				case x.Alias != "":
					add(x.Alias)
				case x.Kind == Basic:
					add(x.Name)
				case x.Kind == Iface && x.Name == "error":
					add("error")
				case x.Kind == Iface && x.Name == "interface{}":
					add("any") // goderive prints the empty interface as any
				case x.Kind == Named && x.Decl.Pkg == nil && x.Decl.Generic == nil:
					add(x.Decl.Name)
				case x.Kind == Named && x.Decl.Pkg != nil:
					add(x.Decl.Pkg.Name)
				}
			})
		}
		// which parameter gets the name: the first one in half of the cases, any other one (the last one is the one
		// Apply binds) otherwise; the name comes from the other parameters and, not always, from the results
		k := 0
		if rapid.Bool().Draw(t, "shadowing-not-first") {
			k = rapid.IntRange(1, n-1).Draw(t, "shadowing-index")
		}
		for i, p := range s.Params {
			if i != k {
				collect(p.Type)
			}
		}
		if k == 0 || rapid.Bool().Draw(t, "shadowing-results-too") {
			for _, r := range s.Results {
				collect(r)
			}
		}
		if rapid.IntRange(0, 3).Draw(t, "shadow-any") == 0 {
			// the empty interface is printed as any: the last parameter gets that type and the first one that name
			s.Params[n-1].Type = &Type{Kind: Iface, Name: "any"} // spelled any in the user's source
			s.Params[0].Name = "any"
			s.Mode = "shadowing"
		} else if len(names) > 0 {
			s.Params[k].Name = names[rapid.IntRange(0, len(names)-1).Draw(t, "shadowed")]
			s.Mode = "shadowing"
		}
	}
	if nr > 0 && !e.Opt.NoResultNames {
		// named results: plain ones, or names the generated wrappers use themselves (never a parameter's name: Go forbids it)
		taken := map[string]bool{}
		for _, p := range s.Params {
			taken[p.Name] = true
		}
		switch rapid.IntRange(0, 5).Draw(t, "resnames") {
		case 0:
			for i := 0; i < nr; i++ {
				s.ResNames = append(s.ResNames, fmt.Sprintf("r%d", i))
			}
		case 1:
			for i := 0; i < nr; i++ {
				for {
					nm := hostileResultNames[rapid.IntRange(0, len(hostileResultNames)-1).Draw(t, "hostileres")]
					if !taken[nm] {
						taken[nm] = true
						s.ResNames = append(s.ResNames, nm)
						break
					}
				}
			}
		}
	}
	return s
}
