package progen

import (
	"fmt"
	"go/token"
	"strings"

	"pgregory.net/rapid"
)

// HasExtPrivate reports whether an imported struct with unexported fields is reachable.
func (t *Type) HasExtPrivate() bool {
	return t.Has(func(x *Type) bool {
		if x.Kind != Named || x.Decl.Pkg == nil || !x.Decl.IsStruct {
			return false
		}
		for _, f := range x.Decl.Fields {
			if !token.IsExported(f.Name) {
				return true
			}
		}
		return false
	})
}

// OrderedBasic reports whether < is defined on the (unnamed) basic type.
func (t *Type) OrderedBasic() bool {
	if t.Kind != Basic {
		return false
	}
	switch t.Name {
	case "bool", "complex64", "complex128":
		return false
	}
	return true
}

// StructuralPlugins are the plugins that take any supported type.
var StructuralPlugins = []string{"equal", "equalc", "compare", "comparec", "hash", "clone", "deepcopy", "gostring"}

// ListPlugins take a slice (and friends).
var ListPlugins = []string{"keys", "sort", "minl", "maxl", "mint", "maxt", "contains", "unique", "set", "unionl", "intersectl", "unionm", "intersectm",
	"filter", "takewhile", "all", "any"}

// AssignKey identifies a type up to goderive's table lookup, which matches by assignability:
// a named non-struct type collides with its unnamed underlying type (and, conservatively,
// with every other named type of the same underlying type).
func AssignKey(t *Type) string {
	q := Qual{Subj: "p", Canon: true}
	return t.Under().Str(q)
}

// Used records which (plugin, argument types) combinations a program already calls by name.
type Used map[string]bool

// Claim reserves the combinations; it returns false (reserving nothing) if one is taken.
func (u Used) Claim(keys ...string) bool {
	for _, k := range keys {
		if u[k] {
			return false
		}
	}
	for _, k := range keys {
		u[k] = true
	}
	return true
}

func ukey(plugin string, ts ...*Type) string {
	k := plugin
	for _, t := range ts {
		k += "|" + AssignKey(t)
	}
	return k
}

// DrawnCall is a call with its provenance.
type DrawnCall struct {
	Call   *Call
	Kind   string
	Type   *Type
	Form   string
	Nested bool
}

// DrawStructuralCall draws one call of a structural or list plugin over the environment.
// It returns nil when the drawn combination is outside the supported set.
func DrawStructuralCall(t *rapid.T, e *Env, p *Prog, used Used, sfx string, kinds []string, render func(*Type) string) *DrawnCall {
	restore := p.Snapshot()
	dc := drawStructuralCall(t, e, p, sfx, kinds, render)
	if dc == nil {
		restore()
		return nil
	}
	var key string
	switch dc.Kind {
	case "equal", "compare":
		key = ukey(dc.Kind, dc.Type, dc.Type)
	case "equalc", "comparec":
		key = ukey(strings.TrimSuffix(dc.Kind, "c"), dc.Type)
	case "minl", "maxl":
		key = ukey(dc.Kind[:3], SliceOf(dc.Type), dc.Type)
	case "mint", "maxt":
		key = ukey(dc.Kind[:3], dc.Type, dc.Type)
	case "sort", "contains", "unique", "set", "filter", "takewhile", "all", "any":
		key = ukey(dc.Kind, SliceOf(dc.Type))
	case "unionl", "intersectl":
		key = ukey(strings.TrimSuffix(dc.Kind, "l"), SliceOf(dc.Type))
	case "unionm", "intersectm":
		key = ukey(strings.TrimSuffix(dc.Kind, "m"), MapOf(dc.Type, B("struct{}")))
	default:
		key = ukey(dc.Kind, dc.Type)
	}
	if !used.Claim(key) {
		restore()
		return nil
	}
	return dc
}

func drawStructuralCall(t *rapid.T, e *Env, p *Prog, sfx string, kinds []string, render func(*Type) string) *DrawnCall {
	kind := pick(t, "plugin", kinds)
	typ := e.DrawType(t, rapid.IntRange(0, 3).Draw(t, "depth"))
	ts := func(x *Type) string { return render(x) }
	dc := &DrawnCall{Kind: kind, Type: typ}
	if (kind == "equal" || kind == "hash") && len(e.KeyStructs) > 0 && rapid.IntRange(0, 7).Draw(t, "unnamedstruct") == 0 {
		// an unnamed ==-comparable struct type as the argument: plain fields, a tag, embedded structs (by value and
		// of an imported package)
		ks := e.KeyStructs[0]
		fields := []Field{{Name: "A", Type: B("int")}, {Name: ks.Name, Type: NamedT(ks), Embedded: true}, {Name: "B", Type: B("string")}}
		text := "struct {\n\tA int `json:\"a,omitempty\" fmt:\"%d\"`\n\t" + ks.Name + "\n\tB string\n"
		if len(e.ExtKeys) > 0 {
			xk := e.ExtKeys[0]
			fields = append(fields, Field{Name: xk.Name, Type: NamedT(xk), Embedded: true})
			text += "\t" + render(NamedT(xk)) + "\n"
		}
		text += "}"
		typ = &Type{Kind: UStruct, Fields: fields, Text: text}
		dc.Type = typ
	}
	switch kind {
	case "equal":
		dc.Call = Equal(ts(typ), sfx)
	case "equalc":
		dc.Call = EqualCurried(ts(typ), sfx)
	case "compare":
		dc.Call = Compare(ts(typ), sfx)
	case "comparec":
		dc.Call = CompareCurried(ts(typ), sfx)
	case "hash":
		dc.Call = Hash(ts(typ), sfx)
	case "clone":
		dc.Call = Clone(ts(typ), sfx)
	case "deepcopy":
		switch rapid.IntRange(0, 2).Draw(t, "dcshape") {
		case 0:
			typ = PtrTo(typ)
		case 1:
			typ = SliceOf(typ)
		default:
			typ = MapOf(e.DrawKey(t, 1), typ)
		}
		dc.Type = typ
		dc.Call = DeepCopy(ts(typ), sfx)
	case "gostring":
		if typ.HasExtPrivate() {
			return nil
		}
		dc.Call = GoString(ts(typ), sfx)
	case "keys":
		m := MapOf(e.DrawKey(t, 1), typ)
		dc.Type = m
		dc.Call = Keys(ts(m), ts(m.Key), sfx)
	case "sort":
		dc.Call = Sort(ts(typ), sfx)
	case "minl", "maxl", "mint", "maxt":
		if typ.Kind == Basic && !typ.OrderedBasic() {
			return nil
		}
		which := "Min"
		if strings.HasPrefix(kind, "max") {
			which = "Max"
		}
		if strings.HasSuffix(kind, "l") {
			dc.Call = MinMaxList(which, ts(typ), sfx)
			if u := typ.Under().Kind; (u == Ptr || u == Slice || u == Map) && rapid.IntRange(0, 2).Draw(t, "nildefault") == 0 {
				dc.Call = MinMaxListNil(which, ts(typ), sfx)
			}
		} else {
			dc.Call = MinMaxTwo(which, ts(typ), sfx)
		}
	case "contains":
		dc.Call = Contains(ts(typ), sfx)
		if u := typ.Under().Kind; (u == Ptr || u == Slice || u == Map) && rapid.IntRange(0, 2).Draw(t, "nilitem") == 0 {
			dc.Call = ContainsNil(ts(typ), sfx)
		}
	case "unique":
		dc.Call = Unique(ts(typ), sfx)
	case "set":
		k := e.DrawKey(t, 1)
		dc.Type = k
		dc.Call = Set(ts(k), sfx)
	case "unionl":
		dc.Call = UnionIntersectList("Union", ts(typ), sfx)
	case "intersectl":
		dc.Call = UnionIntersectList("Intersect", ts(typ), sfx)
	case "unionm", "intersectm":
		k := e.DrawKey(t, 1)
		dc.Type = k
		which := "Union"
		if kind == "intersectm" {
			which = "Intersect"
		}
		dc.Call = UnionIntersectMap(which, ts(k), sfx)
	case "filter":
		dc.Call = PredList("Filter", ts(typ), sfx)
	case "takewhile":
		dc.Call = PredList("TakeWhile", ts(typ), sfx)
	case "all":
		dc.Call = PredList("All", ts(typ), sfx)
	case "any":
		dc.Call = PredList("Any", ts(typ), sfx)
	default:
		panic("unknown kind " + kind)
	}
	return dc
}

// NestedForms are the nested-call shapes whose outer argument type is only known after the
// inner function exists.
var NestedForms = []string{"sortkeys", "equalclone", "hashclone", "containssort", "uniquesort", "comparemin", "keysclone", "equalkeys"}

// DrawNestedCall draws a nested derive call; the source is returned directly.
func DrawNestedCall(t *rapid.T, e *Env, used Used, render func(*Type) string, sfx string) (code string, kind string, typ *Type) {
	kind = pick(t, "nested", NestedForms)
	typ = e.DrawType(t, rapid.IntRange(0, 2).Draw(t, "ndepth"))
	var k *Type
	switch kind {
	case "sortkeys", "keysclone", "equalkeys":
		k = e.DrawKey(t, 1)
	case "comparemin":
		if typ.Kind == Basic && !typ.OrderedBasic() {
			typ = B("int")
		}
	}
	var keys []string
	switch kind {
	case "sortkeys":
		keys = []string{ukey("keys", MapOf(k, typ)), ukey("sort", SliceOf(k))}
	case "equalclone":
		keys = []string{ukey("equal", typ, typ), ukey("clone", typ)}
	case "hashclone":
		keys = []string{ukey("hash", typ), ukey("clone", typ)}
	case "containssort":
		keys = []string{ukey("contains", SliceOf(typ)), ukey("sort", SliceOf(typ))}
	case "uniquesort":
		keys = []string{ukey("unique", SliceOf(typ)), ukey("sort", SliceOf(typ))}
	case "comparemin":
		keys = []string{ukey("compare", typ, typ), ukey("min", typ, typ)}
	case "keysclone":
		keys = []string{ukey("keys", MapOf(k, typ)), ukey("clone", MapOf(k, typ))}
	case "equalkeys":
		keys = []string{ukey("keys", MapOf(k, typ)), ukey("sort", SliceOf(k)), ukey("equal", SliceOf(k), SliceOf(k))}
	}
	if !used.Claim(keys...) {
		return "", kind, typ
	}
	ts := render(typ)
	w := "Nested" + sfx
	switch kind {
	case "sortkeys":
		m := MapOf(k, typ)
		typ = m
		code = fmt.Sprintf("func %s(m %s) []%s {\n\treturn deriveSortN%s(deriveKeysN%s(m))\n}\n", w, render(m), render(k), sfx, sfx)
	case "equalclone":
		code = fmt.Sprintf("func %s(a, b %s) bool {\n\treturn deriveEqualN%s(deriveCloneN%s(a), b)\n}\n", w, ts, sfx, sfx)
	case "hashclone":
		code = fmt.Sprintf("func %s(a %s) uint64 {\n\treturn deriveHashN%s(deriveCloneN%s(a))\n}\n", w, ts, sfx, sfx)
	case "containssort":
		code = fmt.Sprintf("func %s(l []%s, x %s) bool {\n\treturn deriveContainsN%s(deriveSortN%s(l), x)\n}\n", w, ts, ts, sfx, sfx)
	case "uniquesort":
		code = fmt.Sprintf("func %s(l []%s) []%s {\n\treturn deriveUniqueN%s(deriveSortN%s(l))\n}\n", w, ts, ts, sfx, sfx)
	case "comparemin":
		code = fmt.Sprintf("func %s(a, b, c %s) int {\n\treturn deriveCompareN%s(deriveMinN%s(a, b), c)\n}\n", w, ts, sfx, sfx)
	case "keysclone":
		m := MapOf(k, typ)
		typ = m
		code = fmt.Sprintf("func %s(m %s) []%s {\n\treturn deriveKeysN%s(deriveCloneN%s(m))\n}\n", w, render(m), render(k), sfx, sfx)
	case "equalkeys":
		m := MapOf(k, typ)
		typ = m
		code = fmt.Sprintf("func %s(m, n %s) bool {\n\treturn deriveEqualN%s(deriveSortN%s(deriveKeysN%s(m)), deriveSortN%s(deriveKeysN%s(n)))\n}\n", w, render(m), sfx, sfx, sfx, sfx, sfx)
	}
	return
}
