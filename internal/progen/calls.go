package progen

import (
	"fmt"
	"strings"
)

// Call is one derive call together with what is needed to wrap it in a call site.
type Call struct {
	Plugin  string
	Fn      string // derive function identifier
	PNames  []string
	PTypes  []string // rendered parameter types
	Result  string   // rendered result list ("" = none)
	ExprFn  func(args []string) string
	NoValue bool     // the call is a statement
	Std     []string // std imports needed by the parameter/result types
}

// Expr renders the call with the wrapper's own parameter names.
func (c *Call) Expr() string { return c.ExprFn(c.PNames) }

func (c *Call) params() string {
	var ps []string
	for i := range c.PNames {
		ps = append(ps, c.PNames[i]+" "+c.PTypes[i])
	}
	return strings.Join(ps, ", ")
}

func (c *Call) body() string {
	if c.NoValue || c.Result == "" {
		return c.Expr()
	}
	return "return " + c.Expr()
}

// Forms in which a call site can appear.
const (
	FormBody    = "body"
	FormMethod  = "method"
	FormVar     = "var"
	FormClosure = "closure"
	FormTest    = "test"
)

// Render produces the source of a call site named w in the given form.
func (c *Call) Render(form, w string) string {
	res := c.Result
	if res != "" {
		res = " " + res
	}
	switch form {
	case FormMethod:
		return fmt.Sprintf("type recv%[1]s struct{}\n\nfunc (recv%[1]s) %[1]s(%[2]s)%[3]s {\n\t%[4]s\n}\n", w, c.params(), res, c.body())
	case FormVar:
		if c.Result != "" && !c.NoValue && !strings.HasPrefix(c.Result, "(") {
			zeros := make([]string, len(c.PTypes))
			for i, pt := range c.PTypes {
				zeros[i] = "*new(" + pt + ")"
			}
			return fmt.Sprintf("var %s = %s\n", w, c.ExprFn(zeros))
		}
		fallthrough
	case FormClosure:
		return fmt.Sprintf("var %s = func(%s)%s {\n\t%s\n}\n", w, c.params(), res, c.body())
	default:
		return fmt.Sprintf("func %s(%s)%s {\n\t%s\n}\n", w, c.params(), res, c.body())
	}
}

func call(fn string) func([]string) string {
	return func(a []string) string { return fn + "(" + strings.Join(a, ", ") + ")" }
}

// Builders. ts is the rendered type; sfx makes the derive name unique.

func Equal(ts, sfx string) *Call {
	fn := "deriveEqual" + sfx
	return &Call{Plugin: "equal", Fn: fn, PNames: []string{"a", "b"}, PTypes: []string{ts, ts}, Result: "bool", ExprFn: call(fn)}
}

func EqualCurried(ts, sfx string) *Call {
	fn := "deriveEqualC" + sfx
	return &Call{Plugin: "equal", Fn: fn, PNames: []string{"a", "b"}, PTypes: []string{ts, ts}, Result: "bool",
		ExprFn: func(a []string) string { return fn + "(" + a[0] + ")(" + a[1] + ")" }}
}

func Compare(ts, sfx string) *Call {
	fn := "deriveCompare" + sfx
	return &Call{Plugin: "compare", Fn: fn, PNames: []string{"a", "b"}, PTypes: []string{ts, ts}, Result: "int", ExprFn: call(fn)}
}

func CompareCurried(ts, sfx string) *Call {
	fn := "deriveCompareC" + sfx
	return &Call{Plugin: "compare", Fn: fn, PNames: []string{"a", "b"}, PTypes: []string{ts, ts}, Result: "int",
		ExprFn: func(a []string) string { return fn + "(" + a[0] + ")(" + a[1] + ")" }}
}

func Hash(ts, sfx string) *Call {
	fn := "deriveHash" + sfx
	return &Call{Plugin: "hash", Fn: fn, PNames: []string{"a"}, PTypes: []string{ts}, Result: "uint64", ExprFn: call(fn)}
}

func DeepCopy(ts, sfx string) *Call {
	fn := "deriveDeepCopy" + sfx
	return &Call{Plugin: "deepcopy", Fn: fn, PNames: []string{"dst", "src"}, PTypes: []string{ts, ts}, NoValue: true, ExprFn: call(fn)}
}

func Clone(ts, sfx string) *Call {
	fn := "deriveClone" + sfx
	return &Call{Plugin: "clone", Fn: fn, PNames: []string{"a"}, PTypes: []string{ts}, Result: ts, ExprFn: call(fn)}
}

func GoString(ts, sfx string) *Call {
	fn := "deriveGoString" + sfx
	return &Call{Plugin: "gostring", Fn: fn, PNames: []string{"a"}, PTypes: []string{ts}, Result: "string", ExprFn: call(fn)}
}

func Keys(mapTs, keyTs, sfx string) *Call {
	fn := "deriveKeys" + sfx
	return &Call{Plugin: "keys", Fn: fn, PNames: []string{"m"}, PTypes: []string{mapTs}, Result: "[]" + keyTs, ExprFn: call(fn)}
}

func Sort(elemTs, sfx string) *Call {
	fn := "deriveSort" + sfx
	return &Call{Plugin: "sort", Fn: fn, PNames: []string{"l"}, PTypes: []string{"[]" + elemTs}, Result: "[]" + elemTs, ExprFn: call(fn)}
}

func MinMaxList(which, elemTs, sfx string) *Call {
	fn := "derive" + which + "L" + sfx
	return &Call{Plugin: strings.ToLower(which), Fn: fn, PNames: []string{"l", "d"}, PTypes: []string{"[]" + elemTs, elemTs}, Result: elemTs, ExprFn: call(fn)}
}

// MinMaxListNil passes an untyped nil as the default (legal when the elements are pointers, slices or maps).
func MinMaxListNil(which, elemTs, sfx string) *Call {
	fn := "derive" + which + "L" + sfx
	return &Call{Plugin: strings.ToLower(which), Fn: fn, PNames: []string{"l"}, PTypes: []string{"[]" + elemTs}, Result: elemTs,
		ExprFn: func(a []string) string { return fn + "(" + a[0] + ", nil)" }}
}

// ContainsNil looks for an untyped nil.
func ContainsNil(elemTs, sfx string) *Call {
	fn := "deriveContains" + sfx
	return &Call{Plugin: "contains", Fn: fn, PNames: []string{"l"}, PTypes: []string{"[]" + elemTs}, Result: "bool",
		ExprFn: func(a []string) string { return fn + "(" + a[0] + ", nil)" }}
}

func MinMaxTwo(which, elemTs, sfx string) *Call {
	fn := "derive" + which + "T" + sfx
	return &Call{Plugin: strings.ToLower(which), Fn: fn, PNames: []string{"a", "b"}, PTypes: []string{elemTs, elemTs}, Result: elemTs, ExprFn: call(fn)}
}

func Contains(elemTs, sfx string) *Call {
	fn := "deriveContains" + sfx
	return &Call{Plugin: "contains", Fn: fn, PNames: []string{"l", "x"}, PTypes: []string{"[]" + elemTs, elemTs}, Result: "bool", ExprFn: call(fn)}
}

func Unique(elemTs, sfx string) *Call {
	fn := "deriveUnique" + sfx
	return &Call{Plugin: "unique", Fn: fn, PNames: []string{"l"}, PTypes: []string{"[]" + elemTs}, Result: "[]" + elemTs, ExprFn: call(fn)}
}

func Set(elemTs, sfx string) *Call {
	fn := "deriveSet" + sfx
	return &Call{Plugin: "set", Fn: fn, PNames: []string{"l"}, PTypes: []string{"[]" + elemTs}, Result: "map[" + elemTs + "]struct{}", ExprFn: call(fn)}
}

func UnionIntersectList(which, elemTs, sfx string) *Call {
	fn := "derive" + which + "L" + sfx
	return &Call{Plugin: strings.ToLower(which), Fn: fn, PNames: []string{"a", "b"}, PTypes: []string{"[]" + elemTs, "[]" + elemTs}, Result: "[]" + elemTs, ExprFn: call(fn)}
}

func UnionIntersectMap(which, elemTs, sfx string) *Call {
	fn := "derive" + which + "M" + sfx
	mt := "map[" + elemTs + "]struct{}"
	return &Call{Plugin: strings.ToLower(which), Fn: fn, PNames: []string{"a", "b"}, PTypes: []string{mt, mt}, Result: mt, ExprFn: call(fn)}
}

// PredList builds Filter / TakeWhile (list result) and All / Any (bool result).
func PredList(which, elemTs, sfx string) *Call {
	fn := "derive" + which + sfx
	res := "[]" + elemTs
	if which == "All" || which == "Any" {
		res = "bool"
	}
	return &Call{Plugin: strings.ToLower(which), Fn: fn, PNames: []string{"pred", "l"}, PTypes: []string{"func(" + elemTs + ") bool", "[]" + elemTs}, Result: res, ExprFn: call(fn)}
}

// Raw builds a call from explicit parts.
func Raw(plugin, fn string, pnames, ptypes []string, result string) *Call {
	return &Call{Plugin: plugin, Fn: fn, PNames: pnames, PTypes: ptypes, Result: result, ExprFn: call(fn), NoValue: result == ""}
}

// AllPrefixes lists the default prefixes of all plugins.
var AllPrefixes = []string{"deriveAll", "deriveAny", "deriveApply", "deriveClone", "deriveCompare", "deriveCompose", "deriveContains",
	"deriveCurry", "deriveDeepCopy", "deriveDo", "deriveDup", "deriveEqual", "deriveFilter", "deriveFlip", "deriveFmap", "deriveGoString",
	"deriveHash", "deriveIntersect", "deriveJoin", "deriveKeys", "deriveMax", "deriveMem", "deriveMin", "derivePipeline", "deriveSet",
	"deriveSort", "deriveTakeWhile", "deriveToError", "deriveTraverse", "deriveTuple", "deriveUncurry", "deriveUnion", "deriveUnique"}
