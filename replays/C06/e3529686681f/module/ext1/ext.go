package ext

type Num int64

type Key struct {
	K0 int32
	K1 complex128
}

type E0 struct {
	F0 *int32
	F1 [2]int
	F2 Key
}
