package p

import (
	ext "subj/ext1"
	other "subj/x/other"
)

var Anchor = 0

func GostringT0(a *K0) string {
	return deriveGoStringT0(a)
}

func GostringT1(a K1) string {
	return deriveGoStringT1(a)
}

func GostringT2(a S0) string {
	return deriveGoStringT2(a)
}

func GostringT3(a *S1) string {
	return deriveGoStringT3(a)
}

func GostringT4(a byte) string {
	return deriveGoStringT4(a)
}

func GostringT5(a ext.Key) string {
	return deriveGoStringT5(a)
}

func GostringT6(a map[complex128]N0) string {
	return deriveGoStringT6(a)
}

func GostringT7(a other.E1) string {
	return deriveGoStringT7(a)
}

func GostringT8(a N1) string {
	return deriveGoStringT8(a)
}

func GostringT9(a map[uint64]S0) string {
	return deriveGoStringT9(a)
}

func GostringT10(a map[[0]K1]complex128) string {
	return deriveGoStringT10(a)
}

func GostringT11(a uint16) string {
	return deriveGoStringT11(a)
}

func GostringT12(a map[other.Key]uint32) string {
	return deriveGoStringT12(a)
}

func GostringT13(a complex64) string {
	return deriveGoStringT13(a)
}
