package p

import (
	ext "subj/ext1"
)

type MyC complex128

type MyRune rune

type MyStr string

type MyU8 uint8

type N0 map[ext.Num]int8

type N1 [][]int16

type K0 struct {
	F0 MyU8
}

type K1 struct {
	F0 bool
	F1 MyRune
}

type S0 struct {
}

type S1 struct {
}
