package other

type Num int64

type Key struct {
	K0 bool
}

type E0 struct {
	F0 bool
}

type E1 struct {
	F0 float64
	F1 [1]string
	F2 []byte
}
