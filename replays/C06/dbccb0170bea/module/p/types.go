package p

import (
	other "subj/x/other"
)

type MyInt int

type MyF float64

type MyI64 int64

type N0 [1]uintptr

type N1 []int32

type K0 struct {
	F0 bool
	F1 uint8
}

type K1 struct {
	F0 K0
	F1 other.Key
	F2 bool
}

type KP0 struct {
	F0 uint8
	F1 *bool
}

type S0 struct {
	F0 N1
	F1 []byte
}

type S1 struct {
	F0 int16
	F1 map[int32][2]int32
	F2 []byte
	F3 bool
}
