package ext

type Num float64

type Key struct {
	K0 float32
}

type E0 struct {
}

type E1 struct {
}
