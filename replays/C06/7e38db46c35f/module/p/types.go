package p

import (
	ext "subj/ext1"
	other "subj/x/other"
)

type MyF32 float32

type MyInt int

type MyF float64

type MyI64 int64

type K0 struct {
	F0 ext.Key
	F1 uint16
	F2 MyInt
}

type K1 struct {
}

type S0 struct {
}

type S1 struct {
	*S0
	F1 int64
	F2 byte
}

type S2 struct {
	S0
	K1
	F2 [3]string
}

type S3 struct {
	F0 map[other.Num][3]*S0
	F1 map[ext.Num]S4
	F2 bool
}

type S4 struct {
}
