package p

import (
	ext "subj/ext1"
	other "subj/x/other"
)

var Anchor = 0

func GostringT0(a *K0) string {
	return deriveGoStringT0(a)
}

func GostringT1(a string) string {
	return deriveGoStringT1(a)
}

func GostringT2(a ext.Num) string {
	return deriveGoStringT2(a)
}

func GostringT3(a complex64) string {
	return deriveGoStringT3(a)
}

func GostringT4(a map[uint64]S0) string {
	return deriveGoStringT4(a)
}

func GostringT5(a S4) string {
	return deriveGoStringT5(a)
}

func GostringT6(a ext.E1) string {
	return deriveGoStringT6(a)
}

func GostringT7(a other.Key) string {
	return deriveGoStringT7(a)
}

func GostringT8(a S0) string {
	return deriveGoStringT8(a)
}

func GostringT9(a []byte) string {
	return deriveGoStringT9(a)
}

func GostringT10(a uint) string {
	return deriveGoStringT10(a)
}

func GostringT11(a K0) string {
	return deriveGoStringT11(a)
}

func GostringT12(a int8) string {
	return deriveGoStringT12(a)
}

func GostringT13(a other.E0) string {
	return deriveGoStringT13(a)
}
