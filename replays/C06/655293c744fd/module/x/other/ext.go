package other

import (
	ext "subj/ext1"
)

type Num uint8

type Key struct {
	K0 bool
}

type E0 struct {
	F0 int
	F1 int16
	F2 [2]*E0
}

type E1 struct {
	F0 ext.Num
	F1 []uintptr
	F2 E0
	F3 *ext.Key
}
