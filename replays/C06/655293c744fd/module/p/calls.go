package p

import (
	ext "subj/ext1"
	other "subj/x/other"
)

var Anchor = 0

func GostringT0(a KP0) string {
	return deriveGoStringT0(a)
}

func GostringT1(a map[other.Key]MyC) string {
	return deriveGoStringT1(a)
}

func GostringT2(a int) string {
	return deriveGoStringT2(a)
}

func GostringT3(a *S0) string {
	return deriveGoStringT3(a)
}

func GostringT4(a S1) string {
	return deriveGoStringT4(a)
}

func GostringT5(a N1) string {
	return deriveGoStringT5(a)
}

func GostringT6(a S3) string {
	return deriveGoStringT6(a)
}

func GostringT7(a []int) string {
	return deriveGoStringT7(a)
}

func GostringT8(a MyU8) string {
	return deriveGoStringT8(a)
}

func GostringT9(a []byte) string {
	return deriveGoStringT9(a)
}

func GostringT10(a ext.E0) string {
	return deriveGoStringT10(a)
}

func GostringT11(a N0) string {
	return deriveGoStringT11(a)
}

func GostringT12(a uint32) string {
	return deriveGoStringT12(a)
}

func GostringT13(a int16) string {
	return deriveGoStringT13(a)
}

func GostringT14(a map[KP0]int) string {
	return deriveGoStringT14(a)
}

func GostringT15(a map[KP0]string) string {
	return deriveGoStringT15(a)
}

func GostringT16(a map[K0]string) string {
	return deriveGoStringT16(a)
}

func GostringT17(a map[K0]*int) string {
	return deriveGoStringT17(a)
}

func GostringT18(a map[ext.Key]*int) string {
	return deriveGoStringT18(a)
}

func GostringT19(a map[ext.Key][]byte) string {
	return deriveGoStringT19(a)
}

func GostringT20(a map[[2]string][]byte) string {
	return deriveGoStringT20(a)
}

func GostringT21(a map[[2]string]S3) string {
	return deriveGoStringT21(a)
}

func GostringT22(a map[float64]S3) string {
	return deriveGoStringT22(a)
}

func GostringT23(a map[float64]int) string {
	return deriveGoStringT23(a)
}
