package p

import (
	other "subj/x/other"
)

type MyC complex128

type MyRune rune

type MyStr string

type MyU8 uint8

type N0 []int8

type N1 [][]int16

type N2 map[bool]bool

type K0 struct {
	F0 MyU8
}

type K1 struct {
	F0 bool
	F1 MyRune
}

type KP0 struct {
	F0 uint8
	F1 *int
}

type S0 struct {
	F0 [2]bool
	F1 int
	F2 []N0
	F3 other.E1
	*K1
	F5 *float32
}

type S1 struct {
	F0 map[[0]KP0]*S0
	F1 float32
	F2 N2
	F3 []byte
	F4 bool
	F5 map[MyU8]float64
}

type S2 struct {
	F0 [0]int32
}

type S3 struct {
	F0 int32
}
