package ext

type Num int64

type Key struct {
	K0 int
	K1 bool
	K2 int32
}

type E0 struct {
}
