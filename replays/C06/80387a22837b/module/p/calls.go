package p

import (
	ext "subj/ext1"
	other "subj/x/other"
)

var Anchor = 0

func GostringT0(a K0) string {
	return deriveGoStringT0(a)
}

func GostringT1(a K1) string {
	return deriveGoStringT1(a)
}

func GostringT2(a *S0) string {
	return deriveGoStringT2(a)
}

func GostringT3(a *S1) string {
	return deriveGoStringT3(a)
}

func GostringT4(a other.Key) string {
	return deriveGoStringT4(a)
}

func GostringT5(a ext.E0) string {
	return deriveGoStringT5(a)
}

func GostringT6(a [0]float32) string {
	return deriveGoStringT6(a)
}

func GostringT7(a []byte) string {
	return deriveGoStringT7(a)
}

func GostringT8(a *map[[0]int64]K1) string {
	return deriveGoStringT8(a)
}

func GostringT9(a other.E0) string {
	return deriveGoStringT9(a)
}

func GostringT10(a map[MyStr]string) string {
	return deriveGoStringT10(a)
}

func GostringT11(a byte) string {
	return deriveGoStringT11(a)
}

func GostringT12(a *map[int]int16) string {
	return deriveGoStringT12(a)
}

func GostringT13(a int) string {
	return deriveGoStringT13(a)
}
