package p

import (
	ext "subj/ext1"
	other "subj/x/other"
)

type MyStr string

type K0 struct {
}

type K1 struct {
}

type S0 struct {
	F0 *S0
	F1 *[]S1
	F2 MyStr
	F3 map[K0]S2
}

type S1 struct {
	F0 map[other.Num]S1
	F1 []S1
	F2 ext.E1
	F3 map[MyStr][0]string
	F4 ext.Num
	F5 float32
}

type S2 struct {
	F0 *S2
	F1 *map[MyStr]map[other.Num]S2
}
