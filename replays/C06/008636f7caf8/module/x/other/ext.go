package other

type Num int

type Key struct {
	K0 float64
}

type E0 struct {
	F0 *E0
	F1 uint8
	F2 map[Key]uint8
}
