package p

type MyStr string

type N0 [][]string

type N1 []uint8

type N2 map[float64]bool

type K0 struct {
}

type K1 struct {
}

type KP0 struct {
	F0 int
	F1 *float64
}

type S0 struct {
	F0 int64
}
