package p

import (
	ext "subj/ext1"
)

type MyInt int

type MyF float64

type MyI64 int64

type N0 map[int]int32

type N1 [1]uint32

type N2 map[MyI64]int64

type K0 struct {
}

type S0 struct {
	F0 bool
	F1 *S0
	F2 int
	F3 N1
	F4 map[[2]K0]int
}

type S1 struct {
	K0
}

type S2 struct {
	F0 *S2
	*S1
}

type S3 struct {
	F0 ext.Num
	S1
	F2 []MyI64
}

type S4 struct {
	F0 [3][3]uint
}
