package p

import (
	ext "subj/ext1"
)

var Anchor = 0

func GostringT0(a [2]ext.E0) string {
	return deriveGoStringT0(a)
}

func GostringT1(a *S0) string {
	return deriveGoStringT1(a)
}

func GostringT2(a *S1) string {
	return deriveGoStringT2(a)
}

func GostringT3(a *S2) string {
	return deriveGoStringT3(a)
}

func GostringT4(a *S3) string {
	return deriveGoStringT4(a)
}

func GostringT5(a map[[0]rune]*S3) string {
	return deriveGoStringT5(a)
}

func GostringT6(a MyI64) string {
	return deriveGoStringT6(a)
}

func GostringT7(a N1) string {
	return deriveGoStringT7(a)
}

func GostringT8(a int16) string {
	return deriveGoStringT8(a)
}

func GostringT9(a **ext.E0) string {
	return deriveGoStringT9(a)
}

func GostringT10(a int8) string {
	return deriveGoStringT10(a)
}

func GostringT11(a S0) string {
	return deriveGoStringT11(a)
}

func GostringT12(a []*float64) string {
	return deriveGoStringT12(a)
}

func GostringT13(a ext.E0) string {
	return deriveGoStringT13(a)
}
