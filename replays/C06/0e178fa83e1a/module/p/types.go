package p

type MyInt int

type N0 []bool

type K0 struct {
}

type KP0 struct {
	F0 string
	F1 *int
}

type S0 struct {
}
