package other

import (
	ext "subj/ext1"
)

type Num int64

type Key struct {
	K0 bool
	K1 Num
}

type E0 struct {
	F0 ext.Num
}
