package h

import (
	"fmt"
	"os"
	"path/filepath"
	"reflect"
	"strconv"
	"strings"
	"testing"

	"pgregory.net/rapid"

	"subj/vref"
)

type case06 struct {
	entry, typ, expr, want, snap string
}

// C06 stage 1: collect deriveGoString outputs for drawn values; stage 2 (a second program assembled
// from these strings) must compile and evaluate every expression to a structurally equal value.
func TestH(t *testing.T) {
	var cases []case06
	forEntries(t, []string{"gostring"}, func(rt *rapid.T, e *Entry) {
		g := vref.NewGen(rt)
		g.Finite = true
		v := g.Value(e.Type)
		rep.Eval()
		out, p := callFn(e.Funcs["gostring"], v)
		if p != "" {
			fail(rt, e, map[string]string{"check": "panic"}, "deriveGoString panicked on %s: %s", vref.Snapshot(v), p)
		}
		if hasContainer06(v) {
			rep.NT(e.TypeStr + "|" + vref.Key(v))
		}
		if len(rep.Samples) < 8 && rapid.IntRange(0, 25).Draw(rt, "sample") == 0 {
			rep.Sample(map[string]any{"type": e.TypeStr, "value": trunc(vref.Snapshot(v), 200), "gostring": trunc(out[0].String(), 300)})
		}
		cases = append(cases, case06{e.ID, e.TypeStr, out[0].String(), vref.Key(v), vref.Snapshot(v)})
	})
	dir := os.Getenv("VERIF_STAGE2_DIR")
	if dir == "" {
		return
	}
	os.MkdirAll(dir, 0o755)
	var sb strings.Builder
	sb.WriteString("package s2\n\nimport (\n\tp \"subj/p\"\n")
	for _, imp := range strings.Split(os.Getenv("VERIF_STAGE2_IMPORTS"), ",") {
		if imp != "" {
			sb.WriteString("\t\"" + imp + "\"\n")
		}
	}
	sb.WriteString(")\n\nvar _ = p.Anchor\n")
	for _, a := range strings.Split(os.Getenv("VERIF_STAGE2_ANCHORS"), ",") {
		if a != "" {
			sb.WriteString("var _ " + a + "\n")
		}
	}
	sb.WriteString("\ntype Case struct {\n\tIdx int\n\tEntry, Type, Want, Snap string\n\tFn func() any\n}\n\nvar Cases []Case\n\n")
	line := strings.Count(sb.String(), "\n") + 1
	var index strings.Builder // idx \t firstline \t lastline \t entry \t type
	for i, c := range cases {
		body := fmt.Sprintf("func v%d() any {\n\treturn %s\n}\n\nfunc init() {\n\tCases = append(Cases, Case{%d, %s, %s, %s, %s, v%d})\n}\n\n",
			i, strings.TrimRight(c.expr, "\n"), i, strconv.Quote(c.entry), strconv.Quote(c.typ), strconv.Quote(c.want), strconv.Quote(c.snap), i)
		n := strings.Count(body, "\n")
		fmt.Fprintf(&index, "%d\t%d\t%d\t%s\t%s\t%s\n", i, line, line+n-1, c.entry, c.typ, strconv.Quote(c.snap))
		line += n
		sb.WriteString(body)
	}
	os.WriteFile(filepath.Join(dir, "cases.go"), []byte(sb.String()), 0o644)
	os.WriteFile(filepath.Join(dir, "index.tsv"), []byte(index.String()), 0o644)
	_ = reflect.TypeOf
}

func hasContainer06(v reflect.Value) bool {
	switch v.Kind() {
	case reflect.Ptr, reflect.Slice, reflect.Map:
		return !v.IsNil()
	case reflect.String:
		return v.Len() > 0
	case reflect.Struct:
		for i := 0; i < v.NumField(); i++ {
			if hasContainer06(v.Field(i)) {
				return true
			}
		}
	case reflect.Array:
		for i := 0; i < v.Len(); i++ {
			if hasContainer06(v.Index(i)) {
				return true
			}
		}
	}
	return false
}
