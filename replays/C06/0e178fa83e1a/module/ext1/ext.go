package ext

type Num int

type Key struct {
	K0 Num
	K1 bool
}

type E0 struct {
}
