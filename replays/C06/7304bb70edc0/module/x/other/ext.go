package other

type Num int

type Key struct {
	K0 float64
}

type E0 struct {
	F0 bool
	F1 []byte
}
