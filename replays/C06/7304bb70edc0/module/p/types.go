package p

import (
	ext "subj/ext1"
	other "subj/x/other"
)

type MyInt int

type MyF float64

type MyI64 int64

type N0 []float32

type K0 struct {
}

type KP0 struct {
	F0 int
	F1 *string
}

type S0 struct {
	F0 map[ext.Num]S3
	F1 *byte
	F2 other.Num
	F3 KP0
	F4 K0
}

type S1 struct {
	F0 N0
}

type S2 struct {
	F0 **rune
	F1 *map[[2]ext.Num]N0
	F2 N0
	F3 bool
	S0
}

type S3 struct {
	F0 other.Num
}
