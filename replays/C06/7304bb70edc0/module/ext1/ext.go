package ext

type Num int

type Key struct {
	K0 int32
}

type E0 struct {
	F0 rune
	F1 *E0
}
