package other

type Num int64

type Key struct {
	K0 int8
}

type E0 struct {
	F0 Num
	F1 [2]map[complex128]Key
	F2 *E0
}

type E1 struct {
	F0 []E0
	F1 []E0
	F2 *E0
	F3 map[bool]int
}
