package ext

type Num int64

type Key struct {
	K0 int32
	K1 complex128
}

type E0 struct {
	F0 Key
	F1 *int32
	F2 [2]int
	F3 Key
}
