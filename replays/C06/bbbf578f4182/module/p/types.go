package p

import (
	other "subj/x/other"
)

type MyInt int

type K0 struct {
	F0 other.Num
	F1 uint8
	F2 rune
}

type S0 struct {
	F0 map[MyInt]string
	F1 [][]uint
}
