package p

import (
	other "subj/x/other"
)

var Anchor = 0

func GostringT0(a *K0) string {
	return deriveGoStringT0(a)
}

func GostringT1(a *S0) string {
	return deriveGoStringT1(a)
}

func GostringT2(a string) string {
	return deriveGoStringT2(a)
}

func GostringT3(a uint64) string {
	return deriveGoStringT3(a)
}

func GostringT4(a float32) string {
	return deriveGoStringT4(a)
}

func GostringT5(a bool) string {
	return deriveGoStringT5(a)
}

func GostringT6(a K0) string {
	return deriveGoStringT6(a)
}

func GostringT7(a map[uintptr]K0) string {
	return deriveGoStringT7(a)
}

func GostringT8(a other.Num) string {
	return deriveGoStringT8(a)
}

func GostringT9(a *int) string {
	return deriveGoStringT9(a)
}

func GostringT10(a map[bool]map[bool][2]complex128) string {
	return deriveGoStringT10(a)
}

func GostringT11(a other.E0) string {
	return deriveGoStringT11(a)
}

func GostringT12(a [1]K0) string {
	return deriveGoStringT12(a)
}

func GostringT13(a []byte) string {
	return deriveGoStringT13(a)
}
