package h

import (
	"reflect"

	p "subj/p"
	other "subj/x/other"
)

var _ = p.Anchor

var Registry = []Entry{
	{ID: "T0", Type: reflect.TypeOf((**p.K0)(nil)).Elem(), TypeStr: "*p.K0",
		Funcs: map[string]any{"gostring": p.GostringT0},
		Tags:  map[string]string{"f:ext": "1", "f:namedbasic": "1", "f:ptr": "1", "f:struct": "1"},
	},
	{ID: "T1", Type: reflect.TypeOf((**p.S0)(nil)).Elem(), TypeStr: "*p.S0",
		Funcs: map[string]any{"gostring": p.GostringT1},
		Tags:  map[string]string{"f:map": "1", "f:namedbasic": "1", "f:ptr": "1", "f:slice": "1", "f:string": "1", "f:struct": "1"},
	},
	{ID: "T2", Type: reflect.TypeOf((*string)(nil)).Elem(), TypeStr: "string",
		Funcs: map[string]any{"gostring": p.GostringT2},
		Tags:  map[string]string{"basic-ordered": "1", "comparable": "1", "f:string": "1"},
	},
	{ID: "T3", Type: reflect.TypeOf((*uint64)(nil)).Elem(), TypeStr: "uint64",
		Funcs: map[string]any{"gostring": p.GostringT3},
		Tags:  map[string]string{"basic-ordered": "1", "comparable": "1"},
	},
	{ID: "T4", Type: reflect.TypeOf((*float32)(nil)).Elem(), TypeStr: "float32",
		Funcs: map[string]any{"gostring": p.GostringT4},
		Tags:  map[string]string{"basic-ordered": "1", "comparable": "1", "f:float": "1"},
	},
	{ID: "T5", Type: reflect.TypeOf((*bool)(nil)).Elem(), TypeStr: "bool",
		Funcs: map[string]any{"gostring": p.GostringT5},
		Tags:  map[string]string{"comparable": "1"},
	},
	{ID: "T6", Type: reflect.TypeOf((*p.K0)(nil)).Elem(), TypeStr: "p.K0",
		Funcs: map[string]any{"gostring": p.GostringT6},
		Tags:  map[string]string{"comparable": "1", "f:ext": "1", "f:namedbasic": "1", "f:struct": "1"},
	},
	{ID: "T7", Type: reflect.TypeOf((*map[uintptr]p.K0)(nil)).Elem(), TypeStr: "map[uintptr]p.K0",
		Funcs: map[string]any{"gostring": p.GostringT7},
		Tags:  map[string]string{"f:ext": "1", "f:map": "1", "f:namedbasic": "1", "f:struct": "1"},
	},
	{ID: "T8", Type: reflect.TypeOf((*other.Num)(nil)).Elem(), TypeStr: "other.Num",
		Funcs: map[string]any{"gostring": p.GostringT8},
		Tags:  map[string]string{"comparable": "1", "f:ext": "1", "f:namedbasic": "1"},
	},
	{ID: "T9", Type: reflect.TypeOf((**int)(nil)).Elem(), TypeStr: "*int",
		Funcs: map[string]any{"gostring": p.GostringT9},
		Tags:  map[string]string{"f:ptr": "1"},
	},
	{ID: "T10", Type: reflect.TypeOf((*map[bool]map[bool][2]complex128)(nil)).Elem(), TypeStr: "map[bool]map[bool][2]complex128",
		Funcs: map[string]any{"gostring": p.GostringT10},
		Tags:  map[string]string{"f:array": "1", "f:complex": "1", "f:map": "1"},
	},
	{ID: "T11", Type: reflect.TypeOf((*other.E0)(nil)).Elem(), TypeStr: "other.E0",
		Funcs: map[string]any{"gostring": p.GostringT11},
		Tags:  map[string]string{"comparable": "1", "f:ext": "1", "f:struct": "1"},
	},
	{ID: "T12", Type: reflect.TypeOf((*[1]p.K0)(nil)).Elem(), TypeStr: "[1]p.K0",
		Funcs: map[string]any{"gostring": p.GostringT12},
		Tags:  map[string]string{"comparable": "1", "f:array": "1", "f:ext": "1", "f:namedbasic": "1", "f:struct": "1"},
	},
	{ID: "T13", Type: reflect.TypeOf((*[]byte)(nil)).Elem(), TypeStr: "[]byte",
		Funcs: map[string]any{"gostring": p.GostringT13},
		Tags:  map[string]string{"f:bytes": "1", "f:slice": "1"},
	},
}
