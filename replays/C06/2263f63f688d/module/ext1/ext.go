package ext

type Num int

type Key struct {
	K0 Num
}

type E0 struct {
	F0 *E0
	F1 [1]int64
}

type E1 struct {
}
