package other

import (
	ext "subj/ext1"
)

type Num int

type Key struct {
	K0 float64
}

type E0 struct {
	F0 int8
	F1 map[uintptr]int
	F2 ext.Num
}
