package p

import (
	ext "subj/ext1"
	other "subj/x/other"
)

type MyBool bool

type N0 [0]int

type N1 [][]bool

type N2 map[other.Num]int

type K0 struct {
}

type K1 struct {
}

type KP0 struct {
	F0 uint8
	F1 *string
}

type S0 struct {
	F0 N0
	*K0
	K1
	*KP0
	F4 *S0
	F5 rune
}

type S1 struct {
	S0
	F1 [3]*uint64
	F2 uint64
}

type S2 struct {
	F0 rune
	F1 map[other.Key]other.E0
}

type S3 struct {
	F0 ext.Key
}
