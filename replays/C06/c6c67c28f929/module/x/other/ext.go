package other

type Num float64

type Key struct {
	K0 int
	K1 uint64
}

type E0 struct {
	F0 *int64
	F1 []uint16
}

type E1 struct {
	F0 int8
}
