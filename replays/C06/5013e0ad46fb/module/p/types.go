package p

import (
	other "subj/x/other"
)

type MyBool bool

type K0 struct {
	F0 uint16
}

type K1 struct {
	F0 int
}

type KP0 struct {
	F0 uint8
	F1 *float64
}

type S0 struct {
	F0 int
}

type S1 struct {
	F0 other.Num
}
