package ext

type Num int64

type Key struct {
	K0 Num
	K1 Num
	K2 Num
}

type E0 struct {
	F0 bool
}

type E1 struct {
}
