package other

type Num int64

type Key struct {
	K0 Num
	K1 int32
	K2 int
}

type E0 struct {
}
