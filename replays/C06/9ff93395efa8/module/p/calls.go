package p

import (
	ext "subj/ext1"
)

var Anchor = 0

func GostringT0(a K0) string {
	return deriveGoStringT0(a)
}

func GostringT1(a *K1) string {
	return deriveGoStringT1(a)
}

func GostringT2(a *S0) string {
	return deriveGoStringT2(a)
}

func GostringT3(a []N2) string {
	return deriveGoStringT3(a)
}

func GostringT4(a S2) string {
	return deriveGoStringT4(a)
}

func GostringT5(a map[ext.Key]ext.Num) string {
	return deriveGoStringT5(a)
}

func GostringT6(a S4) string {
	return deriveGoStringT6(a)
}

func GostringT7(a map[complex128]S0) string {
	return deriveGoStringT7(a)
}

func GostringT8(a float32) string {
	return deriveGoStringT8(a)
}

func GostringT9(a S3) string {
	return deriveGoStringT9(a)
}

func GostringT10(a map[MyStr]N2) string {
	return deriveGoStringT10(a)
}

func GostringT11(a *map[ext.Num]uint32) string {
	return deriveGoStringT11(a)
}

func GostringT12(a int8) string {
	return deriveGoStringT12(a)
}

func GostringT13(a N2) string {
	return deriveGoStringT13(a)
}
