package p

import (
	ext "subj/ext1"
	other "subj/x/other"
)

type MyRune rune

type MyStr string

type N0 [][]string

type N1 []int32

type N2 map[int32]uint

type K0 struct {
	F0 string
	F1 MyRune
	F2 ext.Num
}

type K1 struct {
	F0 ext.Key
	F1 K0
	F2 K0
}

type S0 struct {
}

type S1 struct {
	F0 map[complex128]map[K1][]K0
	F1 complex64
}

type S2 struct {
	F0 map[complex128]map[MyRune]other.Key
	F1 uintptr
}

type S3 struct {
}

type S4 struct {
	F0 *float64
	K1
	*K0
	F3 other.Num
	F4 N2
	F5 uint16
}
