package h

import (
	"reflect"

	ext "subj/ext1"
	p "subj/p"
)

var _ = p.Anchor

var Registry = []Entry{
	{ID: "T0", Type: reflect.TypeOf((*p.K0)(nil)).Elem(), TypeStr: "p.K0",
		Funcs: map[string]any{"gostring": p.GostringT0},
		Tags:  map[string]string{"comparable": "1", "f:ext": "1", "f:namedbasic": "1", "f:string": "1", "f:struct": "1"},
	},
	{ID: "T1", Type: reflect.TypeOf((**p.K1)(nil)).Elem(), TypeStr: "*p.K1",
		Funcs: map[string]any{"gostring": p.GostringT1},
		Tags:  map[string]string{"f:ext": "1", "f:namedbasic": "1", "f:ptr": "1", "f:string": "1", "f:struct": "1"},
	},
	{ID: "T2", Type: reflect.TypeOf((**p.S0)(nil)).Elem(), TypeStr: "*p.S0",
		Funcs: map[string]any{"gostring": p.GostringT2},
		Tags:  map[string]string{"f:emptystruct": "1", "f:ptr": "1", "f:struct": "1"},
	},
	{ID: "T3", Type: reflect.TypeOf((*[]p.N2)(nil)).Elem(), TypeStr: "[]p.N2",
		Funcs: map[string]any{"gostring": p.GostringT3},
		Tags:  map[string]string{"f:map": "1", "f:namedcomposite": "1", "f:slice": "1"},
	},
	{ID: "T4", Type: reflect.TypeOf((*p.S2)(nil)).Elem(), TypeStr: "p.S2",
		Funcs: map[string]any{"gostring": p.GostringT4},
		Tags:  map[string]string{"f:complex": "1", "f:ext": "1", "f:map": "1", "f:namedbasic": "1", "f:struct": "1"},
	},
	{ID: "T5", Type: reflect.TypeOf((*map[ext.Key]ext.Num)(nil)).Elem(), TypeStr: "map[ext.Key]ext.Num",
		Funcs: map[string]any{"gostring": p.GostringT5},
		Tags:  map[string]string{"f:ext": "1", "f:map": "1", "f:namedbasic": "1", "f:string": "1", "f:struct": "1", "f:structkey": "1"},
	},
	{ID: "T6", Type: reflect.TypeOf((*p.S4)(nil)).Elem(), TypeStr: "p.S4",
		Funcs: map[string]any{"gostring": p.GostringT6},
		Tags:  map[string]string{"f:embedded": "1", "f:ext": "1", "f:float": "1", "f:map": "1", "f:namedbasic": "1", "f:namedcomposite": "1", "f:ptr": "1", "f:string": "1", "f:struct": "1"},
	},
	{ID: "T7", Type: reflect.TypeOf((*map[complex128]p.S0)(nil)).Elem(), TypeStr: "map[complex128]p.S0",
		Funcs: map[string]any{"gostring": p.GostringT7},
		Tags:  map[string]string{"f:complex": "1", "f:emptystruct": "1", "f:map": "1", "f:struct": "1"},
	},
	{ID: "T8", Type: reflect.TypeOf((*float32)(nil)).Elem(), TypeStr: "float32",
		Funcs: map[string]any{"gostring": p.GostringT8},
		Tags:  map[string]string{"basic-ordered": "1", "comparable": "1", "f:float": "1"},
	},
	{ID: "T9", Type: reflect.TypeOf((*p.S3)(nil)).Elem(), TypeStr: "p.S3",
		Funcs: map[string]any{"gostring": p.GostringT9},
		Tags:  map[string]string{"comparable": "1", "f:emptystruct": "1", "f:struct": "1"},
	},
	{ID: "T10", Type: reflect.TypeOf((*map[p.MyStr]p.N2)(nil)).Elem(), TypeStr: "map[p.MyStr]p.N2",
		Funcs: map[string]any{"gostring": p.GostringT10},
		Tags:  map[string]string{"f:map": "1", "f:namedbasic": "1", "f:namedcomposite": "1", "f:string": "1"},
	},
	{ID: "T11", Type: reflect.TypeOf((**map[ext.Num]uint32)(nil)).Elem(), TypeStr: "*map[ext.Num]uint32",
		Funcs: map[string]any{"gostring": p.GostringT11},
		Tags:  map[string]string{"f:ext": "1", "f:map": "1", "f:namedbasic": "1", "f:ptr": "1", "f:string": "1"},
	},
	{ID: "T12", Type: reflect.TypeOf((*int8)(nil)).Elem(), TypeStr: "int8",
		Funcs: map[string]any{"gostring": p.GostringT12},
		Tags:  map[string]string{"basic-ordered": "1", "comparable": "1"},
	},
	{ID: "T13", Type: reflect.TypeOf((*p.N2)(nil)).Elem(), TypeStr: "p.N2",
		Funcs: map[string]any{"gostring": p.GostringT13},
		Tags:  map[string]string{"f:map": "1", "f:namedcomposite": "1"},
	},
}
