package ext

type Num uint8

type Key struct {
	K0 rune
	K1 uintptr
	K2 bool
}

type E0 struct {
	F0 []map[Key]complex128
	F1 int
}
