package p

import (
	ext "subj/ext1"
	other "subj/x/other"
)

type MyStr string

type MyU8 uint8

type MyF32 float32

type N0 [2]int

type N1 *int32

type N2 map[int32]uint

type K0 struct {
	F0 ext.Key
	F1 ext.Num
}

type K1 struct {
	F0 K0
	F1 int
}

type KP0 struct {
	F0 uint8
	F1 *bool
}

type S0 struct {
}

type S1 struct {
	F0 map[complex128]map[K1]S1
	F1 other.Key
}

type S2 struct {
}

type S3 struct {
	F0 MyF32
	F1 map[int]uint32
}

type S4 struct {
	F0 ext.E0
}
