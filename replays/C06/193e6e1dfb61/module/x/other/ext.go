package other

import (
	ext "subj/ext1"
)

type Num float64

type Key struct {
	K0 int
	K1 uint64
}

type E0 struct {
	F0 *ext.Key
	F1 [][1]ext.E0
}

type E1 struct {
	F0 ext.Num
}
