package other

type Num string

type Key struct {
	K0 uint
}

type E0 struct {
	F0 bool
	F1 Num
	F2 Num
}

type E1 struct {
	F0 Num
	F1 map[int8]Num
	F2 map[int8]rune
	F3 Num
}
