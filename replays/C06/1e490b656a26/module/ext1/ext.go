package ext

type Num int

type Key struct {
	K0 complex128
}

type E0 struct {
	F0 int32
	F1 Num
	F2 uint8
	F3 map[bool]Key
}

type E1 struct {
	F0 map[Key][]E0
	F1 []Num
	F2 E0
}
