package p

import (
	ext "subj/ext1"
	other "subj/x/other"
)

type MyStr string

type MyU8 uint8

type MyF32 float32

type MyInt int

type K0 struct {
}

type K1 struct {
	F0 ext.Key
	F1 MyInt
}

type KP0 struct {
	F0 int
	F1 *int
}

type S0 struct {
	F0 map[int32]int
	F1 [2]bool
	F2 uint8
}

type S1 struct {
	F0 *ext.Num
	F1 other.E0
	F2 *S2
	F3 map[[2]MyU8]S1
}

type S2 struct {
	*K1
	F1 string
	F2 float64
}

type S3 struct {
	*K0
}
