package ext

type Num int

type Key struct {
	K0 bool
}

type E0 struct {
	F0 Num
}
