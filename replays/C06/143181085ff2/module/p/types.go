package p

type MyStr string

type MyU8 uint8

type MyF32 float32

type MyInt int

type K0 struct {
	F0 [2]int64
}

type K1 struct {
	F0 float64
	F1 int
	F2 [1]uint64
}

type KP0 struct {
	F0 int
	F1 *int
}

type S0 struct {
	F0 int32
	F1 int32
}
