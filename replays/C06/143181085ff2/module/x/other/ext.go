package other

type Num int

type Key struct {
	K0 float64
}

type E0 struct {
	F0 complex64
	F1 string
}
