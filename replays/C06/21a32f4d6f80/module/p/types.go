package p

import (
	ext "subj/ext1"
)

type MyF32 float32

type MyInt int

type MyF float64

type MyI64 int64

type K0 struct {
	F0 ext.Key
	F1 uint16
	F2 MyInt
}

type K1 struct {
}

type KP0 struct {
	F0 int
	F1 *string
}

type S0 struct {
}

type S1 struct {
	F0 [2]uint32
	F1 int16
	KP0
	K1
	F4 [3]string
	F5 map[[1]uintptr]map[ext.Num]S1
}

type S2 struct {
	F0 bool
	F1 ext.Num
	*K0
}

type S3 struct {
	F0 string
	F1 uint64
}
