package other

type Num int

type Key struct {
	K0 Num
	K1 rune
}

type E0 struct {
	F0 **E0
	F1 *[]byte
	F2 Num
}
