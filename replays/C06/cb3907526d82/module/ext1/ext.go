package ext

type Num uint8

type Key struct {
	K0 int32
	K1 int8
	K2 Num
}

type E0 struct {
	F0 []map[Key]complex128
	F1 int
}
