package p

import (
	ext "subj/ext1"
)

type MyF float64

type MyI64 int64

type MyU uint

type MyBool bool

type N0 []int64

type N1 map[uintptr]int8

type N2 [1]bool

type K0 struct {
}

type K1 struct {
}

type KP0 struct {
	F0 int
	F1 *string
}

type S0 struct {
	*K0
}

type S1 struct {
	F0 [][3]*S0
	F1 map[ext.Num]S0
	F2 bool
	*K1
	F4 int16
}

type S2 struct {
	F0 ext.Num
	S1
	*K0
	F3 [][]S2
}
