package other

import (
	ext "subj/ext1"
)

type Num int

type Key struct {
	K0 Num
	K1 rune
}

type E0 struct {
	F0 *ext.E0
	F1 ext.E1
	F2 [1]uint32
}
