package ext

type Num int64

type Key struct {
	K0 rune
}

type E0 struct {
	F0 int8
	F1 *int16
	F2 int64
	F3 int16
}

type E1 struct {
	F0 []byte
}
