package p

import (
	other "subj/x/other"
)

type MyInt int

type K0 struct {
	F0 other.Num
	F1 uint8
	F2 rune
}

type KP0 struct {
	F0 int
	F1 *float64
}

type S0 struct {
	F0 int
	F1 string
}

type S1 struct {
	F0 int
	F1 MyInt
	F2 *string
}

type S2 struct {
	F0 string
	KP0
}

type S3 struct {
	F0 string
	F1 complex128
	F2 *S0
}
