package ext

type Num uint8

type Key struct {
	K0 Num
}

type E0 struct {
	F0 int32
	F1 **uintptr
	F2 uint32
	F3 byte
}

type E1 struct {
}
