package p

import (
	ext "subj/ext1"
	other "subj/x/other"
)

type MyInt int

type N0 *bool

type K0 struct {
	F0 [0]other.Num
	F1 int64
	F2 MyInt
}

type KP0 struct {
	F0 string
	F1 *bool
}

type S0 struct {
	F0 *map[int]ext.E1
	F1 map[float32]S4
	F2 N0
}

type S1 struct {
	F0 map[int8][3]map[complex128]bool
	F1 map[other.Key]S0
	F2 N0
	F3 uintptr
}

type S2 struct {
	F0 KP0
}

type S3 struct {
	*S1
	F1 map[other.Key]S3
	F2 *uint64
	F3 N0
}

type S4 struct {
}
