package other

type Num float64

type Key struct {
	K0 int64
}

type E0 struct {
	F0 *E0
}

type E1 struct {
	F0 int
	F1 bool
	F2 [0][]byte
	F3 []byte
}
