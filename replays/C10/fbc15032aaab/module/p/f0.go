package p

// f0 calls deriveEqual.
func f0(x, y *A) bool {
	// leading comment 0
	return deriveEqual(deriveCloneInner0(x), y) // end 0
}

// f1 calls deriveEqualA.
func f1(x, y *A) bool {
	// leading comment 1
	return deriveEqualA(deriveCloneInner1(x), y) // end 1
}

