package p

// f0 calls deriveEqual.
func f0(x, y *A) bool {
	// leading comment 0
	return deriveEqual(deriveCloneInner0(x), y) // end 0
}

// f1 calls deriveEqual.
func f1(x, y *A) bool {
	// leading comment 1
	return deriveEqual(deriveCloneInner1(x), y) // end 1
}

// f2 calls deriveEqualB.
func f2(x, y *A) bool {
	// leading comment 2
	return deriveEqualB(deriveCloneInner2(x), y) // end 2
}

// f3 calls deriveEqual.
func f3(x, y *A) bool {
	// leading comment 3
	return deriveEqual(deriveCloneInner3(x), y) // end 3
}

// f4 calls deriveEqual.
func f4(x, y *A) bool {
	// leading comment 4
	return deriveEqual(deriveCloneInner4(x), y) // end 4
}

// f5 calls deriveEqual.
func f5(x, y *A) bool {
	// leading comment 5
	return deriveEqual(deriveCloneInner5(x), y) // end 5
}
