package p

// f0 calls deriveEqualA.
func f0(x, y *A) bool {
	// leading comment 0
	return deriveEqualA(x, y) // end 0
}

// f1 calls deriveEqualA.
func f1(x, y *B) bool {
	// leading comment 1
	return deriveEqualA(x, y) // end 1
}

