package p

// f0 calls deriveEqual.
func f0(x, y *A) bool {
	// leading comment 0
	return deriveEqual(deriveCloneInner0(x), y) // end 0
}

// f1 calls deriveEqual.
func f1(x, y *A) bool {
	// leading comment 1
	return deriveEqual(deriveCloneInner1(x), y) // end 1
}

// f2 calls deriveEqualA.
func f2(x, y *A) bool {
	// leading comment 2
	return deriveEqualA(deriveCloneInner2(x), y) // end 2
}
