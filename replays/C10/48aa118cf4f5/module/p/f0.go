package p

// f0 calls deriveEqual.
func f0(x, y *A) bool {
	// leading comment 0
	return deriveEqual(deriveCloneInner0(x), y) // end 0
}

// f1 calls deriveEqual.
func f1(x, y *A) bool {
	// leading comment 1
	return deriveEqual(deriveCloneInner1(x), y) // end 1
}

// f2 calls deriveEqual.
func f2(x, y *A) bool {
	// leading comment 2
	return deriveEqual(deriveCloneInner2(x), y) // end 2
}

// f3 calls deriveEqualA.
func f3(x, y *A) bool {
	// leading comment 3
	return deriveEqualA(deriveCloneInner3(x), y) // end 3
}

