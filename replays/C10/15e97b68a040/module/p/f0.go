package p

// f0 calls deriveEqual.
func f0(x, y *A) bool {
	// leading comment 0
	return deriveEqual(x, y) // end 0
}

// f1 calls deriveEqual.
func f1(x, y *B) bool {
	// leading comment 1
	return deriveEqual(x, y) // end 1
}

