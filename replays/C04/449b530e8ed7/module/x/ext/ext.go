package ext

type Num string

type Key struct {
	k0 uint
}

type E0 struct {
	f0 int32
}

type E1 struct {
	F0 []byte
	F1 *E0
}
