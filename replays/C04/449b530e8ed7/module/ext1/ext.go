package ext

type Num string

type Key struct {
	k0 int8
	k1 Num
}

type E0 struct {
}
