package p

import (
	ext "subj/ext1"
	ext2 "subj/x/ext"
)

var Anchor = 0

func HashT0(a []N0) uint64 {
	return deriveHashT0(a)
}

func EqualT0(a []N0, b []N0) bool {
	return deriveEqualT0(a, b)
}

func HashT1(a MyI64) uint64 {
	return deriveHashT1(a)
}

func EqualT1(a MyI64, b MyI64) bool {
	return deriveEqualT1(a, b)
}

func HashT2(a complex64) uint64 {
	return deriveHashT2(a)
}

func EqualT2(a complex64, b complex64) bool {
	return deriveEqualT2(a, b)
}

func HashT3(a []S0) uint64 {
	return deriveHashT3(a)
}

func EqualT3(a []S0, b []S0) bool {
	return deriveEqualT3(a, b)
}

func HashT4(a *uint) uint64 {
	return deriveHashT4(a)
}

func EqualT4(a *uint, b *uint) bool {
	return deriveEqualT4(a, b)
}

func HashT5(a ext.Num) uint64 {
	return deriveHashT5(a)
}

func EqualT5(a ext.Num, b ext.Num) bool {
	return deriveEqualT5(a, b)
}

func HashT6(a map[int32]ext.E0) uint64 {
	return deriveHashT6(a)
}

func EqualT6(a map[int32]ext.E0, b map[int32]ext.E0) bool {
	return deriveEqualT6(a, b)
}

func HashT7(a bool) uint64 {
	return deriveHashT7(a)
}

func EqualT7(a bool, b bool) bool {
	return deriveEqualT7(a, b)
}

func HashT8(a *ext2.Key) uint64 {
	return deriveHashT8(a)
}

func EqualT8(a *ext2.Key, b *ext2.Key) bool {
	return deriveEqualT8(a, b)
}

func HashT9(a map[MyBool][]N0) uint64 {
	return deriveHashT9(a)
}

func EqualT9(a map[MyBool][]N0, b map[MyBool][]N0) bool {
	return deriveEqualT9(a, b)
}

func HashT10(a int) uint64 {
	return deriveHashT10(a)
}

func EqualT10(a int, b int) bool {
	return deriveEqualT10(a, b)
}

func HashT11(a float64) uint64 {
	return deriveHashT11(a)
}

func EqualT11(a float64, b float64) bool {
	return deriveEqualT11(a, b)
}

func HashT12(a ext2.Key) uint64 {
	return deriveHashT12(a)
}

func EqualT12(a ext2.Key, b ext2.Key) bool {
	return deriveEqualT12(a, b)
}

func HashT13(a map[ext.Key]int) uint64 {
	return deriveHashT13(a)
}

func EqualT13(a map[ext.Key]int, b map[ext.Key]int) bool {
	return deriveEqualT13(a, b)
}
