package p

import (
	ext "subj/ext1"
)

type MyI64 int64

type MyU uint

type MyBool bool

type N0 *ext.Num

type K0 struct {
	F0 int
}

type S0 struct {
	F0 K0
	F1 N0
}
