package h

import (
	"reflect"

	ext "subj/ext1"
	p "subj/p"
	other "subj/x/other"
)

var _ = p.Anchor

var Registry = []Entry{
	{ID: "T0", Type: reflect.TypeOf((*string)(nil)).Elem(), TypeStr: "string",
		Funcs: map[string]any{"equal": p.EqualT0, "hash": p.HashT0},
		Tags:  map[string]string{"basic-ordered": "1", "comparable": "1", "enumerated": "1", "f:string": "1"},
	},
	{ID: "T1", Type: reflect.TypeOf((*float64)(nil)).Elem(), TypeStr: "float64",
		Funcs: map[string]any{"equal": p.EqualT1, "hash": p.HashT1},
		Tags:  map[string]string{"basic-ordered": "1", "comparable": "1", "enumerated": "1", "f:float": "1"},
	},
	{ID: "T2", Type: reflect.TypeOf((*bool)(nil)).Elem(), TypeStr: "bool",
		Funcs: map[string]any{"equal": p.EqualT2, "hash": p.HashT2},
		Tags:  map[string]string{"comparable": "1", "enumerated": "1"},
	},
	{ID: "T3", Type: reflect.TypeOf((*byte)(nil)).Elem(), TypeStr: "byte",
		Funcs: map[string]any{"equal": p.EqualT3, "hash": p.HashT3},
		Tags:  map[string]string{"basic-ordered": "1", "comparable": "1", "enumerated": "1"},
	},
	{ID: "T4", Type: reflect.TypeOf((*p.MyInt)(nil)).Elem(), TypeStr: "p.MyInt",
		Funcs: map[string]any{"equal": p.EqualT4, "hash": p.HashT4},
		Tags:  map[string]string{"comparable": "1", "enumerated": "1", "f:namedbasic": "1"},
	},
	{ID: "T5", Type: reflect.TypeOf((*p.S0)(nil)).Elem(), TypeStr: "p.S0",
		Funcs: map[string]any{"equal": p.EqualT5, "hash": p.HashT5},
		Tags:  map[string]string{"enumerated": "1", "f:bytes": "1", "f:ptr": "1", "f:slice": "1", "f:string": "1", "f:struct": "1"},
	},
	{ID: "T6", Type: reflect.TypeOf((*ext.E0)(nil)).Elem(), TypeStr: "ext.E0",
		Funcs: map[string]any{"equal": p.EqualT6, "hash": p.HashT6},
		Tags:  map[string]string{"enumerated": "1", "f:ext": "1", "f:ext-private": "1", "f:float": "1", "f:ptr": "1", "f:slice": "1", "f:string": "1", "f:struct": "1"},
	},
	{ID: "T7", Type: reflect.TypeOf((*p.R)(nil)).Elem(), TypeStr: "p.R",
		Funcs: map[string]any{"equal": p.EqualT7, "hash": p.HashT7},
		Tags:  map[string]string{"enumerated": "1", "f:map": "1", "f:ptr": "1", "f:recursive": "1", "f:slice": "1", "f:string": "1", "f:struct": "1"},
	},
	{ID: "T8", Type: reflect.TypeOf((*other.O0)(nil)).Elem(), TypeStr: "other.O0",
		Funcs: map[string]any{"equal": p.EqualT8, "hash": p.HashT8},
		Tags:  map[string]string{"enumerated": "1", "f:ext": "1", "f:namedbasic": "1", "f:slice": "1", "f:string": "1", "f:struct": "1"},
	},
	{ID: "T9", Type: reflect.TypeOf((**int)(nil)).Elem(), TypeStr: "*int",
		Funcs: map[string]any{"equal": p.EqualT9, "hash": p.HashT9},
		Tags:  map[string]string{"enumerated": "1", "f:ptr": "1"},
	},
	{ID: "T10", Type: reflect.TypeOf((*[]int)(nil)).Elem(), TypeStr: "[]int",
		Funcs: map[string]any{"equal": p.EqualT10, "hash": p.HashT10},
		Tags:  map[string]string{"enumerated": "1", "f:slice": "1"},
	},
	{ID: "T11", Type: reflect.TypeOf((*[2]int)(nil)).Elem(), TypeStr: "[2]int",
		Funcs: map[string]any{"equal": p.EqualT11, "hash": p.HashT11},
		Tags:  map[string]string{"comparable": "1", "enumerated": "1", "f:array": "1"},
	},
	{ID: "T12", Type: reflect.TypeOf((*map[string]int)(nil)).Elem(), TypeStr: "map[string]int",
		Funcs: map[string]any{"equal": p.EqualT12, "hash": p.HashT12},
		Tags:  map[string]string{"enumerated": "1", "f:map": "1", "f:string": "1"},
	},
	{ID: "T13", Type: reflect.TypeOf((*map[p.K0]int)(nil)).Elem(), TypeStr: "map[p.K0]int",
		Funcs: map[string]any{"equal": p.EqualT13, "hash": p.HashT13},
		Tags:  map[string]string{"enumerated": "1", "f:map": "1", "f:string": "1", "f:struct": "1", "f:structkey": "1"},
	},
}
