package p

var Anchor = 0

func HashT0(a []map[K0][2]string) uint64 {
	return deriveHashT0(a)
}

func EqualT0(a []map[K0][2]string, b []map[K0][2]string) bool {
	return deriveEqualT0(a, b)
}

func HashT1(a [2]map[K0][2]string) uint64 {
	return deriveHashT1(a)
}

func EqualT1(a [2]map[K0][2]string, b [2]map[K0][2]string) bool {
	return deriveEqualT1(a, b)
}

func HashT2(a map[string]map[K0][2]string) uint64 {
	return deriveHashT2(a)
}

func EqualT2(a map[string]map[K0][2]string, b map[string]map[K0][2]string) bool {
	return deriveEqualT2(a, b)
}

func HashT3(a map[K0]map[K0][2]string) uint64 {
	return deriveHashT3(a)
}

func EqualT3(a map[K0]map[K0][2]string, b map[K0]map[K0][2]string) bool {
	return deriveEqualT3(a, b)
}

func HashT4(a **map[string]string) uint64 {
	return deriveHashT4(a)
}

func EqualT4(a **map[string]string, b **map[string]string) bool {
	return deriveEqualT4(a, b)
}

func HashT5(a []*map[string]string) uint64 {
	return deriveHashT5(a)
}

func EqualT5(a []*map[string]string, b []*map[string]string) bool {
	return deriveEqualT5(a, b)
}

func HashT6(a [2]*map[string]string) uint64 {
	return deriveHashT6(a)
}

func EqualT6(a [2]*map[string]string, b [2]*map[string]string) bool {
	return deriveEqualT6(a, b)
}

func HashT7(a map[string]*map[string]string) uint64 {
	return deriveHashT7(a)
}

func EqualT7(a map[string]*map[string]string, b map[string]*map[string]string) bool {
	return deriveEqualT7(a, b)
}

func HashT8(a map[K0]*map[string]string) uint64 {
	return deriveHashT8(a)
}

func EqualT8(a map[K0]*map[string]string, b map[K0]*map[string]string) bool {
	return deriveEqualT8(a, b)
}

func HashT9(a *[]map[string]string) uint64 {
	return deriveHashT9(a)
}

func EqualT9(a *[]map[string]string, b *[]map[string]string) bool {
	return deriveEqualT9(a, b)
}

func HashT10(a [][]map[string]string) uint64 {
	return deriveHashT10(a)
}

func EqualT10(a [][]map[string]string, b [][]map[string]string) bool {
	return deriveEqualT10(a, b)
}

func HashT11(a [2][]map[string]string) uint64 {
	return deriveHashT11(a)
}

func EqualT11(a [2][]map[string]string, b [2][]map[string]string) bool {
	return deriveEqualT11(a, b)
}

func HashT12(a map[string][]map[string]string) uint64 {
	return deriveHashT12(a)
}

func EqualT12(a map[string][]map[string]string, b map[string][]map[string]string) bool {
	return deriveEqualT12(a, b)
}

func HashT13(a map[K0][]map[string]string) uint64 {
	return deriveHashT13(a)
}

func EqualT13(a map[K0][]map[string]string, b map[K0][]map[string]string) bool {
	return deriveEqualT13(a, b)
}
