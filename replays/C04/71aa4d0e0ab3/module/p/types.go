package p

import (
	ext "subj/ext1"
	other "subj/x/other"
)

type MyRune rune

type MyStr string

type N0 map[int8]MyStr

type N1 map[string]MyRune

type K0 struct {
}

type S0 struct {
	*K0
	f1 float64
	F2 bool
	F3 *S0
	F4 []other.Key
}

type S1 struct {
	F0 bool
	F1 map[bool]map[K0]MyStr
	f2 N0
	F3 map[[1]int64]ext.E1
	F4 *[]S0
	F5 []ext.Num
}
