package p

import (
	ext "subj/ext1"
	other "subj/x/other"
)

var Anchor = 0

func HashT0(a K0) uint64 {
	return deriveHashT0(a)
}

func EqualT0(a K0, b K0) bool {
	return deriveEqualT0(a, b)
}

func HashT1(a S0) uint64 {
	return deriveHashT1(a)
}

func EqualT1(a S0, b S0) bool {
	return deriveEqualT1(a, b)
}

func HashT2(a uint64) uint64 {
	return deriveHashT2(a)
}

func EqualT2(a uint64, b uint64) bool {
	return deriveEqualT2(a, b)
}

func HashT3(a ext.Num) uint64 {
	return deriveHashT3(a)
}

func EqualT3(a ext.Num, b ext.Num) bool {
	return deriveEqualT3(a, b)
}

func HashT4(a *[1]map[int32]K0) uint64 {
	return deriveHashT4(a)
}

func EqualT4(a *[1]map[int32]K0, b *[1]map[int32]K0) bool {
	return deriveEqualT4(a, b)
}

func HashT5(a *S0) uint64 {
	return deriveHashT5(a)
}

func EqualT5(a *S0, b *S0) bool {
	return deriveEqualT5(a, b)
}

func HashT6(a map[uint64]bool) uint64 {
	return deriveHashT6(a)
}

func EqualT6(a map[uint64]bool, b map[uint64]bool) bool {
	return deriveEqualT6(a, b)
}

func HashT7(a int8) uint64 {
	return deriveHashT7(a)
}

func EqualT7(a int8, b int8) bool {
	return deriveEqualT7(a, b)
}

func HashT8(a S1) uint64 {
	return deriveHashT8(a)
}

func EqualT8(a S1, b S1) bool {
	return deriveEqualT8(a, b)
}

func HashT9(a MyRune) uint64 {
	return deriveHashT9(a)
}

func EqualT9(a MyRune, b MyRune) bool {
	return deriveEqualT9(a, b)
}

func HashT10(a uint32) uint64 {
	return deriveHashT10(a)
}

func EqualT10(a uint32, b uint32) bool {
	return deriveEqualT10(a, b)
}

func HashT11(a N0) uint64 {
	return deriveHashT11(a)
}

func EqualT11(a N0, b N0) bool {
	return deriveEqualT11(a, b)
}

func HashT12(a other.Num) uint64 {
	return deriveHashT12(a)
}

func EqualT12(a other.Num, b other.Num) bool {
	return deriveEqualT12(a, b)
}

func HashT13(a ext.E1) uint64 {
	return deriveHashT13(a)
}

func EqualT13(a ext.E1, b ext.E1) bool {
	return deriveEqualT13(a, b)
}
