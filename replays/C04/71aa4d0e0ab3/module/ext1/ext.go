package ext

type Num string

type Key struct {
	k0 Num
	k1 uint
}

type E0 struct {
	F0 float32
	f1 int
}

type E1 struct {
}
