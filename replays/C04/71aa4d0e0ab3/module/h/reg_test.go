package h

import (
	"reflect"

	ext "subj/ext1"
	p "subj/p"
	other "subj/x/other"
)

var _ = p.Anchor

var Registry = []Entry{
	{ID: "T0", Type: reflect.TypeOf((*p.K0)(nil)).Elem(), TypeStr: "p.K0",
		Funcs: map[string]any{"equal": p.EqualT0, "hash": p.HashT0},
		Tags:  map[string]string{"comparable": "1", "f:emptystruct": "1", "f:struct": "1"},
	},
	{ID: "T1", Type: reflect.TypeOf((*p.S0)(nil)).Elem(), TypeStr: "p.S0",
		Funcs: map[string]any{"equal": p.EqualT1, "hash": p.HashT1},
		Tags:  map[string]string{"f:embedded": "1", "f:emptystruct": "1", "f:ext": "1", "f:ext-private": "1", "f:float": "1", "f:namedbasic": "1", "f:ptr": "1", "f:recursive": "1", "f:slice": "1", "f:struct": "1"},
	},
	{ID: "T2", Type: reflect.TypeOf((*uint64)(nil)).Elem(), TypeStr: "uint64",
		Funcs: map[string]any{"equal": p.EqualT2, "hash": p.HashT2},
		Tags:  map[string]string{"basic-ordered": "1", "comparable": "1"},
	},
	{ID: "T3", Type: reflect.TypeOf((*ext.Num)(nil)).Elem(), TypeStr: "ext.Num",
		Funcs: map[string]any{"equal": p.EqualT3, "hash": p.HashT3},
		Tags:  map[string]string{"comparable": "1", "f:ext": "1", "f:namedbasic": "1", "f:string": "1"},
	},
	{ID: "T4", Type: reflect.TypeOf((**[1]map[int32]p.K0)(nil)).Elem(), TypeStr: "*[1]map[int32]p.K0",
		Funcs: map[string]any{"equal": p.EqualT4, "hash": p.HashT4},
		Tags:  map[string]string{"f:array": "1", "f:emptystruct": "1", "f:map": "1", "f:ptr": "1", "f:struct": "1"},
	},
	{ID: "T5", Type: reflect.TypeOf((**p.S0)(nil)).Elem(), TypeStr: "*p.S0",
		Funcs: map[string]any{"equal": p.EqualT5, "hash": p.HashT5},
		Tags:  map[string]string{"f:embedded": "1", "f:emptystruct": "1", "f:ext": "1", "f:ext-private": "1", "f:float": "1", "f:namedbasic": "1", "f:ptr": "1", "f:recursive": "1", "f:slice": "1", "f:struct": "1"},
	},
	{ID: "T6", Type: reflect.TypeOf((*map[uint64]bool)(nil)).Elem(), TypeStr: "map[uint64]bool",
		Funcs: map[string]any{"equal": p.EqualT6, "hash": p.HashT6},
		Tags:  map[string]string{"f:map": "1"},
	},
	{ID: "T7", Type: reflect.TypeOf((*int8)(nil)).Elem(), TypeStr: "int8",
		Funcs: map[string]any{"equal": p.EqualT7, "hash": p.HashT7},
		Tags:  map[string]string{"basic-ordered": "1", "comparable": "1"},
	},
	{ID: "T8", Type: reflect.TypeOf((*p.S1)(nil)).Elem(), TypeStr: "p.S1",
		Funcs: map[string]any{"equal": p.EqualT8, "hash": p.HashT8},
		Tags:  map[string]string{"f:array": "1", "f:arraykey": "1", "f:embedded": "1", "f:emptystruct": "1", "f:ext": "1", "f:ext-private": "1", "f:float": "1", "f:map": "1", "f:namedbasic": "1", "f:namedcomposite": "1", "f:ptr": "1", "f:recursive": "1", "f:slice": "1", "f:string": "1", "f:struct": "1", "f:structkey": "1"},
	},
	{ID: "T9", Type: reflect.TypeOf((*p.MyRune)(nil)).Elem(), TypeStr: "p.MyRune",
		Funcs: map[string]any{"equal": p.EqualT9, "hash": p.HashT9},
		Tags:  map[string]string{"comparable": "1", "f:namedbasic": "1"},
	},
	{ID: "T10", Type: reflect.TypeOf((*uint32)(nil)).Elem(), TypeStr: "uint32",
		Funcs: map[string]any{"equal": p.EqualT10, "hash": p.HashT10},
		Tags:  map[string]string{"basic-ordered": "1", "comparable": "1"},
	},
	{ID: "T11", Type: reflect.TypeOf((*p.N0)(nil)).Elem(), TypeStr: "p.N0",
		Funcs: map[string]any{"equal": p.EqualT11, "hash": p.HashT11},
		Tags:  map[string]string{"f:map": "1", "f:namedbasic": "1", "f:namedcomposite": "1", "f:string": "1"},
	},
	{ID: "T12", Type: reflect.TypeOf((*other.Num)(nil)).Elem(), TypeStr: "other.Num",
		Funcs: map[string]any{"equal": p.EqualT12, "hash": p.HashT12},
		Tags:  map[string]string{"comparable": "1", "f:ext": "1", "f:namedbasic": "1"},
	},
	{ID: "T13", Type: reflect.TypeOf((*ext.E1)(nil)).Elem(), TypeStr: "ext.E1",
		Funcs: map[string]any{"equal": p.EqualT13, "hash": p.HashT13},
		Tags:  map[string]string{"comparable": "1", "f:emptystruct": "1", "f:ext": "1", "f:struct": "1"},
	},
}
