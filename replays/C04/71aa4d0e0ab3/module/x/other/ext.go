package other

type Num int64

type Key struct {
	k0 uint16
	k1 Num
}

type E0 struct {
}
