package p

import (
	ext "subj/ext1"
	ext2 "subj/x/ext"
)

type MyInt int

type MyF float64

type MyI64 int64

type N0 map[uint64]uintptr

type N1 map[uint]uint64

type K0 struct {
	f0 float64
	F1 rune
	F2 int
}

type S0 struct {
	F0 int8
	f1 ext2.Num
	F2 K0
	F3 N1
	F4 ext.E0
	F5 [3]int16
}

type S1 struct {
}

type S2 struct {
	f0 N0
	F1 []S2
	F2 float32
	*K0
}

type S3 struct {
	F0 complex128
	F1 N0
	f2 S2
	F3 uint64
	f4 *ext.Key
}

type S4 struct {
	F0 int
	*S0
	F2 map[K0]uint64
	F3 map[ext2.Num]int16
	F4 complex64
	S3
}
