package ext

type Num int

type Key struct {
	k0 int
	k1 float64
}

type E0 struct {
	F0 float32
	f1 []int
	f2 int8
	f3 *rune
}
