package ext

type Num int

type Key struct {
	K0 int8
	K1 int32
	k2 int
}

type E0 struct {
}
