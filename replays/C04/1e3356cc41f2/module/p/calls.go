package p

var Anchor = 0

func HashT0(a *int) uint64 {
	return deriveHashT0(a)
}

func EqualT0(a *int, b *int) bool {
	return deriveEqualT0(a, b)
}

func HashT1(a []int) uint64 {
	return deriveHashT1(a)
}

func EqualT1(a []int, b []int) bool {
	return deriveEqualT1(a, b)
}

func HashT2(a [2]int) uint64 {
	return deriveHashT2(a)
}

func EqualT2(a [2]int, b [2]int) bool {
	return deriveEqualT2(a, b)
}

func HashT3(a map[string]int) uint64 {
	return deriveHashT3(a)
}

func EqualT3(a map[string]int, b map[string]int) bool {
	return deriveEqualT3(a, b)
}

func HashT4(a map[K0]int) uint64 {
	return deriveHashT4(a)
}

func EqualT4(a map[K0]int, b map[K0]int) bool {
	return deriveEqualT4(a, b)
}

func HashT5(a *string) uint64 {
	return deriveHashT5(a)
}

func EqualT5(a *string, b *string) bool {
	return deriveEqualT5(a, b)
}

func HashT6(a []string) uint64 {
	return deriveHashT6(a)
}

func EqualT6(a []string, b []string) bool {
	return deriveEqualT6(a, b)
}

func HashT7(a [2]string) uint64 {
	return deriveHashT7(a)
}

func EqualT7(a [2]string, b [2]string) bool {
	return deriveEqualT7(a, b)
}

func HashT8(a map[string]string) uint64 {
	return deriveHashT8(a)
}

func EqualT8(a map[string]string, b map[string]string) bool {
	return deriveEqualT8(a, b)
}

func HashT9(a map[K0]string) uint64 {
	return deriveHashT9(a)
}

func EqualT9(a map[K0]string, b map[K0]string) bool {
	return deriveEqualT9(a, b)
}

func HashT10(a *float64) uint64 {
	return deriveHashT10(a)
}

func EqualT10(a *float64, b *float64) bool {
	return deriveEqualT10(a, b)
}

func HashT11(a []float64) uint64 {
	return deriveHashT11(a)
}

func EqualT11(a []float64, b []float64) bool {
	return deriveEqualT11(a, b)
}

func HashT12(a [2]float64) uint64 {
	return deriveHashT12(a)
}

func EqualT12(a [2]float64, b [2]float64) bool {
	return deriveEqualT12(a, b)
}

func HashT13(a map[string]float64) uint64 {
	return deriveHashT13(a)
}

func EqualT13(a map[string]float64, b map[string]float64) bool {
	return deriveEqualT13(a, b)
}
