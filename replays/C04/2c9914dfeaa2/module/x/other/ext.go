package other

type Num int

type Key struct {
	k0 uint8
	k1 uint8
}

type E0 struct {
}
