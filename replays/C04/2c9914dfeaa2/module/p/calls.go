package p

import (
	ext "subj/ext1"
	other "subj/x/other"
)

var Anchor = 0

func HashT0(a K0) uint64 {
	return deriveHashT0(a)
}

func EqualT0(a K0, b K0) bool {
	return deriveEqualT0(a, b)
}

func HashT1(a int64) uint64 {
	return deriveHashT1(a)
}

func EqualT1(a int64, b int64) bool {
	return deriveEqualT1(a, b)
}

func HashT2(a *S0) uint64 {
	return deriveHashT2(a)
}

func EqualT2(a *S0, b *S0) bool {
	return deriveEqualT2(a, b)
}

func HashT3(a *S1) uint64 {
	return deriveHashT3(a)
}

func EqualT3(a *S1, b *S1) bool {
	return deriveEqualT3(a, b)
}

func HashT4(a MyC) uint64 {
	return deriveHashT4(a)
}

func EqualT4(a MyC, b MyC) bool {
	return deriveEqualT4(a, b)
}

func HashT5(a [0]ext.E0) uint64 {
	return deriveHashT5(a)
}

func EqualT5(a [0]ext.E0, b [0]ext.E0) bool {
	return deriveEqualT5(a, b)
}

func HashT6(a rune) uint64 {
	return deriveHashT6(a)
}

func EqualT6(a rune, b rune) bool {
	return deriveEqualT6(a, b)
}

func HashT7(a MyStr) uint64 {
	return deriveHashT7(a)
}

func EqualT7(a MyStr, b MyStr) bool {
	return deriveEqualT7(a, b)
}

func HashT8(a uint16) uint64 {
	return deriveHashT8(a)
}

func EqualT8(a uint16, b uint16) bool {
	return deriveEqualT8(a, b)
}

func HashT9(a int16) uint64 {
	return deriveHashT9(a)
}

func EqualT9(a int16, b int16) bool {
	return deriveEqualT9(a, b)
}

func HashT10(a map[bool]other.Num) uint64 {
	return deriveHashT10(a)
}

func EqualT10(a map[bool]other.Num, b map[bool]other.Num) bool {
	return deriveEqualT10(a, b)
}

func HashT11(a map[MyRune]int) uint64 {
	return deriveHashT11(a)
}

func EqualT11(a map[MyRune]int, b map[MyRune]int) bool {
	return deriveEqualT11(a, b)
}

func HashT12(a map[int32]MyRune) uint64 {
	return deriveHashT12(a)
}

func EqualT12(a map[int32]MyRune, b map[int32]MyRune) bool {
	return deriveEqualT12(a, b)
}

func HashT13(a uint) uint64 {
	return deriveHashT13(a)
}

func EqualT13(a uint, b uint) bool {
	return deriveEqualT13(a, b)
}
