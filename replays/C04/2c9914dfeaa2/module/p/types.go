package p

import (
	ext "subj/ext1"
	other "subj/x/other"
)

type MyC complex128

type MyRune rune

type MyStr string

type N0 [][]bool

type K0 struct {
}

type K1 struct {
	F0 [0]K0
	F1 complex128
}

type S0 struct {
	F0 map[bool]*map[MyStr]other.Num
}

type S1 struct {
	F0 MyC
	f1 map[string]float64
	F2 N0
	f3 int32
	F4 ext.Num
	F5 map[complex128]map[bool][]byte
}
