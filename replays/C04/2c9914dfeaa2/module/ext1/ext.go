package ext

type Num string

type Key struct {
	k0 complex128
	K1 int32
	K2 uint
}

type E0 struct {
	f0 []uint32
	F1 Num
	F2 bool
}
