package ext

type Num float64

type Key struct {
	k0 Num
	k1 Num
}

type E0 struct {
	f0 map[Key]map[Key]float32
	f1 complex64
	f2 map[Key]complex128
}
