package p

import (
	ext "subj/ext1"
)

var Anchor = 0

func HashT0(a *K0) uint64 {
	return deriveHashT0(a)
}

func EqualT0(a *K0, b *K0) bool {
	return deriveEqualT0(a, b)
}

func HashT1(a *S0) uint64 {
	return deriveHashT1(a)
}

func EqualT1(a *S0, b *S0) bool {
	return deriveEqualT1(a, b)
}

func HashT2(a map[[0]int64]MyI64) uint64 {
	return deriveHashT2(a)
}

func EqualT2(a map[[0]int64]MyI64, b map[[0]int64]MyI64) bool {
	return deriveEqualT2(a, b)
}

func HashT3(a S2) uint64 {
	return deriveHashT3(a)
}

func EqualT3(a S2, b S2) bool {
	return deriveEqualT3(a, b)
}

func HashT4(a *S3) uint64 {
	return deriveHashT4(a)
}

func EqualT4(a *S3, b *S3) bool {
	return deriveEqualT4(a, b)
}

func HashT5(a *S4) uint64 {
	return deriveHashT5(a)
}

func EqualT5(a *S4, b *S4) bool {
	return deriveEqualT5(a, b)
}

func HashT6(a int) uint64 {
	return deriveHashT6(a)
}

func EqualT6(a int, b int) bool {
	return deriveEqualT6(a, b)
}

func HashT7(a MyI64) uint64 {
	return deriveHashT7(a)
}

func EqualT7(a MyI64, b MyI64) bool {
	return deriveEqualT7(a, b)
}

func HashT8(a string) uint64 {
	return deriveHashT8(a)
}

func EqualT8(a string, b string) bool {
	return deriveEqualT8(a, b)
}

func HashT9(a ext.Key) uint64 {
	return deriveHashT9(a)
}

func EqualT9(a ext.Key, b ext.Key) bool {
	return deriveEqualT9(a, b)
}

func HashT10(a S4) uint64 {
	return deriveHashT10(a)
}

func EqualT10(a S4, b S4) bool {
	return deriveEqualT10(a, b)
}

func HashT11(a complex64) uint64 {
	return deriveHashT11(a)
}

func EqualT11(a complex64, b complex64) bool {
	return deriveEqualT11(a, b)
}

func HashT12(a byte) uint64 {
	return deriveHashT12(a)
}

func EqualT12(a byte, b byte) bool {
	return deriveEqualT12(a, b)
}

func HashT13(a map[int]bool) uint64 {
	return deriveHashT13(a)
}

func EqualT13(a map[int]bool, b map[int]bool) bool {
	return deriveEqualT13(a, b)
}
