package p

import (
	ext "subj/ext1"
	ext2 "subj/x/ext"
)

type MyI64 int64

type K0 struct {
}

type S0 struct {
	f0 MyI64
	K0
	F2 map[ext.Key]complex128
}

type S1 struct {
}

type S2 struct {
}

type S3 struct {
	f0 int8
	F1 map[ext2.Num]S3
	f2 *[]string
	F3 ext2.E0
	F4 *int
}

type S4 struct {
}
