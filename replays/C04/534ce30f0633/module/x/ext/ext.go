package ext

import (
	ext "subj/ext1"
)

type Num string

type Key struct {
	K0 uint64
	K1 Num
}

type E0 struct {
	F0 int16
	f1 ext.E0
	f2 ext.Key
	f3 [1]ext.E0
}

type E1 struct {
	f0 complex64
	f1 []byte
}
