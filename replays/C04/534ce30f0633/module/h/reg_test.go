package h

import (
	"reflect"

	ext "subj/ext1"
	p "subj/p"
)

var _ = p.Anchor

var Registry = []Entry{
	{ID: "T0", Type: reflect.TypeOf((**p.K0)(nil)).Elem(), TypeStr: "*p.K0",
		Funcs: map[string]any{"equal": p.EqualT0, "hash": p.HashT0},
		Tags:  map[string]string{"f:emptystruct": "1", "f:ptr": "1", "f:struct": "1"},
	},
	{ID: "T1", Type: reflect.TypeOf((**p.S0)(nil)).Elem(), TypeStr: "*p.S0",
		Funcs: map[string]any{"equal": p.EqualT1, "hash": p.HashT1},
		Tags:  map[string]string{"f:complex": "1", "f:embedded": "1", "f:emptystruct": "1", "f:ext": "1", "f:ext-private": "1", "f:float": "1", "f:map": "1", "f:namedbasic": "1", "f:ptr": "1", "f:struct": "1", "f:structkey": "1"},
	},
	{ID: "T2", Type: reflect.TypeOf((*map[[0]int64]p.MyI64)(nil)).Elem(), TypeStr: "map[[0]int64]p.MyI64",
		Funcs: map[string]any{"equal": p.EqualT2, "hash": p.HashT2},
		Tags:  map[string]string{"f:array": "1", "f:array0": "1", "f:arraykey": "1", "f:map": "1", "f:namedbasic": "1"},
	},
	{ID: "T3", Type: reflect.TypeOf((*p.S2)(nil)).Elem(), TypeStr: "p.S2",
		Funcs: map[string]any{"equal": p.EqualT3, "hash": p.HashT3},
		Tags:  map[string]string{"comparable": "1", "f:emptystruct": "1", "f:struct": "1"},
	},
	{ID: "T4", Type: reflect.TypeOf((**p.S3)(nil)).Elem(), TypeStr: "*p.S3",
		Funcs: map[string]any{"equal": p.EqualT4, "hash": p.HashT4},
		Tags:  map[string]string{"f:array": "1", "f:complex": "1", "f:ext": "1", "f:ext-private": "1", "f:float": "1", "f:map": "1", "f:namedbasic": "1", "f:ptr": "1", "f:recursive": "1", "f:slice": "1", "f:string": "1", "f:struct": "1", "f:structkey": "1"},
	},
	{ID: "T5", Type: reflect.TypeOf((**p.S4)(nil)).Elem(), TypeStr: "*p.S4",
		Funcs: map[string]any{"equal": p.EqualT5, "hash": p.HashT5},
		Tags:  map[string]string{"f:emptystruct": "1", "f:ptr": "1", "f:struct": "1"},
	},
	{ID: "T6", Type: reflect.TypeOf((*int)(nil)).Elem(), TypeStr: "int",
		Funcs: map[string]any{"equal": p.EqualT6, "hash": p.HashT6},
		Tags:  map[string]string{"basic-ordered": "1", "comparable": "1"},
	},
	{ID: "T7", Type: reflect.TypeOf((*p.MyI64)(nil)).Elem(), TypeStr: "p.MyI64",
		Funcs: map[string]any{"equal": p.EqualT7, "hash": p.HashT7},
		Tags:  map[string]string{"comparable": "1", "f:namedbasic": "1"},
	},
	{ID: "T8", Type: reflect.TypeOf((*string)(nil)).Elem(), TypeStr: "string",
		Funcs: map[string]any{"equal": p.EqualT8, "hash": p.HashT8},
		Tags:  map[string]string{"basic-ordered": "1", "comparable": "1", "f:string": "1"},
	},
	{ID: "T9", Type: reflect.TypeOf((*ext.Key)(nil)).Elem(), TypeStr: "ext.Key",
		Funcs: map[string]any{"equal": p.EqualT9, "hash": p.HashT9},
		Tags:  map[string]string{"comparable": "1", "f:ext": "1", "f:ext-private": "1", "f:float": "1", "f:namedbasic": "1", "f:struct": "1"},
	},
	{ID: "T10", Type: reflect.TypeOf((*p.S4)(nil)).Elem(), TypeStr: "p.S4",
		Funcs: map[string]any{"equal": p.EqualT10, "hash": p.HashT10},
		Tags:  map[string]string{"comparable": "1", "f:emptystruct": "1", "f:struct": "1"},
	},
	{ID: "T11", Type: reflect.TypeOf((*complex64)(nil)).Elem(), TypeStr: "complex64",
		Funcs: map[string]any{"equal": p.EqualT11, "hash": p.HashT11},
		Tags:  map[string]string{"comparable": "1", "f:complex": "1"},
	},
	{ID: "T12", Type: reflect.TypeOf((*byte)(nil)).Elem(), TypeStr: "byte",
		Funcs: map[string]any{"equal": p.EqualT12, "hash": p.HashT12},
		Tags:  map[string]string{"basic-ordered": "1", "comparable": "1"},
	},
	{ID: "T13", Type: reflect.TypeOf((*map[int]bool)(nil)).Elem(), TypeStr: "map[int]bool",
		Funcs: map[string]any{"equal": p.EqualT13, "hash": p.HashT13},
		Tags:  map[string]string{"f:map": "1"},
	},
}
