package ext

type Num float64

type Key struct {
	K0 Num
}

type E0 struct {
	F0 *E0
	F1 map[string][]byte
	f2 []byte
	F3 *E0
}

type E1 struct {
	f0 []byte
}
