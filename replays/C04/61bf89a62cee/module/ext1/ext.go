package ext

type Num int

type Key struct {
	k0 uint8
	K1 uint16
}

type E0 struct {
	f0 float32
	f1 Num
}

type E1 struct {
	F0 []E0
	f1 *E1
}
