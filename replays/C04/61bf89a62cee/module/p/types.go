package p

import (
	ext "subj/ext1"
)

type MyInt int

type MyF float64

type MyI64 int64

type N0 [][]ext.Num

type N1 map[uintptr]int16

type N2 [1]ext.Num

type K0 struct {
}

type S0 struct {
	F0 *S0
	F1 int
	f2 []byte
	f3 K0
	F4 map[ext.Key]map[uint64]S0
}
