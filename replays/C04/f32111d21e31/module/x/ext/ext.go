package ext

type Num int64

type Key struct {
	K0 Num
}

type E0 struct {
	F0 **Key
	F1 []byte
	F2 Key
	f3 []int
}
