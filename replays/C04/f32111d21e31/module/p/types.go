package p

import (
	ext "subj/ext1"
)

type MyI64 int64

type K0 struct {
	f0 ext.Key
	F1 MyI64
	F2 [2]uint8
}

type K1 struct {
	f0 MyI64
}

type S0 struct {
}

type S1 struct {
	F0 int8
}

type S2 struct {
}
