package p

import (
	ext "subj/ext1"
	ext2 "subj/x/ext"
)

var Anchor = 0

func HashT0(a *K0) uint64 {
	return deriveHashT0(a)
}

func EqualT0(a *K0, b *K0) bool {
	return deriveEqualT0(a, b)
}

func HashT1(a map[ext.Key]map[complex128]uint) uint64 {
	return deriveHashT1(a)
}

func EqualT1(a map[ext.Key]map[complex128]uint, b map[ext.Key]map[complex128]uint) bool {
	return deriveEqualT1(a, b)
}

func HashT2(a S0) uint64 {
	return deriveHashT2(a)
}

func EqualT2(a S0, b S0) bool {
	return deriveEqualT2(a, b)
}

func HashT3(a ext2.E0) uint64 {
	return deriveHashT3(a)
}

func EqualT3(a ext2.E0, b ext2.E0) bool {
	return deriveEqualT3(a, b)
}

func HashT4(a S2) uint64 {
	return deriveHashT4(a)
}

func EqualT4(a S2, b S2) bool {
	return deriveEqualT4(a, b)
}

func HashT5(a bool) uint64 {
	return deriveHashT5(a)
}

func EqualT5(a bool, b bool) bool {
	return deriveEqualT5(a, b)
}

func HashT6(a ext.Num) uint64 {
	return deriveHashT6(a)
}

func EqualT6(a ext.Num, b ext.Num) bool {
	return deriveEqualT6(a, b)
}

func HashT7(a map[uint64][]byte) uint64 {
	return deriveHashT7(a)
}

func EqualT7(a map[uint64][]byte, b map[uint64][]byte) bool {
	return deriveEqualT7(a, b)
}

func HashT8(a *[][3]ext.Key) uint64 {
	return deriveHashT8(a)
}

func EqualT8(a *[][3]ext.Key, b *[][3]ext.Key) bool {
	return deriveEqualT8(a, b)
}

func HashT9(a float32) uint64 {
	return deriveHashT9(a)
}

func EqualT9(a float32, b float32) bool {
	return deriveEqualT9(a, b)
}

func HashT10(a complex64) uint64 {
	return deriveHashT10(a)
}

func EqualT10(a complex64, b complex64) bool {
	return deriveEqualT10(a, b)
}

func HashT11(a *S2) uint64 {
	return deriveHashT11(a)
}

func EqualT11(a *S2, b *S2) bool {
	return deriveEqualT11(a, b)
}

func HashT12(a *K1) uint64 {
	return deriveHashT12(a)
}

func EqualT12(a *K1, b *K1) bool {
	return deriveEqualT12(a, b)
}

func HashT13(a MyI64) uint64 {
	return deriveHashT13(a)
}

func EqualT13(a MyI64, b MyI64) bool {
	return deriveEqualT13(a, b)
}
