package ext

type Num float64

type Key struct {
	k0 float32
	k1 float64
	K2 int
}

type E0 struct {
	f0 Num
	f1 []byte
	f2 []byte
}
