package ext

type Num float64

type Key struct {
	k0 uintptr
	K1 Num
}

type E0 struct {
	f0 *uint16
	F1 []byte
	F2 Key
}

type E1 struct {
	f0 *E1
	f1 int32
}
