package p

var Anchor = 0

func HashT0(a K0) uint64 {
	return deriveHashT0(a)
}

func EqualT0(a K0, b K0) bool {
	return deriveEqualT0(a, b)
}

func HashT1(a *K1) uint64 {
	return deriveHashT1(a)
}

func EqualT1(a *K1, b *K1) bool {
	return deriveEqualT1(a, b)
}

func HashT2(a S0) uint64 {
	return deriveHashT2(a)
}

func EqualT2(a S0, b S0) bool {
	return deriveEqualT2(a, b)
}

func HashT3(a float64) uint64 {
	return deriveHashT3(a)
}

func EqualT3(a float64, b float64) bool {
	return deriveEqualT3(a, b)
}

func HashT4(a K1) uint64 {
	return deriveHashT4(a)
}

func EqualT4(a K1, b K1) bool {
	return deriveEqualT4(a, b)
}

func HashT5(a float32) uint64 {
	return deriveHashT5(a)
}

func EqualT5(a float32, b float32) bool {
	return deriveEqualT5(a, b)
}

func HashT6(a [1]int64) uint64 {
	return deriveHashT6(a)
}

func EqualT6(a [1]int64, b [1]int64) bool {
	return deriveEqualT6(a, b)
}

func HashT7(a int) uint64 {
	return deriveHashT7(a)
}

func EqualT7(a int, b int) bool {
	return deriveEqualT7(a, b)
}

func HashT8(a N0) uint64 {
	return deriveHashT8(a)
}

func EqualT8(a N0, b N0) bool {
	return deriveEqualT8(a, b)
}

func HashT9(a bool) uint64 {
	return deriveHashT9(a)
}

func EqualT9(a bool, b bool) bool {
	return deriveEqualT9(a, b)
}

func HashT10(a *[3]MyF) uint64 {
	return deriveHashT10(a)
}

func EqualT10(a *[3]MyF, b *[3]MyF) bool {
	return deriveEqualT10(a, b)
}

func HashT11(a map[[1]K1]int64) uint64 {
	return deriveHashT11(a)
}

func EqualT11(a map[[1]K1]int64, b map[[1]K1]int64) bool {
	return deriveEqualT11(a, b)
}

func HashT12(a []uintptr) uint64 {
	return deriveHashT12(a)
}

func EqualT12(a []uintptr, b []uintptr) bool {
	return deriveEqualT12(a, b)
}

func HashT13(a map[rune][]MyF) uint64 {
	return deriveHashT13(a)
}

func EqualT13(a map[rune][]MyF, b map[rune][]MyF) bool {
	return deriveEqualT13(a, b)
}
