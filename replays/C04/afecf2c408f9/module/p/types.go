package p

import (
	ext2 "subj/x/ext"
)

type MyF float64

type N0 []uint8

type N1 *int8

type N2 []int16

type K0 struct {
	f0 ext2.Num
	F1 MyF
	f2 uint16
}

type K1 struct {
}

type S0 struct {
	*K0
	f1 map[uint16]N1
	f2 bool
	F3 *S0
	F4 *S0
	F5 MyF
}

type S1 struct {
	F0 N2
}
