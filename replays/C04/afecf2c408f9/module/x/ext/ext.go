package ext

type Num float64

type Key struct {
	k0 byte
	K1 bool
	K2 Num
}

type E0 struct {
}
