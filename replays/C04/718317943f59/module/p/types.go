package p

import (
	ext "subj/ext1"
	ext2 "subj/x/ext"
)

type MyStr string

type MyU8 uint8

type MyF32 float32

type MyInt int

type K0 struct {
	F0 ext.Key
	F1 ext2.Num
	F2 uint8
}

type K1 struct {
}

type S0 struct {
	K1
	f1 ext2.Num
	*K0
	F3 int
	F4 MyU8
	f5 ext2.Num
}

type S1 struct {
	f0 *[1]int
	K1
	f2 int64
	F3 int16
	f4 map[bool]S1
	F5 map[K0]map[MyInt][2]string
}

type S2 struct {
	F0 []byte
}

type S3 struct {
}
