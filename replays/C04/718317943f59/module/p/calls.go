package p

import (
	ext "subj/ext1"
	ext2 "subj/x/ext"
)

var Anchor = 0

func HashT0(a S0) uint64 {
	return deriveHashT0(a)
}

func EqualT0(a S0, b S0) bool {
	return deriveEqualT0(a, b)
}

func HashT1(a *K1) uint64 {
	return deriveHashT1(a)
}

func EqualT1(a *K1, b *K1) bool {
	return deriveEqualT1(a, b)
}

func HashT2(a *S0) uint64 {
	return deriveHashT2(a)
}

func EqualT2(a *S0, b *S0) bool {
	return deriveEqualT2(a, b)
}

func HashT3(a MyStr) uint64 {
	return deriveHashT3(a)
}

func EqualT3(a MyStr, b MyStr) bool {
	return deriveEqualT3(a, b)
}

func HashT4(a S2) uint64 {
	return deriveHashT4(a)
}

func EqualT4(a S2, b S2) bool {
	return deriveEqualT4(a, b)
}

func HashT5(a *S3) uint64 {
	return deriveHashT5(a)
}

func EqualT5(a *S3, b *S3) bool {
	return deriveEqualT5(a, b)
}

func HashT6(a uint8) uint64 {
	return deriveHashT6(a)
}

func EqualT6(a uint8, b uint8) bool {
	return deriveEqualT6(a, b)
}

func HashT7(a map[string]S2) uint64 {
	return deriveHashT7(a)
}

func EqualT7(a map[string]S2, b map[string]S2) bool {
	return deriveEqualT7(a, b)
}

func HashT8(a [1]map[int]K1) uint64 {
	return deriveHashT8(a)
}

func EqualT8(a [1]map[int]K1, b [1]map[int]K1) bool {
	return deriveEqualT8(a, b)
}

func HashT9(a int32) uint64 {
	return deriveHashT9(a)
}

func EqualT9(a int32, b int32) bool {
	return deriveEqualT9(a, b)
}

func HashT10(a ext.E1) uint64 {
	return deriveHashT10(a)
}

func EqualT10(a ext.E1, b ext.E1) bool {
	return deriveEqualT10(a, b)
}

func HashT11(a []byte) uint64 {
	return deriveHashT11(a)
}

func EqualT11(a []byte, b []byte) bool {
	return deriveEqualT11(a, b)
}

func HashT12(a MyF32) uint64 {
	return deriveHashT12(a)
}

func EqualT12(a MyF32, b MyF32) bool {
	return deriveEqualT12(a, b)
}

func HashT13(a map[ext2.Key]uint64) uint64 {
	return deriveHashT13(a)
}

func EqualT13(a map[ext2.Key]uint64, b map[ext2.Key]uint64) bool {
	return deriveEqualT13(a, b)
}
