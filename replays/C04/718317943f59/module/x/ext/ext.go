package ext

import (
	ext "subj/ext1"
)

type Num string

type Key struct {
	k0 uint8
}

type E0 struct {
}

type E1 struct {
	F0 []byte
	f1 [1]E0
	F2 ext.Key
}
