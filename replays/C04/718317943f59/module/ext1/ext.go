package ext

type Num string

type Key struct {
	K0 uint16
	k1 Num
	K2 bool
}

type E0 struct {
}

type E1 struct {
	f0 map[Key]*E0
	F1 [2]map[int]E0
	f2 []byte
}
