package p

import (
	ext "subj/ext1"
	other "subj/x/other"
)

var Anchor = 0

func HashT0(a *ext.E0) uint64 {
	return deriveHashT0(a)
}

func EqualT0(a *ext.E0, b *ext.E0) bool {
	return deriveEqualT0(a, b)
}

func HashT1(a []ext.E0) uint64 {
	return deriveHashT1(a)
}

func EqualT1(a []ext.E0, b []ext.E0) bool {
	return deriveEqualT1(a, b)
}

func HashT2(a [2]ext.E0) uint64 {
	return deriveHashT2(a)
}

func EqualT2(a [2]ext.E0, b [2]ext.E0) bool {
	return deriveEqualT2(a, b)
}

func HashT3(a map[string]ext.E0) uint64 {
	return deriveHashT3(a)
}

func EqualT3(a map[string]ext.E0, b map[string]ext.E0) bool {
	return deriveEqualT3(a, b)
}

func HashT4(a map[K0]ext.E0) uint64 {
	return deriveHashT4(a)
}

func EqualT4(a map[K0]ext.E0, b map[K0]ext.E0) bool {
	return deriveEqualT4(a, b)
}

func HashT5(a *R) uint64 {
	return deriveHashT5(a)
}

func EqualT5(a *R, b *R) bool {
	return deriveEqualT5(a, b)
}

func HashT6(a []R) uint64 {
	return deriveHashT6(a)
}

func EqualT6(a []R, b []R) bool {
	return deriveEqualT6(a, b)
}

func HashT7(a [2]R) uint64 {
	return deriveHashT7(a)
}

func EqualT7(a [2]R, b [2]R) bool {
	return deriveEqualT7(a, b)
}

func HashT8(a map[string]R) uint64 {
	return deriveHashT8(a)
}

func EqualT8(a map[string]R, b map[string]R) bool {
	return deriveEqualT8(a, b)
}

func HashT9(a map[K0]R) uint64 {
	return deriveHashT9(a)
}

func EqualT9(a map[K0]R, b map[K0]R) bool {
	return deriveEqualT9(a, b)
}

func HashT10(a *other.O0) uint64 {
	return deriveHashT10(a)
}

func EqualT10(a *other.O0, b *other.O0) bool {
	return deriveEqualT10(a, b)
}

func HashT11(a []other.O0) uint64 {
	return deriveHashT11(a)
}

func EqualT11(a []other.O0, b []other.O0) bool {
	return deriveEqualT11(a, b)
}

func HashT12(a [2]other.O0) uint64 {
	return deriveHashT12(a)
}

func EqualT12(a [2]other.O0, b [2]other.O0) bool {
	return deriveEqualT12(a, b)
}

func HashT13(a map[string]other.O0) uint64 {
	return deriveHashT13(a)
}

func EqualT13(a map[string]other.O0, b map[string]other.O0) bool {
	return deriveEqualT13(a, b)
}
