package p

import (
	ext "subj/ext1"
	ext2 "subj/x/ext"
)

type MyInt int

type N0 map[float32]rune

type K0 struct {
	F0 uint
	f1 int
	F2 [1]ext2.Num
}

type K1 struct {
	F0 ext.Key
	F1 uint64
	F2 [1]int
}

type S0 struct {
	F0 map[K1]*N0
	F1 *S1
	F2 []float64
	f3 int64
	F4 MyInt
	F5 []N0
}

type S1 struct {
	F0 N0
	F1 N0
	F2 uintptr
	F3 []byte
	F4 []*[]K0
}
