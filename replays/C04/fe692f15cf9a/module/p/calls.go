package p

import (
	ext "subj/ext1"
	ext2 "subj/x/ext"
)

var Anchor = 0

func HashT0(a *K0) uint64 {
	return deriveHashT0(a)
}

func EqualT0(a *K0, b *K0) bool {
	return deriveEqualT0(a, b)
}

func HashT1(a *K1) uint64 {
	return deriveHashT1(a)
}

func EqualT1(a *K1, b *K1) bool {
	return deriveEqualT1(a, b)
}

func HashT2(a S0) uint64 {
	return deriveHashT2(a)
}

func EqualT2(a S0, b S0) bool {
	return deriveEqualT2(a, b)
}

func HashT3(a N0) uint64 {
	return deriveHashT3(a)
}

func EqualT3(a N0, b N0) bool {
	return deriveEqualT3(a, b)
}

func HashT4(a *int64) uint64 {
	return deriveHashT4(a)
}

func EqualT4(a *int64, b *int64) bool {
	return deriveEqualT4(a, b)
}

func HashT5(a MyInt) uint64 {
	return deriveHashT5(a)
}

func EqualT5(a MyInt, b MyInt) bool {
	return deriveEqualT5(a, b)
}

func HashT6(a map[ext.Num]ext2.Num) uint64 {
	return deriveHashT6(a)
}

func EqualT6(a map[ext.Num]ext2.Num, b map[ext.Num]ext2.Num) bool {
	return deriveEqualT6(a, b)
}

func HashT7(a K0) uint64 {
	return deriveHashT7(a)
}

func EqualT7(a K0, b K0) bool {
	return deriveEqualT7(a, b)
}

func HashT8(a int16) uint64 {
	return deriveHashT8(a)
}

func EqualT8(a int16, b int16) bool {
	return deriveEqualT8(a, b)
}

func HashT9(a ext.E0) uint64 {
	return deriveHashT9(a)
}

func EqualT9(a ext.E0, b ext.E0) bool {
	return deriveEqualT9(a, b)
}

func HashT10(a uint32) uint64 {
	return deriveHashT10(a)
}

func EqualT10(a uint32, b uint32) bool {
	return deriveEqualT10(a, b)
}

func HashT11(a complex128) uint64 {
	return deriveHashT11(a)
}

func EqualT11(a complex128, b complex128) bool {
	return deriveEqualT11(a, b)
}

func HashT12(a uint) uint64 {
	return deriveHashT12(a)
}

func EqualT12(a uint, b uint) bool {
	return deriveEqualT12(a, b)
}

func HashT13(a map[ext2.Num][]map[float32]float64) uint64 {
	return deriveHashT13(a)
}

func EqualT13(a map[ext2.Num][]map[float32]float64, b map[ext2.Num][]map[float32]float64) bool {
	return deriveEqualT13(a, b)
}
