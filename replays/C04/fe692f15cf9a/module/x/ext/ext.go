package ext

type Num float64

type Key struct {
	k0 Num
	k1 float32
	k2 float64
}

type E0 struct {
	f0 complex128
	f1 *E0
}
