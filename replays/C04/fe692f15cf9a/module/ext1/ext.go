package ext

type Num float64

type Key struct {
	K0 float64
	K1 Num
}

type E0 struct {
	f0 int
	F1 Key
	F2 map[int64]rune
}

type E1 struct {
	f0 map[uint64][0]bool
	f1 map[uintptr][]byte
}
