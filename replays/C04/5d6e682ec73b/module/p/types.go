package p

import (
	ext "subj/ext1"
	ext2 "subj/x/ext"
)

type MyInt int

type MyF float64

type N0 []uint

type N1 *int

type K0 struct {
}

type K1 struct {
	F0 MyF
	F1 ext2.Num
}

type S0 struct {
	f0 [1]map[[0]MyF]map[byte]S0
	F1 *N0
	f2 N1
	*K0
	f4 uint8
	f5 K1
}

type S1 struct {
	f0 ext2.E1
	f1 int32
	*S0
}

type S2 struct {
	F0 int
	F1 [3]*float32
	F2 ext.Num
	F3 *S2
	f4 map[ext.Num]S4
	F5 map[ext2.Key]int64
}

type S3 struct {
}

type S4 struct {
	*K0
	F1 ext2.E0
	f2 MyInt
	F3 int64
	F4 int64
	F5 S1
}
