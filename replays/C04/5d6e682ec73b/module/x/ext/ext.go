package ext

type Num int

type Key struct {
	K0 int
}

type E0 struct {
}

type E1 struct {
	f0 [2]Num
	f1 complex128
	F2 Num
	f3 [0]*E1
}
