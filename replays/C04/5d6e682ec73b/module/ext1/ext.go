package ext

type Num int

type Key struct {
	k0 uint8
	K1 Num
}

type E0 struct {
	f0 Key
	f1 Key
	f2 Key
	f3 map[Key]uint32
}
