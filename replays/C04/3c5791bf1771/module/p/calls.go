package p

import (
	ext "subj/ext1"
	other "subj/x/other"
)

var Anchor = 0

func HashT0(a float64) uint64 {
	return deriveHashT0(a)
}

func EqualT0(a float64, b float64) bool {
	return deriveEqualT0(a, b)
}

func HashT1(a bool) uint64 {
	return deriveHashT1(a)
}

func EqualT1(a bool, b bool) bool {
	return deriveEqualT1(a, b)
}

func HashT2(a byte) uint64 {
	return deriveHashT2(a)
}

func EqualT2(a byte, b byte) bool {
	return deriveEqualT2(a, b)
}

func HashT3(a MyInt) uint64 {
	return deriveHashT3(a)
}

func EqualT3(a MyInt, b MyInt) bool {
	return deriveEqualT3(a, b)
}

func HashT4(a S0) uint64 {
	return deriveHashT4(a)
}

func EqualT4(a S0, b S0) bool {
	return deriveEqualT4(a, b)
}

func HashT5(a ext.E0) uint64 {
	return deriveHashT5(a)
}

func EqualT5(a ext.E0, b ext.E0) bool {
	return deriveEqualT5(a, b)
}

func HashT6(a R) uint64 {
	return deriveHashT6(a)
}

func EqualT6(a R, b R) bool {
	return deriveEqualT6(a, b)
}

func HashT7(a other.O0) uint64 {
	return deriveHashT7(a)
}

func EqualT7(a other.O0, b other.O0) bool {
	return deriveEqualT7(a, b)
}

func HashT8(a *int) uint64 {
	return deriveHashT8(a)
}

func EqualT8(a *int, b *int) bool {
	return deriveEqualT8(a, b)
}

func HashT9(a []int) uint64 {
	return deriveHashT9(a)
}

func EqualT9(a []int, b []int) bool {
	return deriveEqualT9(a, b)
}

func HashT10(a [2]int) uint64 {
	return deriveHashT10(a)
}

func EqualT10(a [2]int, b [2]int) bool {
	return deriveEqualT10(a, b)
}

func HashT11(a map[string]int) uint64 {
	return deriveHashT11(a)
}

func EqualT11(a map[string]int, b map[string]int) bool {
	return deriveEqualT11(a, b)
}

func HashT12(a map[K0]int) uint64 {
	return deriveHashT12(a)
}

func EqualT12(a map[K0]int, b map[K0]int) bool {
	return deriveEqualT12(a, b)
}

func HashT13(a *string) uint64 {
	return deriveHashT13(a)
}

func EqualT13(a *string, b *string) bool {
	return deriveEqualT13(a, b)
}
