package p

import (
	ext "subj/ext1"
	other "subj/x/other"
)

type MyU8 uint8

type MyF32 float32

type MyInt int

type MyF float64

type N0 []uint

type N1 [0]string

type K0 struct {
	F0 int
	F1 other.Key
	F2 [2]int8
}

type K1 struct {
}

type S0 struct {
	F0 []int8
	F1 N0
	f2 int32
	F3 ext.Num
	F4 map[complex128]map[bool][]byte
}

type S1 struct {
	F0 *S1
	f1 N0
}
