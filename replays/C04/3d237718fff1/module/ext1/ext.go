package ext

type Num int

type Key struct {
	K0 complex128
}

type E0 struct {
	F0 []byte
	f1 **Num
	F2 uint32
	F3 Num
}
