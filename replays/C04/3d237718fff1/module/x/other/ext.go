package other

type Num float64

type Key struct {
	k0 Num
	K1 Num
}

type E0 struct {
	f0 uint
	F1 *E0
}

type E1 struct {
	f0 E0
	f1 *E0
	f2 complex64
	f3 uint8
}
