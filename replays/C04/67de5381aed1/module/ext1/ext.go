package ext

type Num float64

type Key struct {
	K0 uintptr
	K1 complex128
	k2 float32
}

type E0 struct {
	f0 map[int32]int64
	f1 int16
	F2 *int16
}
