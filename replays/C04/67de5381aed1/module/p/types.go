package p

import (
	ext "subj/ext1"
	ext2 "subj/x/ext"
)

type MyF float64

type MyI64 int64

type MyU uint

type N0 []uint32

type N1 map[string]MyU

type N2 [][]bool

type K0 struct {
	f0 ext2.Key
	f1 ext.Num
}

type K1 struct {
	F0 int8
}

type S0 struct {
	f0 uint32
	F1 int8
	f2 bool
	F3 ext.E0
}

type S1 struct {
	f0 int64
}

type S2 struct {
}

type S3 struct {
	K1
	f1 [3]map[MyF][]int
	f2 MyF
}

type S4 struct {
	F0 []string
	f1 *int
	F2 MyI64
}
