package p

import (
	ext2 "subj/x/ext"
)

var Anchor = 0

func HashT0(a bool) uint64 {
	return deriveHashT0(a)
}

func EqualT0(a bool, b bool) bool {
	return deriveEqualT0(a, b)
}

func HashT1(a K1) uint64 {
	return deriveHashT1(a)
}

func EqualT1(a K1, b K1) bool {
	return deriveEqualT1(a, b)
}

func HashT2(a *S0) uint64 {
	return deriveHashT2(a)
}

func EqualT2(a *S0, b *S0) bool {
	return deriveEqualT2(a, b)
}

func HashT3(a *S1) uint64 {
	return deriveHashT3(a)
}

func EqualT3(a *S1, b *S1) bool {
	return deriveEqualT3(a, b)
}

func HashT4(a []S1) uint64 {
	return deriveHashT4(a)
}

func EqualT4(a []S1, b []S1) bool {
	return deriveEqualT4(a, b)
}

func HashT5(a S3) uint64 {
	return deriveHashT5(a)
}

func EqualT5(a S3, b S3) bool {
	return deriveEqualT5(a, b)
}

func HashT6(a *S4) uint64 {
	return deriveHashT6(a)
}

func EqualT6(a *S4, b *S4) bool {
	return deriveEqualT6(a, b)
}

func HashT7(a uint8) uint64 {
	return deriveHashT7(a)
}

func EqualT7(a uint8, b uint8) bool {
	return deriveEqualT7(a, b)
}

func HashT8(a MyU) uint64 {
	return deriveHashT8(a)
}

func EqualT8(a MyU, b MyU) bool {
	return deriveEqualT8(a, b)
}

func HashT9(a MyF) uint64 {
	return deriveHashT9(a)
}

func EqualT9(a MyF, b MyF) bool {
	return deriveEqualT9(a, b)
}

func HashT10(a *[][]N0) uint64 {
	return deriveHashT10(a)
}

func EqualT10(a *[][]N0, b *[][]N0) bool {
	return deriveEqualT10(a, b)
}

func HashT11(a int8) uint64 {
	return deriveHashT11(a)
}

func EqualT11(a int8, b int8) bool {
	return deriveEqualT11(a, b)
}

func HashT12(a ext2.E0) uint64 {
	return deriveHashT12(a)
}

func EqualT12(a ext2.E0, b ext2.E0) bool {
	return deriveEqualT12(a, b)
}

func HashT13(a uint64) uint64 {
	return deriveHashT13(a)
}

func EqualT13(a uint64, b uint64) bool {
	return deriveEqualT13(a, b)
}
