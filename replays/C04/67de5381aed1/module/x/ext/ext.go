package ext

type Num float64

type Key struct {
	k0 int32
}

type E0 struct {
	F0 []byte
}

type E1 struct {
}
