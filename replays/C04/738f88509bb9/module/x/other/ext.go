package other

type Num string

type Key struct {
	K0 uint64
	K1 Num
}

type E0 struct {
	F0 *E0
	f1 *E0
	F2 []Num
	f3 uint32
}

type E1 struct {
	f0 [1]bool
	F1 rune
}
