package p

import (
	ext "subj/ext1"
	other "subj/x/other"
)

type MyBool bool

type N0 []float64

type K0 struct {
	f0 [0]other.Num
	F1 int8
	f2 uint
}

type S0 struct {
	F0 bool
	F1 map[int8][0]other.Num
	f2 int16
}

type S1 struct {
	*S0
	F1 *map[int8]S1
	f2 N0
}

type S2 struct {
	S0
	F1 complex128
	F2 *ext.Num
}

type S3 struct {
}

type S4 struct {
	F0 [1]ext.Num
	F1 map[[0]ext.Num]map[ext.Num]N0
}
