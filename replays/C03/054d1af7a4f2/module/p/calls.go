package p

var Anchor = 0

func CompareT0(a map[K0]map[string]bool, b map[K0]map[string]bool) int {
	return deriveCompareT0(a, b)
}

func ComparecT0(a map[K0]map[string]bool, b map[K0]map[string]bool) int {
	return deriveCompareCT0(a)(b)
}

func EqualT0(a map[K0]map[string]bool, b map[K0]map[string]bool) bool {
	return deriveEqualT0(a, b)
}

func CompareT1(a *map[K0]bool, b *map[K0]bool) int {
	return deriveCompareT1(a, b)
}

func ComparecT1(a *map[K0]bool, b *map[K0]bool) int {
	return deriveCompareCT1(a)(b)
}

func EqualT1(a *map[K0]bool, b *map[K0]bool) bool {
	return deriveEqualT1(a, b)
}

func CompareT2(a []map[K0]bool, b []map[K0]bool) int {
	return deriveCompareT2(a, b)
}

func ComparecT2(a []map[K0]bool, b []map[K0]bool) int {
	return deriveCompareCT2(a)(b)
}

func EqualT2(a []map[K0]bool, b []map[K0]bool) bool {
	return deriveEqualT2(a, b)
}

func CompareT3(a [2]map[K0]bool, b [2]map[K0]bool) int {
	return deriveCompareT3(a, b)
}

func ComparecT3(a [2]map[K0]bool, b [2]map[K0]bool) int {
	return deriveCompareCT3(a)(b)
}

func EqualT3(a [2]map[K0]bool, b [2]map[K0]bool) bool {
	return deriveEqualT3(a, b)
}

func CompareT4(a map[string]map[K0]bool, b map[string]map[K0]bool) int {
	return deriveCompareT4(a, b)
}

func ComparecT4(a map[string]map[K0]bool, b map[string]map[K0]bool) int {
	return deriveCompareCT4(a)(b)
}

func EqualT4(a map[string]map[K0]bool, b map[string]map[K0]bool) bool {
	return deriveEqualT4(a, b)
}

func CompareT5(a map[K0]map[K0]bool, b map[K0]map[K0]bool) int {
	return deriveCompareT5(a, b)
}

func ComparecT5(a map[K0]map[K0]bool, b map[K0]map[K0]bool) int {
	return deriveCompareCT5(a)(b)
}

func EqualT5(a map[K0]map[K0]bool, b map[K0]map[K0]bool) bool {
	return deriveEqualT5(a, b)
}

func CompareT6(a **byte, b **byte) int {
	return deriveCompareT6(a, b)
}

func ComparecT6(a **byte, b **byte) int {
	return deriveCompareCT6(a)(b)
}

func EqualT6(a **byte, b **byte) bool {
	return deriveEqualT6(a, b)
}

func CompareT7(a []*byte, b []*byte) int {
	return deriveCompareT7(a, b)
}

func ComparecT7(a []*byte, b []*byte) int {
	return deriveCompareCT7(a)(b)
}

func EqualT7(a []*byte, b []*byte) bool {
	return deriveEqualT7(a, b)
}

func CompareT8(a [2]*byte, b [2]*byte) int {
	return deriveCompareT8(a, b)
}

func ComparecT8(a [2]*byte, b [2]*byte) int {
	return deriveCompareCT8(a)(b)
}

func EqualT8(a [2]*byte, b [2]*byte) bool {
	return deriveEqualT8(a, b)
}

func CompareT9(a map[string]*byte, b map[string]*byte) int {
	return deriveCompareT9(a, b)
}

func ComparecT9(a map[string]*byte, b map[string]*byte) int {
	return deriveCompareCT9(a)(b)
}

func EqualT9(a map[string]*byte, b map[string]*byte) bool {
	return deriveEqualT9(a, b)
}

func CompareT10(a map[K0]*byte, b map[K0]*byte) int {
	return deriveCompareT10(a, b)
}

func ComparecT10(a map[K0]*byte, b map[K0]*byte) int {
	return deriveCompareCT10(a)(b)
}

func EqualT10(a map[K0]*byte, b map[K0]*byte) bool {
	return deriveEqualT10(a, b)
}

func CompareT11(a *[]byte, b *[]byte) int {
	return deriveCompareT11(a, b)
}

func ComparecT11(a *[]byte, b *[]byte) int {
	return deriveCompareCT11(a)(b)
}

func EqualT11(a *[]byte, b *[]byte) bool {
	return deriveEqualT11(a, b)
}

func CompareT12(a [][]byte, b [][]byte) int {
	return deriveCompareT12(a, b)
}

func ComparecT12(a [][]byte, b [][]byte) int {
	return deriveCompareCT12(a)(b)
}

func EqualT12(a [][]byte, b [][]byte) bool {
	return deriveEqualT12(a, b)
}

func CompareT13(a [2][]byte, b [2][]byte) int {
	return deriveCompareT13(a, b)
}

func ComparecT13(a [2][]byte, b [2][]byte) int {
	return deriveCompareCT13(a)(b)
}

func EqualT13(a [2][]byte, b [2][]byte) bool {
	return deriveEqualT13(a, b)
}
