package p

import (
	ext "subj/ext1"
	ext2 "subj/x/ext"
)

type MyF float64

type MyI64 int64

type MyU uint

type N0 map[ext.Num]uint

type N1 *ext.Num

type N2 map[complex128]int8

type K0 struct {
	f0 ext.Num
	F1 int32
}

type S0 struct {
	F0 map[K0]*S0
}

type S1 struct {
	f0 ext.Num
	F1 int
	S0
	F3 uint16
	f4 [0]map[ext.Key]ext2.Num
	F5 int16
}
