package ext

type Num int

type Key struct {
	K0 Num
	K1 uint
}

type E0 struct {
}
