package ext

import (
	ext "subj/ext1"
)

type Num int64

type Key struct {
	k0 float32
}

type E0 struct {
	f0 uint8
	f1 Num
	f2 ext.Key
	f3 ext.Num
}

type E1 struct {
	f0 *E1
	f1 [0]ext.Num
}
