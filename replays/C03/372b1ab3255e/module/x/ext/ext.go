package ext

import (
	ext "subj/ext1"
)

type Num string

type Key struct {
	K0 complex128
	k1 uint64
	k2 complex128
}

type E0 struct {
	F0 []ext.E0
}
