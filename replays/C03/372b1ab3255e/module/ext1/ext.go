package ext

type Num string

type Key struct {
	K0 complex128
	K1 int
}

type E0 struct {
}
