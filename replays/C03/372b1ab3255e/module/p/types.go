package p

import (
	ext2 "subj/x/ext"
)

type MyU uint

type MyBool bool

type N0 []int

type N1 []ext2.Num

type N2 [][]ext2.Num

type K0 struct {
	f0 MyU
}

type K1 struct {
	f0 MyBool
	F1 float32
	F2 complex128
}

type S0 struct {
	F0 map[int8]map[int]rune
}
