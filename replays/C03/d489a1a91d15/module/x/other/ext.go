package other

type Num uint8

type Key struct {
	K0 int
	k1 int32
}

type E0 struct {
	f0 Key
}

type E1 struct {
	F0 []byte
}
