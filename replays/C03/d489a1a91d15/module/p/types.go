package p

import (
	ext "subj/ext1"
)

type MyU8 uint8

type N0 [2]uint8

type N1 [][]MyU8

type K0 struct {
	F0 bool
}

type S0 struct {
}

type S1 struct {
	f0 map[ext.Key]int8
	f1 [0][1]complex128
	F2 []map[K0]S1
	*K0
	F4 *[]*ext.Key
	f5 N1
}

type S2 struct {
}

type S3 struct {
	f0 MyU8
	F1 S0
	F2 N1
	F3 int16
	f4 map[ext.Num]S2
}

type S4 struct {
	f0 uint32
	F1 []S1
	F2 **uint32
	*S3
	F4 uint
	F5 ext.E1
}
