package ext

type Num string

type Key struct {
	k0 float64
}

type E0 struct {
	f0 []byte
	f1 int64
}

type E1 struct {
}
