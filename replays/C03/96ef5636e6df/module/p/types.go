package p

import (
	ext "subj/ext1"
)

type MyU uint

type MyBool bool

type N0 [][]MyBool

type N1 [1]int32

type N2 [][]int64

type K0 struct {
	F0 ext.Key
	f1 uint8
	f2 [1]bool
}

type S0 struct {
	F0 map[uint]S0
}
