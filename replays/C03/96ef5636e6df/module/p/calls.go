package p

import (
	ext "subj/ext1"
	ext2 "subj/x/ext"
)

var Anchor = 0

func CompareT0(a ext.Num, b ext.Num) int {
	return deriveCompareT0(a, b)
}

func ComparecT0(a ext.Num, b ext.Num) int {
	return deriveCompareCT0(a)(b)
}

func EqualT0(a ext.Num, b ext.Num) bool {
	return deriveEqualT0(a, b)
}

func CompareT1(a *S0, b *S0) int {
	return deriveCompareT1(a, b)
}

func ComparecT1(a *S0, b *S0) int {
	return deriveCompareCT1(a)(b)
}

func EqualT1(a *S0, b *S0) bool {
	return deriveEqualT1(a, b)
}

func CompareT2(a *ext2.Num, b *ext2.Num) int {
	return deriveCompareT2(a, b)
}

func ComparecT2(a *ext2.Num, b *ext2.Num) int {
	return deriveCompareCT2(a)(b)
}

func EqualT2(a *ext2.Num, b *ext2.Num) bool {
	return deriveEqualT2(a, b)
}

func CompareT3(a *complex128, b *complex128) int {
	return deriveCompareT3(a, b)
}

func ComparecT3(a *complex128, b *complex128) int {
	return deriveCompareCT3(a)(b)
}

func EqualT3(a *complex128, b *complex128) bool {
	return deriveEqualT3(a, b)
}

func CompareT4(a map[ext.Key]MyBool, b map[ext.Key]MyBool) int {
	return deriveCompareT4(a, b)
}

func ComparecT4(a map[ext.Key]MyBool, b map[ext.Key]MyBool) int {
	return deriveCompareCT4(a)(b)
}

func EqualT4(a map[ext.Key]MyBool, b map[ext.Key]MyBool) bool {
	return deriveEqualT4(a, b)
}

func CompareT5(a K0, b K0) int {
	return deriveCompareT5(a, b)
}

func ComparecT5(a K0, b K0) int {
	return deriveCompareCT5(a)(b)
}

func EqualT5(a K0, b K0) bool {
	return deriveEqualT5(a, b)
}

func CompareT6(a bool, b bool) int {
	return deriveCompareT6(a, b)
}

func ComparecT6(a bool, b bool) int {
	return deriveCompareCT6(a)(b)
}

func EqualT6(a bool, b bool) bool {
	return deriveEqualT6(a, b)
}

func CompareT7(a N2, b N2) int {
	return deriveCompareT7(a, b)
}

func ComparecT7(a N2, b N2) int {
	return deriveCompareCT7(a)(b)
}

func EqualT7(a N2, b N2) bool {
	return deriveEqualT7(a, b)
}

func CompareT8(a ext2.Key, b ext2.Key) int {
	return deriveCompareT8(a, b)
}

func ComparecT8(a ext2.Key, b ext2.Key) int {
	return deriveCompareCT8(a)(b)
}

func EqualT8(a ext2.Key, b ext2.Key) bool {
	return deriveEqualT8(a, b)
}

func CompareT9(a [3]complex64, b [3]complex64) int {
	return deriveCompareT9(a, b)
}

func ComparecT9(a [3]complex64, b [3]complex64) int {
	return deriveCompareCT9(a)(b)
}

func EqualT9(a [3]complex64, b [3]complex64) bool {
	return deriveEqualT9(a, b)
}

func CompareT10(a map[int64]K0, b map[int64]K0) int {
	return deriveCompareT10(a, b)
}

func ComparecT10(a map[int64]K0, b map[int64]K0) int {
	return deriveCompareCT10(a)(b)
}

func EqualT10(a map[int64]K0, b map[int64]K0) bool {
	return deriveEqualT10(a, b)
}

func CompareT11(a [2][2]int8, b [2][2]int8) int {
	return deriveCompareT11(a, b)
}

func ComparecT11(a [2][2]int8, b [2][2]int8) int {
	return deriveCompareCT11(a)(b)
}

func EqualT11(a [2][2]int8, b [2][2]int8) bool {
	return deriveEqualT11(a, b)
}

func CompareT12(a int32, b int32) int {
	return deriveCompareT12(a, b)
}

func ComparecT12(a int32, b int32) int {
	return deriveCompareCT12(a)(b)
}

func EqualT12(a int32, b int32) bool {
	return deriveEqualT12(a, b)
}

func CompareT13(a map[complex128]*int64, b map[complex128]*int64) int {
	return deriveCompareT13(a, b)
}

func ComparecT13(a map[complex128]*int64, b map[complex128]*int64) int {
	return deriveCompareCT13(a)(b)
}

func EqualT13(a map[complex128]*int64, b map[complex128]*int64) bool {
	return deriveEqualT13(a, b)
}
