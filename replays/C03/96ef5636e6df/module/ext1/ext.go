package ext

type Num uint8

type Key struct {
	k0 complex128
}

type E0 struct {
	f0 complex128
	f1 Num
	F2 uint64
}
