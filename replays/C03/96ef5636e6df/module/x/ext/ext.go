package ext

import (
	ext "subj/ext1"
)

type Num int64

type Key struct {
	K0 int
}

type E0 struct {
	F0 ext.E0
}

type E1 struct {
	f0 E0
	f1 uint32
}
