package ext

type Num int

type Key struct {
	K0 int
}

type E0 struct {
	F0 **E0
	f1 []byte
	f2 *E0
	f3 int64
}
