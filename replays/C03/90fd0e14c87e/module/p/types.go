package p

type MyF float64

type N0 [2]float32

type K0 struct {
	f0 uintptr
}

type S0 struct {
	f0 K0
	K0
	F2 byte
	F3 map[string]*int8
	f4 *S0
	F5 *S0
}
