package p

import (
	ext2 "subj/x/ext"
)

var Anchor = 0

func CompareT0(a K0, b K0) int {
	return deriveCompareT0(a, b)
}

func ComparecT0(a K0, b K0) int {
	return deriveCompareCT0(a)(b)
}

func EqualT0(a K0, b K0) bool {
	return deriveEqualT0(a, b)
}

func CompareT1(a *S0, b *S0) int {
	return deriveCompareT1(a, b)
}

func ComparecT1(a *S0, b *S0) int {
	return deriveCompareCT1(a)(b)
}

func EqualT1(a *S0, b *S0) bool {
	return deriveEqualT1(a, b)
}

func CompareT2(a N0, b N0) int {
	return deriveCompareT2(a, b)
}

func ComparecT2(a N0, b N0) int {
	return deriveCompareCT2(a)(b)
}

func EqualT2(a N0, b N0) bool {
	return deriveEqualT2(a, b)
}

func CompareT3(a []K0, b []K0) int {
	return deriveCompareT3(a, b)
}

func ComparecT3(a []K0, b []K0) int {
	return deriveCompareCT3(a)(b)
}

func EqualT3(a []K0, b []K0) bool {
	return deriveEqualT3(a, b)
}

func CompareT4(a int, b int) int {
	return deriveCompareT4(a, b)
}

func ComparecT4(a int, b int) int {
	return deriveCompareCT4(a)(b)
}

func EqualT4(a int, b int) bool {
	return deriveEqualT4(a, b)
}

func CompareT5(a ext2.E0, b ext2.E0) int {
	return deriveCompareT5(a, b)
}

func ComparecT5(a ext2.E0, b ext2.E0) int {
	return deriveCompareCT5(a)(b)
}

func EqualT5(a ext2.E0, b ext2.E0) bool {
	return deriveEqualT5(a, b)
}

func CompareT6(a *int, b *int) int {
	return deriveCompareT6(a, b)
}

func ComparecT6(a *int, b *int) int {
	return deriveCompareCT6(a)(b)
}

func EqualT6(a *int, b *int) bool {
	return deriveEqualT6(a, b)
}

func CompareT7(a uint, b uint) int {
	return deriveCompareT7(a, b)
}

func ComparecT7(a uint, b uint) int {
	return deriveCompareCT7(a)(b)
}

func EqualT7(a uint, b uint) bool {
	return deriveEqualT7(a, b)
}

func CompareT8(a int32, b int32) int {
	return deriveCompareT8(a, b)
}

func ComparecT8(a int32, b int32) int {
	return deriveCompareCT8(a)(b)
}

func EqualT8(a int32, b int32) bool {
	return deriveEqualT8(a, b)
}

func CompareT9(a ext2.Key, b ext2.Key) int {
	return deriveCompareT9(a, b)
}

func ComparecT9(a ext2.Key, b ext2.Key) int {
	return deriveCompareCT9(a)(b)
}

func EqualT9(a ext2.Key, b ext2.Key) bool {
	return deriveEqualT9(a, b)
}

func CompareT10(a uint64, b uint64) int {
	return deriveCompareT10(a, b)
}

func ComparecT10(a uint64, b uint64) int {
	return deriveCompareCT10(a)(b)
}

func EqualT10(a uint64, b uint64) bool {
	return deriveEqualT10(a, b)
}

func CompareT11(a string, b string) int {
	return deriveCompareT11(a, b)
}

func ComparecT11(a string, b string) int {
	return deriveCompareCT11(a)(b)
}

func EqualT11(a string, b string) bool {
	return deriveEqualT11(a, b)
}

func CompareT12(a S0, b S0) int {
	return deriveCompareT12(a, b)
}

func ComparecT12(a S0, b S0) int {
	return deriveCompareCT12(a)(b)
}

func EqualT12(a S0, b S0) bool {
	return deriveEqualT12(a, b)
}

func CompareT13(a *map[uint]map[MyF]bool, b *map[uint]map[MyF]bool) int {
	return deriveCompareT13(a, b)
}

func ComparecT13(a *map[uint]map[MyF]bool, b *map[uint]map[MyF]bool) int {
	return deriveCompareCT13(a)(b)
}

func EqualT13(a *map[uint]map[MyF]bool, b *map[uint]map[MyF]bool) bool {
	return deriveEqualT13(a, b)
}
