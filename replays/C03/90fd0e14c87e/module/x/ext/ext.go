package ext

type Num int64

type Key struct {
	K0 bool
	k1 int
}

type E0 struct {
	f0 complex64
	f1 bool
}

type E1 struct {
	f0 Num
	f1 map[Key]uint32
}
