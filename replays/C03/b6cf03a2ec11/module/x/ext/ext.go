package ext

type Num int

type Key struct {
	k0 rune
}

type E0 struct {
	F0 Num
	f1 Num
	f2 int32
}

type E1 struct {
	f0 [2]map[Key]Num
	F1 []byte
}
