package ext

type Num uint8

type Key struct {
	k0 uint8
	K1 rune
	K2 Num
}

type E0 struct {
	F0 int8
	F1 []byte
}
