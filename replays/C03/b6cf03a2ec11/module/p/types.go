package p

import (
	ext "subj/ext1"
	ext2 "subj/x/ext"
)

type MyU8 uint8

type MyF32 float32

type N0 []float64

type N1 []int

type N2 [][]ext2.Num

type K0 struct {
	F0 ext2.Key
	F1 [0]int8
	F2 ext.Key
}

type K1 struct {
	f0 int64
	f1 complex128
}

type S0 struct {
	f0 [2]*[]S0
	F1 *rune
}

type S1 struct {
	F0 map[ext2.Num]uint32
}

type S2 struct {
	*K1
	F1 int
	f2 ext.Key
	F3 bool
}

type S3 struct {
	f0 []ext2.Num
}

type S4 struct {
	K1
	F1 map[uint]S1
}
