package ext

type Num int

type Key struct {
	K0 rune
}

type E0 struct {
	f0 int
	F1 map[byte]int
}

type E1 struct {
	f0 Num
	f1 []byte
	f2 E0
}
