package p

import (
	ext "subj/ext1"
	ext2 "subj/x/ext"
)

type MyStr string

type MyU8 uint8

type N0 []MyStr

type K0 struct {
	F0 MyStr
	f1 ext2.Key
}

type S0 struct {
	*K0
	F1 K0
	F2 **map[[2]uint16]N0
}

type S1 struct {
	f0 map[ext2.Num][]ext2.Num
}

type S2 struct {
	F0 map[ext2.Key]S2
	F1 int32
	f2 *map[MyU8]int
	F3 MyU8
	F4 ext.E1
}
