package p

import (
	ext "subj/ext1"
)

type MyF float64

type MyI64 int64

type K0 struct {
}

type S0 struct {
	f0 int16
	*K0
	f2 []ext.Key
}
