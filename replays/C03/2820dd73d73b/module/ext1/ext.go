package ext

type Num int64

type Key struct {
	k0 Num
	K1 string
	K2 Num
}

type E0 struct {
}
