package ext

type Num string

type Key struct {
	K0 Num
	k1 Num
}

type E0 struct {
	F0 Key
}
