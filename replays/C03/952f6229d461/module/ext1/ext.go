package ext

type Num int64

type Key struct {
	k0 uint64
}

type E0 struct {
	f0 uint
}
