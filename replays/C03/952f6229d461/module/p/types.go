package p

type MyF float64

type N0 map[bool]bool

type N1 [][]uint64

type N2 *int32

type K0 struct {
	f0 int32
}

type S0 struct {
	F0 complex64
	F1 MyF
	F2 map[uint8]int8
	F3 int32
	F4 int64
}
