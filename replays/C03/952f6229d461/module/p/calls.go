package p

import (
	ext2 "subj/x/ext"
)

var Anchor = 0

func CompareT0(a *K0, b *K0) int {
	return deriveCompareT0(a, b)
}

func ComparecT0(a *K0, b *K0) int {
	return deriveCompareCT0(a)(b)
}

func EqualT0(a *K0, b *K0) bool {
	return deriveEqualT0(a, b)
}

func CompareT1(a *S0, b *S0) int {
	return deriveCompareT1(a, b)
}

func ComparecT1(a *S0, b *S0) int {
	return deriveCompareCT1(a)(b)
}

func EqualT1(a *S0, b *S0) bool {
	return deriveEqualT1(a, b)
}

func CompareT2(a bool, b bool) int {
	return deriveCompareT2(a, b)
}

func ComparecT2(a bool, b bool) int {
	return deriveCompareCT2(a)(b)
}

func EqualT2(a bool, b bool) bool {
	return deriveEqualT2(a, b)
}

func CompareT3(a ext2.Num, b ext2.Num) int {
	return deriveCompareT3(a, b)
}

func ComparecT3(a ext2.Num, b ext2.Num) int {
	return deriveCompareCT3(a)(b)
}

func EqualT3(a ext2.Num, b ext2.Num) bool {
	return deriveEqualT3(a, b)
}

func CompareT4(a map[string]N2, b map[string]N2) int {
	return deriveCompareT4(a, b)
}

func ComparecT4(a map[string]N2, b map[string]N2) int {
	return deriveCompareCT4(a)(b)
}

func EqualT4(a map[string]N2, b map[string]N2) bool {
	return deriveEqualT4(a, b)
}

func CompareT5(a uint64, b uint64) int {
	return deriveCompareT5(a, b)
}

func ComparecT5(a uint64, b uint64) int {
	return deriveCompareCT5(a)(b)
}

func EqualT5(a uint64, b uint64) bool {
	return deriveEqualT5(a, b)
}

func CompareT6(a uint8, b uint8) int {
	return deriveCompareT6(a, b)
}

func ComparecT6(a uint8, b uint8) int {
	return deriveCompareCT6(a)(b)
}

func EqualT6(a uint8, b uint8) bool {
	return deriveEqualT6(a, b)
}

func CompareT7(a map[complex128][]N0, b map[complex128][]N0) int {
	return deriveCompareT7(a, b)
}

func ComparecT7(a map[complex128][]N0, b map[complex128][]N0) int {
	return deriveCompareCT7(a)(b)
}

func EqualT7(a map[complex128][]N0, b map[complex128][]N0) bool {
	return deriveEqualT7(a, b)
}

func CompareT8(a *[][3]N0, b *[][3]N0) int {
	return deriveCompareT8(a, b)
}

func ComparecT8(a *[][3]N0, b *[][3]N0) int {
	return deriveCompareCT8(a)(b)
}

func EqualT8(a *[][3]N0, b *[][3]N0) bool {
	return deriveEqualT8(a, b)
}

func CompareT9(a map[ext2.Num]int16, b map[ext2.Num]int16) int {
	return deriveCompareT9(a, b)
}

func ComparecT9(a map[ext2.Num]int16, b map[ext2.Num]int16) int {
	return deriveCompareCT9(a)(b)
}

func EqualT9(a map[ext2.Num]int16, b map[ext2.Num]int16) bool {
	return deriveEqualT9(a, b)
}

func CompareT10(a int16, b int16) int {
	return deriveCompareT10(a, b)
}

func ComparecT10(a int16, b int16) int {
	return deriveCompareCT10(a)(b)
}

func EqualT10(a int16, b int16) bool {
	return deriveEqualT10(a, b)
}

func CompareT11(a []int32, b []int32) int {
	return deriveCompareT11(a, b)
}

func ComparecT11(a []int32, b []int32) int {
	return deriveCompareCT11(a)(b)
}

func EqualT11(a []int32, b []int32) bool {
	return deriveEqualT11(a, b)
}

func CompareT12(a map[int]N0, b map[int]N0) int {
	return deriveCompareT12(a, b)
}

func ComparecT12(a map[int]N0, b map[int]N0) int {
	return deriveCompareCT12(a)(b)
}

func EqualT12(a map[int]N0, b map[int]N0) bool {
	return deriveEqualT12(a, b)
}

func CompareT13(a *ext2.Num, b *ext2.Num) int {
	return deriveCompareT13(a, b)
}

func ComparecT13(a *ext2.Num, b *ext2.Num) int {
	return deriveCompareCT13(a)(b)
}

func EqualT13(a *ext2.Num, b *ext2.Num) bool {
	return deriveEqualT13(a, b)
}
