package p

import (
	ext "subj/ext1"
	ext2 "subj/x/ext"
)

type MyU8 uint8

type MyF32 float32

type MyInt int

type MyF float64

type N0 [3]uint8

type N1 *uint32

type N2 [][]int16

type K0 struct {
	F0 string
	F1 bool
	f2 ext2.Key
}

type S0 struct {
	*K0
	F1 map[ext.Num]N1
}
