package ext

import (
	ext "subj/ext1"
)

type Num int

type Key struct {
	K0 uint64
	K1 int
	k2 bool
}

type E0 struct {
	f0 bool
	f1 ext.Key
	F2 *E0
}

type E1 struct {
	F0 complex64
}
