package p

import (
	ext "subj/ext1"
	other "subj/x/other"
)

var Anchor = 0

func CompareT0(a string, b string) int {
	return deriveCompareT0(a, b)
}

func ComparecT0(a string, b string) int {
	return deriveCompareCT0(a)(b)
}

func EqualT0(a string, b string) bool {
	return deriveEqualT0(a, b)
}

func CompareT1(a float64, b float64) int {
	return deriveCompareT1(a, b)
}

func ComparecT1(a float64, b float64) int {
	return deriveCompareCT1(a)(b)
}

func EqualT1(a float64, b float64) bool {
	return deriveEqualT1(a, b)
}

func CompareT2(a bool, b bool) int {
	return deriveCompareT2(a, b)
}

func ComparecT2(a bool, b bool) int {
	return deriveCompareCT2(a)(b)
}

func EqualT2(a bool, b bool) bool {
	return deriveEqualT2(a, b)
}

func CompareT3(a byte, b byte) int {
	return deriveCompareT3(a, b)
}

func ComparecT3(a byte, b byte) int {
	return deriveCompareCT3(a)(b)
}

func EqualT3(a byte, b byte) bool {
	return deriveEqualT3(a, b)
}

func CompareT4(a MyInt, b MyInt) int {
	return deriveCompareT4(a, b)
}

func ComparecT4(a MyInt, b MyInt) int {
	return deriveCompareCT4(a)(b)
}

func EqualT4(a MyInt, b MyInt) bool {
	return deriveEqualT4(a, b)
}

func CompareT5(a S0, b S0) int {
	return deriveCompareT5(a, b)
}

func ComparecT5(a S0, b S0) int {
	return deriveCompareCT5(a)(b)
}

func EqualT5(a S0, b S0) bool {
	return deriveEqualT5(a, b)
}

func CompareT6(a ext.E0, b ext.E0) int {
	return deriveCompareT6(a, b)
}

func ComparecT6(a ext.E0, b ext.E0) int {
	return deriveCompareCT6(a)(b)
}

func EqualT6(a ext.E0, b ext.E0) bool {
	return deriveEqualT6(a, b)
}

func CompareT7(a R, b R) int {
	return deriveCompareT7(a, b)
}

func ComparecT7(a R, b R) int {
	return deriveCompareCT7(a)(b)
}

func EqualT7(a R, b R) bool {
	return deriveEqualT7(a, b)
}

func CompareT8(a other.O0, b other.O0) int {
	return deriveCompareT8(a, b)
}

func ComparecT8(a other.O0, b other.O0) int {
	return deriveCompareCT8(a)(b)
}

func EqualT8(a other.O0, b other.O0) bool {
	return deriveEqualT8(a, b)
}

func CompareT9(a *int, b *int) int {
	return deriveCompareT9(a, b)
}

func ComparecT9(a *int, b *int) int {
	return deriveCompareCT9(a)(b)
}

func EqualT9(a *int, b *int) bool {
	return deriveEqualT9(a, b)
}

func CompareT10(a []int, b []int) int {
	return deriveCompareT10(a, b)
}

func ComparecT10(a []int, b []int) int {
	return deriveCompareCT10(a)(b)
}

func EqualT10(a []int, b []int) bool {
	return deriveEqualT10(a, b)
}

func CompareT11(a [2]int, b [2]int) int {
	return deriveCompareT11(a, b)
}

func ComparecT11(a [2]int, b [2]int) int {
	return deriveCompareCT11(a)(b)
}

func EqualT11(a [2]int, b [2]int) bool {
	return deriveEqualT11(a, b)
}

func CompareT12(a map[string]int, b map[string]int) int {
	return deriveCompareT12(a, b)
}

func ComparecT12(a map[string]int, b map[string]int) int {
	return deriveCompareCT12(a)(b)
}

func EqualT12(a map[string]int, b map[string]int) bool {
	return deriveEqualT12(a, b)
}

func CompareT13(a map[K0]int, b map[K0]int) int {
	return deriveCompareT13(a, b)
}

func ComparecT13(a map[K0]int, b map[K0]int) int {
	return deriveCompareCT13(a)(b)
}

func EqualT13(a map[K0]int, b map[K0]int) bool {
	return deriveEqualT13(a, b)
}
