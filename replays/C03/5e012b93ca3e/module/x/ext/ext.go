package ext

import (
	ext "subj/ext1"
)

type Num float64

type Key struct {
	K0 float32
	k1 uint8
}

type E0 struct {
	f0 Key
	f1 uintptr
	f2 int
}

type E1 struct {
	f0 Num
	f1 bool
	f2 *E0
	F3 map[int]ext.Key
}
