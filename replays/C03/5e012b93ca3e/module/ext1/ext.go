package ext

type Num int

type Key struct {
	K0 float32
	k1 int32
	k2 bool
}

type E0 struct {
	F0 map[Key]Num
}
