package p

import (
	ext2 "subj/x/ext"
)

type MyF float64

type MyI64 int64

type N0 *uint32

type N1 map[float64]byte

type K0 struct {
	F0 bool
	F1 MyF
}

type S0 struct {
	F0 int
	F1 map[[2]ext2.Num]S0
}
