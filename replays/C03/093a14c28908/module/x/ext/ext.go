package ext

import (
	ext "subj/ext1"
)

type Num int

type Key struct {
	k0 uint
	k1 int
}

type E0 struct {
	f0 [2][]uint64
	F1 map[uint]ext.Key
	F2 float64
	f3 []byte
}
