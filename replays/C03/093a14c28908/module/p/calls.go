package p

import (
	ext "subj/ext1"
)

var Anchor = 0

func CompareT0(a *K0, b *K0) int {
	return deriveCompareT0(a, b)
}

func ComparecT0(a *K0, b *K0) int {
	return deriveCompareCT0(a)(b)
}

func EqualT0(a *K0, b *K0) bool {
	return deriveEqualT0(a, b)
}

func CompareT1(a *S0, b *S0) int {
	return deriveCompareT1(a, b)
}

func ComparecT1(a *S0, b *S0) int {
	return deriveCompareCT1(a)(b)
}

func EqualT1(a *S0, b *S0) bool {
	return deriveEqualT1(a, b)
}

func CompareT2(a map[MyF]K0, b map[MyF]K0) int {
	return deriveCompareT2(a, b)
}

func ComparecT2(a map[MyF]K0, b map[MyF]K0) int {
	return deriveCompareCT2(a)(b)
}

func EqualT2(a map[MyF]K0, b map[MyF]K0) bool {
	return deriveEqualT2(a, b)
}

func CompareT3(a *S2, b *S2) int {
	return deriveCompareT3(a, b)
}

func ComparecT3(a *S2, b *S2) int {
	return deriveCompareCT3(a)(b)
}

func EqualT3(a *S2, b *S2) bool {
	return deriveEqualT3(a, b)
}

func CompareT4(a S3, b S3) int {
	return deriveCompareT4(a, b)
}

func ComparecT4(a S3, b S3) int {
	return deriveCompareCT4(a)(b)
}

func EqualT4(a S3, b S3) bool {
	return deriveEqualT4(a, b)
}

func CompareT5(a map[[1]bool]rune, b map[[1]bool]rune) int {
	return deriveCompareT5(a, b)
}

func ComparecT5(a map[[1]bool]rune, b map[[1]bool]rune) int {
	return deriveCompareCT5(a)(b)
}

func EqualT5(a map[[1]bool]rune, b map[[1]bool]rune) bool {
	return deriveEqualT5(a, b)
}

func CompareT6(a MyF, b MyF) int {
	return deriveCompareT6(a, b)
}

func ComparecT6(a MyF, b MyF) int {
	return deriveCompareCT6(a)(b)
}

func EqualT6(a MyF, b MyF) bool {
	return deriveEqualT6(a, b)
}

func CompareT7(a map[uint64]bool, b map[uint64]bool) int {
	return deriveCompareT7(a, b)
}

func ComparecT7(a map[uint64]bool, b map[uint64]bool) int {
	return deriveCompareCT7(a)(b)
}

func EqualT7(a map[uint64]bool, b map[uint64]bool) bool {
	return deriveEqualT7(a, b)
}

func CompareT8(a uint64, b uint64) int {
	return deriveCompareT8(a, b)
}

func ComparecT8(a uint64, b uint64) int {
	return deriveCompareCT8(a)(b)
}

func EqualT8(a uint64, b uint64) bool {
	return deriveEqualT8(a, b)
}

func CompareT9(a []S2, b []S2) int {
	return deriveCompareT9(a, b)
}

func ComparecT9(a []S2, b []S2) int {
	return deriveCompareCT9(a)(b)
}

func EqualT9(a []S2, b []S2) bool {
	return deriveEqualT9(a, b)
}

func CompareT10(a ext.E1, b ext.E1) int {
	return deriveCompareT10(a, b)
}

func ComparecT10(a ext.E1, b ext.E1) int {
	return deriveCompareCT10(a)(b)
}

func EqualT10(a ext.E1, b ext.E1) bool {
	return deriveEqualT10(a, b)
}

func CompareT11(a ext.Num, b ext.Num) int {
	return deriveCompareT11(a, b)
}

func ComparecT11(a ext.Num, b ext.Num) int {
	return deriveCompareCT11(a)(b)
}

func EqualT11(a ext.Num, b ext.Num) bool {
	return deriveEqualT11(a, b)
}

func CompareT12(a map[rune]ext.Num, b map[rune]ext.Num) int {
	return deriveCompareT12(a, b)
}

func ComparecT12(a map[rune]ext.Num, b map[rune]ext.Num) int {
	return deriveCompareCT12(a)(b)
}

func EqualT12(a map[rune]ext.Num, b map[rune]ext.Num) bool {
	return deriveEqualT12(a, b)
}

func CompareT13(a complex64, b complex64) int {
	return deriveCompareT13(a, b)
}

func ComparecT13(a complex64, b complex64) int {
	return deriveCompareCT13(a)(b)
}

func EqualT13(a complex64, b complex64) bool {
	return deriveEqualT13(a, b)
}
