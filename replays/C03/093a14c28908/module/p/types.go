package p

import (
	ext2 "subj/x/ext"
)

type MyF float64

type K0 struct {
	f0 ext2.Num
}

type S0 struct {
}

type S1 struct {
	f0 map[MyF][]byte
	*K0
}

type S2 struct {
	S0
	F1 string
	f2 []S2
}

type S3 struct {
	S1
	S2
	f2 ext2.Num
}

type S4 struct {
	F0 map[K0]S1
	*S3
	F2 map[uint16][][]uint
	F3 uint
	f4 string
}
