package ext

type Num int64

type Key struct {
	K0 uint64
}

type E0 struct {
	F0 **E0
}

type E1 struct {
}
