package ext

import (
	ext "subj/ext1"
)

type Num string

type Key struct {
	K0 float32
}

type E0 struct {
	f0 int
	f1 *ext.E1
	f2 bool
}

type E1 struct {
	f0 E0
}
