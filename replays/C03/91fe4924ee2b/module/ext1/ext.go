package ext

type Num float64

type Key struct {
	K0 float64
	K1 uint
	k2 float64
}

type E0 struct {
	f0 [][0]uint64
	f1 map[Key]uint32
	f2 *E0
	F3 []Key
}

type E1 struct {
	f0 []byte
	f1 E0
	f2 Num
}
