package p

import (
	ext2 "subj/x/ext"
)

var Anchor = 0

func CompareT0(a K0, b K0) int {
	return deriveCompareT0(a, b)
}

func ComparecT0(a K0, b K0) int {
	return deriveCompareCT0(a)(b)
}

func EqualT0(a K0, b K0) bool {
	return deriveEqualT0(a, b)
}

func CompareT1(a *K1, b *K1) int {
	return deriveCompareT1(a, b)
}

func ComparecT1(a *K1, b *K1) int {
	return deriveCompareCT1(a)(b)
}

func EqualT1(a *K1, b *K1) bool {
	return deriveEqualT1(a, b)
}

func CompareT2(a S0, b S0) int {
	return deriveCompareT2(a, b)
}

func ComparecT2(a S0, b S0) int {
	return deriveCompareCT2(a)(b)
}

func EqualT2(a S0, b S0) bool {
	return deriveEqualT2(a, b)
}

func CompareT3(a map[int8]MyI64, b map[int8]MyI64) int {
	return deriveCompareT3(a, b)
}

func ComparecT3(a map[int8]MyI64, b map[int8]MyI64) int {
	return deriveCompareCT3(a)(b)
}

func EqualT3(a map[int8]MyI64, b map[int8]MyI64) bool {
	return deriveEqualT3(a, b)
}

func CompareT4(a map[K0]string, b map[K0]string) int {
	return deriveCompareT4(a, b)
}

func ComparecT4(a map[K0]string, b map[K0]string) int {
	return deriveCompareCT4(a)(b)
}

func EqualT4(a map[K0]string, b map[K0]string) bool {
	return deriveEqualT4(a, b)
}

func CompareT5(a ext2.Num, b ext2.Num) int {
	return deriveCompareT5(a, b)
}

func ComparecT5(a ext2.Num, b ext2.Num) int {
	return deriveCompareCT5(a)(b)
}

func EqualT5(a ext2.Num, b ext2.Num) bool {
	return deriveEqualT5(a, b)
}

func CompareT6(a ext2.E0, b ext2.E0) int {
	return deriveCompareT6(a, b)
}

func ComparecT6(a ext2.E0, b ext2.E0) int {
	return deriveCompareCT6(a)(b)
}

func EqualT6(a ext2.E0, b ext2.E0) bool {
	return deriveEqualT6(a, b)
}

func CompareT7(a []rune, b []rune) int {
	return deriveCompareT7(a, b)
}

func ComparecT7(a []rune, b []rune) int {
	return deriveCompareCT7(a)(b)
}

func EqualT7(a []rune, b []rune) bool {
	return deriveEqualT7(a, b)
}

func CompareT8(a int, b int) int {
	return deriveCompareT8(a, b)
}

func ComparecT8(a int, b int) int {
	return deriveCompareCT8(a)(b)
}

func EqualT8(a int, b int) bool {
	return deriveEqualT8(a, b)
}

func CompareT9(a int16, b int16) int {
	return deriveCompareT9(a, b)
}

func ComparecT9(a int16, b int16) int {
	return deriveCompareCT9(a)(b)
}

func EqualT9(a int16, b int16) bool {
	return deriveEqualT9(a, b)
}

func CompareT10(a *N0, b *N0) int {
	return deriveCompareT10(a, b)
}

func ComparecT10(a *N0, b *N0) int {
	return deriveCompareCT10(a)(b)
}

func EqualT10(a *N0, b *N0) bool {
	return deriveEqualT10(a, b)
}

func CompareT11(a MyI64, b MyI64) int {
	return deriveCompareT11(a, b)
}

func ComparecT11(a MyI64, b MyI64) int {
	return deriveCompareCT11(a)(b)
}

func EqualT11(a MyI64, b MyI64) bool {
	return deriveEqualT11(a, b)
}

func CompareT12(a uint16, b uint16) int {
	return deriveCompareT12(a, b)
}

func ComparecT12(a uint16, b uint16) int {
	return deriveCompareCT12(a)(b)
}

func EqualT12(a uint16, b uint16) bool {
	return deriveEqualT12(a, b)
}

func CompareT13(a bool, b bool) int {
	return deriveCompareT13(a, b)
}

func ComparecT13(a bool, b bool) int {
	return deriveCompareCT13(a)(b)
}

func EqualT13(a bool, b bool) bool {
	return deriveEqualT13(a, b)
}
