package p

import (
	ext "subj/ext1"
	ext2 "subj/x/ext"
)

type MyI64 int64

type N0 [1]int

type N1 map[int]rune

type N2 *uint32

type K0 struct {
	F0 MyI64
	F1 ext.Key
}

type K1 struct {
	F0 string
}

type S0 struct {
	f0 ext.E1
	F1 ext2.E1
	F2 uint
}
