package p

import (
	ext "subj/ext1"
)

type MyInt int

type MyF float64

type MyI64 int64

type N0 [1]uintptr

type N1 [][]uint32

type N2 [0]MyI64

type K0 struct {
	f0 rune
	F1 string
}

type K1 struct {
	F0 ext.Num
	F1 bool
	F2 string
}

type S0 struct {
	F0 []K1
}

type S1 struct {
}
