package p

import (
	ext "subj/ext1"
	other "subj/x/other"
)

var Anchor = 0

func CompareT0(a *K0, b *K0) int {
	return deriveCompareT0(a, b)
}

func ComparecT0(a *K0, b *K0) int {
	return deriveCompareCT0(a)(b)
}

func EqualT0(a *K0, b *K0) bool {
	return deriveEqualT0(a, b)
}

func CompareT1(a other.Num, b other.Num) int {
	return deriveCompareT1(a, b)
}

func ComparecT1(a other.Num, b other.Num) int {
	return deriveCompareCT1(a)(b)
}

func EqualT1(a other.Num, b other.Num) bool {
	return deriveEqualT1(a, b)
}

func CompareT2(a S0, b S0) int {
	return deriveCompareT2(a, b)
}

func ComparecT2(a S0, b S0) int {
	return deriveCompareCT2(a)(b)
}

func EqualT2(a S0, b S0) bool {
	return deriveEqualT2(a, b)
}

func CompareT3(a S1, b S1) int {
	return deriveCompareT3(a, b)
}

func ComparecT3(a S1, b S1) int {
	return deriveCompareCT3(a)(b)
}

func EqualT3(a S1, b S1) bool {
	return deriveEqualT3(a, b)
}

func CompareT4(a *uintptr, b *uintptr) int {
	return deriveCompareT4(a, b)
}

func ComparecT4(a *uintptr, b *uintptr) int {
	return deriveCompareCT4(a)(b)
}

func EqualT4(a *uintptr, b *uintptr) bool {
	return deriveEqualT4(a, b)
}

func CompareT5(a [1]ext.Num, b [1]ext.Num) int {
	return deriveCompareT5(a, b)
}

func ComparecT5(a [1]ext.Num, b [1]ext.Num) int {
	return deriveCompareCT5(a)(b)
}

func EqualT5(a [1]ext.Num, b [1]ext.Num) bool {
	return deriveEqualT5(a, b)
}

func CompareT6(a other.Key, b other.Key) int {
	return deriveCompareT6(a, b)
}

func ComparecT6(a other.Key, b other.Key) int {
	return deriveCompareCT6(a)(b)
}

func EqualT6(a other.Key, b other.Key) bool {
	return deriveEqualT6(a, b)
}

func CompareT7(a bool, b bool) int {
	return deriveCompareT7(a, b)
}

func ComparecT7(a bool, b bool) int {
	return deriveCompareCT7(a)(b)
}

func EqualT7(a bool, b bool) bool {
	return deriveEqualT7(a, b)
}

func CompareT8(a map[K1]rune, b map[K1]rune) int {
	return deriveCompareT8(a, b)
}

func ComparecT8(a map[K1]rune, b map[K1]rune) int {
	return deriveCompareCT8(a)(b)
}

func EqualT8(a map[K1]rune, b map[K1]rune) bool {
	return deriveEqualT8(a, b)
}

func CompareT9(a *N1, b *N1) int {
	return deriveCompareT9(a, b)
}

func ComparecT9(a *N1, b *N1) int {
	return deriveCompareCT9(a)(b)
}

func EqualT9(a *N1, b *N1) bool {
	return deriveEqualT9(a, b)
}

func CompareT10(a *int16, b *int16) int {
	return deriveCompareT10(a, b)
}

func ComparecT10(a *int16, b *int16) int {
	return deriveCompareCT10(a)(b)
}

func EqualT10(a *int16, b *int16) bool {
	return deriveEqualT10(a, b)
}

func CompareT11(a *float32, b *float32) int {
	return deriveCompareT11(a, b)
}

func ComparecT11(a *float32, b *float32) int {
	return deriveCompareCT11(a)(b)
}

func EqualT11(a *float32, b *float32) bool {
	return deriveEqualT11(a, b)
}

func CompareT12(a N1, b N1) int {
	return deriveCompareT12(a, b)
}

func ComparecT12(a N1, b N1) int {
	return deriveCompareCT12(a)(b)
}

func EqualT12(a N1, b N1) bool {
	return deriveEqualT12(a, b)
}

func CompareT13(a uint32, b uint32) int {
	return deriveCompareT13(a, b)
}

func ComparecT13(a uint32, b uint32) int {
	return deriveCompareCT13(a)(b)
}

func EqualT13(a uint32, b uint32) bool {
	return deriveEqualT13(a, b)
}
