package ext

type Num float64

type Key struct {
	K0 uint64
}

type E0 struct {
	f0 int16
	f1 Key
	f2 uint64
	f3 *Key
}

type E1 struct {
	f0 bool
	f1 string
	f2 *E1
}
