package other

type Num int

type Key struct {
	k0 uint
	K1 int8
}

type E0 struct {
	f0 float64
}

type E1 struct {
	f0 *Num
	f1 map[Key]rune
}
