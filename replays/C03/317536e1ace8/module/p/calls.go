package p

import (
	ext "subj/ext1"
	ext2 "subj/x/ext"
)

var Anchor = 0

func CompareT0(a [2]ext2.E0, b [2]ext2.E0) int {
	return deriveCompareT0(a, b)
}

func ComparecT0(a [2]ext2.E0, b [2]ext2.E0) int {
	return deriveCompareCT0(a)(b)
}

func EqualT0(a [2]ext2.E0, b [2]ext2.E0) bool {
	return deriveEqualT0(a, b)
}

func CompareT1(a *K0, b *K0) int {
	return deriveCompareT1(a, b)
}

func ComparecT1(a *K0, b *K0) int {
	return deriveCompareCT1(a)(b)
}

func EqualT1(a *K0, b *K0) bool {
	return deriveEqualT1(a, b)
}

func CompareT2(a S1, b S1) int {
	return deriveCompareT2(a, b)
}

func ComparecT2(a S1, b S1) int {
	return deriveCompareCT2(a)(b)
}

func EqualT2(a S1, b S1) bool {
	return deriveEqualT2(a, b)
}

func CompareT3(a S2, b S2) int {
	return deriveCompareT3(a, b)
}

func ComparecT3(a S2, b S2) int {
	return deriveCompareCT3(a)(b)
}

func EqualT3(a S2, b S2) bool {
	return deriveEqualT3(a, b)
}

func CompareT4(a *S3, b *S3) int {
	return deriveCompareT4(a, b)
}

func ComparecT4(a *S3, b *S3) int {
	return deriveCompareCT4(a)(b)
}

func EqualT4(a *S3, b *S3) bool {
	return deriveEqualT4(a, b)
}

func CompareT5(a uint, b uint) int {
	return deriveCompareT5(a, b)
}

func ComparecT5(a uint, b uint) int {
	return deriveCompareCT5(a)(b)
}

func EqualT5(a uint, b uint) bool {
	return deriveEqualT5(a, b)
}

func CompareT6(a ext.Num, b ext.Num) int {
	return deriveCompareT6(a, b)
}

func ComparecT6(a ext.Num, b ext.Num) int {
	return deriveCompareCT6(a)(b)
}

func EqualT6(a ext.Num, b ext.Num) bool {
	return deriveEqualT6(a, b)
}

func CompareT7(a map[[0]K0]S2, b map[[0]K0]S2) int {
	return deriveCompareT7(a, b)
}

func ComparecT7(a map[[0]K0]S2, b map[[0]K0]S2) int {
	return deriveCompareCT7(a)(b)
}

func EqualT7(a map[[0]K0]S2, b map[[0]K0]S2) bool {
	return deriveEqualT7(a, b)
}

func CompareT8(a map[float64]int32, b map[float64]int32) int {
	return deriveCompareT8(a, b)
}

func ComparecT8(a map[float64]int32, b map[float64]int32) int {
	return deriveCompareCT8(a)(b)
}

func EqualT8(a map[float64]int32, b map[float64]int32) bool {
	return deriveEqualT8(a, b)
}

func CompareT9(a bool, b bool) int {
	return deriveCompareT9(a, b)
}

func ComparecT9(a bool, b bool) int {
	return deriveCompareCT9(a)(b)
}

func EqualT9(a bool, b bool) bool {
	return deriveEqualT9(a, b)
}

func CompareT10(a N0, b N0) int {
	return deriveCompareT10(a, b)
}

func ComparecT10(a N0, b N0) int {
	return deriveCompareCT10(a)(b)
}

func EqualT10(a N0, b N0) bool {
	return deriveEqualT10(a, b)
}

func CompareT11(a map[float32]ext.Key, b map[float32]ext.Key) int {
	return deriveCompareT11(a, b)
}

func ComparecT11(a map[float32]ext.Key, b map[float32]ext.Key) int {
	return deriveCompareCT11(a)(b)
}

func EqualT11(a map[float32]ext.Key, b map[float32]ext.Key) bool {
	return deriveEqualT11(a, b)
}

func CompareT12(a *float64, b *float64) int {
	return deriveCompareT12(a, b)
}

func ComparecT12(a *float64, b *float64) int {
	return deriveCompareCT12(a)(b)
}

func EqualT12(a *float64, b *float64) bool {
	return deriveEqualT12(a, b)
}

func CompareT13(a ext2.Key, b ext2.Key) int {
	return deriveCompareT13(a, b)
}

func ComparecT13(a ext2.Key, b ext2.Key) int {
	return deriveCompareCT13(a)(b)
}

func EqualT13(a ext2.Key, b ext2.Key) bool {
	return deriveEqualT13(a, b)
}
