package p

type MyInt int

type MyF float64

type MyI64 int64

type N0 []float64

type K0 struct {
}

type S0 struct {
	K0
	F1 N0
	F2 N0
	F3 int8
}

type S1 struct {
	F0 map[string]map[K0]S0
	F1 rune
	F2 *bool
	F3 []int16
	f4 N0
	f5 int
}

type S2 struct {
	f0 [0]map[[1]K0]S1
}

type S3 struct {
	F0 *[]map[int32]float64
	F1 int
	F2 map[int]int16
}
