package p

import (
	ext "subj/ext1"
	other "subj/x/other"
)

type MyBool bool

type N0 []ext.Num

type N1 *MyBool

type K0 struct {
	F0 int8
	F1 uint
}

type S0 struct {
	*K0
	F1 N1
	F2 []S0
	F3 ext.Key
	F4 []byte
	f5 [1]uint8
}

type S1 struct {
	F0 map[MyBool]S1
	f1 *S1
	f2 other.E0
	S0
	F4 N1
}

type S2 struct {
	F0 complex64
}

type S3 struct {
	F0 map[other.Num]map[MyBool]K0
	*S0
	F2 string
	F3 uint8
	f4 []S0
}
