package ext

type Num int64

type Key struct {
	K0 Num
	k1 uint16
	k2 rune
}

type E0 struct {
}

type E1 struct {
	F0 map[bool]uint32
	f1 int16
}
