package h

import (
	"reflect"

	ext "subj/ext1"
	p "subj/p"
	other "subj/x/other"
)

var _ = p.Anchor

var Registry = []Entry{
	{ID: "T0", Type: reflect.TypeOf((*bool)(nil)).Elem(), TypeStr: "bool",
		Funcs: map[string]any{"compare": p.CompareT0, "comparec": p.ComparecT0, "equal": p.EqualT0},
		Tags:  map[string]string{"comparable": "1", "enumerated": "1"},
	},
	{ID: "T1", Type: reflect.TypeOf((*byte)(nil)).Elem(), TypeStr: "byte",
		Funcs: map[string]any{"compare": p.CompareT1, "comparec": p.ComparecT1, "equal": p.EqualT1},
		Tags:  map[string]string{"basic-ordered": "1", "comparable": "1", "enumerated": "1"},
	},
	{ID: "T2", Type: reflect.TypeOf((*p.MyInt)(nil)).Elem(), TypeStr: "p.MyInt",
		Funcs: map[string]any{"compare": p.CompareT2, "comparec": p.ComparecT2, "equal": p.EqualT2},
		Tags:  map[string]string{"comparable": "1", "enumerated": "1", "f:namedbasic": "1"},
	},
	{ID: "T3", Type: reflect.TypeOf((*p.S0)(nil)).Elem(), TypeStr: "p.S0",
		Funcs: map[string]any{"compare": p.CompareT3, "comparec": p.ComparecT3, "equal": p.EqualT3},
		Tags:  map[string]string{"enumerated": "1", "f:bytes": "1", "f:ptr": "1", "f:slice": "1", "f:string": "1", "f:struct": "1"},
	},
	{ID: "T4", Type: reflect.TypeOf((*ext.E0)(nil)).Elem(), TypeStr: "ext.E0",
		Funcs: map[string]any{"compare": p.CompareT4, "comparec": p.ComparecT4, "equal": p.EqualT4},
		Tags:  map[string]string{"enumerated": "1", "f:ext": "1", "f:ext-private": "1", "f:float": "1", "f:ptr": "1", "f:slice": "1", "f:string": "1", "f:struct": "1"},
	},
	{ID: "T5", Type: reflect.TypeOf((*p.R)(nil)).Elem(), TypeStr: "p.R",
		Funcs: map[string]any{"compare": p.CompareT5, "comparec": p.ComparecT5, "equal": p.EqualT5},
		Tags:  map[string]string{"enumerated": "1", "f:map": "1", "f:ptr": "1", "f:recursive": "1", "f:slice": "1", "f:string": "1", "f:struct": "1"},
	},
	{ID: "T6", Type: reflect.TypeOf((*other.O0)(nil)).Elem(), TypeStr: "other.O0",
		Funcs: map[string]any{"compare": p.CompareT6, "comparec": p.ComparecT6, "equal": p.EqualT6},
		Tags:  map[string]string{"enumerated": "1", "f:ext": "1", "f:namedbasic": "1", "f:slice": "1", "f:string": "1", "f:struct": "1"},
	},
	{ID: "T7", Type: reflect.TypeOf((**int)(nil)).Elem(), TypeStr: "*int",
		Funcs: map[string]any{"compare": p.CompareT7, "comparec": p.ComparecT7, "equal": p.EqualT7},
		Tags:  map[string]string{"enumerated": "1", "f:ptr": "1"},
	},
	{ID: "T8", Type: reflect.TypeOf((*[]int)(nil)).Elem(), TypeStr: "[]int",
		Funcs: map[string]any{"compare": p.CompareT8, "comparec": p.ComparecT8, "equal": p.EqualT8},
		Tags:  map[string]string{"enumerated": "1", "f:slice": "1"},
	},
	{ID: "T9", Type: reflect.TypeOf((*[2]int)(nil)).Elem(), TypeStr: "[2]int",
		Funcs: map[string]any{"compare": p.CompareT9, "comparec": p.ComparecT9, "equal": p.EqualT9},
		Tags:  map[string]string{"comparable": "1", "enumerated": "1", "f:array": "1"},
	},
	{ID: "T10", Type: reflect.TypeOf((*map[string]int)(nil)).Elem(), TypeStr: "map[string]int",
		Funcs: map[string]any{"compare": p.CompareT10, "comparec": p.ComparecT10, "equal": p.EqualT10},
		Tags:  map[string]string{"enumerated": "1", "f:map": "1", "f:string": "1"},
	},
	{ID: "T11", Type: reflect.TypeOf((*map[p.K0]int)(nil)).Elem(), TypeStr: "map[p.K0]int",
		Funcs: map[string]any{"compare": p.CompareT11, "comparec": p.ComparecT11, "equal": p.EqualT11},
		Tags:  map[string]string{"enumerated": "1", "f:map": "1", "f:string": "1", "f:struct": "1", "f:structkey": "1"},
	},
	{ID: "T12", Type: reflect.TypeOf((**string)(nil)).Elem(), TypeStr: "*string",
		Funcs: map[string]any{"compare": p.CompareT12, "comparec": p.ComparecT12, "equal": p.EqualT12},
		Tags:  map[string]string{"enumerated": "1", "f:ptr": "1", "f:string": "1"},
	},
	{ID: "T13", Type: reflect.TypeOf((*[]string)(nil)).Elem(), TypeStr: "[]string",
		Funcs: map[string]any{"compare": p.CompareT13, "comparec": p.ComparecT13, "equal": p.EqualT13},
		Tags:  map[string]string{"enumerated": "1", "f:slice": "1", "f:string": "1"},
	},
}
