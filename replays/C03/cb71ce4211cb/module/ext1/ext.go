package ext

type Num int

type Key struct {
	k0 bool
	k1 Num
	K2 byte
}

type E0 struct {
	F0 *int64
	f1 [2]Key
	f2 uint32
}
