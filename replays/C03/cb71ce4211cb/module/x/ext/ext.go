package ext

type Num int64

type Key struct {
	K0 int32
	k1 Num
	K2 Num
}

type E0 struct {
	F0 uint16
	F1 [1]bool
	F2 *E0
}

type E1 struct {
	f0 E0
	f1 float64
	f2 uint16
	f3 [0]bool
}
