package p

import (
	ext "subj/ext1"
	ext2 "subj/x/ext"
)

type MyStr string

type MyU8 uint8

type N0 []int

type N1 map[ext.Key]int32

type N2 [][]bool

type K0 struct {
	F0 int8
}

type K1 struct {
	F0 int8
	F1 int
	f2 uint64
}

type S0 struct {
	f0 ext2.E1
	F1 int8
	F2 [][]K1
	f3 N2
}

type S1 struct {
}

type S2 struct {
	F0 ext.Num
}

type S3 struct {
	F0 map[MyU8]float64
	F1 rune
	F2 *map[K1]MyU8
	F3 float64
}
