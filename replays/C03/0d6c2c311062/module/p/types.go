package p

import (
	ext "subj/ext1"
	ext2 "subj/x/ext"
)

type MyC complex128

type N0 map[rune]ext2.Num

type N1 []int

type N2 [][]MyC

type K0 struct {
	F0 bool
	f1 MyC
}

type S0 struct {
	K0
	F1 ext2.Num
	F2 MyC
	F3 *complex128
	f4 ext.Key
}

type S1 struct {
	f0 uintptr
	K0
}

type S2 struct {
}
