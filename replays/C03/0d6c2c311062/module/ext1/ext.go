package ext

type Num uint8

type Key struct {
	K0 int32
}

type E0 struct {
	f0 *E0
	f1 rune
	F2 uint64
	f3 [0]bool
}

type E1 struct {
}
