package ext

type Num string

type Key struct {
	k0 string
	K1 int64
	K2 int8
}

type E0 struct {
	F0 bool
	f1 Num
	f2 *E0
	f3 map[Key]map[Key]Num
}
