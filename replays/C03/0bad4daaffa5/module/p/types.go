package p

import (
	ext2 "subj/x/ext"
)

type MyBool bool

type N0 [2]bool

type N1 *bool

type N2 []int64

type K0 struct {
	f0 [2]bool
	f1 ext2.Num
	F2 complex128
}

type K1 struct {
}

type S0 struct {
	F0 uint32
}

type S1 struct {
}

type S2 struct {
	S1
	f1 *S2
	f2 N1
	f3 map[int8][3]*S0
}

type S3 struct {
}
