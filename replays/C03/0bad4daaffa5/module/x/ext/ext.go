package ext

import (
	ext "subj/ext1"
)

type Num float64

type Key struct {
	k0 uint8
	k1 uint16
	K2 uintptr
}

type E0 struct {
	f0 Key
	F1 ext.Num
	f2 *E0
}

type E1 struct {
	f0 byte
	F1 int
}
