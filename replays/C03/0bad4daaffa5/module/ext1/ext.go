package ext

type Num int

type Key struct {
	k0 Num
}

type E0 struct {
	F0 uint8
	F1 int16
	f2 *int64
}
