package p

var Anchor = 0

func CompareT0(a map[K0]*bool, b map[K0]*bool) int {
	return deriveCompareT0(a, b)
}

func ComparecT0(a map[K0]*bool, b map[K0]*bool) int {
	return deriveCompareCT0(a)(b)
}

func EqualT0(a map[K0]*bool, b map[K0]*bool) bool {
	return deriveEqualT0(a, b)
}

func CompareT1(a *[]bool, b *[]bool) int {
	return deriveCompareT1(a, b)
}

func ComparecT1(a *[]bool, b *[]bool) int {
	return deriveCompareCT1(a)(b)
}

func EqualT1(a *[]bool, b *[]bool) bool {
	return deriveEqualT1(a, b)
}

func CompareT2(a [][]bool, b [][]bool) int {
	return deriveCompareT2(a, b)
}

func ComparecT2(a [][]bool, b [][]bool) int {
	return deriveCompareCT2(a)(b)
}

func EqualT2(a [][]bool, b [][]bool) bool {
	return deriveEqualT2(a, b)
}

func CompareT3(a [2][]bool, b [2][]bool) int {
	return deriveCompareT3(a, b)
}

func ComparecT3(a [2][]bool, b [2][]bool) int {
	return deriveCompareCT3(a)(b)
}

func EqualT3(a [2][]bool, b [2][]bool) bool {
	return deriveEqualT3(a, b)
}

func CompareT4(a map[string][]bool, b map[string][]bool) int {
	return deriveCompareT4(a, b)
}

func ComparecT4(a map[string][]bool, b map[string][]bool) int {
	return deriveCompareCT4(a)(b)
}

func EqualT4(a map[string][]bool, b map[string][]bool) bool {
	return deriveEqualT4(a, b)
}

func CompareT5(a map[K0][]bool, b map[K0][]bool) int {
	return deriveCompareT5(a, b)
}

func ComparecT5(a map[K0][]bool, b map[K0][]bool) int {
	return deriveCompareCT5(a)(b)
}

func EqualT5(a map[K0][]bool, b map[K0][]bool) bool {
	return deriveEqualT5(a, b)
}

func CompareT6(a *[2]bool, b *[2]bool) int {
	return deriveCompareT6(a, b)
}

func ComparecT6(a *[2]bool, b *[2]bool) int {
	return deriveCompareCT6(a)(b)
}

func EqualT6(a *[2]bool, b *[2]bool) bool {
	return deriveEqualT6(a, b)
}

func CompareT7(a [][2]bool, b [][2]bool) int {
	return deriveCompareT7(a, b)
}

func ComparecT7(a [][2]bool, b [][2]bool) int {
	return deriveCompareCT7(a)(b)
}

func EqualT7(a [][2]bool, b [][2]bool) bool {
	return deriveEqualT7(a, b)
}

func CompareT8(a [2][2]bool, b [2][2]bool) int {
	return deriveCompareT8(a, b)
}

func ComparecT8(a [2][2]bool, b [2][2]bool) int {
	return deriveCompareCT8(a)(b)
}

func EqualT8(a [2][2]bool, b [2][2]bool) bool {
	return deriveEqualT8(a, b)
}

func CompareT9(a map[string][2]bool, b map[string][2]bool) int {
	return deriveCompareT9(a, b)
}

func ComparecT9(a map[string][2]bool, b map[string][2]bool) int {
	return deriveCompareCT9(a)(b)
}

func EqualT9(a map[string][2]bool, b map[string][2]bool) bool {
	return deriveEqualT9(a, b)
}

func CompareT10(a map[K0][2]bool, b map[K0][2]bool) int {
	return deriveCompareT10(a, b)
}

func ComparecT10(a map[K0][2]bool, b map[K0][2]bool) int {
	return deriveCompareCT10(a)(b)
}

func EqualT10(a map[K0][2]bool, b map[K0][2]bool) bool {
	return deriveEqualT10(a, b)
}

func CompareT11(a *map[string]bool, b *map[string]bool) int {
	return deriveCompareT11(a, b)
}

func ComparecT11(a *map[string]bool, b *map[string]bool) int {
	return deriveCompareCT11(a)(b)
}

func EqualT11(a *map[string]bool, b *map[string]bool) bool {
	return deriveEqualT11(a, b)
}

func CompareT12(a []map[string]bool, b []map[string]bool) int {
	return deriveCompareT12(a, b)
}

func ComparecT12(a []map[string]bool, b []map[string]bool) int {
	return deriveCompareCT12(a)(b)
}

func EqualT12(a []map[string]bool, b []map[string]bool) bool {
	return deriveEqualT12(a, b)
}

func CompareT13(a [2]map[string]bool, b [2]map[string]bool) int {
	return deriveCompareT13(a, b)
}

func ComparecT13(a [2]map[string]bool, b [2]map[string]bool) int {
	return deriveCompareCT13(a)(b)
}

func EqualT13(a [2]map[string]bool, b [2]map[string]bool) bool {
	return deriveEqualT13(a, b)
}
