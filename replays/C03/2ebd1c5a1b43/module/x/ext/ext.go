package ext

type Num int

type Key struct {
	K0 complex128
	k1 int64
	K2 complex128
}

type E0 struct {
	F0 map[Key]uint16
	F1 []int
}
