package p

type MyInt int

type MyF float64

type MyI64 int64

type K0 struct {
	f0 byte
	f1 complex128
}

type K1 struct {
}

type S0 struct {
	F0 int
	F1 string
	K1
	F3 uint8
	F4 int
	F5 int
}

type S1 struct {
	K1
}
