package ext

type Num int

type Key struct {
	K0 float64
	K1 uint
}

type E0 struct {
}

type E1 struct {
	f0 Num
	f1 [0]uint64
	f2 map[Key]uint32
	f3 *E1
}
