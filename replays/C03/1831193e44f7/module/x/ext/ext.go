package ext

import (
	ext "subj/ext1"
)

type Num int

type Key struct {
	k0 bool
	k1 int
	K2 Num
}

type E0 struct {
	F0 ext.E1
	F1 []map[Key]Key
	f2 int16
	f3 ext.Num
}

type E1 struct {
}
