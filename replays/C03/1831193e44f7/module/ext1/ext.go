package ext

type Num int

type Key struct {
	K0 bool
	k1 int8
}

type E0 struct {
	f0 uint32
}

type E1 struct {
}
