package p

import (
	ext "subj/ext1"
	ext2 "subj/x/ext"
)

type MyU8 uint8

type MyF32 float32

type MyInt int

type N0 []byte

type N1 map[K0]int

type K0 struct {
	F0 uint16
	F1 float32
}

type K1 struct {
	F0 ext.Key
	f1 uint16
	f2 MyU8
}

type S0 struct {
	F0 []uint8
	F1 *uint32
	f2 []ext2.Num
	*K0
	F4 int32
	f5 MyU8
}
