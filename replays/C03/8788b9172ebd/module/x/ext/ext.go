package ext

type Num uint8

type Key struct {
	K0 int32
	K1 int
}

type E0 struct {
	F0 rune
}

type E1 struct {
}
