package p

import (
	ext "subj/ext1"
	other "subj/x/other"
)

type MyInt int

type MyF float64

type MyI64 int64

type MyU uint

type N0 []int8

type N1 [2]other.Num

type K0 struct {
}

type K1 struct {
	f0 complex128
	F1 int
	f2 [1]ext.Key
}

type S0 struct {
}

type S1 struct {
	*S0
	F1 map[K0]S0
	*K0
	f3 bool
}
