package other

type Num int64

type Key struct {
	k0 int
}

type E0 struct {
	f0 [0]int8
	F1 Num
}

type E1 struct {
}
