package ext

type Num uint8

type Key struct {
	k0 int64
	K1 float64
}

type E0 struct {
	f0 map[int8]uint32
	F1 uint64
}

type E1 struct {
	f0 E0
	f1 Num
	f2 *int16
}
