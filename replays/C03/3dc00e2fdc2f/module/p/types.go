package p

import (
	ext "subj/ext1"
)

type MyStr string

type MyU8 uint8

type MyF32 float32

type MyInt int

type N0 []MyInt

type K0 struct {
	F0 uint64
	f1 [0]ext.Num
	F2 uint16
}

type S0 struct {
	*K0
	f1 map[K0][0]ext.E0
	F2 []map[K0]map[MyInt]S0
	F3 ext.E1
	F4 uint32
}

type S1 struct {
	F0 int64
	*K0
	f2 N0
}
