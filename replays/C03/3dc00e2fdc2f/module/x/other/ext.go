package other

type Num float64

type Key struct {
	k0 int
	K1 uintptr
}

type E0 struct {
}
