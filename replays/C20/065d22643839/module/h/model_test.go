package h

import (
	"errors"
	"fmt"
	"os"
	"strconv"
	"strings"
	"testing"

	m "subj/modelp"
	"subj/sched"
	"subj/vrep"
)

type dcfg struct {
	n     int
	fails []bool
	rv    [][2]int
}

func (c dcfg) String() string { return fmt.Sprintf("n=%d fails=%v rendezvous=%v", c.n, c.fails, c.rv) }

var merrs = []error{errors.New("error of f0"), errors.New("error of f1"), errors.New("error of f2"), errors.New("error of f3")}

type dobs struct {
	vals    []int
	err     error
	running int
	ret     bool
}

func runDo(s *sched.Sched, c dcfg) *dobs {
	o := &dobs{}
	m.S = s
	s.Run(func() {
		returned := make([]bool, c.n)
		ping := map[int]*sched.Chan[int]{}
		pong := map[int]*sched.Chan[int]{}
		role := map[int]string{}
		for _, pr := range c.rv {
			a, b := sched.Make[int](s, 0), sched.Make[int](s, 0)
			ping[pr[0]], ping[pr[1]] = a, a
			pong[pr[0]], pong[pr[1]] = b, b
			role[pr[0]], role[pr[1]] = "asker", "answerer"
		}
		mk := func(i int) func() (int, error) {
			return func() (int, error) {
				switch role[i] {
				case "asker":
					ping[i].Send(i)
					pong[i].Recv()
				case "answerer":
					ping[i].Recv()
					pong[i].Send(i)
				default:
					s.Yield() // a function takes time: another choice point
				}
				returned[i] = true
				if c.fails[i] {
					return 100 + i, merrs[i]
				}
				return 100 + i, nil
			}
		}
		fs := make([]func() (int, error), c.n)
		for i := range fs {
			fs[i] = mk(i)
		}
		switch c.n {
		case 2:
			a, b, err := m.Do2(fs[0], fs[1])
			o.vals, o.err = []int{a, b}, err
		case 3:
			a, b, d, err := m.Do3(fs[0], fs[1], fs[2])
			o.vals, o.err = []int{a, b, d}, err
		case 4:
			a, b, d, e, err := m.Do4(fs[0], fs[1], fs[2], fs[3])
			o.vals, o.err = []int{a, b, d, e}, err
		}
		o.ret = true
		for i := range returned {
			if !returned[i] {
				o.running++
			}
		}
	})
	return o
}

func judgeDo(c dcfg, s *sched.Sched, o *dobs) (string, string) {
	if len(s.Problems) > 0 {
		return "panic", strings.Join(s.Problems, "; ")
	}
	if s.Deadlock {
		if o.ret {
			return "goroutine-leak", "Do returned but tasks stay blocked: " + strings.Join(s.Blocked, ", ")
		}
		return "deadlock", "no transition enabled: " + strings.Join(s.Blocked, ", ")
	}
	if o.running > 0 {
		return "returned-early", fmt.Sprintf("Do returned while %d functions had not returned", o.running)
	}
	anyFail := false
	for i := 0; i < c.n; i++ {
		if c.fails[i] {
			anyFail = true
		}
		if o.vals[i] != 100+i {
			return "values", fmt.Sprintf("value in position %d is %d, want %d", i, o.vals[i], 100+i)
		}
	}
	if !anyFail && o.err != nil {
		return "error", "all functions succeeded but an error was returned"
	}
	if anyFail {
		ok := false
		for i := 0; i < c.n; i++ {
			if c.fails[i] && o.err == merrs[i] {
				ok = true
			}
		}
		if !ok {
			return "error", fmt.Sprintf("Do returned %v, not one of the errors returned by the failing functions", o.err)
		}
	}
	return "", ""
}

func doConfigs(thorough bool) []dcfg {
	var out []dcfg
	maxN := 3
	if thorough {
		maxN = 4
	}
	for n := 2; n <= maxN; n++ {
		for mask := 0; mask < 1<<n; mask++ {
			fails := make([]bool, n)
			for i := range fails {
				fails[i] = mask&(1<<i) != 0
			}
			out = append(out, dcfg{n, fails, nil})
			for a := 0; a < n; a++ {
				for b := 0; b < n; b++ {
					if a != b {
						out = append(out, dcfg{n, fails, [][2]int{{a, b}}})
					}
				}
			}
		}
	}
	return out
}

// TestHModel enumerates the schedules of the rewritten deriveDo for every failing subset and rendezvous pair.
func TestHModel(t *testing.T) {
	e := &Registry[0]
	thorough := os.Getenv("VERIF_TIER") == "thorough"
	bound := 20000
	if thorough {
		bound = 500000
	}
	shard, _ := strconv.Atoi(os.Getenv("VERIF_MODEL_SHARD"))
	nshards, _ := strconv.Atoi(os.Getenv("VERIF_MODEL_NSHARDS"))
	if nshards == 0 {
		nshards = 1
	}
	exhaustive, truncated := 0, 0
	for ci, c := range doConfigs(thorough) {
		if ci%nshards != shard {
			continue
		}
		ex := &sched.PORExplorer{}
		for {
			s := sched.New(nil)
			s.ChooseT = ex.Chooser()
			o := runDo(s, c)
			rep.Eval()
			if !s.Abandoned {
				if check, msg := judgeDo(c, s, o); check != "" {
					sig := map[string]string{"check": check, "engine": "model-scheduler"}
					v := vrep.Violation{Signature: sig, Message: fmt.Sprintf("type %s (entry %s): %s\n config: %s\n schedule:\n  %s", e.TypeStr, e.ID, msg, c, strings.Join(s.Trace, "\n  "))}
					if fd := findings.Match(property, sig); fd != nil {
						v.Finding = fd.ID
						rep.KnownHit(v)
					} else {
						v.Signature["entry"] = e.ID
						rep.Violate(v)
						t.Errorf("%s", v.Message)
					}
					break
				}
			} else {
				rep.AddExtra("model_runs_cut_by_sleep_sets", 1)
			}
			if !ex.Next() {
				exhaustive++
				break
			}
			if ex.Runs >= bound {
				truncated++
				break
			}
		}
		nf := 0
		for _, f := range c.fails {
			if f {
				nf++
			}
		}
		if (nf >= 1 && len(c.rv) >= 1) || c.n >= 3 {
			rep.NT("model|" + c.String())
		}
		if len(rep.Samples) < 6 && ci%11 == 0 {
			rep.Sample(map[string]any{"engine": "model scheduler", "config": c.String(), "schedules": ex.Runs})
		}
	}
	rep.AddExtra("model_configs_exhaustive", int64(exhaustive))
	rep.AddExtra("model_configs_truncated_at_bound", int64(truncated))
}
