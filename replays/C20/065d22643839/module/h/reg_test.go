package h

import (
	"reflect"

	p "subj/p"
)

var _ = p.Anchor

var Registry = []Entry{
	{ID: "conc", Type: reflect.TypeOf((*p.Item)(nil)).Elem(), TypeStr: "p.Item",
		Funcs: map[string]any{},
		Tags:  map[string]string{},
	},
}
