package ext

type Num int

type Key struct {
	k0 int
	K1 int
	k2 bool
}

type E0 struct {
}
