package p

type MyStr string

type MyU8 uint8

type K0 struct {
}

type K1 struct {
	f0 int
}

type S0 struct {
}
