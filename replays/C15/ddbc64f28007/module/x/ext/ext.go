package ext

type Num int

type Key struct {
	K0 int32
	k1 bool
}

type E0 struct {
}
