package ext

type Num uint8

type Key struct {
	K0 Num
}

type E0 struct {
	F0 int
}
