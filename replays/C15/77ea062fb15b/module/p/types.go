package p

type MyStr string

type MyU8 uint8

type N0 []int

type K0 struct {
}

type K1 struct {
}

type S0 struct {
}

type S1 struct {
}
