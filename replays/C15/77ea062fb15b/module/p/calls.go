package p

import (
	ext "subj/ext1"
)

var Anchor = 0

func CurryT0(f func(interface{}, error, interface{}) error) any {
	return deriveCurryT0(f)
}

func FlipT0(f func(interface{}, error, interface{}) error) any {
	return deriveFlipT0(f)
}

func ApplyT0(f func(interface{}, error, interface{}) error, last interface{}) any {
	return deriveApplyT0(f, last)
}

func UncurryT0(f func(interface{}) func(error, interface{}) error) any {
	return deriveUncurryT0(f)
}

func UncurryCurryT0(f func(interface{}, error, interface{}) error) any {
	return deriveUncurryT0(deriveCurryT0(f))
}

func TupleT0(a0 interface{}, a1 error, a2 interface{}) any {
	return deriveTupleT0(a0, a1, a2)
}

func CurryT1(f func(a error, b interface{}) interface{}) any {
	return deriveCurryT1(f)
}

func FlipT1(f func(a error, b interface{}) interface{}) any {
	return deriveFlipT1(f)
}

func ApplyT1(f func(a error, b interface{}) interface{}, last interface{}) any {
	return deriveApplyT1(f, last)
}

func UncurryT1(f func(a error) func(b interface{}) interface{}) any {
	return deriveUncurryT1(f)
}

func UncurryCurryT1(f func(a error, b interface{}) interface{}) any {
	return deriveUncurryT1(deriveCurryT1(f))
}

func TupleT1(a0 error, a1 interface{}) any {
	return deriveTupleT1(a0, a1)
}

func CurryT2(f func(MyU8, MyU8) (error, error)) any {
	return deriveCurryT2(f)
}

func FlipT2(f func(MyU8, MyU8) (error, error)) any {
	return deriveFlipT2(f)
}

func ApplyT2(f func(MyU8, MyU8) (error, error), last MyU8) any {
	return deriveApplyT2(f, last)
}

func UncurryT2(f func(MyU8) func(MyU8) (error, error)) any {
	return deriveUncurryT2(f)
}

func UncurryCurryT2(f func(MyU8, MyU8) (error, error)) any {
	return deriveUncurryT2(deriveCurryT2(f))
}

func TupleT2(a0 MyU8, a1 MyU8) any {
	return deriveTupleT2(a0, a1)
}

func CurryT3(f func(error, bool, ext.Num) (interface{}, bool)) any {
	return deriveCurryT3(f)
}

func FlipT3(f func(error, bool, ext.Num) (interface{}, bool)) any {
	return deriveFlipT3(f)
}

func ApplyT3(f func(error, bool, ext.Num) (interface{}, bool), last ext.Num) any {
	return deriveApplyT3(f, last)
}

func UncurryT3(f func(error) func(bool, ext.Num) (interface{}, bool)) any {
	return deriveUncurryT3(f)
}

func UncurryCurryT3(f func(error, bool, ext.Num) (interface{}, bool)) any {
	return deriveUncurryT3(deriveCurryT3(f))
}

func TupleT3(a0 error, a1 bool, a2 ext.Num) any {
	return deriveTupleT3(a0, a1, a2)
}

func CurryT4(f func(a error, b error, c interface{}) error) any {
	return deriveCurryT4(f)
}

func FlipT4(f func(a error, b error, c interface{}) error) any {
	return deriveFlipT4(f)
}

func ApplyT4(f func(a error, b error, c interface{}) error, last interface{}) any {
	return deriveApplyT4(f, last)
}

func UncurryT4(f func(a error) func(b error, c interface{}) error) any {
	return deriveUncurryT4(f)
}

func UncurryCurryT4(f func(a error, b error, c interface{}) error) any {
	return deriveUncurryT4(deriveCurryT4(f))
}

func CurryT5(f func(interface{}, interface{}) (interface{}, N0)) any {
	return deriveCurryT5(f)
}

func FlipT5(f func(interface{}, interface{}) (interface{}, N0)) any {
	return deriveFlipT5(f)
}

func ApplyT5(f func(interface{}, interface{}) (interface{}, N0), last interface{}) any {
	return deriveApplyT5(f, last)
}

func UncurryT5(f func(interface{}) func(interface{}) (interface{}, N0)) any {
	return deriveUncurryT5(f)
}

func UncurryCurryT5(f func(interface{}, interface{}) (interface{}, N0)) any {
	return deriveUncurryT5(deriveCurryT5(f))
}

func CurryT6(f func(a N0, _ map[string]int8) (uint8, int)) any {
	return deriveCurryT6(f)
}

func FlipT6(f func(a N0, _ map[string]int8) (uint8, int)) any {
	return deriveFlipT6(f)
}

func ApplyT6(f func(a N0, _ map[string]int8) (uint8, int), last map[string]int8) any {
	return deriveApplyT6(f, last)
}

func UncurryT6(f func(a N0) func(_ map[string]int8) (uint8, int)) any {
	return deriveUncurryT6(f)
}

func UncurryCurryT6(f func(a N0, _ map[string]int8) (uint8, int)) any {
	return deriveUncurryT6(deriveCurryT6(f))
}

func TupleT6(a0 N0, a1 map[string]int8) any {
	return deriveTupleT6(a0, a1)
}

func CurryT7(f func(error, error)) any {
	return deriveCurryT7(f)
}

func FlipT7(f func(error, error)) any {
	return deriveFlipT7(f)
}

func ApplyT7(f func(error, error), last error) any {
	return deriveApplyT7(f, last)
}

func UncurryT7(f func(error) func(error)) any {
	return deriveUncurryT7(f)
}

func UncurryCurryT7(f func(error, error)) any {
	return deriveUncurryT7(deriveCurryT7(f))
}

func CurryT8(f func(a map[ext.Num]S1, b map[ext.Num]S1, c int16) (MyU8, interface{})) any {
	return deriveCurryT8(f)
}

func FlipT8(f func(a map[ext.Num]S1, b map[ext.Num]S1, c int16) (MyU8, interface{})) any {
	return deriveFlipT8(f)
}

func ApplyT8(f func(a map[ext.Num]S1, b map[ext.Num]S1, c int16) (MyU8, interface{}), last int16) any {
	return deriveApplyT8(f, last)
}

func UncurryT8(f func(a map[ext.Num]S1) func(b map[ext.Num]S1, c int16) (MyU8, interface{})) any {
	return deriveUncurryT8(f)
}

func UncurryCurryT8(f func(a map[ext.Num]S1, b map[ext.Num]S1, c int16) (MyU8, interface{})) any {
	return deriveUncurryT8(deriveCurryT8(f))
}

func TupleT8(a0 map[ext.Num]S1, a1 map[ext.Num]S1, a2 int16) any {
	return deriveTupleT8(a0, a1, a2)
}

func CurryT9(f func(a interface{}, b interface{}, c interface{}) error) any {
	return deriveCurryT9(f)
}

func FlipT9(f func(a interface{}, b interface{}, c interface{}) error) any {
	return deriveFlipT9(f)
}

func ApplyT9(f func(a interface{}, b interface{}, c interface{}) error, last interface{}) any {
	return deriveApplyT9(f, last)
}

func UncurryT9(f func(a interface{}) func(b interface{}, c interface{}) error) any {
	return deriveUncurryT9(f)
}

func UncurryCurryT9(f func(a interface{}, b interface{}, c interface{}) error) any {
	return deriveUncurryT9(deriveCurryT9(f))
}

func CurryT10(f func(a error, b interface{})) any {
	return deriveCurryT10(f)
}

func FlipT10(f func(a error, b interface{})) any {
	return deriveFlipT10(f)
}

func ApplyT10(f func(a error, b interface{}), last interface{}) any {
	return deriveApplyT10(f, last)
}

func UncurryT10(f func(a error) func(b interface{})) any {
	return deriveUncurryT10(f)
}

func UncurryCurryT10(f func(a error, b interface{})) any {
	return deriveUncurryT10(deriveCurryT10(f))
}

func CurryT11(f func(interface{}, interface{}) interface{}) any {
	return deriveCurryT11(f)
}

func FlipT11(f func(interface{}, interface{}) interface{}) any {
	return deriveFlipT11(f)
}

func ApplyT11(f func(interface{}, interface{}) interface{}, last interface{}) any {
	return deriveApplyT11(f, last)
}

func UncurryT11(f func(interface{}) func(interface{}) interface{}) any {
	return deriveUncurryT11(f)
}

func UncurryCurryT11(f func(interface{}, interface{}) interface{}) any {
	return deriveUncurryT11(deriveCurryT11(f))
}

func CurryT12(f func(a interface{}, b interface{}) error) any {
	return deriveCurryT12(f)
}

func FlipT12(f func(a interface{}, b interface{}) error) any {
	return deriveFlipT12(f)
}

func ApplyT12(f func(a interface{}, b interface{}) error, last interface{}) any {
	return deriveApplyT12(f, last)
}

func UncurryT12(f func(a interface{}) func(b interface{}) error) any {
	return deriveUncurryT12(f)
}

func UncurryCurryT12(f func(a interface{}, b interface{}) error) any {
	return deriveUncurryT12(deriveCurryT12(f))
}

func CurryT13(f func(a interface{}, b interface{})) any {
	return deriveCurryT13(f)
}

func FlipT13(f func(a interface{}, b interface{})) any {
	return deriveFlipT13(f)
}

func ApplyT13(f func(a interface{}, b interface{}), last interface{}) any {
	return deriveApplyT13(f, last)
}

func UncurryT13(f func(a interface{}) func(b interface{})) any {
	return deriveUncurryT13(f)
}

func UncurryCurryT13(f func(a interface{}, b interface{})) any {
	return deriveUncurryT13(deriveCurryT13(f))
}
