package ext

import (
	ext "subj/ext1"
)

type Num int64

type Key struct {
	k0 Num
}

type E0 struct {
	F0 int
	f1 bool
	f2 ext.Num
}
