package ext

type Num string

type Key struct {
	K0 Num
	K1 Num
}

type E0 struct {
}
