package p

type MyStr string

type N0 map[bool]int

type K0 struct {
}

type S0 struct {
	F0 int
}

type S1 struct {
}
