package p

type MyStr string

type K0 struct {
	F0 bool
}

type K1 struct {
}

type S0 struct {
	f0 bool
}
