package ext

type Num int64

type Key struct {
	k0 Num
}

type E0 struct {
	f0 bool
}

type E1 struct {
	F0 int
}
