package other

type Num int64

type Key struct {
	k0 Num
}

type E0 struct {
}
