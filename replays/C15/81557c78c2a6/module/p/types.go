package p

import (
	ext "subj/ext1"
	other "subj/x/other"
)

type MyInt int

type MyF float64

type MyI64 int64

type MyU uint

type N0 map[other.Num]int

type N1 map[int]int32

type N2 []bool

type K0 struct {
	F0 bool
	f1 string
}

type S0 struct {
	*K0
	F1 int8
	f2 K0
}

type S1 struct {
	K0
	F1 ext.Num
	S0
	f3 int
	f4 int8
	F5 map[bool]S1
}
