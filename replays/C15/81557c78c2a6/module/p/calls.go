package p

import (
	ext "subj/ext1"
	other "subj/x/other"
)

var Anchor = 0

func CurryT0(f func(a map[int]uint64, b interface{}, c error, d error, e interface{})) any {
	return deriveCurryT0(f)
}

func FlipT0(f func(a map[int]uint64, b interface{}, c error, d error, e interface{})) any {
	return deriveFlipT0(f)
}

func ApplyT0(f func(a map[int]uint64, b interface{}, c error, d error, e interface{}), last interface{}) any {
	return deriveApplyT0(f, last)
}

func UncurryT0(f func(a map[int]uint64) func(b interface{}, c error, d error, e interface{})) any {
	return deriveUncurryT0(f)
}

func UncurryCurryT0(f func(a map[int]uint64, b interface{}, c error, d error, e interface{})) any {
	return deriveUncurryT0(deriveCurryT0(f))
}

func TupleT0(a0 map[int]uint64, a1 interface{}, a2 error, a3 error, a4 interface{}) any {
	return deriveTupleT0(a0, a1, a2, a3, a4)
}

func CurryT1(f func(a float64, b int, c interface{}) (int, int, error)) any {
	return deriveCurryT1(f)
}

func FlipT1(f func(a float64, b int, c interface{}) (int, int, error)) any {
	return deriveFlipT1(f)
}

func ApplyT1(f func(a float64, b int, c interface{}) (int, int, error), last interface{}) any {
	return deriveApplyT1(f, last)
}

func UncurryT1(f func(a float64) func(b int, c interface{}) (int, int, error)) any {
	return deriveUncurryT1(f)
}

func UncurryCurryT1(f func(a float64, b int, c interface{}) (int, int, error)) any {
	return deriveUncurryT1(deriveCurryT1(f))
}

func TupleT1(a0 float64, a1 int, a2 interface{}) any {
	return deriveTupleT1(a0, a1, a2)
}

func CurryT2(f func(a other.E0, _ other.E0) (error, error, interface{})) any {
	return deriveCurryT2(f)
}

func FlipT2(f func(a other.E0, _ other.E0) (error, error, interface{})) any {
	return deriveFlipT2(f)
}

func ApplyT2(f func(a other.E0, _ other.E0) (error, error, interface{}), last other.E0) any {
	return deriveApplyT2(f, last)
}

func UncurryT2(f func(a other.E0) func(_ other.E0) (error, error, interface{})) any {
	return deriveUncurryT2(f)
}

func UncurryCurryT2(f func(a other.E0, _ other.E0) (error, error, interface{})) any {
	return deriveUncurryT2(deriveCurryT2(f))
}

func TupleT2(a0 other.E0, a1 other.E0) any {
	return deriveTupleT2(a0, a1)
}

func CurryT3(f func(float64, S0, float64, ext.Num) (interface{}, error, interface{})) any {
	return deriveCurryT3(f)
}

func FlipT3(f func(float64, S0, float64, ext.Num) (interface{}, error, interface{})) any {
	return deriveFlipT3(f)
}

func ApplyT3(f func(float64, S0, float64, ext.Num) (interface{}, error, interface{}), last ext.Num) any {
	return deriveApplyT3(f, last)
}

func UncurryT3(f func(float64) func(S0, float64, ext.Num) (interface{}, error, interface{})) any {
	return deriveUncurryT3(f)
}

func UncurryCurryT3(f func(float64, S0, float64, ext.Num) (interface{}, error, interface{})) any {
	return deriveUncurryT3(deriveCurryT3(f))
}

func TupleT3(a0 float64, a1 S0, a2 float64, a3 ext.Num) any {
	return deriveTupleT3(a0, a1, a2, a3)
}

func CurryT4(f func(a interface{}, b interface{}) error) any {
	return deriveCurryT4(f)
}

func FlipT4(f func(a interface{}, b interface{}) error) any {
	return deriveFlipT4(f)
}

func ApplyT4(f func(a interface{}, b interface{}) error, last interface{}) any {
	return deriveApplyT4(f, last)
}

func UncurryT4(f func(a interface{}) func(a interface{}) error) any {
	return deriveUncurryT4(f)
}

func UncurryCurryT4(f func(a interface{}, b interface{}) error) any {
	return deriveUncurryT4(deriveCurryT4(f))
}

func CurryT5(f func(error, error, interface{}) interface{}) any {
	return deriveCurryT5(f)
}

func FlipT5(f func(error, error, interface{}) interface{}) any {
	return deriveFlipT5(f)
}

func ApplyT5(f func(error, error, interface{}) interface{}, last interface{}) any {
	return deriveApplyT5(f, last)
}

func UncurryT5(f func(error) func(error, interface{}) interface{}) any {
	return deriveUncurryT5(f)
}

func UncurryCurryT5(f func(error, error, interface{}) interface{}) any {
	return deriveUncurryT5(deriveCurryT5(f))
}

func TupleT5(a0 error, a1 error, a2 interface{}) any {
	return deriveTupleT5(a0, a1, a2)
}

func CurryT6(f func(error, error)) any {
	return deriveCurryT6(f)
}

func FlipT6(f func(error, error)) any {
	return deriveFlipT6(f)
}

func ApplyT6(f func(error, error), last error) any {
	return deriveApplyT6(f, last)
}

func UncurryT6(f func(error) func(error)) any {
	return deriveUncurryT6(f)
}

func UncurryCurryT6(f func(error, error)) any {
	return deriveUncurryT6(deriveCurryT6(f))
}

func TupleT6(a0 error, a1 error) any {
	return deriveTupleT6(a0, a1)
}

func CurryT7(f func(error, error) error) any {
	return deriveCurryT7(f)
}

func FlipT7(f func(error, error) error) any {
	return deriveFlipT7(f)
}

func ApplyT7(f func(error, error) error, last error) any {
	return deriveApplyT7(f, last)
}

func UncurryT7(f func(error) func(error) error) any {
	return deriveUncurryT7(f)
}

func UncurryCurryT7(f func(error, error) error) any {
	return deriveUncurryT7(deriveCurryT7(f))
}

func CurryT8(f func(error, error, error)) any {
	return deriveCurryT8(f)
}

func FlipT8(f func(error, error, error)) any {
	return deriveFlipT8(f)
}

func ApplyT8(f func(error, error, error), last error) any {
	return deriveApplyT8(f, last)
}

func UncurryT8(f func(error) func(error, error)) any {
	return deriveUncurryT8(f)
}

func UncurryCurryT8(f func(error, error, error)) any {
	return deriveUncurryT8(deriveCurryT8(f))
}

func CurryT9(f func(interface{}, int)) any {
	return deriveCurryT9(f)
}

func FlipT9(f func(interface{}, int)) any {
	return deriveFlipT9(f)
}

func ApplyT9(f func(interface{}, int), last int) any {
	return deriveApplyT9(f, last)
}

func UncurryT9(f func(interface{}) func(int)) any {
	return deriveUncurryT9(f)
}

func UncurryCurryT9(f func(interface{}, int)) any {
	return deriveUncurryT9(deriveCurryT9(f))
}

func TupleT9(a0 interface{}, a1 int) any {
	return deriveTupleT9(a0, a1)
}

func CurryT10(f func(map[other.Num][]uint, complex64, N0, int)) any {
	return deriveCurryT10(f)
}

func FlipT10(f func(map[other.Num][]uint, complex64, N0, int)) any {
	return deriveFlipT10(f)
}

func ApplyT10(f func(map[other.Num][]uint, complex64, N0, int), last int) any {
	return deriveApplyT10(f, last)
}

func UncurryT10(f func(map[other.Num][]uint) func(complex64, N0, int)) any {
	return deriveUncurryT10(f)
}

func UncurryCurryT10(f func(map[other.Num][]uint, complex64, N0, int)) any {
	return deriveUncurryT10(deriveCurryT10(f))
}

func TupleT10(a0 map[other.Num][]uint, a1 complex64, a2 N0, a3 int) any {
	return deriveTupleT10(a0, a1, a2, a3)
}

func CurryT11(f func(a interface{}, b interface{}, c ext.Num)) any {
	return deriveCurryT11(f)
}

func FlipT11(f func(a interface{}, b interface{}, c ext.Num)) any {
	return deriveFlipT11(f)
}

func ApplyT11(f func(a interface{}, b interface{}, c ext.Num), last ext.Num) any {
	return deriveApplyT11(f, last)
}

func UncurryT11(f func(a interface{}) func(b interface{}, a ext.Num)) any {
	return deriveUncurryT11(f)
}

func UncurryCurryT11(f func(a interface{}, b interface{}, c ext.Num)) any {
	return deriveUncurryT11(deriveCurryT11(f))
}

func CurryT12(f func(N1, int, error, int16, int) interface{}) any {
	return deriveCurryT12(f)
}

func FlipT12(f func(N1, int, error, int16, int) interface{}) any {
	return deriveFlipT12(f)
}

func ApplyT12(f func(N1, int, error, int16, int) interface{}, last int) any {
	return deriveApplyT12(f, last)
}

func UncurryT12(f func(N1) func(int, error, int16, int) interface{}) any {
	return deriveUncurryT12(f)
}

func UncurryCurryT12(f func(N1, int, error, int16, int) interface{}) any {
	return deriveUncurryT12(deriveCurryT12(f))
}

func TupleT12(a0 N1, a1 int, a2 error, a3 int16, a4 int) any {
	return deriveTupleT12(a0, a1, a2, a3, a4)
}

func CurryT13(f func(interface{}, interface{})) any {
	return deriveCurryT13(f)
}

func FlipT13(f func(interface{}, interface{})) any {
	return deriveFlipT13(f)
}

func ApplyT13(f func(interface{}, interface{}), last interface{}) any {
	return deriveApplyT13(f, last)
}

func UncurryT13(f func(interface{}) func(interface{})) any {
	return deriveUncurryT13(f)
}

func UncurryCurryT13(f func(interface{}, interface{})) any {
	return deriveUncurryT13(deriveCurryT13(f))
}
