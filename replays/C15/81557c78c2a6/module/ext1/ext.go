package ext

type Num int64

type Key struct {
	k0 Num
	k1 complex128
	K2 Num
}

type E0 struct {
}
