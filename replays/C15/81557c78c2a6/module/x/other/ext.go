package other

type Num int

type Key struct {
	K0 int
	K1 bool
}

type E0 struct {
}

type E1 struct {
	F0 Num
}
