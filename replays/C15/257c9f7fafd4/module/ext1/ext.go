package ext

type Num string

type Key struct {
	k0 uint64
	k1 int64
}

type E0 struct {
}

type E1 struct {
	f0 E0
}
