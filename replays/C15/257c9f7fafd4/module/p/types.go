package p

type MyInt int

type MyF float64

type K0 struct {
}

type K1 struct {
	f0 int
	f1 MyInt
}

type S0 struct {
	K1
}

type S1 struct {
	f0 *S1
}

type S2 struct {
	f0 bool
}
