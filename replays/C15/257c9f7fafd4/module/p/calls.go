package p

import (
	ext2 "subj/x/ext"
)

var Anchor = 0

func CurryT0(f func(a error, b error) error) any {
	return deriveCurryT0(f)
}

func FlipT0(f func(a error, b error) error) any {
	return deriveFlipT0(f)
}

func ApplyT0(f func(a error, b error) error, last error) any {
	return deriveApplyT0(f, last)
}

func UncurryT0(f func(a error) func(b error) error) any {
	return deriveUncurryT0(f)
}

func UncurryCurryT0(f func(a error, b error) error) any {
	return deriveUncurryT0(deriveCurryT0(f))
}

func TupleT0(a0 error, a1 error) any {
	return deriveTupleT0(a0, a1)
}

func CurryT1(f func(interface{}, interface{}, error)) any {
	return deriveCurryT1(f)
}

func FlipT1(f func(interface{}, interface{}, error)) any {
	return deriveFlipT1(f)
}

func ApplyT1(f func(interface{}, interface{}, error), last error) any {
	return deriveApplyT1(f, last)
}

func UncurryT1(f func(interface{}) func(interface{}, error)) any {
	return deriveUncurryT1(f)
}

func UncurryCurryT1(f func(interface{}, interface{}, error)) any {
	return deriveUncurryT1(deriveCurryT1(f))
}

func TupleT1(a0 interface{}, a1 interface{}, a2 error) any {
	return deriveTupleT1(a0, a1, a2)
}

func CurryT2(f func(a error, b error)) any {
	return deriveCurryT2(f)
}

func FlipT2(f func(a error, b error)) any {
	return deriveFlipT2(f)
}

func ApplyT2(f func(a error, b error), last error) any {
	return deriveApplyT2(f, last)
}

func UncurryT2(f func(a error) func(b error)) any {
	return deriveUncurryT2(f)
}

func UncurryCurryT2(f func(a error, b error)) any {
	return deriveUncurryT2(deriveCurryT2(f))
}

func CurryT3(f func(error, interface{})) any {
	return deriveCurryT3(f)
}

func FlipT3(f func(error, interface{})) any {
	return deriveFlipT3(f)
}

func ApplyT3(f func(error, interface{}), last interface{}) any {
	return deriveApplyT3(f, last)
}

func UncurryT3(f func(error) func(interface{})) any {
	return deriveUncurryT3(f)
}

func UncurryCurryT3(f func(error, interface{})) any {
	return deriveUncurryT3(deriveCurryT3(f))
}

func CurryT4(f func(a interface{}, b interface{})) any {
	return deriveCurryT4(f)
}

func FlipT4(f func(a interface{}, b interface{})) any {
	return deriveFlipT4(f)
}

func ApplyT4(f func(a interface{}, b interface{}), last interface{}) any {
	return deriveApplyT4(f, last)
}

func UncurryT4(f func(a interface{}) func(a interface{})) any {
	return deriveUncurryT4(f)
}

func UncurryCurryT4(f func(a interface{}, b interface{})) any {
	return deriveUncurryT4(deriveCurryT4(f))
}

func CurryT5(f func(error, error) interface{}) any {
	return deriveCurryT5(f)
}

func FlipT5(f func(error, error) interface{}) any {
	return deriveFlipT5(f)
}

func ApplyT5(f func(error, error) interface{}, last error) any {
	return deriveApplyT5(f, last)
}

func UncurryT5(f func(error) func(error) interface{}) any {
	return deriveUncurryT5(f)
}

func UncurryCurryT5(f func(error, error) interface{}) any {
	return deriveUncurryT5(deriveCurryT5(f))
}

func CurryT6(f func(a error, b interface{}, c interface{}) error) any {
	return deriveCurryT6(f)
}

func FlipT6(f func(a error, b interface{}, c interface{}) error) any {
	return deriveFlipT6(f)
}

func ApplyT6(f func(a error, b interface{}, c interface{}) error, last interface{}) any {
	return deriveApplyT6(f, last)
}

func UncurryT6(f func(a error) func(b interface{}, a interface{}) error) any {
	return deriveUncurryT6(f)
}

func UncurryCurryT6(f func(a error, b interface{}, c interface{}) error) any {
	return deriveUncurryT6(deriveCurryT6(f))
}

func CurryT7(f func(a interface{}, b interface{}) interface{}) any {
	return deriveCurryT7(f)
}

func FlipT7(f func(a interface{}, b interface{}) interface{}) any {
	return deriveFlipT7(f)
}

func ApplyT7(f func(a interface{}, b interface{}) interface{}, last interface{}) any {
	return deriveApplyT7(f, last)
}

func UncurryT7(f func(a interface{}) func(a interface{}) interface{}) any {
	return deriveUncurryT7(f)
}

func UncurryCurryT7(f func(a interface{}, b interface{}) interface{}) any {
	return deriveUncurryT7(deriveCurryT7(f))
}

func CurryT8(f func(error, error, error, interface{}, error) interface{}) any {
	return deriveCurryT8(f)
}

func FlipT8(f func(error, error, error, interface{}, error) interface{}) any {
	return deriveFlipT8(f)
}

func ApplyT8(f func(error, error, error, interface{}, error) interface{}, last error) any {
	return deriveApplyT8(f, last)
}

func UncurryT8(f func(error) func(error, error, interface{}, error) interface{}) any {
	return deriveUncurryT8(f)
}

func UncurryCurryT8(f func(error, error, error, interface{}, error) interface{}) any {
	return deriveUncurryT8(deriveCurryT8(f))
}

func TupleT8(a0 error, a1 error, a2 error, a3 interface{}, a4 error) any {
	return deriveTupleT8(a0, a1, a2, a3, a4)
}

func CurryT9(f func(_ bool, b bool) ([]byte, MyInt, error)) any {
	return deriveCurryT9(f)
}

func FlipT9(f func(_ bool, b bool) ([]byte, MyInt, error)) any {
	return deriveFlipT9(f)
}

func ApplyT9(f func(_ bool, b bool) ([]byte, MyInt, error), last bool) any {
	return deriveApplyT9(f, last)
}

func UncurryT9(f func(_ bool) func(b bool) ([]byte, MyInt, error)) any {
	return deriveUncurryT9(f)
}

func UncurryCurryT9(f func(_ bool, b bool) ([]byte, MyInt, error)) any {
	return deriveUncurryT9(deriveCurryT9(f))
}

func TupleT9(a0 bool, a1 bool) any {
	return deriveTupleT9(a0, a1)
}

func CurryT10(f func(a interface{}, b interface{}) *rune) any {
	return deriveCurryT10(f)
}

func FlipT10(f func(a interface{}, b interface{}) *rune) any {
	return deriveFlipT10(f)
}

func ApplyT10(f func(a interface{}, b interface{}) *rune, last interface{}) any {
	return deriveApplyT10(f, last)
}

func UncurryT10(f func(a interface{}) func(b interface{}) *rune) any {
	return deriveUncurryT10(f)
}

func UncurryCurryT10(f func(a interface{}, b interface{}) *rune) any {
	return deriveUncurryT10(deriveCurryT10(f))
}

func CurryT11(f func(a interface{}, b int16) (int16, error)) any {
	return deriveCurryT11(f)
}

func FlipT11(f func(a interface{}, b int16) (int16, error)) any {
	return deriveFlipT11(f)
}

func ApplyT11(f func(a interface{}, b int16) (int16, error), last int16) any {
	return deriveApplyT11(f, last)
}

func UncurryT11(f func(a interface{}) func(b int16) (int16, error)) any {
	return deriveUncurryT11(f)
}

func UncurryCurryT11(f func(a interface{}, b int16) (int16, error)) any {
	return deriveUncurryT11(deriveCurryT11(f))
}

func TupleT11(a0 interface{}, a1 int16) any {
	return deriveTupleT11(a0, a1)
}

func CurryT12(f func(f []K1, list bool) (complex128, map[MyInt]int8)) any {
	return deriveCurryT12(f)
}

func FlipT12(f func(f []K1, list bool) (complex128, map[MyInt]int8)) any {
	return deriveFlipT12(f)
}

func ApplyT12(f func(f []K1, list bool) (complex128, map[MyInt]int8), last bool) any {
	return deriveApplyT12(f, last)
}

func UncurryT12(f func(f []K1) func(f bool) (complex128, map[MyInt]int8)) any {
	return deriveUncurryT12(f)
}

func UncurryCurryT12(f func(f []K1, list bool) (complex128, map[MyInt]int8)) any {
	return deriveUncurryT12(deriveCurryT12(f))
}

func TupleT12(a0 []K1, a1 bool) any {
	return deriveTupleT12(a0, a1)
}

func CurryT13(f func(K0, map[complex128]int16, *ext2.Num, [1]ext2.Num, interface{})) any {
	return deriveCurryT13(f)
}

func FlipT13(f func(K0, map[complex128]int16, *ext2.Num, [1]ext2.Num, interface{})) any {
	return deriveFlipT13(f)
}

func ApplyT13(f func(K0, map[complex128]int16, *ext2.Num, [1]ext2.Num, interface{}), last interface{}) any {
	return deriveApplyT13(f, last)
}

func UncurryT13(f func(K0) func(map[complex128]int16, *ext2.Num, [1]ext2.Num, interface{})) any {
	return deriveUncurryT13(f)
}

func UncurryCurryT13(f func(K0, map[complex128]int16, *ext2.Num, [1]ext2.Num, interface{})) any {
	return deriveUncurryT13(deriveCurryT13(f))
}

func TupleT13(a0 K0, a1 map[complex128]int16, a2 *ext2.Num, a3 [1]ext2.Num, a4 interface{}) any {
	return deriveTupleT13(a0, a1, a2, a3, a4)
}
