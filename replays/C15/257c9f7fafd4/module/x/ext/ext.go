package ext

type Num int

type Key struct {
	K0 int
}

type E0 struct {
	F0 int8
}

type E1 struct {
	F0 bool
	F1 int16
	F2 [2][]Num
	f3 []int
}
