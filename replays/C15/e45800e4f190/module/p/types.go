package p

type MyStr string

type K0 struct {
	F0 int
}

type S0 struct {
}
