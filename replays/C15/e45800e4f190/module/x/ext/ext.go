package ext

import (
	ext "subj/ext1"
)

type Num int

type Key struct {
	k0 Num
}

type E0 struct {
	f0 ext.Key
}
