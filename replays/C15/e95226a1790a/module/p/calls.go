package p

import (
	ext "subj/ext1"
	ext2 "subj/x/ext"
)

var Anchor = 0

func CurryT0(f func(_ MyBool, _ error)) any {
	return deriveCurryT0(f)
}

func FlipT0(f func(_ MyBool, _ error)) any {
	return deriveFlipT0(f)
}

func ApplyT0(f func(_ MyBool, _ error), last error) any {
	return deriveApplyT0(f, last)
}

func UncurryT0(f func(_ MyBool) func(_ error)) any {
	return deriveUncurryT0(f)
}

func UncurryCurryT0(f func(_ MyBool, _ error)) any {
	return deriveUncurryT0(deriveCurryT0(f))
}

func TupleT0(a0 MyBool, a1 error) any {
	return deriveTupleT0(a0, a1)
}

func CurryT1(f func(a interface{}, b float64, c *map[ext2.Key]int8)) any {
	return deriveCurryT1(f)
}

func FlipT1(f func(a interface{}, b float64, c *map[ext2.Key]int8)) any {
	return deriveFlipT1(f)
}

func ApplyT1(f func(a interface{}, b float64, c *map[ext2.Key]int8), last *map[ext2.Key]int8) any {
	return deriveApplyT1(f, last)
}

func UncurryT1(f func(a interface{}) func(b float64, c *map[ext2.Key]int8)) any {
	return deriveUncurryT1(f)
}

func UncurryCurryT1(f func(a interface{}, b float64, c *map[ext2.Key]int8)) any {
	return deriveUncurryT1(deriveCurryT1(f))
}

func TupleT1(a0 interface{}, a1 float64, a2 *map[ext2.Key]int8) any {
	return deriveTupleT1(a0, a1, a2)
}

func CurryT2(f func(map[uint64]N1, error) (N0, error, *map[int32]S0)) any {
	return deriveCurryT2(f)
}

func FlipT2(f func(map[uint64]N1, error) (N0, error, *map[int32]S0)) any {
	return deriveFlipT2(f)
}

func ApplyT2(f func(map[uint64]N1, error) (N0, error, *map[int32]S0), last error) any {
	return deriveApplyT2(f, last)
}

func UncurryT2(f func(map[uint64]N1) func(error) (N0, error, *map[int32]S0)) any {
	return deriveUncurryT2(f)
}

func UncurryCurryT2(f func(map[uint64]N1, error) (N0, error, *map[int32]S0)) any {
	return deriveUncurryT2(deriveCurryT2(f))
}

func TupleT2(a0 map[uint64]N1, a1 error) any {
	return deriveTupleT2(a0, a1)
}

func CurryT3(f func(bool, string, interface{}, bool, interface{}) (N2, map[[0]int]S0)) any {
	return deriveCurryT3(f)
}

func FlipT3(f func(bool, string, interface{}, bool, interface{}) (N2, map[[0]int]S0)) any {
	return deriveFlipT3(f)
}

func ApplyT3(f func(bool, string, interface{}, bool, interface{}) (N2, map[[0]int]S0), last interface{}) any {
	return deriveApplyT3(f, last)
}

func UncurryT3(f func(bool) func(string, interface{}, bool, interface{}) (N2, map[[0]int]S0)) any {
	return deriveUncurryT3(f)
}

func UncurryCurryT3(f func(bool, string, interface{}, bool, interface{}) (N2, map[[0]int]S0)) any {
	return deriveUncurryT3(deriveCurryT3(f))
}

func TupleT3(a0 bool, a1 string, a2 interface{}, a3 bool, a4 interface{}) any {
	return deriveTupleT3(a0, a1, a2, a3, a4)
}

func CurryT4(f func(error, interface{}, error) interface{}) any {
	return deriveCurryT4(f)
}

func FlipT4(f func(error, interface{}, error) interface{}) any {
	return deriveFlipT4(f)
}

func ApplyT4(f func(error, interface{}, error) interface{}, last error) any {
	return deriveApplyT4(f, last)
}

func UncurryT4(f func(error) func(interface{}, error) interface{}) any {
	return deriveUncurryT4(f)
}

func UncurryCurryT4(f func(error, interface{}, error) interface{}) any {
	return deriveUncurryT4(deriveCurryT4(f))
}

func TupleT4(a0 error, a1 interface{}, a2 error) any {
	return deriveTupleT4(a0, a1, a2)
}

func CurryT5(f func(a S1, b N0, c S1) ([2]bool, error, ext2.Num)) any {
	return deriveCurryT5(f)
}

func FlipT5(f func(a S1, b N0, c S1) ([2]bool, error, ext2.Num)) any {
	return deriveFlipT5(f)
}

func ApplyT5(f func(a S1, b N0, c S1) ([2]bool, error, ext2.Num), last S1) any {
	return deriveApplyT5(f, last)
}

func UncurryT5(f func(a S1) func(b N0, c S1) ([2]bool, error, ext2.Num)) any {
	return deriveUncurryT5(f)
}

func UncurryCurryT5(f func(a S1, b N0, c S1) ([2]bool, error, ext2.Num)) any {
	return deriveUncurryT5(deriveCurryT5(f))
}

func TupleT5(a0 S1, a1 N0, a2 S1) any {
	return deriveTupleT5(a0, a1, a2)
}

func CurryT6(f func(int64, S1) error) any {
	return deriveCurryT6(f)
}

func FlipT6(f func(int64, S1) error) any {
	return deriveFlipT6(f)
}

func ApplyT6(f func(int64, S1) error, last S1) any {
	return deriveApplyT6(f, last)
}

func UncurryT6(f func(int64) func(S1) error) any {
	return deriveUncurryT6(f)
}

func UncurryCurryT6(f func(int64, S1) error) any {
	return deriveUncurryT6(deriveCurryT6(f))
}

func TupleT6(a0 int64, a1 S1) any {
	return deriveTupleT6(a0, a1)
}

func CurryT7(f func(_ string, _ MyBool, c error, _ int16, _ uintptr)) any {
	return deriveCurryT7(f)
}

func FlipT7(f func(_ string, _ MyBool, c error, _ int16, _ uintptr)) any {
	return deriveFlipT7(f)
}

func ApplyT7(f func(_ string, _ MyBool, c error, _ int16, _ uintptr), last uintptr) any {
	return deriveApplyT7(f, last)
}

func UncurryT7(f func(_ string) func(_ MyBool, c error, _ int16, _ uintptr)) any {
	return deriveUncurryT7(f)
}

func UncurryCurryT7(f func(_ string, _ MyBool, c error, _ int16, _ uintptr)) any {
	return deriveUncurryT7(deriveCurryT7(f))
}

func TupleT7(a0 string, a1 MyBool, a2 error, a3 int16, a4 uintptr) any {
	return deriveTupleT7(a0, a1, a2, a3, a4)
}

func CurryT8(f func(_ S1, _ int, c map[uintptr]map[ext.Key]S1, _ int64) (interface{}, K0)) any {
	return deriveCurryT8(f)
}

func FlipT8(f func(_ S1, _ int, c map[uintptr]map[ext.Key]S1, _ int64) (interface{}, K0)) any {
	return deriveFlipT8(f)
}

func ApplyT8(f func(_ S1, _ int, c map[uintptr]map[ext.Key]S1, _ int64) (interface{}, K0), last int64) any {
	return deriveApplyT8(f, last)
}

func UncurryT8(f func(_ S1) func(_ int, c map[uintptr]map[ext.Key]S1, _ int64) (interface{}, K0)) any {
	return deriveUncurryT8(f)
}

func UncurryCurryT8(f func(_ S1, _ int, c map[uintptr]map[ext.Key]S1, _ int64) (interface{}, K0)) any {
	return deriveUncurryT8(deriveCurryT8(f))
}

func TupleT8(a0 S1, a1 int, a2 map[uintptr]map[ext.Key]S1, a3 int64) any {
	return deriveTupleT8(a0, a1, a2, a3)
}

func CurryT9(f func(innerParam_0 S0, success S0, err interface{}) (interface{}, N1, bool)) any {
	return deriveCurryT9(f)
}

func FlipT9(f func(innerParam_0 S0, success S0, err interface{}) (interface{}, N1, bool)) any {
	return deriveFlipT9(f)
}

func ApplyT9(f func(innerParam_0 S0, success S0, err interface{}) (interface{}, N1, bool), last interface{}) any {
	return deriveApplyT9(f, last)
}

func UncurryT9(f func(innerParam_0 S0) func(innerParam_0 S0, err interface{}) (interface{}, N1, bool)) any {
	return deriveUncurryT9(f)
}

func UncurryCurryT9(f func(innerParam_0 S0, success S0, err interface{}) (interface{}, N1, bool)) any {
	return deriveUncurryT9(deriveCurryT9(f))
}

func TupleT9(a0 S0, a1 S0, a2 interface{}) any {
	return deriveTupleT9(a0, a1, a2)
}

func CurryT10(f func(list error, res0 S1) (uint, uint, N0)) any {
	return deriveCurryT10(f)
}

func FlipT10(f func(list error, res0 S1) (uint, uint, N0)) any {
	return deriveFlipT10(f)
}

func ApplyT10(f func(list error, res0 S1) (uint, uint, N0), last S1) any {
	return deriveApplyT10(f, last)
}

func UncurryT10(f func(list error) func(res0 S1) (uint, uint, N0)) any {
	return deriveUncurryT10(f)
}

func UncurryCurryT10(f func(list error, res0 S1) (uint, uint, N0)) any {
	return deriveUncurryT10(deriveCurryT10(f))
}

func TupleT10(a0 error, a1 S1) any {
	return deriveTupleT10(a0, a1)
}

func CurryT11(f func(a interface{}, b rune, c [3]S1, d MyBool) ext.Num) any {
	return deriveCurryT11(f)
}

func FlipT11(f func(a interface{}, b rune, c [3]S1, d MyBool) ext.Num) any {
	return deriveFlipT11(f)
}

func ApplyT11(f func(a interface{}, b rune, c [3]S1, d MyBool) ext.Num, last MyBool) any {
	return deriveApplyT11(f, last)
}

func UncurryT11(f func(a interface{}) func(b rune, c [3]S1, d MyBool) ext.Num) any {
	return deriveUncurryT11(f)
}

func UncurryCurryT11(f func(a interface{}, b rune, c [3]S1, d MyBool) ext.Num) any {
	return deriveUncurryT11(deriveCurryT11(f))
}

func TupleT11(a0 interface{}, a1 rune, a2 [3]S1, a3 MyBool) any {
	return deriveTupleT11(a0, a1, a2, a3)
}

func CurryT12(f func(a uint32, _ MyBool) (int, error, int16)) any {
	return deriveCurryT12(f)
}

func FlipT12(f func(a uint32, _ MyBool) (int, error, int16)) any {
	return deriveFlipT12(f)
}

func ApplyT12(f func(a uint32, _ MyBool) (int, error, int16), last MyBool) any {
	return deriveApplyT12(f, last)
}

func UncurryT12(f func(a uint32) func(_ MyBool) (int, error, int16)) any {
	return deriveUncurryT12(f)
}

func UncurryCurryT12(f func(a uint32, _ MyBool) (int, error, int16)) any {
	return deriveUncurryT12(deriveCurryT12(f))
}

func TupleT12(a0 uint32, a1 MyBool) any {
	return deriveTupleT12(a0, a1)
}

func CurryT13(f func(this ext.E0, ok bool) uint16) any {
	return deriveCurryT13(f)
}

func FlipT13(f func(this ext.E0, ok bool) uint16) any {
	return deriveFlipT13(f)
}

func ApplyT13(f func(this ext.E0, ok bool) uint16, last bool) any {
	return deriveApplyT13(f, last)
}

func UncurryT13(f func(this ext.E0) func(ok bool) uint16) any {
	return deriveUncurryT13(f)
}

func UncurryCurryT13(f func(this ext.E0, ok bool) uint16) any {
	return deriveUncurryT13(deriveCurryT13(f))
}

func TupleT13(a0 ext.E0, a1 bool) any {
	return deriveTupleT13(a0, a1)
}
