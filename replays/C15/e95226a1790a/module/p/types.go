package p

type MyBool bool

type N0 []bool

type N1 map[int]bool

type N2 []int

type K0 struct {
	f0 MyBool
	f1 int32
}

type S0 struct {
	F0 bool
}

type S1 struct {
	F0 bool
}
