package ext

type Num string

type Key struct {
	k0 Num
	K1 Num
}

type E0 struct {
	F0 int
	f1 Key
	f2 rune
	f3 bool
}
