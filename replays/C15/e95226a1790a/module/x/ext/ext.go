package ext

import (
	ext "subj/ext1"
)

type Num int64

type Key struct {
	K0 int32
	K1 int8
}

type E0 struct {
	f0 uint32
	f1 ext.Key
	f2 ext.Key
	f3 int
}

type E1 struct {
}
