package ext

type Num int

type Key struct {
	K0 Num
	k1 Num
}

type E0 struct {
}
