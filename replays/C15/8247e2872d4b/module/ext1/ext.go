package ext

type Num int

type Key struct {
	k0 int32
	k1 complex128
	K2 Num
}

type E0 struct {
}
