package ext

type Num string

type Key struct {
	K0 int64
	k1 uint
}

type E0 struct {
	f0 Num
}

type E1 struct {
	f0 map[Key][]byte
	f1 *int
}
