package p

type MyStr string

type MyU8 uint8

type N0 []bool

type K0 struct {
	f0 int
}

type K1 struct {
}

type S0 struct {
	F0 N0
}
