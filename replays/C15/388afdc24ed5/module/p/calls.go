package p

import (
	ext "subj/ext1"
	ext2 "subj/x/ext"
)

var Anchor = 0

func CurryT0(f func(int64, ext.Num, interface{}, error, string)) any {
	return deriveCurryT0(f)
}

func FlipT0(f func(int64, ext.Num, interface{}, error, string)) any {
	return deriveFlipT0(f)
}

func ApplyT0(f func(int64, ext.Num, interface{}, error, string), last string) any {
	return deriveApplyT0(f, last)
}

func UncurryT0(f func(int64) func(ext.Num, interface{}, error, string)) any {
	return deriveUncurryT0(f)
}

func UncurryCurryT0(f func(int64, ext.Num, interface{}, error, string)) any {
	return deriveUncurryT0(deriveCurryT0(f))
}

func TupleT0(a0 int64, a1 ext.Num, a2 interface{}, a3 error, a4 string) any {
	return deriveTupleT0(a0, a1, a2, a3, a4)
}

func CurryT1(f func(interface{}, interface{}, interface{}) interface{}) any {
	return deriveCurryT1(f)
}

func FlipT1(f func(interface{}, interface{}, interface{}) interface{}) any {
	return deriveFlipT1(f)
}

func ApplyT1(f func(interface{}, interface{}, interface{}) interface{}, last interface{}) any {
	return deriveApplyT1(f, last)
}

func UncurryT1(f func(interface{}) func(interface{}, interface{}) interface{}) any {
	return deriveUncurryT1(f)
}

func UncurryCurryT1(f func(interface{}, interface{}, interface{}) interface{}) any {
	return deriveUncurryT1(deriveCurryT1(f))
}

func TupleT1(a0 interface{}, a1 interface{}, a2 interface{}) any {
	return deriveTupleT1(a0, a1, a2)
}

func CurryT2(f func(list int, this int) interface{}) any {
	return deriveCurryT2(f)
}

func FlipT2(f func(list int, this int) interface{}) any {
	return deriveFlipT2(f)
}

func ApplyT2(f func(list int, this int) interface{}, last int) any {
	return deriveApplyT2(f, last)
}

func UncurryT2(f func(list int) func(list int) interface{}) any {
	return deriveUncurryT2(f)
}

func UncurryCurryT2(f func(list int, this int) interface{}) any {
	return deriveUncurryT2(deriveCurryT2(f))
}

func TupleT2(a0 int, a1 int) any {
	return deriveTupleT2(a0, a1)
}

func CurryT3(f func(error, interface{})) any {
	return deriveCurryT3(f)
}

func FlipT3(f func(error, interface{})) any {
	return deriveFlipT3(f)
}

func ApplyT3(f func(error, interface{}), last interface{}) any {
	return deriveApplyT3(f, last)
}

func UncurryT3(f func(error) func(interface{})) any {
	return deriveUncurryT3(f)
}

func UncurryCurryT3(f func(error, interface{})) any {
	return deriveUncurryT3(deriveCurryT3(f))
}

func TupleT3(a0 error, a1 interface{}) any {
	return deriveTupleT3(a0, a1)
}

func CurryT4(f func(interface{}, interface{}, error)) any {
	return deriveCurryT4(f)
}

func FlipT4(f func(interface{}, interface{}, error)) any {
	return deriveFlipT4(f)
}

func ApplyT4(f func(interface{}, interface{}, error), last error) any {
	return deriveApplyT4(f, last)
}

func UncurryT4(f func(interface{}) func(interface{}, error)) any {
	return deriveUncurryT4(f)
}

func UncurryCurryT4(f func(interface{}, interface{}, error)) any {
	return deriveUncurryT4(deriveCurryT4(f))
}

func CurryT5(f func(a interface{}, b interface{}) interface{}) any {
	return deriveCurryT5(f)
}

func FlipT5(f func(a interface{}, b interface{}) interface{}) any {
	return deriveFlipT5(f)
}

func ApplyT5(f func(a interface{}, b interface{}) interface{}, last interface{}) any {
	return deriveApplyT5(f, last)
}

func UncurryT5(f func(a interface{}) func(a interface{}) interface{}) any {
	return deriveUncurryT5(f)
}

func UncurryCurryT5(f func(a interface{}, b interface{}) interface{}) any {
	return deriveUncurryT5(deriveCurryT5(f))
}

func CurryT6(f func(in interface{}, f interface{}, g interface{}, list error) interface{}) any {
	return deriveCurryT6(f)
}

func FlipT6(f func(in interface{}, f interface{}, g interface{}, list error) interface{}) any {
	return deriveFlipT6(f)
}

func ApplyT6(f func(in interface{}, f interface{}, g interface{}, list error) interface{}, last error) any {
	return deriveApplyT6(f, last)
}

func UncurryT6(f func(in interface{}) func(in interface{}, g interface{}, list error) interface{}) any {
	return deriveUncurryT6(f)
}

func UncurryCurryT6(f func(in interface{}, f interface{}, g interface{}, list error) interface{}) any {
	return deriveUncurryT6(deriveCurryT6(f))
}

func TupleT6(a0 interface{}, a1 interface{}, a2 interface{}, a3 error) any {
	return deriveTupleT6(a0, a1, a2, a3)
}

func CurryT7(f func(error, error)) any {
	return deriveCurryT7(f)
}

func FlipT7(f func(error, error)) any {
	return deriveFlipT7(f)
}

func ApplyT7(f func(error, error), last error) any {
	return deriveApplyT7(f, last)
}

func UncurryT7(f func(error) func(error)) any {
	return deriveUncurryT7(f)
}

func UncurryCurryT7(f func(error, error)) any {
	return deriveUncurryT7(deriveCurryT7(f))
}

func CurryT8(f func(a bool, b bool)) any {
	return deriveCurryT8(f)
}

func FlipT8(f func(a bool, b bool)) any {
	return deriveFlipT8(f)
}

func ApplyT8(f func(a bool, b bool), last bool) any {
	return deriveApplyT8(f, last)
}

func UncurryT8(f func(a bool) func(b bool)) any {
	return deriveUncurryT8(f)
}

func UncurryCurryT8(f func(a bool, b bool)) any {
	return deriveUncurryT8(deriveCurryT8(f))
}

func TupleT8(a0 bool, a1 bool) any {
	return deriveTupleT8(a0, a1)
}

func CurryT9(f func(f interface{}, param_1 error)) any {
	return deriveCurryT9(f)
}

func FlipT9(f func(f interface{}, param_1 error)) any {
	return deriveFlipT9(f)
}

func ApplyT9(f func(f interface{}, param_1 error), last error) any {
	return deriveApplyT9(f, last)
}

func UncurryT9(f func(f interface{}) func(param_1 error)) any {
	return deriveUncurryT9(f)
}

func UncurryCurryT9(f func(f interface{}, param_1 error)) any {
	return deriveUncurryT9(deriveCurryT9(f))
}

func CurryT10(f func(error, complex128, interface{}) float64) any {
	return deriveCurryT10(f)
}

func FlipT10(f func(error, complex128, interface{}) float64) any {
	return deriveFlipT10(f)
}

func ApplyT10(f func(error, complex128, interface{}) float64, last interface{}) any {
	return deriveApplyT10(f, last)
}

func UncurryT10(f func(error) func(complex128, interface{}) float64) any {
	return deriveUncurryT10(f)
}

func UncurryCurryT10(f func(error, complex128, interface{}) float64) any {
	return deriveUncurryT10(deriveCurryT10(f))
}

func CurryT11(f func(a ext2.E0, b float64, c ext.E0) map[[2]ext.Key]*int16) any {
	return deriveCurryT11(f)
}

func FlipT11(f func(a ext2.E0, b float64, c ext.E0) map[[2]ext.Key]*int16) any {
	return deriveFlipT11(f)
}

func ApplyT11(f func(a ext2.E0, b float64, c ext.E0) map[[2]ext.Key]*int16, last ext.E0) any {
	return deriveApplyT11(f, last)
}

func UncurryT11(f func(a ext2.E0) func(b float64, c ext.E0) map[[2]ext.Key]*int16) any {
	return deriveUncurryT11(f)
}

func UncurryCurryT11(f func(a ext2.E0, b float64, c ext.E0) map[[2]ext.Key]*int16) any {
	return deriveUncurryT11(deriveCurryT11(f))
}

func CurryT12(f func(*map[ext.Num]S1, ext2.Key, K0, S1, interface{}) (interface{}, complex128, error)) any {
	return deriveCurryT12(f)
}

func FlipT12(f func(*map[ext.Num]S1, ext2.Key, K0, S1, interface{}) (interface{}, complex128, error)) any {
	return deriveFlipT12(f)
}

func ApplyT12(f func(*map[ext.Num]S1, ext2.Key, K0, S1, interface{}) (interface{}, complex128, error), last interface{}) any {
	return deriveApplyT12(f, last)
}

func UncurryT12(f func(*map[ext.Num]S1) func(ext2.Key, K0, S1, interface{}) (interface{}, complex128, error)) any {
	return deriveUncurryT12(f)
}

func UncurryCurryT12(f func(*map[ext.Num]S1, ext2.Key, K0, S1, interface{}) (interface{}, complex128, error)) any {
	return deriveUncurryT12(deriveCurryT12(f))
}

func TupleT12(a0 *map[ext.Num]S1, a1 ext2.Key, a2 K0, a3 S1, a4 interface{}) any {
	return deriveTupleT12(a0, a1, a2, a3, a4)
}

func CurryT13(f func(a int, b int64, c string, d error, e uint64) (*string, interface{}, MyU8)) any {
	return deriveCurryT13(f)
}

func FlipT13(f func(a int, b int64, c string, d error, e uint64) (*string, interface{}, MyU8)) any {
	return deriveFlipT13(f)
}

func ApplyT13(f func(a int, b int64, c string, d error, e uint64) (*string, interface{}, MyU8), last uint64) any {
	return deriveApplyT13(f, last)
}

func UncurryT13(f func(a int) func(b int64, a string, d error, e uint64) (*string, interface{}, MyU8)) any {
	return deriveUncurryT13(f)
}

func UncurryCurryT13(f func(a int, b int64, c string, d error, e uint64) (*string, interface{}, MyU8)) any {
	return deriveUncurryT13(deriveCurryT13(f))
}

func TupleT13(a0 int, a1 int64, a2 string, a3 error, a4 uint64) any {
	return deriveTupleT13(a0, a1, a2, a3, a4)
}
