package p

import (
	ext "subj/ext1"
	ext2 "subj/x/ext"
)

type MyU8 uint8

type K0 struct {
	F0 [2]MyU8
}

type S0 struct {
	F0 string
	F1 ext.E0
	f2 int16
	f3 string
	F4 ext2.E0
	*K0
}

type S1 struct {
	S0
}
