package ext

type Num string

type Key struct {
	K0 Num
	k1 uintptr
	k2 Num
}

type E0 struct {
}
