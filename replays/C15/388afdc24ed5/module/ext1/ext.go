package ext

type Num int64

type Key struct {
	K0 string
}

type E0 struct {
}
