package p

type MyInt int

type N0 map[int]int

type K0 struct {
}

type S0 struct {
}
