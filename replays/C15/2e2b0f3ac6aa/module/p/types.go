package p

type MyStr string

type N0 []int

type K0 struct {
	F0 bool
}

type S0 struct {
}
