package ext

type Num string

type Key struct {
	k0 int32
	K1 int
	K2 float64
}

type E0 struct {
	F0 rune
	F1 Num
	f2 Num
	f3 int
}

type E1 struct {
	F0 int
}
