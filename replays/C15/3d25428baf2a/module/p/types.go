package p

type MyInt int

type MyF float64

type MyI64 int64

type MyU uint

type N0 map[bool]bool

type N1 []int

type K0 struct {
	f0 int
}

type S0 struct {
}
