package other

type Num int

type Key struct {
	K0 int
}

type E0 struct {
	F0 bool
	f1 bool
}
