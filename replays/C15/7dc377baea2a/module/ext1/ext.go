package ext

type Num string

type Key struct {
	k0 float64
	k1 int
	k2 Num
}

type E0 struct {
	f0 map[Key][0]uintptr
}

type E1 struct {
}
