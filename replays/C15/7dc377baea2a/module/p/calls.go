package p

import (
	ext "subj/ext1"
	ext2 "subj/x/ext"
)

var Anchor = 0

func CurryT0(f func(K0, error, error, S0, float32) interface{}) any {
	return deriveCurryT0(f)
}

func FlipT0(f func(K0, error, error, S0, float32) interface{}) any {
	return deriveFlipT0(f)
}

func ApplyT0(f func(K0, error, error, S0, float32) interface{}, last float32) any {
	return deriveApplyT0(f, last)
}

func UncurryT0(f func(K0) func(error, error, S0, float32) interface{}) any {
	return deriveUncurryT0(f)
}

func UncurryCurryT0(f func(K0, error, error, S0, float32) interface{}) any {
	return deriveUncurryT0(deriveCurryT0(f))
}

func TupleT0(a0 K0, a1 error, a2 error, a3 S0, a4 float32) any {
	return deriveTupleT0(a0, a1, a2, a3, a4)
}

func CurryT1(f func(g uint8, f interface{}, err int) int64) any {
	return deriveCurryT1(f)
}

func FlipT1(f func(g uint8, f interface{}, err int) int64) any {
	return deriveFlipT1(f)
}

func ApplyT1(f func(g uint8, f interface{}, err int) int64, last int) any {
	return deriveApplyT1(f, last)
}

func UncurryT1(f func(g uint8) func(f interface{}, err int) int64) any {
	return deriveUncurryT1(f)
}

func UncurryCurryT1(f func(g uint8, f interface{}, err int) int64) any {
	return deriveUncurryT1(deriveCurryT1(f))
}

func TupleT1(a0 uint8, a1 interface{}, a2 int) any {
	return deriveTupleT1(a0, a1, a2)
}

func CurryT2(f func(_ error, b [2]bool, _ error, d error) (map[rune]int, rune)) any {
	return deriveCurryT2(f)
}

func FlipT2(f func(_ error, b [2]bool, _ error, d error) (map[rune]int, rune)) any {
	return deriveFlipT2(f)
}

func ApplyT2(f func(_ error, b [2]bool, _ error, d error) (map[rune]int, rune), last error) any {
	return deriveApplyT2(f, last)
}

func UncurryT2(f func(_ error) func(b [2]bool, _ error, d error) (map[rune]int, rune)) any {
	return deriveUncurryT2(f)
}

func UncurryCurryT2(f func(_ error, b [2]bool, _ error, d error) (map[rune]int, rune)) any {
	return deriveUncurryT2(deriveCurryT2(f))
}

func TupleT2(a0 error, a1 [2]bool, a2 error, a3 error) any {
	return deriveTupleT2(a0, a1, a2, a3)
}

func CurryT3(f func(uint8, **uint, N0)) any {
	return deriveCurryT3(f)
}

func FlipT3(f func(uint8, **uint, N0)) any {
	return deriveFlipT3(f)
}

func ApplyT3(f func(uint8, **uint, N0), last N0) any {
	return deriveApplyT3(f, last)
}

func UncurryT3(f func(uint8) func(**uint, N0)) any {
	return deriveUncurryT3(f)
}

func UncurryCurryT3(f func(uint8, **uint, N0)) any {
	return deriveUncurryT3(deriveCurryT3(f))
}

func TupleT3(a0 uint8, a1 **uint, a2 N0) any {
	return deriveTupleT3(a0, a1, a2)
}

func CurryT4(f func(string, *K0, map[uint64]S0) (int16, uint64, ext.E0)) any {
	return deriveCurryT4(f)
}

func FlipT4(f func(string, *K0, map[uint64]S0) (int16, uint64, ext.E0)) any {
	return deriveFlipT4(f)
}

func ApplyT4(f func(string, *K0, map[uint64]S0) (int16, uint64, ext.E0), last map[uint64]S0) any {
	return deriveApplyT4(f, last)
}

func UncurryT4(f func(string) func(*K0, map[uint64]S0) (int16, uint64, ext.E0)) any {
	return deriveUncurryT4(f)
}

func UncurryCurryT4(f func(string, *K0, map[uint64]S0) (int16, uint64, ext.E0)) any {
	return deriveUncurryT4(deriveCurryT4(f))
}

func TupleT4(a0 string, a1 *K0, a2 map[uint64]S0) any {
	return deriveTupleT4(a0, a1, a2)
}

func CurryT5(f func(g bool, param_0 map[ext2.Key]N0, err map[uintptr]ext2.E0)) any {
	return deriveCurryT5(f)
}

func FlipT5(f func(g bool, param_0 map[ext2.Key]N0, err map[uintptr]ext2.E0)) any {
	return deriveFlipT5(f)
}

func ApplyT5(f func(g bool, param_0 map[ext2.Key]N0, err map[uintptr]ext2.E0), last map[uintptr]ext2.E0) any {
	return deriveApplyT5(f, last)
}

func UncurryT5(f func(g bool) func(g map[ext2.Key]N0, err map[uintptr]ext2.E0)) any {
	return deriveUncurryT5(f)
}

func UncurryCurryT5(f func(g bool, param_0 map[ext2.Key]N0, err map[uintptr]ext2.E0)) any {
	return deriveUncurryT5(deriveCurryT5(f))
}

func TupleT5(a0 bool, a1 map[ext2.Key]N0, a2 map[uintptr]ext2.E0) any {
	return deriveTupleT5(a0, a1, a2)
}

func CurryT6(f func(a interface{}, b interface{}, _ interface{}, _ interface{}) (interface{}, byte)) any {
	return deriveCurryT6(f)
}

func FlipT6(f func(a interface{}, b interface{}, _ interface{}, _ interface{}) (interface{}, byte)) any {
	return deriveFlipT6(f)
}

func ApplyT6(f func(a interface{}, b interface{}, _ interface{}, _ interface{}) (interface{}, byte), last interface{}) any {
	return deriveApplyT6(f, last)
}

func UncurryT6(f func(a interface{}) func(a interface{}, _ interface{}, _ interface{}) (interface{}, byte)) any {
	return deriveUncurryT6(f)
}

func UncurryCurryT6(f func(a interface{}, b interface{}, _ interface{}, _ interface{}) (interface{}, byte)) any {
	return deriveUncurryT6(deriveCurryT6(f))
}

func CurryT7(f func(ext.Num, ext.Num) (ext2.Num, interface{})) any {
	return deriveCurryT7(f)
}

func FlipT7(f func(ext.Num, ext.Num) (ext2.Num, interface{})) any {
	return deriveFlipT7(f)
}

func ApplyT7(f func(ext.Num, ext.Num) (ext2.Num, interface{}), last ext.Num) any {
	return deriveApplyT7(f, last)
}

func UncurryT7(f func(ext.Num) func(ext.Num) (ext2.Num, interface{})) any {
	return deriveUncurryT7(f)
}

func UncurryCurryT7(f func(ext.Num, ext.Num) (ext2.Num, interface{})) any {
	return deriveUncurryT7(deriveCurryT7(f))
}

func TupleT7(a0 ext.Num, a1 ext.Num) any {
	return deriveTupleT7(a0, a1)
}

func CurryT8(f func(a map[ext2.Key]map[uint16]N0, _ *rune, c map[ext2.Key]map[uint16]N0)) any {
	return deriveCurryT8(f)
}

func FlipT8(f func(a map[ext2.Key]map[uint16]N0, _ *rune, c map[ext2.Key]map[uint16]N0)) any {
	return deriveFlipT8(f)
}

func ApplyT8(f func(a map[ext2.Key]map[uint16]N0, _ *rune, c map[ext2.Key]map[uint16]N0), last map[ext2.Key]map[uint16]N0) any {
	return deriveApplyT8(f, last)
}

func UncurryT8(f func(a map[ext2.Key]map[uint16]N0) func(_ *rune, c map[ext2.Key]map[uint16]N0)) any {
	return deriveUncurryT8(f)
}

func UncurryCurryT8(f func(a map[ext2.Key]map[uint16]N0, _ *rune, c map[ext2.Key]map[uint16]N0)) any {
	return deriveUncurryT8(deriveCurryT8(f))
}

func TupleT8(a0 map[ext2.Key]map[uint16]N0, a1 *rune, a2 map[ext2.Key]map[uint16]N0) any {
	return deriveTupleT8(a0, a1, a2)
}

func CurryT9(f func(a *uint32, _ int, c string, d ext.E0) (ext.Num, N0, N0)) any {
	return deriveCurryT9(f)
}

func FlipT9(f func(a *uint32, _ int, c string, d ext.E0) (ext.Num, N0, N0)) any {
	return deriveFlipT9(f)
}

func ApplyT9(f func(a *uint32, _ int, c string, d ext.E0) (ext.Num, N0, N0), last ext.E0) any {
	return deriveApplyT9(f, last)
}

func UncurryT9(f func(a *uint32) func(_ int, c string, a ext.E0) (ext.Num, N0, N0)) any {
	return deriveUncurryT9(f)
}

func UncurryCurryT9(f func(a *uint32, _ int, c string, d ext.E0) (ext.Num, N0, N0)) any {
	return deriveUncurryT9(deriveCurryT9(f))
}

func TupleT9(a0 *uint32, a1 int, a2 string, a3 ext.E0) any {
	return deriveTupleT9(a0, a1, a2, a3)
}

func CurryT10(f func(_ N0, b string, _ error) (interface{}, *[]N0)) any {
	return deriveCurryT10(f)
}

func FlipT10(f func(_ N0, b string, _ error) (interface{}, *[]N0)) any {
	return deriveFlipT10(f)
}

func ApplyT10(f func(_ N0, b string, _ error) (interface{}, *[]N0), last error) any {
	return deriveApplyT10(f, last)
}

func UncurryT10(f func(_ N0) func(b string, _ error) (interface{}, *[]N0)) any {
	return deriveUncurryT10(f)
}

func UncurryCurryT10(f func(_ N0, b string, _ error) (interface{}, *[]N0)) any {
	return deriveUncurryT10(deriveCurryT10(f))
}

func TupleT10(a0 N0, a1 string, a2 error) any {
	return deriveTupleT10(a0, a1, a2)
}

func CurryT11(f func(a error, b rune, c ext.E1, d error) (error, interface{}, S0)) any {
	return deriveCurryT11(f)
}

func FlipT11(f func(a error, b rune, c ext.E1, d error) (error, interface{}, S0)) any {
	return deriveFlipT11(f)
}

func ApplyT11(f func(a error, b rune, c ext.E1, d error) (error, interface{}, S0), last error) any {
	return deriveApplyT11(f, last)
}

func UncurryT11(f func(a error) func(b rune, c ext.E1, d error) (error, interface{}, S0)) any {
	return deriveUncurryT11(f)
}

func UncurryCurryT11(f func(a error, b rune, c ext.E1, d error) (error, interface{}, S0)) any {
	return deriveUncurryT11(deriveCurryT11(f))
}

func TupleT11(a0 error, a1 rune, a2 ext.E1, a3 error) any {
	return deriveTupleT11(a0, a1, a2, a3)
}

func CurryT12(f func(bool, map[MyInt]map[uint]bool, uint64, error, map[int64]map[rune]N0)) any {
	return deriveCurryT12(f)
}

func FlipT12(f func(bool, map[MyInt]map[uint]bool, uint64, error, map[int64]map[rune]N0)) any {
	return deriveFlipT12(f)
}

func ApplyT12(f func(bool, map[MyInt]map[uint]bool, uint64, error, map[int64]map[rune]N0), last map[int64]map[rune]N0) any {
	return deriveApplyT12(f, last)
}

func UncurryT12(f func(bool) func(map[MyInt]map[uint]bool, uint64, error, map[int64]map[rune]N0)) any {
	return deriveUncurryT12(f)
}

func UncurryCurryT12(f func(bool, map[MyInt]map[uint]bool, uint64, error, map[int64]map[rune]N0)) any {
	return deriveUncurryT12(deriveCurryT12(f))
}

func TupleT12(a0 bool, a1 map[MyInt]map[uint]bool, a2 uint64, a3 error, a4 map[int64]map[rune]N0) any {
	return deriveTupleT12(a0, a1, a2, a3, a4)
}

func CurryT13(f func(a float32, b []N0, c complex64) (K0, int32, error)) any {
	return deriveCurryT13(f)
}

func FlipT13(f func(a float32, b []N0, c complex64) (K0, int32, error)) any {
	return deriveFlipT13(f)
}

func ApplyT13(f func(a float32, b []N0, c complex64) (K0, int32, error), last complex64) any {
	return deriveApplyT13(f, last)
}

func UncurryT13(f func(a float32) func(b []N0, c complex64) (K0, int32, error)) any {
	return deriveUncurryT13(f)
}

func UncurryCurryT13(f func(a float32, b []N0, c complex64) (K0, int32, error)) any {
	return deriveUncurryT13(deriveCurryT13(f))
}

func TupleT13(a0 float32, a1 []N0, a2 complex64) any {
	return deriveTupleT13(a0, a1, a2)
}
