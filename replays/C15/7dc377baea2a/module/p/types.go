package p

type MyU8 uint8

type MyF32 float32

type MyInt int

type MyF float64

type N0 []bool

type K0 struct {
	F0 uintptr
}

type S0 struct {
	f0 map[uint16]S0
}
