package ext

type Num int64

type Key struct {
	K0 int
}

type E0 struct {
}
