package ext

type Num string

type Key struct {
	k0 Num
	k1 int
}

type E0 struct {
	F0 uint
	f1 bool
	f2 complex64
	f3 Key
}
