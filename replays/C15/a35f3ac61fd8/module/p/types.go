package p

type MyInt int

type MyF float64

type K0 struct {
}

type S0 struct {
}
