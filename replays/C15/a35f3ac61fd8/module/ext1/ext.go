package ext

type Num string

type Key struct {
	K0 Num
	k1 int
}

type E0 struct {
	f0 Num
	f1 map[bool]int
}

type E1 struct {
	F0 bool
}
