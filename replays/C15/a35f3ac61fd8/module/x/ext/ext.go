package ext

type Num int

type Key struct {
	k0 Num
}

type E0 struct {
	F0 bool
}

type E1 struct {
}
