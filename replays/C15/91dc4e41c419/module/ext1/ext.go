package ext

type Num int64

type Key struct {
	k0 Num
	k1 Num
}

type E0 struct {
	F0 int
	f1 Num
	F2 bool
	f3 Num
}
