package ext

import (
	ext "subj/ext1"
)

type Num string

type Key struct {
	K0 uintptr
}

type E0 struct {
	f0 Key
	F1 [0]bool
	f2 ext.Key
}
