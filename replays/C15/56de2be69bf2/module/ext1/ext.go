package ext

type Num int64

type Key struct {
	k0 uint8
}

type E0 struct {
	F0 *E0
	F1 int8
}

type E1 struct {
	f0 uint
}
