package p

import (
	ext "subj/ext1"
	ext2 "subj/x/ext"
)

var Anchor = 0

func CurryT0(f func(ext.E1, ext.E1) uintptr) any {
	return deriveCurryT0(f)
}

func FlipT0(f func(ext.E1, ext.E1) uintptr) any {
	return deriveFlipT0(f)
}

func ApplyT0(f func(ext.E1, ext.E1) uintptr, last ext.E1) any {
	return deriveApplyT0(f, last)
}

func UncurryT0(f func(ext.E1) func(ext.E1) uintptr) any {
	return deriveUncurryT0(f)
}

func UncurryCurryT0(f func(ext.E1, ext.E1) uintptr) any {
	return deriveUncurryT0(deriveCurryT0(f))
}

func TupleT0(a0 ext.E1, a1 ext.E1) any {
	return deriveTupleT0(a0, a1)
}

func CurryT1(f func(map[uint8]K0, bool, int64, uint, interface{}) ([]K0, error)) any {
	return deriveCurryT1(f)
}

func FlipT1(f func(map[uint8]K0, bool, int64, uint, interface{}) ([]K0, error)) any {
	return deriveFlipT1(f)
}

func ApplyT1(f func(map[uint8]K0, bool, int64, uint, interface{}) ([]K0, error), last interface{}) any {
	return deriveApplyT1(f, last)
}

func UncurryT1(f func(map[uint8]K0) func(bool, int64, uint, interface{}) ([]K0, error)) any {
	return deriveUncurryT1(f)
}

func UncurryCurryT1(f func(map[uint8]K0, bool, int64, uint, interface{}) ([]K0, error)) any {
	return deriveUncurryT1(deriveCurryT1(f))
}

func TupleT1(a0 map[uint8]K0, a1 bool, a2 int64, a3 uint, a4 interface{}) any {
	return deriveTupleT1(a0, a1, a2, a3, a4)
}

func CurryT2(f func(a error, b uint, c interface{}) map[bool]N1) any {
	return deriveCurryT2(f)
}

func FlipT2(f func(a error, b uint, c interface{}) map[bool]N1) any {
	return deriveFlipT2(f)
}

func ApplyT2(f func(a error, b uint, c interface{}) map[bool]N1, last interface{}) any {
	return deriveApplyT2(f, last)
}

func UncurryT2(f func(a error) func(b uint, a interface{}) map[bool]N1) any {
	return deriveUncurryT2(f)
}

func UncurryCurryT2(f func(a error, b uint, c interface{}) map[bool]N1) any {
	return deriveUncurryT2(deriveCurryT2(f))
}

func TupleT2(a0 error, a1 uint, a2 interface{}) any {
	return deriveTupleT2(a0, a1, a2)
}

func CurryT3(f func(map[uintptr]K0, interface{}, [1]ext2.E0) (error, float64)) any {
	return deriveCurryT3(f)
}

func FlipT3(f func(map[uintptr]K0, interface{}, [1]ext2.E0) (error, float64)) any {
	return deriveFlipT3(f)
}

func ApplyT3(f func(map[uintptr]K0, interface{}, [1]ext2.E0) (error, float64), last [1]ext2.E0) any {
	return deriveApplyT3(f, last)
}

func UncurryT3(f func(map[uintptr]K0) func(interface{}, [1]ext2.E0) (error, float64)) any {
	return deriveUncurryT3(f)
}

func UncurryCurryT3(f func(map[uintptr]K0, interface{}, [1]ext2.E0) (error, float64)) any {
	return deriveUncurryT3(deriveCurryT3(f))
}

func TupleT3(a0 map[uintptr]K0, a1 interface{}, a2 [1]ext2.E0) any {
	return deriveTupleT3(a0, a1, a2)
}

func CurryT4(f func(a error, b *uintptr, _ interface{}, d ext.Key, _ *ext.Key)) any {
	return deriveCurryT4(f)
}

func FlipT4(f func(a error, b *uintptr, _ interface{}, d ext.Key, _ *ext.Key)) any {
	return deriveFlipT4(f)
}

func ApplyT4(f func(a error, b *uintptr, _ interface{}, d ext.Key, _ *ext.Key), last *ext.Key) any {
	return deriveApplyT4(f, last)
}

func UncurryT4(f func(a error) func(b *uintptr, a interface{}, d ext.Key, _ *ext.Key)) any {
	return deriveUncurryT4(f)
}

func UncurryCurryT4(f func(a error, b *uintptr, _ interface{}, d ext.Key, _ *ext.Key)) any {
	return deriveUncurryT4(deriveCurryT4(f))
}

func TupleT4(a0 error, a1 *uintptr, a2 interface{}, a3 ext.Key, a4 *ext.Key) any {
	return deriveTupleT4(a0, a1, a2, a3, a4)
}

func CurryT5(f func(N1, ext.E0, S0, error, map[ext.Num]MyU8) (K0, error)) any {
	return deriveCurryT5(f)
}

func FlipT5(f func(N1, ext.E0, S0, error, map[ext.Num]MyU8) (K0, error)) any {
	return deriveFlipT5(f)
}

func ApplyT5(f func(N1, ext.E0, S0, error, map[ext.Num]MyU8) (K0, error), last map[ext.Num]MyU8) any {
	return deriveApplyT5(f, last)
}

func UncurryT5(f func(N1) func(ext.E0, S0, error, map[ext.Num]MyU8) (K0, error)) any {
	return deriveUncurryT5(f)
}

func UncurryCurryT5(f func(N1, ext.E0, S0, error, map[ext.Num]MyU8) (K0, error)) any {
	return deriveUncurryT5(deriveCurryT5(f))
}

func TupleT5(a0 N1, a1 ext.E0, a2 S0, a3 error, a4 map[ext.Num]MyU8) any {
	return deriveTupleT5(a0, a1, a2, a3, a4)
}

func CurryT6(f func(a MyStr, b MyStr, c error, d error, e ext.Num) (K0, error)) any {
	return deriveCurryT6(f)
}

func FlipT6(f func(a MyStr, b MyStr, c error, d error, e ext.Num) (K0, error)) any {
	return deriveFlipT6(f)
}

func ApplyT6(f func(a MyStr, b MyStr, c error, d error, e ext.Num) (K0, error), last ext.Num) any {
	return deriveApplyT6(f, last)
}

func UncurryT6(f func(a MyStr) func(b MyStr, c error, d error, e ext.Num) (K0, error)) any {
	return deriveUncurryT6(f)
}

func UncurryCurryT6(f func(a MyStr, b MyStr, c error, d error, e ext.Num) (K0, error)) any {
	return deriveUncurryT6(deriveCurryT6(f))
}

func TupleT6(a0 MyStr, a1 MyStr, a2 error, a3 error, a4 ext.Num) any {
	return deriveTupleT6(a0, a1, a2, a3, a4)
}

func CurryT7(f func(a N0, b error, c interface{}, d error, e interface{})) any {
	return deriveCurryT7(f)
}

func FlipT7(f func(a N0, b error, c interface{}, d error, e interface{})) any {
	return deriveFlipT7(f)
}

func ApplyT7(f func(a N0, b error, c interface{}, d error, e interface{}), last interface{}) any {
	return deriveApplyT7(f, last)
}

func UncurryT7(f func(a N0) func(b error, c interface{}, d error, a interface{})) any {
	return deriveUncurryT7(f)
}

func UncurryCurryT7(f func(a N0, b error, c interface{}, d error, e interface{})) any {
	return deriveUncurryT7(deriveCurryT7(f))
}

func TupleT7(a0 N0, a1 error, a2 interface{}, a3 error, a4 interface{}) any {
	return deriveTupleT7(a0, a1, a2, a3, a4)
}

func CurryT8(f func(error, error) (error, int)) any {
	return deriveCurryT8(f)
}

func FlipT8(f func(error, error) (error, int)) any {
	return deriveFlipT8(f)
}

func ApplyT8(f func(error, error) (error, int), last error) any {
	return deriveApplyT8(f, last)
}

func UncurryT8(f func(error) func(error) (error, int)) any {
	return deriveUncurryT8(f)
}

func UncurryCurryT8(f func(error, error) (error, int)) any {
	return deriveUncurryT8(deriveCurryT8(f))
}

func TupleT8(a0 error, a1 error) any {
	return deriveTupleT8(a0, a1)
}

func CurryT9(f func(a ext2.E0, b map[uint8]complex128, c int16, d ext2.E0, e []bool) ([1]float32, interface{}, ext2.Num)) any {
	return deriveCurryT9(f)
}

func FlipT9(f func(a ext2.E0, b map[uint8]complex128, c int16, d ext2.E0, e []bool) ([1]float32, interface{}, ext2.Num)) any {
	return deriveFlipT9(f)
}

func ApplyT9(f func(a ext2.E0, b map[uint8]complex128, c int16, d ext2.E0, e []bool) ([1]float32, interface{}, ext2.Num), last []bool) any {
	return deriveApplyT9(f, last)
}

func UncurryT9(f func(a ext2.E0) func(b map[uint8]complex128, c int16, d ext2.E0, e []bool) ([1]float32, interface{}, ext2.Num)) any {
	return deriveUncurryT9(f)
}

func UncurryCurryT9(f func(a ext2.E0, b map[uint8]complex128, c int16, d ext2.E0, e []bool) ([1]float32, interface{}, ext2.Num)) any {
	return deriveUncurryT9(deriveCurryT9(f))
}

func TupleT9(a0 ext2.E0, a1 map[uint8]complex128, a2 int16, a3 ext2.E0, a4 []bool) any {
	return deriveTupleT9(a0, a1, a2, a3, a4)
}

func CurryT10(f func(h interface{}, param_1 []int, err N1) ext.Key) any {
	return deriveCurryT10(f)
}

func FlipT10(f func(h interface{}, param_1 []int, err N1) ext.Key) any {
	return deriveFlipT10(f)
}

func ApplyT10(f func(h interface{}, param_1 []int, err N1) ext.Key, last N1) any {
	return deriveApplyT10(f, last)
}

func UncurryT10(f func(h interface{}) func(param_1 []int, err N1) ext.Key) any {
	return deriveUncurryT10(f)
}

func UncurryCurryT10(f func(h interface{}, param_1 []int, err N1) ext.Key) any {
	return deriveUncurryT10(deriveCurryT10(f))
}

func TupleT10(a0 interface{}, a1 []int, a2 N1) any {
	return deriveTupleT10(a0, a1, a2)
}

func CurryT11(f func(success error, ok ext2.Key)) any {
	return deriveCurryT11(f)
}

func FlipT11(f func(success error, ok ext2.Key)) any {
	return deriveFlipT11(f)
}

func ApplyT11(f func(success error, ok ext2.Key), last ext2.Key) any {
	return deriveApplyT11(f, last)
}

func UncurryT11(f func(success error) func(ok ext2.Key)) any {
	return deriveUncurryT11(f)
}

func UncurryCurryT11(f func(success error, ok ext2.Key)) any {
	return deriveUncurryT11(deriveCurryT11(f))
}

func TupleT11(a0 error, a1 ext2.Key) any {
	return deriveTupleT11(a0, a1)
}

func CurryT12(f func(a N1, b float64)) any {
	return deriveCurryT12(f)
}

func FlipT12(f func(a N1, b float64)) any {
	return deriveFlipT12(f)
}

func ApplyT12(f func(a N1, b float64), last float64) any {
	return deriveApplyT12(f, last)
}

func UncurryT12(f func(a N1) func(b float64)) any {
	return deriveUncurryT12(f)
}

func UncurryCurryT12(f func(a N1, b float64)) any {
	return deriveUncurryT12(deriveCurryT12(f))
}

func TupleT12(a0 N1, a1 float64) any {
	return deriveTupleT12(a0, a1)
}

func CurryT13(f func(a ext.E1, b K0, c ext.E1) N0) any {
	return deriveCurryT13(f)
}

func FlipT13(f func(a ext.E1, b K0, c ext.E1) N0) any {
	return deriveFlipT13(f)
}

func ApplyT13(f func(a ext.E1, b K0, c ext.E1) N0, last ext.E1) any {
	return deriveApplyT13(f, last)
}

func UncurryT13(f func(a ext.E1) func(b K0, a ext.E1) N0) any {
	return deriveUncurryT13(f)
}

func UncurryCurryT13(f func(a ext.E1, b K0, c ext.E1) N0) any {
	return deriveUncurryT13(deriveCurryT13(f))
}

func TupleT13(a0 ext.E1, a1 K0, a2 ext.E1) any {
	return deriveTupleT13(a0, a1, a2)
}
