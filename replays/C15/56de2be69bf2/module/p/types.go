package p

import (
	ext "subj/ext1"
)

type MyStr string

type MyU8 uint8

type MyF32 float32

type N0 *uint8

type N1 []bool

type K0 struct {
}

type S0 struct {
	F0 map[ext.Num][]S0
	F1 *int64
	F2 ext.E0
	F3 N0
}

type S1 struct {
	f0 int
	F1 ext.E0
	F2 map[uintptr]float64
	S0
}
