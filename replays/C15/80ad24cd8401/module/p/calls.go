package p

import (
	ext "subj/ext1"
	other "subj/x/other"
)

var Anchor = 0

func CurryT0(f func(error, interface{}, error) error) any {
	return deriveCurryT0(f)
}

func FlipT0(f func(error, interface{}, error) error) any {
	return deriveFlipT0(f)
}

func ApplyT0(f func(error, interface{}, error) error, last error) any {
	return deriveApplyT0(f, last)
}

func UncurryT0(f func(error) func(interface{}, error) error) any {
	return deriveUncurryT0(f)
}

func UncurryCurryT0(f func(error, interface{}, error) error) any {
	return deriveUncurryT0(deriveCurryT0(f))
}

func TupleT0(a0 error, a1 interface{}, a2 error) any {
	return deriveTupleT0(a0, a1, a2)
}

func CurryT1(f func(error, error, interface{})) any {
	return deriveCurryT1(f)
}

func FlipT1(f func(error, error, interface{})) any {
	return deriveFlipT1(f)
}

func ApplyT1(f func(error, error, interface{}), last interface{}) any {
	return deriveApplyT1(f, last)
}

func UncurryT1(f func(error) func(error, interface{})) any {
	return deriveUncurryT1(f)
}

func UncurryCurryT1(f func(error, error, interface{})) any {
	return deriveUncurryT1(deriveCurryT1(f))
}

func CurryT2(f func(error, interface{}) bool) any {
	return deriveCurryT2(f)
}

func FlipT2(f func(error, interface{}) bool) any {
	return deriveFlipT2(f)
}

func ApplyT2(f func(error, interface{}) bool, last interface{}) any {
	return deriveApplyT2(f, last)
}

func UncurryT2(f func(error) func(interface{}) bool) any {
	return deriveUncurryT2(f)
}

func UncurryCurryT2(f func(error, interface{}) bool) any {
	return deriveUncurryT2(deriveCurryT2(f))
}

func TupleT2(a0 error, a1 interface{}) any {
	return deriveTupleT2(a0, a1)
}

func CurryT3(f func(a interface{}, b interface{}, c error)) any {
	return deriveCurryT3(f)
}

func FlipT3(f func(a interface{}, b interface{}, c error)) any {
	return deriveFlipT3(f)
}

func ApplyT3(f func(a interface{}, b interface{}, c error), last error) any {
	return deriveApplyT3(f, last)
}

func UncurryT3(f func(a interface{}) func(b interface{}, a error)) any {
	return deriveUncurryT3(f)
}

func UncurryCurryT3(f func(a interface{}, b interface{}, c error)) any {
	return deriveUncurryT3(deriveCurryT3(f))
}

func CurryT4(f func(a error, b interface{}, c error)) any {
	return deriveCurryT4(f)
}

func FlipT4(f func(a error, b interface{}, c error)) any {
	return deriveFlipT4(f)
}

func ApplyT4(f func(a error, b interface{}, c error), last error) any {
	return deriveApplyT4(f, last)
}

func UncurryT4(f func(a error) func(b interface{}, c error)) any {
	return deriveUncurryT4(f)
}

func UncurryCurryT4(f func(a error, b interface{}, c error)) any {
	return deriveUncurryT4(deriveCurryT4(f))
}

func CurryT5(f func(*int, *int) (S0, map[K0]S0)) any {
	return deriveCurryT5(f)
}

func FlipT5(f func(*int, *int) (S0, map[K0]S0)) any {
	return deriveFlipT5(f)
}

func ApplyT5(f func(*int, *int) (S0, map[K0]S0), last *int) any {
	return deriveApplyT5(f, last)
}

func UncurryT5(f func(*int) func(*int) (S0, map[K0]S0)) any {
	return deriveUncurryT5(f)
}

func UncurryCurryT5(f func(*int, *int) (S0, map[K0]S0)) any {
	return deriveUncurryT5(deriveCurryT5(f))
}

func TupleT5(a0 *int, a1 *int) any {
	return deriveTupleT5(a0, a1)
}

func CurryT6(f func(map[other.Key]uint, *N0, map[complex128]N0) map[rune]S0) any {
	return deriveCurryT6(f)
}

func FlipT6(f func(map[other.Key]uint, *N0, map[complex128]N0) map[rune]S0) any {
	return deriveFlipT6(f)
}

func ApplyT6(f func(map[other.Key]uint, *N0, map[complex128]N0) map[rune]S0, last map[complex128]N0) any {
	return deriveApplyT6(f, last)
}

func UncurryT6(f func(map[other.Key]uint) func(*N0, map[complex128]N0) map[rune]S0) any {
	return deriveUncurryT6(f)
}

func UncurryCurryT6(f func(map[other.Key]uint, *N0, map[complex128]N0) map[rune]S0) any {
	return deriveUncurryT6(deriveCurryT6(f))
}

func TupleT6(a0 map[other.Key]uint, a1 *N0, a2 map[complex128]N0) any {
	return deriveTupleT6(a0, a1, a2)
}

func CurryT7(f func(_ map[uint]K0, b map[uint]K0) interface{}) any {
	return deriveCurryT7(f)
}

func FlipT7(f func(_ map[uint]K0, b map[uint]K0) interface{}) any {
	return deriveFlipT7(f)
}

func ApplyT7(f func(_ map[uint]K0, b map[uint]K0) interface{}, last map[uint]K0) any {
	return deriveApplyT7(f, last)
}

func UncurryT7(f func(_ map[uint]K0) func(param_0 map[uint]K0) interface{}) any {
	return deriveUncurryT7(f)
}

func UncurryCurryT7(f func(_ map[uint]K0, b map[uint]K0) interface{}) any {
	return deriveUncurryT7(deriveCurryT7(f))
}

func TupleT7(a0 map[uint]K0, a1 map[uint]K0) any {
	return deriveTupleT7(a0, a1)
}

func CurryT8(f func(a interface{}, b interface{}, c other.E0, d N0, e map[int64]map[bool]S0) interface{}) any {
	return deriveCurryT8(f)
}

func FlipT8(f func(a interface{}, b interface{}, c other.E0, d N0, e map[int64]map[bool]S0) interface{}) any {
	return deriveFlipT8(f)
}

func ApplyT8(f func(a interface{}, b interface{}, c other.E0, d N0, e map[int64]map[bool]S0) interface{}, last map[int64]map[bool]S0) any {
	return deriveApplyT8(f, last)
}

func UncurryT8(f func(a interface{}) func(b interface{}, c other.E0, d N0, e map[int64]map[bool]S0) interface{}) any {
	return deriveUncurryT8(f)
}

func UncurryCurryT8(f func(a interface{}, b interface{}, c other.E0, d N0, e map[int64]map[bool]S0) interface{}) any {
	return deriveUncurryT8(deriveCurryT8(f))
}

func TupleT8(a0 interface{}, a1 interface{}, a2 other.E0, a3 N0, a4 map[int64]map[bool]S0) any {
	return deriveTupleT8(a0, a1, a2, a3, a4)
}

func CurryT9(f func(_ S0, b error, c N0, d interface{}) error) any {
	return deriveCurryT9(f)
}

func FlipT9(f func(_ S0, b error, c N0, d interface{}) error) any {
	return deriveFlipT9(f)
}

func ApplyT9(f func(_ S0, b error, c N0, d interface{}) error, last interface{}) any {
	return deriveApplyT9(f, last)
}

func UncurryT9(f func(_ S0) func(param_0 error, c N0, d interface{}) error) any {
	return deriveUncurryT9(f)
}

func UncurryCurryT9(f func(_ S0, b error, c N0, d interface{}) error) any {
	return deriveUncurryT9(deriveCurryT9(f))
}

func TupleT9(a0 S0, a1 error, a2 N0, a3 interface{}) any {
	return deriveTupleT9(a0, a1, a2, a3)
}

func CurryT10(f func(in interface{}, ok error) (ext.E0, int16)) any {
	return deriveCurryT10(f)
}

func FlipT10(f func(in interface{}, ok error) (ext.E0, int16)) any {
	return deriveFlipT10(f)
}

func ApplyT10(f func(in interface{}, ok error) (ext.E0, int16), last error) any {
	return deriveApplyT10(f, last)
}

func UncurryT10(f func(in interface{}) func(ok error) (ext.E0, int16)) any {
	return deriveUncurryT10(f)
}

func UncurryCurryT10(f func(in interface{}, ok error) (ext.E0, int16)) any {
	return deriveUncurryT10(deriveCurryT10(f))
}

func CurryT11(f func(a complex64, _ other.E0, c int8, _ N0) error) any {
	return deriveCurryT11(f)
}

func FlipT11(f func(a complex64, _ other.E0, c int8, _ N0) error) any {
	return deriveFlipT11(f)
}

func ApplyT11(f func(a complex64, _ other.E0, c int8, _ N0) error, last N0) any {
	return deriveApplyT11(f, last)
}

func UncurryT11(f func(a complex64) func(_ other.E0, c int8, a N0) error) any {
	return deriveUncurryT11(f)
}

func UncurryCurryT11(f func(a complex64, _ other.E0, c int8, _ N0) error) any {
	return deriveUncurryT11(deriveCurryT11(f))
}

func TupleT11(a0 complex64, a1 other.E0, a2 int8, a3 N0) any {
	return deriveTupleT11(a0, a1, a2, a3)
}

func CurryT12(f func(param_0 **S0, v0 rune, success other.Num) int8) any {
	return deriveCurryT12(f)
}

func FlipT12(f func(param_0 **S0, v0 rune, success other.Num) int8) any {
	return deriveFlipT12(f)
}

func ApplyT12(f func(param_0 **S0, v0 rune, success other.Num) int8, last other.Num) any {
	return deriveApplyT12(f, last)
}

func UncurryT12(f func(param_0 **S0) func(v0 rune, success other.Num) int8) any {
	return deriveUncurryT12(f)
}

func UncurryCurryT12(f func(param_0 **S0, v0 rune, success other.Num) int8) any {
	return deriveUncurryT12(deriveCurryT12(f))
}

func TupleT12(a0 **S0, a1 rune, a2 other.Num) any {
	return deriveTupleT12(a0, a1, a2)
}

func CurryT13(f func(a map[int]MyStr, b uintptr, c interface{}) (map[bool]K0, int64)) any {
	return deriveCurryT13(f)
}

func FlipT13(f func(a map[int]MyStr, b uintptr, c interface{}) (map[bool]K0, int64)) any {
	return deriveFlipT13(f)
}

func ApplyT13(f func(a map[int]MyStr, b uintptr, c interface{}) (map[bool]K0, int64), last interface{}) any {
	return deriveApplyT13(f, last)
}

func UncurryT13(f func(a map[int]MyStr) func(a uintptr, c interface{}) (map[bool]K0, int64)) any {
	return deriveUncurryT13(f)
}

func UncurryCurryT13(f func(a map[int]MyStr, b uintptr, c interface{}) (map[bool]K0, int64)) any {
	return deriveUncurryT13(deriveCurryT13(f))
}

func TupleT13(a0 map[int]MyStr, a1 uintptr, a2 interface{}) any {
	return deriveTupleT13(a0, a1, a2)
}
