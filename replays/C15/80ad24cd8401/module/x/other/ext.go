package other

type Num uint8

type Key struct {
	K0 bool
}

type E0 struct {
}

type E1 struct {
	F0 bool
}
