package ext

type Num int64

type Key struct {
	k0 string
	k1 bool
	k2 Num
}

type E0 struct {
	F0 bool
}

type E1 struct {
	f0 string
	f1 E0
	F2 bool
}
