package p

type MyStr string

type K0 struct {
}

type K1 struct {
	F0 bool
}

type S0 struct {
}
