package ext

type Num uint8

type Key struct {
	K0 Num
	K1 Num
	K2 Num
}

type E0 struct {
}
