package ext

import (
	ext "subj/ext1"
)

type Num int

type Key struct {
	k0 int
}

type E0 struct {
	F0 ext.Key
}
