package ext

type Num string

type Key struct {
	K0 int
}

type E0 struct {
	F0 bool
}

type E1 struct {
}
