package p

type MyStr string

type MyU8 uint8

type MyF32 float32

type MyInt int

type N0 []int

type K0 struct {
}

type S0 struct {
}
