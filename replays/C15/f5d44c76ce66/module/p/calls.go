package p

import (
	ext "subj/ext1"
	other "subj/x/other"
)

var Anchor = 0

func CurryT0(f func(interface{}, interface{}) error) any {
	return deriveCurryT0(f)
}

func FlipT0(f func(interface{}, interface{}) error) any {
	return deriveFlipT0(f)
}

func ApplyT0(f func(interface{}, interface{}) error, last interface{}) any {
	return deriveApplyT0(f, last)
}

func UncurryT0(f func(interface{}) func(interface{}) error) any {
	return deriveUncurryT0(f)
}

func UncurryCurryT0(f func(interface{}, interface{}) error) any {
	return deriveUncurryT0(deriveCurryT0(f))
}

func TupleT0(a0 interface{}, a1 interface{}) any {
	return deriveTupleT0(a0, a1)
}

func CurryT1(f func(a interface{}, b bool) interface{}) any {
	return deriveCurryT1(f)
}

func FlipT1(f func(a interface{}, b bool) interface{}) any {
	return deriveFlipT1(f)
}

func ApplyT1(f func(a interface{}, b bool) interface{}, last bool) any {
	return deriveApplyT1(f, last)
}

func UncurryT1(f func(a interface{}) func(b bool) interface{}) any {
	return deriveUncurryT1(f)
}

func UncurryCurryT1(f func(a interface{}, b bool) interface{}) any {
	return deriveUncurryT1(deriveCurryT1(f))
}

func CurryT2(f func(a error, b error, c interface{}, d bool, e interface{}) error) any {
	return deriveCurryT2(f)
}

func FlipT2(f func(a error, b error, c interface{}, d bool, e interface{}) error) any {
	return deriveFlipT2(f)
}

func ApplyT2(f func(a error, b error, c interface{}, d bool, e interface{}) error, last interface{}) any {
	return deriveApplyT2(f, last)
}

func UncurryT2(f func(a error) func(b error, c interface{}, d bool, e interface{}) error) any {
	return deriveUncurryT2(f)
}

func UncurryCurryT2(f func(a error, b error, c interface{}, d bool, e interface{}) error) any {
	return deriveUncurryT2(deriveCurryT2(f))
}

func TupleT2(a0 error, a1 error, a2 interface{}, a3 bool, a4 interface{}) any {
	return deriveTupleT2(a0, a1, a2, a3, a4)
}

func CurryT3(f func(a error, b interface{}) interface{}) any {
	return deriveCurryT3(f)
}

func FlipT3(f func(a error, b interface{}) interface{}) any {
	return deriveFlipT3(f)
}

func ApplyT3(f func(a error, b interface{}) interface{}, last interface{}) any {
	return deriveApplyT3(f, last)
}

func UncurryT3(f func(a error) func(a interface{}) interface{}) any {
	return deriveUncurryT3(f)
}

func UncurryCurryT3(f func(a error, b interface{}) interface{}) any {
	return deriveUncurryT3(deriveCurryT3(f))
}

func CurryT4(f func(interface{}, error, error) interface{}) any {
	return deriveCurryT4(f)
}

func FlipT4(f func(interface{}, error, error) interface{}) any {
	return deriveFlipT4(f)
}

func ApplyT4(f func(interface{}, error, error) interface{}, last error) any {
	return deriveApplyT4(f, last)
}

func UncurryT4(f func(interface{}) func(error, error) interface{}) any {
	return deriveUncurryT4(f)
}

func UncurryCurryT4(f func(interface{}, error, error) interface{}) any {
	return deriveUncurryT4(deriveCurryT4(f))
}

func TupleT4(a0 interface{}, a1 error, a2 error) any {
	return deriveTupleT4(a0, a1, a2)
}

func CurryT5(f func(a interface{}, _ int16, _ bool)) any {
	return deriveCurryT5(f)
}

func FlipT5(f func(a interface{}, _ int16, _ bool)) any {
	return deriveFlipT5(f)
}

func ApplyT5(f func(a interface{}, _ int16, _ bool), last bool) any {
	return deriveApplyT5(f, last)
}

func UncurryT5(f func(a interface{}) func(a int16, _ bool)) any {
	return deriveUncurryT5(f)
}

func UncurryCurryT5(f func(a interface{}, _ int16, _ bool)) any {
	return deriveUncurryT5(deriveCurryT5(f))
}

func TupleT5(a0 interface{}, a1 int16, a2 bool) any {
	return deriveTupleT5(a0, a1, a2)
}

func CurryT6(f func(a interface{}, b uint16, c *other.Num) (ext.Num, map[[0]other.Num]other.E0)) any {
	return deriveCurryT6(f)
}

func FlipT6(f func(a interface{}, b uint16, c *other.Num) (ext.Num, map[[0]other.Num]other.E0)) any {
	return deriveFlipT6(f)
}

func ApplyT6(f func(a interface{}, b uint16, c *other.Num) (ext.Num, map[[0]other.Num]other.E0), last *other.Num) any {
	return deriveApplyT6(f, last)
}

func UncurryT6(f func(a interface{}) func(b uint16, c *other.Num) (ext.Num, map[[0]other.Num]other.E0)) any {
	return deriveUncurryT6(f)
}

func UncurryCurryT6(f func(a interface{}, b uint16, c *other.Num) (ext.Num, map[[0]other.Num]other.E0)) any {
	return deriveUncurryT6(deriveCurryT6(f))
}

func TupleT6(a0 interface{}, a1 uint16, a2 *other.Num) any {
	return deriveTupleT6(a0, a1, a2)
}

func CurryT7(f func(_ interface{}, b interface{}) (string, error)) any {
	return deriveCurryT7(f)
}

func FlipT7(f func(_ interface{}, b interface{}) (string, error)) any {
	return deriveFlipT7(f)
}

func ApplyT7(f func(_ interface{}, b interface{}) (string, error), last interface{}) any {
	return deriveApplyT7(f, last)
}

func UncurryT7(f func(_ interface{}) func(b interface{}) (string, error)) any {
	return deriveUncurryT7(f)
}

func UncurryCurryT7(f func(_ interface{}, b interface{}) (string, error)) any {
	return deriveUncurryT7(deriveCurryT7(f))
}

func CurryT8(f func(_ [0]S0, _ map[float64]S0, c [0]S0, d int64, _ interface{})) any {
	return deriveCurryT8(f)
}

func FlipT8(f func(_ [0]S0, _ map[float64]S0, c [0]S0, d int64, _ interface{})) any {
	return deriveFlipT8(f)
}

func ApplyT8(f func(_ [0]S0, _ map[float64]S0, c [0]S0, d int64, _ interface{}), last interface{}) any {
	return deriveApplyT8(f, last)
}

func UncurryT8(f func(_ [0]S0) func(_ map[float64]S0, c [0]S0, d int64, _ interface{})) any {
	return deriveUncurryT8(f)
}

func UncurryCurryT8(f func(_ [0]S0, _ map[float64]S0, c [0]S0, d int64, _ interface{})) any {
	return deriveUncurryT8(deriveCurryT8(f))
}

func TupleT8(a0 [0]S0, a1 map[float64]S0, a2 [0]S0, a3 int64, a4 interface{}) any {
	return deriveTupleT8(a0, a1, a2, a3, a4)
}

func CurryT9(f func(a int16, b int16) (ext.E0, error)) any {
	return deriveCurryT9(f)
}

func FlipT9(f func(a int16, b int16) (ext.E0, error)) any {
	return deriveFlipT9(f)
}

func ApplyT9(f func(a int16, b int16) (ext.E0, error), last int16) any {
	return deriveApplyT9(f, last)
}

func UncurryT9(f func(a int16) func(b int16) (ext.E0, error)) any {
	return deriveUncurryT9(f)
}

func UncurryCurryT9(f func(a int16, b int16) (ext.E0, error)) any {
	return deriveUncurryT9(deriveCurryT9(f))
}

func CurryT10(f func(innerParam_0 map[ext.Num]K0, f error, that MyStr, g other.Num) (bool, byte, error)) any {
	return deriveCurryT10(f)
}

func FlipT10(f func(innerParam_0 map[ext.Num]K0, f error, that MyStr, g other.Num) (bool, byte, error)) any {
	return deriveFlipT10(f)
}

func ApplyT10(f func(innerParam_0 map[ext.Num]K0, f error, that MyStr, g other.Num) (bool, byte, error), last other.Num) any {
	return deriveApplyT10(f, last)
}

func UncurryT10(f func(innerParam_0 map[ext.Num]K0) func(f error, that MyStr, g other.Num) (bool, byte, error)) any {
	return deriveUncurryT10(f)
}

func UncurryCurryT10(f func(innerParam_0 map[ext.Num]K0, f error, that MyStr, g other.Num) (bool, byte, error)) any {
	return deriveUncurryT10(deriveCurryT10(f))
}

func TupleT10(a0 map[ext.Num]K0, a1 error, a2 MyStr, a3 other.Num) any {
	return deriveTupleT10(a0, a1, a2, a3)
}

func CurryT11(f func(uint8, int) rune) any {
	return deriveCurryT11(f)
}

func FlipT11(f func(uint8, int) rune) any {
	return deriveFlipT11(f)
}

func ApplyT11(f func(uint8, int) rune, last int) any {
	return deriveApplyT11(f, last)
}

func UncurryT11(f func(uint8) func(int) rune) any {
	return deriveUncurryT11(f)
}

func UncurryCurryT11(f func(uint8, int) rune) any {
	return deriveUncurryT11(deriveCurryT11(f))
}

func CurryT12(f func(a error, _ MyU8) (int64, []S0)) any {
	return deriveCurryT12(f)
}

func FlipT12(f func(a error, _ MyU8) (int64, []S0)) any {
	return deriveFlipT12(f)
}

func ApplyT12(f func(a error, _ MyU8) (int64, []S0), last MyU8) any {
	return deriveApplyT12(f, last)
}

func UncurryT12(f func(a error) func(_ MyU8) (int64, []S0)) any {
	return deriveUncurryT12(f)
}

func UncurryCurryT12(f func(a error, _ MyU8) (int64, []S0)) any {
	return deriveUncurryT12(deriveCurryT12(f))
}

func CurryT13(f func(v0 uint8, res0 interface{}) K0) any {
	return deriveCurryT13(f)
}

func FlipT13(f func(v0 uint8, res0 interface{}) K0) any {
	return deriveFlipT13(f)
}

func ApplyT13(f func(v0 uint8, res0 interface{}) K0, last interface{}) any {
	return deriveApplyT13(f, last)
}

func UncurryT13(f func(v0 uint8) func(res0 interface{}) K0) any {
	return deriveUncurryT13(f)
}

func UncurryCurryT13(f func(v0 uint8, res0 interface{}) K0) any {
	return deriveUncurryT13(deriveCurryT13(f))
}
