package p

type MyStr string

type MyU8 uint8

type K0 struct {
}

type S0 struct {
	f0 bool
}
