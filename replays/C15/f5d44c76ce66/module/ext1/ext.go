package ext

type Num int64

type Key struct {
	K0 Num
	K1 int
}

type E0 struct {
	f0 int
}
