package other

type Num int64

type Key struct {
	K0 byte
}

type E0 struct {
}

type E1 struct {
	f0 int8
	F1 int
}
