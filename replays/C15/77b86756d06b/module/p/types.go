package p

import (
	ext "subj/ext1"
	ext2 "subj/x/ext"
)

type MyStr string

type MyU8 uint8

type MyF32 float32

type N0 map[complex128]int64

type N1 []uint8

type N2 map[int8]uint

type K0 struct {
}

type S0 struct {
	F0 ext2.E0
	K0
}

type S1 struct {
	F0 map[ext.Key]ext2.Key
	F1 bool
	f2 [2][1]ext2.Key
	F3 ext2.Num
	F4 bool
}

type S2 struct {
}
