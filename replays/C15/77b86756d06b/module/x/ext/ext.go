package ext

type Num int64

type Key struct {
	K0 Num
	k1 Num
}

type E0 struct {
	f0 bool
}
