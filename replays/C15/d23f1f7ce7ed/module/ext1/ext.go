package ext

type Num string

type Key struct {
	k0 int
	k1 int64
	K2 int
}

type E0 struct {
}
