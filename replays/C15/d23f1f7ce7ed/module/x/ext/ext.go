package ext

type Num int64

type Key struct {
	K0 Num
	K1 uint16
	K2 int8
}

type E0 struct {
}

type E1 struct {
	f0 int
	F1 bool
}
