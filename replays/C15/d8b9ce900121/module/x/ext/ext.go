package ext

import (
	ext "subj/ext1"
)

type Num int64

type Key struct {
	k0 Num
}

type E0 struct {
	f0 ext.Key
	f1 ext.Num
	f2 ext.Num
}
