package p

import (
	ext2 "subj/x/ext"
)

var Anchor = 0

func CurryT0(f func(error, error)) any {
	return deriveCurryT0(f)
}

func FlipT0(f func(error, error)) any {
	return deriveFlipT0(f)
}

func ApplyT0(f func(error, error), last error) any {
	return deriveApplyT0(f, last)
}

func UncurryT0(f func(error) func(error)) any {
	return deriveUncurryT0(f)
}

func UncurryCurryT0(f func(error, error)) any {
	return deriveUncurryT0(deriveCurryT0(f))
}

func TupleT0(a0 error, a1 error) any {
	return deriveTupleT0(a0, a1)
}

func CurryT1(f func(interface{}, error) error) any {
	return deriveCurryT1(f)
}

func FlipT1(f func(interface{}, error) error) any {
	return deriveFlipT1(f)
}

func ApplyT1(f func(interface{}, error) error, last error) any {
	return deriveApplyT1(f, last)
}

func UncurryT1(f func(interface{}) func(error) error) any {
	return deriveUncurryT1(f)
}

func UncurryCurryT1(f func(interface{}, error) error) any {
	return deriveUncurryT1(deriveCurryT1(f))
}

func CurryT2(f func(g interface{}, f error, success error) interface{}) any {
	return deriveCurryT2(f)
}

func FlipT2(f func(g interface{}, f error, success error) interface{}) any {
	return deriveFlipT2(f)
}

func ApplyT2(f func(g interface{}, f error, success error) interface{}, last error) any {
	return deriveApplyT2(f, last)
}

func UncurryT2(f func(g interface{}) func(f error, g error) interface{}) any {
	return deriveUncurryT2(f)
}

func UncurryCurryT2(f func(g interface{}, f error, success error) interface{}) any {
	return deriveUncurryT2(deriveCurryT2(f))
}

func TupleT2(a0 interface{}, a1 error, a2 error) any {
	return deriveTupleT2(a0, a1, a2)
}

func CurryT3(f func(a error, b interface{})) any {
	return deriveCurryT3(f)
}

func FlipT3(f func(a error, b interface{})) any {
	return deriveFlipT3(f)
}

func ApplyT3(f func(a error, b interface{}), last interface{}) any {
	return deriveApplyT3(f, last)
}

func UncurryT3(f func(a error) func(b interface{})) any {
	return deriveUncurryT3(f)
}

func UncurryCurryT3(f func(a error, b interface{})) any {
	return deriveUncurryT3(deriveCurryT3(f))
}

func CurryT4(f func(_ int, _ int, c error) interface{}) any {
	return deriveCurryT4(f)
}

func FlipT4(f func(_ int, _ int, c error) interface{}) any {
	return deriveFlipT4(f)
}

func ApplyT4(f func(_ int, _ int, c error) interface{}, last error) any {
	return deriveApplyT4(f, last)
}

func UncurryT4(f func(_ int) func(_ int, c error) interface{}) any {
	return deriveUncurryT4(f)
}

func UncurryCurryT4(f func(_ int, _ int, c error) interface{}) any {
	return deriveUncurryT4(deriveCurryT4(f))
}

func TupleT4(a0 int, a1 int, a2 error) any {
	return deriveTupleT4(a0, a1, a2)
}

func CurryT5(f func(interface{}, error, error)) any {
	return deriveCurryT5(f)
}

func FlipT5(f func(interface{}, error, error)) any {
	return deriveFlipT5(f)
}

func ApplyT5(f func(interface{}, error, error), last error) any {
	return deriveApplyT5(f, last)
}

func UncurryT5(f func(interface{}) func(error, error)) any {
	return deriveUncurryT5(f)
}

func UncurryCurryT5(f func(interface{}, error, error)) any {
	return deriveUncurryT5(deriveCurryT5(f))
}

func CurryT6(f func(interface{}, interface{}, error)) any {
	return deriveCurryT6(f)
}

func FlipT6(f func(interface{}, interface{}, error)) any {
	return deriveFlipT6(f)
}

func ApplyT6(f func(interface{}, interface{}, error), last error) any {
	return deriveApplyT6(f, last)
}

func UncurryT6(f func(interface{}) func(interface{}, error)) any {
	return deriveUncurryT6(f)
}

func UncurryCurryT6(f func(interface{}, interface{}, error)) any {
	return deriveUncurryT6(deriveCurryT6(f))
}

func CurryT7(f func(ok int, param_0 interface{}, in int) (ext2.Num, N0)) any {
	return deriveCurryT7(f)
}

func FlipT7(f func(ok int, param_0 interface{}, in int) (ext2.Num, N0)) any {
	return deriveFlipT7(f)
}

func ApplyT7(f func(ok int, param_0 interface{}, in int) (ext2.Num, N0), last int) any {
	return deriveApplyT7(f, last)
}

func UncurryT7(f func(ok int) func(ok interface{}, in int) (ext2.Num, N0)) any {
	return deriveUncurryT7(f)
}

func UncurryCurryT7(f func(ok int, param_0 interface{}, in int) (ext2.Num, N0)) any {
	return deriveUncurryT7(deriveCurryT7(f))
}

func TupleT7(a0 int, a1 interface{}, a2 int) any {
	return deriveTupleT7(a0, a1, a2)
}

func CurryT8(f func(a interface{}, b map[string]K1) (K0, K1)) any {
	return deriveCurryT8(f)
}

func FlipT8(f func(a interface{}, b map[string]K1) (K0, K1)) any {
	return deriveFlipT8(f)
}

func ApplyT8(f func(a interface{}, b map[string]K1) (K0, K1), last map[string]K1) any {
	return deriveApplyT8(f, last)
}

func UncurryT8(f func(a interface{}) func(b map[string]K1) (K0, K1)) any {
	return deriveUncurryT8(f)
}

func UncurryCurryT8(f func(a interface{}, b map[string]K1) (K0, K1)) any {
	return deriveUncurryT8(deriveCurryT8(f))
}

func TupleT8(a0 interface{}, a1 map[string]K1) any {
	return deriveTupleT8(a0, a1)
}

func CurryT9(f func(a interface{}, b interface{}) (N0, interface{}, MyStr)) any {
	return deriveCurryT9(f)
}

func FlipT9(f func(a interface{}, b interface{}) (N0, interface{}, MyStr)) any {
	return deriveFlipT9(f)
}

func ApplyT9(f func(a interface{}, b interface{}) (N0, interface{}, MyStr), last interface{}) any {
	return deriveApplyT9(f, last)
}

func UncurryT9(f func(a interface{}) func(a interface{}) (N0, interface{}, MyStr)) any {
	return deriveUncurryT9(f)
}

func UncurryCurryT9(f func(a interface{}, b interface{}) (N0, interface{}, MyStr)) any {
	return deriveUncurryT9(deriveCurryT9(f))
}

func CurryT10(f func(a int, b uint32) error) any {
	return deriveCurryT10(f)
}

func FlipT10(f func(a int, b uint32) error) any {
	return deriveFlipT10(f)
}

func ApplyT10(f func(a int, b uint32) error, last uint32) any {
	return deriveApplyT10(f, last)
}

func UncurryT10(f func(a int) func(b uint32) error) any {
	return deriveUncurryT10(f)
}

func UncurryCurryT10(f func(a int, b uint32) error) any {
	return deriveUncurryT10(deriveCurryT10(f))
}

func TupleT10(a0 int, a1 uint32) any {
	return deriveTupleT10(a0, a1)
}

func CurryT11(f func(a error, b error, c N0) (N0, bool, error)) any {
	return deriveCurryT11(f)
}

func FlipT11(f func(a error, b error, c N0) (N0, bool, error)) any {
	return deriveFlipT11(f)
}

func ApplyT11(f func(a error, b error, c N0) (N0, bool, error), last N0) any {
	return deriveApplyT11(f, last)
}

func UncurryT11(f func(a error) func(b error, c N0) (N0, bool, error)) any {
	return deriveUncurryT11(f)
}

func UncurryCurryT11(f func(a error, b error, c N0) (N0, bool, error)) any {
	return deriveUncurryT11(deriveCurryT11(f))
}

func TupleT11(a0 error, a1 error, a2 N0) any {
	return deriveTupleT11(a0, a1, a2)
}

func CurryT12(f func(error, error) interface{}) any {
	return deriveCurryT12(f)
}

func FlipT12(f func(error, error) interface{}) any {
	return deriveFlipT12(f)
}

func ApplyT12(f func(error, error) interface{}, last error) any {
	return deriveApplyT12(f, last)
}

func UncurryT12(f func(error) func(error) interface{}) any {
	return deriveUncurryT12(f)
}

func UncurryCurryT12(f func(error, error) interface{}) any {
	return deriveUncurryT12(deriveCurryT12(f))
}

func CurryT13(f func(a error, b error) error) any {
	return deriveCurryT13(f)
}

func FlipT13(f func(a error, b error) error) any {
	return deriveFlipT13(f)
}

func ApplyT13(f func(a error, b error) error, last error) any {
	return deriveApplyT13(f, last)
}

func UncurryT13(f func(a error) func(a error) error) any {
	return deriveUncurryT13(f)
}

func UncurryCurryT13(f func(a error, b error) error) any {
	return deriveUncurryT13(deriveCurryT13(f))
}
