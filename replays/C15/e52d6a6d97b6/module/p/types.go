package p

import (
	ext2 "subj/x/ext"
)

type MyStr string

type N0 []MyStr

type K0 struct {
	F0 ext2.Num
}

type K1 struct {
}

type S0 struct {
	f0 bool
}

type S1 struct {
	*K1
}
