package ext

import (
	ext "subj/ext1"
)

type Num int

type Key struct {
	K0 Num
}

type E0 struct {
}

type E1 struct {
	F0 ext.Key
}
