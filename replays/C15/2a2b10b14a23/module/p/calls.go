package p

import (
	ext "subj/ext1"
	other "subj/x/other"
)

var Anchor = 0

func CurryT0(f func(_ interface{}, b interface{}, c other.E0, d error) (error, N0, [1]complex128)) any {
	return deriveCurryT0(f)
}

func FlipT0(f func(_ interface{}, b interface{}, c other.E0, d error) (error, N0, [1]complex128)) any {
	return deriveFlipT0(f)
}

func ApplyT0(f func(_ interface{}, b interface{}, c other.E0, d error) (error, N0, [1]complex128), last error) any {
	return deriveApplyT0(f, last)
}

func UncurryT0(f func(_ interface{}) func(b interface{}, c other.E0, param_0 error) (error, N0, [1]complex128)) any {
	return deriveUncurryT0(f)
}

func UncurryCurryT0(f func(_ interface{}, b interface{}, c other.E0, d error) (error, N0, [1]complex128)) any {
	return deriveUncurryT0(deriveCurryT0(f))
}

func TupleT0(a0 interface{}, a1 interface{}, a2 other.E0, a3 error) any {
	return deriveTupleT0(a0, a1, a2, a3)
}

func CurryT1(f func(other.E0, *[]K1, ext.Num, N0, interface{}) ([]S0, interface{})) any {
	return deriveCurryT1(f)
}

func FlipT1(f func(other.E0, *[]K1, ext.Num, N0, interface{}) ([]S0, interface{})) any {
	return deriveFlipT1(f)
}

func ApplyT1(f func(other.E0, *[]K1, ext.Num, N0, interface{}) ([]S0, interface{}), last interface{}) any {
	return deriveApplyT1(f, last)
}

func UncurryT1(f func(other.E0) func(*[]K1, ext.Num, N0, interface{}) ([]S0, interface{})) any {
	return deriveUncurryT1(f)
}

func UncurryCurryT1(f func(other.E0, *[]K1, ext.Num, N0, interface{}) ([]S0, interface{})) any {
	return deriveUncurryT1(deriveCurryT1(f))
}

func TupleT1(a0 other.E0, a1 *[]K1, a2 ext.Num, a3 N0, a4 interface{}) any {
	return deriveTupleT1(a0, a1, a2, a3, a4)
}

func CurryT2(f func(g map[MyC]MyC, err S1, innerParam_0 error, this int16, list N0) ([]K1, map[ext.Num]K1)) any {
	return deriveCurryT2(f)
}

func FlipT2(f func(g map[MyC]MyC, err S1, innerParam_0 error, this int16, list N0) ([]K1, map[ext.Num]K1)) any {
	return deriveFlipT2(f)
}

func ApplyT2(f func(g map[MyC]MyC, err S1, innerParam_0 error, this int16, list N0) ([]K1, map[ext.Num]K1), last N0) any {
	return deriveApplyT2(f, last)
}

func UncurryT2(f func(g map[MyC]MyC) func(err S1, innerParam_0 error, this int16, list N0) ([]K1, map[ext.Num]K1)) any {
	return deriveUncurryT2(f)
}

func UncurryCurryT2(f func(g map[MyC]MyC, err S1, innerParam_0 error, this int16, list N0) ([]K1, map[ext.Num]K1)) any {
	return deriveUncurryT2(deriveCurryT2(f))
}

func TupleT2(a0 map[MyC]MyC, a1 S1, a2 error, a3 int16, a4 N0) any {
	return deriveTupleT2(a0, a1, a2, a3, a4)
}

func CurryT3(f func(map[other.Num]uint8, map[int]uint8)) any {
	return deriveCurryT3(f)
}

func FlipT3(f func(map[other.Num]uint8, map[int]uint8)) any {
	return deriveFlipT3(f)
}

func ApplyT3(f func(map[other.Num]uint8, map[int]uint8), last map[int]uint8) any {
	return deriveApplyT3(f, last)
}

func UncurryT3(f func(map[other.Num]uint8) func(map[int]uint8)) any {
	return deriveUncurryT3(f)
}

func UncurryCurryT3(f func(map[other.Num]uint8, map[int]uint8)) any {
	return deriveUncurryT3(deriveCurryT3(f))
}

func TupleT3(a0 map[other.Num]uint8, a1 map[int]uint8) any {
	return deriveTupleT3(a0, a1)
}

func CurryT4(f func(uintptr, interface{}, uintptr, uint16, map[int]int)) any {
	return deriveCurryT4(f)
}

func FlipT4(f func(uintptr, interface{}, uintptr, uint16, map[int]int)) any {
	return deriveFlipT4(f)
}

func ApplyT4(f func(uintptr, interface{}, uintptr, uint16, map[int]int), last map[int]int) any {
	return deriveApplyT4(f, last)
}

func UncurryT4(f func(uintptr) func(interface{}, uintptr, uint16, map[int]int)) any {
	return deriveUncurryT4(f)
}

func UncurryCurryT4(f func(uintptr, interface{}, uintptr, uint16, map[int]int)) any {
	return deriveUncurryT4(deriveCurryT4(f))
}

func TupleT4(a0 uintptr, a1 interface{}, a2 uintptr, a3 uint16, a4 map[int]int) any {
	return deriveTupleT4(a0, a1, a2, a3, a4)
}

func CurryT5(f func(a interface{}, b error, c interface{}, d MyC) interface{}) any {
	return deriveCurryT5(f)
}

func FlipT5(f func(a interface{}, b error, c interface{}, d MyC) interface{}) any {
	return deriveFlipT5(f)
}

func ApplyT5(f func(a interface{}, b error, c interface{}, d MyC) interface{}, last MyC) any {
	return deriveApplyT5(f, last)
}

func UncurryT5(f func(a interface{}) func(b error, c interface{}, d MyC) interface{}) any {
	return deriveUncurryT5(f)
}

func UncurryCurryT5(f func(a interface{}, b error, c interface{}, d MyC) interface{}) any {
	return deriveUncurryT5(deriveCurryT5(f))
}

func TupleT5(a0 interface{}, a1 error, a2 interface{}, a3 MyC) any {
	return deriveTupleT5(a0, a1, a2, a3)
}

func CurryT6(f func(_ N0, b ext.Num, c interface{}, d N0) (*complex64, string, MyStr)) any {
	return deriveCurryT6(f)
}

func FlipT6(f func(_ N0, b ext.Num, c interface{}, d N0) (*complex64, string, MyStr)) any {
	return deriveFlipT6(f)
}

func ApplyT6(f func(_ N0, b ext.Num, c interface{}, d N0) (*complex64, string, MyStr), last N0) any {
	return deriveApplyT6(f, last)
}

func UncurryT6(f func(_ N0) func(param_0 ext.Num, c interface{}, d N0) (*complex64, string, MyStr)) any {
	return deriveUncurryT6(f)
}

func UncurryCurryT6(f func(_ N0, b ext.Num, c interface{}, d N0) (*complex64, string, MyStr)) any {
	return deriveUncurryT6(deriveCurryT6(f))
}

func TupleT6(a0 N0, a1 ext.Num, a2 interface{}, a3 N0) any {
	return deriveTupleT6(a0, a1, a2, a3)
}

func CurryT7(f func(a ext.Key, b [0]N0, c map[uint64]other.Num, d uint64) ([]S0, interface{}, error)) any {
	return deriveCurryT7(f)
}

func FlipT7(f func(a ext.Key, b [0]N0, c map[uint64]other.Num, d uint64) ([]S0, interface{}, error)) any {
	return deriveFlipT7(f)
}

func ApplyT7(f func(a ext.Key, b [0]N0, c map[uint64]other.Num, d uint64) ([]S0, interface{}, error), last uint64) any {
	return deriveApplyT7(f, last)
}

func UncurryT7(f func(a ext.Key) func(b [0]N0, a map[uint64]other.Num, d uint64) ([]S0, interface{}, error)) any {
	return deriveUncurryT7(f)
}

func UncurryCurryT7(f func(a ext.Key, b [0]N0, c map[uint64]other.Num, d uint64) ([]S0, interface{}, error)) any {
	return deriveUncurryT7(deriveCurryT7(f))
}

func TupleT7(a0 ext.Key, a1 [0]N0, a2 map[uint64]other.Num, a3 uint64) any {
	return deriveTupleT7(a0, a1, a2, a3)
}

func CurryT8(f func(_ *N0, b *map[MyRune]complex64, _ error)) any {
	return deriveCurryT8(f)
}

func FlipT8(f func(_ *N0, b *map[MyRune]complex64, _ error)) any {
	return deriveFlipT8(f)
}

func ApplyT8(f func(_ *N0, b *map[MyRune]complex64, _ error), last error) any {
	return deriveApplyT8(f, last)
}

func UncurryT8(f func(_ *N0) func(b *map[MyRune]complex64, _ error)) any {
	return deriveUncurryT8(f)
}

func UncurryCurryT8(f func(_ *N0, b *map[MyRune]complex64, _ error)) any {
	return deriveUncurryT8(deriveCurryT8(f))
}

func TupleT8(a0 *N0, a1 *map[MyRune]complex64, a2 error) any {
	return deriveTupleT8(a0, a1, a2)
}

func CurryT9(f func(g []uint, err bool, ok uint8, param_1 interface{}, f error) float32) any {
	return deriveCurryT9(f)
}

func FlipT9(f func(g []uint, err bool, ok uint8, param_1 interface{}, f error) float32) any {
	return deriveFlipT9(f)
}

func ApplyT9(f func(g []uint, err bool, ok uint8, param_1 interface{}, f error) float32, last error) any {
	return deriveApplyT9(f, last)
}

func UncurryT9(f func(g []uint) func(err bool, ok uint8, g interface{}, f error) float32) any {
	return deriveUncurryT9(f)
}

func UncurryCurryT9(f func(g []uint, err bool, ok uint8, param_1 interface{}, f error) float32) any {
	return deriveUncurryT9(deriveCurryT9(f))
}

func TupleT9(a0 []uint, a1 bool, a2 uint8, a3 interface{}, a4 error) any {
	return deriveTupleT9(a0, a1, a2, a3, a4)
}

func CurryT10(f func(error, []N0, error, N0, bool) (error, error, map[ext.Key]K1)) any {
	return deriveCurryT10(f)
}

func FlipT10(f func(error, []N0, error, N0, bool) (error, error, map[ext.Key]K1)) any {
	return deriveFlipT10(f)
}

func ApplyT10(f func(error, []N0, error, N0, bool) (error, error, map[ext.Key]K1), last bool) any {
	return deriveApplyT10(f, last)
}

func UncurryT10(f func(error) func([]N0, error, N0, bool) (error, error, map[ext.Key]K1)) any {
	return deriveUncurryT10(f)
}

func UncurryCurryT10(f func(error, []N0, error, N0, bool) (error, error, map[ext.Key]K1)) any {
	return deriveUncurryT10(deriveCurryT10(f))
}

func TupleT10(a0 error, a1 []N0, a2 error, a3 N0, a4 bool) any {
	return deriveTupleT10(a0, a1, a2, a3, a4)
}

func CurryT11(f func(a interface{}, b interface{}, c N0, d int, e int32) (map[MyC]uint32, int8)) any {
	return deriveCurryT11(f)
}

func FlipT11(f func(a interface{}, b interface{}, c N0, d int, e int32) (map[MyC]uint32, int8)) any {
	return deriveFlipT11(f)
}

func ApplyT11(f func(a interface{}, b interface{}, c N0, d int, e int32) (map[MyC]uint32, int8), last int32) any {
	return deriveApplyT11(f, last)
}

func UncurryT11(f func(a interface{}) func(b interface{}, c N0, d int, e int32) (map[MyC]uint32, int8)) any {
	return deriveUncurryT11(f)
}

func UncurryCurryT11(f func(a interface{}, b interface{}, c N0, d int, e int32) (map[MyC]uint32, int8)) any {
	return deriveUncurryT11(deriveCurryT11(f))
}

func TupleT11(a0 interface{}, a1 interface{}, a2 N0, a3 int, a4 int32) any {
	return deriveTupleT11(a0, a1, a2, a3, a4)
}

func CurryT12(f func(a other.Num, _ error, _ other.Num) (S1, bool, other.Key)) any {
	return deriveCurryT12(f)
}

func FlipT12(f func(a other.Num, _ error, _ other.Num) (S1, bool, other.Key)) any {
	return deriveFlipT12(f)
}

func ApplyT12(f func(a other.Num, _ error, _ other.Num) (S1, bool, other.Key), last other.Num) any {
	return deriveApplyT12(f, last)
}

func UncurryT12(f func(a other.Num) func(a error, _ other.Num) (S1, bool, other.Key)) any {
	return deriveUncurryT12(f)
}

func UncurryCurryT12(f func(a other.Num, _ error, _ other.Num) (S1, bool, other.Key)) any {
	return deriveUncurryT12(deriveCurryT12(f))
}

func TupleT12(a0 other.Num, a1 error, a2 other.Num) any {
	return deriveTupleT12(a0, a1, a2)
}

func CurryT13(f func(_ interface{}, _ MyStr, _ complex128, d N0) interface{}) any {
	return deriveCurryT13(f)
}

func FlipT13(f func(_ interface{}, _ MyStr, _ complex128, d N0) interface{}) any {
	return deriveFlipT13(f)
}

func ApplyT13(f func(_ interface{}, _ MyStr, _ complex128, d N0) interface{}, last N0) any {
	return deriveApplyT13(f, last)
}

func UncurryT13(f func(_ interface{}) func(_ MyStr, _ complex128, param_0 N0) interface{}) any {
	return deriveUncurryT13(f)
}

func UncurryCurryT13(f func(_ interface{}, _ MyStr, _ complex128, d N0) interface{}) any {
	return deriveUncurryT13(deriveCurryT13(f))
}

func TupleT13(a0 interface{}, a1 MyStr, a2 complex128, a3 N0) any {
	return deriveTupleT13(a0, a1, a2, a3)
}
