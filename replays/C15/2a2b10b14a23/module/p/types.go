package p

import (
	ext "subj/ext1"
	other "subj/x/other"
)

type MyBool bool

type MyC complex128

type MyRune rune

type MyStr string

type N0 [][]rune

type K0 struct {
	f0 int64
	F1 int32
}

type K1 struct {
}

type S0 struct {
	F0 *other.Num
	f1 []map[[1]ext.Key]other.Key
}

type S1 struct {
	F0 *S0
}
