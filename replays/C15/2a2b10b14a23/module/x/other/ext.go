package other

type Num string

type Key struct {
	k0 Num
}

type E0 struct {
	f0 int
	f1 Num
	f2 Num
	F3 Key
}
