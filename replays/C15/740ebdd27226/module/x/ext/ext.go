package ext

type Num int

type Key struct {
	k0 int8
}

type E0 struct {
	F0 Num
	f1 Num
	F2 int
	f3 *E0
}

type E1 struct {
	f0 [1]*E1
}
