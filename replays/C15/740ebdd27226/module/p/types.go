package p

import (
	ext "subj/ext1"
)

type MyBool bool

type K0 struct {
	F0 ext.Num
	f1 int
}

type S0 struct {
	f0 []int16
	K0
	F2 ext.Key
}

type S1 struct {
	F0 K0
	F1 map[uint8]map[[2]K0]S1
	S0
}

type S2 struct {
	F0 S1
	f1 []S2
	F2 complex64
}
