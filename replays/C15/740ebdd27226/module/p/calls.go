package p

import (
	ext "subj/ext1"
	ext2 "subj/x/ext"
)

var Anchor = 0

func CurryT0(f func(res0 ext.E0, list string) (error, int8, ext2.E1)) any {
	return deriveCurryT0(f)
}

func FlipT0(f func(res0 ext.E0, list string) (error, int8, ext2.E1)) any {
	return deriveFlipT0(f)
}

func ApplyT0(f func(res0 ext.E0, list string) (error, int8, ext2.E1), last string) any {
	return deriveApplyT0(f, last)
}

func UncurryT0(f func(res0 ext.E0) func(res0 string) (error, int8, ext2.E1)) any {
	return deriveUncurryT0(f)
}

func UncurryCurryT0(f func(res0 ext.E0, list string) (error, int8, ext2.E1)) any {
	return deriveUncurryT0(deriveCurryT0(f))
}

func TupleT0(a0 ext.E0, a1 string) any {
	return deriveTupleT0(a0, a1)
}

func CurryT1(f func(param_0 int, in [1][]uint64, success complex128) string) any {
	return deriveCurryT1(f)
}

func FlipT1(f func(param_0 int, in [1][]uint64, success complex128) string) any {
	return deriveFlipT1(f)
}

func ApplyT1(f func(param_0 int, in [1][]uint64, success complex128) string, last complex128) any {
	return deriveApplyT1(f, last)
}

func UncurryT1(f func(param_0 int) func(param_0 [1][]uint64, success complex128) string) any {
	return deriveUncurryT1(f)
}

func UncurryCurryT1(f func(param_0 int, in [1][]uint64, success complex128) string) any {
	return deriveUncurryT1(deriveCurryT1(f))
}

func TupleT1(a0 int, a1 [1][]uint64, a2 complex128) any {
	return deriveTupleT1(a0, a1, a2)
}

func CurryT2(f func([2]complex128, []map[K0]S0, [2]complex128) (ext.Num, error)) any {
	return deriveCurryT2(f)
}

func FlipT2(f func([2]complex128, []map[K0]S0, [2]complex128) (ext.Num, error)) any {
	return deriveFlipT2(f)
}

func ApplyT2(f func([2]complex128, []map[K0]S0, [2]complex128) (ext.Num, error), last [2]complex128) any {
	return deriveApplyT2(f, last)
}

func UncurryT2(f func([2]complex128) func([]map[K0]S0, [2]complex128) (ext.Num, error)) any {
	return deriveUncurryT2(f)
}

func UncurryCurryT2(f func([2]complex128, []map[K0]S0, [2]complex128) (ext.Num, error)) any {
	return deriveUncurryT2(deriveCurryT2(f))
}

func TupleT2(a0 [2]complex128, a1 []map[K0]S0, a2 [2]complex128) any {
	return deriveTupleT2(a0, a1, a2)
}

func CurryT3(f func(f interface{}, param_1 error)) any {
	return deriveCurryT3(f)
}

func FlipT3(f func(f interface{}, param_1 error)) any {
	return deriveFlipT3(f)
}

func ApplyT3(f func(f interface{}, param_1 error), last error) any {
	return deriveApplyT3(f, last)
}

func UncurryT3(f func(f interface{}) func(param_1 error)) any {
	return deriveUncurryT3(f)
}

func UncurryCurryT3(f func(f interface{}, param_1 error)) any {
	return deriveUncurryT3(deriveCurryT3(f))
}

func TupleT3(a0 interface{}, a1 error) any {
	return deriveTupleT3(a0, a1)
}

func CurryT4(f func(error, complex128, interface{}) float64) any {
	return deriveCurryT4(f)
}

func FlipT4(f func(error, complex128, interface{}) float64) any {
	return deriveFlipT4(f)
}

func ApplyT4(f func(error, complex128, interface{}) float64, last interface{}) any {
	return deriveApplyT4(f, last)
}

func UncurryT4(f func(error) func(complex128, interface{}) float64) any {
	return deriveUncurryT4(f)
}

func UncurryCurryT4(f func(error, complex128, interface{}) float64) any {
	return deriveUncurryT4(deriveCurryT4(f))
}

func TupleT4(a0 error, a1 complex128, a2 interface{}) any {
	return deriveTupleT4(a0, a1, a2)
}

func CurryT5(f func(a ext2.E0, b float64, c ext.E0) map[[2]ext.Key]*int16) any {
	return deriveCurryT5(f)
}

func FlipT5(f func(a ext2.E0, b float64, c ext.E0) map[[2]ext.Key]*int16) any {
	return deriveFlipT5(f)
}

func ApplyT5(f func(a ext2.E0, b float64, c ext.E0) map[[2]ext.Key]*int16, last ext.E0) any {
	return deriveApplyT5(f, last)
}

func UncurryT5(f func(a ext2.E0) func(b float64, c ext.E0) map[[2]ext.Key]*int16) any {
	return deriveUncurryT5(f)
}

func UncurryCurryT5(f func(a ext2.E0, b float64, c ext.E0) map[[2]ext.Key]*int16) any {
	return deriveUncurryT5(deriveCurryT5(f))
}

func TupleT5(a0 ext2.E0, a1 float64, a2 ext.E0) any {
	return deriveTupleT5(a0, a1, a2)
}

func CurryT6(f func(*map[ext.Num]S1, ext.Key, K0, S2, error) int) any {
	return deriveCurryT6(f)
}

func FlipT6(f func(*map[ext.Num]S1, ext.Key, K0, S2, error) int) any {
	return deriveFlipT6(f)
}

func ApplyT6(f func(*map[ext.Num]S1, ext.Key, K0, S2, error) int, last error) any {
	return deriveApplyT6(f, last)
}

func UncurryT6(f func(*map[ext.Num]S1) func(ext.Key, K0, S2, error) int) any {
	return deriveUncurryT6(f)
}

func UncurryCurryT6(f func(*map[ext.Num]S1, ext.Key, K0, S2, error) int) any {
	return deriveUncurryT6(deriveCurryT6(f))
}

func TupleT6(a0 *map[ext.Num]S1, a1 ext.Key, a2 K0, a3 S2, a4 error) any {
	return deriveTupleT6(a0, a1, a2, a3, a4)
}

func CurryT7(f func(g interface{}, ok int64, f string, this int, v0 S2) (string, interface{}, []string)) any {
	return deriveCurryT7(f)
}

func FlipT7(f func(g interface{}, ok int64, f string, this int, v0 S2) (string, interface{}, []string)) any {
	return deriveFlipT7(f)
}

func ApplyT7(f func(g interface{}, ok int64, f string, this int, v0 S2) (string, interface{}, []string), last S2) any {
	return deriveApplyT7(f, last)
}

func UncurryT7(f func(g interface{}) func(ok int64, f string, this int, v0 S2) (string, interface{}, []string)) any {
	return deriveUncurryT7(f)
}

func UncurryCurryT7(f func(g interface{}, ok int64, f string, this int, v0 S2) (string, interface{}, []string)) any {
	return deriveUncurryT7(deriveCurryT7(f))
}

func TupleT7(a0 interface{}, a1 int64, a2 string, a3 int, a4 S2) any {
	return deriveTupleT7(a0, a1, a2, a3, a4)
}

func CurryT8(f func([]byte, []byte, float32)) any {
	return deriveCurryT8(f)
}

func FlipT8(f func([]byte, []byte, float32)) any {
	return deriveFlipT8(f)
}

func ApplyT8(f func([]byte, []byte, float32), last float32) any {
	return deriveApplyT8(f, last)
}

func UncurryT8(f func([]byte) func([]byte, float32)) any {
	return deriveUncurryT8(f)
}

func UncurryCurryT8(f func([]byte, []byte, float32)) any {
	return deriveUncurryT8(deriveCurryT8(f))
}

func TupleT8(a0 []byte, a1 []byte, a2 float32) any {
	return deriveTupleT8(a0, a1, a2)
}

func CurryT9(f func(m MyBool, out ext2.E1, that string, in interface{})) any {
	return deriveCurryT9(f)
}

func FlipT9(f func(m MyBool, out ext2.E1, that string, in interface{})) any {
	return deriveFlipT9(f)
}

func ApplyT9(f func(m MyBool, out ext2.E1, that string, in interface{}), last interface{}) any {
	return deriveApplyT9(f, last)
}

func UncurryT9(f func(m MyBool) func(out ext2.E1, that string, in interface{})) any {
	return deriveUncurryT9(f)
}

func UncurryCurryT9(f func(m MyBool, out ext2.E1, that string, in interface{})) any {
	return deriveUncurryT9(deriveCurryT9(f))
}

func TupleT9(a0 MyBool, a1 ext2.E1, a2 string, a3 interface{}) any {
	return deriveTupleT9(a0, a1, a2, a3)
}

func CurryT10(f func(success string, m error)) any {
	return deriveCurryT10(f)
}

func FlipT10(f func(success string, m error)) any {
	return deriveFlipT10(f)
}

func ApplyT10(f func(success string, m error), last error) any {
	return deriveApplyT10(f, last)
}

func UncurryT10(f func(success string) func(m error)) any {
	return deriveUncurryT10(f)
}

func UncurryCurryT10(f func(success string, m error)) any {
	return deriveUncurryT10(deriveCurryT10(f))
}

func CurryT11(f func(that error, success MyBool, out ext.Num, param_1 error, g interface{}) uintptr) any {
	return deriveCurryT11(f)
}

func FlipT11(f func(that error, success MyBool, out ext.Num, param_1 error, g interface{}) uintptr) any {
	return deriveFlipT11(f)
}

func ApplyT11(f func(that error, success MyBool, out ext.Num, param_1 error, g interface{}) uintptr, last interface{}) any {
	return deriveApplyT11(f, last)
}

func UncurryT11(f func(that error) func(success MyBool, that ext.Num, param_1 error, g interface{}) uintptr) any {
	return deriveUncurryT11(f)
}

func UncurryCurryT11(f func(that error, success MyBool, out ext.Num, param_1 error, g interface{}) uintptr) any {
	return deriveUncurryT11(deriveCurryT11(f))
}

func TupleT11(a0 error, a1 MyBool, a2 ext.Num, a3 error, a4 interface{}) any {
	return deriveTupleT11(a0, a1, a2, a3, a4)
}

func CurryT12(f func(a S2, _ MyBool, _ map[float32]S0) (uintptr, interface{}, *S1)) any {
	return deriveCurryT12(f)
}

func FlipT12(f func(a S2, _ MyBool, _ map[float32]S0) (uintptr, interface{}, *S1)) any {
	return deriveFlipT12(f)
}

func ApplyT12(f func(a S2, _ MyBool, _ map[float32]S0) (uintptr, interface{}, *S1), last map[float32]S0) any {
	return deriveApplyT12(f, last)
}

func UncurryT12(f func(a S2) func(_ MyBool, _ map[float32]S0) (uintptr, interface{}, *S1)) any {
	return deriveUncurryT12(f)
}

func UncurryCurryT12(f func(a S2, _ MyBool, _ map[float32]S0) (uintptr, interface{}, *S1)) any {
	return deriveUncurryT12(deriveCurryT12(f))
}

func TupleT12(a0 S2, a1 MyBool, a2 map[float32]S0) any {
	return deriveTupleT12(a0, a1, a2)
}

func CurryT13(f func(a [3]int16, _ ext2.Key, _ error, _ [3]int16) bool) any {
	return deriveCurryT13(f)
}

func FlipT13(f func(a [3]int16, _ ext2.Key, _ error, _ [3]int16) bool) any {
	return deriveFlipT13(f)
}

func ApplyT13(f func(a [3]int16, _ ext2.Key, _ error, _ [3]int16) bool, last [3]int16) any {
	return deriveApplyT13(f, last)
}

func UncurryT13(f func(a [3]int16) func(_ ext2.Key, _ error, _ [3]int16) bool) any {
	return deriveUncurryT13(f)
}

func UncurryCurryT13(f func(a [3]int16, _ ext2.Key, _ error, _ [3]int16) bool) any {
	return deriveUncurryT13(deriveCurryT13(f))
}

func TupleT13(a0 [3]int16, a1 ext2.Key, a2 error, a3 [3]int16) any {
	return deriveTupleT13(a0, a1, a2, a3)
}
