package ext

type Num float64

type Key struct {
	k0 complex128
	k1 Num
}

type E0 struct {
}
