package ext

type Num int64

type Key struct {
	k0 Num
	k1 int
	K2 int
}

type E0 struct {
}
