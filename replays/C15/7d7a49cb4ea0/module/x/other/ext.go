package other

type Num int64

type Key struct {
	k0 int
}

type E0 struct {
}
