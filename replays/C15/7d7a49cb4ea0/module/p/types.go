package p

type MyInt int

type MyF float64

type K0 struct {
}

type S0 struct {
	f0 string
	F1 bool
	f2 bool
}

type S1 struct {
}

type S2 struct {
}
