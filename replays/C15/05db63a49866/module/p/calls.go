package p

import (
	ext "subj/ext1"
	ext2 "subj/x/ext"
)

var Anchor = 0

func CurryT0(f func(*int8, bool, error) error) any {
	return deriveCurryT0(f)
}

func FlipT0(f func(*int8, bool, error) error) any {
	return deriveFlipT0(f)
}

func ApplyT0(f func(*int8, bool, error) error, last error) any {
	return deriveApplyT0(f, last)
}

func UncurryT0(f func(*int8) func(bool, error) error) any {
	return deriveUncurryT0(f)
}

func UncurryCurryT0(f func(*int8, bool, error) error) any {
	return deriveUncurryT0(deriveCurryT0(f))
}

func TupleT0(a0 *int8, a1 bool, a2 error) any {
	return deriveTupleT0(a0, a1, a2)
}

func CurryT1(f func(interface{}, error, interface{})) any {
	return deriveCurryT1(f)
}

func FlipT1(f func(interface{}, error, interface{})) any {
	return deriveFlipT1(f)
}

func ApplyT1(f func(interface{}, error, interface{}), last interface{}) any {
	return deriveApplyT1(f, last)
}

func UncurryT1(f func(interface{}) func(error, interface{})) any {
	return deriveUncurryT1(f)
}

func UncurryCurryT1(f func(interface{}, error, interface{})) any {
	return deriveUncurryT1(deriveCurryT1(f))
}

func TupleT1(a0 interface{}, a1 error, a2 interface{}) any {
	return deriveTupleT1(a0, a1, a2)
}

func CurryT2(f func(interface{}, interface{})) any {
	return deriveCurryT2(f)
}

func FlipT2(f func(interface{}, interface{})) any {
	return deriveFlipT2(f)
}

func ApplyT2(f func(interface{}, interface{}), last interface{}) any {
	return deriveApplyT2(f, last)
}

func UncurryT2(f func(interface{}) func(interface{})) any {
	return deriveUncurryT2(f)
}

func UncurryCurryT2(f func(interface{}, interface{})) any {
	return deriveUncurryT2(deriveCurryT2(f))
}

func TupleT2(a0 interface{}, a1 interface{}) any {
	return deriveTupleT2(a0, a1)
}

func CurryT3(f func(a interface{}, b error)) any {
	return deriveCurryT3(f)
}

func FlipT3(f func(a interface{}, b error)) any {
	return deriveFlipT3(f)
}

func ApplyT3(f func(a interface{}, b error), last error) any {
	return deriveApplyT3(f, last)
}

func UncurryT3(f func(a interface{}) func(a error)) any {
	return deriveUncurryT3(f)
}

func UncurryCurryT3(f func(a interface{}, b error)) any {
	return deriveUncurryT3(deriveCurryT3(f))
}

func CurryT4(f func(a interface{}, b interface{}) int16) any {
	return deriveCurryT4(f)
}

func FlipT4(f func(a interface{}, b interface{}) int16) any {
	return deriveFlipT4(f)
}

func ApplyT4(f func(a interface{}, b interface{}) int16, last interface{}) any {
	return deriveApplyT4(f, last)
}

func UncurryT4(f func(a interface{}) func(b interface{}) int16) any {
	return deriveUncurryT4(f)
}

func UncurryCurryT4(f func(a interface{}, b interface{}) int16) any {
	return deriveUncurryT4(deriveCurryT4(f))
}

func CurryT5(f func(g error, list interface{}, f int8)) any {
	return deriveCurryT5(f)
}

func FlipT5(f func(g error, list interface{}, f int8)) any {
	return deriveFlipT5(f)
}

func ApplyT5(f func(g error, list interface{}, f int8), last int8) any {
	return deriveApplyT5(f, last)
}

func UncurryT5(f func(g error) func(list interface{}, f int8)) any {
	return deriveUncurryT5(f)
}

func UncurryCurryT5(f func(g error, list interface{}, f int8)) any {
	return deriveUncurryT5(deriveCurryT5(f))
}

func CurryT6(f func(error, error) error) any {
	return deriveCurryT6(f)
}

func FlipT6(f func(error, error) error) any {
	return deriveFlipT6(f)
}

func ApplyT6(f func(error, error) error, last error) any {
	return deriveApplyT6(f, last)
}

func UncurryT6(f func(error) func(error) error) any {
	return deriveUncurryT6(f)
}

func UncurryCurryT6(f func(error, error) error) any {
	return deriveUncurryT6(deriveCurryT6(f))
}

func CurryT7(f func(int16, int16, error, error, error)) any {
	return deriveCurryT7(f)
}

func FlipT7(f func(int16, int16, error, error, error)) any {
	return deriveFlipT7(f)
}

func ApplyT7(f func(int16, int16, error, error, error), last error) any {
	return deriveApplyT7(f, last)
}

func UncurryT7(f func(int16) func(int16, error, error, error)) any {
	return deriveUncurryT7(f)
}

func UncurryCurryT7(f func(int16, int16, error, error, error)) any {
	return deriveUncurryT7(deriveCurryT7(f))
}

func TupleT7(a0 int16, a1 int16, a2 error, a3 error, a4 error) any {
	return deriveTupleT7(a0, a1, a2, a3, a4)
}

func CurryT8(f func(a error, b error)) any {
	return deriveCurryT8(f)
}

func FlipT8(f func(a error, b error)) any {
	return deriveFlipT8(f)
}

func ApplyT8(f func(a error, b error), last error) any {
	return deriveApplyT8(f, last)
}

func UncurryT8(f func(a error) func(b error)) any {
	return deriveUncurryT8(f)
}

func UncurryCurryT8(f func(a error, b error)) any {
	return deriveUncurryT8(deriveCurryT8(f))
}

func CurryT9(f func(a rune, b int8, c error) float64) any {
	return deriveCurryT9(f)
}

func FlipT9(f func(a rune, b int8, c error) float64) any {
	return deriveFlipT9(f)
}

func ApplyT9(f func(a rune, b int8, c error) float64, last error) any {
	return deriveApplyT9(f, last)
}

func UncurryT9(f func(a rune) func(b int8, c error) float64) any {
	return deriveUncurryT9(f)
}

func UncurryCurryT9(f func(a rune, b int8, c error) float64) any {
	return deriveUncurryT9(deriveCurryT9(f))
}

func TupleT9(a0 rune, a1 int8, a2 error) any {
	return deriveTupleT9(a0, a1, a2)
}

func CurryT10(f func(error, error, int) (map[ext.Key]K0, S1, N0)) any {
	return deriveCurryT10(f)
}

func FlipT10(f func(error, error, int) (map[ext.Key]K0, S1, N0)) any {
	return deriveFlipT10(f)
}

func ApplyT10(f func(error, error, int) (map[ext.Key]K0, S1, N0), last int) any {
	return deriveApplyT10(f, last)
}

func UncurryT10(f func(error) func(error, int) (map[ext.Key]K0, S1, N0)) any {
	return deriveUncurryT10(f)
}

func UncurryCurryT10(f func(error, error, int) (map[ext.Key]K0, S1, N0)) any {
	return deriveUncurryT10(deriveCurryT10(f))
}

func CurryT11(f func(_ *S0, b *int8, c *K0, _ ext2.Num, e interface{})) any {
	return deriveCurryT11(f)
}

func FlipT11(f func(_ *S0, b *int8, c *K0, _ ext2.Num, e interface{})) any {
	return deriveFlipT11(f)
}

func ApplyT11(f func(_ *S0, b *int8, c *K0, _ ext2.Num, e interface{}), last interface{}) any {
	return deriveApplyT11(f, last)
}

func UncurryT11(f func(_ *S0) func(b *int8, c *K0, _ ext2.Num, param_0 interface{})) any {
	return deriveUncurryT11(f)
}

func UncurryCurryT11(f func(_ *S0, b *int8, c *K0, _ ext2.Num, e interface{})) any {
	return deriveUncurryT11(deriveCurryT11(f))
}

func TupleT11(a0 *S0, a1 *int8, a2 *K0, a3 ext2.Num, a4 interface{}) any {
	return deriveTupleT11(a0, a1, a2, a3, a4)
}

func CurryT12(f func(a []byte, b []byte)) any {
	return deriveCurryT12(f)
}

func FlipT12(f func(a []byte, b []byte)) any {
	return deriveFlipT12(f)
}

func ApplyT12(f func(a []byte, b []byte), last []byte) any {
	return deriveApplyT12(f, last)
}

func UncurryT12(f func(a []byte) func(a []byte)) any {
	return deriveUncurryT12(f)
}

func UncurryCurryT12(f func(a []byte, b []byte)) any {
	return deriveUncurryT12(deriveCurryT12(f))
}

func CurryT13(f func(a int, b ext.Num, c map[K0]ext2.E0, d N1)) any {
	return deriveCurryT13(f)
}

func FlipT13(f func(a int, b ext.Num, c map[K0]ext2.E0, d N1)) any {
	return deriveFlipT13(f)
}

func ApplyT13(f func(a int, b ext.Num, c map[K0]ext2.E0, d N1), last N1) any {
	return deriveApplyT13(f, last)
}

func UncurryT13(f func(a int) func(b ext.Num, c map[K0]ext2.E0, d N1)) any {
	return deriveUncurryT13(f)
}

func UncurryCurryT13(f func(a int, b ext.Num, c map[K0]ext2.E0, d N1)) any {
	return deriveUncurryT13(deriveCurryT13(f))
}

func TupleT13(a0 int, a1 ext.Num, a2 map[K0]ext2.E0, a3 N1) any {
	return deriveTupleT13(a0, a1, a2, a3)
}
