package p

import (
	ext2 "subj/x/ext"
)

type MyStr string

type MyU8 uint8

type N0 []bool

type N1 map[int]int8

type N2 [1]complex128

type K0 struct {
	F0 int
}

type S0 struct {
	F0 ext2.Num
	F1 bool
	K0
	f3 N0
	f4 bool
	F5 int
}

type S1 struct {
	f0 uint8
}

type S2 struct {
}
