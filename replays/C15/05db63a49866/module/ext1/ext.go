package ext

type Num int64

type Key struct {
	K0 bool
	k1 int
	k2 bool
}

type E0 struct {
}
