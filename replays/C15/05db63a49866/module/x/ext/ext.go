package ext

type Num int64

type Key struct {
	k0 Num
	K1 bool
	k2 int
}

type E0 struct {
}

type E1 struct {
	f0 int
}
