package p

type MyStr string

type K0 struct {
	f0 bool
}

type K1 struct {
	F0 int
}

type S0 struct {
}

type S1 struct {
}
