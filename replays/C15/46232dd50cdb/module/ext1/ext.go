package ext

type Num int

type Key struct {
	k0 bool
	K1 Num
	k2 Num
}

type E0 struct {
}

type E1 struct {
	F0 int
}
