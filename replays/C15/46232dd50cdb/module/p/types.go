package p

type MyStr string

type N0 []bool

type K0 struct {
	f0 bool
}

type K1 struct {
	f0 bool
}

type S0 struct {
}

type S1 struct {
	K0
}
