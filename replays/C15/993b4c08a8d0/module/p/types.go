package p

type MyInt int

type K0 struct {
}

type K1 struct {
}

type S0 struct {
	f0 bool
}
