package ext

import (
	ext "subj/ext1"
)

type Num int

type Key struct {
	k0 Num
	K1 int32
}

type E0 struct {
	F0 bool
	F1 bool
	F2 ext.Key
}

type E1 struct {
	F0 ext.Key
}
