package ext

import (
	ext "subj/ext1"
)

type Num int64

type Key struct {
	K0 complex128
	K1 int
}

type E0 struct {
	f0 int
	f1 Num
}

type E1 struct {
	f0 *E1
	f1 ext.E0
	F2 int8
}
