package ext

type Num string

type Key struct {
	K0 int
	k1 int
	k2 bool
}

type E0 struct {
}
