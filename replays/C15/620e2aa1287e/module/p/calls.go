package p

import (
	ext "subj/ext1"
	ext2 "subj/x/ext"
)

var Anchor = 0

func CurryT0(f func(a interface{}, b interface{}, c interface{}, d interface{}, e error)) any {
	return deriveCurryT0(f)
}

func FlipT0(f func(a interface{}, b interface{}, c interface{}, d interface{}, e error)) any {
	return deriveFlipT0(f)
}

func ApplyT0(f func(a interface{}, b interface{}, c interface{}, d interface{}, e error), last error) any {
	return deriveApplyT0(f, last)
}

func UncurryT0(f func(a interface{}) func(b interface{}, c interface{}, d interface{}, e error)) any {
	return deriveUncurryT0(f)
}

func UncurryCurryT0(f func(a interface{}, b interface{}, c interface{}, d interface{}, e error)) any {
	return deriveUncurryT0(deriveCurryT0(f))
}

func TupleT0(a0 interface{}, a1 interface{}, a2 interface{}, a3 interface{}, a4 error) any {
	return deriveTupleT0(a0, a1, a2, a3, a4)
}

func CurryT1(f func(a [3]map[complex128]K0, b [3]map[complex128]K0, c error) interface{}) any {
	return deriveCurryT1(f)
}

func FlipT1(f func(a [3]map[complex128]K0, b [3]map[complex128]K0, c error) interface{}) any {
	return deriveFlipT1(f)
}

func ApplyT1(f func(a [3]map[complex128]K0, b [3]map[complex128]K0, c error) interface{}, last error) any {
	return deriveApplyT1(f, last)
}

func UncurryT1(f func(a [3]map[complex128]K0) func(b [3]map[complex128]K0, a error) interface{}) any {
	return deriveUncurryT1(f)
}

func UncurryCurryT1(f func(a [3]map[complex128]K0, b [3]map[complex128]K0, c error) interface{}) any {
	return deriveUncurryT1(deriveCurryT1(f))
}

func TupleT1(a0 [3]map[complex128]K0, a1 [3]map[complex128]K0, a2 error) any {
	return deriveTupleT1(a0, a1, a2)
}

func CurryT2(f func(interface{}, int, interface{})) any {
	return deriveCurryT2(f)
}

func FlipT2(f func(interface{}, int, interface{})) any {
	return deriveFlipT2(f)
}

func ApplyT2(f func(interface{}, int, interface{}), last interface{}) any {
	return deriveApplyT2(f, last)
}

func UncurryT2(f func(interface{}) func(int, interface{})) any {
	return deriveUncurryT2(f)
}

func UncurryCurryT2(f func(interface{}, int, interface{})) any {
	return deriveUncurryT2(deriveCurryT2(f))
}

func TupleT2(a0 interface{}, a1 int, a2 interface{}) any {
	return deriveTupleT2(a0, a1, a2)
}

func CurryT3(f func(error, error) error) any {
	return deriveCurryT3(f)
}

func FlipT3(f func(error, error) error) any {
	return deriveFlipT3(f)
}

func ApplyT3(f func(error, error) error, last error) any {
	return deriveApplyT3(f, last)
}

func UncurryT3(f func(error) func(error) error) any {
	return deriveUncurryT3(f)
}

func UncurryCurryT3(f func(error, error) error) any {
	return deriveUncurryT3(deriveCurryT3(f))
}

func TupleT3(a0 error, a1 error) any {
	return deriveTupleT3(a0, a1)
}

func CurryT4(f func(bool, interface{}, bool) interface{}) any {
	return deriveCurryT4(f)
}

func FlipT4(f func(bool, interface{}, bool) interface{}) any {
	return deriveFlipT4(f)
}

func ApplyT4(f func(bool, interface{}, bool) interface{}, last bool) any {
	return deriveApplyT4(f, last)
}

func UncurryT4(f func(bool) func(interface{}, bool) interface{}) any {
	return deriveUncurryT4(f)
}

func UncurryCurryT4(f func(bool, interface{}, bool) interface{}) any {
	return deriveUncurryT4(deriveCurryT4(f))
}

func CurryT5(f func(this string, g int, f *K0) uint64) any {
	return deriveCurryT5(f)
}

func FlipT5(f func(this string, g int, f *K0) uint64) any {
	return deriveFlipT5(f)
}

func ApplyT5(f func(this string, g int, f *K0) uint64, last *K0) any {
	return deriveApplyT5(f, last)
}

func UncurryT5(f func(this string) func(g int, f *K0) uint64) any {
	return deriveUncurryT5(f)
}

func UncurryCurryT5(f func(this string, g int, f *K0) uint64) any {
	return deriveUncurryT5(deriveCurryT5(f))
}

func CurryT6(f func(a error, _ uint64, c bool, _ error, e error) (error, int)) any {
	return deriveCurryT6(f)
}

func FlipT6(f func(a error, _ uint64, c bool, _ error, e error) (error, int)) any {
	return deriveFlipT6(f)
}

func ApplyT6(f func(a error, _ uint64, c bool, _ error, e error) (error, int), last error) any {
	return deriveApplyT6(f, last)
}

func UncurryT6(f func(a error) func(a uint64, c bool, _ error, e error) (error, int)) any {
	return deriveUncurryT6(f)
}

func UncurryCurryT6(f func(a error, _ uint64, c bool, _ error, e error) (error, int)) any {
	return deriveUncurryT6(deriveCurryT6(f))
}

func CurryT7(f func(a error, b error, c error) error) any {
	return deriveCurryT7(f)
}

func FlipT7(f func(a error, b error, c error) error) any {
	return deriveFlipT7(f)
}

func ApplyT7(f func(a error, b error, c error) error, last error) any {
	return deriveApplyT7(f, last)
}

func UncurryT7(f func(a error) func(b error, c error) error) any {
	return deriveUncurryT7(f)
}

func UncurryCurryT7(f func(a error, b error, c error) error) any {
	return deriveUncurryT7(deriveCurryT7(f))
}

func TupleT7(a0 error, a1 error, a2 error) any {
	return deriveTupleT7(a0, a1, a2)
}

func CurryT8(f func(a uint32, b ext.Num) string) any {
	return deriveCurryT8(f)
}

func FlipT8(f func(a uint32, b ext.Num) string) any {
	return deriveFlipT8(f)
}

func ApplyT8(f func(a uint32, b ext.Num) string, last ext.Num) any {
	return deriveApplyT8(f, last)
}

func UncurryT8(f func(a uint32) func(a ext.Num) string) any {
	return deriveUncurryT8(f)
}

func UncurryCurryT8(f func(a uint32, b ext.Num) string) any {
	return deriveUncurryT8(deriveCurryT8(f))
}

func TupleT8(a0 uint32, a1 ext.Num) any {
	return deriveTupleT8(a0, a1)
}

func CurryT9(f func(param_0 ext2.Key, list rune, g bool, v0 MyStr) interface{}) any {
	return deriveCurryT9(f)
}

func FlipT9(f func(param_0 ext2.Key, list rune, g bool, v0 MyStr) interface{}) any {
	return deriveFlipT9(f)
}

func ApplyT9(f func(param_0 ext2.Key, list rune, g bool, v0 MyStr) interface{}, last MyStr) any {
	return deriveApplyT9(f, last)
}

func UncurryT9(f func(param_0 ext2.Key) func(list rune, g bool, v0 MyStr) interface{}) any {
	return deriveUncurryT9(f)
}

func UncurryCurryT9(f func(param_0 ext2.Key, list rune, g bool, v0 MyStr) interface{}) any {
	return deriveUncurryT9(deriveCurryT9(f))
}

func TupleT9(a0 ext2.Key, a1 rune, a2 bool, a3 MyStr) any {
	return deriveTupleT9(a0, a1, a2, a3)
}

func CurryT10(f func(interface{}, interface{}) interface{}) any {
	return deriveCurryT10(f)
}

func FlipT10(f func(interface{}, interface{}) interface{}) any {
	return deriveFlipT10(f)
}

func ApplyT10(f func(interface{}, interface{}) interface{}, last interface{}) any {
	return deriveApplyT10(f, last)
}

func UncurryT10(f func(interface{}) func(interface{}) interface{}) any {
	return deriveUncurryT10(f)
}

func UncurryCurryT10(f func(interface{}, interface{}) interface{}) any {
	return deriveUncurryT10(deriveCurryT10(f))
}

func CurryT11(f func(innerParam_0 bool, out *map[bool]string) interface{}) any {
	return deriveCurryT11(f)
}

func FlipT11(f func(innerParam_0 bool, out *map[bool]string) interface{}) any {
	return deriveFlipT11(f)
}

func ApplyT11(f func(innerParam_0 bool, out *map[bool]string) interface{}, last *map[bool]string) any {
	return deriveApplyT11(f, last)
}

func UncurryT11(f func(innerParam_0 bool) func(out *map[bool]string) interface{}) any {
	return deriveUncurryT11(f)
}

func UncurryCurryT11(f func(innerParam_0 bool, out *map[bool]string) interface{}) any {
	return deriveUncurryT11(deriveCurryT11(f))
}

func TupleT11(a0 bool, a1 *map[bool]string) any {
	return deriveTupleT11(a0, a1)
}

func CurryT12(f func(that error, g ext2.E1, f error)) any {
	return deriveCurryT12(f)
}

func FlipT12(f func(that error, g ext2.E1, f error)) any {
	return deriveFlipT12(f)
}

func ApplyT12(f func(that error, g ext2.E1, f error), last error) any {
	return deriveApplyT12(f, last)
}

func UncurryT12(f func(that error) func(g ext2.E1, f error)) any {
	return deriveUncurryT12(f)
}

func UncurryCurryT12(f func(that error, g ext2.E1, f error)) any {
	return deriveUncurryT12(deriveCurryT12(f))
}

func TupleT12(a0 error, a1 ext2.E1, a2 error) any {
	return deriveTupleT12(a0, a1, a2)
}

func CurryT13(f func(success interface{}, g uint8, f ext2.E1, in S2) (error, int, bool)) any {
	return deriveCurryT13(f)
}

func FlipT13(f func(success interface{}, g uint8, f ext2.E1, in S2) (error, int, bool)) any {
	return deriveFlipT13(f)
}

func ApplyT13(f func(success interface{}, g uint8, f ext2.E1, in S2) (error, int, bool), last S2) any {
	return deriveApplyT13(f, last)
}

func UncurryT13(f func(success interface{}) func(g uint8, f ext2.E1, success S2) (error, int, bool)) any {
	return deriveUncurryT13(f)
}

func UncurryCurryT13(f func(success interface{}, g uint8, f ext2.E1, in S2) (error, int, bool)) any {
	return deriveUncurryT13(deriveCurryT13(f))
}

func TupleT13(a0 interface{}, a1 uint8, a2 ext2.E1, a3 S2) any {
	return deriveTupleT13(a0, a1, a2, a3)
}
