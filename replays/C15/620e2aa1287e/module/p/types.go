package p

import (
	ext "subj/ext1"
)

type MyStr string

type MyU8 uint8

type K0 struct {
	f0 MyStr
	F1 ext.Key
}

type S0 struct {
	*K0
	f1 bool
	F2 bool
	f3 bool
	F4 int
}

type S1 struct {
	S0
}

type S2 struct {
	*S0
	F1 MyStr
	*S1
	F3 map[int]bool
	F4 rune
}
