package ext

type Num string

type Key struct {
	K0 Num
}

type E0 struct {
	F0 int
}

type E1 struct {
}
