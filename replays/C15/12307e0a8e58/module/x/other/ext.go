package other

type Num int64

type Key struct {
	k0 Num
	K1 int
}

type E0 struct {
	F0 int
}

type E1 struct {
}
