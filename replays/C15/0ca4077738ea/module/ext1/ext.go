package ext

type Num string

type Key struct {
	K0 Num
}

type E0 struct {
}
