package ext

type Num int

type Key struct {
	K0 int
	K1 Num
}

type E0 struct {
}
