package p

type MyStr string

type K0 struct {
}

type S0 struct {
	*K0
}
