package other

type Num int64

type Key struct {
	k0 bool
}

type E0 struct {
}
