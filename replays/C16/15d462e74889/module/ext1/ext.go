package ext

type Num int64

type Key struct {
	k0 int64
	k1 rune
	K2 Num
}

type E0 struct {
	f0 bool
	F1 Num
	f2 Num
}
