package p

import (
	ext "subj/ext1"
	other "subj/x/other"
)

var Anchor = 0

func JoinErrT0(f func() ([]MyInt, interface{}, interface{}, error), err error) []any {
	r0, r1, r2, e := deriveJoinET0(f, err)
	return []any{r0, r1, r2, e}
}

func ComposeT1(f0 func([]MyInt, bool) (*S0, map[ext.Num]ext.E0, ext.Num, error), f1 func(*S0, map[ext.Num]ext.E0, ext.Num) (interface{}, error), f2 func(interface{}) error) any {
	return deriveComposeT1(f0, f1, f2)
}

func FmapErrT2(f func(complex64) (interface{}, interface{}, uint8, error), g func() (complex64, error)) []any {
	r, err := deriveFmapET2(f, g)
	return []any{r, err}
}

func ComposeT3(f0 func() (MyInt, error), f1 func(MyInt) (N0, interface{}, []uint8, error)) any {
	return deriveComposeT3(f0, f1)
}

func ComposeT4(f0 func() (N0, error), f1 func(N0) (K1, bool, error)) any {
	return deriveComposeT4(f0, f1)
}

func TraverseT5(f func(interface{}) ([1]N0, error), l []interface{}) ([][1]N0, error) {
	return deriveTraverseT5(f, l)
}

func TraverseT6(f func(*int16) (ext.E0, error), l []*int16) ([]ext.E0, error) {
	return deriveTraverseT6(f, l)
}

func FmapErrT7(f func(N0) (interface{}, ext.Key), g func() (N0, error)) []any {
	r, err := deriveFmapET7(f, g)
	return []any{r, err}
}

func ToErrorT8(err error, f func(*S1, interface{}) (map[float64]K1, bool)) any {
	return deriveToErrorT8(err, f)
}

func TraverseT9(f func(int8) (ext.Key, error), l []int8) ([]ext.Key, error) {
	return deriveTraverseT9(f, l)
}

func ComposeT10(f0 func(N0) (map[[1]byte]ext.Num, uint8, error), f1 func(map[[1]byte]ext.Num, uint8) (interface{}, interface{}, bool, error), f2 func(interface{}, interface{}, bool) error) any {
	return deriveComposeT10(f0, f1, f2)
}

func ComposeT11(f0 func(ext.Key, [0]N0) (bool, other.E0, map[uint]uint16, error), f1 func(bool, other.E0, map[uint]uint16) (bool, bool, K0, error), f2 func(bool, bool, K0) (other.Num, error), f3 func(other.Num) error) any {
	return deriveComposeT11(f0, f1, f2, f3)
}

func ComposeT12(f0 func(S0, map[float64]S1) error, f1 func() (ext.Num, other.Key, interface{}, error), f2 func(ext.Num, other.Key, interface{}) (float32, [0]S0, K0, error)) any {
	return deriveComposeT12(f0, f1, f2)
}

func ComposeT13(f0 func(S0, bool, N0) (byte, K1, MyInt, error), f1 func(byte, K1, MyInt) (N0, interface{}, interface{}, error), f2 func(N0, interface{}, interface{}) (other.Num, error), f3 func(other.Num) error) any {
	return deriveComposeT13(f0, f1, f2, f3)
}

func ToErrorT14(err error, f func(_ *map[MyInt]float32) (map[int32]K0, MyF, bool)) any {
	return deriveToErrorT14(err, f)
}

func TraverseT15(f func(rune) ([3]map[uintptr]S1, error), l []rune) ([][3]map[uintptr]S1, error) {
	return deriveTraverseT15(f, l)
}
