package p

import (
	ext "subj/ext1"
	other "subj/x/other"
)

type MyInt int

type MyF float64

type MyI64 int64

type MyU uint

type N0 map[ext.Key]bool

type K0 struct {
	F0 ext.Num
}

type K1 struct {
	F0 ext.Num
	F1 complex128
}

type S0 struct {
}

type S1 struct {
	F0 map[MyF][3]map[other.Key]rune
	F1 map[uint]S1
	F2 rune
}
