package p

import (
	ext "subj/ext1"
	other "subj/x/other"
)

var Anchor = 0

func ComposeT0(f0 func(rune) (uint8, error), f1 func(uint8) (interface{}, N1, map[int64]ext.Num, error), f2 func(interface{}, N1, map[int64]ext.Num) (interface{}, int, interface{}, error), f3 func(interface{}, int, interface{}) (*uint16, other.Key, uint64, error)) any {
	return deriveComposeT0(f0, f1, f2, f3)
}

func JoinErrT1(f func() (uint32, error), err error) []any {
	r0, e := deriveJoinET1(f, err)
	return []any{r0, e}
}

func ComposeT2(f0 func() (N2, ext.E0, S0, error), f1 func(N2, ext.E0, S0) (complex128, int8, map[MyBool]ext.Num, error)) any {
	return deriveComposeT2(f0, f1)
}

func FmapErrT3(f func(*byte), g func() (*byte, error)) []any {
	err := deriveFmapET3(f, g)
	return []any{err}
}

func FmapErrT4(f func(MyRune) (map[MyBool]S0, error), g func() (MyRune, error)) []any {
	r, err := deriveFmapET4(f, g)
	return []any{r, err}
}

func ComposeT5(f0 func(*K0, interface{}) (interface{}, error), f1 func(interface{}) (*S0, bool, interface{}, error)) any {
	return deriveComposeT5(f0, f1)
}

func ComposeT6(f0 func([2]uint) error, f1 func() (string, *map[byte]S0, [1]int32, error)) any {
	return deriveComposeT6(f0, f1)
}

func ComposeT7(f0 func() (ext.Key, map[[1]K0]bool, error), f1 func(ext.Key, map[[1]K0]bool) (K0, interface{}, *string, error), f2 func(K0, interface{}, *string) error) any {
	return deriveComposeT7(f0, f1, f2)
}

func ComposeT8(f0 func(interface{}, byte) error, f1 func() error, f2 func() (interface{}, error)) any {
	return deriveComposeT8(f0, f1, f2)
}

func ComposeT9(f0 func(bool, interface{}, bool) (*rune, bool, error), f1 func(*rune, bool) ([]*int, error), f2 func([]*int) ([]MyBool, error)) any {
	return deriveComposeT9(f0, f1, f2)
}

func TraverseT10(f func(other.Num) (int, error), l []other.Num) ([]int, error) {
	return deriveTraverseT10(f, l)
}

func TraverseT11(f func(MyBool) (*complex64, error), l []MyBool) ([]*complex64, error) {
	return deriveTraverseT11(f, l)
}

func ComposeT12(f0 func(int, float64, MyRune) (map[uint64]float32, error), f1 func(map[uint64]float32) (*ext.E0, error), f2 func(*ext.E0) (*float64, ext.Key, error), f3 func(*float64, ext.Key) error) any {
	return deriveComposeT12(f0, f1, f2, f3)
}

func ComposeT13(f0 func(ext.Num, S0, bool) (interface{}, [1]float32, []ext.E1, error), f1 func(interface{}, [1]float32, []ext.E1) (*K0, interface{}, error), f2 func(*K0, interface{}) (*K0, *int32, map[int32]S0, error), f3 func(*K0, *int32, map[int32]S0) (uint16, MyRune, uint32, error)) any {
	return deriveComposeT13(f0, f1, f2, f3)
}

func ComposeT14(f0 func(float64, other.Num) error, f1 func() (map[uintptr]uint8, N1, uint, error), f2 func(map[uintptr]uint8, N1, uint) error, f3 func() error) any {
	return deriveComposeT14(f0, f1, f2, f3)
}

func ComposeT15(f0 func() (interface{}, S0, error), f1 func(interface{}, S0) (uint8, error), f2 func(uint8) (*float64, error), f3 func(*float64) (int32, *uint8, error)) any {
	return deriveComposeT15(f0, f1, f2, f3)
}
