package p

import (
	ext "subj/ext1"
	other "subj/x/other"
)

type MyBool bool

type MyC complex128

type MyRune rune

type MyStr string

type N0 [1]ext.Num

type N1 []bool

type N2 [][]bool

type K0 struct {
	f0 int8
	F1 other.Num
}

type S0 struct {
	f0 K0
	F1 bool
}
