package ext

type Num string

type Key struct {
	k0 Num
}

type E0 struct {
	f0 []byte
}

type E1 struct {
	f0 *E1
	f1 *E1
	F2 int
	f3 Num
}
