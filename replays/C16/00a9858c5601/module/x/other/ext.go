package other

type Num int

type Key struct {
	k0 Num
	K1 Num
}

type E0 struct {
}
