package p

import (
	ext "subj/ext1"
	ext2 "subj/x/ext"
)

var Anchor = 0

func ToErrorT0(err error, f func(error, ext2.E0, error) (uint32, []byte, bool)) any {
	return deriveToErrorT0(err, f)
}

func JoinErrT1(f func() error, err error) []any {
	e := deriveJoinET1(f, err)
	return []any{e}
}

func FmapErrT2(f func(map[int32]K1), g func() (map[int32]K1, error)) []any {
	err := deriveFmapET2(f, g)
	return []any{err}
}

func ComposeT3(f0 func(*K1) (int8, error), f1 func(int8) error, f2 func() (map[ext.Num]K1, error), f3 func(map[ext.Num]K1) error) any {
	return deriveComposeT3(f0, f1, f2, f3)
}

func ComposeT4(f0 func() (interface{}, []byte, ext.E0, error), f1 func(interface{}, []byte, ext.E0) (map[uint8]ext.E0, error), f2 func(map[uint8]ext.E0) (interface{}, error)) any {
	return deriveComposeT4(f0, f1, f2)
}

func FmapErrT5(f func(uint16) (MyF, []K0), g func() (uint16, error)) []any {
	r, err := deriveFmapET5(f, g)
	return []any{r, err}
}

func ComposeT6(f0 func() (map[MyI64]ext.Num, uintptr, interface{}, error), f1 func(map[MyI64]ext.Num, uintptr, interface{}) (interface{}, *S0, error), f2 func(interface{}, *S0) error, f3 func() (*K0, error)) any {
	return deriveComposeT6(f0, f1, f2, f3)
}

func ToErrorT7(err error, f func(a interface{}, b N1, c error) (K0, map[int8]K0, bool)) any {
	return deriveToErrorT7(err, f)
}

func ComposeT8(f0 func() (K0, error), f1 func(K0) (byte, interface{}, error), f2 func(byte, interface{}) (ext2.Key, int8, error), f3 func(ext2.Key, int8) (MyU, error)) any {
	return deriveComposeT8(f0, f1, f2, f3)
}

func JoinErrT9(f func() (S0, error), err error) []any {
	r0, e := deriveJoinET9(f, err)
	return []any{r0, e}
}

func TraverseT10(f func(interface{}) (int32, error), l []interface{}) ([]int32, error) {
	return deriveTraverseT10(f, l)
}

func ComposeT11(f0 func(uint32, interface{}) (interface{}, int, error), f1 func(interface{}, int) (complex64, *ext.Key, uintptr, error), f2 func(complex64, *ext.Key, uintptr) (interface{}, error)) any {
	return deriveComposeT11(f0, f1, f2)
}

func ToErrorT12(err error, f func(_ ext.E0, _ error) (N0, bool)) any {
	return deriveToErrorT12(err, f)
}

func FmapErrT13(f func(complex128), g func() (complex128, error)) []any {
	err := deriveFmapET13(f, g)
	return []any{err}
}

func TraverseT14(f func(interface{}) (ext2.E0, error), l []interface{}) ([]ext2.E0, error) {
	return deriveTraverseT14(f, l)
}

func TraverseT15(f func(N1) (int64, error), l []N1) ([]int64, error) {
	return deriveTraverseT15(f, l)
}
