package p

import (
	ext "subj/ext1"
)

type MyF float64

type MyI64 int64

type MyU uint

type N0 [][]ext.Num

type N1 []int

type N2 *complex64

type K0 struct {
	F0 uint8
	F1 complex128
	F2 ext.Key
}

type K1 struct {
}

type S0 struct {
	F0 *int32
	F1 int16
	f2 [2]N1
	F3 int8
	f4 [3][]byte
}
