package ext

import (
	ext "subj/ext1"
)

type Num int64

type Key struct {
	k0 int8
	K1 float64
	k2 float64
}

type E0 struct {
	f0 ext.E1
}
