package ext

type Num int64

type Key struct {
	k0 Num
	K1 int
}

type E0 struct {
	f0 map[int8]Num
}

type E1 struct {
	f0 int8
}
