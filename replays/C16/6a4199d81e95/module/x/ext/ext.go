package ext

type Num float64

type Key struct {
	k0 complex128
}

type E0 struct {
}

type E1 struct {
}
