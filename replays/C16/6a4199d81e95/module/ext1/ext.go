package ext

type Num int64

type Key struct {
	K0 uint16
}

type E0 struct {
	f0 map[int8]*Key
	F1 int16
	F2 []byte
	F3 complex128
}

type E1 struct {
}
