package p

import (
	ext2 "subj/x/ext"
)

type MyBool bool

type K0 struct {
	F0 int8
	f1 complex128
}

type K1 struct {
	F0 bool
	F1 MyBool
}

type S0 struct {
}

type S1 struct {
	F0 K1
	F1 uintptr
	f2 []*S1
	K0
	*K1
}

type S2 struct {
	F0 MyBool
	*K0
	F2 string
	f3 uint16
	F4 *[]map[ext2.Key]S0
	F5 rune
}
