package p

import (
	ext "subj/ext1"
	ext2 "subj/x/ext"
)

var Anchor = 0

func ComposeT0(f0 func() error, f1 func() (interface{}, *string, int32, error)) any {
	return deriveComposeT0(f0, f1)
}

func JoinErrT1(f func() (string, interface{}, error), err error) []any {
	r0, r1, e := deriveJoinET1(f, err)
	return []any{r0, r1, e}
}

func ToErrorT2(err error, f func() (MyBool, ext.Key, bool)) any {
	return deriveToErrorT2(err, f)
}

func ComposeT3(f0 func() error, f1 func() (interface{}, error), f2 func(interface{}) error) any {
	return deriveComposeT3(f0, f1, f2)
}

func FmapErrT4(f func(int) (K1, error), g func() (int, error)) []any {
	r, err := deriveFmapET4(f, g)
	return []any{r, err}
}

func FmapErrT5(f func(interface{}) ([]K0, interface{}, uint32), g func() (interface{}, error)) []any {
	r, err := deriveFmapET5(f, g)
	return []any{r, err}
}

func ComposeT6(f0 func() error, f1 func() error, f2 func() (byte, error)) any {
	return deriveComposeT6(f0, f1, f2)
}

func FmapErrT7(f func(uint8) (S0, error), g func() (uint8, error)) []any {
	r, err := deriveFmapET7(f, g)
	return []any{r, err}
}

func ComposeT8(f0 func() (uintptr, map[K0]*K1, error), f1 func(uintptr, map[K0]*K1) ([3]string, interface{}, interface{}, error), f2 func([3]string, interface{}, interface{}) error, f3 func() (bool, error)) any {
	return deriveComposeT8(f0, f1, f2, f3)
}

func ComposeT9(f0 func(complex64, string, *S1) (map[bool]S0, interface{}, error), f1 func(map[bool]S0, interface{}) (interface{}, int, ext.E1, error)) any {
	return deriveComposeT9(f0, f1)
}

func ComposeT10(f0 func() error, f1 func() error, f2 func() error) any {
	return deriveComposeT10(f0, f1, f2)
}

func TraverseT11(f func(ext2.Key) (interface{}, error), l []ext2.Key) ([]interface{}, error) {
	return deriveTraverseT11(f, l)
}

func JoinErrT12(f func() (map[string]S1, interface{}, error), err error) []any {
	r0, r1, e := deriveJoinET12(f, err)
	return []any{r0, r1, e}
}

func ToErrorT13(err error, f func() (int, *string, bool)) any {
	return deriveToErrorT13(err, f)
}

func ToErrorT14(err error, f func(map[uint8]uint, error, uint16) (ext2.Num, bool)) any {
	return deriveToErrorT14(err, f)
}

func ComposeT15(f0 func(int16, int, bool) (interface{}, error), f1 func(interface{}) (string, error), f2 func(string) error, f3 func() ([]S0, error)) any {
	return deriveComposeT15(f0, f1, f2, f3)
}
