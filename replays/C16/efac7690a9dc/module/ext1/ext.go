package ext

type Num string

type Key struct {
	k0 int
	k1 float32
}

type E0 struct {
	F0 Num
	F1 int8
	F2 map[int]Num
}

type E1 struct {
	F0 Num
	f1 [][]byte
}
