package p

import (
	ext "subj/ext1"
)

type MyStr string

type N0 *MyStr

type N1 []ext.Num

type K0 struct {
	f0 bool
	F1 int
	f2 int
}

type S0 struct {
	f0 int
}
