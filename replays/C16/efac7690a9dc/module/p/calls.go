package p

import (
	ext "subj/ext1"
	ext2 "subj/x/ext"
)

var Anchor = 0

func FmapErrT0(f func(int), g func() (int, error)) []any {
	err := deriveFmapET0(f, g)
	return []any{err}
}

func TraverseT1(f func(K0) (map[int8]byte, error), l []K0) ([]map[int8]byte, error) {
	return deriveTraverseT1(f, l)
}

func ComposeT2(f0 func(int8) (int16, int, error), f1 func(int16, int) (ext2.E0, *int16, error), f2 func(ext2.E0, *int16) (rune, ext.Num, ext2.E0, error), f3 func(rune, ext.Num, ext2.E0) error) any {
	return deriveComposeT2(f0, f1, f2, f3)
}

func ComposeT3(f0 func() error, f1 func() (interface{}, interface{}, [][]string, error)) any {
	return deriveComposeT3(f0, f1)
}

func JoinErrT4(f func() ([]uint64, error), err error) []any {
	r0, e := deriveJoinET4(f, err)
	return []any{r0, e}
}

func ComposeT5(f0 func(interface{}) error, f1 func() (interface{}, MyStr, interface{}, error)) any {
	return deriveComposeT5(f0, f1)
}

func ComposeT6(f0 func(MyStr, interface{}, interface{}) (interface{}, error), f1 func(interface{}) (interface{}, error)) any {
	return deriveComposeT6(f0, f1)
}

func ComposeT7(f0 func(interface{}) (interface{}, error), f1 func(interface{}) (interface{}, error)) any {
	return deriveComposeT7(f0, f1)
}

func ComposeT8(f0 func() ([]MyStr, interface{}, error), f1 func([]MyStr, interface{}) error, f2 func() error) any {
	return deriveComposeT8(f0, f1, f2)
}

func ComposeT9(f0 func(N0, []bool) (interface{}, error), f1 func(interface{}) (bool, interface{}, error), f2 func(bool, interface{}) error) any {
	return deriveComposeT9(f0, f1, f2)
}

func ComposeT10(f0 func() error, f1 func() (N1, N1, error), f2 func(N1, N1) (map[uint16]*K0, MyStr, interface{}, error)) any {
	return deriveComposeT10(f0, f1, f2)
}

func ComposeT11(f0 func(int16, MyStr, interface{}) (interface{}, interface{}, interface{}, error), f1 func(interface{}, interface{}, interface{}) error, f2 func() (interface{}, error)) any {
	return deriveComposeT11(f0, f1, f2)
}

func ComposeT12(f0 func() error, f1 func() (interface{}, ext.Num, error)) any {
	return deriveComposeT12(f0, f1)
}

func ComposeT13(f0 func(interface{}) error, f1 func() (interface{}, error)) any {
	return deriveComposeT13(f0, f1)
}

func ComposeT14(f0 func(interface{}) error, f1 func() error, f2 func() error) any {
	return deriveComposeT14(f0, f1, f2)
}

func ComposeT15(f0 func(interface{}, interface{}) (ext2.Num, error), f1 func(ext2.Num) error, f2 func() (interface{}, error), f3 func(interface{}) (interface{}, error)) any {
	return deriveComposeT15(f0, f1, f2, f3)
}
