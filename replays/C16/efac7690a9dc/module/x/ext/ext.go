package ext

type Num int64

type Key struct {
	K0 bool
	k1 complex128
	K2 bool
}

type E0 struct {
	f0 Num
}
