package p

import (
	ext "subj/ext1"
)

type MyStr string

type MyU8 uint8

type N0 *complex128

type N1 [3]int8

type K0 struct {
	f0 uint64
	F1 ext.Num
}

type K1 struct {
	F0 int32
	F1 uint64
}

type S0 struct {
	f0 int
	F1 *ext.E1
	F2 K1
	F3 *N0
	F4 map[int32]uint8
}

type S1 struct {
	K1
	f1 ext.Key
	f2 uint
	F3 *int8
	f4 [][]map[float32]MyStr
	F5 [3]uint8
}

type S2 struct {
	F0 *[3]*int16
	f1 N0
	F2 int
}
