package p

import (
	ext "subj/ext1"
	ext2 "subj/x/ext"
)

var Anchor = 0

func ComposeT0(f0 func() (interface{}, S0, ext2.Key, error), f1 func(interface{}, S0, ext2.Key) error, f2 func() (*ext.Key, error)) any {
	return deriveComposeT0(f0, f1, f2)
}

func ToErrorT1(err error, f func() (bool, *ext.E0, bool)) any {
	return deriveToErrorT1(err, f)
}

func TraverseT2(f func(MyStr) (int, error), l []MyStr) ([]int, error) {
	return deriveTraverseT2(f, l)
}

func TraverseT3(f func(MyStr) (*int8, error), l []MyStr) ([]*int8, error) {
	return deriveTraverseT3(f, l)
}

func ComposeT4(f0 func(bool) (*int64, error), f1 func(*int64) (*float64, N1, map[K0]int, error), f2 func(*float64, N1, map[K0]int) error) any {
	return deriveComposeT4(f0, f1, f2)
}

func FmapErrT5(f func(uintptr) (ext.E1, ext.E0, error), g func() (uintptr, error)) []any {
	r, err := deriveFmapET5(f, g)
	return []any{r, err}
}

func ComposeT6(f0 func(map[string]S0, uint, []K1) error, f1 func() error, f2 func() (ext2.Num, int32, uint16, error)) any {
	return deriveComposeT6(f0, f1, f2)
}

func ToErrorT7(err error, f func(_ error, b bool, _ ext.Num) (interface{}, map[[2]float64]K1, bool)) any {
	return deriveToErrorT7(err, f)
}

func ComposeT8(f0 func(bool) (interface{}, bool, error), f1 func(interface{}, bool) (interface{}, interface{}, error), f2 func(interface{}, interface{}) error) any {
	return deriveComposeT8(f0, f1, f2)
}

func ComposeT9(f0 func(S0, int32, uint16) (int, [1]int16, uintptr, error), f1 func(int, [1]int16, uintptr) (N0, int, error), f2 func(N0, int) (complex64, int16, uint8, error), f3 func(complex64, int16, uint8) (interface{}, int, interface{}, error)) any {
	return deriveComposeT9(f0, f1, f2, f3)
}

func FmapErrT10(f func(ext.Num) uint64, g func() (ext.Num, error)) []any {
	r, err := deriveFmapET10(f, g)
	return []any{r, err}
}

func ToErrorT11(err error, f func() (MyStr, bool)) any {
	return deriveToErrorT11(err, f)
}

func ComposeT12(f0 func() error, f1 func() (uint16, N0, ext.Num, error), f2 func(uint16, N0, ext.Num) ([1][3]int32, error), f3 func([1][3]int32) error) any {
	return deriveComposeT12(f0, f1, f2, f3)
}

func ComposeT13(f0 func() error, f1 func() error, f2 func() (int, []uint, error)) any {
	return deriveComposeT13(f0, f1, f2)
}

func FmapErrT14(f func(int8) (N0, interface{}), g func() (int8, error)) []any {
	r, err := deriveFmapET14(f, g)
	return []any{r, err}
}

func ComposeT15(f0 func() (map[ext2.Num]*S0, [0]int, MyU8, error), f1 func(map[ext2.Num]*S0, [0]int, MyU8) (ext2.Key, error), f2 func(ext2.Key) error) any {
	return deriveComposeT15(f0, f1, f2)
}
