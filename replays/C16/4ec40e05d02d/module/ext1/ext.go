package ext

type Num int64

type Key struct {
	K0 int64
}

type E0 struct {
	F0 []map[bool]Key
}

type E1 struct {
	F0 map[Key]map[int]int8
	F1 *E1
	F2 bool
	f3 []byte
}
