package p

import (
	ext2 "subj/x/ext"
)

type MyInt int

type MyF float64

type MyI64 int64

type MyU uint

type K0 struct {
	f0 [1]ext2.Key
	F1 complex128
	F2 uint
}

type S0 struct {
	F0 ext2.Num
	F1 int16
	F2 map[int]float64
}

type S1 struct {
	F0 []byte
	*S0
}
