package p

import (
	ext "subj/ext1"
	ext2 "subj/x/ext"
)

var Anchor = 0

func JoinErrT0(f func() (interface{}, map[ext2.Num]K0, string, error), err error) []any {
	r0, r1, r2, e := deriveJoinET0(f, err)
	return []any{r0, r1, r2, e}
}

func ComposeT1(f0 func() (string, int16, string, error), f1 func(string, int16, string) (interface{}, error)) any {
	return deriveComposeT1(f0, f1)
}

func ToErrorT2(err error, f func(_ bool, _ ext.Num) (interface{}, bool)) any {
	return deriveToErrorT2(err, f)
}

func TraverseT3(f func(int32) (ext2.Key, error), l []int32) ([]ext2.Key, error) {
	return deriveTraverseT3(f, l)
}

func FmapErrT4(f func(uint32) (interface{}, uint, []byte), g func() (uint32, error)) []any {
	r, err := deriveFmapET4(f, g)
	return []any{r, err}
}

func TraverseT5(f func(K0) (int16, error), l []K0) ([]int16, error) {
	return deriveTraverseT5(f, l)
}

func ComposeT6(f0 func(K0, int32, int32) (string, error), f1 func(string) (ext2.Num, error)) any {
	return deriveComposeT6(f0, f1)
}

func ComposeT7(f0 func(*int64, uint16, uint16) (interface{}, error), f1 func(interface{}) (interface{}, uint8, []uint32, error), f2 func(interface{}, uint8, []uint32) error) any {
	return deriveComposeT7(f0, f1, f2)
}

func ToErrorT8(err error, f func(a *K0, b interface{}) (*ext.E0, ext.E0, bool)) any {
	return deriveToErrorT8(err, f)
}

func JoinErrT9(f func() error, err error) []any {
	e := deriveJoinET9(f, err)
	return []any{e}
}

func JoinErrT10(f func() (bool, map[ext2.Key]S1, error), err error) []any {
	r0, r1, e := deriveJoinET10(f, err)
	return []any{r0, r1, e}
}

func ComposeT11(f0 func(S0, interface{}) (map[float64]bool, error), f1 func(map[float64]bool) (interface{}, error), f2 func(interface{}) (bool, error)) any {
	return deriveComposeT11(f0, f1, f2)
}

func ComposeT12(f0 func() error, f1 func() error) any {
	return deriveComposeT12(f0, f1)
}

func ToErrorT13(err error, f func(a error, b interface{}, c error) bool) any {
	return deriveToErrorT13(err, f)
}

func ComposeT14(f0 func() (interface{}, error), f1 func(interface{}) (S0, error)) any {
	return deriveComposeT14(f0, f1)
}

func ComposeT15(f0 func(K0) error, f1 func() (map[bool]ext2.Key, error), f2 func(map[bool]ext2.Key) (interface{}, bool, error), f3 func(interface{}, bool) (S1, error)) any {
	return deriveComposeT15(f0, f1, f2, f3)
}
