package ext

type Num int64

type Key struct {
	K0 string
	k1 int32
	K2 int8
}

type E0 struct {
	f0 Key
}

type E1 struct {
}
