package ext

import (
	ext "subj/ext1"
)

type Num float64

type Key struct {
	k0 uint8
	k1 Num
	K2 complex128
}

type E0 struct {
}

type E1 struct {
	F0 [][]byte
	f1 []ext.Key
	f2 Num
	f3 *E1
}
