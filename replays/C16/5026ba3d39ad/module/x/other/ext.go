package other

import (
	ext "subj/ext1"
)

type Num float64

type Key struct {
	K0 int
}

type E0 struct {
	f0 rune
}

type E1 struct {
	F0 ext.E1
}
