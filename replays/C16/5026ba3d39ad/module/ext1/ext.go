package ext

type Num float64

type Key struct {
	k0 int64
	K1 int8
	k2 int32
}

type E0 struct {
	f0 Num
	f1 rune
}

type E1 struct {
	f0 uint32
	f1 *map[Key]uint
}
