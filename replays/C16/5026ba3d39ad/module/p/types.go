package p

import (
	other "subj/x/other"
)

type MyF float64

type MyI64 int64

type MyU uint

type K0 struct {
	F0 [0]other.Num
}

type S0 struct {
	F0 int64
	f1 K0
	F2 *map[MyI64]MyF
}

type S1 struct {
}

type S2 struct {
	F0 K0
	F1 [3]string
	f2 [0]K0
}
