package p

import (
	ext "subj/ext1"
	other "subj/x/other"
)

var Anchor = 0

func ComposeT0(f0 func() (interface{}, bool, uint32, error), f1 func(interface{}, bool, uint32) error) any {
	return deriveComposeT0(f0, f1)
}

func FmapErrT1(f func(map[MyU][]byte) int, g func() (map[MyU][]byte, error)) []any {
	r, err := deriveFmapET1(f, g)
	return []any{r, err}
}

func ComposeT2(f0 func() (S2, interface{}, error), f1 func(S2, interface{}) (string, interface{}, S0, error)) any {
	return deriveComposeT2(f0, f1)
}

func ComposeT3(f0 func(uint32) ([]S0, error), f1 func([]S0) error) any {
	return deriveComposeT3(f0, f1)
}

func ToErrorT4(err error, f func(other.E1, interface{}) (string, ext.Num, bool)) any {
	return deriveToErrorT4(err, f)
}

func ToErrorT5(err error, f func(_ interface{}) bool) any {
	return deriveToErrorT5(err, f)
}

func JoinErrT6(f func() ([3]int16, interface{}, uint64, error), err error) []any {
	r0, r1, r2, e := deriveJoinET6(f, err)
	return []any{r0, r1, r2, e}
}

func ComposeT7(f0 func() error, f1 func() (int, interface{}, int8, error)) any {
	return deriveComposeT7(f0, f1)
}

func TraverseT8(f func(int32) (other.Num, error), l []int32) ([]other.Num, error) {
	return deriveTraverseT8(f, l)
}

func ComposeT9(f0 func() (complex128, error), f1 func(complex128) (interface{}, error)) any {
	return deriveComposeT9(f0, f1)
}

func ComposeT10(f0 func() (uint, error), f1 func(uint) (string, interface{}, K0, error)) any {
	return deriveComposeT10(f0, f1)
}

func ComposeT11(f0 func(interface{}, uint8) error, f1 func() error) any {
	return deriveComposeT11(f0, f1)
}

func ComposeT12(f0 func(uint) (uint, error), f1 func(uint) (uint32, error), f2 func(uint32) (interface{}, error), f3 func(interface{}) (interface{}, error)) any {
	return deriveComposeT12(f0, f1, f2, f3)
}

func FmapErrT13(f func(int64) (interface{}, map[[1]ext.Key]complex64, other.E0, error), g func() (int64, error)) []any {
	r, err := deriveFmapET13(f, g)
	return []any{r, err}
}

func FmapErrT14(f func(uint8) (interface{}, string, error), g func() (uint8, error)) []any {
	r, err := deriveFmapET14(f, g)
	return []any{r, err}
}

func ComposeT15(f0 func(S0, S0) (complex128, error), f1 func(complex128) error) any {
	return deriveComposeT15(f0, f1)
}
