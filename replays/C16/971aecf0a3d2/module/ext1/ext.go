package ext

type Num int64

type Key struct {
	K0 int
	k1 Num
}

type E0 struct {
	f0 Num
	f1 int8
}
