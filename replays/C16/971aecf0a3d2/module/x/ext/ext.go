package ext

import (
	ext "subj/ext1"
)

type Num string

type Key struct {
	K0 bool
}

type E0 struct {
	f0 map[Key][]Num
	f1 ext.Num
	f2 Num
	F3 ext.E0
}
