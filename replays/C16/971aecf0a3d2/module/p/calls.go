package p

import (
	ext "subj/ext1"
	ext2 "subj/x/ext"
)

var Anchor = 0

func ToErrorT0(err error, f func(a bool) bool) any {
	return deriveToErrorT0(err, f)
}

func ComposeT1(f0 func(bool, N0, []uint8) (*[3]int8, error), f1 func(*[3]int8) (*int, error), f2 func(*int) (ext.E0, error), f3 func(ext.E0) (float32, error)) any {
	return deriveComposeT1(f0, f1, f2, f3)
}

func FmapErrT2(f func(map[K1]N0), g func() (map[K1]N0, error)) []any {
	err := deriveFmapET2(f, g)
	return []any{err}
}

func TraverseT3(f func(N0) (float32, error), l []N0) ([]float32, error) {
	return deriveTraverseT3(f, l)
}

func ComposeT4(f0 func([]byte) error, f1 func() (map[ext.Key]map[ext.Key]K1, interface{}, *ext.E0, error)) any {
	return deriveComposeT4(f0, f1)
}

func JoinErrT5(f func() (K0, error), err error) []any {
	r0, e := deriveJoinET5(f, err)
	return []any{r0, e}
}

func ComposeT6(f0 func(uint8, map[[1]bool]ext.Num) (uint32, int, error), f1 func(uint32, int) (int, N0, error), f2 func(int, N0) error, f3 func() (interface{}, map[MyU8]uint64, ext2.Num, error)) any {
	return deriveComposeT6(f0, f1, f2, f3)
}

func ComposeT7(f0 func() (uint, *K1, error), f1 func(uint, *K1) (*int, error), f2 func(*int) (interface{}, error), f3 func(interface{}) error) any {
	return deriveComposeT7(f0, f1, f2, f3)
}

func JoinErrT8(f func() error, err error) []any {
	e := deriveJoinET8(f, err)
	return []any{e}
}

func ToErrorT9(err error, f func(a bool, b MyU8) (int8, []byte, bool)) any {
	return deriveToErrorT9(err, f)
}

func ComposeT10(f0 func() error, f1 func() error, f2 func() (map[ext2.Num]bool, N0, error)) any {
	return deriveComposeT10(f0, f1, f2)
}

func ComposeT11(f0 func() error, f1 func() (map[ext.Num]K0, error), f2 func(map[ext.Num]K0) (ext.E0, interface{}, N0, error)) any {
	return deriveComposeT11(f0, f1, f2)
}

func ToErrorT12(err error, f func(interface{}, uint) (interface{}, *S0, bool)) any {
	return deriveToErrorT12(err, f)
}

func ComposeT13(f0 func() error, f1 func() (N0, K1, map[[1]MyInt]K1, error), f2 func(N0, K1, map[[1]MyInt]K1) (interface{}, int32, ext2.Num, error)) any {
	return deriveComposeT13(f0, f1, f2)
}

func FmapErrT14(f func(K0) (N0, error), g func() (K0, error)) []any {
	r, err := deriveFmapET14(f, g)
	return []any{r, err}
}

func ComposeT15(f0 func() (interface{}, byte, uintptr, error), f1 func(interface{}, byte, uintptr) error, f2 func() (*N0, error), f3 func(*N0) (interface{}, []map[int]N0, interface{}, error)) any {
	return deriveComposeT15(f0, f1, f2, f3)
}
