package p

import (
	ext "subj/ext1"
	ext2 "subj/x/ext"
)

type MyStr string

type MyU8 uint8

type MyF32 float32

type MyInt int

type N0 []ext2.Num

type K0 struct {
}

type K1 struct {
	F0 [2]rune
	F1 K0
}

type S0 struct {
	F0 byte
	*K0
	F2 int
	F3 float32
	F4 MyU8
	f5 map[bool]ext.Num
}
