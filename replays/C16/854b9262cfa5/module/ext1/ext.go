package ext

type Num int64

type Key struct {
	K0 int
}

type E0 struct {
	F0 Key
	f1 Key
	f2 []byte
}

type E1 struct {
	f0 []E0
}
