package p

import (
	ext2 "subj/x/ext"
)

type MyI64 int64

type MyU uint

type MyBool bool

type MyC complex128

type N0 map[float32]bool

type N1 map[bool]uintptr

type N2 []int8

type K0 struct {
	F0 ext2.Num
	F1 uint64
	f2 ext2.Key
}

type S0 struct {
	K0
	F1 complex64
	F2 bool
	F3 N2
	F4 map[bool]uintptr
	F5 map[ext2.Num]bool
}

type S1 struct {
	f0 int
}
