package p

import (
	ext "subj/ext1"
	ext2 "subj/x/ext"
)

var Anchor = 0

func FmapErrT0(f func(int8) (uintptr, *map[MyC]byte, error), g func() (int8, error)) []any {
	r, err := deriveFmapET0(f, g)
	return []any{r, err}
}

func FmapErrT1(f func(K0) (MyI64, int16, S1, error), g func() (K0, error)) []any {
	r, err := deriveFmapET1(f, g)
	return []any{r, err}
}

func JoinErrT2(f func() error, err error) []any {
	e := deriveJoinET2(f, err)
	return []any{e}
}

func ToErrorT3(err error, f func(_ interface{}, b map[ext.Key]N0, c error) (bool, bool)) any {
	return deriveToErrorT3(err, f)
}

func TraverseT4(f func(map[ext2.Num]uint) ([]*MyC, error), l []map[ext2.Num]uint) ([][]*MyC, error) {
	return deriveTraverseT4(f, l)
}

func ComposeT5(f0 func(uint8) error, f1 func() (interface{}, uintptr, int, error), f2 func(interface{}, uintptr, int) (*ext2.Key, *int32, error)) any {
	return deriveComposeT5(f0, f1, f2)
}

func ComposeT6(f0 func(int) (interface{}, N1, error), f1 func(interface{}, N1) (map[ext.Num]S1, uintptr, error)) any {
	return deriveComposeT6(f0, f1)
}

func ComposeT7(f0 func(N1, ext.Num) (interface{}, interface{}, int, error), f1 func(interface{}, interface{}, int) error, f2 func() (map[[2]uint64]S1, error)) any {
	return deriveComposeT7(f0, f1, f2)
}

func ToErrorT8(err error, f func(interface{}, S1, S0) (ext2.E1, bool)) any {
	return deriveToErrorT8(err, f)
}

func ComposeT9(f0 func(K0, int32) error, f1 func() (*map[K0]N1, int8, int8, error), f2 func(*map[K0]N1, int8, int8) error) any {
	return deriveComposeT9(f0, f1, f2)
}

func ComposeT10(f0 func(interface{}, K0) error, f1 func() error, f2 func() (bool, map[int8]uint8, error), f3 func(bool, map[int8]uint8) (*S1, interface{}, [1]MyC, error)) any {
	return deriveComposeT10(f0, f1, f2, f3)
}

func TraverseT11(f func(int) (N0, error), l []int) ([]N0, error) {
	return deriveTraverseT11(f, l)
}

func TraverseT12(f func(*int) (S1, error), l []*int) ([]S1, error) {
	return deriveTraverseT12(f, l)
}

func ToErrorT13(err error, f func() bool) any {
	return deriveToErrorT13(err, f)
}

func TraverseT14(f func(MyU) (*S0, error), l []MyU) ([]*S0, error) {
	return deriveTraverseT14(f, l)
}

func ComposeT15(f0 func() error, f1 func() (bool, interface{}, **MyU, error), f2 func(bool, interface{}, **MyU) (*S0, uint8, [0]*ext2.E1, error)) any {
	return deriveComposeT15(f0, f1, f2)
}
