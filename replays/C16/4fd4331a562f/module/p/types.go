package p

type MyF float64

type N0 [][]int16

type K0 struct {
	F0 int32
}

type K1 struct {
	f0 int32
	F1 int8
}

type S0 struct {
	F0 []float64
	f1 uint64
	F2 byte
	F3 K0
}

type S1 struct {
}
