package p

import (
	ext "subj/ext1"
)

var Anchor = 0

func TraverseT0(f func(string) (float32, error), l []string) ([]float32, error) {
	return deriveTraverseT0(f, l)
}

func ComposeT1(f0 func() (uint64, *float64, interface{}, error), f1 func(uint64, *float64, interface{}) (interface{}, error), f2 func(interface{}) (interface{}, []byte, K1, error), f3 func(interface{}, []byte, K1) ([]float32, error)) any {
	return deriveComposeT1(f0, f1, f2, f3)
}

func ComposeT2(f0 func() (interface{}, interface{}, N0, error), f1 func(interface{}, interface{}, N0) error, f2 func() (bool, error), f3 func(bool) error) any {
	return deriveComposeT2(f0, f1, f2, f3)
}

func ComposeT3(f0 func(int) error, f1 func() ([2]uint32, error)) any {
	return deriveComposeT3(f0, f1)
}

func JoinErrT4(f func() ([2]uint64, map[string]int, error), err error) []any {
	r0, r1, e := deriveJoinET4(f, err)
	return []any{r0, r1, e}
}

func ComposeT5(f0 func(uintptr) error, f1 func() (map[rune]K1, error), f2 func(map[rune]K1) (MyF, error)) any {
	return deriveComposeT5(f0, f1, f2)
}

func ComposeT6(f0 func(N0, MyF) error, f1 func() (interface{}, MyF, *ext.E0, error)) any {
	return deriveComposeT6(f0, f1)
}

func ToErrorT7(err error, f func(*MyF, complex128) (uint, N0, bool)) any {
	return deriveToErrorT7(err, f)
}

func ComposeT8(f0 func() (S1, uintptr, int, error), f1 func(S1, uintptr, int) (map[K1]uintptr, [1]int, error)) any {
	return deriveComposeT8(f0, f1)
}

func FmapErrT9(f func(*bool) (interface{}, complex64), g func() (*bool, error)) []any {
	r, err := deriveFmapET9(f, g)
	return []any{r, err}
}

func JoinErrT10(f func() (K1, error), err error) []any {
	r0, e := deriveJoinET10(f, err)
	return []any{r0, e}
}

func ComposeT11(f0 func() (float64, error), f1 func(float64) error) any {
	return deriveComposeT11(f0, f1)
}

func ComposeT12(f0 func(map[uintptr]S0, byte, map[bool]int) (map[ext.Num]uintptr, error), f1 func(map[ext.Num]uintptr) (*MyF, error), f2 func(*MyF) ([]complex64, int, bool, error)) any {
	return deriveComposeT12(f0, f1, f2)
}

func ComposeT13(f0 func(S0, byte) (complex128, uintptr, error), f1 func(complex128, uintptr) (N0, interface{}, N0, error), f2 func(N0, interface{}, N0) error) any {
	return deriveComposeT13(f0, f1, f2)
}

func FmapErrT14(f func(bool) (int, N0, N0), g func() (bool, error)) []any {
	r, err := deriveFmapET14(f, g)
	return []any{r, err}
}

func FmapErrT15(f func(MyF) (uint16, error), g func() (MyF, error)) []any {
	r, err := deriveFmapET15(f, g)
	return []any{r, err}
}
