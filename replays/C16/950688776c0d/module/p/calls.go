package p

import (
	ext "subj/ext1"
	ext2 "subj/x/ext"
)

var Anchor = 0

func ComposeT0(f0 func(float32, int16) (S1, interface{}, S0, error), f1 func(S1, interface{}, S0) (interface{}, complex64, interface{}, error)) any {
	return deriveComposeT0(f0, f1)
}

func ToErrorT1(err error, f func() (string, bool)) any {
	return deriveToErrorT1(err, f)
}

func FmapErrT2(f func(string) (ext.Key, map[[1]uint8]S1, S1), g func() (string, error)) []any {
	r, err := deriveFmapET2(f, g)
	return []any{r, err}
}

func FmapErrT3(f func(bool) (S0, interface{}, error), g func() (bool, error)) []any {
	r, err := deriveFmapET3(f, g)
	return []any{r, err}
}

func ComposeT4(f0 func() (ext.Num, uintptr, error), f1 func(ext.Num, uintptr) (ext.E0, string, interface{}, error), f2 func(ext.E0, string, interface{}) (uint64, interface{}, rune, error), f3 func(uint64, interface{}, rune) (string, error)) any {
	return deriveComposeT4(f0, f1, f2, f3)
}

func TraverseT5(f func(int8) (ext2.Num, error), l []int8) ([]ext2.Num, error) {
	return deriveTraverseT5(f, l)
}

func ComposeT6(f0 func() (map[[1]K0]S0, map[int]int, *[2]int16, error), f1 func(map[[1]K0]S0, map[int]int, *[2]int16) error, f2 func() (rune, bool, map[K0]map[int8]MyBool, error)) any {
	return deriveComposeT6(f0, f1, f2)
}

func ComposeT7(f0 func(float32, MyBool) (*K0, interface{}, ext.Key, error), f1 func(*K0, interface{}, ext.Key) (int8, ext.E0, error), f2 func(int8, ext.E0) ([]ext.E0, error)) any {
	return deriveComposeT7(f0, f1, f2)
}

func ComposeT8(f0 func(*MyBool) error, f1 func() error, f2 func() error, f3 func() (float32, error)) any {
	return deriveComposeT8(f0, f1, f2, f3)
}

func ComposeT9(f0 func(interface{}) error, f1 func() (S0, error), f2 func(S0) error, f3 func() ([]byte, map[ext.Key][3]ext.E1, S2, error)) any {
	return deriveComposeT9(f0, f1, f2, f3)
}

func ComposeT10(f0 func() (rune, interface{}, error), f1 func(rune, interface{}) (int16, S2, interface{}, error), f2 func(int16, S2, interface{}) error) any {
	return deriveComposeT10(f0, f1, f2)
}

func JoinErrT11(f func() (map[ext2.Key]map[int]string, *S1, MyBool, error), err error) []any {
	r0, r1, r2, e := deriveJoinET11(f, err)
	return []any{r0, r1, r2, e}
}

func ComposeT12(f0 func() (float32, interface{}, int8, error), f1 func(float32, interface{}, int8) (string, error)) any {
	return deriveComposeT12(f0, f1)
}

func FmapErrT13(f func(S0) (float64, interface{}, string), g func() (S0, error)) []any {
	r, err := deriveFmapET13(f, g)
	return []any{r, err}
}

func ToErrorT14(err error, f func(error, int8, *bool) (S0, ext.Num, bool)) any {
	return deriveToErrorT14(err, f)
}

func ComposeT15(f0 func(float32) (interface{}, error), f1 func(interface{}) error) any {
	return deriveComposeT15(f0, f1)
}
