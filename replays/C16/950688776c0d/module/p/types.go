package p

import (
	ext "subj/ext1"
	ext2 "subj/x/ext"
)

type MyBool bool

type K0 struct {
}

type S0 struct {
	f0 ext.E0
}

type S1 struct {
	f0 int16
	F1 bool
	F2 K0
	f3 map[MyBool]S1
	F4 map[ext2.Num][]MyBool
	F5 int
}

type S2 struct {
}
