package ext

type Num float64

type Key struct {
	k0 uint16
}

type E0 struct {
	F0 []byte
	f1 uint8
	f2 []byte
}

type E1 struct {
	f0 [1][]uint32
	f1 []byte
}
