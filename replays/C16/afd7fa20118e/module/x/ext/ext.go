package ext

type Num uint8

type Key struct {
	k0 Num
	K1 Num
	K2 float32
}

type E0 struct {
	f0 Num
	F1 map[int32][]uintptr
	F2 uint8
	f3 []byte
}

type E1 struct {
	f0 []byte
	f1 complex128
}
