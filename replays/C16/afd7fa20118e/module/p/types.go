package p

import (
	ext "subj/ext1"
)

type MyInt int

type N0 [1]int32

type K0 struct {
	F0 MyInt
	f1 ext.Num
}

type S0 struct {
	F0 float32
	K0
	F2 map[bool]int8
	F3 []byte
}
