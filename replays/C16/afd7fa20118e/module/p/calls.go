package p

import (
	ext "subj/ext1"
	ext2 "subj/x/ext"
)

var Anchor = 0

func ComposeT0(f0 func(interface{}) error, f1 func() error, f2 func() (uint, []N0, [1]byte, error)) any {
	return deriveComposeT0(f0, f1, f2)
}

func ComposeT1(f0 func(rune) (ext.Key, error), f1 func(ext.Key) (interface{}, *bool, error), f2 func(interface{}, *bool) (interface{}, map[int8]int, map[int64]S0, error), f3 func(interface{}, map[int8]int, map[int64]S0) (int16, float64, interface{}, error)) any {
	return deriveComposeT1(f0, f1, f2, f3)
}

func ComposeT2(f0 func() error, f1 func() (map[complex128]K0, error), f2 func(map[complex128]K0) (interface{}, error)) any {
	return deriveComposeT2(f0, f1, f2)
}

func ComposeT3(f0 func() error, f1 func() error, f2 func() (interface{}, int, error), f3 func(interface{}, int) (ext2.Num, uint64, error)) any {
	return deriveComposeT3(f0, f1, f2, f3)
}

func ComposeT4(f0 func(uintptr) (K0, map[[0]bool]bool, error), f1 func(K0, map[[0]bool]bool) error, f2 func() (int16, int64, error), f3 func(int16, int64) (MyInt, []K0, N0, error)) any {
	return deriveComposeT4(f0, f1, f2, f3)
}

func ComposeT5(f0 func(interface{}, int32, ext2.E1) (bool, *N0, float32, error), f1 func(bool, *N0, float32) (S0, error), f2 func(S0) ([2]N0, interface{}, error)) any {
	return deriveComposeT5(f0, f1, f2)
}

func ComposeT6(f0 func(string, int64) (interface{}, interface{}, error), f1 func(interface{}, interface{}) (S0, error)) any {
	return deriveComposeT6(f0, f1)
}

func ComposeT7(f0 func() error, f1 func() (bool, S0, error), f2 func(bool, S0) (MyInt, map[uint]ext2.E0, error)) any {
	return deriveComposeT7(f0, f1, f2)
}

func JoinErrT8(f func() error, err error) []any {
	e := deriveJoinET8(f, err)
	return []any{e}
}

func TraverseT9(f func(ext2.Num) (float32, error), l []ext2.Num) ([]float32, error) {
	return deriveTraverseT9(f, l)
}

func ComposeT10(f0 func([]byte, *float32) (uint8, [0][2]N0, error), f1 func(uint8, [0][2]N0) (interface{}, int, error), f2 func(interface{}, int) ([]*MyInt, int8, []S0, error), f3 func([]*MyInt, int8, []S0) (map[uint8]S0, uint16, uint32, error)) any {
	return deriveComposeT10(f0, f1, f2, f3)
}

func FmapErrT11(f func(map[MyInt]N0) (uint16, N0, interface{}, error), g func() (map[MyInt]N0, error)) []any {
	r, err := deriveFmapET11(f, g)
	return []any{r, err}
}

func ComposeT12(f0 func(uint8) (interface{}, error), f1 func(interface{}) (interface{}, map[ext.Num]S0, error), f2 func(interface{}, map[ext.Num]S0) error) any {
	return deriveComposeT12(f0, f1, f2)
}

func TraverseT13(f func(int32) ([0]*K0, error), l []int32) ([][0]*K0, error) {
	return deriveTraverseT13(f, l)
}

func ComposeT14(f0 func() (interface{}, *int8, error), f1 func(interface{}, *int8) error, f2 func() (*S0, error)) any {
	return deriveComposeT14(f0, f1, f2)
}

func ToErrorT15(err error, f func() (MyInt, S0, bool)) any {
	return deriveToErrorT15(err, f)
}
