package ext

type Num int64

type Key struct {
	k0 Num
	k1 int8
	K2 rune
}

type E0 struct {
}

type E1 struct {
}
