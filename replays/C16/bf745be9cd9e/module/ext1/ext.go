package ext

type Num int

type Key struct {
	K0 complex128
}

type E0 struct {
	F0 [2][]byte
}

type E1 struct {
	F0 [2]rune
	f1 string
	F2 *E1
}
