package p

import (
	ext "subj/ext1"
)

type MyStr string

type MyU8 uint8

type MyF32 float32

type MyInt int

type K0 struct {
}

type K1 struct {
}

type S0 struct {
}

type S1 struct {
	F0 ext.E1
	*S0
	F2 [1]**bool
}
