package p

import (
	ext "subj/ext1"
	ext2 "subj/x/ext"
)

var Anchor = 0

func ToErrorT0(err error, f func() (S1, bool)) any {
	return deriveToErrorT0(err, f)
}

func ComposeT1(f0 func() error, f1 func() (string, map[[0]ext.Num]string, error), f2 func(string, map[[0]ext.Num]string) ([0]map[K1]ext2.E0, *[]ext2.Key, interface{}, error)) any {
	return deriveComposeT1(f0, f1, f2)
}

func ComposeT2(f0 func() error, f1 func() error) any {
	return deriveComposeT2(f0, f1)
}

func ComposeT3(f0 func([1]string) ([]S1, uint64, error), f1 func([]S1, uint64) (interface{}, interface{}, ext2.Num, error), f2 func(interface{}, interface{}, ext2.Num) error, f3 func() error) any {
	return deriveComposeT3(f0, f1, f2, f3)
}

func ComposeT4(f0 func(int32, complex64) (ext.Num, *ext.E1, error), f1 func(ext.Num, *ext.E1) (interface{}, error)) any {
	return deriveComposeT4(f0, f1)
}

func JoinErrT5(f func() (ext2.Key, complex128, interface{}, error), err error) []any {
	r0, r1, r2, e := deriveJoinET5(f, err)
	return []any{r0, r1, r2, e}
}

func ComposeT6(f0 func() (uint32, ext2.Num, error), f1 func(uint32, ext2.Num) error, f2 func() (interface{}, int32, error)) any {
	return deriveComposeT6(f0, f1, f2)
}

func ComposeT7(f0 func(map[int]S0, MyF32) (string, MyInt, ext2.Num, error), f1 func(string, MyInt, ext2.Num) error, f2 func() (interface{}, error)) any {
	return deriveComposeT7(f0, f1, f2)
}

func FmapErrT8(f func(ext2.Num) uint64, g func() (ext2.Num, error)) []any {
	r, err := deriveFmapET8(f, g)
	return []any{r, err}
}

func TraverseT9(f func(interface{}) ([0]string, error), l []interface{}) ([][0]string, error) {
	return deriveTraverseT9(f, l)
}

func ComposeT10(f0 func(bool) (uint8, error), f1 func(uint8) (int, []ext.Key, interface{}, error), f2 func(int, []ext.Key, interface{}) (ext.E0, int32, *int, error)) any {
	return deriveComposeT10(f0, f1, f2)
}

func ToErrorT11(err error, f func() (map[[0]ext2.Key]S1, bool)) any {
	return deriveToErrorT11(err, f)
}

func FmapErrT12(f func([]byte) (MyStr, map[ext.Key]ext.E0, string), g func() ([]byte, error)) []any {
	r, err := deriveFmapET12(f, g)
	return []any{r, err}
}

func TraverseT13(f func(interface{}) (int8, error), l []interface{}) ([]int8, error) {
	return deriveTraverseT13(f, l)
}

func TraverseT14(f func(S1) (uint16, error), l []S1) ([]uint16, error) {
	return deriveTraverseT14(f, l)
}

func ComposeT15(f0 func([]float64) (ext2.Key, K1, [3]uint16, error), f1 func(ext2.Key, K1, [3]uint16) (int8, error), f2 func(int8) (string, uintptr, error)) any {
	return deriveComposeT15(f0, f1, f2)
}
