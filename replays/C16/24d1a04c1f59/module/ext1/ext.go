package ext

type Num int

type Key struct {
	k0 complex128
	k1 Num
}

type E0 struct {
	f0 int
}

type E1 struct {
	F0 int
	F1 Num
}
