package ext

import (
	ext "subj/ext1"
)

type Num uint8

type Key struct {
	k0 bool
	K1 Num
	k2 int8
}

type E0 struct {
	f0 []ext.E0
	f1 bool
}
