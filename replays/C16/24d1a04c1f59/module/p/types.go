package p

import (
	ext "subj/ext1"
)

type MyU uint

type MyBool bool

type N0 *uintptr

type N1 *bool

type N2 map[K0]int16

type K0 struct {
	F0 ext.Num
	f1 uint16
}

type S0 struct {
	F0 *map[ext.Key]S0
}
