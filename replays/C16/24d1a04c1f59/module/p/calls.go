package p

import (
	ext "subj/ext1"
	ext2 "subj/x/ext"
)

var Anchor = 0

func ComposeT0(f0 func(map[ext2.Num]uint16, []complex64, interface{}) ([]S0, int16, error), f1 func([]S0, int16) (*int32, MyBool, map[uint16]float64, error)) any {
	return deriveComposeT0(f0, f1)
}

func FmapErrT1(f func(interface{}), g func() (interface{}, error)) []any {
	err := deriveFmapET1(f, g)
	return []any{err}
}

func ToErrorT2(err error, f func(a uint, b error) (K0, bool)) any {
	return deriveToErrorT2(err, f)
}

func JoinErrT3(f func() ([1]S0, int8, error), err error) []any {
	r0, r1, e := deriveJoinET3(f, err)
	return []any{r0, r1, e}
}

func ComposeT4(f0 func(int64, bool, ext2.Num) (int, error), f1 func(int) error, f2 func() (rune, ext2.Key, interface{}, error)) any {
	return deriveComposeT4(f0, f1, f2)
}

func TraverseT5(f func(ext.Key) ([]S0, error), l []ext.Key) ([][]S0, error) {
	return deriveTraverseT5(f, l)
}

func ComposeT6(f0 func() (interface{}, rune, error), f1 func(interface{}, rune) error) any {
	return deriveComposeT6(f0, f1)
}

func ComposeT7(f0 func(int, complex128) (ext2.Num, bool, error), f1 func(ext2.Num, bool) (ext2.Num, map[uint64]S0, [3]*N1, error)) any {
	return deriveComposeT7(f0, f1)
}

func ComposeT8(f0 func(rune, MyBool) error, f1 func() (bool, map[[0]bool]S0, error), f2 func(bool, map[[0]bool]S0) (ext2.Num, *ext.E1, error), f3 func(ext2.Num, *ext.E1) (int8, interface{}, interface{}, error)) any {
	return deriveComposeT8(f0, f1, f2, f3)
}

func FmapErrT9(f func(interface{}) (interface{}, int64, error), g func() (interface{}, error)) []any {
	r, err := deriveFmapET9(f, g)
	return []any{r, err}
}

func ComposeT10(f0 func(ext.E1, S0, interface{}) error, f1 func() ([3]*uint16, [0]float64, error)) any {
	return deriveComposeT10(f0, f1)
}

func ComposeT11(f0 func(int, N1) (int8, interface{}, error), f1 func(int8, interface{}) error, f2 func() (interface{}, map[[2]uint64]K0, N1, error)) any {
	return deriveComposeT11(f0, f1, f2)
}

func FmapErrT12(f func(N2) float64, g func() (N2, error)) []any {
	r, err := deriveFmapET12(f, g)
	return []any{r, err}
}

func ComposeT13(f0 func(uintptr) (N0, int16, error), f1 func(N0, int16) ([]N1, [3]N1, error)) any {
	return deriveComposeT13(f0, f1)
}

func ToErrorT14(err error, f func() (rune, []float32, bool)) any {
	return deriveToErrorT14(err, f)
}

func JoinErrT15(f func() (*uint64, ext2.Num, error), err error) []any {
	r0, r1, e := deriveJoinET15(f, err)
	return []any{r0, r1, e}
}
