package other

import (
	ext "subj/ext1"
)

type Num uint8

type Key struct {
	k0 bool
	K1 Num
}

type E0 struct {
}

type E1 struct {
	F0 uint16
	F1 [][2]ext.E0
	f2 ext.E0
}
