package ext

type Num float64

type Key struct {
	K0 Num
	K1 int
	K2 uint16
}

type E0 struct {
	f0 bool
	F1 *E0
}

type E1 struct {
	F0 byte
}
