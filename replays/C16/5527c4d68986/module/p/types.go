package p

import (
	other "subj/x/other"
)

type MyStr string

type MyU8 uint8

type K0 struct {
	f0 bool
}

type S0 struct {
}

type S1 struct {
	*S0
}

type S2 struct {
	f0 map[K0]other.Num
	f1 int8
	f2 map[complex128]complex128
}
