package p

import (
	ext "subj/ext1"
	other "subj/x/other"
)

var Anchor = 0

func ComposeT0(f0 func(interface{}) (map[uint16]uint8, error), f1 func(map[uint16]uint8) error, f2 func() (int16, error)) any {
	return deriveComposeT0(f0, f1, f2)
}

func ComposeT1(f0 func() (uint16, rune, error), f1 func(uint16, rune) (ext.Num, int, error), f2 func(ext.Num, int) error) any {
	return deriveComposeT1(f0, f1, f2)
}

func ComposeT2(f0 func(interface{}, *rune) (map[other.Num]bool, map[MyU8]string, interface{}, error), f1 func(map[other.Num]bool, map[MyU8]string, interface{}) (uint8, int, interface{}, error)) any {
	return deriveComposeT2(f0, f1)
}

func ComposeT3(f0 func() (uintptr, error), f1 func(uintptr) (interface{}, error), f2 func(interface{}) error, f3 func() error) any {
	return deriveComposeT3(f0, f1, f2, f3)
}

func TraverseT4(f func(interface{}) (interface{}, error), l []interface{}) ([]interface{}, error) {
	return deriveTraverseT4(f, l)
}

func TraverseT5(f func(interface{}) (int, error), l []interface{}) ([]int, error) {
	return deriveTraverseT5(f, l)
}

func ComposeT6(f0 func(complex128, int) (interface{}, error), f1 func(interface{}) (interface{}, map[MyStr]rune, error), f2 func(interface{}, map[MyStr]rune) (rune, interface{}, interface{}, error)) any {
	return deriveComposeT6(f0, f1, f2)
}

func ToErrorT7(err error, f func(a error, b bool, c bool) bool) any {
	return deriveToErrorT7(err, f)
}

func ComposeT8(f0 func() error, f1 func() (map[ext.Num]int16, error), f2 func(map[ext.Num]int16) (uint16, error), f3 func(uint16) (rune, bool, error)) any {
	return deriveComposeT8(f0, f1, f2, f3)
}

func FmapErrT9(f func(string) (other.Key, string, map[MyU8]int8), g func() (string, error)) []any {
	r, err := deriveFmapET9(f, g)
	return []any{r, err}
}

func JoinErrT10(f func() (S0, string, error), err error) []any {
	r0, r1, e := deriveJoinET10(f, err)
	return []any{r0, r1, e}
}

func JoinErrT11(f func() (map[other.Num]S1, *int, error), err error) []any {
	r0, r1, e := deriveJoinET11(f, err)
	return []any{r0, r1, e}
}

func ComposeT12(f0 func(*S0, K0, other.E1) ([0]MyU8, ext.Num, error), f1 func([0]MyU8, ext.Num) error, f2 func() (map[MyU8]S2, ext.Num, uintptr, error), f3 func(map[MyU8]S2, ext.Num, uintptr) (string, uint64, error)) any {
	return deriveComposeT12(f0, f1, f2, f3)
}

func ComposeT13(f0 func(int, map[ext.Key]byte, interface{}) (float32, error), f1 func(float32) (interface{}, string, complex64, error), f2 func(interface{}, string, complex64) (interface{}, error)) any {
	return deriveComposeT13(f0, f1, f2)
}

func ComposeT14(f0 func() error, f1 func() error, f2 func() error, f3 func() (**ext.Key, int, map[int]S2, error)) any {
	return deriveComposeT14(f0, f1, f2, f3)
}

func ToErrorT15(err error, f func(map[int32]other.Key) (MyStr, []K0, bool)) any {
	return deriveToErrorT15(err, f)
}
