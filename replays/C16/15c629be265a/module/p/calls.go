package p

import (
	ext "subj/ext1"
	ext2 "subj/x/ext"
)

var Anchor = 0

func ComposeT0(f0 func(int) (int32, []ext2.Key, error), f1 func(int32, []ext2.Key) error, f2 func() error, f3 func() (map[int8]byte, float32, error)) any {
	return deriveComposeT0(f0, f1, f2, f3)
}

func TraverseT1(f func(interface{}) (S1, error), l []interface{}) ([]S1, error) {
	return deriveTraverseT1(f, l)
}

func FmapErrT2(f func(int16) (uint, ext2.E0), g func() (int16, error)) []any {
	r, err := deriveFmapET2(f, g)
	return []any{r, err}
}

func ComposeT3(f0 func() (interface{}, string, complex128, error), f1 func(interface{}, string, complex128) error, f2 func() (ext2.E0, int, *S0, error)) any {
	return deriveComposeT3(f0, f1, f2)
}

func TraverseT4(f func(ext.Key) (interface{}, error), l []ext.Key) ([]interface{}, error) {
	return deriveTraverseT4(f, l)
}

func TraverseT5(f func([]byte) (interface{}, error), l [][]byte) ([]interface{}, error) {
	return deriveTraverseT5(f, l)
}

func ComposeT6(f0 func() error, f1 func() error) any {
	return deriveComposeT6(f0, f1)
}

func ComposeT7(f0 func(string) (ext2.Num, error), f1 func(ext2.Num) (string, int32, error)) any {
	return deriveComposeT7(f0, f1)
}

func ComposeT8(f0 func(map[MyF32][]K0, int) (string, interface{}, error), f1 func(string, interface{}) (interface{}, MyF32, interface{}, error)) any {
	return deriveComposeT8(f0, f1)
}

func ComposeT9(f0 func() (ext2.Num, []K0, error), f1 func(ext2.Num, []K0) (ext2.Num, int64, map[int]S0, error), f2 func(ext2.Num, int64, map[int]S0) (ext.Num, error), f3 func(ext.Num) (rune, byte, error)) any {
	return deriveComposeT9(f0, f1, f2, f3)
}

func ComposeT10(f0 func(interface{}, string, byte) ([][1]complex64, error), f1 func([][1]complex64) (string, []byte, uint64, error), f2 func(string, []byte, uint64) (ext.Num, interface{}, int, error)) any {
	return deriveComposeT10(f0, f1, f2)
}

func TraverseT11(f func(string) (*map[MyF32]complex64, error), l []string) ([]*map[MyF32]complex64, error) {
	return deriveTraverseT11(f, l)
}

func ComposeT12(f0 func() (interface{}, error), f1 func(interface{}) (interface{}, MyF32, ext.Key, error), f2 func(interface{}, MyF32, ext.Key) (interface{}, error)) any {
	return deriveComposeT12(f0, f1, f2)
}

func ComposeT13(f0 func(int16, bool) (interface{}, interface{}, error), f1 func(interface{}, interface{}) (complex64, error)) any {
	return deriveComposeT13(f0, f1)
}

func ToErrorT14(err error, f func(_ float32, _ uintptr) (bool, bool)) any {
	return deriveToErrorT14(err, f)
}

func TraverseT15(f func(*S1) (int16, error), l []*S1) ([]int16, error) {
	return deriveTraverseT15(f, l)
}
