package p

type MyF32 float32

type K0 struct {
	F0 bool
	F1 int8
}

type S0 struct {
}

type S1 struct {
	*S0
	F1 int16
	F2 complex64
}
