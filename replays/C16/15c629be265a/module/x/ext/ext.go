package ext

type Num string

type Key struct {
	k0 int
}

type E0 struct {
	f0 Key
}
