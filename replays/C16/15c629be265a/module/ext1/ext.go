package ext

type Num float64

type Key struct {
	k0 uint16
	k1 int
	K2 bool
}

type E0 struct {
}

type E1 struct {
	F0 int8
	F1 map[int]Num
}
