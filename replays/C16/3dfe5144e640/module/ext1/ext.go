package ext

type Num uint8

type Key struct {
	k0 Num
	k1 uint8
}

type E0 struct {
	F0 []byte
}
