package p

import (
	ext2 "subj/x/ext"
)

type MyU8 uint8

type MyF32 float32

type MyInt int

type N0 map[string]MyF32

type N1 map[byte]int

type N2 *uint8

type K0 struct {
}

type K1 struct {
	f0 uint8
	F1 MyInt
}

type S0 struct {
	F0 map[MyF32]map[K0]map[MyInt]N0
	F1 map[bool]ext2.E0
	F2 N1
	*K0
	F4 uint8
	F5 int8
}
