package p

import (
	ext "subj/ext1"
	ext2 "subj/x/ext"
)

var Anchor = 0

func ComposeT0(f0 func(N0, ext.Key, K1) (interface{}, uintptr, interface{}, error), f1 func(interface{}, uintptr, interface{}) (interface{}, interface{}, error)) any {
	return deriveComposeT0(f0, f1)
}

func ComposeT1(f0 func(N0) error, f1 func() error, f2 func() (K1, N2, [0]float32, error), f3 func(K1, N2, [0]float32) error) any {
	return deriveComposeT1(f0, f1, f2, f3)
}

func FmapErrT2(f func(MyF32) (int, map[bool]map[[1]ext2.Num]bool, ext2.Num), g func() (MyF32, error)) []any {
	r, err := deriveFmapET2(f, g)
	return []any{r, err}
}

func TraverseT3(f func(K1) (K1, error), l []K1) ([]K1, error) {
	return deriveTraverseT3(f, l)
}

func TraverseT4(f func([0]int8) (bool, error), l [][0]int8) ([]bool, error) {
	return deriveTraverseT4(f, l)
}

func FmapErrT5(f func(uint) (interface{}, interface{}, ext2.E0, error), g func() (uint, error)) []any {
	r, err := deriveFmapET5(f, g)
	return []any{r, err}
}

func JoinErrT6(f func() (interface{}, interface{}, error), err error) []any {
	r0, r1, e := deriveJoinET6(f, err)
	return []any{r0, r1, e}
}

func ComposeT7(f0 func() (string, map[int32]ext2.E0, K1, error), f1 func(string, map[int32]ext2.E0, K1) (map[byte]K0, *N0, error), f2 func(map[byte]K0, *N0) error, f3 func() (ext.Key, interface{}, ext2.Key, error)) any {
	return deriveComposeT7(f0, f1, f2, f3)
}

func ToErrorT8(err error, f func(map[bool]ext2.Num) bool) any {
	return deriveToErrorT8(err, f)
}

func ToErrorT9(err error, f func() bool) any {
	return deriveToErrorT9(err, f)
}

func ComposeT10(f0 func(interface{}, interface{}) (S0, error), f1 func(S0) (S0, error), f2 func(S0) (uint8, int, interface{}, error)) any {
	return deriveComposeT10(f0, f1, f2)
}

func JoinErrT11(f func() ([0]int, byte, error), err error) []any {
	r0, r1, e := deriveJoinET11(f, err)
	return []any{r0, r1, e}
}

func ComposeT12(f0 func(N2, interface{}, N2) (*float32, error), f1 func(*float32) (uint8, [0][2]N2, error), f2 func(uint8, [0][2]N2) (interface{}, int, error), f3 func(interface{}, int) ([]*MyInt, bool, MyU8, error)) any {
	return deriveComposeT12(f0, f1, f2, f3)
}

func ComposeT13(f0 func(interface{}) (*K1, map[ext2.Key]bool, int8, error), f1 func(*K1, map[ext2.Key]bool, int8) (interface{}, map[int8]uint16, N1, error)) any {
	return deriveComposeT13(f0, f1)
}

func ComposeT14(f0 func(N0, uint16) error, f1 func() ([0][]byte, uint8, error)) any {
	return deriveComposeT14(f0, f1)
}

func JoinErrT15(f func() error, err error) []any {
	e := deriveJoinET15(f, err)
	return []any{e}
}
