package ext

import (
	ext "subj/ext1"
)

type Num uint8

type Key struct {
	k0 Num
	K1 Num
	K2 float32
}

type E0 struct {
	f0 float32
	f1 Num
	F2 *ext.Key
	f3 ext.Num
}

type E1 struct {
}
