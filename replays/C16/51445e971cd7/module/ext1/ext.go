package ext

type Num uint8

type Key struct {
	k0 int
	K1 uint8
	k2 bool
}

type E0 struct {
	f0 map[Key][]byte
	f1 Key
	f2 bool
	f3 float32
}

type E1 struct {
	f0 byte
}
