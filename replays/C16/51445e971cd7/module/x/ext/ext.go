package ext

import (
	ext "subj/ext1"
)

type Num uint8

type Key struct {
	K0 complex128
	K1 bool
}

type E0 struct {
	F0 []byte
	F1 string
	f2 ext.Key
}

type E1 struct {
	f0 int16
	f1 ext.Num
}
