package p

import (
	ext2 "subj/x/ext"
)

type MyInt int

type N0 *int

type K0 struct {
	F0 ext2.Key
}

type S0 struct {
}
