package p

import (
	ext "subj/ext1"
	ext2 "subj/x/ext"
)

var Anchor = 0

func JoinErrT0(f func() error, err error) []any {
	e := deriveJoinET0(f, err)
	return []any{e}
}

func ComposeT1(f0 func(interface{}) (string, error), f1 func(string) (uint, N0, interface{}, error), f2 func(uint, N0, interface{}) (uint, interface{}, error)) any {
	return deriveComposeT1(f0, f1, f2)
}

func FmapErrT2(f func(complex128) (interface{}, int8, error), g func() (complex128, error)) []any {
	r, err := deriveFmapET2(f, g)
	return []any{r, err}
}

func ComposeT3(f0 func(*map[[0]int32]complex128) (MyInt, *S0, error), f1 func(MyInt, *S0) (K0, S0, MyInt, error)) any {
	return deriveComposeT3(f0, f1)
}

func ToErrorT4(err error, f func([2]float64, bool, int8) (int8, K0, bool)) any {
	return deriveToErrorT4(err, f)
}

func ComposeT5(f0 func(N0, N0) error, f1 func() (S0, error)) any {
	return deriveComposeT5(f0, f1)
}

func ComposeT6(f0 func(map[string]N0, N0) (string, error), f1 func(string) (int16, int64, uint, error), f2 func(int16, int64, uint) (interface{}, map[ext2.Key]K0, error)) any {
	return deriveComposeT6(f0, f1, f2)
}

func TraverseT7(f func(int16) (ext.E1, error), l []int16) ([]ext.E1, error) {
	return deriveTraverseT7(f, l)
}

func TraverseT8(f func([1]map[MyInt]bool) (ext.Key, error), l [][1]map[MyInt]bool) ([]ext.Key, error) {
	return deriveTraverseT8(f, l)
}

func ComposeT9(f0 func(S0) error, f1 func() (ext.E0, error)) any {
	return deriveComposeT9(f0, f1)
}

func ComposeT10(f0 func(bool) error, f1 func() (map[int]S0, S0, error)) any {
	return deriveComposeT10(f0, f1)
}

func ComposeT11(f0 func(map[bool]ext2.E0) (float64, interface{}, error), f1 func(float64, interface{}) error, f2 func() (ext2.Key, map[int8]int8, error)) any {
	return deriveComposeT11(f0, f1, f2)
}

func JoinErrT12(f func() (N0, interface{}, error), err error) []any {
	r0, r1, e := deriveJoinET12(f, err)
	return []any{r0, r1, e}
}

func ToErrorT13(err error, f func() (string, bool)) any {
	return deriveToErrorT13(err, f)
}

func ComposeT14(f0 func() (int, int32, error), f1 func(int, int32) error, f2 func() (map[MyInt]N0, error)) any {
	return deriveComposeT14(f0, f1, f2)
}

func ComposeT15(f0 func(map[ext2.Key]ext2.Key) (ext.Num, rune, error), f1 func(ext.Num, rune) (ext2.Num, error)) any {
	return deriveComposeT15(f0, f1)
}
