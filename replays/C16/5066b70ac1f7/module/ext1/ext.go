package ext

type Num float64

type Key struct {
	k0 int64
	k1 uint64
}

type E0 struct {
	f0 []byte
	f1 bool
}

type E1 struct {
	f0 E0
	f1 Num
	f2 bool
	f3 byte
}
