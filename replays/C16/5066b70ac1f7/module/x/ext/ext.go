package ext

import (
	ext "subj/ext1"
)

type Num uint8

type Key struct {
	k0 int8
	k1 bool
	k2 Num
}

type E0 struct {
}

type E1 struct {
	f0 map[int32]ext.Key
	f1 *ext.E0
	f2 complex128
}
