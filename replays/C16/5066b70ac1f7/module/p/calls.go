package p

import (
	ext "subj/ext1"
	ext2 "subj/x/ext"
)

var Anchor = 0

func ComposeT0(f0 func(bool, []S0, int16) (uintptr, interface{}, error), f1 func(uintptr, interface{}) (map[MyBool][]byte, N0, error), f2 func(map[MyBool][]byte, N0) (bool, byte, error)) any {
	return deriveComposeT0(f0, f1, f2)
}

func ComposeT1(f0 func(complex128, int16, MyBool) (float64, ext2.E1, error), f1 func(float64, ext2.E1) (uintptr, error), f2 func(uintptr) (map[[1]K0]N0, S1, int32, error), f3 func(map[[1]K0]N0, S1, int32) (K1, [1]int, map[byte]N0, error)) any {
	return deriveComposeT1(f0, f1, f2, f3)
}

func FmapErrT2(f func(uint16), g func() (uint16, error)) []any {
	err := deriveFmapET2(f, g)
	return []any{err}
}

func TraverseT3(f func(ext2.Num) (ext2.Num, error), l []ext2.Num) ([]ext2.Num, error) {
	return deriveTraverseT3(f, l)
}

func ComposeT4(f0 func(ext.Num) (map[K1]K1, int16, error), f1 func(map[K1]K1, int16) (complex128, error), f2 func(complex128) ([1]uint, error)) any {
	return deriveComposeT4(f0, f1, f2)
}

func TraverseT5(f func(uint32) (map[ext2.Key]ext2.Num, error), l []uint32) ([]map[ext2.Key]ext2.Num, error) {
	return deriveTraverseT5(f, l)
}

func FmapErrT6(f func(N0) []byte, g func() (N0, error)) []any {
	r, err := deriveFmapET6(f, g)
	return []any{r, err}
}

func TraverseT7(f func(interface{}) (uint, error), l []interface{}) ([]uint, error) {
	return deriveTraverseT7(f, l)
}

func ComposeT8(f0 func(uint32, interface{}, interface{}) error, f1 func() (int16, uint8, error), f2 func(int16, uint8) (interface{}, int, error)) any {
	return deriveComposeT8(f0, f1, f2)
}

func TraverseT9(f func(map[int64]MyU) (ext2.Num, error), l []map[int64]MyU) ([]ext2.Num, error) {
	return deriveTraverseT9(f, l)
}

func ComposeT10(f0 func(interface{}, *[2]int16, interface{}) error, f1 func() error) any {
	return deriveComposeT10(f0, f1)
}

func JoinErrT11(f func() (bool, error), err error) []any {
	r0, e := deriveJoinET11(f, err)
	return []any{r0, e}
}

func JoinErrT12(f func() (ext2.Num, string, interface{}, error), err error) []any {
	r0, r1, r2, e := deriveJoinET12(f, err)
	return []any{r0, r1, r2, e}
}

func TraverseT13(f func(K0) (bool, error), l []K0) ([]bool, error) {
	return deriveTraverseT13(f, l)
}

func FmapErrT14(f func(interface{}), g func() (interface{}, error)) []any {
	err := deriveFmapET14(f, g)
	return []any{err}
}

func ComposeT15(f0 func(N0) (map[ext2.Num]ext.E1, error), f1 func(map[ext2.Num]ext.E1) (N1, bool, error), f2 func(N1, bool) (map[int]int, *ext.Num, int16, error)) any {
	return deriveComposeT15(f0, f1, f2)
}
