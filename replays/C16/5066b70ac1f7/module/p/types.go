package p

import (
	ext "subj/ext1"
	ext2 "subj/x/ext"
)

type MyU uint

type MyBool bool

type N0 []MyU

type N1 map[MyBool]ext2.Num

type K0 struct {
	F0 ext.Num
	f1 MyBool
}

type K1 struct {
	F0 bool
	f1 float64
	f2 [1]int32
}

type S0 struct {
	f0 uint16
}

type S1 struct {
	F0 ext.Num
}
