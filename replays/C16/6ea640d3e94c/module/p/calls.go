package p

import (
	ext "subj/ext1"
	ext2 "subj/x/ext"
)

var Anchor = 0

func ComposeT0(f0 func() error, f1 func() (ext.E0, interface{}, interface{}, error)) any {
	return deriveComposeT0(f0, f1)
}

func ComposeT1(f0 func(complex128, int16, MyU8) (float64, error), f1 func(float64) error, f2 func() (byte, uintptr, error), f3 func(byte, uintptr) (map[[1]K0]N0, S2, int32, error)) any {
	return deriveComposeT1(f0, f1, f2, f3)
}

func ComposeT2(f0 func(complex128) (*K0, int32, uint8, error), f1 func(*K0, int32, uint8) (interface{}, [2]N1, interface{}, error), f2 func(interface{}, [2]N1, interface{}) (ext2.E0, error), f3 func(ext2.E0) (float64, ext.Num, N0, error)) any {
	return deriveComposeT2(f0, f1, f2, f3)
}

func ComposeT3(f0 func() (N0, int8, error), f1 func(N0, int8) (float32, []byte, rune, error), f2 func(float32, []byte, rune) (bool, map[ext.Num]*S1, [1]N0, error)) any {
	return deriveComposeT3(f0, f1, f2)
}

func TraverseT4(f func(map[bool]K0) (interface{}, error), l []map[bool]K0) ([]interface{}, error) {
	return deriveTraverseT4(f, l)
}

func FmapErrT5(f func(uint32), g func() (uint32, error)) []any {
	err := deriveFmapET5(f, g)
	return []any{err}
}

func TraverseT6(f func(*K0) (N0, error), l []*K0) ([]N0, error) {
	return deriveTraverseT6(f, l)
}

func ComposeT7(f0 func(interface{}, int, map[int64]MyF32) ([3]MyU8, error), f1 func([3]MyU8) (MyU8, []N1, uintptr, error)) any {
	return deriveComposeT7(f0, f1)
}

func JoinErrT8(f func() error, err error) []any {
	e := deriveJoinET8(f, err)
	return []any{e}
}

func ComposeT9(f0 func([0]ext.Num) (N0, error), f1 func(N0) error, f2 func() error, f3 func() error) any {
	return deriveComposeT9(f0, f1, f2, f3)
}

func ToErrorT10(err error, f func(a int, b uint32, c interface{}) (uint, bool)) any {
	return deriveToErrorT10(err, f)
}

func ComposeT11(f0 func(interface{}) (N1, bool, error), f1 func(N1, bool) (map[int]int, *ext.Num, int16, error), f2 func(map[int]int, *ext.Num, int16) ([]K0, error)) any {
	return deriveComposeT11(f0, f1, f2)
}

func TraverseT12(f func(K0) (interface{}, error), l []K0) ([]interface{}, error) {
	return deriveTraverseT12(f, l)
}

func ComposeT13(f0 func(uintptr) (bool, int64, ext.E1, error), f1 func(bool, int64, ext.E1) (float32, S1, error), f2 func(float32, S1) error, f3 func() (int64, error)) any {
	return deriveComposeT13(f0, f1, f2, f3)
}

func ComposeT14(f0 func(int64, interface{}) (S1, interface{}, uintptr, error), f1 func(S1, interface{}, uintptr) error, f2 func() (bool, error)) any {
	return deriveComposeT14(f0, f1, f2)
}

func ComposeT15(f0 func(map[uintptr]MyF32) (map[K1]int8, *string, []ext2.E0, error), f1 func(map[K1]int8, *string, []ext2.E0) error, f2 func() (interface{}, *[]int, S1, error)) any {
	return deriveComposeT15(f0, f1, f2)
}
