package p

import (
	ext2 "subj/x/ext"
)

type MyStr string

type MyU8 uint8

type MyF32 float32

type N0 *uint64

type N1 [2]ext2.Num

type K0 struct {
	F0 [2]int8
	F1 MyU8
	F2 ext2.Key
}

type K1 struct {
}

type S0 struct {
	f0 map[[1]MyU8]S0
	F1 []int16
	f2 uint64
}

type S1 struct {
	F0 [0][]byte
	S0
	f2 complex64
	f3 int16
	F4 map[float32][0]map[int]complex64
	F5 map[int32]S2
}

type S2 struct {
}
