package ext

type Num uint8

type Key struct {
	k0 int8
	k1 bool
	k2 Num
}

type E0 struct {
}

type E1 struct {
	f0 *map[int32]int8
	f1 Num
	F2 complex64
}
