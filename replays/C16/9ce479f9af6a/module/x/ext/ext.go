package ext

type Num uint8

type Key struct {
	k0 bool
	K1 Num
	k2 int8
}

type E0 struct {
	f0 [][]int8
	f1 []bool
}
