package p

type MyRune rune

type MyStr string

type K0 struct {
	f0 int32
}

type S0 struct {
	*K0
}

type S1 struct {
}
