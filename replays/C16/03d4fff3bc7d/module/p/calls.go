package p

import (
	ext "subj/ext1"
	ext2 "subj/x/ext"
)

var Anchor = 0

func JoinErrT0(f func() error, err error) []any {
	e := deriveJoinET0(f, err)
	return []any{e}
}

func ComposeT1(f0 func(interface{}) (map[[0]uint]MyRune, int, map[K0]K0, error), f1 func(map[[0]uint]MyRune, int, map[K0]K0) (ext.E0, byte, error), f2 func(ext.E0, byte) (map[MyStr]S1, ext2.Num, float64, error), f3 func(map[MyStr]S1, ext2.Num, float64) (string, string, map[ext.Key]int, error)) any {
	return deriveComposeT1(f0, f1, f2, f3)
}

func FmapErrT2(f func(MyStr) (*S1, rune, error), g func() (MyStr, error)) []any {
	r, err := deriveFmapET2(f, g)
	return []any{r, err}
}

func ToErrorT3(err error, f func(a int16, b []ext2.E0) bool) any {
	return deriveToErrorT3(err, f)
}

func ToErrorT4(err error, f func(map[MyStr]S0, int) bool) any {
	return deriveToErrorT4(err, f)
}

func ToErrorT5(err error, f func() bool) any {
	return deriveToErrorT5(err, f)
}

func ComposeT6(f0 func(interface{}, [0]uintptr, map[uint64]*ext2.Num) (uint32, error), f1 func(uint32) (map[int8]S0, map[int]int, *[2]int16, error)) any {
	return deriveComposeT6(f0, f1)
}

func ComposeT7(f0 func(int16, int, byte) (string, MyStr, error), f1 func(string, MyStr) (float32, MyRune, error)) any {
	return deriveComposeT7(f0, f1)
}

func ComposeT8(f0 func(interface{}, float32, interface{}) (complex128, string, [0]int32, error), f1 func(complex128, string, [0]int32) (*map[int]MyRune, error), f2 func(*map[int]MyRune) (rune, complex64, S1, error)) any {
	return deriveComposeT8(f0, f1, f2)
}

func ComposeT9(f0 func(float64) (uint16, error), f1 func(uint16) (interface{}, string, uint8, error), f2 func(interface{}, string, uint8) (int8, complex128, uintptr, error)) any {
	return deriveComposeT9(f0, f1, f2)
}

func JoinErrT10(f func() (rune, interface{}, error), err error) []any {
	r0, r1, e := deriveJoinET10(f, err)
	return []any{r0, r1, e}
}

func FmapErrT11(f func(int) (uint64, error), g func() (int, error)) []any {
	r, err := deriveFmapET11(f, g)
	return []any{r, err}
}

func TraverseT12(f func(ext2.Num) (int, error), l []ext2.Num) ([]int, error) {
	return deriveTraverseT12(f, l)
}

func ComposeT13(f0 func() error, f1 func() (interface{}, uint16, string, error), f2 func(interface{}, uint16, string) (ext2.Key, int8, error), f3 func(ext2.Key, int8) (interface{}, S0, string, error)) any {
	return deriveComposeT13(f0, f1, f2, f3)
}

func FmapErrT14(f func(S0) (float64, interface{}, string), g func() (S0, error)) []any {
	r, err := deriveFmapET14(f, g)
	return []any{r, err}
}

func ToErrorT15(err error, f func(error, int8, *bool) (S0, ext.Num, bool)) any {
	return deriveToErrorT15(err, f)
}
