package ext

type Num int64

type Key struct {
	K0 Num
	K1 string
}

type E0 struct {
	f0 Key
	F1 [2]uint
	f2 *[0]Key
	F3 [][]byte
}

type E1 struct {
	F0 int16
	f1 []byte
	f2 [1]*E1
}
