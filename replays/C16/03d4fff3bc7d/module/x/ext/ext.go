package ext

import (
	ext "subj/ext1"
)

type Num float64

type Key struct {
	k0 uint16
}

type E0 struct {
	F0 Num
	f1 []byte
	f2 [1]uint32
}

type E1 struct {
	f0 ext.E0
	f1 ext.Num
	f2 E0
}
