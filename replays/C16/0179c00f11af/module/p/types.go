package p

import (
	ext "subj/ext1"
	ext2 "subj/x/ext"
)

type MyC complex128

type N0 map[K0]ext.Num

type N1 map[uint]int

type K0 struct {
	F0 [0]MyC
}

type S0 struct {
	F0 ext2.E0
	f1 *N0
	F2 map[ext.Num]S0
}

type S1 struct {
	f0 *int
}
