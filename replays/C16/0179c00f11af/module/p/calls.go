package p

import (
	ext "subj/ext1"
	ext2 "subj/x/ext"
)

var Anchor = 0

func FmapErrT0(f func(int16) interface{}, g func() (int16, error)) []any {
	r, err := deriveFmapET0(f, g)
	return []any{r, err}
}

func FmapErrT1(f func(interface{}) (map[uint8]S1, int, error), g func() (interface{}, error)) []any {
	r, err := deriveFmapET1(f, g)
	return []any{r, err}
}

func TraverseT2(f func([0]N1) (interface{}, error), l [][0]N1) ([]interface{}, error) {
	return deriveTraverseT2(f, l)
}

func ComposeT3(f0 func() error, f1 func() (interface{}, K0, error), f2 func(interface{}, K0) (ext.Num, interface{}, error), f3 func(ext.Num, interface{}) (uint32, interface{}, map[uint64]ext.Key, error)) any {
	return deriveComposeT3(f0, f1, f2, f3)
}

func ComposeT4(f0 func(map[ext2.Num]bool) (interface{}, int, map[MyC]rune, error), f1 func(interface{}, int, map[MyC]rune) (interface{}, uintptr, N0, error)) any {
	return deriveComposeT4(f0, f1)
}

func TraverseT5(f func(MyC) (rune, error), l []MyC) ([]rune, error) {
	return deriveTraverseT5(f, l)
}

func ComposeT6(f0 func(interface{}, interface{}, map[ext2.Key]int8) (map[MyC]S0, uint32, MyC, error), f1 func(map[MyC]S0, uint32, MyC) error, f2 func() (ext.E0, *bool, error), f3 func(ext.E0, *bool) (complex64, error)) any {
	return deriveComposeT6(f0, f1, f2, f3)
}

func ComposeT7(f0 func(ext2.Key) (MyC, uint, error), f1 func(MyC, uint) error, f2 func() error) any {
	return deriveComposeT7(f0, f1, f2)
}

func JoinErrT8(f func() (int32, []byte, error), err error) []any {
	r0, r1, e := deriveJoinET8(f, err)
	return []any{r0, r1, e}
}

func JoinErrT9(f func() error, err error) []any {
	e := deriveJoinET9(f, err)
	return []any{e}
}

func ComposeT10(f0 func() (rune, int64, error), f1 func(rune, int64) (float32, interface{}, complex64, error), f2 func(float32, interface{}, complex64) error, f3 func() (int8, uint32, []ext2.Key, error)) any {
	return deriveComposeT10(f0, f1, f2, f3)
}

func ToErrorT11(err error, f func(_ uint32) bool) any {
	return deriveToErrorT11(err, f)
}

func ComposeT12(f0 func(map[[0]MyC]int64) (uint8, interface{}, error), f1 func(uint8, interface{}) error) any {
	return deriveComposeT12(f0, f1)
}

func ComposeT13(f0 func(bool, uint8, int8) (map[[1]K0]float32, error), f1 func(map[[1]K0]float32) (N0, []byte, error)) any {
	return deriveComposeT13(f0, f1)
}

func FmapErrT14(f func(ext.Key) (int32, []map[MyC]S1, string, error), g func() (ext.Key, error)) []any {
	r, err := deriveFmapET14(f, g)
	return []any{r, err}
}

func TraverseT15(f func(map[[1]complex128]MyC) (*MyC, error), l []map[[1]complex128]MyC) ([]*MyC, error) {
	return deriveTraverseT15(f, l)
}
