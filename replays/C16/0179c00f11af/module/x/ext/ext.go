package ext

import (
	ext "subj/ext1"
)

type Num uint8

type Key struct {
	K0 Num
	K1 bool
	K2 bool
}

type E0 struct {
	f0 ext.Key
}
