package ext

type Num uint8

type Key struct {
	K0 byte
	K1 int8
}

type E0 struct {
	F0 map[Key]complex128
	F1 Num
}
