package p

type MyInt int

type MyF float64

type MyI64 int64

type N0 []complex128

type N1 []int

type N2 [1]float64

type K0 struct {
	F0 int64
}

type K1 struct {
}

type S0 struct {
	f0 K1
	F1 bool
	K0
	F3 bool
	K1
}

type S1 struct {
	K0
}

type S2 struct {
	f0 int32
	K0
	F2 bool
	f3 bool
}
