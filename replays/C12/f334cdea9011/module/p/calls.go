package p

import (
	ext "subj/ext1"
)

func W0(a uint64, b uint64) bool {
	return deriveX_CT0(a)(b)
}

func W1(a ext.Num, b ext.Num) bool {
	return deriveX_CT1(a)(b)
}

func W2(a map[uint8]struct{}, b map[uint8]struct{}) map[uint8]struct{} {
	return deriveXMT2(a, b)
}
