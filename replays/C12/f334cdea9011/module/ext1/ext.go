package ext

type Num int

type Key struct {
	K0 bool
	K1 bool
	K2 bool
}

type E0 struct {
	F0 Num
}

type E1 struct {
}
