package other

type Num int

type Key struct {
	K0 Num
	K1 Num
	K2 bool
}

type E0 struct {
	F0 bool
	F1 bool
	F2 bool
	F3 bool
}

type E1 struct {
	f0 bool
	F1 Num
}
