package other

type Num int64

type Key struct {
	k0 int
	k1 Num
}

type E0 struct {
	f0 bool
}
