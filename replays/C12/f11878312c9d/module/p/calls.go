package p

import (
	ext "subj/ext1"
)

func W0(a ext.Num, b ext.Num) bool {
	return ordSameZT0(a, b)
}

func W2(pred func(ext.E1) bool, l []ext.E1) bool {
	return ordT2(pred, l)
}

func W3(a N0, b N0) int {
	return ordSameCT3(a)(b)
}

func W5(a N0, b N0) int {
	return ordSameT5(a, b)
}

func W6(a uint16, b uint16) bool {
	return ordSameZT6(a, b)
}
