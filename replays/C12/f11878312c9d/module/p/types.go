package p

import (
	other "subj/x/other"
)

type MyStr string

type N0 map[bool]bool

type K0 struct {
}

type K1 struct {
	F0 int8
	f1 int32
	F2 MyStr
}

type S0 struct {
	F0 int16
}

type S1 struct {
}

type S2 struct {
	f0 uint16
	f1 other.E0
	f2 *uint8
}
