package ext

type Num int

type Key struct {
	K0 bool
	K1 bool
	K2 Num
}

type E0 struct {
}

type E1 struct {
	F0 Num
	f1 bool
	F2 int
}
