package other

type Num int

type Key struct {
	K0 Num
}

type E0 struct {
	F0 Num
	f1 int
	F2 Num
	F3 Key
}

type E1 struct {
	F0 int
	f1 Num
	f2 []byte
}
