package p

import (
	other "subj/x/other"
)

type MyInt int

type K0 struct {
	f0 [0]other.Num
	F1 MyInt
}

type K1 struct {
	f0 float32
	F1 int32
}

type S0 struct {
	f0 map[MyInt][0]K0
	F1 []map[K1]string
	F2 uint8
	F3 uint32
}

type S1 struct {
}
