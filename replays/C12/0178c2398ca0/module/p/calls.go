package p

func W0(a K1, b K1) int {
	return ordT0(a, b)
}

func W1(a float64, b float64) int {
	return ordCT1(a)(b)
}

func W2(a byte, b byte) bool {
	return ordSameT2(a, b)
}
