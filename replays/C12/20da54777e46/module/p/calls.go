package p

func W0(l []int, d int) int {
	return gen_LT0(l, d)
}

func W1(a bool, b bool) bool {
	return genT1(a, b)
}
