package p

func W0(a bool, b bool) bool {
	return deriveEqualT0(a, b)
}
