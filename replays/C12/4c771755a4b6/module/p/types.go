package p

type MyInt int

type K0 struct {
}

type S0 struct {
}
