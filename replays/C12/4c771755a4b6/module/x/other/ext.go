package other

type Num int

type Key struct {
	K0 Num
}

type E0 struct {
}
