package p

import (
	ext "subj/ext1"
	other "subj/x/other"
)

func W0(a other.Num, b other.Num) int {
	return ordCT0(a)(b)
}

func W1(a K0, b K0) int {
	return ordT1(a, b)
}

func W2(l []int8) map[int8]struct{} {
	return orderZT2(l)
}

func W3(pred func(ext.E0) bool, l []ext.E0) bool {
	return orderT3(pred, l)
}
