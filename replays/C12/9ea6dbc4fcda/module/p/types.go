package p

type MyU8 uint8

type N0 []bool

type K0 struct {
	F0 float32
	F1 complex128
}

type K1 struct {
	F0 complex128
}

type S0 struct {
	f0 int
	F1 rune
	F2 bool
	F3 N0
	K1
}

type S1 struct {
	F0 bool
	K0
	F2 int
	f3 bool
	f4 bool
	K1
}

type S2 struct {
}
