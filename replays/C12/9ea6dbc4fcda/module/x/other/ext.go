package other

type Num int

type Key struct {
	k0 rune
	k1 int8
	K2 int8
}

type E0 struct {
	F0 Num
	f1 *E0
}
