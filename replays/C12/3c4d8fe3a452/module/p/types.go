package p

import (
	ext "subj/ext1"
)

type MyI64 int64

type MyU uint

type N0 [1]int16

type N1 [][]uint64

type K0 struct {
	F0 uint8
	f1 [0]int8
	F2 ext.Num
}

type K1 struct {
	f0 [0]complex128
}

type S0 struct {
	F0 int
	f1 map[K0]ext.E0
	F2 uint16
}

type S1 struct {
	K0
	F1 *int64
}
