package p

func W0(a bool, b bool) int {
	return ordKCT0(a)(b)
}

func W1(a []int, b []int) []int {
	return ordLT1(a, b)
}

func W2(l []int, d int) int {
	return deriveMinLT2(l, d)
}

func W3(a int32, b int32) int {
	return ordKCT3(a)(b)
}
