package other

type Num int

type Key struct {
	K0 Num
	K1 bool
}

type E0 struct {
	F0 Num
	F1 int
}

type E1 struct {
	f0 int16
}
