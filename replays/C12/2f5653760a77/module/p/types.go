package p

import (
	other "subj/x/other"
)

type MyBool bool

type MyC complex128

type K0 struct {
	F0 other.Key
}

type K1 struct {
	F0 int64
	f1 uintptr
}

type S0 struct {
	f0 map[bool]MyC
}

type S1 struct {
	F0 other.Num
	F1 map[other.Num]map[uint][]float32
}

type S2 struct {
}
