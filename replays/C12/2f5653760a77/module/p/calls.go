package p

func W0(a map[uint8]complex64, b map[uint8]complex64) map[uint8]complex64 {
	return genKTT0(a, b)
}

func W1(a int8, b int8) bool {
	return genT1(a, b)
}

func W2(a MyBool, b MyBool) int {
	return genKZCT2(a)(b)
}

func W3(a int, b int) bool {
	return genCT3(a)(b)
}

func W4(a bool, b bool) bool {
	return genCT4(a)(b)
}
