package ext

type Num int

type Key struct {
	K0 bool
	K1 Num
	K2 bool
}

type E0 struct {
	F0 []byte
	F1 Num
}
