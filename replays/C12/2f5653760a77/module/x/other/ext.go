package other

type Num uint8

type Key struct {
	K0 int
	k1 int8
	k2 complex128
}

type E0 struct {
	f0 bool
	f1 Key
	f2 Num
}

type E1 struct {
}
