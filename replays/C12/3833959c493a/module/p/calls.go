package p

func W0(a string, b string) bool {
	return sameT0(a, b)
}

func W1(a *K0, b *K0) bool {
	return sameT1(a, b)
}

func W2(m map[bool]string) []bool {
	return mkKeysT2(m)
}

func W4(a map[bool][]bool, b map[bool][]bool) bool {
	return sameT4(a, b)
}

func W5(a []int64) []int64 {
	return mkCloneT5(a)
}

func W6(a bool, b bool) bool {
	return sameT6(a, b)
}
