package p

func W0(a string, b string) bool {
	return xerT0(a, b)
}

func W1(a complex64, b complex64) int {
	return xT1(a, b)
}

func W2(a [0]uintptr, b [0]uintptr) bool {
	return xerT2(a, b)
}

func W3(a float64, b float64) bool {
	return xerCT3(a)(b)
}

func W5(a uint8, b uint8) bool {
	return xerT5(a, b)
}
