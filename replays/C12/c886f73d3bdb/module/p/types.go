package p

type MyInt int

type K0 struct {
	f0 bool
}

type S0 struct {
	K0
}
