package ext

type Num int

type Key struct {
	K0 bool
	K1 Num
}

type E0 struct {
	F0 bool
	F1 bool
	F2 Num
}
