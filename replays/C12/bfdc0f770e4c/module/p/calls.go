package p

import (
	ext "subj/ext1"
)

func W0(a map[K0]string, b map[K0]string) bool {
	return sameCT0(a)(b)
}

func W1(a uint16, b uint16) bool {
	return sameT1(a, b)
}

func W2(a map[K0]int32) map[K0]int32 {
	return dCloneT2(a)
}

func W3(a ext.Num, b ext.Num) bool {
	return sameT3(a, b)
}
