package p

import (
	ext "subj/ext1"
)

type MyStr string

type MyU8 uint8

type MyF32 float32

type MyInt int

type K0 struct {
}

type K1 struct {
	F0 bool
	F1 float32
	f2 uint
}

type S0 struct {
	F0 map[K0]map[string]ext.Num
	F1 []ext.E0
	F2 uint8
	F3 string
}
