package other

import (
	ext "subj/ext1"
)

type Num int

type Key struct {
	K0 Num
}

type E0 struct {
	F0 [2]ext.Num
	f1 ext.Key
	f2 ext.E0
}
