package ext

type Num int

type Key struct {
	K0 bool
}

type E0 struct {
	F0 Num
	F1 bool
	F2 Num
}

type E1 struct {
	F0 **bool
	F1 bool
	F2 bool
	F3 bool
}
