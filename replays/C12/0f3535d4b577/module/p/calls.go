package p

import (
	ext "subj/ext1"
)

func W0(a bool, b bool) bool {
	return deriveXT0(a, b)
}

func W1(a byte, b byte) int {
	return deriveXSameCT1(a)(b)
}

func W2(pred func(ext.E0) bool, l []ext.E0) bool {
	return deriveXSameZT2(pred, l)
}

func W3(a int, b int) int {
	return deriveXSameT3(a, b)
}
