package p

type MyInt int

type K0 struct {
	f0 bool
}

type S0 struct {
	f0 []bool
	f1 bool
	f2 []bool
	F3 int16
	*K0
}
