package ext

type Num int

type Key struct {
	K0 bool
	K1 Num
}

type E0 struct {
}
