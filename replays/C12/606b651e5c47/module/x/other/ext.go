package other

type Num uint8

type Key struct {
	K0 Num
}

type E0 struct {
}
