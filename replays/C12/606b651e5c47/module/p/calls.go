package p

func W0(a []K1) []K1 {
	return deriveCloneT0(a)
}

func W1(a int, b int) bool {
	return deriveXSameCT1(a)(b)
}

func W2(a K0, b K0) int {
	return deriveXCT2(a)(b)
}

func W3(a int, b int) bool {
	return deriveXSameT3(a, b)
}

func W8(a bool, b bool) bool {
	return deriveXSameT8(a, b)
}
