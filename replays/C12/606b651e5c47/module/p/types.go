package p

import (
	ext "subj/ext1"
	other "subj/x/other"
)

type MyStr string

type MyU8 uint8

type MyF32 float32

type MyInt int

type N0 *uint8

type N1 []other.Num

type K0 struct {
}

type K1 struct {
	f0 uintptr
}

type S0 struct {
	f0 *[0][]byte
	f1 map[other.Num]N1
	f2 ext.Num
	f3 bool
	f4 MyInt
	F5 map[K1]int
}

type S1 struct {
	F0 uint8
	F1 N0
	*K1
	K0
	F4 map[int32][]int
}

type S2 struct {
	F0 bool
}
