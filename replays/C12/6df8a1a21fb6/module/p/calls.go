package p

import (
	ext "subj/ext1"
)

func W0(a bool, b bool) bool {
	return ordSameT0(a, b)
}

func W2(a *ext.Num, b *ext.Num) int {
	return ordSameZT2(a, b)
}

func W5(a complex128) string {
	return ordT5(a)
}
