package p

import (
	other "subj/x/other"
)

func W0(m map[int64]map[[1]other.Num]int) []int64 {
	return ordT0(m)
}

func W1(a *K0) uint64 {
	return dHashT1(a)
}

func W2(a int8, b int8) bool {
	return dEqualT2(a, b)
}

func W3(a K1, b K1) bool {
	return dEqualT3(a, b)
}

func W4(a map[int8]K1, b map[int8]K1) int {
	return dCompareCT4(a)(b)
}
