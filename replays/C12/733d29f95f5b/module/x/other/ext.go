package other

type Num int

type Key struct {
	K0 bool
	K1 bool
	K2 Num
}

type E0 struct {
	F0 bool
}

type E1 struct {
	f0 uint16
	f1 []byte
	F2 *E1
	f3 bool
}
