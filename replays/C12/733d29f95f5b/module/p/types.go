package p

import (
	ext "subj/ext1"
	other "subj/x/other"
)

type MyInt int

type MyF float64

type MyI64 int64

type K0 struct {
	f0 ext.Num
	F1 float64
	F2 float64
}

type S0 struct {
	F0 other.Key
}

type S1 struct {
	*K0
}

type S2 struct {
	S0
	F1 map[int]S2
	F2 string
}
