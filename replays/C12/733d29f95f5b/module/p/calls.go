package p

func W0(a uint16, b uint16) bool {
	return deriveEqualT0(a, b)
}

func W1(a bool, b bool) bool {
	return deriveEqualCT1(a)(b)
}

func W2(a string, b string) int {
	return ordCT2(a)(b)
}

func W3(dst []S1, src []S1) {
	deriveDeepCopyT3(dst, src)
}

func W4(a string, b string) bool {
	return deriveEqualCT4(a)(b)
}

func W6(a map[K0]struct{}, b map[K0]struct{}) map[K0]struct{} {
	return ordSameMT6(a, b)
}

func W7(dst *string, src *string) {
	deriveDeepCopyT7(dst, src)
}

func W8(a uint, b uint) int {
	return ordCT8(a)(b)
}

func W9(l []string) []string {
	return ordSameZT9(l)
}
