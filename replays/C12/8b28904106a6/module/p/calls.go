package p

import (
	other "subj/x/other"
)

func W0(a other.Num, b other.Num) other.Num {
	return genSameTT0(a, b)
}

func W1(a int, b int) bool {
	return genCT1(a)(b)
}

func W2(a int16, b int16) bool {
	return genT2(a, b)
}
