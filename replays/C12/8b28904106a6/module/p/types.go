package p

import (
	ext "subj/ext1"
	other "subj/x/other"
)

type MyU8 uint8

type MyF32 float32

type MyInt int

type MyF float64

type N0 *int

type N1 map[int]int

type N2 map[int]int

type K0 struct {
	F0 bool
	F1 uint
	f2 uint16
}

type K1 struct {
}

type S0 struct {
	f0 *N2
	F1 ext.Num
	F2 other.E1
	F3 MyF32
	K0
}

type S1 struct {
	F0 N0
}
