package other

type Num uint8

type Key struct {
	K0 Num
	k1 Num
	k2 uint8
}

type E0 struct {
	f0 []byte
}

type E1 struct {
	f0 int32
	F1 []byte
}
