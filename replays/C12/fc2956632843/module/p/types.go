package p

type MyBool bool

type MyC complex128

type N0 []MyBool

type K0 struct {
}

type S0 struct {
}
