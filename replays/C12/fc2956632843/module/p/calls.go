package p

import (
	ext "subj/ext1"
	other "subj/x/other"
)

func W0(dst map[int32]int16, src map[int32]int16) {
	ordT0(dst, src)
}

func W1(a K0, b K0) bool {
	return deriveEqualT1(a, b)
}

func W2(a *[]byte, b *[]byte) int {
	return ordSameT2(a, b)
}

func W3(a bool, b bool) bool {
	return deriveEqualT3(a, b)
}

func W4(a int, b int) bool {
	return deriveEqualT4(a, b)
}

func W5(a N0, b N0) bool {
	return deriveEqualT5(a, b)
}

func W6(a other.Key, b other.Key) bool {
	return deriveEqualCT6(a)(b)
}

func W7(a ext.E1, b ext.E1) int {
	return ordSameT7(a, b)
}

func W8(a int, b int) bool {
	return deriveEqualCT8(a)(b)
}

func W10(a N0, b N0) bool {
	return deriveEqualCT10(a)(b)
}

func W11(a uint64, b uint64) int {
	return ordSameCT11(a)(b)
}
