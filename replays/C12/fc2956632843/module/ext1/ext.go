package ext

type Num int

type Key struct {
	K0 Num
}

type E0 struct {
	F0 Num
}

type E1 struct {
	F0 *[]E0
}
