package p

func f0(x map[A]int) []A {
	return deriveKeysA(x)
}

func f1(x map[B]int) []B {
	return deriveKeysA(x)
}

func f2(x map[[2]A]int) [][2]A {
	return deriveKeysA(x)
}

