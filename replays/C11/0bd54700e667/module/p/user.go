package p

func deriveHash_() int {
	return 1
}

var usesIt = deriveHash_()
