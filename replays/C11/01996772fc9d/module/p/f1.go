package p

func f1(x, y *B) bool {
	return deriveEqual(x, y)
}

