package p

func f0(x, y *B) bool {
	return deriveEqualX(x, y)
}

func f1(x, y *A) bool {
	return deriveEqual(x, y)
}

func f2(x, y *A) bool {
	return deriveEqual(x, y)
}

func f3(x, y *C) bool {
	return deriveEqual(x, y)
}

func f4(x, y *A) bool {
	return deriveEqual(x, y)
}

