package p

func f4(x, y *A) bool {
	return deriveEqual(x, y)
}

