package p

func f0(x map[A]int) []A {
	return deriveKeys(x)
}

