package p

func f1(x *A) uint64 {
	return deriveHashA(x)
}

