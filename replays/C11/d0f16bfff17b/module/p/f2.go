package p

func f4(x, y *A) bool {
	return deriveEqualA(x, y)
}

func f5(x, y *B) bool {
	return deriveEqualA(x, y)
}

