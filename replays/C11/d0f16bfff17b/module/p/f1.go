package p

func f6(x, y *B) bool {
	return deriveEqualX(x, y)
}

