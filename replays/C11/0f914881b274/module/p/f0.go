package p

func f0(x *A) uint64 {
	return deriveHash(x)
}

