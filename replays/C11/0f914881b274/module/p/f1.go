package p

func f1(x *B) uint64 {
	return deriveHash(x)
}

