package p

func f0(x map[A]int) []A {
	return deriveKeys(x)
}

func f2(x map[[2]A]int) [][2]A {
	return deriveKeys(x)
}

