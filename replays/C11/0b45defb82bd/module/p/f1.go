package p

func f1(x map[B]int) []B {
	return deriveKeysA(x)
}

