package p

func f0(x, y *A) bool {
	return deriveEqual(x, y)
}

func f2(x, y *C) bool {
	return deriveEqual(x, y)
}

