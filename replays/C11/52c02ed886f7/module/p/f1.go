package p

func f0(x, y *A) bool {
	return deriveEqual(x, y)
}

func f1(x, y *A) bool {
	return deriveEqual(x, y)
}

func f4(x, y *D) bool {
	return deriveEqualFifth(x, y)
}

func f6(x, y *C) bool {
	return deriveEqualA(x, y)
}

