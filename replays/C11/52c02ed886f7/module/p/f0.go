package p

func f2(x, y *C) bool {
	return deriveEqualFifth(x, y)
}

func f5(x, y *B) bool {
	return deriveEqualFifth(x, y)
}

func f7(x, y *A) bool {
	return deriveEqualOther(x, y)
}

