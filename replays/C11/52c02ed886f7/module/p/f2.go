package p

func f3(x, y *A) bool {
	return deriveEqualA(x, y)
}

