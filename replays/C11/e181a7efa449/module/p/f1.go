package p

func f3(x, y *C) bool {
	return deriveEqual(x, y)
}

func f4(x, y *A) bool {
	return deriveEqualB(x, y)
}

