package p

func f0(x, y *B) bool {
	return deriveEqual(x, y)
}

