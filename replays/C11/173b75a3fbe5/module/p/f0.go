package p

func f0(x *A) uint64 {
	return deriveHash(x)
}

func f2(x *A) uint64 {
	return deriveHashA(x)
}

