package p

func f2(x, y *A) bool {
	return deriveEqual(x, y)
}

