package p

func f0(x, y *D) bool {
	return deriveEqual(x, y)
}

func f1(x, y *D) bool {
	return deriveEqualA(x, y)
}

func f3(x, y *A) bool {
	return deriveEqualA(x, y)
}

