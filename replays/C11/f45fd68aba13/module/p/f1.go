package p

func f2(x, y *D) bool {
	return deriveEqualOther(x, y)
}

func f4(x, y *A) bool {
	return deriveEqualOther(x, y)
}

