package p

func f0(x, y *B) bool {
	return deriveEqual(x, y)
}

func f1(x, y *C) bool {
	return deriveEqual(x, y)
}

func f3(x, y *C) bool {
	return deriveEqualB(x, y)
}

func f5(x, y *D) bool {
	return deriveEqual(x, y)
}

