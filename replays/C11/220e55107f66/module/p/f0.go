package p

func f0(x, y *A) bool {
	return deriveEqualA(x, y)
}

func f2(x, y *C) bool {
	return deriveEqualA(x, y)
}

