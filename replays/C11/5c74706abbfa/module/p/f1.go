package p

func f1(x, y *A) bool {
	return deriveEqual(x, y)
}

