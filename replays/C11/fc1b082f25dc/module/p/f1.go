package p

func f0(x, y *A) bool {
	return deriveEqual(x, y)
}

func f2(x, y *D) bool {
	return deriveEqualX(x, y)
}

