package p

func f3(x, y *D) bool {
	return deriveEqualX(x, y)
}

