package p

func f0(x, y *B) bool {
	return deriveEqualOther(x, y)
}

func f2(x, y *A) bool {
	return deriveEqualOther(x, y)
}

func f3(x, y *D) bool {
	return deriveEqualA(x, y)
}

