package p

func f3(x, y *D) bool {
	return deriveEqual(x, y)
}

func f5(x, y *C) bool {
	return deriveEqualFifth(x, y)
}

func f6(x, y *B) bool {
	return deriveEqualX(x, y)
}

