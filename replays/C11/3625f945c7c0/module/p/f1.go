package p

func f1(x, y *A) bool {
	return deriveEqualA(x, y)
}

