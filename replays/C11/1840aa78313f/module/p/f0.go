package p

func f0(x *A) uint64 {
	return deriveHashA(x)
}

func f1(x *B) uint64 {
	return deriveHash(x)
}

func f2(x *C) uint64 {
	return deriveHashA(x)
}

