package p

func f1(x, y *B) bool {
	return deriveEqualA(x, y)
}

