package p

func f2(x, y *A) bool {
	return deriveEqual(x, y)
}

func f3(x, y *C) bool {
	return deriveEqualA(x, y)
}

