package p

func f0(x *A) uint64 {
	return deriveHash(x)
}

func f2(x *C) uint64 {
	return deriveHash(x)
}

