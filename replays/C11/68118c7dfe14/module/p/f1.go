package p

func f1(x map[A]int) []A {
	return deriveKeysA(x)
}

