package p

import (
	ext "subj/ext1"
	ext2 "subj/x/ext"
)

type MyRune rune

type MyStr string

type MyU8 uint8

type N0 map[bool]ext.Num

type N1 map[ext2.Num]int16

type N2 []int16

type K0 struct {
}

type S0 struct {
}

type S1 struct {
	F0 complex128
}

type S2 struct {
	F0 []S3
	F1 []byte
	F2 map[ext2.Num]S2
	f3 N0
	F4 S1
}

type S3 struct {
	F0 S2
}
