package ext

type Num int

type Key struct {
	K0 int
}

type E0 struct {
	f0 Num
	f1 uint
	f2 Key
	f3 []byte
}

type E1 struct {
	F0 E0
	F1 []map[Key]int64
	F2 int32
}
