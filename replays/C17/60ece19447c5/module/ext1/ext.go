package ext

type Num int64

type Key struct {
	k0 uint8
	K1 uint
	k2 Num
}

type E0 struct {
	f0 int
	F1 int8
	f2 int8
	f3 complex128
}
