package p

type MyInt int

type N0 []float64

type K0 struct {
	F0 int32
}

type S0 struct {
	F0 bool
	F1 bool
	K0
}
