package p

import (
	ext "subj/ext1"
)

var Anchor = 0

func FmapT0(f func(bool) bool, l []bool) []bool {
	return deriveFmapFmapT0(f, l)
}

func FmapintT0(f func(bool) int, l []bool) []int {
	return deriveFmapFmapintT0(f, l)
}

func FmapstrT0(f func(rune) bool, s string) []bool {
	return deriveFmapStrT0(f, s)
}

func JoinT0(l [][]bool) []bool {
	return deriveJoinT0(l)
}

func JoinstrT0(l []string) string {
	return deriveJoinStrT0(l)
}

func FmapT1(f func(uint) uint, l []uint) []uint {
	return deriveFmapFmapT1(f, l)
}

func FmapintT1(f func(uint) int, l []uint) []int {
	return deriveFmapFmapintT1(f, l)
}

func FmapstrT1(f func(rune) uint, s string) []uint {
	return deriveFmapStrT1(f, s)
}

func JoinT1(l [][]uint) []uint {
	return deriveJoinT1(l)
}

func FmapT2(f func(N0) N0, l []N0) []N0 {
	return deriveFmapFmapT2(f, l)
}

func FmapintT2(f func(N0) int, l []N0) []int {
	return deriveFmapFmapintT2(f, l)
}

func FmapstrT2(f func(rune) N0, s string) []N0 {
	return deriveFmapStrT2(f, s)
}

func JoinT2(l [][]N0) []N0 {
	return deriveJoinT2(l)
}

func FmapT3(f func(MyInt) MyInt, l []MyInt) []MyInt {
	return deriveFmapFmapT3(f, l)
}

func FmapintT3(f func(MyInt) int, l []MyInt) []int {
	return deriveFmapFmapintT3(f, l)
}

func FmapstrT3(f func(rune) MyInt, s string) []MyInt {
	return deriveFmapStrT3(f, s)
}

func JoinT3(l [][]MyInt) []MyInt {
	return deriveJoinT3(l)
}

func FmapT4(f func(ext.E0) ext.E0, l []ext.E0) []ext.E0 {
	return deriveFmapFmapT4(f, l)
}

func FmapintT4(f func(ext.E0) int, l []ext.E0) []int {
	return deriveFmapFmapintT4(f, l)
}

func FmapstrT4(f func(rune) ext.E0, s string) []ext.E0 {
	return deriveFmapStrT4(f, s)
}

func JoinT4(l [][]ext.E0) []ext.E0 {
	return deriveJoinT4(l)
}

func FmapT5(f func(map[MyInt]K0) map[MyInt]K0, l []map[MyInt]K0) []map[MyInt]K0 {
	return deriveFmapFmapT5(f, l)
}

func FmapintT5(f func(map[MyInt]K0) int, l []map[MyInt]K0) []int {
	return deriveFmapFmapintT5(f, l)
}

func FmapstrT5(f func(rune) map[MyInt]K0, s string) []map[MyInt]K0 {
	return deriveFmapStrT5(f, s)
}

func JoinT5(l [][]map[MyInt]K0) []map[MyInt]K0 {
	return deriveJoinT5(l)
}

func FmapT6(f func(S0) S0, l []S0) []S0 {
	return deriveFmapFmapT6(f, l)
}

func FmapintT6(f func(S0) int, l []S0) []int {
	return deriveFmapFmapintT6(f, l)
}

func FmapstrT6(f func(rune) S0, s string) []S0 {
	return deriveFmapStrT6(f, s)
}

func JoinT6(l [][]S0) []S0 {
	return deriveJoinT6(l)
}

func FmapT7(f func(uintptr) uintptr, l []uintptr) []uintptr {
	return deriveFmapFmapT7(f, l)
}

func FmapintT7(f func(uintptr) int, l []uintptr) []int {
	return deriveFmapFmapintT7(f, l)
}

func FmapstrT7(f func(rune) uintptr, s string) []uintptr {
	return deriveFmapStrT7(f, s)
}

func JoinT7(l [][]uintptr) []uintptr {
	return deriveJoinT7(l)
}

func FmapT8(f func(map[ext.Key]*S0) map[ext.Key]*S0, l []map[ext.Key]*S0) []map[ext.Key]*S0 {
	return deriveFmapFmapT8(f, l)
}

func FmapintT8(f func(map[ext.Key]*S0) int, l []map[ext.Key]*S0) []int {
	return deriveFmapFmapintT8(f, l)
}

func FmapstrT8(f func(rune) map[ext.Key]*S0, s string) []map[ext.Key]*S0 {
	return deriveFmapStrT8(f, s)
}

func JoinT8(l [][]map[ext.Key]*S0) []map[ext.Key]*S0 {
	return deriveJoinT8(l)
}

func FmapT9(f func([1]int16) [1]int16, l [][1]int16) [][1]int16 {
	return deriveFmapFmapT9(f, l)
}

func FmapintT9(f func([1]int16) int, l [][1]int16) []int {
	return deriveFmapFmapintT9(f, l)
}

func FmapstrT9(f func(rune) [1]int16, s string) [][1]int16 {
	return deriveFmapStrT9(f, s)
}

func JoinT9(l [][][1]int16) [][1]int16 {
	return deriveJoinT9(l)
}

func FmapT10(f func([0]map[string]S0) [0]map[string]S0, l [][0]map[string]S0) [][0]map[string]S0 {
	return deriveFmapFmapT10(f, l)
}

func FmapintT10(f func([0]map[string]S0) int, l [][0]map[string]S0) []int {
	return deriveFmapFmapintT10(f, l)
}

func FmapstrT10(f func(rune) [0]map[string]S0, s string) [][0]map[string]S0 {
	return deriveFmapStrT10(f, s)
}

func JoinT10(l [][][0]map[string]S0) [][0]map[string]S0 {
	return deriveJoinT10(l)
}

func FmapT11(f func(rune) rune, l []rune) []rune {
	return deriveFmapFmapT11(f, l)
}

func FmapintT11(f func(rune) int, l []rune) []int {
	return deriveFmapFmapintT11(f, l)
}

func FmapstrT11(f func(rune) rune, s string) []rune {
	return deriveFmapStrT11(f, s)
}

func JoinT11(l [][]rune) []rune {
	return deriveJoinT11(l)
}

func FmapT12(f func(int8) int8, l []int8) []int8 {
	return deriveFmapFmapT12(f, l)
}

func FmapintT12(f func(int8) int, l []int8) []int {
	return deriveFmapFmapintT12(f, l)
}

func FmapstrT12(f func(rune) int8, s string) []int8 {
	return deriveFmapStrT12(f, s)
}

func JoinT12(l [][]int8) []int8 {
	return deriveJoinT12(l)
}

func FmapT13(f func(map[uint16]*S0) map[uint16]*S0, l []map[uint16]*S0) []map[uint16]*S0 {
	return deriveFmapFmapT13(f, l)
}

func FmapintT13(f func(map[uint16]*S0) int, l []map[uint16]*S0) []int {
	return deriveFmapFmapintT13(f, l)
}

func FmapstrT13(f func(rune) map[uint16]*S0, s string) []map[uint16]*S0 {
	return deriveFmapStrT13(f, s)
}

func JoinT13(l [][]map[uint16]*S0) []map[uint16]*S0 {
	return deriveJoinT13(l)
}
