package ext

type Num uint8

type Key struct {
	k0 Num
	k1 float32
	k2 Num
}

type E0 struct {
}
