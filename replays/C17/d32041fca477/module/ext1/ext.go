package ext

type Num int

type Key struct {
	k0 rune
}

type E0 struct {
	F0 Key
	f1 int
	f2 []map[Key]float64
	f3 float32
}

type E1 struct {
	f0 Num
	f1 float32
}
