package p

import (
	ext "subj/ext1"
	other "subj/x/other"
)

type MyInt int

type MyF float64

type MyI64 int64

type MyU uint

type N0 map[other.Key]bool

type K0 struct {
	F0 MyInt
}

type K1 struct {
}

type S0 struct {
	F0 []other.Num
}

type S1 struct {
	K1
}

type S2 struct {
	f0 uintptr
}

type S3 struct {
	f0 [2]map[ext.Num][]S1
	f1 map[int]S3
	F2 map[float64]S3
	F3 string
}

type S4 struct {
	f0 bool
	F1 int16
	*S1
}
