package other

type Num string

type Key struct {
	k0 int
	K1 float64
}

type E0 struct {
}
