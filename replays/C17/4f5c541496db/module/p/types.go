package p

import (
	ext "subj/ext1"
	other "subj/x/other"
)

type MyF32 float32

type MyInt int

type MyF float64

type MyI64 int64

type N0 [0]int

type N1 map[ext.Key]int

type K0 struct {
	F0 rune
}

type K1 struct {
	F0 other.Key
	F1 K0
	f2 int
}

type S0 struct {
	F0 int64
	K0
	K1
}

type S1 struct {
	F0 MyI64
}

type S2 struct {
}

type S3 struct {
}

type S4 struct {
	F0 int32
	F1 map[rune]S0
	F2 int16
	K1
	F4 bool
}
