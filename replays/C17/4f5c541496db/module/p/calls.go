package p

import (
	ext "subj/ext1"
	other "subj/x/other"
)

var Anchor = 0

func FmapT0(f func(int) int, l []int) []int {
	return deriveFmapFmapT0(f, l)
}

func FmapstrT0(f func(rune) int, s string) []int {
	return deriveFmapStrT0(f, s)
}

func JoinT0(l [][]int) []int {
	return deriveJoinT0(l)
}

func JoinstrT0(l []string) string {
	return deriveJoinStrT0(l)
}

func FmapT1(f func(*K1) *K1, l []*K1) []*K1 {
	return deriveFmapFmapT1(f, l)
}

func FmapintT1(f func(*K1) int, l []*K1) []int {
	return deriveFmapFmapintT1(f, l)
}

func FmapstrT1(f func(rune) *K1, s string) []*K1 {
	return deriveFmapStrT1(f, s)
}

func JoinT1(l [][]*K1) []*K1 {
	return deriveJoinT1(l)
}

func FmapT2(f func(S0) S0, l []S0) []S0 {
	return deriveFmapFmapT2(f, l)
}

func FmapintT2(f func(S0) int, l []S0) []int {
	return deriveFmapFmapintT2(f, l)
}

func FmapstrT2(f func(rune) S0, s string) []S0 {
	return deriveFmapStrT2(f, s)
}

func JoinT2(l [][]S0) []S0 {
	return deriveJoinT2(l)
}

func FmapT3(f func(*S1) *S1, l []*S1) []*S1 {
	return deriveFmapFmapT3(f, l)
}

func FmapintT3(f func(*S1) int, l []*S1) []int {
	return deriveFmapFmapintT3(f, l)
}

func FmapstrT3(f func(rune) *S1, s string) []*S1 {
	return deriveFmapStrT3(f, s)
}

func JoinT3(l [][]*S1) []*S1 {
	return deriveJoinT3(l)
}

func FmapT4(f func(N0) N0, l []N0) []N0 {
	return deriveFmapFmapT4(f, l)
}

func FmapintT4(f func(N0) int, l []N0) []int {
	return deriveFmapFmapintT4(f, l)
}

func FmapstrT4(f func(rune) N0, s string) []N0 {
	return deriveFmapStrT4(f, s)
}

func JoinT4(l [][]N0) []N0 {
	return deriveJoinT4(l)
}

func FmapT5(f func(*S3) *S3, l []*S3) []*S3 {
	return deriveFmapFmapT5(f, l)
}

func FmapintT5(f func(*S3) int, l []*S3) []int {
	return deriveFmapFmapintT5(f, l)
}

func FmapstrT5(f func(rune) *S3, s string) []*S3 {
	return deriveFmapStrT5(f, s)
}

func JoinT5(l [][]*S3) []*S3 {
	return deriveJoinT5(l)
}

func FmapT6(f func(int64) int64, l []int64) []int64 {
	return deriveFmapFmapT6(f, l)
}

func FmapintT6(f func(int64) int, l []int64) []int {
	return deriveFmapFmapintT6(f, l)
}

func FmapstrT6(f func(rune) int64, s string) []int64 {
	return deriveFmapStrT6(f, s)
}

func JoinT6(l [][]int64) []int64 {
	return deriveJoinT6(l)
}

func FmapT7(f func(bool) bool, l []bool) []bool {
	return deriveFmapFmapT7(f, l)
}

func FmapintT7(f func(bool) int, l []bool) []int {
	return deriveFmapFmapintT7(f, l)
}

func FmapstrT7(f func(rune) bool, s string) []bool {
	return deriveFmapStrT7(f, s)
}

func JoinT7(l [][]bool) []bool {
	return deriveJoinT7(l)
}

func FmapT8(f func([]S3) []S3, l [][]S3) [][]S3 {
	return deriveFmapFmapT8(f, l)
}

func FmapintT8(f func([]S3) int, l [][]S3) []int {
	return deriveFmapFmapintT8(f, l)
}

func FmapstrT8(f func(rune) []S3, s string) [][]S3 {
	return deriveFmapStrT8(f, s)
}

func JoinT8(l [][][]S3) [][]S3 {
	return deriveJoinT8(l)
}

func FmapT9(f func([]byte) []byte, l [][]byte) [][]byte {
	return deriveFmapFmapT9(f, l)
}

func FmapintT9(f func([]byte) int, l [][]byte) []int {
	return deriveFmapFmapintT9(f, l)
}

func FmapstrT9(f func(rune) []byte, s string) [][]byte {
	return deriveFmapStrT9(f, s)
}

func JoinT9(l [][][]byte) [][]byte {
	return deriveJoinT9(l)
}

func FmapT10(f func(map[ext.Key]int16) map[ext.Key]int16, l []map[ext.Key]int16) []map[ext.Key]int16 {
	return deriveFmapFmapT10(f, l)
}

func FmapintT10(f func(map[ext.Key]int16) int, l []map[ext.Key]int16) []int {
	return deriveFmapFmapintT10(f, l)
}

func FmapstrT10(f func(rune) map[ext.Key]int16, s string) []map[ext.Key]int16 {
	return deriveFmapStrT10(f, s)
}

func JoinT10(l [][]map[ext.Key]int16) []map[ext.Key]int16 {
	return deriveJoinT10(l)
}

func FmapT11(f func(*ext.Num) *ext.Num, l []*ext.Num) []*ext.Num {
	return deriveFmapFmapT11(f, l)
}

func FmapintT11(f func(*ext.Num) int, l []*ext.Num) []int {
	return deriveFmapFmapintT11(f, l)
}

func FmapstrT11(f func(rune) *ext.Num, s string) []*ext.Num {
	return deriveFmapStrT11(f, s)
}

func JoinT11(l [][]*ext.Num) []*ext.Num {
	return deriveJoinT11(l)
}

func FmapT12(f func(other.Key) other.Key, l []other.Key) []other.Key {
	return deriveFmapFmapT12(f, l)
}

func FmapintT12(f func(other.Key) int, l []other.Key) []int {
	return deriveFmapFmapintT12(f, l)
}

func FmapstrT12(f func(rune) other.Key, s string) []other.Key {
	return deriveFmapStrT12(f, s)
}

func JoinT12(l [][]other.Key) []other.Key {
	return deriveJoinT12(l)
}

func FmapT13(f func(K0) K0, l []K0) []K0 {
	return deriveFmapFmapT13(f, l)
}

func FmapintT13(f func(K0) int, l []K0) []int {
	return deriveFmapFmapintT13(f, l)
}

func FmapstrT13(f func(rune) K0, s string) []K0 {
	return deriveFmapStrT13(f, s)
}

func JoinT13(l [][]K0) []K0 {
	return deriveJoinT13(l)
}
