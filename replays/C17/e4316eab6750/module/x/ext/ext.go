package ext

import (
	ext "subj/ext1"
)

type Num int

type Key struct {
	k0 rune
	k1 Num
	K2 bool
}

type E0 struct {
	F0 *E0
	f1 ext.Key
	f2 int32
}
