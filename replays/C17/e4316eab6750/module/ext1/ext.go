package ext

type Num string

type Key struct {
	K0 int32
	k1 bool
	k2 Num
}

type E0 struct {
}

type E1 struct {
}
