package p

import (
	ext2 "subj/x/ext"
)

type MyF float64

type MyI64 int64

type MyU uint

type N0 [][]int16

type N1 []MyI64

type K0 struct {
}

type S0 struct {
	F0 MyU
	f1 N1
	K0
}

type S1 struct {
	f0 []byte
	F1 uint8
}

type S2 struct {
}

type S3 struct {
	f0 MyI64
	F1 complex128
}

type S4 struct {
	F0 [1]int16
	f1 bool
	F2 map[uint]N0
	F3 int64
	F4 map[K0]uintptr
	F5 ext2.Num
}
