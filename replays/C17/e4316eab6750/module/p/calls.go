package p

import (
	ext2 "subj/x/ext"
)

var Anchor = 0

func FmapT0(f func(complex64) complex64, l []complex64) []complex64 {
	return deriveFmapFmapT0(f, l)
}

func FmapintT0(f func(complex64) int, l []complex64) []int {
	return deriveFmapFmapintT0(f, l)
}

func FmapstrT0(f func(rune) complex64, s string) []complex64 {
	return deriveFmapStrT0(f, s)
}

func JoinT0(l [][]complex64) []complex64 {
	return deriveJoinT0(l)
}

func JoinstrT0(l []string) string {
	return deriveJoinStrT0(l)
}

func FmapT1(f func(S0) S0, l []S0) []S0 {
	return deriveFmapFmapT1(f, l)
}

func FmapintT1(f func(S0) int, l []S0) []int {
	return deriveFmapFmapintT1(f, l)
}

func FmapstrT1(f func(rune) S0, s string) []S0 {
	return deriveFmapStrT1(f, s)
}

func JoinT1(l [][]S0) []S0 {
	return deriveJoinT1(l)
}

func FmapT2(f func(N0) N0, l []N0) []N0 {
	return deriveFmapFmapT2(f, l)
}

func FmapintT2(f func(N0) int, l []N0) []int {
	return deriveFmapFmapintT2(f, l)
}

func FmapstrT2(f func(rune) N0, s string) []N0 {
	return deriveFmapStrT2(f, s)
}

func JoinT2(l [][]N0) []N0 {
	return deriveJoinT2(l)
}

func FmapT3(f func(*S2) *S2, l []*S2) []*S2 {
	return deriveFmapFmapT3(f, l)
}

func FmapintT3(f func(*S2) int, l []*S2) []int {
	return deriveFmapFmapintT3(f, l)
}

func FmapstrT3(f func(rune) *S2, s string) []*S2 {
	return deriveFmapStrT3(f, s)
}

func JoinT3(l [][]*S2) []*S2 {
	return deriveJoinT3(l)
}

func FmapT4(f func(*S3) *S3, l []*S3) []*S3 {
	return deriveFmapFmapT4(f, l)
}

func FmapintT4(f func(*S3) int, l []*S3) []int {
	return deriveFmapFmapintT4(f, l)
}

func FmapstrT4(f func(rune) *S3, s string) []*S3 {
	return deriveFmapStrT4(f, s)
}

func JoinT4(l [][]*S3) []*S3 {
	return deriveJoinT4(l)
}

func FmapT5(f func([]map[ext2.Num]bool) []map[ext2.Num]bool, l [][]map[ext2.Num]bool) [][]map[ext2.Num]bool {
	return deriveFmapFmapT5(f, l)
}

func FmapintT5(f func([]map[ext2.Num]bool) int, l [][]map[ext2.Num]bool) []int {
	return deriveFmapFmapintT5(f, l)
}

func FmapstrT5(f func(rune) []map[ext2.Num]bool, s string) [][]map[ext2.Num]bool {
	return deriveFmapStrT5(f, s)
}

func JoinT5(l [][][]map[ext2.Num]bool) [][]map[ext2.Num]bool {
	return deriveJoinT5(l)
}

func FmapT6(f func(uint64) uint64, l []uint64) []uint64 {
	return deriveFmapFmapT6(f, l)
}

func FmapintT6(f func(uint64) int, l []uint64) []int {
	return deriveFmapFmapintT6(f, l)
}

func FmapstrT6(f func(rune) uint64, s string) []uint64 {
	return deriveFmapStrT6(f, s)
}

func JoinT6(l [][]uint64) []uint64 {
	return deriveJoinT6(l)
}

func FmapT7(f func(ext2.Num) ext2.Num, l []ext2.Num) []ext2.Num {
	return deriveFmapFmapT7(f, l)
}

func FmapintT7(f func(ext2.Num) int, l []ext2.Num) []int {
	return deriveFmapFmapintT7(f, l)
}

func FmapstrT7(f func(rune) ext2.Num, s string) []ext2.Num {
	return deriveFmapStrT7(f, s)
}

func JoinT7(l [][]ext2.Num) []ext2.Num {
	return deriveJoinT7(l)
}

func FmapT8(f func(N1) N1, l []N1) []N1 {
	return deriveFmapFmapT8(f, l)
}

func FmapintT8(f func(N1) int, l []N1) []int {
	return deriveFmapFmapintT8(f, l)
}

func FmapstrT8(f func(rune) N1, s string) []N1 {
	return deriveFmapStrT8(f, s)
}

func JoinT8(l [][]N1) []N1 {
	return deriveJoinT8(l)
}

func FmapT9(f func(S4) S4, l []S4) []S4 {
	return deriveFmapFmapT9(f, l)
}

func FmapintT9(f func(S4) int, l []S4) []int {
	return deriveFmapFmapintT9(f, l)
}

func FmapstrT9(f func(rune) S4, s string) []S4 {
	return deriveFmapStrT9(f, s)
}

func JoinT9(l [][]S4) []S4 {
	return deriveJoinT9(l)
}

func FmapT10(f func(*[0]uint) *[0]uint, l []*[0]uint) []*[0]uint {
	return deriveFmapFmapT10(f, l)
}

func FmapintT10(f func(*[0]uint) int, l []*[0]uint) []int {
	return deriveFmapFmapintT10(f, l)
}

func FmapstrT10(f func(rune) *[0]uint, s string) []*[0]uint {
	return deriveFmapStrT10(f, s)
}

func JoinT10(l [][]*[0]uint) []*[0]uint {
	return deriveJoinT10(l)
}

func FmapT11(f func(float64) float64, l []float64) []float64 {
	return deriveFmapFmapT11(f, l)
}

func FmapintT11(f func(float64) int, l []float64) []int {
	return deriveFmapFmapintT11(f, l)
}

func FmapstrT11(f func(rune) float64, s string) []float64 {
	return deriveFmapStrT11(f, s)
}

func JoinT11(l [][]float64) []float64 {
	return deriveJoinT11(l)
}

func FmapT12(f func(map[MyI64]S4) map[MyI64]S4, l []map[MyI64]S4) []map[MyI64]S4 {
	return deriveFmapFmapT12(f, l)
}

func FmapintT12(f func(map[MyI64]S4) int, l []map[MyI64]S4) []int {
	return deriveFmapFmapintT12(f, l)
}

func FmapstrT12(f func(rune) map[MyI64]S4, s string) []map[MyI64]S4 {
	return deriveFmapStrT12(f, s)
}

func JoinT12(l [][]map[MyI64]S4) []map[MyI64]S4 {
	return deriveJoinT12(l)
}

func FmapT13(f func(uint16) uint16, l []uint16) []uint16 {
	return deriveFmapFmapT13(f, l)
}

func FmapintT13(f func(uint16) int, l []uint16) []int {
	return deriveFmapFmapintT13(f, l)
}

func FmapstrT13(f func(rune) uint16, s string) []uint16 {
	return deriveFmapStrT13(f, s)
}

func JoinT13(l [][]uint16) []uint16 {
	return deriveJoinT13(l)
}
