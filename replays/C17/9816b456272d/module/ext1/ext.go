package ext

type Num int64

type Key struct {
	K0 Num
	K1 Num
	k2 Num
}

type E0 struct {
	F0 *E0
	f1 int8
}

type E1 struct {
	F0 [1]int
}
