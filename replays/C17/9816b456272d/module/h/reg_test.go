package h

import (
	"reflect"

	ext "subj/ext1"
	p "subj/p"
)

var _ = p.Anchor

var Registry = []Entry{
	{ID: "T0", Type: reflect.TypeOf((**p.K0)(nil)).Elem(), TypeStr: "*p.K0",
		Funcs: map[string]any{"fmap": p.FmapT0, "fmapint": p.FmapintT0, "fmapstr": p.FmapstrT0, "join": p.JoinT0, "joinstr": p.JoinstrT0},
		Tags:  map[string]string{"f:complex": "1", "f:ptr": "1", "f:struct": "1"},
	},
	{ID: "T1", Type: reflect.TypeOf((*p.S0)(nil)).Elem(), TypeStr: "p.S0",
		Funcs: map[string]any{"fmap": p.FmapT1, "fmapint": p.FmapintT1, "fmapstr": p.FmapstrT1, "join": p.JoinT1},
		Tags:  map[string]string{"comparable": "1", "f:string": "1", "f:struct": "1"},
	},
	{ID: "T2", Type: reflect.TypeOf((**p.S1)(nil)).Elem(), TypeStr: "*p.S1",
		Funcs: map[string]any{"fmap": p.FmapT2, "fmapint": p.FmapintT2, "fmapstr": p.FmapstrT2, "join": p.JoinT2},
		Tags:  map[string]string{"f:complex": "1", "f:ptr": "1", "f:string": "1", "f:struct": "1"},
	},
	{ID: "T3", Type: reflect.TypeOf((*map[byte]map[[0]uint]ext.E1)(nil)).Elem(), TypeStr: "map[byte]map[[0]uint]ext.E1",
		Funcs: map[string]any{"fmap": p.FmapT3, "fmapint": p.FmapintT3, "fmapstr": p.FmapstrT3, "join": p.JoinT3},
		Tags:  map[string]string{"f:array": "1", "f:array0": "1", "f:arraykey": "1", "f:ext": "1", "f:map": "1", "f:struct": "1"},
	},
	{ID: "T4", Type: reflect.TypeOf((**map[uint16]p.S1)(nil)).Elem(), TypeStr: "*map[uint16]p.S1",
		Funcs: map[string]any{"fmap": p.FmapT4, "fmapint": p.FmapintT4, "fmapstr": p.FmapstrT4, "join": p.JoinT4},
		Tags:  map[string]string{"f:complex": "1", "f:map": "1", "f:ptr": "1", "f:string": "1", "f:struct": "1"},
	},
	{ID: "T5", Type: reflect.TypeOf((*[3]int16)(nil)).Elem(), TypeStr: "[3]int16",
		Funcs: map[string]any{"fmap": p.FmapT5, "fmapint": p.FmapintT5, "fmapstr": p.FmapstrT5, "join": p.JoinT5},
		Tags:  map[string]string{"comparable": "1", "f:array": "1"},
	},
	{ID: "T6", Type: reflect.TypeOf((*map[complex128]ext.Num)(nil)).Elem(), TypeStr: "map[complex128]ext.Num",
		Funcs: map[string]any{"fmap": p.FmapT6, "fmapint": p.FmapintT6, "fmapstr": p.FmapstrT6, "join": p.JoinT6},
		Tags:  map[string]string{"f:complex": "1", "f:ext": "1", "f:map": "1", "f:namedbasic": "1"},
	},
	{ID: "T7", Type: reflect.TypeOf((*int8)(nil)).Elem(), TypeStr: "int8",
		Funcs: map[string]any{"fmap": p.FmapT7, "fmapint": p.FmapintT7, "fmapstr": p.FmapstrT7, "join": p.JoinT7},
		Tags:  map[string]string{"basic-ordered": "1", "comparable": "1"},
	},
	{ID: "T8", Type: reflect.TypeOf((*int)(nil)).Elem(), TypeStr: "int",
		Funcs: map[string]any{"fmap": p.FmapT8, "fmapstr": p.FmapstrT8, "join": p.JoinT8},
		Tags:  map[string]string{"basic-ordered": "1", "comparable": "1"},
	},
	{ID: "T9", Type: reflect.TypeOf((*float64)(nil)).Elem(), TypeStr: "float64",
		Funcs: map[string]any{"fmap": p.FmapT9, "fmapint": p.FmapintT9, "fmapstr": p.FmapstrT9, "join": p.JoinT9},
		Tags:  map[string]string{"basic-ordered": "1", "comparable": "1", "f:float": "1"},
	},
	{ID: "T10", Type: reflect.TypeOf((**p.S0)(nil)).Elem(), TypeStr: "*p.S0",
		Funcs: map[string]any{"fmap": p.FmapT10, "fmapint": p.FmapintT10, "fmapstr": p.FmapstrT10, "join": p.JoinT10},
		Tags:  map[string]string{"f:ptr": "1", "f:string": "1", "f:struct": "1"},
	},
	{ID: "T11", Type: reflect.TypeOf((*bool)(nil)).Elem(), TypeStr: "bool",
		Funcs: map[string]any{"fmap": p.FmapT11, "fmapint": p.FmapintT11, "fmapstr": p.FmapstrT11, "join": p.JoinT11},
		Tags:  map[string]string{"comparable": "1"},
	},
	{ID: "T12", Type: reflect.TypeOf((*[]byte)(nil)).Elem(), TypeStr: "[]byte",
		Funcs: map[string]any{"fmap": p.FmapT12, "fmapint": p.FmapintT12, "fmapstr": p.FmapstrT12, "join": p.JoinT12},
		Tags:  map[string]string{"f:bytes": "1", "f:slice": "1"},
	},
	{ID: "T13", Type: reflect.TypeOf((*[]p.MyU)(nil)).Elem(), TypeStr: "[]p.MyU",
		Funcs: map[string]any{"fmap": p.FmapT13, "fmapint": p.FmapintT13, "fmapstr": p.FmapstrT13, "join": p.JoinT13},
		Tags:  map[string]string{"f:namedbasic": "1", "f:slice": "1"},
	},
}
