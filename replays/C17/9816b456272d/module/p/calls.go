package p

import (
	ext "subj/ext1"
)

var Anchor = 0

func FmapT0(f func(*K0) *K0, l []*K0) []*K0 {
	return deriveFmapFmapT0(f, l)
}

func FmapintT0(f func(*K0) int, l []*K0) []int {
	return deriveFmapFmapintT0(f, l)
}

func FmapstrT0(f func(rune) *K0, s string) []*K0 {
	return deriveFmapStrT0(f, s)
}

func JoinT0(l [][]*K0) []*K0 {
	return deriveJoinT0(l)
}

func JoinstrT0(l []string) string {
	return deriveJoinStrT0(l)
}

func FmapT1(f func(S0) S0, l []S0) []S0 {
	return deriveFmapFmapT1(f, l)
}

func FmapintT1(f func(S0) int, l []S0) []int {
	return deriveFmapFmapintT1(f, l)
}

func FmapstrT1(f func(rune) S0, s string) []S0 {
	return deriveFmapStrT1(f, s)
}

func JoinT1(l [][]S0) []S0 {
	return deriveJoinT1(l)
}

func FmapT2(f func(*S1) *S1, l []*S1) []*S1 {
	return deriveFmapFmapT2(f, l)
}

func FmapintT2(f func(*S1) int, l []*S1) []int {
	return deriveFmapFmapintT2(f, l)
}

func FmapstrT2(f func(rune) *S1, s string) []*S1 {
	return deriveFmapStrT2(f, s)
}

func JoinT2(l [][]*S1) []*S1 {
	return deriveJoinT2(l)
}

func FmapT3(f func(map[byte]map[[0]uint]ext.E1) map[byte]map[[0]uint]ext.E1, l []map[byte]map[[0]uint]ext.E1) []map[byte]map[[0]uint]ext.E1 {
	return deriveFmapFmapT3(f, l)
}

func FmapintT3(f func(map[byte]map[[0]uint]ext.E1) int, l []map[byte]map[[0]uint]ext.E1) []int {
	return deriveFmapFmapintT3(f, l)
}

func FmapstrT3(f func(rune) map[byte]map[[0]uint]ext.E1, s string) []map[byte]map[[0]uint]ext.E1 {
	return deriveFmapStrT3(f, s)
}

func JoinT3(l [][]map[byte]map[[0]uint]ext.E1) []map[byte]map[[0]uint]ext.E1 {
	return deriveJoinT3(l)
}

func FmapT4(f func(*map[uint16]S1) *map[uint16]S1, l []*map[uint16]S1) []*map[uint16]S1 {
	return deriveFmapFmapT4(f, l)
}

func FmapintT4(f func(*map[uint16]S1) int, l []*map[uint16]S1) []int {
	return deriveFmapFmapintT4(f, l)
}

func FmapstrT4(f func(rune) *map[uint16]S1, s string) []*map[uint16]S1 {
	return deriveFmapStrT4(f, s)
}

func JoinT4(l [][]*map[uint16]S1) []*map[uint16]S1 {
	return deriveJoinT4(l)
}

func FmapT5(f func([3]int16) [3]int16, l [][3]int16) [][3]int16 {
	return deriveFmapFmapT5(f, l)
}

func FmapintT5(f func([3]int16) int, l [][3]int16) []int {
	return deriveFmapFmapintT5(f, l)
}

func FmapstrT5(f func(rune) [3]int16, s string) [][3]int16 {
	return deriveFmapStrT5(f, s)
}

func JoinT5(l [][][3]int16) [][3]int16 {
	return deriveJoinT5(l)
}

func FmapT6(f func(map[complex128]ext.Num) map[complex128]ext.Num, l []map[complex128]ext.Num) []map[complex128]ext.Num {
	return deriveFmapFmapT6(f, l)
}

func FmapintT6(f func(map[complex128]ext.Num) int, l []map[complex128]ext.Num) []int {
	return deriveFmapFmapintT6(f, l)
}

func FmapstrT6(f func(rune) map[complex128]ext.Num, s string) []map[complex128]ext.Num {
	return deriveFmapStrT6(f, s)
}

func JoinT6(l [][]map[complex128]ext.Num) []map[complex128]ext.Num {
	return deriveJoinT6(l)
}

func FmapT7(f func(int8) int8, l []int8) []int8 {
	return deriveFmapFmapT7(f, l)
}

func FmapintT7(f func(int8) int, l []int8) []int {
	return deriveFmapFmapintT7(f, l)
}

func FmapstrT7(f func(rune) int8, s string) []int8 {
	return deriveFmapStrT7(f, s)
}

func JoinT7(l [][]int8) []int8 {
	return deriveJoinT7(l)
}

func FmapT8(f func(int) int, l []int) []int {
	return deriveFmapFmapT8(f, l)
}

func FmapstrT8(f func(rune) int, s string) []int {
	return deriveFmapStrT8(f, s)
}

func JoinT8(l [][]int) []int {
	return deriveJoinT8(l)
}

func FmapT9(f func(float64) float64, l []float64) []float64 {
	return deriveFmapFmapT9(f, l)
}

func FmapintT9(f func(float64) int, l []float64) []int {
	return deriveFmapFmapintT9(f, l)
}

func FmapstrT9(f func(rune) float64, s string) []float64 {
	return deriveFmapStrT9(f, s)
}

func JoinT9(l [][]float64) []float64 {
	return deriveJoinT9(l)
}

func FmapT10(f func(*S0) *S0, l []*S0) []*S0 {
	return deriveFmapFmapT10(f, l)
}

func FmapintT10(f func(*S0) int, l []*S0) []int {
	return deriveFmapFmapintT10(f, l)
}

func FmapstrT10(f func(rune) *S0, s string) []*S0 {
	return deriveFmapStrT10(f, s)
}

func JoinT10(l [][]*S0) []*S0 {
	return deriveJoinT10(l)
}

func FmapT11(f func(bool) bool, l []bool) []bool {
	return deriveFmapFmapT11(f, l)
}

func FmapintT11(f func(bool) int, l []bool) []int {
	return deriveFmapFmapintT11(f, l)
}

func FmapstrT11(f func(rune) bool, s string) []bool {
	return deriveFmapStrT11(f, s)
}

func JoinT11(l [][]bool) []bool {
	return deriveJoinT11(l)
}

func FmapT12(f func([]byte) []byte, l [][]byte) [][]byte {
	return deriveFmapFmapT12(f, l)
}

func FmapintT12(f func([]byte) int, l [][]byte) []int {
	return deriveFmapFmapintT12(f, l)
}

func FmapstrT12(f func(rune) []byte, s string) [][]byte {
	return deriveFmapStrT12(f, s)
}

func JoinT12(l [][][]byte) [][]byte {
	return deriveJoinT12(l)
}

func FmapT13(f func([]MyU) []MyU, l [][]MyU) [][]MyU {
	return deriveFmapFmapT13(f, l)
}

func FmapintT13(f func([]MyU) int, l [][]MyU) []int {
	return deriveFmapFmapintT13(f, l)
}

func FmapstrT13(f func(rune) []MyU, s string) [][]MyU {
	return deriveFmapStrT13(f, s)
}

func JoinT13(l [][][]MyU) [][]MyU {
	return deriveJoinT13(l)
}
