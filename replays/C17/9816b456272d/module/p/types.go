package p

type MyU uint

type MyBool bool

type MyC complex128

type K0 struct {
	F0 complex128
}

type S0 struct {
	F0 bool
	f1 uint64
	f2 string
	F3 byte
}

type S1 struct {
	F0 byte
	F1 S0
	F2 K0
}
