package other

import (
	ext "subj/ext1"
)

type Num uint8

type Key struct {
	k0 complex128
	k1 Num
	k2 uint16
}

type E0 struct {
	f0 ext.E1
	F1 bool
}
