package ext

type Num float64

type Key struct {
	K0 Num
}

type E0 struct {
}
