package p

import (
	ext "subj/ext1"
	ext2 "subj/x/ext"
)

type MyU8 uint8

type MyF32 float32

type MyInt int

type N0 [0]ext.Num

type N1 [][]byte

type N2 *uintptr

type K0 struct {
	f0 int
	f1 MyF32
}

type K1 struct {
	F0 int64
	F1 uint
}

type S0 struct {
	F0 map[[0]byte]uint8
	F1 ext.Key
	f2 map[ext.Key]S0
	F3 []ext2.Num
	f4 map[MyU8]map[uint8][]bool
}

type S1 struct {
}
