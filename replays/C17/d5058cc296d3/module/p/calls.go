package p

import (
	ext "subj/ext1"
)

var Anchor = 0

func FmapT0(f func(*K0) *K0, l []*K0) []*K0 {
	return deriveFmapFmapT0(f, l)
}

func FmapintT0(f func(*K0) int, l []*K0) []int {
	return deriveFmapFmapintT0(f, l)
}

func FmapstrT0(f func(rune) *K0, s string) []*K0 {
	return deriveFmapStrT0(f, s)
}

func JoinT0(l [][]*K0) []*K0 {
	return deriveJoinT0(l)
}

func JoinstrT0(l []string) string {
	return deriveJoinStrT0(l)
}

func FmapT1(f func(S0) S0, l []S0) []S0 {
	return deriveFmapFmapT1(f, l)
}

func FmapintT1(f func(S0) int, l []S0) []int {
	return deriveFmapFmapintT1(f, l)
}

func FmapstrT1(f func(rune) S0, s string) []S0 {
	return deriveFmapStrT1(f, s)
}

func JoinT1(l [][]S0) []S0 {
	return deriveJoinT1(l)
}

func FmapT2(f func(*S0) *S0, l []*S0) []*S0 {
	return deriveFmapFmapT2(f, l)
}

func FmapintT2(f func(*S0) int, l []*S0) []int {
	return deriveFmapFmapintT2(f, l)
}

func FmapstrT2(f func(rune) *S0, s string) []*S0 {
	return deriveFmapStrT2(f, s)
}

func JoinT2(l [][]*S0) []*S0 {
	return deriveJoinT2(l)
}

func FmapT3(f func(S1) S1, l []S1) []S1 {
	return deriveFmapFmapT3(f, l)
}

func FmapintT3(f func(S1) int, l []S1) []int {
	return deriveFmapFmapintT3(f, l)
}

func FmapstrT3(f func(rune) S1, s string) []S1 {
	return deriveFmapStrT3(f, s)
}

func JoinT3(l [][]S1) []S1 {
	return deriveJoinT3(l)
}

func FmapT4(f func(K0) K0, l []K0) []K0 {
	return deriveFmapFmapT4(f, l)
}

func FmapintT4(f func(K0) int, l []K0) []int {
	return deriveFmapFmapintT4(f, l)
}

func FmapstrT4(f func(rune) K0, s string) []K0 {
	return deriveFmapStrT4(f, s)
}

func JoinT4(l [][]K0) []K0 {
	return deriveJoinT4(l)
}

func FmapT5(f func(float32) float32, l []float32) []float32 {
	return deriveFmapFmapT5(f, l)
}

func FmapintT5(f func(float32) int, l []float32) []int {
	return deriveFmapFmapintT5(f, l)
}

func FmapstrT5(f func(rune) float32, s string) []float32 {
	return deriveFmapStrT5(f, s)
}

func JoinT5(l [][]float32) []float32 {
	return deriveJoinT5(l)
}

func FmapT6(f func(byte) byte, l []byte) []byte {
	return deriveFmapFmapT6(f, l)
}

func FmapintT6(f func(byte) int, l []byte) []int {
	return deriveFmapFmapintT6(f, l)
}

func FmapstrT6(f func(rune) byte, s string) []byte {
	return deriveFmapStrT6(f, s)
}

func JoinT6(l [][]byte) []byte {
	return deriveJoinT6(l)
}

func FmapT7(f func([]S0) []S0, l [][]S0) [][]S0 {
	return deriveFmapFmapT7(f, l)
}

func FmapintT7(f func([]S0) int, l [][]S0) []int {
	return deriveFmapFmapintT7(f, l)
}

func FmapstrT7(f func(rune) []S0, s string) [][]S0 {
	return deriveFmapStrT7(f, s)
}

func JoinT7(l [][][]S0) [][]S0 {
	return deriveJoinT7(l)
}

func FmapT8(f func(ext.E0) ext.E0, l []ext.E0) []ext.E0 {
	return deriveFmapFmapT8(f, l)
}

func FmapintT8(f func(ext.E0) int, l []ext.E0) []int {
	return deriveFmapFmapintT8(f, l)
}

func FmapstrT8(f func(rune) ext.E0, s string) []ext.E0 {
	return deriveFmapStrT8(f, s)
}

func JoinT8(l [][]ext.E0) []ext.E0 {
	return deriveJoinT8(l)
}

func FmapT9(f func(map[K0]map[uint8]K1) map[K0]map[uint8]K1, l []map[K0]map[uint8]K1) []map[K0]map[uint8]K1 {
	return deriveFmapFmapT9(f, l)
}

func FmapintT9(f func(map[K0]map[uint8]K1) int, l []map[K0]map[uint8]K1) []int {
	return deriveFmapFmapintT9(f, l)
}

func FmapstrT9(f func(rune) map[K0]map[uint8]K1, s string) []map[K0]map[uint8]K1 {
	return deriveFmapStrT9(f, s)
}

func JoinT9(l [][]map[K0]map[uint8]K1) []map[K0]map[uint8]K1 {
	return deriveJoinT9(l)
}

func FmapT10(f func(map[byte]N0) map[byte]N0, l []map[byte]N0) []map[byte]N0 {
	return deriveFmapFmapT10(f, l)
}

func FmapintT10(f func(map[byte]N0) int, l []map[byte]N0) []int {
	return deriveFmapFmapintT10(f, l)
}

func FmapstrT10(f func(rune) map[byte]N0, s string) []map[byte]N0 {
	return deriveFmapStrT10(f, s)
}

func JoinT10(l [][]map[byte]N0) []map[byte]N0 {
	return deriveJoinT10(l)
}

func FmapT11(f func([]S1) []S1, l [][]S1) [][]S1 {
	return deriveFmapFmapT11(f, l)
}

func FmapintT11(f func([]S1) int, l [][]S1) []int {
	return deriveFmapFmapintT11(f, l)
}

func FmapstrT11(f func(rune) []S1, s string) [][]S1 {
	return deriveFmapStrT11(f, s)
}

func JoinT11(l [][][]S1) [][]S1 {
	return deriveJoinT11(l)
}

func FmapT12(f func(map[[0]K0]uint8) map[[0]K0]uint8, l []map[[0]K0]uint8) []map[[0]K0]uint8 {
	return deriveFmapFmapT12(f, l)
}

func FmapintT12(f func(map[[0]K0]uint8) int, l []map[[0]K0]uint8) []int {
	return deriveFmapFmapintT12(f, l)
}

func FmapstrT12(f func(rune) map[[0]K0]uint8, s string) []map[[0]K0]uint8 {
	return deriveFmapStrT12(f, s)
}

func JoinT12(l [][]map[[0]K0]uint8) []map[[0]K0]uint8 {
	return deriveJoinT12(l)
}

func FmapT13(f func(int64) int64, l []int64) []int64 {
	return deriveFmapFmapT13(f, l)
}

func FmapintT13(f func(int64) int, l []int64) []int {
	return deriveFmapFmapintT13(f, l)
}

func FmapstrT13(f func(rune) int64, s string) []int64 {
	return deriveFmapStrT13(f, s)
}

func JoinT13(l [][]int64) []int64 {
	return deriveJoinT13(l)
}
