package ext

type Num int64

type Key struct {
	k0 uint
	K1 uint
	K2 Num
}

type E0 struct {
	f0 int
	f1 *E0
}

type E1 struct {
	f0 *[]byte
	F1 int8
}
