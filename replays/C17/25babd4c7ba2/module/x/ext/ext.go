package ext

type Num string

type Key struct {
	K0 bool
	k1 Num
}

type E0 struct {
	f0 Num
}
