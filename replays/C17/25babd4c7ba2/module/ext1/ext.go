package ext

type Num uint8

type Key struct {
	K0 complex128
	K1 Num
	K2 int
}

type E0 struct {
	f0 int
}

type E1 struct {
}
