package p

import (
	ext "subj/ext1"
)

var Anchor = 0

func FmapT0(f func(*K0) *K0, l []*K0) []*K0 {
	return deriveFmapFmapT0(f, l)
}

func FmapintT0(f func(*K0) int, l []*K0) []int {
	return deriveFmapFmapintT0(f, l)
}

func FmapstrT0(f func(rune) *K0, s string) []*K0 {
	return deriveFmapStrT0(f, s)
}

func JoinT0(l [][]*K0) []*K0 {
	return deriveJoinT0(l)
}

func JoinstrT0(l []string) string {
	return deriveJoinStrT0(l)
}

func FmapT1(f func(*K1) *K1, l []*K1) []*K1 {
	return deriveFmapFmapT1(f, l)
}

func FmapintT1(f func(*K1) int, l []*K1) []int {
	return deriveFmapFmapintT1(f, l)
}

func FmapstrT1(f func(rune) *K1, s string) []*K1 {
	return deriveFmapStrT1(f, s)
}

func JoinT1(l [][]*K1) []*K1 {
	return deriveJoinT1(l)
}

func FmapT2(f func(S0) S0, l []S0) []S0 {
	return deriveFmapFmapT2(f, l)
}

func FmapintT2(f func(S0) int, l []S0) []int {
	return deriveFmapFmapintT2(f, l)
}

func FmapstrT2(f func(rune) S0, s string) []S0 {
	return deriveFmapStrT2(f, s)
}

func JoinT2(l [][]S0) []S0 {
	return deriveJoinT2(l)
}

func FmapT3(f func(S1) S1, l []S1) []S1 {
	return deriveFmapFmapT3(f, l)
}

func FmapintT3(f func(S1) int, l []S1) []int {
	return deriveFmapFmapintT3(f, l)
}

func FmapstrT3(f func(rune) S1, s string) []S1 {
	return deriveFmapStrT3(f, s)
}

func JoinT3(l [][]S1) []S1 {
	return deriveJoinT3(l)
}

func FmapT4(f func(*rune) *rune, l []*rune) []*rune {
	return deriveFmapFmapT4(f, l)
}

func FmapintT4(f func(*rune) int, l []*rune) []int {
	return deriveFmapFmapintT4(f, l)
}

func FmapstrT4(f func(rune) *rune, s string) []*rune {
	return deriveFmapStrT4(f, s)
}

func JoinT4(l [][]*rune) []*rune {
	return deriveJoinT4(l)
}

func FmapT5(f func(map[int32]bool) map[int32]bool, l []map[int32]bool) []map[int32]bool {
	return deriveFmapFmapT5(f, l)
}

func FmapintT5(f func(map[int32]bool) int, l []map[int32]bool) []int {
	return deriveFmapFmapintT5(f, l)
}

func FmapstrT5(f func(rune) map[int32]bool, s string) []map[int32]bool {
	return deriveFmapStrT5(f, s)
}

func JoinT5(l [][]map[int32]bool) []map[int32]bool {
	return deriveJoinT5(l)
}

func FmapT6(f func([]K1) []K1, l [][]K1) [][]K1 {
	return deriveFmapFmapT6(f, l)
}

func FmapintT6(f func([]K1) int, l [][]K1) []int {
	return deriveFmapFmapintT6(f, l)
}

func FmapstrT6(f func(rune) []K1, s string) [][]K1 {
	return deriveFmapStrT6(f, s)
}

func JoinT6(l [][][]K1) [][]K1 {
	return deriveJoinT6(l)
}

func FmapT7(f func(ext.E1) ext.E1, l []ext.E1) []ext.E1 {
	return deriveFmapFmapT7(f, l)
}

func FmapintT7(f func(ext.E1) int, l []ext.E1) []int {
	return deriveFmapFmapintT7(f, l)
}

func FmapstrT7(f func(rune) ext.E1, s string) []ext.E1 {
	return deriveFmapStrT7(f, s)
}

func JoinT7(l [][]ext.E1) []ext.E1 {
	return deriveJoinT7(l)
}

func FmapT8(f func(N0) N0, l []N0) []N0 {
	return deriveFmapFmapT8(f, l)
}

func FmapintT8(f func(N0) int, l []N0) []int {
	return deriveFmapFmapintT8(f, l)
}

func FmapstrT8(f func(rune) N0, s string) []N0 {
	return deriveFmapStrT8(f, s)
}

func JoinT8(l [][]N0) []N0 {
	return deriveJoinT8(l)
}

func FmapT9(f func(string) string, l []string) []string {
	return deriveFmapFmapT9(f, l)
}

func FmapintT9(f func(string) int, l []string) []int {
	return deriveFmapFmapintT9(f, l)
}

func FmapstrT9(f func(rune) string, s string) []string {
	return deriveFmapStrT9(f, s)
}

func JoinT9(l [][]string) []string {
	return deriveJoinT9(l)
}

func FmapT10(f func(complex128) complex128, l []complex128) []complex128 {
	return deriveFmapFmapT10(f, l)
}

func FmapintT10(f func(complex128) int, l []complex128) []int {
	return deriveFmapFmapintT10(f, l)
}

func FmapstrT10(f func(rune) complex128, s string) []complex128 {
	return deriveFmapStrT10(f, s)
}

func JoinT10(l [][]complex128) []complex128 {
	return deriveJoinT10(l)
}

func FmapT11(f func(map[complex128]S1) map[complex128]S1, l []map[complex128]S1) []map[complex128]S1 {
	return deriveFmapFmapT11(f, l)
}

func FmapintT11(f func(map[complex128]S1) int, l []map[complex128]S1) []int {
	return deriveFmapFmapintT11(f, l)
}

func FmapstrT11(f func(rune) map[complex128]S1, s string) []map[complex128]S1 {
	return deriveFmapStrT11(f, s)
}

func JoinT11(l [][]map[complex128]S1) []map[complex128]S1 {
	return deriveJoinT11(l)
}

func FmapT12(f func(*N1) *N1, l []*N1) []*N1 {
	return deriveFmapFmapT12(f, l)
}

func FmapintT12(f func(*N1) int, l []*N1) []int {
	return deriveFmapFmapintT12(f, l)
}

func FmapstrT12(f func(rune) *N1, s string) []*N1 {
	return deriveFmapStrT12(f, s)
}

func JoinT12(l [][]*N1) []*N1 {
	return deriveJoinT12(l)
}

func FmapT13(f func(N1) N1, l []N1) []N1 {
	return deriveFmapFmapT13(f, l)
}

func FmapintT13(f func(N1) int, l []N1) []int {
	return deriveFmapFmapintT13(f, l)
}

func FmapstrT13(f func(rune) N1, s string) []N1 {
	return deriveFmapStrT13(f, s)
}

func JoinT13(l [][]N1) []N1 {
	return deriveJoinT13(l)
}
