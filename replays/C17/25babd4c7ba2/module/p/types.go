package p

import (
	ext "subj/ext1"
)

type MyF float64

type N0 *ext.Num

type N1 [][]int16

type N2 map[uint8]MyF

type K0 struct {
	f0 uintptr
}

type K1 struct {
	F0 float32
}

type S0 struct {
}

type S1 struct {
}
