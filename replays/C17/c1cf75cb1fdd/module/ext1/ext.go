package ext

type Num uint8

type Key struct {
	K0 bool
	K1 Num
}

type E0 struct {
	f0 Num
	F1 *uint32
}
