package ext

import (
	ext "subj/ext1"
)

type Num int64

type Key struct {
	k0 int
	K1 uint8
}

type E0 struct {
	F0 map[Key]ext.Num
}
