package p

import (
	ext "subj/ext1"
	ext2 "subj/x/ext"
)

type MyInt int

type MyF float64

type N0 []MyInt

type N1 map[ext.Key]int32

type N2 []bool

type K0 struct {
}

type K1 struct {
	f0 rune
	F1 [2]MyF
	F2 K0
}

type S0 struct {
	*K1
	F1 *S0
	f2 map[ext2.Key]MyF
	F3 N1
	F4 ext.E0
	F5 *S0
}

type S1 struct {
	f0 complex64
	F1 bool
	F2 N0
	F3 [1][]uint64
	f4 complex64
	F5 map[string]*S0
}

type S2 struct {
	F0 K0
}

type S3 struct {
	f0 rune
	F1 [1]int
	f2 int8
	K1
	f4 ext.Key
	F5 []byte
}
